/-
  TE.Lemmas.FamStat — generic part of the per-family `StatCat` development
  (C12 / C03 / C01):

    * `StatCat`            the law "statistic of a concatenation = sum of the statistics"
                           (definitionally `TE.C12.StatCat`, which lives in a Props file);
    * what follows from it for *every* `outA`: `BatchingIrrelevant`, `ClassEqFunctional`,
      `MergeTreeEqFunctional` (and the order-carrying variants for list accumulators);
    * `statCat_of_cat2`    a two-batch law `stat (b₁ ++ b₂) = stat b₁ + stat b₂` suffices;
    * `statCat_comap`      transport along a per-sample map (threshold, arg-max, …);
    * the zero-padding toolkit (`padd` / `ppadd` on vectors of equal length) and the
      `zip`/`++` toolkit used by the per-family files TE/Lemmas/FamStat*.lean.
-/
import TE.Lemmas.Parts
import TE.Model.Fams
namespace TE.FamStat
open TE TE.Fams

variable {B B' O A α β γ : Type}

/-- `catB` concatenates batches along the sample dimension; the statistic of a
    concatenation of valid batches is the sum of their statistics. -/
def StatCat (M : Acc A) (stat : B → Except Err A) (catB : List B → B) : Prop :=
  ∀ bs : List B, bs ≠ [] → (∀ b ∈ bs, ∃ a, stat b = .ok a) →
    stat (catB bs) = .ok (accL M (statT M stat) bs)

/-! ### running an additive class on valid batches -/

theorem eval_update (M : Acc A) (stat : B → Except Err A) (outA : A → Except Err O)
    (h : Hist B) (b : B) :
    eval (additive M stat outA) (Hist.update h b)
      = (eval (additive M stat outA) h >>= fun s => (additive M stat outA).upd s b) := by
  simp [eval]

theorem eval_foldl_update (M : Acc A) (stat : B → Except Err A) (outA : A → Except Err O)
    (bs : List B) (hv : ∀ b ∈ bs, ∃ a, stat b = .ok a) (h : Hist B) (s : A)
    (hs : eval (additive M stat outA) h = .ok s) :
    eval (additive M stat outA) (bs.foldl Hist.update h)
      = .ok (bs.foldl (fun a b => M.add a (statT M stat b)) s) := by
  induction bs generalizing h s with
  | nil => simpa using hs
  | cons b bs ih =>
    simp only [List.foldl_cons]
    apply ih (fun b' hb' => hv b' (List.mem_cons_of_mem _ hb'))
    obtain ⟨a, ha⟩ := hv b (List.mem_cons_self ..)
    rw [eval_update, hs]
    simp [additive, ha, statT, bind, Except.bind]

/-- a single instance fed valid batches holds the accumulated statistics. -/
theorem eval_single (M : Acc A) (stat : B → Except Err A) (outA : A → Except Err O)
    (bs : List B) (hv : ∀ b ∈ bs, ∃ a, stat b = .ok a) :
    eval (additive M stat outA) (single bs) = .ok (accL M (statT M stat) bs) :=
  eval_foldl_update M stat outA bs hv Hist.fresh M.zero rfl

private theorem bind_ok' {x : Except Err α} {f : α → Except Err β} {b : β}
    (h : (x >>= f) = .ok b) : ∃ a, x = .ok a ∧ f a = .ok b := by
  cases x with
  | error e => simp [bind, Except.bind] at h
  | ok a => exact ⟨a, rfl, by simpa [bind, Except.bind] using h⟩

mutual
/-- every batch alive in a history that ran without error passed validation. -/
theorem eval_valid (M : Acc A) (stat : B → Except Err A) (outA : A → Except Err O) :
    ∀ (h : Hist B) (s : A), eval (additive M stat outA) h = .ok s →
      ∀ b ∈ flatten h, ∃ a, stat b = .ok a
  | .fresh, _, _ => by simp [flatten]
  | .update h b, s, he => by
    simp only [eval] at he
    obtain ⟨s₀, h₀, h₁⟩ := bind_ok' he
    intro b' hb'
    simp only [flatten, List.mem_append, List.mem_singleton] at hb'
    rcases hb' with hb' | rfl
    · exact eval_valid M stat outA h s₀ h₀ b' hb'
    · simp only [additive] at h₁
      obtain ⟨a, ha, _⟩ := bind_ok' h₁
      exact ⟨a, ha⟩
  | .merge h hs, s, he => by
    simp only [eval] at he
    obtain ⟨s₀, h₀, h₁⟩ := bind_ok' he
    obtain ⟨ss, h₂, _⟩ := bind_ok' h₁
    intro b' hb'
    simp only [flatten, List.mem_append] at hb'
    rcases hb' with hb' | hb'
    · exact eval_valid M stat outA h s₀ h₀ b' hb'
    · exact evalList_valid M stat outA hs ss h₂ b' hb'
  | .reset _, _, _ => by simp [flatten]
theorem evalList_valid (M : Acc A) (stat : B → Except Err A) (outA : A → Except Err O) :
    ∀ (hs : List (Hist B)) (ss : List A), evalList (additive M stat outA) hs = .ok ss →
      ∀ b ∈ flattenList hs, ∃ a, stat b = .ok a
  | [], _, _ => by simp [flattenList]
  | h :: hs, ss, he => by
    simp only [evalList] at he
    obtain ⟨s₀, h₀, h₁⟩ := bind_ok' he
    obtain ⟨ss', h₂, _⟩ := bind_ok' h₁
    intro b' hb'
    simp only [flattenList, List.mem_append] at hb'
    rcases hb' with hb' | hb'
    · exact eval_valid M stat outA h s₀ h₀ b' hb'
    · exact evalList_valid M stat outA hs ss' h₂ b' hb'
end

/-! ### what `StatCat` gives, for every `outA` -/

/-- **C12**: every way of cutting the same samples into (valid) batches, fed in any batch
    order, runs without error and reaches the same state as ONE update with everything. -/
def BatchingIrrelevant (M : Acc A) (stat : B → Except Err A) (catB : List B → B) : Prop :=
  ∀ {O : Type} (outA : A → Except Err O) (bs bs' : List B), bs ≠ [] → bs'.Perm bs →
    (∀ b ∈ bs, ∃ a, stat b = .ok a) →
    ∃ s, eval (additive M stat outA) (single [catB bs]) = .ok s ∧
         eval (additive M stat outA) (single bs') = .ok s

/-- order-carrying accumulators: any *consecutive* batching. -/
def BatchingIrrelevantOrdered (M : Acc A) (stat : B → Except Err A) (catB : List B → B) : Prop :=
  ∀ {O : Type} (outA : A → Except Err O) (bs : List B), bs ≠ [] →
    (∀ b ∈ bs, ∃ a, stat b = .ok a) →
    ∃ s, eval (additive M stat outA) (single [catB bs]) = .ok s ∧
         eval (additive M stat outA) (single bs) = .ok s

/-- **C03**: the class fed any non-empty batching of valid batches computes what the
    functional `stat >=> outA` computes on the concatenation. -/
def ClassEqFunctional (M : Acc A) (stat : B → Except Err A) (catB : List B → B) : Prop :=
  ∀ {O : Type} (outA : A → Except Err O) (bs : List B), bs ≠ [] →
    (∀ b ∈ bs, ∃ a, stat b = .ok a) →
    ∃ s, eval (additive M stat outA) (single bs) = .ok s ∧
         (additive M stat outA).out s = (stat (catB bs) >>= outA)

/-- **C01**: whatever tree of `update` / `merge_state` / `reset` calls produced a state, that
    state is the sum of the statistics of the batches still alive, and for every ordering `bs`
    of those batches it is the state of one instance fed `bs`, whose `compute` is the
    functional applied to the concatenation of `bs`. -/
def MergeTreeEqFunctional (M : Acc A) (stat : B → Except Err A) (catB : List B → B) : Prop :=
  ∀ {O : Type} (outA : A → Except Err O) (h : Hist B) (s : A),
    eval (additive M stat outA) h = .ok s →
    s = accL M (statT M stat) (flatten h) ∧
    ∀ bs : List B, bs.Perm (flatten h) →
      eval (additive M stat outA) (single bs) = .ok s ∧
      (bs ≠ [] → (additive M stat outA).out s = (stat (catB bs) >>= outA))

/-- order-carrying accumulators: the live batches in merge order. -/
def MergeTreeEqFunctionalOrdered (M : Acc A) (stat : B → Except Err A) (catB : List B → B) : Prop :=
  ∀ {O : Type} (outA : A → Except Err O) (h : Hist B) (s : A),
    eval (additive M stat outA) h = .ok s →
    s = accL M (statT M stat) (flatten h) ∧
    eval (additive M stat outA) (single (flatten h)) = .ok s ∧
    (flatten h ≠ [] → (additive M stat outA).out s = (stat (catB (flatten h)) >>= outA))

theorem statT_of_ok (M : Acc A) {stat : B → Except Err A} {b : B} {a : A} (h : stat b = .ok a) :
    statT M stat b = a := by simp [statT, h]

theorem batching_of_statCat (M : Acc A) (L : CommLaws M) {stat : B → Except Err A}
    {catB : List B → B} (hc : StatCat M stat catB) : BatchingIrrelevant M stat catB := by
  intro O outA bs bs' hne hp hv
  refine ⟨accL M (statT M stat) bs, ?_, ?_⟩
  · rw [eval_single M stat outA [catB bs] (by
      intro b hb; rw [List.mem_singleton.mp hb]; exact ⟨_, hc bs hne hv⟩)]
    rw [accL_singleton M L.toLaws, statT_of_ok M (hc bs hne hv)]
  · rw [eval_single M stat outA bs' (fun b hb => hv b (hp.mem_iff.mp hb)), accL_perm M L _ hp]

theorem batching_ordered_of_statCat (M : Acc A) (L : Laws M) {stat : B → Except Err A}
    {catB : List B → B} (hc : StatCat M stat catB) : BatchingIrrelevantOrdered M stat catB := by
  intro O outA bs hne hv
  refine ⟨accL M (statT M stat) bs, ?_, eval_single M stat outA bs hv⟩
  rw [eval_single M stat outA [catB bs] (by
    intro b hb; rw [List.mem_singleton.mp hb]; exact ⟨_, hc bs hne hv⟩)]
  rw [accL_singleton M L, statT_of_ok M (hc bs hne hv)]

theorem classEq_of_statCat (M : Acc A) {stat : B → Except Err A}
    {catB : List B → B} (hc : StatCat M stat catB) : ClassEqFunctional M stat catB := by
  intro O outA bs hne hv
  refine ⟨accL M (statT M stat) bs, eval_single M stat outA bs hv, ?_⟩
  rw [hc bs hne hv]
  rfl

theorem mergeTree_of_statCat (M : Acc A) (L : CommLaws M) {stat : B → Except Err A}
    {catB : List B → B} (hc : StatCat M stat catB) : MergeTreeEqFunctional M stat catB := by
  intro O outA h s he
  have hs := (refines (additive_sim M stat outA) L.toLaws h s he).2
  simp only [id] at hs
  have hv := eval_valid M stat outA h s he
  refine ⟨hs, ?_⟩
  intro bs hp
  have hv' : ∀ b ∈ bs, ∃ a, stat b = .ok a := fun b hb => hv b (hp.mem_iff.mp hb)
  have e : accL M (statT M stat) bs = s := by rw [hs, accL_perm M L _ hp]
  refine ⟨by rw [eval_single M stat outA bs hv', e], ?_⟩
  intro hne
  rw [hc bs hne hv', e]
  rfl

theorem mergeTree_ordered_of_statCat (M : Acc A) (L : Laws M) {stat : B → Except Err A}
    {catB : List B → B} (hc : StatCat M stat catB) : MergeTreeEqFunctionalOrdered M stat catB := by
  intro O outA h s he
  have hs := (refines (additive_sim M stat outA) L h s he).2
  simp only [id] at hs
  have hv := eval_valid M stat outA h s he
  refine ⟨hs, by rw [eval_single M stat outA _ hv, hs], ?_⟩
  intro hne
  rw [hc _ hne hv, hs]
  rfl

/-! ### building `StatCat` -/

/-- a two-batch law suffices. -/
theorem statCat_of_cat2 (M : Acc A) (L : Laws M) (stat : B → Except Err A) (catB : List B → B)
    (cat2 : B → B → B)
    (h1 : ∀ b a, stat b = .ok a → stat (catB [b]) = .ok a)
    (hc : ∀ b bs, bs ≠ [] → catB (b :: bs) = cat2 b (catB bs))
    (h2 : ∀ b₁ b₂ a₁ a₂, stat b₁ = .ok a₁ → stat b₂ = .ok a₂ →
      stat (cat2 b₁ b₂) = .ok (M.add a₁ a₂)) :
    StatCat M stat catB := by
  intro bs
  induction bs with
  | nil => intro h; exact absurd rfl h
  | cons b bs ih =>
    intro _ hv
    obtain ⟨a, ha⟩ := hv b (List.mem_cons_self ..)
    have e : b :: bs = [b] ++ bs := rfl
    by_cases hbs : bs = []
    · subst hbs
      rw [accL_singleton M L, statT_of_ok M ha]
      exact h1 b a ha
    · have hv' : ∀ b' ∈ bs, ∃ a, stat b' = .ok a := fun b' hb' => hv b' (List.mem_cons_of_mem _ hb')
      rw [hc b bs hbs, e, accL_append M L, accL_singleton M L, statT_of_ok M ha]
      exact h2 _ _ _ _ ha (ih hbs hv')

theorem accL_map (M : Acc A) (stat : B → A) (g : B' → B) (bs : List B') :
    accL M stat (bs.map g) = accL M (fun b => stat (g b)) bs := by
  unfold accL
  rw [List.foldl_map]

/-- transport along a map of batches that commutes with concatenation
    (a per-sample transformation: threshold, arg-max of the logit rows, …). -/
theorem statCat_comap (M : Acc A) {stat : B → Except Err A} {catB : List B → B}
    (hc : StatCat M stat catB) (g : B' → B) (catB' : List B' → B')
    (hg : ∀ bs, g (catB' bs) = catB (bs.map g)) :
    StatCat M (fun b => stat (g b)) catB' := by
  intro bs hne hv
  show stat (g (catB' bs)) = _
  rw [hg, hc (bs.map g) (by simpa using hne) (by
    intro b hb
    obtain ⟨b', hb', rfl⟩ := List.mem_map.mp hb
    exact hv b' hb')]
  rw [accL_map]
  rfl

/-- cache-all families: validation + the batch's samples. -/
theorem statCat_cache (valid : B → Except Err Unit) (samples : B → List α) (catB : List B → B)
    (hvalid : ∀ bs, bs ≠ [] → (∀ b ∈ bs, valid b = .ok ()) → valid (catB bs) = .ok ())
    (hs : ∀ bs, (∀ b ∈ bs, valid b = .ok ()) → samples (catB bs) = (bs.map samples).flatten) :
    StatCat (listAcc α) (cacheStat valid samples) catB := by
  have hok : ∀ b, (∃ a, cacheStat valid samples b = .ok a) → valid b = .ok () := by
    intro b ⟨a, ha⟩
    unfold cacheStat at ha
    cases hvb : valid b with
    | ok u => rfl
    | error e => rw [hvb] at ha; simp [Except.map] at ha
  intro bs hne hv
  have hv' : ∀ b ∈ bs, valid b = .ok () := fun b hb => hok b (hv b hb)
  rw [accL_listAcc]
  unfold cacheStat
  rw [hvalid bs hne hv', hs bs hv']
  simp only [Except.map]
  congr 2
  apply List.map_congr_left
  intro b hb
  simp [statT, hv' b hb]

/-! ### zero-padding addition on vectors of equal length -/

@[simp] theorem padd_single (a b : Q) : padd [a] [b] = [a + b] := rfl

theorem padd_eq_zipWith : ∀ (a b : List Q), a.length = b.length → padd a b = List.zipWith (· + ·) a b
  | [], [], _ => rfl
  | [], _ :: _, h => by simp at h
  | _ :: _, [], h => by simp at h
  | x :: a, y :: b, h => by
    simp only [padd, List.zipWith_cons_cons]
    rw [padd_eq_zipWith a b (by simpa using h)]

theorem padd_length (a b : List Q) (h : a.length = b.length) : (padd a b).length = a.length := by
  rw [padd_eq_zipWith a b h]; simp [h]

theorem padd_map (l : List α) (f g : α → Q) :
    padd (l.map f) (l.map g) = l.map fun x => f x + g x := by
  induction l with
  | nil => rfl
  | cons x l ih => simp only [List.map_cons, padd, ih]

theorem padd_append (a b c d : List Q) (h : a.length = c.length) :
    padd (a ++ b) (c ++ d) = padd a c ++ padd b d := by
  induction a generalizing c with
  | nil =>
    cases c with
    | nil => rfl
    | cons y c => simp at h
  | cons x a ih =>
    cases c with
    | nil => simp at h
    | cons y c =>
      simp only [List.cons_append, padd]
      rw [ih c (by simpa using h)]

theorem padd_flatten_map (l : List α) (F G : α → List Q)
    (h : ∀ x ∈ l, (F x).length = (G x).length) :
    padd (l.map F).flatten (l.map G).flatten = (l.map fun x => padd (F x) (G x)).flatten := by
  induction l with
  | nil => rfl
  | cons x l ih =>
    simp only [List.map_cons, List.flatten_cons]
    rw [padd_append _ _ _ _ (h x (List.mem_cons_self ..)),
      ih (fun y hy => h y (List.mem_cons_of_mem _ hy))]

/-- two matrices given entrywise over the same index lists add entrywise (flattened). -/
theorem padd_flatten_map_map (l : List α) (m : List β) (f g : α → β → Q) :
    padd (l.map fun x => m.map (f x)).flatten (l.map fun x => m.map (g x)).flatten
      = (l.map fun x => m.map fun y => f x y + g x y).flatten := by
  rw [padd_flatten_map l _ _ (by intro x _; simp)]
  congr 2
  funext x
  exact padd_map m (f x) (g x)

@[simp] theorem ppadd_cons (x y : List Q) (a b : Parts) :
    ppadd (x :: a) (y :: b) = padd x y :: ppadd a b := rfl
@[simp] theorem ppadd_nil_nil : ppadd [] [] = [] := rfl

/-! ### sums, counts, `zip` and `++` -/

theorem foldl_add_eq (l : List Q) (x : Q) : l.foldl (· + ·) x = x + l.sum := by
  induction l generalizing x with
  | nil => simp [Rat.add_zero]
  | cons a l ih => simp only [List.foldl_cons, List.sum_cons, ih]; grind

theorem qsum_eq_sum (l : List Q) : qsum l = l.sum := by
  unfold qsum; rw [foldl_add_eq]; grind

theorem qsum_append (a b : List Q) : qsum (a ++ b) = qsum a + qsum b := by
  simp only [qsum_eq_sum, List.sum_append]

theorem qcount_append (p : α → Bool) (a b : List α) : qcount p (a ++ b) = qcount p a + qcount p b := by
  simp only [qcount, List.countP_append, Rat.natCast_add]

theorem natCast_length_append (a b : List α) :
    (((a ++ b).length : Nat) : Q) = ((a.length : Nat) : Q) + ((b.length : Nat) : Q) := by
  rw [List.length_append, Rat.natCast_add]

theorem zip_append' (a₁ a₂ : List α) (b₁ b₂ : List β) (h : a₁.length = b₁.length) :
    (a₁ ++ a₂).zip (b₁ ++ b₂) = a₁.zip b₁ ++ a₂.zip b₂ := List.zip_append h

theorem all_append' (p : α → Bool) (a b : List α) : (a ++ b).all p = (a.all p && b.all p) := by
  simp

/-! ### the batch concatenations -/

theorem catPair_one (b : List α × List β) : catPair [b] = b := by
  simp [catPair]

theorem catPair_cons (b : List α × List β) (bs : List (List α × List β)) :
    catPair (b :: bs) = (b.1 ++ (catPair bs).1, b.2 ++ (catPair bs).2) := by
  simp [catPair]

/-- `(input, target)` batches: the two-batch law in its plainest form. -/
theorem statCat_pair (M : Acc A) (L : Laws M) (stat : List α × List β → Except Err A)
    (h2 : ∀ x₁ y₁ x₂ y₂ a₁ a₂, stat (x₁, y₁) = .ok a₁ → stat (x₂, y₂) = .ok a₂ →
      stat (x₁ ++ x₂, y₁ ++ y₂) = .ok (M.add a₁ a₂)) :
    StatCat M stat catPair :=
  statCat_of_cat2 M L stat catPair (fun b c => (b.1 ++ c.1, b.2 ++ c.2))
    (fun b a h => by rw [catPair_one]; exact h)
    (fun b bs _ => catPair_cons b bs)
    (fun b₁ b₂ a₁ a₂ h₁ h₂ => h2 b₁.1 b₁.2 b₂.1 b₂.2 a₁ a₂ h₁ h₂)

theorem appendRows_replicate_nil (a : List (List α)) (r : Nat) (h : a.length = r) :
    appendRows a (List.replicate r []) = a := by
  subst h
  unfold appendRows
  induction a with
  | nil => rfl
  | cons x a ih => simp [List.replicate_succ, ih]

theorem catRows_one (r : Nat) (a : List (List α)) (h : a.length = r) : catRows r [a] = a := by
  simp [catRows, appendRows_replicate_nil a r h]

theorem catRows_cons (r : Nat) (a : List (List α)) (bs : List (List (List α))) :
    catRows r (a :: bs) = appendRows a (catRows r bs) := rfl

theorem appendRows_length (a b : List (List α)) (h : a.length = b.length) :
    (appendRows a b).length = a.length := by
  simp [appendRows, h]

theorem catRows_length (r : Nat) (bs : List (List (List α))) (h : ∀ b ∈ bs, b.length = r) :
    (catRows r bs).length = r := by
  induction bs with
  | nil => simp [catRows]
  | cons a bs ih =>
    rw [catRows_cons, appendRows_length]
    · exact h a (List.mem_cons_self ..)
    · rw [ih (fun b hb => h b (List.mem_cons_of_mem _ hb))]; exact h a (List.mem_cons_self ..)

/-- decidable form of "every batch passes validation" (for concrete examples). -/
theorem valid_of_all (stat : B → Except Err A) (bs : List B)
    (h : bs.all (fun b => (stat b).toOption.isSome) = true) : ∀ b ∈ bs, ∃ a, stat b = .ok a := by
  intro b hb
  have := List.all_eq_true.mp h b hb
  cases hs : stat b with
  | ok a => exact ⟨a, rfl⟩
  | error e => simp [hs, Except.toOption] at this

end TE.FamStat
