/-
  TE.Lemmas.SyncObj — object collectives on a whole group, `_sync_obj_states`, and the
  shape of a column of `gathered_states`.
-/
import TE.Lemmas.SyncSend
namespace TE.Sync
open TE.Spec.Sync

/-- the members' environments of an `n`-member group in a world of `gws`. -/
def envOf (n gws : Nat) (dst : Option Nat) (junk : Nat → Q) (i : Nat) : Env := ⟨i, n, gws, dst, junk i⟩

theorem yields_allGatherObj (g : List Nat) (n : Nat) (O : Nat → Obj) :
    Yields g ((List.range n).map fun i => allGatherObj (O i))
      ((List.range n).map fun _ => (List.range n).map O) := by
  simp only [allGatherObj]
  apply Yields.coll_map (H := fun _ => Resp.objs ((List.range n).map O))
  · exact exchange_allGatherObj g (List.range n) O
  · exact yields_done g (List.range n) _

/-! ### columns -/

/-- a column whose first cells are `F 0 … F (n-1)`, followed by `back`. -/
def colF (n : Nat) (F : Nat → TState) (back : List TState) : List TState := (List.range n).map F ++ back

theorem assignCol_append (front back vals : List TState) (h : vals.length = front.length) :
    assignCol (front ++ back) vals = vals ++ back := by
  induction front generalizing vals with
  | nil =>
    cases vals with
    | nil => cases back <;> rfl
    | cons v vs => simp at h
  | cons c front ih =>
    cases vals with
    | nil => simp at h
    | cons v vs => simp [assignCol, ih vs (by simpa using h)]

theorem replicate_split (n gws : Nat) (h : n ≤ gws) (c : TState) :
    List.replicate gws c = colF n (fun _ => c) (List.replicate (gws - n) c) := by
  simp only [colF]
  rw [List.map_const', List.length_range, List.replicate_append_replicate, Nat.add_sub_cancel' h]

/-- the column every member starts with. -/
def col0 (gws : Nat) : List TState := List.replicate gws placeholder

/-- after a state has been synced, a receiving member holds the members' values in the first `n`
    cells and placeholders in the surplus cells; a non-receiving member still holds placeholders. -/
def colAfter (n gws : Nat) (dst : Option Nat) (V : Nat → TState) (i : Nat) : List TState :=
  if receives dst i then colF n V (List.replicate (gws - n) placeholder) else col0 gws

theorem assignCol_col0 (n gws : Nat) (h : n ≤ gws) (V : Nat → TState) :
    assignCol (col0 gws) ((List.range n).map V) = colF n V (List.replicate (gws - n) placeholder) := by
  rw [col0, replicate_split n gws h, colF, assignCol_append _ _ _ (by simp)]
  rfl

/-- `_sync_obj_states`: ints and floats arrive as they were sent. -/
theorem yields_syncObj (g : List Nat) (n gws : Nat) (dst : Option Nat) (junk : Nat → Q)
    (hd : DstOk g dst) (hn : n ≤ gws) (O : Nat → Obj) :
    Yields g ((List.range n).map fun i => syncObj (envOf n gws dst junk i) (O i) (col0 gws))
      ((List.range n).map fun i => colAfter n gws dst (fun j => objState (O j)) i) := by
  have hfin : finishObj (col0 gws) ((List.range n).map O) =
      Prog.done (colF n (fun j => objState (O j)) (List.replicate (gws - n) placeholder)) := by
    have hlen : ¬ ((List.range n).map O).length > (col0 gws).length := by simp [col0]; exact hn
    simp only [finishObj, hlen, if_false, List.map_map]
    rw [assignCol_col0 n gws hn]; rfl
  cases dst with
  | none =>
    simp only [syncObj, envOf]
    apply Yields.coll_map (H := fun _ => Resp.objs ((List.range n).map O))
    · exact exchange_allGatherObj g (List.range n) O
    · simp only [recvObjCol, hfin]
      rw [List.map_congr_left (g := fun i => Prog.done (colAfter n gws none (fun j => objState (O j)) i))]
      · exact yields_done g (List.range n) _
      · intro i _; simp [colAfter, receives]
  | some d =>
    simp only [syncObj, envOf]
    apply Yields.coll_map (H := fun i => if i == d then Resp.objs ((List.range n).map O) else Resp.unit)
    · exact exchange_gatherObj g d hd (List.range n) id (range_idx n) O
    · rw [List.map_congr_left (g := fun i => Prog.done (colAfter n gws (some d) (fun j => objState (O j)) i))]
      · exact yields_done g (List.range n) _
      · intro i _
        cases hid : i == d <;> simp [colAfter, receives, hid, recvObjCol, hfin]

/-- `_sync_tensor_states` -/
theorem yields_syncTensor (g : List Nat) (n gws : Nat) (dst : Option Nat) (junk : Nat → Q)
    (hd : DstOk g dst) (hn : n ≤ gws) (T : Nat → Tensor) (dt : DType) (k : Nat) (hT : Sendable n T dt k) :
    Yields g ((List.range n).map fun i => syncTensor (envOf n gws dst junk i) (T i) (col0 gws))
      ((List.range n).map fun i => colAfter n gws dst (fun j => TState.tensor (T j)) i) := by
  simp only [syncTensor, envOf]
  apply Yields.bind_map (G := fun i => gathered n dst T i) (yields_sendTensors g n gws dst junk hd T dt k hT)
  rw [List.map_congr_left (g := fun i => Prog.done (colAfter n gws dst (fun j => TState.tensor (T j)) i))]
  · exact yields_done g (List.range n) _
  · intro i _
    have hlen : ¬ ((List.range n).map T).length > (col0 gws).length := by simp [col0]; exact hn
    cases hr : receives dst i
    · simp [gathered, hr, syncTensorK, colAfter]
    · simp only [gathered, hr, if_true, allOf, syncTensorK, hlen, if_false, colAfter, List.map_map]
      rw [assignCol_col0 n gws hn]; rfl

end TE.Sync
