/-
  TE.Lemmas.SyncObj — object collectives on a whole group, `_sync_obj_states`,
  `_sync_tensor_states`, and the shape of a column of `gathered_states`.
-/
import TE.Lemmas.SyncSend
namespace TE.Sync
open TE.Spec.Sync

theorem yields_allGatherObj (g : List Nat) (n : Nat) (O : Nat → Obj) :
    Yields g ((List.range n).map fun i => allGatherObj (O i))
      ((List.range n).map fun _ => (List.range n).map O) := by
  simp only [allGatherObj]
  apply Yields.coll_map (H := fun _ => Resp.objs ((List.range n).map O))
  · exact exchange_allGatherObj g (List.range n) O
  · exact yields_done g (List.range n) _

/-! ### columns -/

/-- a column whose cells are `F 0 … F (n-1)`. -/
def colF (n : Nat) (F : Nat → TState) : List TState := (List.range n).map F

theorem assignCol_full (col vals : List TState) (h : vals.length = col.length) :
    assignCol col vals = vals := by
  induction col generalizing vals with
  | nil =>
    cases vals with
    | nil => rfl
    | cons v vs => simp at h
  | cons c col ih =>
    cases vals with
    | nil => simp at h
    | cons v vs => simp [assignCol, ih vs (by simpa using h)]

/-- the column every member starts with: one placeholder per member of the group. -/
def col0 (n : Nat) : List TState := List.replicate n placeholder

theorem col0_eq (n : Nat) : col0 n = colF n fun _ => placeholder := by
  simp [col0, colF, List.map_const']

/-- after a state has been synced, a receiving member holds the members' values; a non-receiving
    member still holds placeholders. -/
def colAfter (n : Nat) (dst : Option Nat) (V : Nat → TState) (i : Nat) : List TState :=
  if receives dst i then colF n V else col0 n

theorem assignCol_col0 (n : Nat) (V : Nat → TState) :
    assignCol (col0 n) ((List.range n).map V) = colF n V :=
  assignCol_full _ _ (by simp [col0])

/-- `_sync_obj_states`: ints and floats arrive as they were sent. -/
theorem yields_syncObj (g : List Nat) (n : Nat) (hg : IsGroup g n) (dst : Option Nat) (junk : Nat → Q)
    (hd : DstIn n dst) (O : Nat → Obj) :
    Yields g ((List.range n).map fun i => syncObj (envOf g n dst junk i) (O i) (col0 n))
      ((List.range n).map fun i => colAfter n dst (fun j => objState (O j)) i) := by
  have hfin : finishObj (col0 n) ((List.range n).map O) = Prog.done (colF n (fun j => objState (O j))) := by
    have hlen : ¬ ((List.range n).map O).length > (col0 n).length := by simp [col0]
    simp only [finishObj, hlen, if_false, List.map_map]
    rw [assignCol_col0 n]; rfl
  cases dst with
  | none =>
    simp only [syncObj, envOf]
    apply Yields.coll_map (H := fun _ => Resp.objs ((List.range n).map O))
    · exact exchange_allGatherObj g (List.range n) O
    · simp only [recvObjCol, hfin]
      rw [List.map_congr_left (g := fun i => Prog.done (colAfter n none (fun j => objState (O j)) i))]
      · exact yields_done g (List.range n) _
      · intro i _; simp [colAfter, receives]
  | some d =>
    have hdl : d < g.length := by rw [hg.len]; exact hd
    obtain ⟨hget, hroot⟩ := rootOk_of_nodup g hg.nodup d hdl
    simp only [syncObj, envOf, toGlobal, hget]
    apply Yields.coll_map (H := fun i => if i == d then Resp.objs ((List.range n).map O) else Resp.unit)
    · exact exchange_gatherObj g d g[d] hroot (List.range n) id (range_idx n) O
    · rw [List.map_congr_left (g := fun i => Prog.done (colAfter n (some d) (fun j => objState (O j)) i))]
      · exact yields_done g (List.range n) _
      · intro i _
        cases hid : i == d <;> simp [colAfter, receives, hid, recvObjCol, hfin]

/-- `_sync_tensor_states` -/
theorem yields_syncTensor (g : List Nat) (n : Nat) (hg : IsGroup g n) (dst : Option Nat) (junk : Nat → Q)
    (hd : DstIn n dst) (T : Nat → Tensor) (dt : DType) (k : Nat) (hT : Sendable n T dt k) :
    Yields g ((List.range n).map fun i => syncTensor (envOf g n dst junk i) (T i) (col0 n))
      ((List.range n).map fun i => colAfter n dst (fun j => TState.tensor (T j)) i) := by
  simp only [syncTensor]
  apply Yields.bind_map (G := fun i => gathered n dst T i) (yields_sendTensors g n hg dst junk hd T dt k hT)
  rw [List.map_congr_left (g := fun i => Prog.done (colAfter n dst (fun j => TState.tensor (T j)) i))]
  · exact yields_done g (List.range n) _
  · intro i _
    have hlen : ¬ ((List.range n).map T).length > (col0 n).length := by simp [col0]
    cases hr : receives dst i
    · simp [gathered, hr, syncTensorK, colAfter]
    · simp only [gathered, hr, if_true, allOf, syncTensorK, hlen, if_false, colAfter, List.map_map]
      rw [assignCol_col0 n]; rfl

end TE.Sync
