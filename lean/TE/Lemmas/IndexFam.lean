/-
  TE.Lemmas.IndexFam — index-range lemmas on the typed models of the metric families
  (C14, index safety): arg-max, scatter, confusion matrix, binned codes, gather / ranks,
  top-k, retrieval partition, perplexity, text tables.
-/
import TE.Model.Index
import TE.Model.Count
import TE.Model.Binned
import TE.Model.Rank
import TE.Model.Agg
import TE.Model.Text
import TE.Lemmas.Index
import TE.Lemmas.Binned
import TE.Lemmas.RankSort
import TE.Lemmas.RankRetrieval
import TE.Lemmas.TextLev
namespace TE.IndexL
open TE TE.Index

/-! ### arg-max: an index by construction -/

theorem argmax_go (l : List Q) (i best : Nat) (bv : Q) :
    Count.argmaxFirst.go l i best bv = best ∨
      (i ≤ Count.argmaxFirst.go l i best bv ∧ Count.argmaxFirst.go l i best bv < i + l.length) := by
  induction l generalizing i best bv with
  | nil => left; rfl
  | cons x xs ih =>
    simp only [Count.argmaxFirst.go]
    split
    · rcases ih (i + 1) i x with h | ⟨h1, h2⟩
      · right; rw [h]; simp
      · right; simp only [List.length_cons]; omega
    · rcases ih (i + 1) best bv with h | ⟨h1, h2⟩
      · left; exact h
      · right; simp only [List.length_cons]; omega

theorem argmaxFirst_lt (row : List Q) (h : row ≠ []) : Count.argmaxFirst row < row.length := by
  cases row with
  | nil => exact absurd rfl h
  | cons x xs =>
    simp only [Count.argmaxFirst, List.length_cons]
    rcases argmax_go xs 1 0 x with h | ⟨_, h2⟩
    · rw [h]; omega
    · omega

/-! ### scatter -/

theorem scatterAdd_ok_idx (n : Nat) (idx : List Nat) (vals r : List Q)
    (h : Count.scatterAdd n idx vals = .ok r) : ∀ i ∈ idx, i < n := by
  unfold Count.scatterAdd at h
  split at h
  · rename_i ha
    intro i hi
    simpa using List.all_eq_true.mp ha i hi
  · simp at h

theorem scatterAdd_err (n : Nat) (idx : List Nat) (vals : List Q) (i : Nat) (hi : i ∈ idx) (hn : n ≤ i) :
    Count.scatterAdd n idx vals = .error .runtime := by
  unfold Count.scatterAdd
  rw [if_neg]
  intro ha
  have := List.all_eq_true.mp ha i hi
  simp at this; omega

theorem scatterAddI_ok_idx (n : Nat) (idx : List Int) (vals r : List Q)
    (h : scatterAddI n idx vals = .ok r) : ∀ i ∈ idx, 0 ≤ i ∧ i < (n : Int) := by
  unfold scatterAddI at h
  split at h
  · rename_i ha
    intro i hi
    exact (inRange_iff n i).mp (List.all_eq_true.mp ha i hi)
  · simp at h

theorem scatterAddI_err (n : Nat) (idx : List Int) (vals : List Q) (i : Int) (hi : i ∈ idx)
    (hn : i < 0 ∨ (n : Int) ≤ i) : scatterAddI n idx vals = .error .runtime := by
  unfold scatterAddI
  rw [if_neg]
  intro ha
  have := (inRange_iff n i).mp (List.all_eq_true.mp ha i hi)
  omega

theorem vzero_length (n : Nat) : (vzero n).length = n := by simp [vzero]

theorem bump_length (acc : List Q) (i : Nat) (v : Q) : (Count.bump acc i v).length = acc.length := by
  simp [Count.bump]

/-- on in-range indices every kernel behaviour computes the model's fold of `bump`. -/
theorem applyAll_scatterOps (b : Behaviour) :
    ∀ (idx : List Int) (vals : List Q) (buf : List Q), (∀ i ∈ idx, 0 ≤ i ∧ i < (buf.length : Int)) →
      applyAll b buf (scatterOps idx vals)
        = .ok (((idx.map Int.toNat).zip vals).foldl (fun a p => Count.bump a p.1 p.2) buf)
  | [], vals, buf, _ => by simp [scatterOps, applyAll]
  | i :: idx, [], buf, _ => by simp [scatterOps, applyAll]
  | i :: idx, v :: vals, buf, h => by
    have hi := h i (by simp)
    have e := modifyAt_inRange b buf i (· + v) hi
    have ih := applyAll_scatterOps b idx vals (buf.modify i.toNat (· + v))
      (fun j hj => by simpa using h j (by simp [hj]))
    simp only [scatterOps, List.zip_cons_cons, List.map_cons, applyAll, e] at ih ⊢
    rw [ih]
    simp [Count.bump]

/-- the raising scatter on user labels: when it answers, it answers what EVERY kernel kind would
    have answered on these (then necessarily in-range) indices. -/
theorem scatterAddI_eq_kernel (b : Behaviour) (n : Nat) (idx : List Int) (vals r : List Q)
    (h : scatterAddI n idx vals = .ok r) : applyAll b (vzero n) (scatterOps idx vals) = .ok r := by
  have hr := scatterAddI_ok_idx n idx vals r h
  rw [applyAll_scatterOps b idx vals (vzero n) (by simpa [vzero_length] using hr)]
  unfold scatterAddI at h
  split at h
  · unfold Count.scatterAdd at h
    split at h
    · simpa using h
    · simp at h
  · simp at h

/-! ### confusion matrix -/

theorem confusionUpdate_ok_idx (preds labs : List Nat) (C : Nat) (m : Mat)
    (h : Count.confusionUpdate preds labs C = .ok m) :
    (∀ p ∈ preds, p < C) ∧ (∀ l ∈ labs, l < C) := by
  unfold Count.confusionUpdate at h
  split at h
  · rename_i ha
    simp only [Bool.and_eq_true] at ha
    exact ⟨fun p hp => by simpa using List.all_eq_true.mp ha.1 p hp,
           fun l hl => by simpa using List.all_eq_true.mp ha.2 l hl⟩
  · simp at h

theorem confusionUpdate_err (preds labs : List Nat) (C : Nat)
    (h : (∃ p ∈ preds, C ≤ p) ∨ (∃ l ∈ labs, C ≤ l)) :
    Count.confusionUpdate preds labs C = .error .runtime := by
  unfold Count.confusionUpdate
  rw [if_neg]
  intro ha
  simp only [Bool.and_eq_true] at ha
  rcases h with ⟨p, hp, hc⟩ | ⟨l, hl, hc⟩
  · have := List.all_eq_true.mp ha.1 p hp; simp at this; omega
  · have := List.all_eq_true.mp ha.2 l hl; simp at this; omega

theorem checkLabels_ok (C : Nat) (ls : List Int) (ns : List Nat) (h : checkLabels C ls = .ok ns) :
    ns = ls.map Int.toNat ∧ (∀ l ∈ ls, 0 ≤ l ∧ l < (C : Int)) ∧ (∀ n ∈ ns, n < C) := by
  unfold checkLabels at h
  split at h
  · simp at h
  · split at h
    · simp at h
    · split at h
      · simp at h
      · rename_i _ hup hlo
        simp only [Except.ok.injEq] at h
        have hr : ∀ l ∈ ls, 0 ≤ l ∧ l < (C : Int) := by
          intro l hl
          have h1 : ¬ ((C : Int) ≤ l) := by
            intro hc; exact hup (List.any_eq_true.mpr ⟨l, hl, by simpa using hc⟩)
          have h2 : ¬ (l < 0) := by
            intro hc; exact hlo (List.any_eq_true.mpr ⟨l, hl, by simpa using hc⟩)
          omega
        refine ⟨h.symm, hr, ?_⟩
        intro n hn
        rw [← h] at hn
        obtain ⟨l, hl, rfl⟩ := List.mem_map.mp hn
        have := hr l hl
        omega

theorem checkLabels_rejects (C : Nat) (ls : List Int) (l : Int) (hl : l ∈ ls) (hout : l < 0 ∨ (C : Int) ≤ l) :
    checkLabels C ls = .error .value := by
  unfold checkLabels
  have hne : ls.isEmpty = false := by cases ls <;> simp at hl ⊢
  rw [hne]
  simp only [Bool.false_eq_true, if_false]
  by_cases hup : ls.any (fun l => decide ((C : Int) ≤ l)) = true
  · rw [if_pos hup]
  · rw [if_neg hup]
    rcases hout with hneg | hbig
    · rw [if_pos (List.any_eq_true.mpr ⟨l, hl, by simpa using hneg⟩)]
    · exact absurd (List.any_eq_true.mpr ⟨l, hl, by simpa using hbig⟩) hup

/-- when both checks pass, the unchecked kernel's precondition holds: the accumulation succeeds. -/
theorem confusion_checked (C : Nat) (preds labs : List Int) (p l : List Nat)
    (hp : checkLabels C preds = .ok p) (hl : checkLabels C labs = .ok l) :
    ∃ m, Count.confusionUpdate p l C = .ok m := by
  obtain ⟨_, _, hp3⟩ := checkLabels_ok C preds p hp
  obtain ⟨_, _, hl3⟩ := checkLabels_ok C labs l hl
  unfold Count.confusionUpdate
  rw [if_pos]
  · exact ⟨_, rfl⟩
  · simp only [Bool.and_eq_true, List.all_eq_true, decide_eq_true_eq]
    exact ⟨hp3, hl3⟩

theorem confusionI_ok (C : Nat) (preds labs : List Int) (m : Mat) (h : confusionI C preds labs = .ok m) :
    (∀ p ∈ preds, 0 ≤ p ∧ p < (C : Int)) ∧ (∀ l ∈ labs, 0 ≤ l ∧ l < (C : Int)) := by
  unfold confusionI at h
  cases hp : checkLabels C preds with
  | error e => simp [hp, bind, Except.bind] at h
  | ok p =>
    cases hl : checkLabels C labs with
    | error e => simp [hp, hl, bind, Except.bind] at h
    | ok l => exact ⟨(checkLabels_ok C preds p hp).2.1, (checkLabels_ok C labs l hl).2.1⟩

/-- the check answers first: an out-of-range label is a `ValueError`, never the kernel's error
    (and never an unchecked access). -/
theorem confusionI_rejects (C : Nat) (preds labs : List Int) (hne : preds ≠ [])
    (h : (∃ p ∈ preds, p < 0 ∨ (C : Int) ≤ p) ∨ (∃ l ∈ labs, l < 0 ∨ (C : Int) ≤ l)) :
    confusionI C preds labs = .error .value := by
  unfold confusionI
  rcases h with ⟨p, hp, ho⟩ | ⟨l, hl, ho⟩
  · simp [checkLabels_rejects C preds p hp ho, bind, Except.bind]
  · cases hpc : checkLabels C preds with
    | error e =>
      -- the only other error of a non-empty tensor is the ValueError of its own range check
      unfold checkLabels at hpc
      have : preds.isEmpty = false := by cases preds <;> simp at hne ⊢
      rw [this] at hpc
      simp only [Bool.false_eq_true, if_false] at hpc
      split at hpc
      · cases hpc; simp [bind, Except.bind]
      · split at hpc
        · cases hpc; simp [bind, Except.bind]
        · simp at hpc
    | ok pp => simp [checkLabels_rejects C labs l hl ho, bind, Except.bind]


/-! ### count-based families: every label that reaches `scatter_` is a class index -/

private theorem bind_ok' {β γ : Type} {x : Except Err β} {f : β → Except Err γ} {c : γ}
    (h : (x >>= f) = .ok c) : ∃ a, x = .ok a ∧ f a = .ok c := by
  cases x with
  | error e => simp [bind, Except.bind] at h
  | ok a => exact ⟨a, rfl, by simpa [bind, Except.bind] using h⟩

open TE.Count in
theorem mcAccFromMask_ok (mask : List Q) (labs : List Nat) (avg : Avg) (C : Nat) (r : List Q × List Q)
    (hm : avg ≠ .micro) (h : mcAccFromMask mask labs avg C = .ok r) : ∀ l ∈ labs, l < C := by
  cases avg
  case micro => exact absurd rfl hm
  all_goals
    simp only [mcAccFromMask] at h
    obtain ⟨c, hc, _⟩ := bind_ok' h
    exact scatterAdd_ok_idx C labs mask c hc

open TE.Count in
theorem precisionUpdate_ok (preds labs : List Nat) (avg : Avg) (C : Nat) (s : PRF)
    (hm : avg ≠ .micro) (h : precisionUpdate preds labs avg C = .ok s) :
    (∀ l ∈ labs, l < C) ∧ ∀ p ∈ preds.zip labs, p.1 ≠ p.2 → p.1 < C := by
  cases avg
  case micro => exact absurd rfl hm
  all_goals
    simp only [precisionUpdate] at h
    obtain ⟨lab, hlab, h1⟩ := bind_ok' h
    obtain ⟨tp, _, h2⟩ := bind_ok' h1
    obtain ⟨fp, hfp, _⟩ := bind_ok' h2
    refine ⟨scatterAdd_ok_idx C labs _ lab hlab, ?_⟩
    intro p hp hne
    apply scatterAdd_ok_idx C _ _ fp hfp p.1
    exact List.mem_map.mpr ⟨p, List.mem_filter.mpr ⟨hp, by simpa using hne⟩, rfl⟩

open TE.Count in
theorem recallUpdate_ok (preds labs : List Nat) (avg : Avg) (C : Nat) (s : PRF)
    (hm : avg ≠ .micro) (h : recallUpdate preds labs avg C = .ok s) :
    (∀ l ∈ labs, l < C) ∧ ∀ p ∈ preds, p < C := by
  cases avg
  case micro => exact absurd rfl hm
  all_goals
    simp only [recallUpdate] at h
    obtain ⟨lab, hlab, h1⟩ := bind_ok' h
    obtain ⟨prd, hprd, _⟩ := bind_ok' h1
    exact ⟨scatterAdd_ok_idx C labs _ lab hlab, scatterAdd_ok_idx C preds _ prd hprd⟩

/-! ### binned codes -/

open TE.Binned in
theorem bucket_range (t : List Q) (x : Q) : -1 ≤ bucket t x ∧ bucket t x < (t.length : Int) := by
  have := BinnedL.ss_le_length t x
  unfold bucket; omega

open TE.Binned in
theorem flatCode_lt (S : Nat) (t : List Q) (x : Q) (slot bit : Nat) (hs : slot < S) (hb : bit ≤ 1) :
    flatCode S t x slot bit < 2 * (S : Int) * (t.length : Int) := by
  obtain ⟨_, h2⟩ := bucket_range t x
  unfold flatCode
  have hS : (0 : Int) ≤ (S : Int) := Int.natCast_nonneg S
  have h3 : (S : Int) * bucket t x ≤ (S : Int) * ((t.length : Int) - 1) :=
    Int.mul_le_mul_of_nonneg_left (by omega) hS
  have h4 : (S : Int) * ((t.length : Int) - 1) = (S : Int) * (t.length : Int) - (S : Int) := by
    rw [Int.mul_sub, Int.mul_one]
  have h5 : 2 * (S : Int) * (t.length : Int) = 2 * ((S : Int) * (t.length : Int)) := by
    rw [Int.mul_assoc]
  omega

open TE.Binned in
theorem flatCode_nonneg (S : Nat) (t : List Q) (x : Q) (slot bit : Nat) (h : 0 ≤ bucket t x) :
    0 ≤ flatCode S t x slot bit := by
  unfold flatCode
  have : (0 : Int) ≤ (S : Int) * bucket t x := Int.mul_nonneg (Int.natCast_nonneg S) h
  omega

open TE.Binned in
/-- a score below the first threshold gets a NEGATIVE code: `histc(min=0)` drops it — it is never
    counted in another threshold's / class's bin. -/
theorem flatCode_neg (S : Nat) (t : List Q) (x : Q) (slot bit : Nat) (h : bucket t x = -1)
    (hs : slot < S) (hb : bit ≤ 1) : flatCode S t x slot bit < 0 := by
  unfold flatCode
  rw [h]
  have : (S : Int) * (-1) = -(S : Int) := by rw [Int.mul_neg, Int.mul_one]
  omega

open TE.Binned in
theorem binaryCode_range (t : List Q) (x : Q) (y : Nat) (hy : y ≤ 1) :
    binaryCode t x y < 2 * (t.length : Int) ∧ (0 ≤ bucket t x → 0 ≤ binaryCode t x y) ∧
      (bucket t x = -1 → binaryCode t x y < 0) := by
  obtain ⟨_, h2⟩ := bucket_range t x
  unfold binaryCode
  refine ⟨by omega, fun h => by omega, fun h => by omega⟩

/-! ### gather / ranks -/

open TE.Rank in
theorem gather1_ok (row : List Q) (t : Int) (y : Q) (h : gather1 row t = .ok y) :
    0 ≤ t ∧ t < (row.length : Int) ∧ row[t.toNat]? = some y := by
  unfold gather1 at h
  split at h
  · simp at h
  · rename_i hneg
    cases hr : row[t.toNat]? with
    | none => simp [hr] at h
    | some z =>
      simp only [hr, Except.ok.injEq] at h
      subst h
      have hlt : t.toNat < row.length := by
        have := List.getElem?_eq_some_iff.mp hr
        exact this.1
      refine ⟨by omega, by omega, rfl⟩

open TE.Rank in
theorem gather1_err (row : List Q) (t : Int) (h : t < 0 ∨ (row.length : Int) ≤ t) :
    gather1 row t = .error .runtime := by
  unfold gather1
  by_cases hneg : t < 0
  · rw [if_pos hneg]
  · rw [if_neg hneg]
    have : row[t.toNat]? = none := by
      apply List.getElem?_eq_none; omega
    rw [this]

theorem mapM_ok_all {β γ : Type} (f : β → Except Err γ) :
    ∀ (l : List β) (r : List γ), l.mapM f = .ok r → ∀ a ∈ l, ∃ c, f a = .ok c
  | [], _, _, a, ha => by simp at ha
  | x :: xs, r, h, a, ha => by
    simp only [List.mapM_cons] at h
    cases hx : f x with
    | error e => simp [hx, bind, Except.bind] at h
    | ok c =>
      cases hxs : xs.mapM f with
      | error e => simp [hx, hxs, bind, Except.bind] at h
      | ok cs =>
        rcases List.mem_cons.mp ha with rfl | ha
        · exact ⟨c, hx⟩
        · exact mapM_ok_all f xs cs hxs a ha

open TE.Rank in
theorem ranks_ok (rows : List (List Q)) (target : List Int) (rs : List Nat)
    (h : ranks rows target = .ok rs) :
    ∀ p ∈ rows.zip target, 0 ≤ p.2 ∧ p.2 < (p.1.length : Int) := by
  intro p hp
  unfold ranks at h
  obtain ⟨c, hc⟩ := mapM_ok_all _ _ _ h p hp
  cases hg : gather1 p.1 p.2 with
  | error e => simp [hg, bind, Except.bind] at hc
  | ok y =>
    obtain ⟨h0, h1, _⟩ := gather1_ok p.1 p.2 y hg
    exact ⟨h0, h1⟩

open TE.Rank in
theorem hitRate_ok (rows : List (List Q)) (C : Nat) (target : List Int) (k : Int) (r : List Q)
    (h0 : 0 < k) (hC : k < (C : Int)) (h : hitRate rows C target (some k) = .ok r) :
    ∀ p ∈ rows.zip target, 0 ≤ p.2 ∧ p.2 < (p.1.length : Int) := by
  simp only [hitRate] at h
  rw [if_neg (by omega), if_neg (by omega)] at h
  obtain ⟨rs, hrs, _⟩ := bind_ok' h
  exact ranks_ok rows target rs hrs

open TE.Rank in
theorem reciprocalRank_ok (rows : List (List Q)) (target : List Int) (k : Option Int) (r : List Q)
    (h : reciprocalRank rows target k = .ok r) :
    ∀ p ∈ rows.zip target, 0 ≤ p.2 ∧ p.2 < (p.1.length : Int) := by
  simp only [reciprocalRank] at h
  obtain ⟨rs, hrs, _⟩ := bind_ok' h
  exact ranks_ok rows target rs hrs

/-! ### top-k -/

open TE.Rank in
theorem topk_mem (k : Option Nat) (l : List Pair) : ∀ p ∈ topk k l, p ∈ l := by
  intro p hp
  obtain ⟨r, hr⟩ := RankL.topk_sublist_perm k l
  exact hr.subset (List.mem_append_left r hp)

open TE.Rank in
theorem topk_length_le (k : Option Nat) (l : List Pair) : (topk k l).length ≤ l.length := by
  rw [RankL.topk_length]
  cases k with
  | none => exact Nat.le_refl _
  | some k => exact Nat.min_le_right k l.length

/-! ### retrieval: the `indexes == i` partition -/

open TE.Rank in
theorem partition_mem (batch : List Pair) (ix : List Int) (i : Int) :
    ∀ x ∈ ((batch.zip ix).filter fun p => p.2 == i).map (·.1), x ∈ batch := by
  intro x hx
  obtain ⟨p, hp, rfl⟩ := List.mem_map.mp hx
  exact (List.of_mem_zip (List.mem_filter.mp hp).1).1

open TE.Rank in
theorem partition_length (batch : List Pair) (ix : List Int) (i : Int) :
    (((batch.zip ix).filter fun p => p.2 == i).map (·.1)).length ≤ batch.length := by
  rw [List.length_map]
  exact Nat.le_trans (List.length_filter_le _ _) (by rw [List.length_zip]; exact Nat.min_le_left _ _)

open TE.Rank in
/-- query numbers that occur in no slot of the state are silently ignored (no error, no write). -/
theorem rUpdate_foreign_indexes (c : RCfg) (st : RState) (batch : List Pair) (ix : List Int)
    (hq : c.numQueries ≠ 1) (hlen : st.length ≤ c.numQueries)
    (hout : ∀ j ∈ ix, j < 0 ∨ (c.numQueries : Int) ≤ j) :
    rUpdate c st batch (some ix) = .ok st := by
  unfold rUpdate
  rw [if_neg hq]
  simp only [Except.ok.injEq]
  have : ∀ (p : List Pair × Nat), p ∈ st.zipIdx → ix.any (· == (p.2 : Int)) = false := by
    intro p hp
    have hlt : p.2 < st.length := by
      have := List.mem_zipIdx hp
      omega
    apply Bool.eq_false_iff.mpr
    intro ha
    obtain ⟨j, hj, he⟩ := List.any_eq_true.mp ha
    have hje : j = (p.2 : Int) := by simpa using he
    rcases hout j hj with h | h <;> omega
  have hmap : st.zipIdx.map (fun (x : List Pair × Nat) =>
      if ix.any (· == (x.2 : Int)) then
        updateSingle c.k x.1 (((batch.zip ix).filter fun p => p.2 == (x.2 : Int)).map (·.1))
      else x.1) = st.zipIdx.map (·.1) := by
    apply List.map_congr_left
    intro p hp
    rw [this p hp]; rfl
  have hfst : st.zipIdx.map (·.1) = st := by
    simp
  calc _ = st.zipIdx.map (·.1) := hmap
    _ = st := hfst

/-! ### perplexity -/

open TE.Agg in
theorem pplUpdate_ok_upper (exp ln : Q → Q) (V : Nat) (rows : Mat) (tgt : List Int) (ignore : Option Int)
    (r : Q × Q) (h : pplUpdate exp ln V rows tgt ignore = .ok r) :
    ∀ p ∈ pplTokens rows tgt ignore, p.2 < (V : Int) := by
  unfold pplUpdate at h
  simp only at h
  split at h
  · simp at h
  · rename_i hno
    intro p hp
    have : ¬ ((V : Int) ≤ p.2) := by
      intro hc
      exact hno (List.any_eq_true.mpr ⟨p, hp, by simpa using hc⟩)
    omega

open TE.Agg in
theorem pplUpdate_rejects (exp ln : Q → Q) (V : Nat) (rows : Mat) (tgt : List Int) (ignore : Option Int)
    (p : List Q × Int) (hp : p ∈ pplTokens rows tgt ignore) (hbig : (V : Int) ≤ p.2) :
    pplUpdate exp ln V rows tgt ignore = .error .value := by
  unfold pplUpdate
  simp only
  rw [if_pos (List.any_eq_true.mpr ⟨p, hp, by simpa using hbig⟩)]

/-! ### text tables -/

section text
variable {α : Type} [DecidableEq α]
open TE.Text

/-- the final row of the edit-distance table has exactly `|ref| + 1` cells: `dp[-1][-1]` exists. -/
theorem dp_final_row_length (pred ref : List α) :
    (dpRows ref pred (List.range (ref.length + 1)) 0).length = ref.length + 1 := by
  have h0 : List.range (ref.length + 1) = (List.range (ref.length + 1)).map (Spec.Text.levP pred ref 0) := by
    apply List.ext_getElem <;> simp [TextL.levP_zero_left]
  rw [h0, TextL.dpRows_eq pred ref pred 0 (by simp) (by omega)]
  simp

omit [DecidableEq α] in
theorem ngramsOf_length (s : List α) (n : Nat) (_hn : 1 ≤ n) : ∀ g ∈ ngramsOf s n, g.length = n := by
  intro g hg
  unfold ngramsOf at hg
  obtain ⟨i, hi, rfl⟩ := List.mem_map.mp hg
  have : i < s.length + 1 - n := by simpa using hi
  simp only [List.length_take, List.length_drop]
  omega

omit [DecidableEq α] in
/-- every n-gram `_get_ngrams` counts has a length in `[1, N]`: `matches_by_order[len(ngram) - 1]`
    addresses one of the `N` slots. -/
theorem allNgrams_length (s : List α) (N : Nat) : ∀ g ∈ allNgrams s N, 1 ≤ g.length ∧ g.length ≤ N := by
  intro g hg
  unfold allNgrams at hg
  obtain ⟨l, hl, hgl⟩ := List.mem_flatten.mp hg
  obtain ⟨m, hm, rfl⟩ := List.mem_map.mp hl
  have hm' : m < N := by simpa using hm
  have := ngramsOf_length s (m + 1) (by omega) g hgl
  omega

end text

end TE.IndexL
