/-
  TE.Lemmas.SyncHead — in a run that ends `.ok`, every round is ONE collective: all members issue
  the same kind of collective with the same root (`Req.head`).
-/
import TE.Lemmas.SyncRun
namespace TE.Sync

variable {R : Type}

/-- which collective, and (for rooted ones) the root torch is handed. -/
def Req.head : Req → Nat × Option Nat
  | .allGather _ => (0, none)
  | .gather d _ _ => (1, some d)
  | .allGatherObj _ => (2, none)
  | .gatherObj d _ _ => (3, some d)
  | .broadcastObj s _ => (4, some s)

theorem tensorsOf_head {qs : List Req} {ts : List Tensor} (h : tensorsOf qs = some ts) :
    ∀ q ∈ qs, q.head = (0, none) := by
  induction qs generalizing ts with
  | nil => intro q hq; simp at hq
  | cons a qs ih =>
    cases a with
    | allGather t =>
      simp only [tensorsOf, Option.map_eq_some_iff] at h
      obtain ⟨ts', h', _⟩ := h
      intro q hq
      rcases List.mem_cons.mp hq with rfl | hq
      · rfl
      · exact ih h' q hq
    | gather _ _ _ => simp [tensorsOf] at h
    | allGatherObj _ => simp [tensorsOf] at h
    | gatherObj _ _ _ => simp [tensorsOf] at h
    | broadcastObj _ _ => simp [tensorsOf] at h

theorem objsOf_head {qs : List Req} {os : List Obj} (h : objsOf qs = some os) :
    ∀ q ∈ qs, q.head = (2, none) := by
  induction qs generalizing os with
  | nil => intro q hq; simp at hq
  | cons a qs ih =>
    cases a with
    | allGatherObj o =>
      simp only [objsOf, Option.map_eq_some_iff] at h
      obtain ⟨os', h', _⟩ := h
      intro q hq
      rcases List.mem_cons.mp hq with rfl | hq
      · rfl
      · exact ih h' q hq
    | gather _ _ _ => simp [objsOf] at h
    | allGather _ => simp [objsOf] at h
    | gatherObj _ _ _ => simp [objsOf] at h
    | broadcastObj _ _ => simp [objsOf] at h

theorem gathersOf_head {qs : List Req} {gs : List (Nat × Bool × Tensor)} (h : gathersOf qs = some gs) (d : Nat)
    (hd : (gs.map (·.1)).all (· == d) = true) : ∀ q ∈ qs, q.head = (1, some d) := by
  induction qs generalizing gs with
  | nil => intro q hq; simp at hq
  | cons a qs ih =>
    cases a with
    | gather d' hb t =>
      simp only [gathersOf, Option.map_eq_some_iff] at h
      obtain ⟨gs', h', rfl⟩ := h
      simp only [List.map_cons, List.all_cons, Bool.and_eq_true, beq_iff_eq] at hd
      intro q hq
      rcases List.mem_cons.mp hq with rfl | hq
      · simp [Req.head, hd.1]
      · exact ih h' hd.2 q hq
    | allGather _ => simp [gathersOf] at h
    | allGatherObj _ => simp [gathersOf] at h
    | gatherObj _ _ _ => simp [gathersOf] at h
    | broadcastObj _ _ => simp [gathersOf] at h

theorem gatherObjsOf_head {qs : List Req} {gs : List (Nat × Bool × Obj)} (h : gatherObjsOf qs = some gs) (d : Nat)
    (hd : (gs.map (·.1)).all (· == d) = true) : ∀ q ∈ qs, q.head = (3, some d) := by
  induction qs generalizing gs with
  | nil => intro q hq; simp at hq
  | cons a qs ih =>
    cases a with
    | gatherObj d' hb t =>
      simp only [gatherObjsOf, Option.map_eq_some_iff] at h
      obtain ⟨gs', h', rfl⟩ := h
      simp only [List.map_cons, List.all_cons, Bool.and_eq_true, beq_iff_eq] at hd
      intro q hq
      rcases List.mem_cons.mp hq with rfl | hq
      · simp [Req.head, hd.1]
      · exact ih h' hd.2 q hq
    | allGather _ => simp [gatherObjsOf] at h
    | allGatherObj _ => simp [gatherObjsOf] at h
    | gather _ _ _ => simp [gatherObjsOf] at h
    | broadcastObj _ _ => simp [gatherObjsOf] at h

theorem bcastsOf_head {qs : List Req} {bs : List (Nat × Obj)} (h : bcastsOf qs = some bs) (d : Nat)
    (hd : (bs.map (·.1)).all (· == d) = true) : ∀ q ∈ qs, q.head = (4, some d) := by
  induction qs generalizing bs with
  | nil => intro q hq; simp at hq
  | cons a qs ih =>
    cases a with
    | broadcastObj d' o =>
      simp only [bcastsOf, Option.map_eq_some_iff] at h
      obtain ⟨bs', h', rfl⟩ := h
      simp only [List.map_cons, List.all_cons, Bool.and_eq_true, beq_iff_eq] at hd
      intro q hq
      rcases List.mem_cons.mp hq with rfl | hq
      · simp [Req.head, hd.1]
      · exact ih h' hd.2 q hq
    | allGather _ => simp [bcastsOf] at h
    | allGatherObj _ => simp [bcastsOf] at h
    | gather _ _ _ => simp [bcastsOf] at h
    | gatherObj _ _ _ => simp [bcastsOf] at h

theorem rootCheck_ok_all {g : List Nat} {root : Nat} {roots : List Nat} {bel : List Bool} {gr : Nat}
    (h : rootCheck g root roots bel = .ok gr) : roots.all (· == root) = true := by
  unfold rootCheck at h
  cases hr : roots.all (· == root) with
  | true => rfl
  | false => simp [hr] at h

/-- a rendezvous the transport accepts is ONE collective: same kind, same root, on every member. -/
theorem exchange_ok_head (g : List Nat) (q : Req) (qs : List Req) (rs : List Resp)
    (h : exchange g (q :: qs) = .ok rs) : ∀ q' ∈ q :: qs, q'.head = q.head := by
  cases q with
  | allGather t0 =>
    simp only [exchange] at h
    cases ht : tensorsOf (Req.allGather t0 :: qs) with
    | none => simp [ht] at h
    | some ts => exact tensorsOf_head ht
  | allGatherObj o =>
    simp only [exchange] at h
    cases ho : objsOf (Req.allGatherObj o :: qs) with
    | none => simp [ho] at h
    | some os => exact objsOf_head ho
  | gather d hb t0 =>
    simp only [exchange] at h
    cases hg : gathersOf (Req.gather d hb t0 :: qs) with
    | none => simp [hg] at h
    | some gs =>
      simp only [hg] at h
      split at h
      · cases h
      · cases hrc : rootCheck g d (gs.map (·.1)) (gs.map (·.2.1)) with
        | error e => simp [hrc] at h
        | ok gr => exact gathersOf_head hg d (rootCheck_ok_all hrc)
  | gatherObj d hb o =>
    simp only [exchange] at h
    cases hg : gatherObjsOf (Req.gatherObj d hb o :: qs) with
    | none => simp [hg] at h
    | some gs =>
      simp only [hg] at h
      cases hrc : rootCheck g d (gs.map (·.1)) (gs.map (·.2.1)) with
      | error e => simp [hrc] at h
      | ok gr => exact gatherObjsOf_head hg d (rootCheck_ok_all hrc)
  | broadcastObj s o =>
    simp only [exchange] at h
    cases hb : bcastsOf (Req.broadcastObj s o :: qs) with
    | none => simp [hb] at h
    | some bs =>
      simp only [hb] at h
      cases hrc : rootCheck g s (bs.map (·.1)) (bs.map fun b => b.2 != .none) with
      | error e => simp [hrc] at h
      | ok gr => exact bcastsOf_head hb s (rootCheck_ok_all hrc)

/-- every member of the round sits at the collective `hd`. -/
def RoundIs (hd : Nat × Option Nat) (r : List (Option Req)) : Prop :=
  ∀ x ∈ r, ∃ q, x = some q ∧ q.head = hd

/-- in a run that ends `.ok`, every round is one collective issued by every member. -/
theorem rounds_same_head_of_ok (g : List Nat) :
    ∀ (m : Prog R) (ms : List (Prog R)) (as : List R), (runWorld g m ms).out = .ok as →
      ∀ r ∈ (runWorld g m ms).rounds, ∃ hd, RoundIs hd r := by
  intro m
  induction m with
  | done a =>
    intro ms as h
    cases hd : dones ms with
    | none => simp [runWorld, hd] at h
    | some rs => simp [runWorld, hd]
  | fail e => intro ms as h; simp [runWorld] at h
  | coll q k ih =>
    intro ms as h
    cases hq : reqsOf ms with
    | none => simp [runWorld, hq] at h
    | some qs =>
      cases hx : exchange g (q :: qs) with
      | error e => simp [runWorld, hq, hx] at h
      | ok resps =>
        cases resps with
        | nil => simp [runWorld, hq, hx] at h
        | cons r rs =>
          rw [runWorld_coll_out g q k ms qs r rs hq hx] at h
          rw [runWorld_coll_rounds g q k ms qs r rs hq hx]
          intro rd hrd
          rcases List.mem_cons.mp hrd with rfl | hrd
          · refine ⟨q.head, ?_⟩
            intro x hx'
            rw [map_reqOf_of_reqsOf hq] at hx'
            have hall := exchange_ok_head g q qs _ hx
            rcases List.mem_cons.mp hx' with rfl | hx'
            · exact ⟨q, rfl, rfl⟩
            · obtain ⟨q', hq', rfl⟩ := List.mem_map.mp hx'
              exact ⟨q', rfl, hall q' (List.mem_cons_of_mem _ hq')⟩
          · exact ih r _ as h rd hrd

end TE.Sync
