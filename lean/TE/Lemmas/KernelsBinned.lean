/-
  TE.Lemmas.KernelsBinned — evaluation lemmas for the primitives of the binned curve kernels (C06) of
  TE/Model/TExpr.lean against the models of TE/Model/Binned.lean.
-/
import TE.Model.TExpr
import TE.Model.Binned
import TE.Lemmas.Kernels
import TE.Lemmas.KernelsCurve
import TE.Lemmas.Binned
namespace TE.TXL
open TE TE.TX

theorem xnanTo_one_binned (x : XQ) : xnanTo (.val 1) x = Binned.nanTo1 x := by cases x <;> rfl

/-! ### `_update` of binned_precision_recall_curve.py: searchsorted, unit histogram, reshape / transpose, suffix sums -/

theorem xlt_val (a b : Q) : xlt (.val a) (.val b) = decide (a < b) := rfl

theorem xsearchsortedRight_val (t : List Q) (x : Q) :
    xsearchsortedRight (t.map XQ.val) (.val x) = Binned.searchsortedRight t x := by
  induction t with
  | nil => rfl
  | cons u t ih =>
    simp only [List.map_cons, xsearchsortedRight, Binned.searchsortedRight, xlt_val, decide_eq_true_eq, ih]

theorem binaryCode_cast (t : List Q) (x : Q) (y : Nat) :
    ((Binned.binaryCode t x y : Int) : Q) = 2 * (((Binned.searchsortedRight t x : Nat) : Q) - 1) + (y : Q) := by
  simp [Binned.binaryCode, Binned.bucket, Rat.intCast_add, Rat.intCast_mul, Rat.intCast_sub, Rat.intCast_natCast]

theorem xhistHit_intCast (B k : Nat) (c : Int) :
    xhistHit B k (.val (c : Q)) = (c == (k : Int) || (k + 1 == B && c == (B : Int))) := by
  have h : (((c : Int) : Q) == ((B : Nat) : Q)) = (c == (B : Int)) := by
    rw [Bool.eq_iff_iff]
    simp only [beq_iff_eq]
    rw [← Rat.intCast_natCast, Rat.intCast_inj]
  simp only [xhistHit, Rat.floor_intCast, h]

theorem histc_codes (B : Nat) (codes : List Int) :
    (List.range B).map (fun k => XQ.val (((codes.map fun (c : Int) => XQ.val ((c : Int) : Q)).countP (xhistHit B k) : Nat) : Q))
      = (Binned.histcUnit B codes).map XQ.val := by
  simp only [Binned.histcUnit, List.map_map, qcount, List.countP_map, Function.comp_def, xhistHit_intCast]


theorem two_mul_natCast (T : Nat) : ((2 : Int) : Q) * (T : Q) = ((2 * T : Nat) : Q) := by
  simp [Rat.natCast_mul]

theorem histcUnitV_codes (codes : List Int) (T : Nat) :
    histcUnitV (.vec (codes.map fun (c : Int) => XQ.val ((c : Int) : Q))) (.scalar (.val (((2 : Int) : Q) * (T : Q))))
      = if T = 0 then .error .runtime else .ok (.vec ((Binned.histcUnit (2 * T) codes).map XQ.val)) := by
  simp only [histcUnitV, Val.asElem, ok_bind, two_mul_natCast, xnat_natCast]
  by_cases hT : T = 0
  · subst hT; rfl
  · have : 2 * T ≠ 0 := by omega
    simp only [this, hT, if_false, histc_codes]

theorem getD_map_val (l : List Q) (i : Nat) : (l.map XQ.val).getD i (.val 0) = .val (l.getD i 0) := by
  simp [List.getD_eq_getElem?_getD, List.getElem?_map]

theorem histcUnit_length (B : Nat) (codes : List Int) : (Binned.histcUnit B codes).length = B := by
  simp [Binned.histcUnit]

theorem reshape2V_val (H : List Q) (T : Nat) (h : H.length = 2 * T) :
    reshape2V (.vec (H.map XQ.val)) (.int T) (.int 2)
      = .ok (.mat ((List.range T).map fun i => [XQ.val (H.getD (2 * i) 0), XQ.val (H.getD (2 * i + 1) 0)])) := by
  have h2 : xnat? (.val (((2 : Int) : Q))) = some 2 := by decide
  have hT : xnat? (.val ((((T : Nat) : Int) : Q))) = some T := by rw [Rat.intCast_natCast, xnat_natCast]
  simp only [reshape2V, Val.asElem, ok_bind, h2, hT, List.length_map, h, Nat.mul_comm T 2, if_true]
  congr 2
  apply List.map_congr_left
  intro i _
  simp [show List.range 2 = [0, 1] from rfl, Nat.mul_comm i 2]

theorem transposeV_two (a : List (XQ × XQ)) (hne : a ≠ []) :
    transposeV (.mat (a.map fun p => [p.1, p.2])) = .ok (.mat [a.map (·.1), a.map (·.2)]) := by
  cases a with
  | nil => exact absurd rfl hne
  | cons p a =>
    simp [transposeV, xtranspose, show List.range 2 = [0, 1] from rfl, List.map_map, Function.comp_def]


theorem transposeV_range (T : Nat) (f g : Nat → XQ) (hT : T ≠ 0) :
    transposeV (.mat ((List.range T).map fun i => [f i, g i])) = .ok (.mat [(List.range T).map f, (List.range T).map g]) := by
  have := transposeV_two ((List.range T).map fun i => (f i, g i)) (by
    intro e; have := congrArg List.length e; simp at this; exact hT this)
  simpa only [List.map_map, Function.comp_def] using this

theorem cumsumFrom_snoc (a : Q) (l : List Q) (x : Q) :
    Curve.cumsumFrom a (l ++ [x]) = Curve.cumsumFrom a l ++ [(Curve.cumsumFrom a l).getLast?.getD a + x] := by
  induction l generalizing a with
  | nil => rfl
  | cons y l ih =>
    simp only [List.cons_append, Curve.cumsumFrom, ih, List.getLast?_cons]
    rfl

theorem rev_cumsum_rev (l : List Q) (a : Q) :
    (Curve.cumsumFrom a l.reverse).reverse = (Binned.suffixSums l).map (a + ·) := by
  induction l with
  | nil => rfl
  | cons x xs ih =>
    rw [List.reverse_cons, cumsumFrom_snoc, List.reverse_append, List.reverse_singleton, List.singleton_append]
    have hl : (Curve.cumsumFrom a xs.reverse).getLast? = ((Binned.suffixSums xs).map (a + ·)).head? := by
      rw [← ih, List.head?_reverse]
    rw [ih, hl]
    simp only [Binned.suffixSums, List.map_cons]
    congr 1
    cases Binned.suffixSums xs with
    | nil => simp; grind
    | cons h r => simp; grind

theorem rev_cumsum_rev_val (l : List Q) :
    (xcumsumFrom (.val 0) (l.map XQ.val).reverse).reverse = (Binned.suffixSums l).map XQ.val := by
  rw [← List.map_reverse, xcumsumFrom_val, ← List.map_reverse, rev_cumsum_rev]
  simp only [Rat.zero_add, List.map_id']

theorem rev_cumsum_rev_map {α : Type} (l : List α) (f : α → Q) :
    (xcumsumFrom (.val 0) (l.map fun a => XQ.val (f a)).reverse).reverse = (Binned.suffixSums (l.map f)).map XQ.val := by
  rw [← rev_cumsum_rev_val, List.map_map]; rfl

theorem rowAtV_zero (a b : List XQ) : rowAtV (.mat [a, b]) 0 = .ok (.vec a) := rfl
theorem rowAtV_one (a b : List XQ) : rowAtV (.mat [a, b]) 1 = .ok (.vec b) := rfl

/-! ### `_binary_binned_auprc_compute`: the three kernels of one task, by reference -/

/-- `_update`, `_compute`, `_riemann_integral(recall, precision)` of one task on argument terms -/
def binnedAuprcTerm (upd cmp ri a b th : TExpr) : TExpr :=
  .call2 "x"
    (.fst (.snd (.call4 "num_tp" (.fst (.call3 "input" a "target" b "threshold" th upd))
      "num_fp" (.fst (.snd (.call3 "input" a "target" b "threshold" th upd)))
      "num_fn" (.snd (.snd (.call3 "input" a "target" b "threshold" th upd))) "threshold" th cmp)))
    "y"
    (.fst (.call4 "num_tp" (.fst (.call3 "input" a "target" b "threshold" th upd))
      "num_fp" (.fst (.snd (.call3 "input" a "target" b "threshold" th upd)))
      "num_fn" (.snd (.snd (.call3 "input" a "target" b "threshold" th upd))) "threshold" th cmp))
    ri

theorem riemannSum_binned_eq : ∀ (x y : List Q), Binned.riemannSum x y = Curve.riemannSum x y
  | [], _ => by simp [Binned.riemannSum, Curve.riemannSum]
  | [_], _ => by simp [Binned.riemannSum, Curve.riemannSum]
  | _ :: _ :: _, [] => by simp [Binned.riemannSum, Curve.riemannSum]
  | x0 :: x1 :: xs, y0 :: ys => by
    simp [Binned.riemannSum, Curve.riemannSum, riemannSum_binned_eq (x1 :: xs) ys]
/-! ### NaN propagation through `_riemann_integral` (a recall that is `0/0` everywhere) -/

theorem zipWith_nan_right (f : XQ → XQ → XQ) (hf : ∀ a, f a .nan = .nan) :
    ∀ (a : List XQ) (n : Nat), a.length = n → List.zipWith f a (List.replicate n .nan) = List.replicate n .nan
  | [], n, h => by subst h; rfl
  | x :: a, n, h => by
    subst h
    simp only [List.length_cons, List.replicate_succ, List.zipWith_cons_cons, hf, zipWith_nan_right f hf a _ rfl]

theorem zipWith_nan_left (f : XQ → XQ → XQ) (hf : ∀ b, f .nan b = .nan) :
    ∀ (b : List XQ) (n : Nat), b.length = n → List.zipWith f (List.replicate n .nan) b = List.replicate n .nan
  | [], n, h => by subst h; rfl
  | x :: b, n, h => by
    subst h
    simp only [List.length_cons, List.replicate_succ, List.zipWith_cons_cons, hf, zipWith_nan_left f hf b _ rfl]

theorem foldl_xadd_nan (l : List XQ) : l.foldl xadd .nan = .nan := by
  induction l with
  | nil => rfl
  | cons x l ih =>
    have : xadd .nan x = .nan := by cases x <;> rfl
    simp only [List.foldl_cons, this, ih]

theorem xsum_replicate_nan (n : Nat) : xsum (List.replicate (n + 1) .nan) = .nan := by
  simp only [xsum, List.replicate_succ, List.foldl_cons]
  have : xadd (.val 0) .nan = .nan := rfl
  rw [this, foldl_xadd_nan]

theorem xsub_nan_right (a : XQ) : xarith .sub a .nan = .nan := by cases a <;> rfl
theorem xmul_nan_left (b : XQ) : xarith .mul .nan b = .nan := by cases b <;> rfl
theorem xnanTo_val (v : XQ) (q : Q) : xnanTo v (.val q) = .val q := rfl

end TE.TXL
