/-
  TE.Lemmas.SyncPad — pad-to-max then slice-to-shape is the identity on N-d row-major
  tensors (zero extents included).  Helper lemmas for TE.Props.C15.
-/
import TE.Model.Sync
namespace TE.Sync

theorem prod_cons (a : Nat) (s : List Nat) : prod (a :: s) = a * prod s := rfl
theorem prod_nil : prod [] = 1 := rfl

/-- pointwise `≤` of shapes of equal length -/
inductive ShapeLe : List Nat → List Nat → Prop where
  | nil : ShapeLe [] []
  | cons {a b : Nat} {s m : List Nat} : a ≤ b → ShapeLe s m → ShapeLe (a :: s) (b :: m)

theorem ShapeLe.length_eq {s m : List Nat} (h : ShapeLe s m) : s.length = m.length := by
  induction h with
  | nil => rfl
  | cons _ _ ih => simp [ih]

theorem ShapeLe.refl : ∀ s : List Nat, ShapeLe s s
  | [] => .nil
  | _ :: s => .cons (Nat.le_refl _) (ShapeLe.refl s)

theorem splitN_length (n k : Nat) (d : List Q) : (splitN n k d).length = n := by
  induction n generalizing d with
  | zero => rfl
  | succ n ih => simp [splitN, ih]

/-- splitting a concatenation of `n` blocks of `k` elements (plus a tail) gives the blocks back. -/
theorem splitN_flatten (k : Nat) (bs : List (List Q)) (rest : List Q)
    (hb : ∀ b ∈ bs, b.length = k) : splitN bs.length k (bs.flatten ++ rest) = bs := by
  induction bs with
  | nil => rfl
  | cons b bs ih =>
    have hk : b.length = k := hb b (List.mem_cons_self ..)
    have hrest : ∀ b' ∈ bs, b'.length = k := fun b' h => hb b' (List.mem_cons_of_mem _ h)
    simp only [List.length_cons, splitN, List.flatten_cons, List.append_assoc]
    rw [List.take_left' hk, List.drop_left' hk, ih hrest]

theorem splitN_blocks_length (n k : Nat) (d : List Q) (hd : d.length = n * k) :
    ∀ b ∈ splitN n k d, b.length = k := by
  induction n generalizing d with
  | zero => intro b hb; simp [splitN] at hb
  | succ n ih =>
    intro b hb
    simp only [splitN, List.mem_cons] at hb
    have hk : k ≤ d.length := by rw [hd, Nat.succ_mul]; exact Nat.le_add_left ..
    rcases hb with rfl | hb
    · simp [List.length_take, Nat.min_eq_left hk]
    · apply ih (d.drop k) _ b hb
      rw [List.length_drop, hd, Nat.succ_mul, Nat.add_sub_cancel]

theorem splitN_flatten_self (n k : Nat) (d : List Q) (hd : d.length = n * k) :
    (splitN n k d).flatten = d := by
  induction n generalizing d with
  | zero => simp [splitN]; simpa using hd
  | succ n ih =>
    have hk : k ≤ d.length := by rw [hd, Nat.succ_mul]; exact Nat.le_add_left ..
    simp only [splitN, List.flatten_cons]
    rw [ih (d.drop k) (by rw [List.length_drop, hd, Nat.succ_mul, Nat.add_sub_cancel]), List.take_append_drop]

theorem length_flatten_const (k : Nat) (bs : List (List Q)) (hb : ∀ b ∈ bs, b.length = k) :
    bs.flatten.length = bs.length * k := by
  induction bs with
  | nil => simp
  | cons b bs ih =>
    rw [List.flatten_cons, List.length_append, hb b (List.mem_cons_self ..),
      ih (fun b' h => hb b' (List.mem_cons_of_mem _ h)), List.length_cons, Nat.succ_mul, Nat.add_comm]

/-- the padded block has the size of the target shape. -/
theorem padTo_length {s m : List Nat} (h : ShapeLe s m) :
    ∀ d : List Q, d.length = prod s → (padTo s m d).length = prod m := by
  induction h with
  | nil => intro d hd; simpa [padTo] using hd
  | @cons a b s m hab _ ih =>
    intro d hd
    simp only [padTo, List.length_append, List.length_replicate]
    have hblk := splitN_blocks_length a (prod s) d (by simpa [prod_cons] using hd)
    rw [length_flatten_const (prod m)]
    · rw [List.length_map, splitN_length, prod_cons, ← Nat.add_mul, Nat.add_sub_cancel' hab]
    · intro x hx
      obtain ⟨y, hy, rfl⟩ := List.mem_map.mp hx
      exact ih y (hblk y hy)

/-- **pad then trim is the identity**: for every N-d shape `s ≤ m` (pointwise, zero extents
    allowed) and row-major data of shape `s`. -/
theorem sliceTo_padTo {s m : List Nat} (h : ShapeLe s m) :
    ∀ d : List Q, d.length = prod s → sliceTo m s (padTo s m d) = d := by
  induction h with
  | nil => intro d _; rfl
  | @cons a b s m hab hsm ih =>
    intro d hd
    have hd' : d.length = a * prod s := by simpa [prod_cons] using hd
    have hblk := splitN_blocks_length a (prod s) d hd'
    -- the padded rows
    let rows := (splitN a (prod s) d).map (padTo s m)
    have hrows_len : ∀ x ∈ rows, x.length = prod m := by
      intro x hx
      obtain ⟨y, hy, rfl⟩ := List.mem_map.mp hx
      exact padTo_length hsm y (hblk y hy)
    have hrows_n : rows.length = a := by simp [rows, splitN_length]
    -- the zero rows appended along this dimension, as blocks
    let zrows : List (List Q) := List.replicate (b - a) (List.replicate (prod m) 0)
    have hz : List.replicate ((b - a) * prod m) (0 : Q) = zrows.flatten := by
      simp [zrows, List.flatten_replicate_replicate]
    have hall : ∀ x ∈ rows ++ zrows, x.length = prod m := by
      intro x hx
      rcases List.mem_append.mp hx with hx | hx
      · exact hrows_len x hx
      · simp [zrows] at hx; simp [hx.2]
    have hlen : (rows ++ zrows).length = b := by
      simp [hrows_n, zrows, Nat.add_sub_cancel' hab]
    have hsplit : splitN b (prod m) (rows.flatten ++ List.replicate ((b - a) * prod m) 0) = rows ++ zrows := by
      rw [hz, ← List.flatten_append, ← hlen]
      have := splitN_flatten (prod m) (rows ++ zrows) [] hall
      simpa using this
    show sliceTo (b :: m) (a :: s) (padTo (a :: s) (b :: m) d) = d
    simp only [padTo, sliceTo]
    show (((splitN b (prod m) (rows.flatten ++ List.replicate ((b - a) * prod m) 0)).take a).map (sliceTo m s)).flatten = d
    rw [hsplit, List.take_left' hrows_n]
    simp only [rows, List.map_map]
    have hmap : (splitN a (prod s) d).map (sliceTo m s ∘ padTo s m) = splitN a (prod s) d := by
      have h1 : ∀ y ∈ splitN a (prod s) d, (sliceTo m s ∘ padTo s m) y = id y :=
        fun y hy => ih y (hblk y hy)
      rw [List.map_congr_left h1, List.map_id]
    rw [hmap, splitN_flatten_self a (prod s) d hd']

end TE.Sync
