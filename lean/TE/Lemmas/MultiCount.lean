/-
  TE.Lemmas.MultiCount — the per-class textbook counts of a multiclass batch are the
  positive-class counts of the one-vs-rest binary batch of that class.
-/
import TE.Spec.Count
import TE.Spec.Binned
namespace TE.MultiL
open TE TE.Spec.Count

/-- the one-vs-rest view of class `c`: prediction and label become `[· = c]`. -/
def ovrPair (c : Nat) (p : Nat × Nat) : Nat × Nat := (if p.1 = c then 1 else 0, if p.2 = c then 1 else 0)

theorem ite_beq_one (a c : Nat) : ((if a = c then 1 else 0 : Nat) == 1) = (a == c) := by
  by_cases h : a = c <;> simp [h]

theorem ite_bne_one (a c : Nat) : ((if a = c then 1 else 0 : Nat) != 1) = (a != c) := by
  by_cases h : a = c <;> simp [h]

theorem tp_ovr (ps : Pairs) (c : Nat) : tp (ps.map (ovrPair c)) 1 = tp ps c := by
  unfold tp
  rw [List.countP_map]
  apply List.countP_congr
  intro p _
  simp [ovrPair, ite_beq_one]

theorem fp_ovr (ps : Pairs) (c : Nat) : fp (ps.map (ovrPair c)) 1 = fp ps c := by
  unfold fp
  rw [List.countP_map]
  apply List.countP_congr
  intro p _
  simp only [Function.comp, ovrPair, ite_beq_one, ite_bne_one]

theorem fn_ovr (ps : Pairs) (c : Nat) : fn (ps.map (ovrPair c)) 1 = fn ps c := by
  unfold fn
  rw [List.countP_map]
  apply List.countP_congr
  intro p _
  simp only [Function.comp, ovrPair, ite_beq_one, ite_bne_one]

theorem support_ovr (ps : Pairs) (c : Nat) : support (ps.map (ovrPair c)) 1 = support ps c := by
  unfold support
  rw [List.countP_map]
  apply List.countP_congr
  intro p _
  simp [ovrPair, ite_beq_one]

theorem predicted_ovr (ps : Pairs) (c : Nat) : predicted (ps.map (ovrPair c)) 1 = predicted ps c := by
  unfold predicted
  rw [List.countP_map]
  apply List.countP_congr
  intro p _
  simp [ovrPair, ite_beq_one]

end TE.MultiL
