/-
  TE.Lemmas.Binned — helper lemmas for TE/Props/C06.lean: searchsorted/bucket,
  list sums, unit histogram + suffix sums = counting.  Core Lean only.
-/
import TE.Model.Binned
import TE.Spec.Binned
namespace TE.BinnedL
open TE TE.Binned TE.Spec.Binned

theorem ss_le_length (t : List Q) (x : Q) : searchsortedRight t x ≤ t.length := by
  induction t with
  | nil => simp [searchsortedRight]
  | cons u t ih => simp only [searchsortedRight]; split <;> simp <;> omega

theorem lt_ss_iff (t : List Q) (x : Q) (hs : t.Pairwise (· ≤ ·)) (j : Nat) (hj : j < t.length) :
    j < searchsortedRight t x ↔ t[j] ≤ x := by
  induction t generalizing j with
  | nil => simp at hj
  | cons u t ih =>
    rw [List.pairwise_cons] at hs
    simp only [searchsortedRight]
    by_cases hx : x < u
    · simp only [hx, if_true, Nat.not_lt_zero, false_iff]
      cases j with
      | zero => simp; grind
      | succ j =>
        have hj' : j < t.length := by simpa using hj
        simp only [List.getElem_cons_succ]
        have := hs.1 t[j] (List.getElem_mem hj')
        grind
    · simp only [hx, if_false]
      cases j with
      | zero => simp; grind
      | succ j =>
        simp only [List.getElem_cons_succ, Nat.add_lt_add_iff_right]
        exact ih hs.2 j (by simpa using hj)

theorem sortedB_pairwise (t : List Q) (h : sortedB t = true) : t.Pairwise (· ≤ ·) := by
  induction t using sortedB.induct with
  | case1 u v t ih =>
    simp only [sortedB, Bool.and_eq_true, Bool.not_eq_true', decide_eq_false_iff_not] at h
    have ih := ih h.2
    rw [List.pairwise_cons] at ih ⊢
    refine ⟨?_, List.pairwise_cons.mpr ih⟩
    intro a ha
    rcases List.mem_cons.mp ha with rfl | ha
    · grind
    · have := ih.1 a ha; grind
  | case2 t h1 => 
    match t, h1 with
    | [], _ => exact List.Pairwise.nil
    | [a], _ => simp
    | a :: b :: t, h1 => exact absurd rfl (h1 a b t)


/-! ### sums -/

theorem foldl_add_eq (l : List Q) (x : Q) : l.foldl (· + ·) x = x + l.sum := by
  induction l generalizing x with
  | nil => simp [Rat.add_zero]
  | cons a l ih => simp only [List.foldl_cons, List.sum_cons, ih]; grind

theorem qsum_eq_sum (l : List Q) : qsum l = l.sum := by
  unfold qsum; rw [foldl_add_eq]; grind

theorem sum_map_add {α : Type} (l : List α) (f g : α → Q) :
    (l.map fun a => f a + g a).sum = (l.map f).sum + (l.map g).sum := by
  induction l with
  | nil => simp; grind
  | cons a l ih => simp only [List.map_cons, List.sum_cons, ih]; grind

theorem sum_map_zero {α : Type} (l : List α) : (l.map fun _ => (0 : Q)).sum = 0 := by
  induction l with
  | nil => rfl
  | cons a l ih => simp only [List.map_cons, List.sum_cons, ih]; grind

theorem sum_map_mul_left {α : Type} (l : List α) (c : Q) (f : α → Q) :
    (l.map fun a => c * f a).sum = c * (l.map f).sum := by
  induction l with
  | nil => simp
  | cons a l ih => simp only [List.map_cons, List.sum_cons, ih]; grind

/-- exchange of two finite sums. -/
theorem sum_swap {α β : Type} (l : List α) (m : List β) (h : α → β → Q) :
    (l.map fun a => (m.map fun b => h a b).sum).sum = (m.map fun b => (l.map fun a => h a b).sum).sum := by
  induction l with
  | nil => simp [sum_map_zero]
  | cons a l ih => simp only [List.map_cons, List.sum_cons, ih, sum_map_add]

theorem b2q_true : b2q true = 1 := rfl
theorem b2q_false : b2q false = 0 := rfl

theorem qcount_eq_sum {α : Type} (p : α → Bool) (l : List α) : qcount p l = (l.map fun a => b2q (p a)).sum := by
  unfold qcount
  induction l with
  | nil => simp
  | cons a l ih =>
    simp only [List.countP_cons, List.map_cons, List.sum_cons, ← ih]
    cases p a <;> simp [b2q, Rat.natCast_add] <;> grind

theorem sum_flatMap {α β : Type} (l : List α) (f : α → List β) (g : β → Q) :
    ((l.flatMap f).map g).sum = (l.map fun a => ((f a).map g).sum).sum := by
  induction l with
  | nil => simp
  | cons a l ih => simp [List.flatMap_cons, List.sum_append, ih]

/-- sum of `f` over `[k, k+n)`. -/
def sumFrom (f : Nat → Q) (k n : Nat) : Q := ((List.range' k n).map f).sum

theorem sumFrom_zero (f : Nat → Q) (k : Nat) : sumFrom f k 0 = 0 := rfl
theorem sumFrom_succ (f : Nat → Q) (k n : Nat) : sumFrom f k (n + 1) = f k + sumFrom f (k + 1) n := by
  simp [sumFrom, List.range'_succ]

/-- a single index of `[k, k+n)` carries the indicator. -/
theorem sumFrom_indicator (c : Nat) (b : Bool) (k n : Nat) :
    sumFrom (fun k' => b2q (decide (c = k' + 1) && b)) k n = b2q (decide (k < c ∧ c ≤ k + n) && b) := by
  induction n generalizing k with
  | zero =>
    simp [sumFrom_zero, b2q]; omega
  | succ n ih =>
    rw [sumFrom_succ, ih]
    by_cases h1 : c = k + 1
    · have h2 : ¬ (k + 1 < c ∧ c ≤ k + 1 + n) := by omega
      have h3 : (k < c ∧ c ≤ k + (n + 1)) := by omega
      cases b <;> simp [h1, b2q] <;> grind
    · by_cases h2 : (k + 1 < c ∧ c ≤ k + 1 + n)
      · have h3 : (k < c ∧ c ≤ k + (n + 1)) := by omega
        simp [h1, h2, h3, b2q]; grind
      · have h3 : ¬ (k < c ∧ c ≤ k + (n + 1)) := by omega
        simp [h1, h2, h3, b2q]; grind

/-! ### suffix sums -/

theorem suffixSums_map_range' (f : Nat → Q) (s n : Nat) :
    suffixSums ((List.range' s n).map f) = (List.range' s n).map fun k => sumFrom f k (s + n - k) := by
  induction n generalizing s with
  | zero => simp [suffixSums]
  | succ n ih =>
    simp only [List.range'_succ, List.map_cons, suffixSums, ih (s + 1)]
    congr 1
    · have e : s + (n + 1) - s = n + 1 := by omega
      rw [e, sumFrom_succ]
      congr 1
      cases n with
      | zero => simp [sumFrom_zero]
      | succ n =>
        simp only [List.range'_succ, List.map_cons, List.headD_cons]
        congr 1; omega
    · apply List.map_congr_left
      intro k _
      congr 1; omega

theorem suffixSums_map_range (f : Nat → Q) (n : Nat) :
    suffixSums ((List.range n).map f) = (List.range n).map fun k => sumFrom f k (n - k) := by
  rw [List.range_eq_range', suffixSums_map_range']
  apply List.map_congr_left
  intro k _; congr 1; omega

/-! ### the flat integer code and the unit histogram -/

/-- the flat code in terms of the `searchsorted` count `c` (bucket = `c − 1`). -/
def codeInt (S c s r : Nat) : Int := 2 * ((S : Int) * ((c : Int) - 1) + (s : Int)) + (r : Int)

theorem flatCode_eq (S : Nat) (t : List Q) (x : Q) (s r : Nat) :
    flatCode S t x s r = codeInt S (searchsortedRight t x) s r := rfl

theorem binaryCode_eq (t : List Q) (x : Q) (y : Nat) :
    binaryCode t x y = codeInt 1 (searchsortedRight t x) 0 y := by
  unfold binaryCode codeInt bucket; omega

theorem mixed_radix {S b s k s' : Nat} (hs : s < S) (hs' : s' < S) :
    S * b + s = S * k + s' ↔ b = k ∧ s = s' := by
  constructor
  · intro h
    have hb : b = k := by
      rcases Nat.lt_trichotomy b k with h1 | h1 | h1
      · have := Nat.mul_le_mul_left S (show b + 1 ≤ k from h1)
        rw [Nat.mul_succ] at this; omega
      · exact h1
      · have := Nat.mul_le_mul_left S (show k + 1 ≤ b from h1)
        rw [Nat.mul_succ] at this; omega
    subst hb
    exact ⟨rfl, by omega⟩
  · rintro ⟨rfl, rfl⟩; rfl

theorem codeInt_zero_neg (S s r : Nat) (hs : s < S) (hr : r ≤ 1) : codeInt S 0 s r < 0 := by
  unfold codeInt; omega

theorem codeInt_succ (S b s r : Nat) : codeInt S (b + 1) s r = ((2 * (S * b + s) + r : Nat) : Int) := by
  unfold codeInt
  have : ((b + 1 : Nat) : Int) - 1 = (b : Int) := by omega
  rw [this]; push_cast; rfl

theorem index_lt {T S k s r : Nat} (hk : k < T) (hs : s < S) (hr : r ≤ 1) : 2 * (S * k + s) + r < 2 * T * S := by
  have := Nat.mul_le_mul_left S (show k + 1 ≤ T from hk)
  rw [Nat.mul_succ] at this
  have e : 2 * T * S = 2 * (S * T) := by rw [Nat.mul_assoc, Nat.mul_comm T S]
  omega

/-- a `histc` bin predicate is hit by exactly one (bucket, slot, bit). -/
theorem hit_iff (T S c s r k s' r' : Nat) (hc : c ≤ T) (hs : s < S) (hr : r ≤ 1)
    (hk : k < T) (hs' : s' < S) (hr' : r' ≤ 1) :
    (codeInt S c s r == ((2 * (S * k + s') + r' : Nat) : Int)
      || ((2 * (S * k + s') + r') + 1 == 2 * T * S && codeInt S c s r == ((2 * T * S : Nat) : Int)))
    = (decide (c = k + 1) && (s == s' && r == r')) := by
  cases c with
  | zero =>
    have h := codeInt_zero_neg S s r hs hr
    have h1 : ¬ codeInt S 0 s r = ((2 * (S * k + s') + r' : Nat) : Int) := by omega
    have h2 : ¬ codeInt S 0 s r = ((2 * T * S : Nat) : Int) := by omega
    rw [Bool.eq_iff_iff]
    simp only [Bool.or_eq_true, Bool.and_eq_true, beq_iff_eq, decide_eq_true_eq, h1, h2, and_false, or_false, false_iff]
    omega
  | succ b =>
    rw [codeInt_succ]
    have hlt : 2 * (S * b + s) + r < 2 * T * S := index_lt (show b < T from hc) hs hr
    have h2 : ¬ ((2 * (S * b + s) + r : Nat) : Int) = ((2 * T * S : Nat) : Int) := by omega
    have h1 : (((2 * (S * b + s) + r : Nat) : Int) = ((2 * (S * k + s') + r' : Nat) : Int)) ↔ (b = k ∧ s = s' ∧ r = r') := by
      rw [Int.natCast_inj]
      constructor
      · intro h
        have h3 : S * b + s = S * k + s' ∧ r = r' := by omega
        have := (mixed_radix hs hs').mp h3.1
        exact ⟨this.1, this.2, h3.2⟩
      · rintro ⟨rfl, rfl, rfl⟩; rfl
    rw [Bool.eq_iff_iff]
    simp only [Bool.or_eq_true, Bool.and_eq_true, beq_iff_eq, decide_eq_true_eq, h1, h2, and_false, or_false]
    omega

theorem histcUnit_getD (bins : Nat) (vals : List Int) (i : Nat) (hi : i < bins) :
    (histcUnit bins vals).getD i 0
      = qcount (fun v : Int => v == (i : Int) || (i + 1 == bins && v == (bins : Int))) vals := by
  unfold histcUnit
  simp [List.getD_eq_getElem?_getD, List.getElem?_map, List.getElem?_range hi]

theorem sum_range_single (S s' : Nat) (g : Nat → Q) :
    ((List.range S).map fun s => if s = s' then g s else 0).sum = if s' < S then g s' else 0 := by
  induction S with
  | zero => simp
  | succ S ih =>
    rw [List.range_succ, List.map_append, List.sum_append, ih]
    by_cases h1 : s' < S
    · have h2 : ¬ S = s' := by omega
      have h3 : s' < S + 1 := by omega
      simp [h1, h2, h3]; grind
    · by_cases h2 : S = s'
      · subst h2; simp; grind
      · have h3 : ¬ s' < S + 1 := by omega
        simp [h1, h2, h3]; grind

/-- codes of a batch: every item contributes one code per slot. -/
def codesOf {α : Type} (S : Nat) (cnt bit : α → Nat → Nat) (items : List α) : List Int :=
  items.flatMap fun a => (List.range S).map fun s => codeInt S (cnt a s) s (bit a s)

/-- content of one `histc` bin: the items whose slot `s'` has bucket `k` and bit `r'`. -/
theorem bin_count {α : Type} (T S : Nat) (cnt bit : α → Nat → Nat) (items : List α)
    (hc : ∀ a ∈ items, ∀ s, s < S → cnt a s ≤ T) (hb : ∀ a ∈ items, ∀ s, s < S → bit a s ≤ 1)
    (k s' r' : Nat) (hk : k < T) (hs' : s' < S) (hr' : r' ≤ 1) :
    (histcUnit (2 * T * S) (codesOf S cnt bit items)).getD (2 * (S * k + s') + r') 0
      = (items.map fun a => b2q (decide (cnt a s' = k + 1) && bit a s' == r')).sum := by
  rw [histcUnit_getD _ _ _ (index_lt hk hs' hr'), qcount_eq_sum, codesOf, sum_flatMap]
  congr 1
  apply List.map_congr_left
  intro a ha
  rw [List.map_map]
  have : ((List.range S).map ((fun v : Int => b2q (v == ((2 * (S * k + s') + r' : Nat) : Int)
            || ((2 * (S * k + s') + r') + 1 == 2 * T * S && v == ((2 * T * S : Nat) : Int))))
            ∘ fun s => codeInt S (cnt a s) s (bit a s)))
      = (List.range S).map fun s => if s = s' then b2q (decide (cnt a s = k + 1) && bit a s == r') else 0 := by
    apply List.map_congr_left
    intro s hs
    have hs : s < S := List.mem_range.mp hs
    simp only [Function.comp]
    rw [hit_iff T S (cnt a s) s (bit a s) k s' r' (hc a ha s hs) hs (hb a ha s hs) hk hs' hr']
    by_cases h : s = s'
    · subst h; simp
    · simp [h, b2q]
  rw [this, sum_range_single, if_pos hs']

theorem memLine_eq {α : Type} (T S : Nat) (cnt bit : α → Nat → Nat) (items : List α)
    (hc : ∀ a ∈ items, ∀ s, s < S → cnt a s ≤ T) (hb : ∀ a ∈ items, ∀ s, s < S → bit a s ≤ 1)
    (s' r' : Nat) (hs' : s' < S) (hr' : r' ≤ 1) :
    memLine T S (histcUnit (2 * T * S) (codesOf S cnt bit items)) r' s'
      = (List.range T).map fun k => qcount (fun a => decide (k < cnt a s') && bit a s' == r') items := by
  unfold memLine
  have : ((List.range T).map fun k => (histcUnit (2 * T * S) (codesOf S cnt bit items)).getD (2 * (S * k + s') + r') 0)
      = (List.range T).map fun k => (items.map fun a => b2q (decide (cnt a s' = k + 1) && bit a s' == r')).sum := by
    apply List.map_congr_left
    intro k hk
    exact bin_count T S cnt bit items hc hb k s' r' (List.mem_range.mp hk) hs' hr'
  rw [this, suffixSums_map_range]
  apply List.map_congr_left
  intro k hk
  have hk : k < T := List.mem_range.mp hk
  unfold sumFrom
  rw [sum_swap, qcount_eq_sum]
  congr 1
  apply List.map_congr_left
  intro a ha
  have := sumFrom_indicator (cnt a s') (bit a s' == r') k (T - k)
  unfold sumFrom at this
  rw [this]
  have hle := hc a ha s' hs'
  have : (k < cnt a s' ∧ cnt a s' ≤ k + (T - k)) ↔ k < cnt a s' := by omega
  simp only [this]

theorem memMat_eq {α : Type} (T S : Nat) (cnt bit : α → Nat → Nat) (items : List α)
    (hc : ∀ a ∈ items, ∀ s, s < S → cnt a s ≤ T) (hb : ∀ a ∈ items, ∀ s, s < S → bit a s ≤ 1)
    (r' : Nat) (hr' : r' ≤ 1) :
    memMat T S (histcUnit (2 * T * S) (codesOf S cnt bit items)) r'
      = (List.range T).map fun k => (List.range S).map fun s =>
          qcount (fun a => decide (k < cnt a s) && bit a s == r') items := by
  unfold memMat
  apply List.map_congr_left
  intro k hk
  apply List.map_congr_left
  intro s hs
  rw [memLine_eq T S cnt bit items hc hb s r' (List.mem_range.mp hs) hr']
  simp [List.getD_eq_getElem?_getD, List.getElem?_map, List.getElem?_range (List.mem_range.mp hk)]

/-! ### from index form to per-threshold form -/

theorem map_range_eq_map {β : Type} (t : List Q) (F : Nat → β) (G : Q → β)
    (h : ∀ k (hk : k < t.length), F k = G t[k]) : (List.range t.length).map F = t.map G := by
  apply List.ext_getElem
  · simp
  · intro i h1 h2
    simp only [List.getElem_map, List.getElem_range]
    exact h i (by simpa using h1)

theorem qcount_congr {α : Type} (p q : α → Bool) (l : List α) (h : ∀ a ∈ l, p a = q a) :
    qcount p l = qcount q l := by
  unfold qcount; rw [List.countP_congr]; intro a ha; rw [h a ha]

theorem pos_split (s : Samples) (u : Q) : s.countP (fun p => p.2 == 1) = tpAt s u + fnAt s u := by
  unfold tpAt fnAt
  induction s with
  | nil => rfl
  | cons p s ih =>
    simp only [List.countP_cons, ih]
    by_cases h1 : p.2 = 1 <;> by_cases h2 : u ≤ p.1
    · have : ¬ p.1 < u := Rat.not_lt.mpr h2
      simp [h1, h2, this]; omega
    · have : p.1 < u := Rat.not_le.mp h2
      simp [h1, h2, this]; omega
    · simp [h1]
    · simp [h1]

theorem qsum_nat01 (ys : List Nat) (hy : ∀ y ∈ ys, y ≤ 1) :
    qsum (ys.map fun y => ((y : Nat) : Q)) = ((ys.countP (· == 1) : Nat) : Q) := by
  rw [qsum_eq_sum]
  induction ys with
  | nil => simp
  | cons y ys ih =>
    have h1 : y ≤ 1 := hy y (List.mem_cons_self)
    have ih := ih (fun z hz => hy z (List.mem_cons_of_mem _ hz))
    simp only [List.map_cons, List.sum_cons, ih, List.countP_cons]
    rcases (show y = 0 ∨ y = 1 by omega) with rfl | rfl
    · simp; grind
    · simp [Rat.natCast_add]; grind

theorem countP_snd_zip {α : Type} (xs : List α) (ys : List Nat) (hlen : xs.length = ys.length) (p : Nat → Bool) :
    (xs.zip ys).countP (fun q => p q.2) = ys.countP p := by
  have : ys = (xs.zip ys).map Prod.snd := (List.map_snd_zip (by omega)).symm
  conv => rhs; rw [this, List.countP_map]
  rfl

theorem flatMap_single {α β : Type} (f : α → β) (l : List α) : l.flatMap (fun a => [f a]) = l.map f := by
  induction l with
  | nil => rfl
  | cons a l ih => simp [List.flatMap_cons, ih]

/-! ### generic (items × slots) view: multiclass one-vs-rest and multilabel columns -/

/-- the binary problem of slot `s`: `(score a s, lab a s)` for every item. -/
def viewOf {α : Type} (items : List α) (score : α → Nat → Q) (lab : α → Nat → Nat) (s : Nat) : Samples :=
  items.map fun a => (score a s, lab a s)

theorem memMat_counts {α : Type} (t : List Q) (hs : t.Pairwise (· ≤ ·)) (S : Nat) (items : List α)
    (score : α → Nat → Q) (lab : α → Nat → Nat) (hb : ∀ a ∈ items, ∀ s, s < S → lab a s ≤ 1)
    (r : Nat) (hr : r ≤ 1) :
    memMat t.length S (histcUnit (2 * t.length * S)
        (codesOf S (fun a s => searchsortedRight t (score a s)) lab items)) r
      = t.map fun u => (List.range S).map fun s =>
          (((viewOf items score lab s).countP fun p => p.2 == r && decide (u ≤ p.1) : Nat) : Q) := by
  rw [memMat_eq t.length S _ lab items (fun a _ s _ => ss_le_length t (score a s)) hb r hr]
  apply map_range_eq_map
  intro k hk
  apply List.map_congr_left
  intro s _
  unfold viewOf
  rw [List.countP_map]
  show qcount _ _ = qcount _ _
  apply qcount_congr
  intro a _
  simp only [Function.comp]
  rw [Bool.and_comm]; congr 1
  exact decide_eq_decide.mpr (lt_ss_iff t (score a s) hs k hk)

theorem zip_map_map {α β γ δ : Type} (l : List α) (f : α → β) (g : α → γ) (h : β × γ → δ) :
    ((l.map f).zip (l.map g)).map h = l.map fun a => h (f a, g a) := by
  induction l with
  | nil => rfl
  | cons a l ih => simp [ih]

/-- `class_counts[None, :] - num_tp` when `class_counts[s]` is the number of positives of slot `s`. -/
theorem fnFrom_eq (t : List Q) (S : Nat) (view : Nat → Samples) :
    fnFrom ((List.range S).map fun s => (((view s).countP fun p => p.2 == 1 : Nat) : Q))
        (t.map fun u => (List.range S).map fun s => ((tpAt (view s) u : Nat) : Q))
      = t.map fun u => (List.range S).map fun s => ((fnAt (view s) u : Nat) : Q) := by
  unfold fnFrom
  rw [List.map_map]
  apply List.map_congr_left
  intro u _
  simp only [Function.comp, zip_map_map]
  apply List.map_congr_left
  intro s _
  rw [pos_split (view s) u, Rat.natCast_add]; grind

/-- among 0/1-labelled samples, those scoring `≥ u` split into TP and FP. -/
theorem ge_split (s : Samples) (u : Q) (h01 : ∀ p ∈ s, p.2 ≤ 1) :
    s.countP (fun p => decide (u ≤ p.1)) = tpAt s u + fpAt s u := by
  unfold tpAt fpAt
  induction s with
  | nil => rfl
  | cons p s ih =>
    have h1 : p.2 ≤ 1 := h01 p List.mem_cons_self
    simp only [List.countP_cons, ih (fun q hq => h01 q (List.mem_cons_of_mem _ hq))]
    rcases (show p.2 = 0 ∨ p.2 = 1 by omega) with h | h <;> by_cases h2 : u ≤ p.1 <;> simp [h, h2] <;> omega

/-! ### multiclass (one-vs-rest) and multilabel instances -/

theorem ovr_eq_view (rows : List (List Q)) (labs : List Nat) (c : Nat) :
    ovr rows labs c = viewOf (rows.zip labs) (fun p c => colAt p.1 c) (fun p c => if c == p.2 then 1 else 0) c := by
  unfold ovr viewOf colAt
  apply List.map_congr_left
  intro p _
  by_cases h : p.2 = c
  · simp [h]
  · have : ¬ c = p.2 := fun e => h e.symm
    simp [h, this]

theorem labelCol_eq_view (rows : List (List Q)) (tgts : List (List Nat)) (l : Nat) :
    labelCol rows tgts l = viewOf (rows.zip tgts) (fun p l => colAt p.1 l) (fun p l => tgtAt p.2 l) l := rfl

theorem ovr_label_le (rows : List (List Q)) (labs : List Nat) (c : Nat) : ∀ p ∈ ovr rows labs c, p.2 ≤ 1 := by
  intro p hp
  unfold ovr at hp
  obtain ⟨q, _, rfl⟩ := List.mem_map.mp hp
  by_cases h : q.2 = c <;> simp [h]

theorem classCounts_eq (C : Nat) (rows : List (List Q)) (labs : List Nat)
    (hlen : rows.length = labs.length) (hl : ∀ l ∈ labs, l < C) :
    histcUnit C (labs.map fun l => ((l : Nat) : Int))
      = (List.range C).map fun c => (((ovr rows labs c).countP fun p => p.2 == 1 : Nat) : Q) := by
  unfold histcUnit
  apply List.map_congr_left
  intro c _
  unfold qcount ovr
  congr 1
  rw [List.countP_map, List.countP_map, ← countP_snd_zip rows labs hlen]
  apply List.countP_congr
  intro p hp
  have hlt : p.2 < C := hl p.2 (List.of_mem_zip hp).2
  have h1 : ¬ ((p.2 : Nat) : Int) = (C : Int) := by omega
  by_cases h : p.2 = c
  · simp [h]
  · have h2 : ¬ ((p.2 : Nat) : Int) = (c : Int) := by omega
    simp [h, h1, h2]

theorem b2q_mul (a b : Bool) : b2q a * b2q b = b2q (a && b) := by
  cases a <;> cases b <;> simp [b2q] <;> grind

theorem cast_countP_eq_sum {α : Type} (p : α → Bool) (l : List α) :
    ((l.countP p : Nat) : Q) = (l.map fun a => b2q (p a)).sum := qcount_eq_sum p l

theorem mcVecTp_eq (u : Q) (c : Nat) (rows : List (List Q)) (labs : List Nat) :
    mcVecTp u c rows labs = ((tpAt (ovr rows labs c) u : Nat) : Q) := by
  unfold mcVecTp tpAt ovr
  rw [qsum_eq_sum, List.countP_map, cast_countP_eq_sum]
  congr 1
  apply List.map_congr_left
  intro p _
  rw [b2q_mul]
  by_cases h : p.2 = c
  · simp [h, colAt]
  · have hb : (p.2 == c) = false := beq_eq_false_iff_ne.mpr h
    simp [h, hb]

theorem mcVecGe_eq (u : Q) (c : Nat) (rows : List (List Q)) (labs : List Nat) (hlen : rows.length = labs.length) :
    qsum (rows.map fun r => b2q (decide (u ≤ colAt r c)))
      = (((ovr rows labs c).countP fun p => decide (u ≤ p.1) : Nat) : Q) := by
  unfold ovr
  rw [qsum_eq_sum, List.countP_map, cast_countP_eq_sum]
  have : rows = (rows.zip labs).map Prod.fst := (List.map_fst_zip (by omega)).symm
  conv => lhs; rw [this, List.map_map]
  rfl

theorem mcVecFp_eq (u : Q) (c : Nat) (rows : List (List Q)) (labs : List Nat) (hlen : rows.length = labs.length) :
    mcVecFp u c rows labs = ((fpAt (ovr rows labs c) u : Nat) : Q) := by
  unfold mcVecFp
  rw [mcVecTp_eq, mcVecGe_eq u c rows labs hlen, ge_split _ u (ovr_label_le rows labs c), Rat.natCast_add]
  grind

theorem mcVecFn_eq (u : Q) (c : Nat) (rows : List (List Q)) (labs : List Nat) (hlen : rows.length = labs.length) :
    mcVecFn u c rows labs = ((fnAt (ovr rows labs c) u : Nat) : Q) := by
  unfold mcVecFn
  have : qsum (labs.map fun l => b2q (l == c)) = (((ovr rows labs c).countP fun p => p.2 == 1 : Nat) : Q) := by
    unfold ovr
    rw [qsum_eq_sum, List.countP_map, cast_countP_eq_sum]
    have : labs = (rows.zip labs).map Prod.snd := (List.map_snd_zip (by omega)).symm
    conv => lhs; rw [this, List.map_map]
    congr 1
    apply List.map_congr_left
    intro p _
    by_cases h : p.2 = c
    · simp [h]
    · have hb : (p.2 == c) = false := beq_eq_false_iff_ne.mpr h
      simp [h, hb]
  rw [this, mcVecTp_eq, pos_split _ u, Rat.natCast_add]
  grind

theorem tgtAt_le (r : List Nat) (l : Nat) (h : ∀ y ∈ r, y ≤ 1) : tgtAt r l ≤ 1 := by
  unfold tgtAt
  rw [List.getD_eq_getElem?_getD]
  cases hr : r[l]? with
  | none => simp
  | some y => simpa using h y (List.mem_of_getElem? hr)

theorem labelCol_label_le (rows : List (List Q)) (tgts : List (List Nat)) (l : Nat)
    (h01 : ∀ r ∈ tgts, ∀ y ∈ r, y ≤ 1) : ∀ p ∈ labelCol rows tgts l, p.2 ≤ 1 := by
  intro p hp
  unfold labelCol at hp
  obtain ⟨q, hq, rfl⟩ := List.mem_map.mp hp
  exact tgtAt_le q.2 l (h01 q.2 (List.of_mem_zip hq).2)

theorem mlVecTp_eq (u : Q) (l : Nat) (rows : List (List Q)) (tgts : List (List Nat))
    (h01 : ∀ r ∈ tgts, ∀ y ∈ r, y ≤ 1) :
    mlVecTp u l rows tgts = ((tpAt (labelCol rows tgts l) u : Nat) : Q) := by
  unfold mlVecTp tpAt labelCol
  rw [qsum_eq_sum, List.countP_map, cast_countP_eq_sum]
  congr 1
  apply List.map_congr_left
  intro p hp
  have hle : tgtAt p.2 l ≤ 1 := tgtAt_le p.2 l (h01 p.2 (List.of_mem_zip hp).2)
  simp only [Function.comp]
  show ((Nat.land (b2n (decide (u ≤ colAt p.1 l))) (tgtAt p.2 l) : Nat) : Q)
      = b2q (tgtAt p.2 l == 1 && decide (u ≤ colAt p.1 l))
  rcases (show tgtAt p.2 l = 0 ∨ tgtAt p.2 l = 1 by omega) with h | h <;>
    by_cases h2 : u ≤ colAt p.1 l <;> simp [h, h2, b2n, b2q] <;> rfl

theorem mlVecFp_eq (u : Q) (l : Nat) (rows : List (List Q)) (tgts : List (List Nat))
    (hlen : rows.length = tgts.length) (h01 : ∀ r ∈ tgts, ∀ y ∈ r, y ≤ 1) :
    mlVecFp u l rows tgts = ((fpAt (labelCol rows tgts l) u : Nat) : Q) := by
  unfold mlVecFp
  have : qsum (rows.map fun r => b2q (decide (u ≤ colAt r l)))
      = (((labelCol rows tgts l).countP fun p => decide (u ≤ p.1) : Nat) : Q) := by
    unfold labelCol
    rw [qsum_eq_sum, List.countP_map, cast_countP_eq_sum]
    have : rows = (rows.zip tgts).map Prod.fst := (List.map_fst_zip (by omega)).symm
    conv => lhs; rw [this, List.map_map]
    rfl
  rw [this, mlVecTp_eq u l rows tgts h01, ge_split _ u (labelCol_label_le rows tgts l h01), Rat.natCast_add]
  grind

theorem mlCounts_eq (l : Nat) (rows : List (List Q)) (tgts : List (List Nat))
    (hlen : rows.length = tgts.length) (h01 : ∀ r ∈ tgts, ∀ y ∈ r, y ≤ 1) :
    qsum (tgts.map fun r => ((tgtAt r l : Nat) : Q))
      = (((labelCol rows tgts l).countP fun p => p.2 == 1 : Nat) : Q) := by
  have e : (tgts.map fun r => ((tgtAt r l : Nat) : Q)) = (tgts.map fun r => tgtAt r l).map fun y => ((y : Nat) : Q) := by
    rw [List.map_map]; rfl
  rw [e, qsum_nat01 _ (by
    intro y hy
    obtain ⟨r, hr, rfl⟩ := List.mem_map.mp hy
    exact tgtAt_le r l (h01 r hr))]
  congr 1
  unfold labelCol
  rw [List.countP_map, List.countP_map]
  have : tgts = (rows.zip tgts).map Prod.snd := (List.map_snd_zip (by omega)).symm
  conv => lhs; rw [this, List.countP_map]
  rfl

theorem mlVecFn_eq (u : Q) (l : Nat) (rows : List (List Q)) (tgts : List (List Nat))
    (hlen : rows.length = tgts.length) (h01 : ∀ r ∈ tgts, ∀ y ∈ r, y ≤ 1) :
    mlVecFn u l rows tgts = ((fnAt (labelCol rows tgts l) u : Nat) : Q) := by
  unfold mlVecFn
  rw [mlCounts_eq l rows tgts hlen h01, mlVecTp_eq u l rows tgts h01, pos_split _ u, Rat.natCast_add]
  grind

/-! ### `_compute` -/

theorem nanTo1_eq (x : XQ) : nanTo1 x = (match x with | .nan => .val 1 | p => p) := by
  cases x <;> rfl

theorem curveCompute_counts (s : Samples) (t : List Q) :
    curveCompute (t.map fun u => ((tpAt s u : Nat) : Q)) (t.map fun u => ((fpAt s u : Nat) : Q))
      (t.map fun u => ((fnAt s u : Nat) : Q)) = curve s t := by
  unfold curveCompute curve precisionAt recallAt
  simp only [zip_map_map]
  rfl

theorem column_map_range (t : List Q) (S : Nat) (f : Q → Nat → Q) (s : Nat) (hs : s < S) :
    column (t.map fun u => (List.range S).map fun s => f u s) s = t.map fun u => f u s := by
  unfold column
  rw [List.map_map]
  apply List.map_congr_left
  intro u _
  simp [List.getD_eq_getElem?_getD, List.getElem?_map, List.getElem?_range hs]

end TE.BinnedL
