import TE.Model.Heap
namespace TE.Heap

/-- invariant carried along safe programs: every target cell is allocated and is not a protected cell;
    protected cells are allocated. -/
def Sep (h : Heap) (o : Obj) (prot : List Cell) : Prop :=
  (∀ c ∈ cells o, c < h.next ∧ c ∉ prot) ∧ (∀ c ∈ prot, c < h.next)

theorem mem_cells_setAttr {o : Obj} {a : String} {c x : Cell} (hx : x ∈ cells (setAttr o a c)) :
    x = c ∨ x ∈ cells o := by
  simp only [cells, setAttr, List.map_cons, List.mem_cons, List.mem_map, List.mem_filter] at hx ⊢
  rcases hx with h | ⟨p, ⟨hp, _⟩, rfl⟩
  · exact Or.inl h
  · exact Or.inr ⟨p, hp, rfl⟩

theorem lookup_mem {o : Obj} {a : String} {c : Cell} (h : lookup o a = some c) : c ∈ cells o := by
  simp only [lookup, Option.map_eq_some_iff] at h
  obtain ⟨p, hp, rfl⟩ := h
  exact List.mem_map.mpr ⟨p, List.mem_of_find?_eq_some hp, rfl⟩

theorem step_safe (h : Heap) (o : Obj) (prot : List Cell) (e : Eff) (hs : e.safe = true)
    (inv : Sep h o prot) :
    Sep (step (h, o) e).1 (step (h, o) e).2 prot ∧ ∀ c ∈ prot, (step (h, o) e).1.ver c = h.ver c := by
  cases e with
  | rebindFresh a =>
    refine ⟨⟨?_, ?_⟩, fun c _ => rfl⟩
    · intro x hx
      rcases mem_cells_setAttr hx with rfl | hx
      · refine ⟨Nat.lt_succ_self _, fun hm => ?_⟩
        exact Nat.lt_irrefl _ (inv.2 _ hm)
      · exact ⟨Nat.lt_succ_of_lt (inv.1 x hx).1, (inv.1 x hx).2⟩
    · intro c hc; exact Nat.lt_succ_of_lt (inv.2 c hc)
  | inplace a =>
    simp only [step]
    cases hl : lookup o a with
    | none => exact ⟨inv, fun _ _ => rfl⟩
    | some c0 =>
      refine ⟨⟨inv.1, inv.2⟩, ?_⟩
      intro c hc
      have : c ≠ c0 := fun e => (inv.1 c0 (lookup_mem hl)).2 (e ▸ hc)
      simp [bump, this]
  | rebindAlias a c => simp [Eff.safe] at hs
  | inplaceOn c => simp [Eff.safe] at hs

theorem run_safe (p : List Eff) : ∀ (h : Heap) (o : Obj) (prot : List Cell), safeProg p = true → Sep h o prot →
    Sep (run (h, o) p).1 (run (h, o) p).2 prot ∧ ∀ c ∈ prot, (run (h, o) p).1.ver c = h.ver c := by
  induction p with
  | nil => intro h o prot _ inv; exact ⟨inv, fun _ _ => rfl⟩
  | cons e p ih =>
    intro h o prot hs inv
    simp only [safeProg, List.all_cons, Bool.and_eq_true] at hs
    obtain ⟨i1, v1⟩ := step_safe h o prot e hs.1 inv
    obtain ⟨i2, v2⟩ := ih (step (h, o) e).1 (step (h, o) e).2 prot hs.2 i1
    refine ⟨i2, fun c hc => ?_⟩
    have := v2 c hc
    simp only [run, List.foldl_cons] at this ⊢
    rw [this, v1 c hc]

end TE.Heap
