/-
  TE.Lemmas.CurveAuroc — helper lemmas for C05, part 2: the trapezoid over the
  right-aligned cumulative group sums equals the pairwise (Mann–Whitney) double
  sum; sorting facts; bridge from `Pt` samples to weighted labelled samples.
-/
import TE.Lemmas.Curve
namespace TE.CurveL
open TE TE.Curve TE.Spec.Curve

/-! ### the kernel -/

theorem kernel_self (s : Q) : kernel s s = 1 / 2 := by
  unfold kernel
  have : ¬ s < s := Rat.lt_irrefl
  simp [this]

theorem kernel_gt {si sj : Q} (h : sj < si) : kernel si sj = 1 := by
  unfold kernel; simp [h]

theorem kernel_lt {si sj : Q} (h : si < sj) : kernel si sj = 0 := by
  unfold kernel
  have h1 : ¬ sj < si := by grind
  have h2 : ¬ si = sj := by grind
  simp [h1, h2]

/-- a new sample scored strictly above all others: it beats every negative,
    is beaten by nobody, and ties with itself. -/
theorem ptNum_cons_gt (g : Pt) (gs : List Pt) (h : ∀ y ∈ gs, y.s < g.s) :
    ptNum (g :: gs) = ptNum gs + g.a * (gs.map Pt.b).sum + g.a * g.b / 2 := by
  unfold ptNum
  rw [wsum_cons, wsum_cons, kernel_self]
  have e1 : wsum Pt.b (fun s' => kernel g.s s') gs = (gs.map Pt.b).sum := by
    rw [← wsum_one]
    apply wsum_congr
    intro y hy
    exact kernel_gt (h y hy)
  have e2 : wsum Pt.a (fun s => wsum Pt.b (fun s' => kernel s s') (g :: gs)) gs
      = wsum Pt.a (fun s => wsum Pt.b (fun s' => kernel s s') gs) gs := by
    apply wsum_congr
    intro y hy
    rw [wsum_cons, kernel_lt (h y hy)]
    grind
  rw [e1, e2]
  grind

/-! ### trapezoid -/

theorem getLast?_cumsumFrom (acc : Q) (l : List Q) (h : l ≠ []) :
    (cumsumFrom acc l).getLast? = some (acc + l.sum) := by
  induction l generalizing acc with
  | nil => exact absurd rfl h
  | cons x l ih =>
    cases l with
    | nil => simp [cumsumFrom]; grind
    | cons y r =>
      have := ih (acc + x) (by simp)
      simp only [cumsumFrom, List.getLast?_cons_cons, List.sum_cons] at this ⊢
      rw [this]
      congr 1
      grind

/-- the trapezoid over the cumulative sums of strictly descending groups,
    started at the point `(fp0, tp0)`. -/
theorem trapz_groups (gs : List Pt) (h : SDesc gs) (tp0 fp0 : Q) :
    trapz (tp0 :: cumsumFrom tp0 (gs.map (·.a))) (fp0 :: cumsumFrom fp0 (gs.map (·.b)))
      = ptNum gs + tp0 * (gs.map Pt.b).sum := by
  induction gs generalizing tp0 fp0 with
  | nil => simp [cumsumFrom, trapz, ptNum, wsum_nil]; grind
  | cons g gs ih =>
    have hg := (List.pairwise_cons.mp h).1
    have ih := ih (List.pairwise_cons.mp h).2 (tp0 + g.a) (fp0 + g.b)
    simp only [List.map_cons, cumsumFrom, trapz, List.sum_cons] at ih ⊢
    rw [ih, ptNum_cons_gt g gs hg]
    grind

/-- leading zero points contribute nothing. -/
theorem trapz_pad (m : Nat) (ys xs : List Q) :
    trapz (List.replicate (m + 1) 0 ++ ys) (List.replicate (m + 1) 0 ++ xs) = trapz (0 :: ys) (0 :: xs) := by
  induction m with
  | zero => simp
  | succ m ih =>
    have e : ∀ l : List Q, List.replicate (m + 1 + 1) 0 ++ l = 0 :: 0 :: (List.replicate m 0 ++ l) := by
      intro l; simp [List.replicate_succ]
    have e' : ∀ l : List Q, List.replicate (m + 1) 0 ++ l = 0 :: (List.replicate m 0 ++ l) := by
      intro l; simp [List.replicate_succ]
    rw [e, e]
    simp only [trapz]
    rw [e', e'] at ih
    rw [ih]
    grind

/-- the `masked_scatter_` + `trapz` step: with `m` leading zeros in front of the
    cumulative group sums the trapezoid is the pairwise double sum; without any
    (`m = 0`, all scores distinct) the first point is not preceded by the origin
    and the first sample must not carry both kinds of mass. -/
theorem trapz_padded (srt : List Pt) (hd : Desc srt) (hab : ∀ x ∈ srt, x.a * x.b = 0) :
    trapz (padLeft srt.length (cumsumFrom 0 ((collapse srt).map (·.a))))
          (padLeft srt.length (cumsumFrom 0 ((collapse srt).map (·.b)))) = ptNum srt := by
  have hs := collapse_sdesc srt hd
  have hle := collapse_length_le srt
  unfold padLeft
  rw [cumsumFrom_length, cumsumFrom_length, List.length_map, List.length_map]
  cases hm : srt.length - (collapse srt).length with
  | zero =>
    have hc := collapse_eq_self_of_length srt (by omega)
    rw [hc] at hs ⊢
    simp only [List.replicate_zero, List.nil_append]
    cases srt with
    | nil => simp [cumsumFrom, trapz, ptNum, wsum_nil]
    | cons x r =>
      have hx := hab x (List.mem_cons_self ..)
      simp only [List.map_cons, cumsumFrom]
      rw [trapz_groups r (List.pairwise_cons.mp hs).2, ptNum_cons_gt x r (List.pairwise_cons.mp hs).1]
      grind
  | succ m =>
    rw [trapz_pad, trapz_groups _ hs, collapse_ptNum]
    grind

theorem getLast?_padLeft_cumsum (n : Nat) (l : List Q) (h : l ≠ []) :
    (padLeft n (cumsumFrom 0 l)).getLast? = some l.sum := by
  unfold padLeft
  rw [List.getLast?_append, getLast?_cumsumFrom 0 l h]
  have : (0 : Q) + l.sum = l.sum := by grind
  simp [this]

/-- closed form of `aurocSorted` on a descending list. -/
theorem aurocSorted_eq (srt : List Pt) (hne : srt ≠ []) (hd : Desc srt)
    (hab : ∀ x ∈ srt, x.a * x.b = 0) :
    aurocSorted srt = .ok (if (srt.map Pt.a).sum * (srt.map Pt.b).sum = 0 then 1 / 2
      else ptNum srt / ((srt.map Pt.a).sum * (srt.map Pt.b).sum)) := by
  have hcne : collapse srt ≠ [] := by
    cases srt with
    | nil => exact absurd rfl hne
    | cons x r => obtain ⟨g, gs, hc, _⟩ := collapse_head_s x r; rw [hc]; simp
  have hTp := getLast?_padLeft_cumsum srt.length ((collapse srt).map (·.a)) (by simpa using hcne)
  have hFp := getLast?_padLeft_cumsum srt.length ((collapse srt).map (·.b)) (by simpa using hcne)
  have hT := trapz_padded srt hd hab
  have ea : (collapse srt).map (·.a) = (collapse srt).map Pt.a := rfl
  have eb : (collapse srt).map (·.b) = (collapse srt).map Pt.b := rfl
  rw [ea, collapse_sum_a] at hTp
  rw [eb, collapse_sum_b] at hFp
  unfold aurocSorted cumsum
  simp only [select_cumsum_a, select_cumsum_b, hTp, hFp, hT]

/-! ### sorting -/

theorem sortDesc_perm (l : List Pt) : (sortDesc l).Perm l := List.mergeSort_perm l _

theorem sortDesc_desc (l : List Pt) : Desc (sortDesc l) := by
  have := List.pairwise_mergeSort (le := fun x y : Pt => decide (y.s ≤ x.s))
    (by intro a b c h1 h2; simp only [decide_eq_true_eq] at h1 h2 ⊢; exact Rat.le_trans h2 h1)
    (by intro a b; simp only [Bool.or_eq_true, decide_eq_true_eq]; exact Rat.le_total.symm) l
  unfold Desc sortDesc
  exact this.imp (by intro a b h; simpa using h)

/-- AUROC core on *any* descending arrangement of the samples. -/
theorem aurocSorted_of_perm (l srt : List Pt) (hp : srt.Perm l) (hd : Desc srt) (hne : l ≠ [])
    (hab : ∀ x ∈ l, x.a * x.b = 0) :
    aurocSorted srt = .ok (if (l.map Pt.a).sum * (l.map Pt.b).sum = 0 then 1 / 2
      else ptNum l / ((l.map Pt.a).sum * (l.map Pt.b).sum)) := by
  have hne' : srt ≠ [] := by
    intro e; rw [e] at hp; exact hne (List.Perm.nil_eq hp).symm
  rw [aurocSorted_eq srt hne' hd (fun x hx => hab x (hp.mem_iff.mp hx)),
    sum_map_perm hp, sum_map_perm hp, ptNum_perm hp]

theorem aurocCore_eq (l : List Pt) (hne : l ≠ []) (hab : ∀ x ∈ l, x.a * x.b = 0) :
    aurocCore l = .ok (if (l.map Pt.a).sum * (l.map Pt.b).sum = 0 then 1 / 2
      else ptNum l / ((l.map Pt.a).sum * (l.map Pt.b).sum)) :=
  aurocSorted_of_perm l _ (sortDesc_perm l) (sortDesc_desc l) hne hab

theorem aurocSorted_nil : aurocSorted [] = .error .runtime := rfl

/-! ### weighted labelled samples -/

/-- the sample as `_binary_auroc_compute_jit` sees it. -/
def toPt (x : Sample) : Pt := ⟨x.s, x.w * x.t, x.w * (1 - x.t)⟩

def Binary (l : List Sample) : Prop := ∀ x ∈ l, x.t = 0 ∨ x.t = 1

theorem binPts_eq (xs ts ws : List Q) : binPts xs ts ws = (samples xs ts ws).map toPt := by
  simp [binPts, samples, toPt, List.map_map, Function.comp_def]

theorem sum_a_eq_wPos (l : List Sample) (h : Binary l) : ((l.map toPt).map Pt.a).sum = wPos l := by
  unfold wPos
  rw [sum_filter_map, List.map_map]
  apply sum_map_congr
  intro x hx
  rcases h x hx with e | e <;> simp [toPt, isPos, e] <;> grind

theorem sum_b_eq_wNeg (l : List Sample) (h : Binary l) : ((l.map toPt).map Pt.b).sum = wNeg l := by
  unfold wNeg
  rw [sum_filter_map, List.map_map]
  apply sum_map_congr
  intro x hx
  rcases h x hx with e | e <;> simp [toPt, isNeg, e] <;> grind

theorem ptNum_eq_aurocNum (l : List Sample) (h : Binary l) : ptNum (l.map toPt) = aurocNum l := by
  unfold ptNum aurocNum wsum
  rw [sum_filter_map, List.map_map]
  apply sum_map_congr
  intro i hi
  rw [sum_filter_map]
  simp only [Function.comp_def, List.map_map]
  rcases h i hi with ei | ei
  · have : isPos i = false := by simp [isPos, ei]
    simp only [this, toPt, ei]
    grind
  · have : isPos i = true := by simp [isPos, ei]
    simp only [this, if_true, toPt, ei]
    rw [← sum_map_mul_left]
    apply sum_map_congr
    intro j hj
    rcases h j hj with ej | ej <;> simp [isNeg, ej] <;> grind

theorem toPt_ab (l : List Sample) (h : Binary l) : ∀ p ∈ l.map toPt, p.a * p.b = 0 := by
  intro p hp
  obtain ⟨x, hx, rfl⟩ := List.mem_map.mp hp
  rcases h x hx with e | e <;> simp [toPt, e] <;> grind

/-! ### one-vs-rest, `mapM` -/

theorem mapM_ok {α β : Type} {f : α → Except Err β} {g : α → β} {l : List α}
    (h : ∀ x ∈ l, f x = .ok (g x)) : l.mapM f = .ok (l.map g) := by
  induction l with
  | nil => rfl
  | cons x l ih =>
    rw [List.mapM_cons, h x (List.mem_cons_self ..), ih (fun y hy => h y (List.mem_cons_of_mem _ hy))]
    rfl

theorem mem_zipIdx_fst {α : Type} {l : List α} {k : Nat} {p : α × Nat} (h : p ∈ l.zipIdx k) : p.1 ∈ l := by
  induction l generalizing k with
  | nil => simp at h
  | cons x l ih =>
    rw [List.zipIdx_cons] at h
    rcases List.mem_cons.mp h with rfl | h
    · exact List.mem_cons_self ..
    · exact List.mem_cons_of_mem _ (ih h)

theorem ovrSamples_binary (c : Nat) (col labs : List Q) : Binary (ovrSamples c col labs) := by
  intro x hx
  obtain ⟨p, _, rfl⟩ := List.mem_map.mp hx
  by_cases h : (p.2 == (c : Q)) = true <;> simp [b2q, h]

theorem ovrPts_eq (c : Nat) (col labs : List Q) :
    ovrPts c col labs = (ovrSamples c col labs).map toPt := by
  unfold ovrPts ovrSamples
  rw [List.map_map]
  apply List.map_congr_left
  intro p _
  by_cases h : (p.2 == (c : Q)) = true <;> simp [toPt, b2q, h] <;> grind

end TE.CurveL
