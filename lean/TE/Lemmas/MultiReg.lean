/-
  TE.Lemmas.MultiReg — the `sum(dim=0)` updates of mean_squared_error / r2_score on an
  `(n, d)` tensor are, output by output, the single-output updates on the columns.
-/
import TE.Lemmas.MultiSum
namespace TE.MultiL
open TE TE.Multi

theorem getD_zipWith {α β : Type} (f : α → β → Q) (da : α) (db : β) : ∀ (x : List α) (t : List β) (j : Nat),
    x.length = t.length → j < x.length →
    (List.zipWith f x t).getD j 0 = f (x.getD j da) (t.getD j db)
  | a :: x, b :: t, 0, _, _ => by simp
  | a :: x, b :: t, j + 1, h, hj => by
    have := getD_zipWith f da db x t j (by simpa using h) (by simpa using hj)
    simpa using this
  | [], _, _, _, hj => by simp at hj
  | _ :: _, [], _, h, _ => by simp at h

theorem getD_map (g : Q → Q) (x : List Q) (j : Nat) (hj : j < x.length) :
    (x.map g).getD j 0 = g (x.getD j 0) := by
  simp [List.getD, List.getElem?_eq_getElem hj]

/-- column `j` of a row-wise element-wise binary operation. -/
theorem col_zipWith (f : Q → Q → Q) (d j : Nat) (hj : j < d) : ∀ (A B : Mat),
    (∀ r ∈ A, r.length = d) → (∀ r ∈ B, r.length = d) →
    (List.zipWith (List.zipWith f) A B).map (·.getD j 0)
      = List.zipWith f (A.map (·.getD j 0)) (B.map (·.getD j 0))
  | [], _, _, _ => by simp
  | _ :: _, [], _, _ => by simp
  | x :: A, t :: B, hA, hB => by
    have hx := hA x (by simp); have ht := hB t (by simp)
    have ih := col_zipWith f d j hj A B (fun r hr => hA r (by simp [hr])) (fun r hr => hB r (by simp [hr]))
    simp only [List.zipWith_cons_cons, List.map_cons, ih]
    rw [getD_zipWith f 0 0 x t j (by omega) (by omega)]

/-- column `j` after `* sample_weight.unsqueeze(-1)`. -/
theorem col_scale (d j : Nat) (hj : j < d) : ∀ (A : Mat) (ws : List Q), (∀ r ∈ A, r.length = d) →
    (List.zipWith (fun r wi => r.map (· * wi)) A ws).map (·.getD j 0)
      = List.zipWith (· * ·) (A.map (·.getD j 0)) ws
  | [], _, _ => by simp
  | _ :: _, [], _ => by simp
  | x :: A, w :: ws, hA => by
    have hx := hA x (by simp)
    have ih := col_scale d j hj A ws (fun r hr => hA r (by simp [hr]))
    simp only [List.zipWith_cons_cons, List.map_cons, ih]
    rw [getD_map _ x j (by omega)]

theorem col_map (g : Q → Q) (d j : Nat) (hj : j < d) (A : Mat) (hA : ∀ r ∈ A, r.length = d) :
    (A.map fun r => r.map g).map (·.getD j 0) = (A.map (·.getD j 0)).map g := by
  rw [List.map_map, List.map_map]
  apply List.map_congr_left
  intro r hr
  simp only [Function.comp]
  exact getD_map g r j (by rw [hA r hr]; exact hj)

theorem scale_rows_length (d : Nat) : ∀ (A : Mat) (ws : List Q), (∀ r ∈ A, r.length = d) →
    ∀ r ∈ List.zipWith (fun r wi => r.map (· * wi)) A ws, r.length = d
  | [], _, _ => by simp
  | _ :: _, [], _ => by simp
  | x :: A, w :: ws, hA => by
    intro r hr
    simp only [List.zipWith_cons_cons, List.mem_cons] at hr
    rcases hr with rfl | hr
    · simp [hA x (by simp)]
    · exact scale_rows_length d A ws (fun r hr => hA r (by simp [hr])) r hr

theorem map_range_congr {β : Type} (d : Nat) (f g : Nat → β) (h : ∀ j, j < d → f j = g j) :
    (List.range d).map f = (List.range d).map g :=
  List.map_congr_left (fun j hj => h j (List.mem_range.mp hj))

/-- the row (sample) formulation of `_update` of mean_squared_error = the column formulation. -/
theorem mseUpdateRows_eq (w : Option (List Q)) (xrows trows : Mat) (d : Nat)
    (hx : ∀ r ∈ xrows, r.length = d) (ht : ∀ r ∈ trows, r.length = d) :
    mseUpdateRows w xrows trows d
      = Agg.mseUpdate w (Agg.cols d xrows) (Agg.cols d trows) trows.length := by
  have hse := zipWith_rows_length (fun (a b : Q) => (b - a) * (b - a)) d xrows trows hx ht
  cases w with
  | none =>
    simp only [mseUpdateRows, Agg.mseUpdate, Prod.mk.injEq, and_true]
    rw [sumDim0_eq_cols d _ hse]
    simp only [Agg.cols, List.map_map, zipWith_map_map]
    apply map_range_congr
    intro j hj
    simp only [Function.comp, Agg.col, Agg.sseCol, col_zipWith _ d j hj xrows trows hx ht]
  | some ws =>
    simp only [mseUpdateRows, Agg.mseUpdate, Prod.mk.injEq, and_true]
    rw [sumDim0_eq_cols d _ (scale_rows_length d _ ws hse)]
    simp only [Agg.cols, List.map_map, zipWith_map_map]
    apply map_range_congr
    intro j hj
    simp only [Function.comp, Agg.col, Agg.sseCol, col_scale d j hj _ ws hse,
      col_zipWith _ d j hj xrows trows hx ht]

theorem r2UpdateRows_eq (xrows trows : Mat) (d : Nat)
    (hx : ∀ r ∈ xrows, r.length = d) (ht : ∀ r ∈ trows, r.length = d) :
    r2UpdateRows xrows trows d = Agg.r2Update (Agg.cols d xrows) (Agg.cols d trows) := by
  have hse := zipWith_rows_length (fun (a y : Q) => (y - a) * (y - a)) d xrows trows hx ht
  have hsq : ∀ r ∈ trows.map (fun r => r.map fun y => y * y), r.length = d := by
    intro r hr
    obtain ⟨r', hr', rfl⟩ := List.mem_map.mp hr
    simp [ht r' hr']
  simp only [r2UpdateRows, Agg.r2Update, Prod.mk.injEq]
  refine ⟨?_, ?_, ?_⟩
  · rw [sumDim0_eq_cols d _ hsq]
    simp only [Agg.cols, List.map_map]
    apply map_range_congr
    intro j hj
    simp only [Function.comp, Agg.col, col_map (fun y => y * y) d j hj trows ht]
  · rw [sumDim0_eq_cols d _ ht]
  · rw [sumDim0_eq_cols d _ hse]
    simp only [Agg.cols, List.map_map, zipWith_map_map]
    apply map_range_congr
    intro j hj
    simp only [Function.comp, Agg.col, col_zipWith _ d j hj xrows trows hx ht]

/-! ### per-output decomposition of the column formulation -/

/-- the single-output MSE on one column. -/
def mseCol (w : Option (List Q)) (n : Nat) (x t : List Q) : XQ :=
  let u := Agg.mseUpdate w [x] [t] n
  (Agg.mseRaw u.1 u.2).headD .nan

theorem mseRaw_cols (w : Option (List Q)) (n : Nat) : ∀ (xcols tcols : Mat),
    Agg.mseRaw (Agg.mseUpdate w xcols tcols n).1 (Agg.mseUpdate w xcols tcols n).2
      = List.zipWith (mseCol w n) xcols tcols
  | [], _ => by simp [Agg.mseUpdate, Agg.mseRaw]
  | _ :: _, [] => by simp [Agg.mseUpdate, Agg.mseRaw]
  | x :: xs, t :: ts => by
    have ih := mseRaw_cols w n xs ts
    simp only [Agg.mseUpdate, Agg.mseRaw, List.zipWith_cons_cons, List.map_cons, List.cons.injEq] at ih ⊢
    exact ⟨by simp [mseCol, Agg.mseUpdate, Agg.mseRaw], ih⟩

/-- the adjustment `_compute` applies when `num_regressors != 0`. -/
def r2Adj (n : Q) (p : Nat) (v : XQ) : XQ := if p = 0 then v else Agg.r2Adjust n p v

/-- `1 − rss / tss` of one output column. -/
def r2One (n : Q) (x t : List Q) : XQ :=
  Agg.xsub (.val 1) (xdiv ((List.zipWith (fun a y => (y - a) * (y - a)) x t).sum)
    ((t.map fun y => y * y).sum - t.sum * t.sum / n))

/-- the single-output R² on one column. -/
def r2Col (n : Q) (p : Nat) (x t : List Q) : XQ := r2Adj n p (r2One n x t)

theorem r2Compute_raw (sso so rss : List Q) (n : Q) (p : Nat) (h1 : ¬ n < 2) (h2 : ¬ n - 1 ≤ (p : Q)) :
    Agg.r2Compute sso so rss n .raw p = .ok ((Agg.r2Raw rss (Agg.r2Tss sso so n)).map (r2Adj n p)) := by
  unfold Agg.r2Compute
  simp only [h1, h2, if_false]
  by_cases hp : p = 0
  · subst hp
    have e : r2Adj n 0 = id := by funext v; simp [r2Adj]
    simp [e]
  · have e : r2Adj n p = Agg.r2Adjust n p := by funext v; simp [r2Adj, hp]
    simp [hp, e]

theorem r2Raw_cols (n : Q) : ∀ (xcols tcols : Mat), xcols.length = tcols.length →
    Agg.r2Raw (Agg.r2Update xcols tcols).2.2 (Agg.r2Tss (Agg.r2Update xcols tcols).1 (Agg.r2Update xcols tcols).2.1 n)
      = List.zipWith (r2One n) xcols tcols
  | [], [], _ => rfl
  | x :: xs, t :: ts, hl => by
    have ih := r2Raw_cols n xs ts (by simpa using hl)
    simp only [Agg.r2Update, Agg.r2Tss, Agg.r2Raw, List.map_cons, List.zipWith_cons_cons, List.cons.injEq] at ih ⊢
    exact ⟨rfl, ih⟩
  | [], _ :: _, hl => by simp at hl
  | _ :: _, [], hl => by simp at hl

theorem zipWith_map_left' {α β γ δ : Type} (f : α → β → γ) (g : γ → δ) : ∀ (a : List α) (b : List β),
    (List.zipWith f a b).map g = List.zipWith (fun x y => g (f x y)) a b
  | [], _ => by simp
  | _ :: _, [] => by simp
  | x :: a, y :: b => by simp [zipWith_map_left' f g a b]

theorem r2_raw_cols (n : Q) (p : Nat) (h1 : ¬ n < 2) (h2 : ¬ n - 1 ≤ (p : Q)) (xcols tcols : Mat)
    (hl : xcols.length = tcols.length) :
    Agg.r2Compute (Agg.r2Update xcols tcols).1 (Agg.r2Update xcols tcols).2.1 (Agg.r2Update xcols tcols).2.2 n .raw p
      = .ok (List.zipWith (r2Col n p) xcols tcols) := by
  rw [r2Compute_raw _ _ _ n p h1 h2, r2Raw_cols n xcols tcols hl, zipWith_map_left']
  rfl

/-- the `multioutput` reduction of the per-output values `r` (with the per-output total sums of squares `tss`). -/
def r2Reduce (mo : Agg.MultiOut) (r : List XQ) (tss : List Q) : List XQ :=
  match mo with
  | .raw => r
  | .uniform => [Agg.xmean r]
  | .variance => [Agg.xsum (List.zipWith (fun ri ti => Agg.xdivX (Agg.xmul ri (.val ti)) (.val tss.sum)) r tss)]

theorem r2Compute_modes (sso so rss : List Q) (n : Q) (mo : Agg.MultiOut) (p : Nat)
    (h1 : ¬ n < 2) (h2 : ¬ n - 1 ≤ (p : Q)) :
    Agg.r2Compute sso so rss n mo p
      = .ok ((r2Reduce mo (Agg.r2Raw rss (Agg.r2Tss sso so n)) (Agg.r2Tss sso so n)).map (r2Adj n p)) := by
  unfold Agg.r2Compute
  simp only [h1, h2, if_false]
  by_cases hp : p = 0
  · subst hp
    have e : r2Adj n 0 = id := by funext v; simp [r2Adj]
    cases mo <;> simp [e, r2Reduce]
  · have e : r2Adj n p = Agg.r2Adjust n p := by funext v; simp [r2Adj, hp]
    cases mo <;> simp [hp, e, r2Reduce]

/-- per-output total sum of squares `Σy² − (Σy)²/n`. -/
def tssCol (n : Q) (t : List Q) : Q := (t.map fun y => y * y).sum - t.sum * t.sum / n

theorem r2Tss_cols (n : Q) (xcols tcols : Mat) :
    Agg.r2Tss (Agg.r2Update xcols tcols).1 (Agg.r2Update xcols tcols).2.1 n = tcols.map (tssCol n) := by
  simp only [Agg.r2Update, Agg.r2Tss, zipWith_map_map]
  rfl

end TE.MultiL
