/-
  TE.Lemmas.MetaDupCount — C17 (c): duplicating the whole data set leaves every ratio metric
  unchanged (`metric (xs ++ xs) = metric xs`).
  A. generic part over the additive sufficient-statistics accumulator (`Parts`): the state after
     `bs ++ bs` is the state after `bs` scaled by 2, so any class whose `compute` is homogeneous
     of degree 0 returns the same value;
  B. the `compute` functions of the count-based classification family are homogeneous of degree 0;
  C. the textbook specs (`Spec.Count`) are invariant;
  D. transfer to the executable models (`TE.Count`) through C04's `model = spec` theorems.
  Core Lean only.
-/
import TE.Lemmas.MetaBasic
import TE.Lemmas.Parts
import TE.Props.C04
namespace TE.MetaL
open TE TE.Spec.Count

-- file-local helpers live in `TE.MetaL.DupCount` (no clash with the sibling `Meta*` files)
namespace DupCount
/-- a `(num, den)` row / a `(tp, a, b)` row scaled by `k`. -/
def sc2 (k : Q) (p : Q × Q) : Q × Q := (k * p.1, k * p.2)
def sc3 (k : Q) (r : Q × Q × Q) : Q × Q × Q := (k * r.1, k * r.2.1, k * r.2.2)
end DupCount
open DupCount

/-! ## A. generic: the additive accumulator on a duplicated stream -/

def pscale (c : Q) (p : Parts) : Parts := p.map (·.map (c * ·))

theorem padd_self (a : List Q) : padd a a = a.map (2 * ·) := by
  induction a with
  | nil => rfl
  | cons x a ih => simp only [padd, List.map_cons, ih]; congr 1; grind

theorem ppadd_self (p : Parts) : ppadd p p = pscale 2 p := by
  induction p with
  | nil => rfl
  | cons x p ih =>
    simp only [ppadd, pscale, List.map_cons, padd_self] at ih ⊢
    rw [ih]

example : padd [1, 2] [1, 2] = [2, 4] := by decide +kernel
example : ppadd [[1, 2], [3]] [[1, 2], [3]] = pscale 2 [[1, 2], [3]] := by decide +kernel

theorem getD_pscale (c : Q) (p : Parts) (i : Nat) :
    (pscale c p).getD i [] = (p.getD i []).map (c * ·) := by
  simp only [pscale, List.getD_eq_getElem?_getD, List.getElem?_map]
  cases p[i]? <;> rfl

theorem part_pscale (c : Q) (p : Parts) (i n : Nat) :
    part (pscale c p) i n = (part p i n).map (c * ·) := by
  simp only [part, getD_pscale, List.length_map, List.map_append, List.map_replicate, Rat.mul_zero]

theorem part0_pscale (c : Q) (p : Parts) (i : Nat) : part0 (pscale c p) i = c * part0 p i := by
  unfold part0
  rw [getD_pscale]
  simp only [List.getD_eq_getElem?_getD, List.getElem?_map]
  cases (p[i]?.getD [])[0]? <;> simp [Rat.mul_zero]

example : part (pscale 2 [[1, 2], [3]]) 1 3 = [6, 0, 0] := by decide +kernel
example : part0 (pscale 2 [[1, 2], [3]]) 1 = 6 := by decide +kernel

/-- the accumulated statistics of `bs ++ bs` are those of `bs`, doubled. -/
theorem accL_dup {B : Type} (stat : B → Parts) (bs : List B) :
    accL partsAcc stat (bs ++ bs) = pscale 2 (accL partsAcc stat bs) := by
  rw [accL_append partsAcc partsAcc_laws.toLaws]
  exact ppadd_self _

/-- a class fed the same stream twice returns what it returns after one pass, whenever its
    `compute` is homogeneous of degree 0 (`hout`). -/
theorem additive_dup_stream {B O : Type} (stat : B → Except Err Parts) (outA : Parts → Except Err O)
    (hout : ∀ a, outA (pscale 2 a) = outA a) (bs : List B) (s s' : Parts)
    (h1 : eval (additive partsAcc stat outA) (single bs) = .ok s)
    (h2 : eval (additive partsAcc stat outA) (single (bs ++ bs)) = .ok s') :
    (additive partsAcc stat outA).out s' = (additive partsAcc stat outA).out s := by
  have r1 := (refines (additive_sim partsAcc stat outA) partsAcc_laws.toLaws _ s h1).2
  have r2 := (refines (additive_sim partsAcc stat outA) partsAcc_laws.toLaws _ s' h2).2
  simp only [id, flatten_single] at r1 r2
  rw [accL_dup, ← r1] at r2
  subst r2
  exact hout s

/-- a toy ratio class: state `[[Σ num], [Σ den]]`, `compute = num / den`. -/
def DupCount.toyStat (b : Nat × Nat) : Except Err Parts := .ok [[(b.1 : Q)], [(b.2 : Q)]]
def DupCount.toyOut (p : Parts) : Except Err XQ := .ok (xdiv (part0 p 0) (part0 p 1))

theorem DupCount.toyOut_scale (a : Parts) : toyOut (pscale 2 a) = toyOut a := by
  simp only [toyOut, part0_pscale, xdiv_scale 2 _ _ two_pos]

/-- non-vacuity of `additive_dup_stream`: `hout`, `h1`, `h2` hold for the toy class on a
    two-batch stream (state `[[2],[5]]`, after the duplicated stream `[[4],[10]]`, value `2/5`). -/
example : (∀ a, toyOut (pscale 2 a) = toyOut a) ∧
    eval (additive partsAcc toyStat toyOut) (single [(1, 2), (1, 3)]) = .ok [[2], [5]] ∧
    eval (additive partsAcc toyStat toyOut) (single ([(1, 2), (1, 3)] ++ [(1, 2), (1, 3)]))
      = .ok [[4], [10]] ∧
    (additive partsAcc toyStat toyOut).out [[4], [10]] = .ok (.val (2 / 5)) := by
  refine ⟨toyOut_scale, ?_, ?_, ?_⟩
  · simp only [single, List.foldl, eval, additive, toyStat, partsAcc, bind, Except.bind, ppadd, padd]
    exact congrArg Except.ok (by decide +kernel)
  · show eval _ (single [(1, 2), (1, 3), (1, 2), (1, 3)]) = _
    simp only [single, List.foldl, eval, additive, toyStat, partsAcc, bind, Except.bind, ppadd, padd]
    exact congrArg Except.ok (by decide +kernel)
  · exact congrArg Except.ok (by decide +kernel)

/-- the functional (`stat >=> outA`) on a duplicated batch. -/
theorem functional_dup {B O : Type} (stat : B → Except Err Parts) (outA : Parts → Except Err O)
    (dup : B → B)
    (hstat : ∀ b a, stat b = .ok a → stat (dup b) = .ok (ppadd a a))
    (hout : ∀ a, outA (pscale 2 a) = outA a) (b : B) (hb : ∃ a, stat b = .ok a) :
    (stat (dup b) >>= outA) = (stat b >>= outA) := by
  obtain ⟨a, ha⟩ := hb
  rw [hstat b a ha, ha, ppadd_self]
  exact hout a

/-- non-vacuity of `functional_dup`: batches are sample lists, `dup b = b ++ b`, the statistic
    `(#correct, n)` doubles. -/
example : ∀ (b : Spec.Count.Pairs) a,
    (fun ps : Spec.Count.Pairs =>
      (.ok [[(Spec.Count.correct ps : Q)], [(ps.length : Q)]] : Except Err Parts)) b = .ok a →
    (fun ps : Spec.Count.Pairs =>
      (.ok [[(Spec.Count.correct ps : Q)], [(ps.length : Q)]] : Except Err Parts)) (b ++ b)
      = .ok (ppadd a a) := by
  intro b a h
  simp only [Except.ok.injEq] at h
  subst h
  simp only [Spec.Count.correct, ppadd, padd, List.countP_append, List.length_append,
    Rat.natCast_add]


/-! ## B. `compute` is homogeneous of degree 0 -/

theorem DupCount.bne_scale (k a : Q) (hk : k ≠ 0) : (k * a != 0) = (a != 0) := by
  by_cases h : a = 0
  · subst h; simp [Rat.mul_zero]
  · have : k * a ≠ 0 := fun e => h ((mul_eq_zero_iff k a hk).mp e)
    rw [bne_iff_ne.mpr h, bne_iff_ne.mpr this]

theorem qsum_scale (k : Q) (l : List Q) : qsum (l.map (k * ·)) = k * qsum l := by
  rw [qsum_eq_sum, qsum_eq_sum, sum_map_scale]

theorem qsum_scale' {α : Type} (k : Q) (l : List α) (g : α → Q) :
    qsum (l.map fun x => k * g x) = k * qsum (l.map g) := by
  rw [qsum_eq_sum, qsum_eq_sum, sum_map_scale']

theorem DupCount.zip_scale (k : Q) (a b : List Q) :
    (a.map (k * ·)).zip (b.map (k * ·)) = (a.zip b).map (sc2 k) := by
  rw [List.zip_map]; rfl

theorem DupCount.zip3_scale (k : Q) (t a b : List Q) :
    (t.map (k * ·)).zip ((a.map (k * ·)).zip (b.map (k * ·))) = (t.zip (a.zip b)).map (sc3 k) := by
  rw [zip_scale, List.zip_map]; rfl

/-- a filter whose predicate is scale-invariant commutes with scaling, and a scale-invariant
    map after it forgets the scaling. -/
theorem DupCount.map_filter_scale {α β : Type} (sc : α → α) (P : α → Bool) (f : α → β)
    (hP : ∀ r, P (sc r) = P r) (hf : ∀ r, f (sc r) = f r) (l : List α) :
    ((l.map sc).filter P).map f = (l.filter P).map f := by
  induction l with
  | nil => rfl
  | cons x l ih =>
    simp only [List.map_cons, List.filter_cons, hP]
    split
    · simp only [List.map_cons, hf, ih]
    · exact ih

theorem DupCount.filter_scale {α : Type} (sc : α → α) (P : α → Bool)
    (hP : ∀ r, P (sc r) = P r) (l : List α) :
    (l.map sc).filter P = (l.filter P).map sc := by
  induction l with
  | nil => rfl
  | cons x l ih =>
    simp only [List.map_cons, List.filter_cons, hP]
    split
    · simp only [List.map_cons, ih]
    · exact ih

theorem divNan0_scale (k a b : Q) (hk : k ≠ 0) : Count.divNan0 (k * a) (k * b) = Count.divNan0 a b := by
  unfold Count.divNan0
  by_cases hb : b = 0
  · subst hb; simp [Rat.mul_zero]
  · have : k * b ≠ 0 := fun e => hb ((mul_eq_zero_iff k b hk).mp e)
    simp only [hb, this, if_false, div_scale k a b hk]

example : Count.divNan0 (3 * 1) (3 * 2) = 1 / 2 := by decide +kernel

theorem f1One_scale (k t l p : Q) (hk : k ≠ 0) :
    Count.f1One (k * t) (k * l) (k * p) = Count.f1One t l p := by
  unfold Count.f1One
  simp only [mul_eq_zero_iff k _ hk, div_scale k _ _ hk]

example : Count.f1One (3 * 1) (3 * 2) (3 * 1) = 2 / 3 := by decide +kernel

theorem accuracyCompute_scale (k : Q) (hk : 0 < k) (c t : List Q) (avg : Count.Avg) :
    Count.accuracyCompute (c.map (k * ·)) (t.map (k * ·)) avg = Count.accuracyCompute c t avg := by
  have hk' : k ≠ 0 := by grind
  cases avg
  case «macro» =>
    simp only [Count.accuracyCompute, zip_scale]
    rw [map_filter_scale (sc2 k) (fun p => p.2 != 0) (fun p => p.1 / p.2)
      (fun r => bne_scale k r.2 hk') (fun r => div_scale k r.1 r.2 hk')]
  all_goals
    simp only [Count.accuracyCompute, zip_scale, List.map_map]
    apply List.map_congr_left; intro p _
    exact xdiv_scale k p.1 p.2 hk

example : (0 : Q) < 3 := by decide
example : Count.accuracyCompute ([1, 1, 0].map (3 * ·)) ([1, 2, 0].map (3 * ·)) .macro
    = [.val (3 / 4)] := by decide +kernel


theorem DupCount.weighted_scale (k : Q) (hk : k ≠ 0) (rows : List (Q × Q × Q)) (f w : Q × Q × Q → Q) (tot : Q)
    (hf : ∀ r, f (sc3 k r) = f r) (hw : ∀ r, w (sc3 k r) = k * w r) :
    qsum ((rows.map (sc3 k)).map fun r => f r * (w r / (k * tot)))
      = qsum (rows.map fun r => f r * (w r / tot)) := by
  rw [List.map_map]
  congr 1
  apply List.map_congr_left; intro r _
  simp only [Function.comp, hf, hw, div_scale k _ _ hk]

theorem precisionCompute_scale (k : Q) (hk : 0 < k) (s : Count.PRF) (avg : Count.Avg) :
    Count.precisionCompute ⟨s.tp.map (k * ·), s.a.map (k * ·), s.b.map (k * ·)⟩ avg
      = Count.precisionCompute s avg := by
  have hk' : k ≠ 0 := by grind
  have hP : ∀ r : Q × Q × Q, ((sc3 k r).2.2 != 0 || (sc3 k r).1 + (sc3 k r).2.1 != 0)
      = (r.2.2 != 0 || r.1 + r.2.1 != 0) := by
    intro r; simp only [sc3, ← Rat.mul_add, bne_scale _ _ hk']
  have hf : ∀ r : Q × Q × Q, Count.divNan0 (sc3 k r).1 ((sc3 k r).1 + (sc3 k r).2.1)
      = Count.divNan0 r.1 (r.1 + r.2.1) := by
    intro r; simp only [sc3, ← Rat.mul_add, divNan0_scale _ _ _ hk']
  cases avg
  case «macro» =>
    simp only [Count.precisionCompute, zip3_scale]
    rw [map_filter_scale (sc3 k) _ _ hP hf]
  case weighted =>
    simp only [Count.precisionCompute, zip3_scale, qsum_scale, mul_eq_zero_iff k _ hk']
    rw [filter_scale (sc3 k) _ hP]
    simp only [List.isEmpty_map]
    rw [weighted_scale k hk' _ (fun r => Count.divNan0 r.1 (r.1 + r.2.1)) (fun r => r.2.2) _ hf
      (fun _ => rfl)]
  all_goals
    simp only [Count.precisionCompute, zip_scale, List.map_map]
    apply List.map_congr_left; intro p _
    simp only [Function.comp, sc2, ← Rat.mul_add, divNan0_scale _ _ _ hk']

example : Count.precisionCompute
      ⟨[1, 1, 1].map (3 * ·), [0, 0, 1].map (3 * ·), [1, 2, 1].map (3 * ·)⟩ .weighted
    = [.val (7 / 8)] := by decide +kernel


theorem DupCount.qsum_map_sc3_a (k : Q) (rows : List (Q × Q × Q)) :
    qsum ((rows.map (sc3 k)).map fun r => r.2.1) = k * qsum (rows.map fun r => r.2.1) := by
  rw [List.map_map, ← qsum_scale']; rfl

theorem recallCompute_scale (k : Q) (hk : 0 < k) (s : Count.PRF) (avg : Count.Avg) :
    Count.recallCompute ⟨s.tp.map (k * ·), s.a.map (k * ·), s.b.map (k * ·)⟩ avg
      = Count.recallCompute s avg := by
  have hk' : k ≠ 0 := by grind
  have hP : ∀ r : Q × Q × Q, ((sc3 k r).2.1 != 0 || (sc3 k r).2.2 != 0)
      = (r.2.1 != 0 || r.2.2 != 0) := by
    intro r; simp only [sc3, bne_scale _ _ hk']
  have hf : ∀ r : Q × Q × Q, Count.divNan0 (sc3 k r).1 (sc3 k r).2.1 = Count.divNan0 r.1 r.2.1 := by
    intro r; simp only [sc3, divNan0_scale _ _ _ hk']
  cases avg
  case «macro» =>
    simp only [Count.recallCompute, zip3_scale]
    rw [map_filter_scale (sc3 k) _ _ hP hf]
  case weighted =>
    simp only [Count.recallCompute, zip3_scale]
    rw [filter_scale (sc3 k) _ hP]
    simp only [List.isEmpty_map, qsum_map_sc3_a, mul_eq_zero_iff k _ hk']
    rw [weighted_scale k hk' _ (fun r => Count.divNan0 r.1 r.2.1) (fun r => r.2.1) _ hf
      (fun _ => rfl)]
  all_goals
    simp only [Count.recallCompute, zip_scale, List.map_map]
    apply List.map_congr_left; intro p _
    simp only [Function.comp, sc2, divNan0_scale _ _ _ hk']

example : Count.recallCompute ⟨[3, 3, 3], [3, 6, 3], [3, 3, 6]⟩ .macro = [.val (5 / 6)] := by
  decide +kernel

theorem f1Compute_scale (k : Q) (hk : 0 < k) (s : Count.PRF) (avg : Count.Avg) :
    Count.f1Compute ⟨s.tp.map (k * ·), s.a.map (k * ·), s.b.map (k * ·)⟩ avg
      = Count.f1Compute s avg := by
  have hk' : k ≠ 0 := by grind
  have hP : ∀ r : Q × Q × Q, ((sc3 k r).2.1 != 0 || (sc3 k r).2.2 != 0)
      = (r.2.1 != 0 || r.2.2 != 0) := by
    intro r; simp only [sc3, bne_scale _ _ hk']
  have hf : ∀ r : Q × Q × Q, Count.f1One (sc3 k r).1 (sc3 k r).2.1 (sc3 k r).2.2
      = Count.f1One r.1 r.2.1 r.2.2 := by
    intro r; simp only [sc3, f1One_scale _ _ _ _ hk']
  cases avg
  case «macro» =>
    simp only [Count.f1Compute, zip3_scale]
    rw [map_filter_scale (sc3 k) _ _ hP hf]
  case weighted =>
    simp only [Count.f1Compute, zip3_scale]
    rw [filter_scale (sc3 k) _ hP]
    simp only [List.isEmpty_map, qsum_map_sc3_a, mul_eq_zero_iff k _ hk']
    rw [weighted_scale k hk' _ (fun r => Count.f1One r.1 r.2.1 r.2.2) (fun r => r.2.1) _ hf
      (fun _ => rfl)]
  all_goals
    simp only [Count.f1Compute, zip3_scale, List.map_map]
    apply List.map_congr_left; intro p _
    simp only [Function.comp, hf]

example : Count.f1Compute ⟨[3, 3, 3], [3, 6, 3], [3, 3, 6]⟩ .none
    = [.val 1, .val (2 / 3), .val (2 / 3)] := by decide +kernel


theorem absQ_scale (k x : Q) (hk : 0 < k) : Count.absQ (k * x) = k * Count.absQ x := by
  unfold Count.absQ
  by_cases h : x < 0
  · have : k * x < 0 := (mul_neg_iff k x hk).mpr h
    simp only [h, this, if_true]; grind
  · have : ¬ k * x < 0 := fun e => h ((mul_neg_iff k x hk).mp e)
    simp only [h, this, if_false]

theorem l1normalize_scale (k : Q) (hk : 0 < k) (v : List Q) :
    Count.l1normalize (v.map (k * ·)) = Count.l1normalize v := by
  have hk' : k ≠ 0 := by grind
  have e : qsum ((v.map (k * ·)).map Count.absQ) = k * qsum (v.map Count.absQ) := by
    rw [List.map_map, ← qsum_scale']
    congr 1; apply List.map_congr_left; intro x _; exact absQ_scale k x hk
  unfold Count.l1normalize
  simp only [e, mul_eq_zero_iff k _ hk']
  rw [List.map_map]
  apply List.map_congr_left; intro x _
  simp only [Function.comp, div_scale k _ _ hk']

theorem DupCount.getD_scale (k : Q) (row : List Q) (j : Nat) :
    (row.map (k * ·)).getD j 0 = k * row.getD j 0 := by
  simp only [List.getD_eq_getElem?_getD, List.getElem?_map]
  cases row[j]? <;> simp [Rat.mul_zero]

theorem transpose_scale (k : Q) (m : Mat) (n : Nat) :
    Count.transpose (m.map (·.map (k * ·))) n = (Count.transpose m n).map (·.map (k * ·)) := by
  unfold Count.transpose
  rw [List.map_map]
  apply List.map_congr_left; intro j _
  simp only [Function.comp, List.map_map]
  apply List.map_congr_left; intro row _
  exact getD_scale k row j

theorem confusionCompute_scale (k : Q) (hk : 0 < k) (m : Mat) (n : Nat) (norm : Count.Norm)
    (h : norm ≠ .none) :
    Count.confusionCompute (m.map (·.map (k * ·))) n norm = Count.confusionCompute m n norm := by
  cases norm
  case none => exact absurd rfl h
  case all =>
    have e : qsum ((m.map (·.map (k * ·))).map qsum) = k * qsum (m.map qsum) := by
      rw [List.map_map, ← qsum_scale']
      congr 1; apply List.map_congr_left; intro r _; exact qsum_scale k r
    simp only [Count.confusionCompute, e]
    rw [List.map_map]
    apply List.map_congr_left; intro r _
    simp only [Function.comp, List.map_map]
    apply List.map_congr_left; intro x _
    exact xdiv_scale k x _ hk
  case true_ =>
    simp only [Count.confusionCompute]
    rw [List.map_map]
    apply List.map_congr_left; intro r _
    simp only [Function.comp, l1normalize_scale k hk]
  case pred =>
    simp only [Count.confusionCompute, transpose_scale]
    rw [List.map_map]
    congr 3
    funext r
    simp only [Function.comp, l1normalize_scale k hk]

example : Count.Norm.pred ≠ .none := by decide
example : Count.confusionCompute ([[1, 1], [0, 1]].map (·.map (3 * ·))) 2 .pred
    = [[.val 1, .val (1 / 2)], [.val 0, .val (1 / 2)]] := by decide +kernel


/-! ## C. textbook specs on a duplicated sample list -/

theorem countP_dup {α : Type} (f : α → Bool) (l : List α) : (l ++ l).countP f = 2 * l.countP f := by
  rw [List.countP_append]; omega

theorem tp_dup (ps : Pairs) (c : Nat) : tp (ps ++ ps) c = 2 * tp ps c := countP_dup _ ps
theorem fp_dup (ps : Pairs) (c : Nat) : fp (ps ++ ps) c = 2 * fp ps c := countP_dup _ ps
theorem fn_dup (ps : Pairs) (c : Nat) : fn (ps ++ ps) c = 2 * fn ps c := countP_dup _ ps
theorem support_dup (ps : Pairs) (c : Nat) : support (ps ++ ps) c = 2 * support ps c := countP_dup _ ps
theorem predicted_dup (ps : Pairs) (c : Nat) : predicted (ps ++ ps) c = 2 * predicted ps c :=
  countP_dup _ ps
theorem correct_dup (ps : Pairs) : correct (ps ++ ps) = 2 * correct ps := countP_dup _ ps
theorem confusion_dup (ps : Pairs) (t p : Nat) : confusion (ps ++ ps) t p = 2 * confusion ps t p :=
  countP_dup _ ps
theorem length_dup {α : Type} (l : List α) : (l ++ l).length = 2 * l.length := by
  rw [List.length_append]; omega

example : tp ([(0, 0), (2, 1), (1, 1), (2, 2)] ++ [(0, 0), (2, 1), (1, 1), (2, 2)]) 2 = 2 := by
  decide +kernel

theorem ratio0_double (a b : Nat) : ratio0 (2 * a) (2 * b) = ratio0 a b := by
  unfold ratio0
  by_cases hb : b = 0
  · subst hb; simp
  · have h2 : 2 * b ≠ 0 := by omega
    simp only [hb, h2, if_false, natCast_two_mul]
    exact div_scale 2 _ _ two_ne_zero

theorem precision_dup (ps : Pairs) (c : Nat) : precision (ps ++ ps) c = precision ps c := by
  unfold precision
  rw [tp_dup, fp_dup, ← Nat.mul_add, ratio0_double]

theorem recall_dup (ps : Pairs) (c : Nat) : recall (ps ++ ps) c = recall ps c := by
  unfold recall
  rw [tp_dup, support_dup, ratio0_double]

theorem f1_dup (ps : Pairs) (c : Nat) : f1 (ps ++ ps) c = f1 ps c := by
  unfold f1
  rw [tp_dup, fp_dup, fn_dup]
  have : 2 * (2 * tp ps c) + 2 * fp ps c + 2 * fn ps c = 2 * (2 * tp ps c + fp ps c + fn ps c) := by
    omega
  rw [this, ratio0_double]

example : precision ([(0, 0), (2, 1), (1, 1), (2, 2)] ++ [(0, 0), (2, 1), (1, 1), (2, 2)]) 2
    = 1 / 2 := by decide +kernel
example : f1 ([(0, 0), (2, 1), (1, 1), (2, 2)] ++ [(0, 0), (2, 1), (1, 1), (2, 2)]) 1 = 2 / 3 := by
  decide +kernel

theorem present_dup (ps : Pairs) (C : Nat) : present (ps ++ ps) C = present ps C := by
  unfold present
  apply List.filter_congr; intro c _
  have e : ∀ n : Nat, (2 * n != 0) = (n != 0) := by
    intro n; cases n
    · rfl
    · rw [bne_iff_ne.mpr (by omega), bne_iff_ne.mpr (by omega)]
  rw [support_dup, predicted_dup, e, e]

example : present ([(0, 0), (2, 0)] ++ [(0, 0), (2, 0)]) 4 = [0, 2] := by decide +kernel

theorem microAccuracy_dup (ps : Pairs) : microAccuracy (ps ++ ps) = microAccuracy ps := by
  unfold microAccuracy
  rw [correct_dup, length_dup, natCast_two_mul, natCast_two_mul]
  exact xdiv_scale 2 _ _ two_pos

theorem classAccuracy_dup (ps : Pairs) (c : Nat) : classAccuracy (ps ++ ps) c = classAccuracy ps c := by
  unfold classAccuracy
  rw [tp_dup, support_dup, natCast_two_mul, natCast_two_mul]
  exact xdiv_scale 2 _ _ two_pos

example : microAccuracy ([(0, 0), (2, 1), (1, 1), (2, 2)] ++ [(0, 0), (2, 1), (1, 1), (2, 2)])
    = .val (3 / 4) := by decide +kernel
example : classAccuracy ([(0, 0), (2, 1), (1, 1), (2, 2)] ++ [(0, 0), (2, 1), (1, 1), (2, 2)]) 1
    = .val (1 / 2) := by decide +kernel

/-! ## D. transfer to the executable models (`TE.Count`) -/

theorem DupCount.zip_dup {α β : Type} (p : List α) (l : List β) (hlen : p.length = l.length) :
    (p ++ p).zip (l ++ l) = p.zip l ++ p.zip l := List.zip_append hlen

theorem DupCount.all_dup {α : Type} (f : α → Bool) (l : List α) (h : l.all f = true) :
    (l ++ l).all f = true := by
  rw [List.all_append, h]; rfl

/-- `range.map` of doubled casts is the scaled `range.map`. -/
theorem DupCount.map_natCast_dup (C : Nat) (f g : Nat → Nat) (h : ∀ c, f c = 2 * g c) :
    ((List.range C).map fun c => ((f c : Nat) : Q)) = ((List.range C).map fun c => (g c : Q)).map (2 * ·) := by
  rw [List.map_map]
  apply List.map_congr_left; intro c _
  simp only [Function.comp, h, natCast_two_mul]

theorem precision_model_dup (preds labs : List Nat) (C : Nat) (avg : Count.Avg)
    (hlen : preds.length = labs.length) (hp : preds.all (· < C) = true)
    (hl : labs.all (· < C) = true) :
    (Count.precisionUpdate (preds ++ preds) (labs ++ labs) avg C).map (Count.precisionCompute · avg)
      = (Count.precisionUpdate preds labs avg C).map (Count.precisionCompute · avg) := by
  have hlen2 : (preds ++ preds).length = (labs ++ labs).length := by simp [hlen]
  by_cases havg : avg = .micro
  · subst havg
    rw [C04.precisionUpdate_micro_eq, C04.precisionUpdate_micro_eq, zip_dup _ _ hlen]
    have h := CountL.correct_add_wrong (preds.zip labs)
    have e : (preds.zip labs ++ preds.zip labs).length - correct (preds.zip labs ++ preds.zip labs)
        = 2 * ((preds.zip labs).length - correct (preds.zip labs)) := by
      rw [correct_dup, length_dup]; omega
    rw [e, correct_dup, natCast_two_mul, natCast_two_mul]
    have z : ([0] : List Q) = [0].map (2 * ·) := by simp [Rat.mul_zero]
    rw [z]
    exact congrArg Except.ok (precisionCompute_scale 2 two_pos ⟨[_], [_], [0]⟩ .micro)
  · rw [C04.precisionUpdate_eq _ _ _ _ hlen2 (all_dup _ _ hp) (all_dup _ _ hl) havg,
      C04.precisionUpdate_eq _ _ _ _ hlen hp hl havg, zip_dup _ _ hlen,
      map_natCast_dup C _ _ (tp_dup _), map_natCast_dup C _ _ (fp_dup _),
      map_natCast_dup C _ _ (support_dup _)]
    exact congrArg Except.ok (precisionCompute_scale 2 two_pos ⟨_, _, _⟩ avg)

/-- non-vacuity of the validity hypotheses shared by the `*_model_dup` theorems, and a value. -/
example : ([0, 2, 1, 2] : List Nat).length = ([0, 1, 1, 2] : List Nat).length ∧
    ([0, 2, 1, 2] : List Nat).all (· < 3) = true ∧ ([0, 1, 1, 2] : List Nat).all (· < 3) = true := by
  decide
example : ((Count.precisionUpdate ([0, 2, 1, 2] ++ [0, 2, 1, 2]) ([0, 1, 1, 2] ++ [0, 1, 1, 2])
      .macro 3).map (Count.precisionCompute · .macro)).toOption = some [.val (5 / 6)] := by
  decide +kernel


theorem recallUpdate_dup (preds labs : List Nat) (C : Nat) (avg : Count.Avg)
    (hlen : preds.length = labs.length) (hp : preds.all (· < C) = true)
    (hl : labs.all (· < C) = true) :
    ∃ s, Count.recallUpdate preds labs avg C = .ok s ∧
      Count.recallUpdate (preds ++ preds) (labs ++ labs) avg C
        = .ok ⟨s.tp.map (2 * ·), s.a.map (2 * ·), s.b.map (2 * ·)⟩ := by
  have hlen2 : (preds ++ preds).length = (labs ++ labs).length := by simp [hlen]
  by_cases havg : avg = .micro
  · subst havg
    refine ⟨_, C04.recallUpdate_micro_eq preds labs C, ?_⟩
    rw [C04.recallUpdate_micro_eq, zip_dup _ _ hlen, correct_dup, length_dup, natCast_two_mul,
      natCast_two_mul]
    rfl
  · refine ⟨_, C04.recallUpdate_eq _ _ _ _ hlen hp hl havg, ?_⟩
    rw [C04.recallUpdate_eq _ _ _ _ hlen2 (all_dup _ _ hp) (all_dup _ _ hl) havg, zip_dup _ _ hlen,
      map_natCast_dup C _ _ (tp_dup _), map_natCast_dup C _ _ (support_dup _),
      map_natCast_dup C _ _ (predicted_dup _)]

theorem recall_model_dup (preds labs : List Nat) (C : Nat) (avg : Count.Avg)
    (hlen : preds.length = labs.length) (hp : preds.all (· < C) = true)
    (hl : labs.all (· < C) = true) :
    (Count.recallUpdate (preds ++ preds) (labs ++ labs) avg C).map (Count.recallCompute · avg)
      = (Count.recallUpdate preds labs avg C).map (Count.recallCompute · avg) := by
  obtain ⟨s, h1, h2⟩ := recallUpdate_dup preds labs C avg hlen hp hl
  rw [h1, h2]
  exact congrArg Except.ok (recallCompute_scale 2 two_pos s avg)

theorem f1_model_dup (preds labs : List Nat) (C : Nat) (avg : Count.Avg)
    (hlen : preds.length = labs.length) (hp : preds.all (· < C) = true)
    (hl : labs.all (· < C) = true) :
    (Count.recallUpdate (preds ++ preds) (labs ++ labs) avg C).map (Count.f1Compute · avg)
      = (Count.recallUpdate preds labs avg C).map (Count.f1Compute · avg) := by
  obtain ⟨s, h1, h2⟩ := recallUpdate_dup preds labs C avg hlen hp hl
  rw [h1, h2]
  exact congrArg Except.ok (f1Compute_scale 2 two_pos s avg)

example : ((Count.recallUpdate ([0, 2, 1, 2] ++ [0, 2, 1, 2]) ([0, 1, 1, 2] ++ [0, 1, 1, 2])
      .weighted 3).map (Count.f1Compute · .weighted)).toOption
    = ((Count.recallUpdate [0, 2, 1, 2] [0, 1, 1, 2] .weighted 3).map
        (Count.f1Compute · .weighted)).toOption := by decide +kernel

theorem accuracy_model_dup (preds labs : List Nat) (C : Nat) (avg : Count.Avg)
    (hlen : preds.length = labs.length) (hl : labs.all (· < C) = true) :
    (Count.mcAccFromMask (Count.mcMaskLabel (preds ++ preds) (labs ++ labs)) (labs ++ labs) avg C).map
        (fun r => Count.accuracyCompute r.1 r.2 avg)
      = (Count.mcAccFromMask (Count.mcMaskLabel preds labs) labs avg C).map
        (fun r => Count.accuracyCompute r.1 r.2 avg) := by
  have hlen2 : (preds ++ preds).length = (labs ++ labs).length := by simp [hlen]
  by_cases havg : avg = .micro
  · subst havg
    rw [C04.mcAccFromMask_micro_eq, C04.mcAccFromMask_micro_eq, zip_dup _ _ hlen, correct_dup,
      length_dup, natCast_two_mul, natCast_two_mul]
    exact congrArg Except.ok (accuracyCompute_scale 2 two_pos [_] [_] .micro)
  · rw [C04.mcAccFromMask_class_eq _ _ _ _ hlen2 (all_dup _ _ hl) havg,
      C04.mcAccFromMask_class_eq _ _ _ _ hlen hl havg, zip_dup _ _ hlen,
      map_natCast_dup C _ _ (tp_dup _), map_natCast_dup C _ _ (support_dup _)]
    exact congrArg Except.ok (accuracyCompute_scale 2 two_pos _ _ avg)

example : ((Count.mcAccFromMask (Count.mcMaskLabel ([0, 2, 1, 2] ++ [0, 2, 1, 2])
      ([0, 1, 1, 2] ++ [0, 1, 1, 2])) ([0, 1, 1, 2] ++ [0, 1, 1, 2]) .macro 3).map
      (fun r => Count.accuracyCompute r.1 r.2 .macro)).toOption = some [.val (5 / 6)] := by
  decide +kernel

theorem confusionUpdate_dup (preds labs : List Nat) (C : Nat)
    (hlen : preds.length = labs.length) (hp : preds.all (· < C) = true)
    (hl : labs.all (· < C) = true) :
    ∃ m, Count.confusionUpdate preds labs C = .ok m ∧
      Count.confusionUpdate (preds ++ preds) (labs ++ labs) C = .ok (m.map (·.map (2 * ·))) := by
  refine ⟨_, C04.confusionUpdate_eq preds labs C hp hl, ?_⟩
  rw [C04.confusionUpdate_eq _ _ C (all_dup _ _ hp) (all_dup _ _ hl), zip_dup _ _ hlen]
  congr 1
  rw [List.map_map]
  apply List.map_congr_left; intro t _
  exact map_natCast_dup C _ _ (confusion_dup _ t)

theorem confusion_model_dup (preds labs : List Nat) (C : Nat) (norm : Count.Norm)
    (hnorm : norm ≠ .none) (hlen : preds.length = labs.length) (hp : preds.all (· < C) = true)
    (hl : labs.all (· < C) = true) :
    (Count.confusionUpdate (preds ++ preds) (labs ++ labs) C).map (Count.confusionCompute · C norm)
      = (Count.confusionUpdate preds labs C).map (Count.confusionCompute · C norm) := by
  obtain ⟨m, h1, h2⟩ := confusionUpdate_dup preds labs C hlen hp hl
  rw [h1, h2]
  exact congrArg Except.ok (confusionCompute_scale 2 two_pos m C norm hnorm)

example : ((Count.confusionUpdate ([0, 1, 1] ++ [0, 1, 1]) ([0, 0, 1] ++ [0, 0, 1]) 2).map
      (Count.confusionCompute · 2 .true_)).toOption
    = some [[.val (1 / 2), .val (1 / 2)], [.val 0, .val 1]] := by decide +kernel

/-- with `normalize = None` the result is the raw count matrix, which is *not* a ratio metric:
    it doubles (here `[[2,2],[0,2]]` against `[[1,1],[0,1]]`), hence `hnorm` above. -/
theorem confusion_unnormalized_dup_witness :
    (Count.confusionUpdate ([0, 1, 1] ++ [0, 1, 1]) ([0, 0, 1] ++ [0, 0, 1]) 2).map
        (Count.confusionCompute · 2 .none)
      ≠ (Count.confusionUpdate [0, 1, 1] [0, 0, 1] 2).map (Count.confusionCompute · 2 .none) := by
  intro h
  have := congrArg Except.toOption h
  revert this
  decide +kernel

theorem confusion_unnormalized_dup_values :
    ((Count.confusionUpdate ([0, 1, 1] ++ [0, 1, 1]) ([0, 0, 1] ++ [0, 0, 1]) 2).map
        (Count.confusionCompute · 2 .none)).toOption = some [[.val 2, .val 2], [.val 0, .val 2]] ∧
    ((Count.confusionUpdate [0, 1, 1] [0, 0, 1] 2).map
        (Count.confusionCompute · 2 .none)).toOption = some [[.val 1, .val 1], [.val 0, .val 1]] := by
  decide +kernel

theorem binaryAccuracy_dup (thr : Q) (xs ys : List Q) (hlen : xs.length = ys.length) :
    let u := Count.binaryAccuracyUpdate thr (xs ++ xs) (ys ++ ys)
    let v := Count.binaryAccuracyUpdate thr xs ys
    xdiv u.1 u.2 = xdiv v.1 v.2 := by
  simp only [Count.binaryAccuracyUpdate, qcount, zip_dup _ _ hlen, countP_dup, length_dup,
    natCast_two_mul]
  exact xdiv_scale 2 _ _ two_pos

example : ([1/4, 1/2, 3/4] : List Q).length = ([0, 1, 0] : List Q).length := by decide
example : xdiv (Count.binaryAccuracyUpdate (1/2) ([1/4, 1/2, 3/4] ++ [1/4, 1/2, 3/4])
      ([0, 1, 0] ++ [0, 1, 0])).1 (Count.binaryAccuracyUpdate (1/2) ([1/4, 1/2, 3/4] ++ [1/4, 1/2, 3/4])
      ([0, 1, 0] ++ [0, 1, 0])).2 = .val (2 / 3) := by decide +kernel

end TE.MetaL
