/-
  TE.Lemmas.KernelsAgg — evaluation lemmas for the generated terms of the aggregation / regression / image kernels
  (C07, TE/Gen/KernelsAgg.lean) and of the ranking kernels (C08, TE/Gen/KernelsRank.lean): the primitives added to
  TE/Model/TExpr.lean for these families, and the bridge between the extended-rational arithmetic of TExpr
  (`TX.xadd`, left-fold `TX.xsum`, …) and that of the hand-written models (`Agg.xadd`, right-fold `Agg.xsum`, …).
-/
import TE.Model.TExpr
import TE.Model.Agg
import TE.Model.Rank
import TE.Lemmas.Kernels
namespace TE.TXL
open TE TE.TX TE.Count TE.CountL

/-- the Python value of a `weight` argument -/
def weightVal : Agg.Weight → Val
  | .scalar w => .num w
  | .tensor ws => vecQ ws

/-- `tx_eval` with the primitives of the C07 / C08 kernels -/
syntax "tx_eval2" ("[" Lean.Parser.Tactic.simpLemma,* "]")? : tactic
macro_rules
  | `(tactic| tx_eval2) => `(tactic| tx_eval2 [])
  | `(tactic| tx_eval2 [$extra,*]) => `(tactic|
  tx_eval [isFloatV, isTensorV, isNoneV, sameSizeV, shapeOf, pyCmpV, fstV, sndV, sumDim0V, unsqueeze0V, sizeLastV,
    flattenV, sortStableV, List.cons.injEq, and_true, beq_iff_eq, decide_eq_true_eq, $extra,*])

theorem sum_eq_qsum (l : List Q) : l.sum = qsum l := (qsum_eq_sum l).symm

/-! ## the two extended-rational arithmetics coincide -/

theorem agg_xneg (a : XQ) : Agg.xneg a = TX.xneg a := by cases a <;> rfl
theorem agg_xadd (a b : XQ) : Agg.xadd a b = TX.xadd a b := by cases a <;> cases b <;> rfl
theorem agg_xsub (a b : XQ) : Agg.xsub a b = TX.xsub a b := by
  simp only [Agg.xsub, TX.xsub, agg_xneg, agg_xadd]
theorem agg_xdivX (a b : XQ) : Agg.xdivX a b = TX.xdivX a b := by cases a <;> cases b <;> rfl

theorem agg_xmul (a b : XQ) : Agg.xmul a b = TX.xmul a b := by
  cases a <;> cases b <;> simp only [Agg.xmul, TX.xmul, Agg.xsgn, infMul] <;>
    first
    | rfl
    | (rename_i q
       by_cases h0 : q = 0
       · subst h0; simp
       · by_cases hp : 0 < q
         · have : ¬ q < 0 := by grind
           simp [h0, hp, this]
         · have : q < 0 := by grind
           simp [h0, hp, this])
    | simp

theorem xadd_comm (a b : XQ) : TX.xadd a b = TX.xadd b a := by
  cases a <;> cases b <;> simp [TX.xadd, Rat.add_comm]

theorem xadd_assoc (a b c : XQ) : TX.xadd (TX.xadd a b) c = TX.xadd a (TX.xadd b c) := by
  cases a <;> cases b <;> cases c <;> simp [TX.xadd, Rat.add_assoc]

theorem xadd_zero (a : XQ) : TX.xadd a (.val 0) = a := by
  cases a <;> simp [TX.xadd, Rat.add_zero]
theorem zero_xadd (a : XQ) : TX.xadd (.val 0) a = a := by
  cases a <;> simp [TX.xadd, Rat.zero_add]

theorem foldl_xadd (l : List XQ) (a : XQ) : l.foldl TX.xadd a = TX.xadd a (l.foldr TX.xadd (.val 0)) := by
  induction l generalizing a with
  | nil => simp [xadd_zero]
  | cons x xs ih => simp only [List.foldl_cons, List.foldr_cons, ih, xadd_assoc]

theorem agg_xsum (l : List XQ) : Agg.xsum l = TX.xsum l := by
  unfold Agg.xsum TX.xsum
  rw [show Agg.xadd = TX.xadd from funext fun a => funext fun b => agg_xadd a b, foldl_xadd, zero_xadd]

theorem agg_xmean (l : List XQ) : Agg.xmean l = TX.xmean l := by
  simp only [Agg.xmean, TX.xmean, agg_xsum, agg_xdivX]

/-! ## primitives on exact arguments -/

theorem absQ_eq_qabs (a : Q) : absQ a = Agg.qabs a := rfl

theorem clampMin_val (a lo : Q) :
    (if xlt (XQ.val a) (XQ.val lo) = true then lo else a) = Agg.qmax a lo := by
  simp only [xlt, decide_eq_true_eq, Agg.qmax]

theorem sign_val (a : Q) : (if a < 0 then (-1 : Q) else if a = 0 then 0 else 1) = Agg.sgn a := rfl

theorem xtrapz_val (xs ys : List Q) : xtrapz (xs.map XQ.val) (ys.map XQ.val) = .val (Agg.trapz xs ys) := by
  fun_induction Agg.trapz xs ys with
  | case1 x0 x1 xs y0 y1 ys ih =>
    have h2 : (2 : Q) ≠ 0 := by decide
    simp only [List.map_cons, xtrapz] at ih ⊢
    rw [ih]
    simp [xsub_val, TX.xadd, TX.xmul, TX.xdivX, xdiv, h2]
  | case2 xs ys hno =>
    match xs, ys, hno with
    | [], _, _ => simp [xtrapz]
    | [_], _, _ => simp [xtrapz]
    | _ :: _ :: _, [], _ => simp [xtrapz]
    | _ :: _ :: _, [_], _ => simp [xtrapz]
    | x0 :: x1 :: xs, y0 :: y1 :: ys, hno => exact absurd rfl (hno x0 x1 xs y0 y1 ys rfl)

theorem qcmp_lt (a b : Q) : qcmp .lt a b = decide (a < b) := rfl

theorem qcmp_ge_le (a b : Q) : qcmp .ge a b = decide (b ≤ a) := by
  rw [Bool.eq_iff_iff]
  simp only [qcmp, Bool.or_eq_true, decide_eq_true_eq, beq_iff_eq, Rat.le_iff_lt_or_eq]
  constructor
  · rintro (h | h)
    · exact .inl h
    · exact .inr h.symm
  · rintro (h | h)
    · exact .inl h
    · exact .inr h.symm

theorem xdiv_of_ne (a n : Q) (h : n ≠ 0) : xdiv a n = .val (a / n) := by simp [xdiv, h]

theorem natCast_int_beq_zero (p : Nat) : (((p : Nat) : Int) == 0) = decide (p = 0) := by
  rw [Bool.eq_iff_iff]; simp

/-! ## ranking kernels -/

theorem natCast_le_intCast (C : Nat) (k : Int) : decide (((C : Nat) : Q) ≤ ((k : Int) : Q)) = decide ((C : Int) ≤ k) := by
  rw [Bool.eq_iff_iff]; simp only [decide_eq_true_eq]; rw [← Rat.intCast_natCast, Rat.intCast_le_intCast]

theorem natCast_lt_intCast (C : Nat) (k : Int) : decide (((C : Nat) : Q) < ((k : Int) : Q)) = decide (Int.ofNat C < k) := by
  rw [Bool.eq_iff_iff]; simp only [decide_eq_true_eq]; rw [← Rat.intCast_natCast, Rat.intCast_lt_intCast]; rfl

theorem intCast_le_natCast (k : Int) (C : Nat) : decide (((k : Int) : Q) ≤ ((C : Nat) : Q)) = decide (k ≤ Int.ofNat C) := by
  rw [Bool.eq_iff_iff]; simp only [decide_eq_true_eq]; rw [← Rat.intCast_natCast, Rat.intCast_le_intCast]; rfl

/-- every target addresses a column of its row: the gathers of `ranks` succeed -/
theorem ranks_ok (R : List (List Q × Nat)) (h : ∀ r ∈ R, r.2 < r.1.length) :
    Rank.ranks (R.map (·.1)) (R.map fun r => (r.2 : Int))
      = .ok (R.map fun r => Rank.rankRow r.1 (r.1.getD r.2 0)) := by
  unfold Rank.ranks
  simp only [List.zip_map', List.mapM_map]
  induction R with
  | nil => rfl
  | cons r R ih =>
    have hr := h r List.mem_cons_self
    have := ih (fun x hx => h x (List.mem_cons_of_mem _ hx))
    have h0 : ¬ ((r.2 : Int) < 0) := by omega
    rw [List.mapM_cons, this]
    simp only [Function.comp, Rank.gather1, bind, Except.bind, pure, Except.pure, h0, if_false,
      Int.toNat_natCast, List.getElem?_eq_getElem hr, List.map_cons, List.getD_eq_getElem?_getD, Option.getD_some]

theorem rr_pointwise (k : Int) (c : Nat) :
    (if ((k : Int) : Q) ≤ ((c : Nat) : Q) then XQ.val 0 else xdiv 1 (((c : Nat) : Q) + 1))
      = XQ.val (if k ≤ Int.ofNat c then 0 else 1 / (((c : Nat) : Q) + 1)) := by
  have hpos : ((c : Nat) : Q) + 1 ≠ 0 := by
    have := Rat.natCast_nonneg (a := c)
    grind
  have hle : (((k : Int) : Q) ≤ ((c : Nat) : Q)) ↔ k ≤ Int.ofNat c := by
    rw [← Rat.intCast_natCast, Rat.intCast_le_intCast]; rfl
  simp only [xdiv, hpos, if_false, hle]
  split <;> rfl

theorem rr_none (c : Nat) : xdiv 1 (((c : Nat) : Q) + 1) = XQ.val (1 / (((c : Nat) : Q) + 1)) := by
  have hpos : ((c : Nat) : Q) + 1 ≠ 0 := by
    have := Rat.natCast_nonneg (a := c)
    grind
  simp only [xdiv, hpos, if_false]

theorem repeatRowsV_single (l : List XQ) (n : Nat) :
    repeatRowsV (.mat [l]) (.int (n : Int)) = .ok (.mat (List.replicate n l)) := by
  simp [repeatRowsV]

theorem bzipM_replicate_single {ρ : Type} (f : XQ → XQ → XQ) (R : List ρ) (l : List XQ) (y : ρ → XQ) :
    bzipM f (List.replicate R.length l) (R.map fun r => [y r]) = .ok (R.map fun r => l.map (f · (y r))) := by
  have : List.replicate R.length l = R.map fun _ => l := by
    induction R with
    | nil => rfl
    | cons x xs ih => simp only [List.length_cons, List.replicate_succ, List.map_cons, ih]
  rw [this]
  exact bzipM_rows_single f R (fun _ => l) y

theorem flatten_singletons {α β : Type} (R : List α) (g : α → β) : (R.map fun r => [g r]).flatten = R.map g := by
  induction R with
  | nil => rfl
  | cons x xs ih => simp [ih]

theorem intCast_beq (a b : Int) : (((a : Int) : Q) == ((b : Int) : Q)) = (a == b) := by
  rw [Bool.eq_iff_iff]; simp [Rat.intCast_inj]

/-! ## column sums (`.sum(dim=0)`) -/

theorem getD_map_of {α β : Type} (f : α → β) (l : List α) (n : Nat) (d : α) (z : β) (hz : f d = z) :
    (l.map f).getD n z = f (l.getD n d) := by
  subst hz; exact getD_map' f l n d

/-- `.sum(dim=0)` of a matrix given by rows of cells = the sums of the model's columns -/
theorem sumDim0V_rows {α : Type} (R : List (List α)) (g : α → Q) (a0 : α) (h0 : g a0 = 0) (d : Nat)
    (hd : ∀ r ∈ R, r.length = d) (hne : R ≠ []) :
    sumDim0V (.mat (R.map fun r => r.map fun p => XQ.val (g p)))
      = .ok (vecQ ((List.range d).map fun j => qsum (R.map fun r => g (r.getD j a0)))) := by
  have hhead : ((R.map fun r => r.map fun p => XQ.val (g p)).headD []).length = d := by
    cases R with
    | nil => exact absurd rfl hne
    | cons r R => simpa using hd r (by simp)
  simp only [sumDim0V, hhead, vecQ, List.map_map, Function.comp_def]
  congr 2
  apply List.map_congr_left
  intro j _
  rw [← xsum_map_val]
  congr 1
  apply List.map_congr_left
  intro r _
  have := getD_map_of (fun p => XQ.val (g p)) r j a0 (XQ.val 0) (by simp [h0])
  exact this

theorem col_cells {α : Type} (R : List (List α)) (g : α → Q) (a0 : α) (h0 : g a0 = 0) (j : Nat) :
    Agg.col j (R.map fun r => r.map g) = R.map fun r => g (r.getD j a0) := by
  simp only [Agg.col, List.map_map, Function.comp_def]
  apply List.map_congr_left
  intro r _
  exact getD_map_of g r j a0 0 h0

/-! ## stable sort -/

theorem xle_val (a b : Q) : xle (.val a) (.val b) = decide (a ≤ b) := by
  rw [Bool.eq_iff_iff]
  simp only [xle, xlt, xeq, Bool.or_eq_true, decide_eq_true_eq, beq_iff_eq, Rat.le_iff_lt_or_eq]

def valIdx (p : Q × Nat) : XQ × Nat := (.val p.1, p.2)

theorem xinsertBy_val (a : Q × Nat) (l : List (Q × Nat)) :
    xinsertBy (valIdx a) (l.map valIdx) = (Agg.insertBy Agg.leFst a l).map valIdx := by
  induction l with
  | nil => rfl
  | cons b l ih =>
    simp only [List.map_cons, xinsertBy, Agg.insertBy, valIdx, xle_val, Agg.leFst] at ih ⊢
    by_cases h : a.1 ≤ b.1
    · simp only [h, decide_true, if_true, List.map_cons, valIdx]
    · simp only [h, decide_false, Bool.false_eq_true, if_false, List.map_cons, valIdx, ih]

theorem xisort_val (l : List (Q × Nat)) : xisort (l.map valIdx) = (Agg.isort Agg.leFst l).map valIdx := by
  induction l with
  | nil => rfl
  | cons a l ih => simp only [List.map_cons, xisort, Agg.isort, ih, xinsertBy_val]

theorem xargsortStable_val (xs : List Q) :
    xargsortStable (xs.map XQ.val) = (Agg.argsortStable xs).map valIdx := by
  unfold xargsortStable Agg.argsortStable
  rw [← xisort_val, List.length_map]
  congr 1
  rw [show List.range xs.length = (List.range xs.length).map id from (List.map_id _).symm, List.zip_map]
  simp [valIdx, Prod.map]

theorem mem_insertBy {α : Type} (le : α → α → Bool) (a x : α) (l : List α) :
    x ∈ Agg.insertBy le a l → x = a ∨ x ∈ l := by
  induction l with
  | nil => intro h; simp [Agg.insertBy] at h; exact .inl h
  | cons b l ih =>
    simp only [Agg.insertBy]
    split
    · intro h; simp at h; simp [h]
    · intro h
      rcases List.mem_cons.mp h with rfl | h
      · exact .inr List.mem_cons_self
      · rcases ih h with rfl | h
        · exact .inl rfl
        · exact .inr (List.mem_cons_of_mem _ h)

theorem mem_isort {α : Type} (le : α → α → Bool) (x : α) (l : List α) : x ∈ Agg.isort le l → x ∈ l := by
  induction l with
  | nil => intro h; simp [Agg.isort] at h
  | cons a l ih =>
    simp only [Agg.isort]
    intro h
    rcases mem_insertBy le a x _ h with rfl | h
    · exact List.mem_cons_self
    · exact List.mem_cons_of_mem _ (ih h)

theorem argsortStable_idx_lt (xs : List Q) (p : Q × Nat) (h : p ∈ Agg.argsortStable xs) : p.2 < xs.length := by
  have := mem_isort _ p _ h
  have := (List.of_mem_zip this).2
  simpa using this

theorem gatherRow_sorted (ys : List Q) (s : List (Q × Nat)) (h : ∀ p ∈ s, p.2 < ys.length) :
    gatherRow (ys.map XQ.val) (s.map fun p => XQ.val ((p.2 : Nat) : Q))
      = .ok (s.map fun p => XQ.val (ys.getD p.2 0)) := by
  simp only [gatherRow, idxList_map_nat, bind, Except.bind, List.map_map, Function.comp_def]
  apply seqE_congr_ok
  intro p hp
  have := h p hp
  simp [this, List.getD_eq_getElem?_getD]

/-! ## matrices of one shape -/

/-- two matrices of one shape -/
def SameShape {α β : Type} (a : List (List α)) (b : List (List β)) : Prop :=
  a.length = b.length ∧ ∀ p ∈ a.zip b, p.1.length = p.2.length

theorem exists_cells3 {α β γ : Type} (a : List (List α)) (b : List (List β)) (c : List (List γ))
    (h1 : SameShape a b) (h2 : SameShape b c) :
    ∃ R : List (List (α × β × γ)), a = R.map (fun r => r.map (·.1)) ∧ b = R.map (fun r => r.map (·.2.1)) ∧
      c = R.map (fun r => r.map (·.2.2)) := by
  obtain ⟨S, rfl, rfl⟩ := exists_cells b c h2.1 h2.2
  have h1' : SameShape a S := by
    refine ⟨by simpa using h1.1, ?_⟩
    intro p hp
    have hl := h1.1
    simp only [List.length_map] at hl
    -- p = (a_i, S_i): the row of `a` has the length of the first projections of `S_i`
    obtain ⟨i, hi, rfl⟩ := List.mem_iff_getElem.mp hp
    simp only [List.getElem_zip, List.length_zip] at hi ⊢
    have := h1.2 (a[i], (S.map fun r => r.map (·.1))[i]'(by simp; omega)) (by
      apply List.mem_iff_getElem.mpr
      refine ⟨i, by simp; omega, ?_⟩
      simp [List.getElem_zip])
    simpa using this
  obtain ⟨R, rfl, rfl⟩ := exists_cells a S h1'.1 h1'.2
  refine ⟨R, rfl, ?_, ?_⟩ <;> simp [List.map_map, Function.comp_def]

/-- `.sum(dim=0)` of a matrix whose rows are computed from cells and a per-row value -/
theorem sumDim0V_rows' {ρ α : Type} (R : List ρ) (row : ρ → List α) (g : ρ → α → Q) (a0 : α) (h0 : ∀ r, g r a0 = 0)
    (d : Nat) (hd : ∀ r ∈ R, (row r).length = d) (hne : R ≠ []) :
    sumDim0V (.mat (R.map fun r => (row r).map fun p => XQ.val (g r p)))
      = .ok (vecQ ((List.range d).map fun j => qsum (R.map fun r => g r ((row r).getD j a0)))) := by
  have hhead : ((R.map fun r => (row r).map fun p => XQ.val (g r p)).headD []).length = d := by
    cases R with
    | nil => exact absurd rfl hne
    | cons r R => simpa using hd r (by simp)
  simp only [sumDim0V, hhead, vecQ, List.map_map, Function.comp_def]
  congr 2
  apply List.map_congr_left
  intro j _
  rw [← xsum_map_val]
  congr 1
  apply List.map_congr_left
  intro r _
  exact getD_map_of (fun p => XQ.val (g r p)) (row r) j a0 (XQ.val 0) (by simp [h0])

theorem bzipM_rows_map' {ρ α : Type} (f : XQ → XQ → XQ) (R : List ρ) (row : ρ → List α) (A B : α → XQ) :
    bzipM f (R.map fun r => (row r).map A) (R.map fun r => (row r).map B)
      = .ok (R.map fun r => (row r).map fun p => f (A p) (B p)) := by
  rw [bzipM_rows_same f R _ _ (fun r _ => by simp only [List.length_map])]
  simp only [List.zipWith_map, List.zipWith_self]

theorem col_cells' {ρ α : Type} (R : List ρ) (row : ρ → List α) (g : α → Q) (a0 : α) (h0 : g a0 = 0) (j : Nat) :
    Agg.col j (R.map fun r => (row r).map g) = R.map fun r => g ((row r).getD j a0) := by
  simp only [Agg.col, List.map_map, Function.comp_def]
  apply List.map_congr_left
  intro r _
  exact getD_map_of g (row r) j a0 0 h0

/-- `sample_weight.unsqueeze(-1).sum(dim=0).squeeze()` -/
theorem sum_unsqueezed {ρ : Type} (R : List ρ) (w : ρ → Q) (hne : R ≠ []) :
    (do let s ← sumDim0V (.mat (R.map fun r => [XQ.val (w r)])); squeezeV s) = .ok (.scalar (.val (qsum (R.map w)))) := by
  have hhead : ((R.map fun r => [XQ.val (w r)]).headD []).length = 1 := by
    cases R with
    | nil => exact absurd rfl hne
    | cons r R => rfl
  simp only [sumDim0V, hhead, bind, Except.bind, squeezeV, List.range_one, List.map_cons, List.map_nil, List.length_cons,
    List.length_nil, if_true, List.headD_cons, List.map_map, Function.comp_def, List.getD_cons_zero, xsum_map_val]


/-! ## trapezoidal AUC on several task rows -/

theorem xtrapz_val' {α β : Type} (l1 : List α) (l2 : List β) (f : α → Q) (g : β → Q) :
    xtrapz (l1.map fun a => XQ.val (f a)) (l2.map fun b => XQ.val (g b)) = .val (Agg.trapz (l1.map f) (l2.map g)) := by
  have := xtrapz_val (l1.map f) (l2.map g)
  simpa only [List.map_map, Function.comp_def] using this

theorem numel_cells_ne {α β : Type} (R : List (List α)) (f : α → β) (h : R.flatten ≠ []) :
    ¬ (((R.map fun r => r.map f).flatten.length : Int) = 0) := by
  have : (R.map fun r => r.map f).flatten = R.flatten.map f := by rw [List.map_flatten]
  rw [this, List.length_map]
  intro e
  exact h (List.length_eq_zero_iff.mp (by omega))

theorem flatten_cells_ne {α β : Type} (R : List (List α)) (f : α → β) (h : (R.map fun r => r.map f).flatten ≠ []) :
    R.flatten ≠ [] := by
  intro e
  apply h
  have : (R.map fun r => r.map f).flatten = R.flatten.map f := by rw [List.map_flatten]
  rw [this, e]; rfl


/-- one task row of `_auc_compute(reorder=True)` -/
theorem auc_row_reorder (xs ys : List Q) (h : xs.length = ys.length) :
    (do let g ← gatherRow (ys.map XQ.val) ((xargsortStable (xs.map XQ.val)).map fun p => XQ.val ((p.2 : Nat) : Q))
        pure (xtrapz ((xargsortStable (xs.map XQ.val)).map (·.1)) g))
      = Except.ok (XQ.val (Agg.aucRow true xs ys)) := by
  have hg := gatherRow_sorted ys (Agg.argsortStable xs) (fun p hp => h ▸ argsortStable_idx_lt xs p hp)
  have ht := xtrapz_val ((Agg.argsortStable xs).map (·.1)) ((Agg.argsortStable xs).map fun p => ys.getD p.2 0)
  simp only [List.map_map, Function.comp_def] at ht
  simp only [xargsortStable_val, List.map_map, Function.comp_def, valIdx, hg, bind, Except.bind, pure, Except.pure, ht,
    Agg.aucRow, if_true, Agg.gatherBy]


/-- the gathered `y` of one task row -/
def aucGathered (xs ys : List Q) : List XQ := (Agg.argsortStable xs).map fun p => XQ.val (ys.getD p.2 0)

theorem auc_row_gather (xs ys : List Q) (h : xs.length = ys.length) :
    gatherRow (ys.map XQ.val) ((xargsortStable (xs.map XQ.val)).map fun p => XQ.val ((p.2 : Nat) : Q))
      = .ok (aucGathered xs ys) := by
  have hg := gatherRow_sorted ys (Agg.argsortStable xs) (fun p hp => h ▸ argsortStable_idx_lt xs p hp)
  simp only [xargsortStable_val, List.map_map, Function.comp_def, valIdx, hg, aucGathered]

theorem auc_row_trapz (xs ys : List Q) :
    xtrapz ((xargsortStable (xs.map XQ.val)).map (·.1)) (aucGathered xs ys) = XQ.val (Agg.aucRow true xs ys) := by
  have ht := xtrapz_val ((Agg.argsortStable xs).map (·.1)) ((Agg.argsortStable xs).map fun p => ys.getD p.2 0)
  simp only [List.map_map, Function.comp_def] at ht
  simp only [xargsortStable_val, List.map_map, Function.comp_def, valIdx, ht, Agg.aucRow, if_true, Agg.gatherBy, aucGathered]

theorem aucGathered_length (xs ys : List Q) :
    (aucGathered xs ys).length = (xargsortStable (xs.map XQ.val)).length := by
  simp only [aucGathered, xargsortStable_val, List.length_map]

theorem flatten_length_rows (R : List (List Q × List Q)) (h : ∀ r ∈ R, r.1.length = r.2.length) :
    (R.map fun r => r.2.map XQ.val).flatten.length = (R.map fun r => r.1.map XQ.val).flatten.length := by
  induction R with
  | nil => rfl
  | cons r R ih =>
    simp only [List.map_cons, List.flatten_cons, List.length_append, List.length_map,
      h r List.mem_cons_self, ih (fun x hx => h x (List.mem_cons_of_mem _ hx))]

/-- output of `_r2_score_compute`: one value per output for `raw_values`, else a 0-d tensor -/
def r2Out (mo : Agg.MultiOut) (l : List XQ) : Val :=
  match mo with | .raw => .vec l | _ => .scalar (l.headD .nan)

def moVal : Agg.MultiOut → Val
  | .raw => .str "raw_values" | .uniform => .str "uniform_average" | .variance => .str "variance_weighted"

end TE.TXL
