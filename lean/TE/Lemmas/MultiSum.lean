/-
  TE.Lemmas.MultiSum — `sum(-1)` over the flat data of a `(t, n)` tensor is the per-row sum,
  `sum(dim=0)` over the rows of an `(n, d)` tensor is the per-column sum; consequences for
  click-through rate, weighted calibration, normalized entropy, MSE, R².
-/
import TE.Lemmas.Multi
import TE.Lemmas.RankRetrieval
namespace TE.MultiL
open TE TE.Multi

/-! ### `sum(-1)` -/

theorem sumLastDim_rows (n : Nat) (rows : Mat) (h : ∀ r ∈ rows, r.length = n) :
    sumLastDim rows.length n rows.flatten = rows.map List.sum := by
  unfold sumLastDim
  rw [chunks_flatten n rows h]

/-- an element-wise binary operation on two `(t, n)` tensors followed by `sum(-1)`:
    row `i` of the result only depends on row `i` of the operands. -/
theorem sumLastDim_zipWith {α β : Type} (f : α → β → Q) (n : Nat) :
    ∀ (a : List (List α)) (b : List (List β)), a.length = b.length →
      (∀ r ∈ a, r.length = n) → (∀ r ∈ b, r.length = n) →
      sumLastDim a.length n (List.zipWith f a.flatten b.flatten)
        = List.zipWith (fun x y => (List.zipWith f x y).sum) a b
  | [], [], _, _, _ => rfl
  | x :: a, y :: b, hl, ha, hb => by
    have hx : x.length = n := ha x (by simp)
    have hy : y.length = n := hb y (by simp)
    have ih := sumLastDim_zipWith f n a b (by simpa using hl)
      (fun r hr => ha r (by simp [hr])) (fun r hr => hb r (by simp [hr]))
    have hz : (List.zipWith f x y).length = n := by simp [hx, hy]
    unfold sumLastDim at ih ⊢
    simp only [List.flatten_cons, List.length_cons, chunks, List.zipWith_cons_cons, List.map_cons]
    rw [List.zipWith_append (by omega), List.take_left' hz, List.drop_left' hz, ih]
  | [], _ :: _, hl, _, _ => by simp at hl
  | _ :: _, [], hl, _, _ => by simp at hl

theorem zipWith_rows_length {α β γ : Type} (f : α → β → γ) (n : Nat) :
    ∀ (a : List (List α)) (b : List (List β)), (∀ r ∈ a, r.length = n) → (∀ r ∈ b, r.length = n) →
      ∀ r ∈ List.zipWith (List.zipWith f) a b, r.length = n
  | [], _, _, _ => by simp
  | _ :: _, [], _, _ => by simp
  | x :: a, y :: b, ha, hb => by
    intro r hr
    simp only [List.zipWith_cons_cons, List.mem_cons] at hr
    rcases hr with rfl | hr
    · simp [ha x (by simp), hb y (by simp)]
    · exact zipWith_rows_length f n a b (fun r hr => ha r (by simp [hr])) (fun r hr => hb r (by simp [hr])) r hr

theorem zipWith_zipWith_length {α β γ : Type} (f : α → β → γ) (a : List (List α)) (b : List (List β))
    (h : a.length = b.length) : (List.zipWith (List.zipWith f) a b).length = a.length := by
  simp [h]

theorem zipWith_eq_map_zip {α β γ : Type} (f : α → β → γ) : ∀ (a : List α) (b : List β),
    List.zipWith f a b = (a.zip b).map fun p => f p.1 p.2
  | [], _ => by simp
  | _ :: _, [] => by simp
  | x :: a, y :: b => by simp [zipWith_eq_map_zip f a b]

theorem zipWith_maps {α β γ δ ε : Type} (F : γ → δ → ε) (g : α → β → γ) (h : β → δ) :
    ∀ (a : List α) (b : List β),
      List.zipWith F (List.zipWith g a b) (b.map h) = (a.zip b).map fun r => F (g r.1 r.2) (h r.2)
  | [], _ => by simp
  | _ :: _, [] => by simp
  | x :: a, y :: b => by simp [zipWith_maps F g h a b]

/-! ### click-through rate -/

theorem ctrMulti_eq_map (eps : Q) (n : Nat) (inp w : Mat) (hl : inp.length = w.length)
    (hi : ∀ r ∈ inp, r.length = n) (hw : ∀ r ∈ w, r.length = n) :
    ctrMulti eps inp.length n inp.flatten w.flatten
      = (inp.zip w).map fun r =>
          Rank.ctrCompute eps (Rank.ctrUpdate r.1 r.2).1 (Rank.ctrUpdate r.1 r.2).2 := by
  unfold ctrMulti mulFlat
  rw [sumLastDim_zipWith _ n inp w hl hi hw, hl, sumLastDim_rows n w hw, zipWith_maps]
  apply List.map_congr_left
  intro r _
  simp only [Rank.ctrUpdate, RankL.qsum_eq_sum, zipWith_eq_map_zip]

theorem ctrMultiScalar_eq_map (eps : Q) (n : Nat) (inp : Mat) (w : Q) (hi : ∀ r ∈ inp, r.length = n) :
    ctrMultiScalar eps inp.length n inp.flatten w
      = inp.map fun r => Rank.ctrCompute eps (Rank.ctrUpdateScalar r w).1 (Rank.ctrUpdateScalar r w).2 := by
  unfold ctrMultiScalar
  rw [sumLastDim_rows n inp hi, List.map_map]
  apply List.map_congr_left
  intro r hr
  simp only [Function.comp, Rank.ctrUpdateScalar, RankL.qsum_eq_sum, hi r hr]

/-! ### weighted calibration -/

theorem zipWith_two {α β γ δ ε : Type} (F : δ → ε → γ) (g : α → β → δ) (h : α → β → ε) :
    ∀ (a : List α) (b : List β),
      List.zipWith F (List.zipWith g a b) (List.zipWith h a b) = (a.zip b).map fun r => F (g r.1 r.2) (h r.1 r.2)
  | [], _ => by simp
  | _ :: _, [] => by simp
  | x :: a, y :: b => by simp [zipWith_two F g h a b]

theorem zip3_two {α β γ δ ε ζ : Type} (F : δ → ε → ζ) (g : γ → α → δ) (h : γ → β → ε) :
    ∀ (a : List α) (b : List β) (c : List γ), a.length = b.length → b.length = c.length →
      List.zipWith F (List.zipWith g c a) (List.zipWith h c b)
        = (a.zip (b.zip c)).map fun r => F (g r.2.2 r.1) (h r.2.2 r.2.1)
  | [], [], [], _, _ => rfl
  | x :: a, y :: b, z :: c, h1, h2 => by
    simp [zip3_two F g h a b c (by simpa using h1) (by simpa using h2)]
  | [], _ :: _, _, h1, _ => by simp at h1
  | _ :: _, [], _, h1, _ => by simp at h1
  | [], [], _ :: _, _, h2 => by simp at h2
  | _ :: _, _ :: _, [], _, h2 => by simp at h2

theorem wcMulti_eq_map (n : Nat) (inp tgt w : Mat) (h1 : inp.length = tgt.length) (h2 : tgt.length = w.length)
    (hi : ∀ r ∈ inp, r.length = n) (ht : ∀ r ∈ tgt, r.length = n) (hw : ∀ r ∈ w, r.length = n) :
    wcMulti inp.length n inp.flatten tgt.flatten w.flatten
      = (inp.zip (tgt.zip w)).map fun r =>
          xdiv (Rank.wcUpdate r.1 r.2.1 r.2.2).1 (Rank.wcUpdate r.1 r.2.1 r.2.2).2 := by
  unfold wcMulti mulFlat
  have e1 : inp.length = w.length := by omega
  rw [e1, sumLastDim_zipWith _ n w inp e1.symm hw hi, sumLastDim_zipWith _ n w tgt h2.symm hw ht,
    zip3_two _ _ _ inp tgt w h1 h2]
  apply List.map_congr_left
  intro r _
  simp only [Rank.wcUpdate, RankL.qsum_eq_sum, zipWith_eq_map_zip]

theorem wcMultiScalar_eq_map (n : Nat) (inp tgt : Mat) (w : Q) (h1 : inp.length = tgt.length)
    (hi : ∀ r ∈ inp, r.length = n) (ht : ∀ r ∈ tgt, r.length = n) :
    wcMultiScalar inp.length n inp.flatten tgt.flatten w
      = (inp.zip tgt).map fun r =>
          xdiv (Rank.wcUpdateScalar r.1 r.2 w).1 (Rank.wcUpdateScalar r.1 r.2 w).2 := by
  unfold wcMultiScalar
  rw [sumLastDim_rows n inp hi, h1, sumLastDim_rows n tgt ht, zipWith_map_map' ]
  apply List.map_congr_left
  intro r _
  simp only [Rank.wcUpdateScalar, RankL.qsum_eq_sum]
where
  zipWith_map_map' : ∀ {F : Q → Q → XQ} {g h : List Q → Q} {a b : Mat},
      List.zipWith F (a.map g) (b.map h) = (a.zip b).map fun r => F (g r.1) (h r.2) := by
    intro F g h a b
    induction a generalizing b with
    | nil => simp
    | cons x a ih => cases b with
      | nil => simp
      | cons y b => simp [ih]

/-! ### normalized entropy -/

theorem bneMulti_eq_map (ln exp : Q → Q) (fl : Bool) (n : Nat) (xs ts ws : Mat)
    (h1 : xs.length = ts.length) (h2 : ts.length = ws.length)
    (hx : ∀ r ∈ xs, r.length = n) (ht : ∀ r ∈ ts, r.length = n) (hw : ∀ r ∈ ws, r.length = n) :
    bneMulti ln exp fl xs.length n xs.flatten ts.flatten ws.flatten
      = (xs.zip (ts.zip ws)).map fun r =>
          let u := Agg.bneUpdate ln exp fl r.1 r.2.1 (some r.2.2)
          Agg.bneCompute ln u.1 u.2.1 u.2.2 := by
  unfold bneMulti mulFlat
  have ez : xs.flatten.zip ts.flatten = (List.zipWith List.zip xs ts).flatten := by
    have := zipWith_flatten Prod.mk xs ts h1 (fun p hp => by
      rw [hx p.1 (List.of_mem_zip hp).1, ht p.2 (List.of_mem_zip hp).2])
    simpa [List.zip] using this
  have hz : ∀ r ∈ List.zipWith List.zip xs ts, r.length = n := by
    have := zipWith_rows_length (Prod.mk (α := Q) (β := Q)) n xs ts hx ht
    simpa [List.zip] using this
  have hzl : (List.zipWith List.zip xs ts).length = xs.length := by simp [h1]
  have e3 : xs.length = ws.length := by omega
  simp only []
  rw [ez]
  have e := sumLastDim_zipWith (fun (p : Q × Q) wi =>
    if fl then Agg.bceLogit ln exp p.1 p.2 wi else Agg.bceProb ln p.1 p.2 wi) n _ ws (by rw [hzl]; exact e3) hz hw
  rw [hzl] at e
  rw [e]
  rw [e3, sumLastDim_zipWith _ n ws ts h2.symm hw ht, sumLastDim_rows n ws hw]
  clear ez hz hzl e3 e
  induction xs generalizing ts ws with
  | nil => simp
  | cons x xs ih =>
    cases ts with
    | nil => simp at h1
    | cons t ts =>
      cases ws with
      | nil => simp at h2
      | cons w ws =>
        simp only [List.zipWith_cons_cons, List.zip_cons_cons, List.map_cons, List.cons.injEq]
        refine ⟨?_, ?_⟩
        · simp [Agg.bneUpdate]
        · exact ih ts ws (by simpa using h1) (by simpa using h2)
            (fun r hr => hx r (by simp [hr])) (fun r hr => ht r (by simp [hr])) (fun r hr => hw r (by simp [hr]))

/-! ### the class guard -/

theorem emptyIfAllZero_of_exists (den : List Q) (vals : List XQ) (h : ∃ d ∈ den, d ≠ 0) :
    emptyIfAllZero den vals = vals := by
  unfold emptyIfAllZero
  have : den.all (· == 0) = false := by
    apply Bool.eq_false_iff.mpr
    intro hall
    obtain ⟨d, hd, hne⟩ := h
    have := List.all_eq_true.mp hall d hd
    exact hne (by simpa using this)
  simp [this]

theorem emptyIfAllZero_of_all (den : List Q) (vals : List XQ) (h : ∀ d ∈ den, d = 0) :
    emptyIfAllZero den vals = [] := by
  unfold emptyIfAllZero
  have : den.all (· == 0) = true := by
    apply List.all_eq_true.mpr
    intro d hd
    simpa using h d hd
  simp [this]

/-- the guarded per-task computation: unless every task is degenerate, entry `i` is `val` of slice `i`. -/
theorem guard_per_task {α : Type} (den : α → Q) (val : α → XQ) (l : List α) (h : ∃ s ∈ l, den s ≠ 0) :
    emptyIfAllZero (l.map den) (l.map val) = l.map val := by
  apply emptyIfAllZero_of_exists
  obtain ⟨s, hs, hne⟩ := h
  exact ⟨den s, List.mem_map.mpr ⟨s, hs, rfl⟩, hne⟩

theorem guard_no_update {α : Type} (den : α → Q) (val : α → XQ) (l : List α) (h : ∀ s ∈ l, den s = 0) :
    emptyIfAllZero (l.map den) (l.map val) = [] := by
  apply emptyIfAllZero_of_all
  intro d hd
  obtain ⟨s, hs, rfl⟩ := List.mem_map.mp hd
  exact h s hs

/-! ### `sum(dim=0)` -/

theorem vadd_length (a b : List Q) (h : a.length = b.length) : (vadd a b).length = a.length := by
  simp [vadd, h]

theorem vadd_getD : ∀ (a b : List Q) (j : Nat), a.length = b.length →
    (vadd a b).getD j 0 = a.getD j 0 + b.getD j 0
  | [], [], j, _ => by simp [vadd, Rat.add_zero]
  | x :: a, y :: b, 0, _ => by simp [vadd]
  | x :: a, y :: b, j + 1, h => by
    have := vadd_getD a b j (by simpa using h)
    simpa [vadd] using this
  | [], _ :: _, _, h => by simp at h
  | _ :: _, [], _, h => by simp at h

theorem foldl_vadd_length (d : Nat) : ∀ (rows : Mat) (acc : List Q), acc.length = d →
    (∀ r ∈ rows, r.length = d) → (rows.foldl vadd acc).length = d
  | [], acc, h, _ => h
  | r :: rows, acc, h, hr => by
    have e : r.length = d := hr r (by simp)
    exact foldl_vadd_length d rows (vadd acc r) (by rw [vadd_length _ _ (by omega)]; exact h)
      (fun x hx => hr x (by simp [hx]))

theorem foldl_vadd_getD (d : Nat) : ∀ (rows : Mat) (acc : List Q) (j : Nat), acc.length = d →
    (∀ r ∈ rows, r.length = d) →
    (rows.foldl vadd acc).getD j 0 = acc.getD j 0 + (rows.map (·.getD j 0)).sum
  | [], acc, j, _, _ => by simp [Rat.add_zero]
  | r :: rows, acc, j, h, hr => by
    have e : r.length = d := hr r (by simp)
    have ih := foldl_vadd_getD d rows (vadd acc r) j (by rw [vadd_length _ _ (by omega)]; exact h)
      (fun x hx => hr x (by simp [hx]))
    simp only [List.foldl_cons, ih, vadd_getD acc r j (by omega), List.map_cons, List.sum_cons, Rat.add_assoc]

/-- entry `j` of `x.sum(dim=0)` is the sum of column `j`. -/
theorem sumDim0_getD (d : Nat) (rows : Mat) (h : ∀ r ∈ rows, r.length = d) (j : Nat) :
    (sumDim0 d rows).getD j 0 = (rows.map (·.getD j 0)).sum := by
  unfold sumDim0
  rw [foldl_vadd_getD d rows (vzero d) j (by simp [vzero]) h]
  simp only [vzero, List.getD]
  by_cases hj : j < d <;> simp [hj, Rat.zero_add]

theorem sumDim0_length (d : Nat) (rows : Mat) (h : ∀ r ∈ rows, r.length = d) : (sumDim0 d rows).length = d :=
  foldl_vadd_length d rows (vzero d) (by simp [vzero]) h

theorem eq_map_range_getD (l : List Q) (n : Nat) (h : l.length = n) :
    l = (List.range n).map fun i => l.getD i 0 := by
  apply List.ext_getElem
  · simp [h]
  · intro i h1 h2
    simp [List.getD, List.getElem?_eq_getElem h1]

/-- `x.sum(dim=0)` is the vector of the column sums. -/
theorem sumDim0_eq_cols (d : Nat) (rows : Mat) (h : ∀ r ∈ rows, r.length = d) :
    sumDim0 d rows = (Agg.cols d rows).map List.sum := by
  rw [eq_map_range_getD _ d (sumDim0_length d rows h)]
  simp only [Agg.cols, Agg.col, List.map_map]
  apply List.map_congr_left
  intro j _
  simp only [Function.comp, sumDim0_getD d rows h j]

end TE.MultiL
