/-
  TE.Lemmas.RoundQuot — error of a rounded quotient of two computed sums whose denominator has
  positive terms (weighted mean, MSE, click-through rate, weighted calibration).
-/
import TE.Lemmas.RoundTree
import Mathlib.Tactic.FieldSimp
namespace TE.RoundL
open TE.Round TE.Round.SumTree

/-- **Quotient of two approximate sums.**  `N̂` approximates `N` within `eN·A` (A ≥ |N| is the scale `Σ|terms|`),
    `D̂` approximates `D > 0` within `eD·D` with `eD < 1`, and the division itself is rounded:
    `|q̂ − N/D| ≤ (u + (1+u)·(eN+eD)/(1−eD)) · A/D`. -/
theorem quot_error {u eN eD N Nh D Dh A qh : Q} (hu : 0 ≤ u) (hD : 0 < D) (hNA : qabs N ≤ A)
    (hN : qabs (Nh - N) ≤ eN * A) (hDh : qabs (Dh - D) ≤ eD * D) (heN : 0 ≤ eN) (heD : 0 ≤ eD) (heD1 : eD < 1)
    (hq : qabs (qh - Nh / Dh) ≤ u * qabs (Nh / Dh)) :
    qabs (qh - N / D) ≤ (u + (1 + u) * (eN + eD) / (1 - eD)) * (A / D) := by
  have hA : 0 ≤ A := le_trans (qabs_nonneg N) hNA
  have h1e : 0 < 1 - eD := by linarith
  -- the computed denominator stays positive
  have hlow : D * (1 - eD) ≤ Dh := by
    have := neg_le_qabs (Dh - D); linarith
  have hDhpos : 0 < Dh := lt_of_lt_of_le (mul_pos hD h1e) hlow
  -- |N̂/D̂ − N/D| ≤ B := (eN+eD)/(1−eD)·A/D
  have hr : qabs (Nh / Dh - N / D) ≤ (eN + eD) / (1 - eD) * (A / D) := by
    have e : Nh / Dh - N / D = ((Nh - N) * D - N * (Dh - D)) / (Dh * D) := by
      field_simp; ring
    rw [e, qabs_div_pos _ (mul_pos hDhpos hD)]
    have hnum : qabs ((Nh - N) * D - N * (Dh - D)) ≤ (eN + eD) * A * D := by
      have t := qabs_sub_le ((Nh - N) * D) (N * (Dh - D))
      rw [qabs_mul, qabs_mul, qabs_of_nonneg hD.le] at t
      have a1 : qabs (Nh - N) * D ≤ eN * A * D := mul_le_mul_of_nonneg_right hN hD.le
      have a2 : qabs N * qabs (Dh - D) ≤ A * (eD * D) :=
        mul_le_mul hNA hDh (qabs_nonneg _) hA
      nlinarith
    rw [div_le_iff₀ (mul_pos hDhpos hD)]
    have hge : (eN + eD) * A * D ≤ (eN + eD) / (1 - eD) * (A / D) * (Dh * D) := by
      have e2 : (eN + eD) / (1 - eD) * (A / D) * (Dh * D) = (eN + eD) * A * (Dh / (1 - eD)) := by
        field_simp
      rw [e2]
      have : D ≤ Dh / (1 - eD) := by rw [le_div_iff₀ h1e]; exact hlow
      exact mul_le_mul_of_nonneg_left this (mul_nonneg (add_nonneg heN heD) hA)
    exact le_trans hnum hge
  -- the rounded division
  have hqabs : qabs (N / D) ≤ A / D := by
    rw [qabs_div_pos _ hD]; exact div_le_div_of_nonneg_right hNA hD.le
  have h1 := qabs_le_add_err (Nh / Dh) (N / D)
  have h2 := qabs_tri qh (Nh / Dh) (N / D)
  have h3 : u * qabs (Nh / Dh) ≤ u * (A / D + (eN + eD) / (1 - eD) * (A / D)) :=
    mul_le_mul_of_nonneg_left (by linarith) hu
  have fin : (u + (1 + u) * (eN + eD) / (1 - eD)) * (A / D)
      = u * (A / D + (eN + eD) / (1 - eD) * (A / D)) + (eN + eD) / (1 - eD) * (A / D) := by
    field_simp; ring
  rw [fin]; linarith

/-- the constant of `quot_error` is at most `(5m+1)·u` when numerator and denominator carry at most `m ≥ 1`
    roundings each and `4·m·u ≤ 1`. -/
theorem quot_const_le {u : Q} (hu : 0 ≤ u) (m : Nat) (hm : 1 ≤ m) (h : 4 * (m : Q) * u ≤ 1) {eN eD : Q}
    (heN0 : 0 ≤ eN) (heD0 : 0 ≤ eD) (heN : eN ≤ (1 + u) ^ m - 1) (heD : eD ≤ (1 + u) ^ m - 1) :
    eD < 1 ∧ u + (1 + u) * (eN + eD) / (1 - eD) ≤ (5 * m + 1) * u := by
  have hm1 : (1 : Q) ≤ m := by exact_mod_cast hm
  have hmu : (m : Q) * u ≤ 1 / 4 := by linarith
  have hmu0 : 0 ≤ (m : Q) * u := mul_nonneg (by linarith) hu
  have hu4 : u ≤ 1 / 4 := by nlinarith
  -- e := (1+u)^m − 1 ≤ (4/3)·m·u ≤ 1/3
  have hg := pow_bound_gamma hu m (by linarith)
  have he : (1 + u) ^ m - 1 ≤ 4 / 3 * (m * u) := by
    refine le_trans hg ?_
    rw [div_le_iff₀ (by linarith)]
    nlinarith
  have heD3 : eD ≤ 1 / 3 := by linarith
  refine ⟨by linarith, ?_⟩
  have h1e : 0 < 1 - eD := by linarith
  have hfrac : (1 + u) * (eN + eD) / (1 - eD) ≤ 5 * m * u := by
    rw [div_le_iff₀ h1e]
    -- (1+u)(eN+eD) ≤ (5/4)(8/3)mu = (10/3) m u ≤ 5 m u (1 − eD) since 1 − eD ≥ 2/3
    have hs : eN + eD ≤ 8 / 3 * (m * u) := by linarith
    have hs0 : 0 ≤ eN + eD := add_nonneg heN0 heD0
    have l1 : (1 + u) * (eN + eD) ≤ 5 / 4 * (8 / 3 * (m * u)) :=
      mul_le_mul (by linarith) hs hs0 (by norm_num)
    have l2 : 5 * (m : Q) * u * (2 / 3) ≤ 5 * m * u * (1 - eD) :=
      mul_le_mul_of_nonneg_left (by linarith) (by nlinarith)
    nlinarith
  have : (5 * (m : Q) + 1) * u = u + 5 * m * u := by ring
  rw [this]; linarith

/-- quotient bound in polynomial form: numerator within `((1+u)^a − 1)·A`, denominator (positive) within
    `((1+u)^b − 1)·D`, `a, b ≤ m`, `4·m·u ≤ 1`  ⇒  `|q̂ − N/D| ≤ (5m+1)·u·A/D`. -/
theorem quot_error_poly {u N Nh D Dh A qh : Q} (hu : 0 ≤ u) {a b m : Nat} (ha : a ≤ m) (hb : b ≤ m) (hm : 1 ≤ m)
    (h : 4 * (m : Q) * u ≤ 1) (hD : 0 < D) (hNA : qabs N ≤ A)
    (hN : qabs (Nh - N) ≤ ((1 + u) ^ a - 1) * A) (hDh : qabs (Dh - D) ≤ ((1 + u) ^ b - 1) * D)
    (hq : qabs (qh - Nh / Dh) ≤ u * qabs (Nh / Dh)) :
    qabs (qh - N / D) ≤ (5 * m + 1) * u * (A / D) := by
  have hA : 0 ≤ A := le_trans (qabs_nonneg N) hNA
  obtain ⟨c1, c2⟩ := quot_const_le hu m hm h (ek_nonneg hu a) (ek_nonneg hu b) (ek_mono hu ha) (ek_mono hu hb)
  have := quot_error hu hD hNA hN hDh (ek_nonneg hu a) (ek_nonneg hu b) c1 hq
  exact le_trans this (mul_le_mul_of_nonneg_right c2 (div_nonneg hA hD.le))

end TE.RoundL
