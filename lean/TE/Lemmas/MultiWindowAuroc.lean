/-
  TE.Lemmas.MultiWindowAuroc — WindowedBinaryAUROC with `num_tasks > 1`: under the guards of C13
  (at least two live samples, a non-zero score of the task in every live sample) task `t` of
  the multi-task instance is the single-task instance fed task `t`'s cells.
-/
import TE.Lemmas.WindowAuroc
namespace TE.MultiL
open TE TE.Window TE.Spec.Window TE.WindowL

/-- task `t` of one sample column, as a single-task column. -/
def taskCol (t : Nat) (c : Col) : Col := [c.getD t (0, 0, 0)]

/-- the stream a single-task instance for task `t` is fed. -/
def taskStream (t : Nat) (bs : List (List Col)) : List (List Col) := bs.map fun b => b.map (taskCol t)

theorem taskStream_flatten (t : Nat) (bs : List (List Col)) :
    (taskStream t bs).flatten = bs.flatten.map (taskCol t) := by
  induction bs with
  | nil => rfl
  | cons b bs ih => simp [taskStream, List.flatten_cons] at ih ⊢

theorem sampleWindow_task (t N : Nat) (bs : List (List Col)) :
    sampleWindow N (taskStream t bs) = (sampleWindow N bs).map (taskCol t) := by
  simp only [sampleWindow, lastN, taskStream_flatten, List.length_map, List.map_drop]

theorem row_task (t : Nat) (cols : List Col) : row (cols.map (taskCol t)) 0 = row cols t := by
  simp [row, taskCol, List.map_map, Function.comp]

theorem windowed_auroc_task (T N : Nat) (hN : 1 ≤ N) (hT : T ≠ 1) (t : Nat) (ht : t < T) (bs : List (List Col))
    (hS : 2 ≤ min bs.flatten.length N)
    (hNZ : ∀ c ∈ sampleWindow N bs, (c.getD t (0, 0, 0)).1 ≠ 0) :
    ∃ vs, (SBuf.run T N bs).compute = .ok (.vec vs) ∧ vs.length = T
      ∧ (SBuf.run 1 N (taskStream t bs)).compute = .ok (.scalar (vs.getD t 0)) := by
  have hne : (sampleWindow N bs).isEmpty = false := by
    have : 2 ≤ (sampleWindow N bs).length := by
      simp only [sampleWindow, lastN, List.length_drop]; omega
    cases hw : sampleWindow N bs with
    | nil => simp [hw] at this
    | cons _ _ => rfl
  -- the multi-task instance
  have hz : ∀ c ∈ sampleWindow N bs, colZero c = false := by
    intro c hc
    have h := hNZ c hc
    unfold colZero
    apply Bool.eq_false_iff.mpr
    intro hall
    have hlt : t < c.length := by
      by_cases hl : t < c.length
      · exact hl
      · have : c.getD t (0, 0, 0) = (0, 0, 0) := by
          simp [List.getD, List.getElem?_eq_none (Nat.le_of_not_lt hl)]
        rw [this] at h; exact absurd rfl h
    have := List.all_eq_true.mp hall c[t] (List.getElem_mem hlt)
    have e : c.getD t (0, 0, 0) = c[t] := by simp [List.getD, List.getElem?_eq_getElem hlt]
    rw [e] at h
    exact h (by simpa using this)
  have hm := auroc_compute_eq T N hN bs hS (fun hge => zeroBeyond_false_of_nonzero T N hN bs hge hz)
  -- the single-task instance on task t's cells
  have hS1 : 2 ≤ min (taskStream t bs).flatten.length N := by
    rw [taskStream_flatten, List.length_map]; exact hS
  have hz1 : ∀ c ∈ sampleWindow N (taskStream t bs), colZero c = false := by
    intro c hc
    rw [sampleWindow_task] at hc
    obtain ⟨c', hc', rfl⟩ := List.mem_map.mp hc
    have h := hNZ c' hc'
    simp only [colZero, taskCol, List.all_cons, List.all_nil, Bool.and_true]
    simpa using h
  have hs := auroc_compute_eq 1 N hN (taskStream t bs) hS1
    (fun hge => zeroBeyond_false_of_nonzero 1 N hN (taskStream t bs) hge hz1)
  refine ⟨(List.range T).map fun k => pairAuroc (row (sampleWindow N bs) k), ?_, by simp, ?_⟩
  · rw [hm]
    simp [binaryAuroc, hne, perTask, hT]
  · rw [hs, sampleWindow_task]
    have hne1 : ((sampleWindow N bs).map (taskCol t)).isEmpty = false := by
      cases hw : sampleWindow N bs with
      | nil => simp [hw] at hne
      | cons _ _ => rfl
    simp only [binaryAuroc, hne1, perTask, row_task]
    simp [List.getD, List.getElem?_map, List.getElem?_range ht]

end TE.MultiL
