/-
  TE.Lemmas.FamStatList — `StatCat` for the cache-all / order-carrying families of
  TE/Model/Fams.lean: the accumulator is `listAcc`, the statistic of a batch is the list of
  its samples (or of its per-sample values), and the statistic of a concatenation is the
  concatenation of the statistics.
-/
import TE.Lemmas.FamStat
namespace TE.FamStat
open TE TE.Fams

variable {α β γ : Type}

theorem lenCheck_ok_iff (b : List α × List β) : lenCheck b = .ok () ↔ b.1.length = b.2.length := by
  unfold lenCheck
  by_cases h : b.1.length = b.2.length <;> simp [h]

theorem catPair_lengths (bs : List (List α × List β)) (h : ∀ b ∈ bs, b.1.length = b.2.length) :
    (catPair bs).1.length = (catPair bs).2.length := by
  induction bs with
  | nil => rfl
  | cons b bs ih =>
    rw [catPair_cons]
    simp only [List.length_append]
    rw [h b (List.mem_cons_self ..), ih (fun b' hb' => h b' (List.mem_cons_of_mem _ hb'))]

theorem catPair_zip (bs : List (List α × List β)) (h : ∀ b ∈ bs, b.1.length = b.2.length) :
    (catPair bs).1.zip (catPair bs).2 = (bs.map fun b => b.1.zip b.2).flatten := by
  induction bs with
  | nil => rfl
  | cons b bs ih =>
    rw [catPair_cons]
    simp only [List.map_cons, List.flatten_cons]
    rw [zip_append' _ _ _ _ (h b (List.mem_cons_self ..)),
      ih (fun b' hb' => h b' (List.mem_cons_of_mem _ hb'))]

/-- `(score, target)` samples (binary AUROC / AUPRC / PR curve / recall@precision, AUC points). -/
theorem statCat_pairSamples :
    StatCat (listAcc (α × β)) (pairSamples (α := α) (β := β)) catPair := by
  unfold pairSamples
  apply statCat_cache
  · intro bs _ hv
    rw [lenCheck_ok_iff]
    exact catPair_lengths bs fun b hb => (lenCheck_ok_iff b).mp (hv b hb)
  · intro bs hv
    exact catPair_zip bs fun b hb => (lenCheck_ok_iff b).mp (hv b hb)

/-- `(logit row, label)` / `(score row, target row)` samples (multiclass / multilabel curves,
    MulticlassBinnedAUROC). -/
theorem statCat_rowSamples :
    StatCat (listAcc (List Q × β)) (rowSamples (β := β)) catPair :=
  statCat_pairSamples

/-- `Cat` : the elements themselves. -/
theorem statCat_catSamples : StatCat (listAcc α) (catSamples (α := α)) List.flatten := by
  unfold catSamples
  apply statCat_cache
  · intro _ _ _; rfl
  · intro bs _; simp

theorem catTriple_cons (b : List α × List β × List γ) (bs : List (List α × List β × List γ)) :
    catTriple (b :: bs)
      = (b.1 ++ (catTriple bs).1, b.2.1 ++ (catTriple bs).2.1, b.2.2 ++ (catTriple bs).2.2) := by
  simp [catTriple]

/-- `(score, target, weight)` samples (weighted BinaryAUROC, Wasserstein1D's weighted samples). -/
theorem statCat_tripleSamples :
    StatCat (listAcc (α × β × γ)) (tripleSamples (α := α) (β := β) (γ := γ)) catTriple := by
  unfold tripleSamples
  have hiff : ∀ b : List α × List β × List γ,
      (if b.1.length = b.2.1.length ∧ b.1.length = b.2.2.length then Except.ok () else Except.error Err.value)
        = (Except.ok () : Except Err Unit) ↔ (b.1.length = b.2.1.length ∧ b.1.length = b.2.2.length) := by
    intro b
    by_cases h : b.1.length = b.2.1.length ∧ b.1.length = b.2.2.length <;> simp [h]
  have hlen : ∀ bs : List (List α × List β × List γ),
      (∀ b ∈ bs, b.1.length = b.2.1.length ∧ b.1.length = b.2.2.length) →
      (catTriple bs).1.length = (catTriple bs).2.1.length ∧ (catTriple bs).1.length = (catTriple bs).2.2.length := by
    intro bs h
    induction bs with
    | nil => exact ⟨rfl, rfl⟩
    | cons b bs ih =>
      rw [catTriple_cons]
      obtain ⟨i1, i2⟩ := ih (fun b' hb' => h b' (List.mem_cons_of_mem _ hb'))
      obtain ⟨h1, h2⟩ := h b (List.mem_cons_self ..)
      simp only [List.length_append]
      exact ⟨by rw [h1, i1], by rw [h2, i2]⟩
  apply statCat_cache
  · intro bs _ hv
    rw [hiff]
    exact hlen bs fun b hb => (hiff b).mp (hv b hb)
  · intro bs hv
    have hv' : ∀ b ∈ bs, b.1.length = b.2.1.length ∧ b.1.length = b.2.2.length :=
      fun b hb => (hiff b).mp (hv b hb)
    clear hv
    induction bs with
    | nil => rfl
    | cons b bs ih =>
      have hb := hv' b (List.mem_cons_self ..)
      have hbs : ∀ b' ∈ bs, b'.1.length = b'.2.1.length ∧ b'.1.length = b'.2.2.length :=
        fun b' hb' => hv' b' (List.mem_cons_of_mem _ hb')
      rw [catTriple_cons]
      simp only [List.map_cons, List.flatten_cons]
      rw [zip_append' _ _ _ _ (by rw [← hb.1, hb.2]), zip_append' _ _ _ _ (by rw [List.length_zip, ← hb.1, ← hb.2]; simp),
        ih hbs]

/-! ### per-sample values in update order: HitRate, ReciprocalRank -/

theorem mapM_append_ok {δ ε : Type} (f : δ → Except Err ε) (l₁ l₂ : List δ) (r₁ r₂ : List ε)
    (h₁ : l₁.mapM f = .ok r₁) (h₂ : l₂.mapM f = .ok r₂) : (l₁ ++ l₂).mapM f = .ok (r₁ ++ r₂) := by
  rw [List.mapM_append, h₁, h₂]
  rfl

theorem ranks_append (r₁ r₂ : List (List Q)) (t₁ t₂ : List Int) (a₁ a₂ : List Nat)
    (e : r₁.length = t₁.length)
    (h₁ : Rank.ranks r₁ t₁ = .ok a₁) (h₂ : Rank.ranks r₂ t₂ = .ok a₂) :
    Rank.ranks (r₁ ++ r₂) (t₁ ++ t₂) = .ok (a₁ ++ a₂) := by
  unfold Rank.ranks at *
  rw [zip_append' _ _ _ _ e]
  exact mapM_append_ok _ _ _ _ _ h₁ h₂

private theorem bind_ok'' {δ ε : Type} {x : Except Err δ} {f : δ → Except Err ε} {b : ε}
    (h : (x >>= f) = .ok b) : ∃ a, x = .ok a ∧ f a = .ok b := by
  cases x with
  | error e => simp [bind, Except.bind] at h
  | ok a => exact ⟨a, rfl, by simpa [bind, Except.bind] using h⟩

/-- `HitRate` (any `k`, including the `k ≥ C` shortcut and the rejected `k ≤ 0`). -/
theorem statCat_hitRate (C : Nat) (k : Option Int) :
    StatCat (listAcc Q) (hitRateStat C k) catPair := by
  apply statCat_pair (listAcc Q) (listAcc_laws Q)
  intro x₁ y₁ x₂ y₂ a₁ a₂ h₁ h₂
  simp only [hitRateStat] at h₁ h₂ ⊢
  split at h₁
  · split at h₂
    · rename_i e₁ e₂
      have e : (x₁ ++ x₂).length = (y₁ ++ y₂).length := by simp [e₁, e₂]
      rw [if_pos e]
      unfold Rank.hitRate at *
      cases k with
      | none =>
        simp only [Except.ok.injEq] at h₁ h₂ ⊢
        subst h₁ h₂
        simp [listAcc]
      | some k =>
        simp only at h₁ h₂ ⊢
        by_cases hk : k ≤ 0
        · simp [hk] at h₁
        · simp only [hk, if_false] at h₁ h₂ ⊢
          by_cases hC : (C : Int) ≤ k
          · simp only [hC, if_true, Except.ok.injEq] at h₁ h₂ ⊢
            subst h₁ h₂
            simp [listAcc]
          · simp only [hC, if_false] at h₁ h₂ ⊢
            obtain ⟨r₁, hr₁, e₁'⟩ := bind_ok'' h₁
            obtain ⟨r₂, hr₂, e₂'⟩ := bind_ok'' h₂
            rw [ranks_append _ _ _ _ _ _ e₁ hr₁ hr₂]
            simp only [pure, Except.pure, Except.ok.injEq] at e₁' e₂'
            subst e₁' e₂'
            simp [listAcc, bind, Except.bind, pure, Except.pure]
    · cases h₂
  · cases h₁

/-- `ReciprocalRank` -/
theorem statCat_reciprocalRank (k : Option Int) :
    StatCat (listAcc Q) (reciprocalRankStat k) catPair := by
  apply statCat_pair (listAcc Q) (listAcc_laws Q)
  intro x₁ y₁ x₂ y₂ a₁ a₂ h₁ h₂
  simp only [reciprocalRankStat] at h₁ h₂ ⊢
  split at h₁
  · split at h₂
    · rename_i e₁ e₂
      have e : (x₁ ++ x₂).length = (y₁ ++ y₂).length := by simp [e₁, e₂]
      rw [if_pos e]
      unfold Rank.reciprocalRank at *
      obtain ⟨r₁, hr₁, e₁'⟩ := bind_ok'' h₁
      obtain ⟨r₂, hr₂, e₂'⟩ := bind_ok'' h₂
      rw [ranks_append _ _ _ _ _ _ e₁ hr₁ hr₂]
      simp only [pure, Except.pure, Except.ok.injEq] at e₁' e₂'
      subst e₁' e₂'
      simp [listAcc, bind, Except.bind, pure, Except.pure]
    · cases h₂
  · cases h₁

end TE.FamStat
