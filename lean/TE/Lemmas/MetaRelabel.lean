/-
  TE.Lemmas.MetaRelabel — C17 (d): invariance of the multiclass count metrics under a consistent
  renaming (permutation) of the classes in predictions and labels.

  A. textbook spec (`TE.Spec.Count`): per-class counts / ratios are permuted, `present` is mapped
     up to order, micro / macro / weighted averages are invariant, the confusion matrix is
     conjugated.
  B. transfer to the executable models (`TE.Count`) through the `model = spec` theorems of C04.
  C. predictions given as logits with permuted columns (`permCols`): top-k correctness is
     invariant without any tie hypothesis; first-index arg-max commutes with the permutation only
     for a unique maximum (decided tie witness).
  D. one-vs-rest views used by the per-class curve metrics (AUROC / AUPRC).
  Core Lean only.
-/
import TE.Props.C04
import TE.Lemmas.Curve
namespace TE.MetaL
open TE TE.Count TE.Spec.Count

structure PermOn (C : Nat) (σ τ : Nat → Nat) : Prop where
  map  : ∀ c, c < C → σ c < C
  inv  : ∀ c, c < C → τ c < C
  left : ∀ c, c < C → τ (σ c) = c
  right : ∀ c, c < C → σ (τ c) = c

def relabel (σ : Nat → Nat) (ps : Pairs) : Pairs := ps.map fun p => (σ p.1, σ p.2)
def InRange (C : Nat) (ps : Pairs) : Prop := ∀ p ∈ ps, p.1 < C ∧ p.2 < C

/-- running example: the 3-cycle `0 ↦ 1 ↦ 2 ↦ 0` and its inverse. -/
def cyc3 : Nat → Nat := fun c => (c + 1) % 3
def cyc3inv : Nat → Nat := fun c => (c + 2) % 3

theorem cyc3_perm : PermOn 3 cyc3 cyc3inv := by
  refine ⟨?_, ?_, ?_, ?_⟩ <;> intro c hc <;> simp only [cyc3, cyc3inv] <;> omega

def rlPs : Pairs := [(0, 0), (2, 1), (1, 1), (2, 2)]
def rlPreds : List Nat := [0, 2, 1, 2]
def rlLabs : List Nat := [0, 1, 1, 2]

theorem rlPs_inRange : InRange 3 rlPs := by unfold InRange rlPs; decide
theorem rlPs_zip : rlPreds.zip rlLabs = rlPs := rfl

example : relabel cyc3 rlPs = [(1, 1), (0, 2), (2, 2), (0, 0)] := by decide

variable {C : Nat} {σ τ : Nat → Nat}

theorem PermOn.symm (h : PermOn C σ τ) : PermOn C τ σ := ⟨h.inv, h.map, h.right, h.left⟩

theorem PermOn.inj (h : PermOn C σ τ) {a b : Nat} (ha : a < C) (hb : b < C) (e : σ a = σ b) : a = b := by
  rw [← h.left a ha, ← h.left b hb, e]

theorem PermOn.beq_eq (h : PermOn C σ τ) {a b : Nat} (ha : a < C) (hb : b < C) :
    (σ a == σ b) = (a == b) := by
  rw [Bool.eq_iff_iff, beq_iff_eq, beq_iff_eq]
  exact ⟨h.inj ha hb, fun e => by rw [e]⟩

theorem PermOn.bne_eq (h : PermOn C σ τ) {a b : Nat} (ha : a < C) (hb : b < C) :
    (σ a != σ b) = (a != b) := by
  unfold _root_.bne; rw [h.beq_eq ha hb]

theorem range_map_perm (h : PermOn C σ τ) : ((List.range C).map σ).Perm (List.range C) := by
  rw [List.perm_ext_iff_of_nodup ?_ List.nodup_range]
  · intro a
    simp only [List.mem_map, List.mem_range]
    constructor
    · rintro ⟨c, hc, rfl⟩; exact h.map c hc
    · intro ha; exact ⟨τ a, h.inv a ha, h.right a ha⟩
  · rw [List.Nodup, List.pairwise_map]
    have := List.nodup_range (n := C)
    rw [List.Nodup] at this
    refine List.Pairwise.imp_of_mem ?_ this
    intro a b ha hb hab e
    exact hab (h.inj (List.mem_range.mp ha) (List.mem_range.mp hb) e)

theorem countP_relabel (ps : Pairs) (hr : InRange C ps) (P Q : Nat × Nat → Bool)
    (hPQ : ∀ a b, a < C → b < C → P (σ a, σ b) = Q (a, b)) :
    (relabel σ ps).countP P = ps.countP Q := by
  unfold relabel
  rw [List.countP_map]
  apply List.countP_congr
  intro p hp
  have := hr p hp
  simp only [Function.comp, hPQ p.1 p.2 this.1 this.2]

theorem relabel_length (σ : Nat → Nat) (ps : Pairs) : (relabel σ ps).length = ps.length := by
  simp [relabel]

theorem tp_relabel (h : PermOn C σ τ) (ps : Pairs) (hr : InRange C ps) (c : Nat) (hc : c < C) :
    tp (relabel σ ps) (σ c) = tp ps c := by
  unfold tp
  apply countP_relabel ps hr
  intro a b ha hb
  simp only [h.beq_eq ha hc, h.beq_eq hb hc]

example : tp (relabel cyc3 rlPs) (cyc3 1) = tp rlPs 1 := tp_relabel cyc3_perm rlPs rlPs_inRange 1 (by decide)

theorem fp_relabel (h : PermOn C σ τ) (ps : Pairs) (hr : InRange C ps) (c : Nat) (hc : c < C) :
    fp (relabel σ ps) (σ c) = fp ps c := by
  unfold fp
  apply countP_relabel ps hr
  intro a b ha hb
  simp only [h.beq_eq ha hc, h.bne_eq hb hc]

example : fp (relabel cyc3 rlPs) (cyc3 2) = fp rlPs 2 := fp_relabel cyc3_perm rlPs rlPs_inRange 2 (by decide)
/-- the statement is not trivial: the counts really move with the class. -/
example : fp rlPs 2 = 1 ∧ fp (relabel cyc3 rlPs) 2 = 0 ∧ fp (relabel cyc3 rlPs) (cyc3 2) = 1 := by decide

theorem fn_relabel (h : PermOn C σ τ) (ps : Pairs) (hr : InRange C ps) (c : Nat) (hc : c < C) :
    fn (relabel σ ps) (σ c) = fn ps c := by
  unfold fn
  apply countP_relabel ps hr
  intro a b ha hb
  simp only [h.bne_eq ha hc, h.beq_eq hb hc]

example : fn (relabel cyc3 rlPs) (cyc3 1) = fn rlPs 1 := fn_relabel cyc3_perm rlPs rlPs_inRange 1 (by decide)

theorem support_relabel (h : PermOn C σ τ) (ps : Pairs) (hr : InRange C ps) (c : Nat) (hc : c < C) :
    support (relabel σ ps) (σ c) = support ps c := by
  unfold support
  apply countP_relabel ps hr
  intro a b ha hb
  simp only [h.beq_eq hb hc]

example : support (relabel cyc3 rlPs) (cyc3 1) = support rlPs 1 :=
  support_relabel cyc3_perm rlPs rlPs_inRange 1 (by decide)

theorem predicted_relabel (h : PermOn C σ τ) (ps : Pairs) (hr : InRange C ps) (c : Nat) (hc : c < C) :
    predicted (relabel σ ps) (σ c) = predicted ps c := by
  unfold predicted
  apply countP_relabel ps hr
  intro a b ha hb
  simp only [h.beq_eq ha hc]

example : predicted (relabel cyc3 rlPs) (cyc3 2) = predicted rlPs 2 :=
  predicted_relabel cyc3_perm rlPs rlPs_inRange 2 (by decide)

theorem correct_relabel (h : PermOn C σ τ) (ps : Pairs) (hr : InRange C ps) :
    correct (relabel σ ps) = correct ps := by
  unfold correct
  apply countP_relabel ps hr
  intro a b ha hb
  simp only [h.beq_eq ha hb]

example : correct (relabel cyc3 rlPs) = correct rlPs := correct_relabel cyc3_perm rlPs rlPs_inRange

theorem confusion_relabel (h : PermOn C σ τ) (ps : Pairs) (hr : InRange C ps) (t p : Nat)
    (ht : t < C) (hp : p < C) :
    confusion (relabel σ ps) (σ t) (σ p) = confusion ps t p := by
  unfold confusion
  apply countP_relabel ps hr
  intro a b ha hb
  simp only [h.beq_eq hb ht, h.beq_eq ha hp]

example : confusion (relabel cyc3 rlPs) (cyc3 1) (cyc3 2) = confusion rlPs 1 2 :=
  confusion_relabel cyc3_perm rlPs rlPs_inRange 1 2 (by decide) (by decide)
example : confusion rlPs 1 2 = 1 ∧ confusion (relabel cyc3 rlPs) 1 2 = 0 := by decide

theorem precision_relabel (h : PermOn C σ τ) (ps : Pairs) (hr : InRange C ps) (c : Nat) (hc : c < C) :
    precision (relabel σ ps) (σ c) = precision ps c := by
  simp only [precision, tp_relabel h ps hr c hc, fp_relabel h ps hr c hc]

example : precision (relabel cyc3 rlPs) (cyc3 2) = precision rlPs 2 :=
  precision_relabel cyc3_perm rlPs rlPs_inRange 2 (by decide)

theorem recall_relabel (h : PermOn C σ τ) (ps : Pairs) (hr : InRange C ps) (c : Nat) (hc : c < C) :
    recall (relabel σ ps) (σ c) = recall ps c := by
  simp only [recall, tp_relabel h ps hr c hc, support_relabel h ps hr c hc]

example : recall (relabel cyc3 rlPs) (cyc3 1) = recall rlPs 1 :=
  recall_relabel cyc3_perm rlPs rlPs_inRange 1 (by decide)

theorem f1_relabel (h : PermOn C σ τ) (ps : Pairs) (hr : InRange C ps) (c : Nat) (hc : c < C) :
    f1 (relabel σ ps) (σ c) = f1 ps c := by
  simp only [f1, tp_relabel h ps hr c hc, fp_relabel h ps hr c hc, fn_relabel h ps hr c hc]

example : f1 (relabel cyc3 rlPs) (cyc3 1) = f1 rlPs 1 := f1_relabel cyc3_perm rlPs rlPs_inRange 1 (by decide)

theorem classAccuracy_relabel (h : PermOn C σ τ) (ps : Pairs) (hr : InRange C ps) (c : Nat) (hc : c < C) :
    classAccuracy (relabel σ ps) (σ c) = classAccuracy ps c := by
  simp only [classAccuracy, tp_relabel h ps hr c hc, support_relabel h ps hr c hc]

example : classAccuracy (relabel cyc3 rlPs) (cyc3 1) = classAccuracy rlPs 1 :=
  classAccuracy_relabel cyc3_perm rlPs rlPs_inRange 1 (by decide)

theorem microAccuracy_relabel (h : PermOn C σ τ) (ps : Pairs) (hr : InRange C ps) :
    microAccuracy (relabel σ ps) = microAccuracy ps := by
  simp only [microAccuracy, correct_relabel h ps hr, relabel_length]


example : microAccuracy (relabel cyc3 rlPs) = microAccuracy rlPs :=
  microAccuracy_relabel cyc3_perm rlPs rlPs_inRange

/-! ### per-class vectors are permuted -/

theorem perclass_relabel_gen (h : PermOn C σ τ) {α : Type} (g g' : Nat → α)
    (hg : ∀ c, c < C → g' (σ c) = g c) :
    (List.range C).map g' = (List.range C).map (fun c => g (τ c)) := by
  apply List.map_congr_left
  intro c hc
  have hc := List.mem_range.mp hc
  rw [← hg (τ c) (h.inv c hc), h.right c hc]

theorem precision_perclass_relabel (h : PermOn C σ τ) (ps : Pairs) (hr : InRange C ps) :
    (List.range C).map (precision (relabel σ ps)) = (List.range C).map (fun c => precision ps (τ c)) :=
  perclass_relabel_gen h _ _ (precision_relabel h ps hr)

theorem recall_perclass_relabel (h : PermOn C σ τ) (ps : Pairs) (hr : InRange C ps) :
    (List.range C).map (recall (relabel σ ps)) = (List.range C).map (fun c => recall ps (τ c)) :=
  perclass_relabel_gen h _ _ (recall_relabel h ps hr)

theorem f1_perclass_relabel (h : PermOn C σ τ) (ps : Pairs) (hr : InRange C ps) :
    (List.range C).map (f1 (relabel σ ps)) = (List.range C).map (fun c => f1 ps (τ c)) :=
  perclass_relabel_gen h _ _ (f1_relabel h ps hr)

theorem classAccuracy_perclass_relabel (h : PermOn C σ τ) (ps : Pairs) (hr : InRange C ps) :
    (List.range C).map (classAccuracy (relabel σ ps))
      = (List.range C).map (fun c => classAccuracy ps (τ c)) :=
  perclass_relabel_gen h _ _ (classAccuracy_relabel h ps hr)

example : (List.range 3).map (precision (relabel cyc3 rlPs))
    = (List.range 3).map (fun c => precision rlPs (cyc3inv c)) :=
  precision_perclass_relabel cyc3_perm rlPs rlPs_inRange
example : (List.range 3).map (recall (relabel cyc3 rlPs))
    = (List.range 3).map (fun c => recall rlPs (cyc3inv c)) :=
  recall_perclass_relabel cyc3_perm rlPs rlPs_inRange
example : (List.range 3).map (f1 (relabel cyc3 rlPs)) = (List.range 3).map (fun c => f1 rlPs (cyc3inv c)) :=
  f1_perclass_relabel cyc3_perm rlPs rlPs_inRange

/-! ### averages -/

theorem filter_range_relabel_perm (h : PermOn C σ τ) (P P' : Nat → Bool)
    (hP : ∀ c, c < C → P' (σ c) = P c) :
    ((List.range C).filter P').Perm (((List.range C).filter P).map σ) := by
  have e : ((List.range C).filter P).map σ = ((List.range C).map σ).filter P' := by
    rw [List.filter_map]
    congr 1
    apply List.filter_congr
    intro c hc
    exact (hP c (List.mem_range.mp hc)).symm
  rw [e]
  exact ((range_map_perm h).filter P').symm

theorem present_relabel_perm (h : PermOn C σ τ) (ps : Pairs) (hr : InRange C ps) :
    (present (relabel σ ps) C).Perm ((present ps C).map σ) := by
  unfold present
  apply filter_range_relabel_perm h
  intro c hc
  simp only [support_relabel h ps hr c hc, predicted_relabel h ps hr c hc]

example : (present (relabel cyc3 rlPs) 3).Perm ((present rlPs 3).map cyc3) :=
  present_relabel_perm cyc3_perm rlPs rlPs_inRange
/-- equality up to order only: the two lists differ as lists. -/
example : present (relabel cyc3 rlPs) 3 = [0, 1, 2] ∧ (present rlPs 3).map cyc3 = [1, 2, 0] := by decide

theorem sum_filter_relabel (h : PermOn C σ τ) (P P' : Nat → Bool) (g g' : Nat → Q)
    (hP : ∀ c, c < C → P' (σ c) = P c) (hg : ∀ c, c < C → g' (σ c) = g c) :
    (((List.range C).filter P').map g').sum = (((List.range C).filter P).map g).sum := by
  rw [CurveL.sum_map_perm (filter_range_relabel_perm h P P' hP) g', List.map_map]
  congr 1
  apply List.map_congr_left
  intro c hc
  exact hg c (List.mem_range.mp (List.mem_filter.mp hc).1)

theorem length_filter_relabel (h : PermOn C σ τ) (P P' : Nat → Bool)
    (hP : ∀ c, c < C → P' (σ c) = P c) :
    ((List.range C).filter P').length = ((List.range C).filter P).length := by
  rw [(filter_range_relabel_perm h P P' hP).length_eq, List.length_map]

theorem meanX_filter_relabel (h : PermOn C σ τ) (P P' : Nat → Bool) (g g' : Nat → Q)
    (hP : ∀ c, c < C → P' (σ c) = P c) (hg : ∀ c, c < C → g' (σ c) = g c) :
    meanX (((List.range C).filter P').map g') = meanX (((List.range C).filter P).map g) := by
  unfold meanX
  rw [CountL.qsum_eq_sum, CountL.qsum_eq_sum, sum_filter_relabel h P P' g g' hP hg,
    List.length_map, List.length_map, length_filter_relabel h P P' hP]

theorem present_pred_relabel (h : PermOn C σ τ) (ps : Pairs) (hr : InRange C ps) (c : Nat) (hc : c < C) :
    (support (relabel σ ps) (σ c) != 0 || predicted (relabel σ ps) (σ c) != 0)
      = (support ps c != 0 || predicted ps c != 0) := by
  rw [support_relabel h ps hr c hc, predicted_relabel h ps hr c hc]

theorem precision_macro_relabel (h : PermOn C σ τ) (ps : Pairs) (hr : InRange C ps) :
    meanX ((present (relabel σ ps) C).map (precision (relabel σ ps)))
      = meanX ((present ps C).map (precision ps)) :=
  meanX_filter_relabel h _ _ _ _ (present_pred_relabel h ps hr) (precision_relabel h ps hr)

example : meanX ((present (relabel cyc3 rlPs) 3).map (precision (relabel cyc3 rlPs)))
    = meanX ((present rlPs 3).map (precision rlPs)) := precision_macro_relabel cyc3_perm rlPs rlPs_inRange

theorem recall_macro_relabel (h : PermOn C σ τ) (ps : Pairs) (hr : InRange C ps) :
    meanX ((present (relabel σ ps) C).map (recall (relabel σ ps)))
      = meanX ((present ps C).map (recall ps)) :=
  meanX_filter_relabel h _ _ _ _ (present_pred_relabel h ps hr) (recall_relabel h ps hr)

example : meanX ((present (relabel cyc3 rlPs) 3).map (recall (relabel cyc3 rlPs)))
    = meanX ((present rlPs 3).map (recall rlPs)) := recall_macro_relabel cyc3_perm rlPs rlPs_inRange

theorem f1_macro_relabel (h : PermOn C σ τ) (ps : Pairs) (hr : InRange C ps) :
    meanX ((present (relabel σ ps) C).map (f1 (relabel σ ps)))
      = meanX ((present ps C).map (f1 ps)) :=
  meanX_filter_relabel h _ _ _ _ (present_pred_relabel h ps hr) (f1_relabel h ps hr)

example : meanX ((present (relabel cyc3 rlPs) 3).map (f1 (relabel cyc3 rlPs)))
    = meanX ((present rlPs 3).map (f1 rlPs)) := f1_macro_relabel cyc3_perm rlPs rlPs_inRange

theorem weighted_relabel_gen (h : PermOn C σ τ) (ps : Pairs) (hr : InRange C ps) (g : Pairs → Nat → Q)
    (hg : ∀ c, c < C → g (relabel σ ps) (σ c) = g ps c) :
    ((present (relabel σ ps) C).map fun c =>
        g (relabel σ ps) c * ((support (relabel σ ps) c : Q) / ((relabel σ ps).length : Q))).sum
      = ((present ps C).map fun c => g ps c * ((support ps c : Q) / (ps.length : Q))).sum := by
  apply sum_filter_relabel h _ _ _ _ (present_pred_relabel h ps hr)
  intro c hc
  simp only [hg c hc, support_relabel h ps hr c hc, relabel_length]

theorem precision_weighted_relabel (h : PermOn C σ τ) (ps : Pairs) (hr : InRange C ps) :
    ((present (relabel σ ps) C).map fun c =>
        precision (relabel σ ps) c * ((support (relabel σ ps) c : Q) / ((relabel σ ps).length : Q))).sum
      = ((present ps C).map fun c => precision ps c * ((support ps c : Q) / (ps.length : Q))).sum :=
  weighted_relabel_gen h ps hr precision (precision_relabel h ps hr)

theorem recall_weighted_relabel (h : PermOn C σ τ) (ps : Pairs) (hr : InRange C ps) :
    ((present (relabel σ ps) C).map fun c =>
        recall (relabel σ ps) c * ((support (relabel σ ps) c : Q) / ((relabel σ ps).length : Q))).sum
      = ((present ps C).map fun c => recall ps c * ((support ps c : Q) / (ps.length : Q))).sum :=
  weighted_relabel_gen h ps hr recall (recall_relabel h ps hr)

theorem f1_weighted_relabel (h : PermOn C σ τ) (ps : Pairs) (hr : InRange C ps) :
    ((present (relabel σ ps) C).map fun c =>
        f1 (relabel σ ps) c * ((support (relabel σ ps) c : Q) / ((relabel σ ps).length : Q))).sum
      = ((present ps C).map fun c => f1 ps c * ((support ps c : Q) / (ps.length : Q))).sum :=
  weighted_relabel_gen h ps hr f1 (f1_relabel h ps hr)

example : ((present (relabel cyc3 rlPs) 3).map fun c => precision (relabel cyc3 rlPs) c *
      ((support (relabel cyc3 rlPs) c : Q) / ((relabel cyc3 rlPs).length : Q))).sum
    = ((present rlPs 3).map fun c => precision rlPs c * ((support rlPs c : Q) / (rlPs.length : Q))).sum :=
  precision_weighted_relabel cyc3_perm rlPs rlPs_inRange
example : ((present (relabel cyc3 rlPs) 3).map fun c => recall (relabel cyc3 rlPs) c *
      ((support (relabel cyc3 rlPs) c : Q) / ((relabel cyc3 rlPs).length : Q))).sum
    = ((present rlPs 3).map fun c => recall rlPs c * ((support rlPs c : Q) / (rlPs.length : Q))).sum :=
  recall_weighted_relabel cyc3_perm rlPs rlPs_inRange
example : ((present (relabel cyc3 rlPs) 3).map fun c => f1 (relabel cyc3 rlPs) c *
      ((support (relabel cyc3 rlPs) c : Q) / ((relabel cyc3 rlPs).length : Q))).sum
    = ((present rlPs 3).map fun c => f1 rlPs c * ((support rlPs c : Q) / (rlPs.length : Q))).sum :=
  f1_weighted_relabel cyc3_perm rlPs rlPs_inRange

/-- macro accuracy (the expression of `C04.accuracyCompute_macro_eq`). -/
theorem macroAccuracy_relabel (h : PermOn C σ τ) (ps : Pairs) (hr : InRange C ps) :
    meanX (((List.range C).filter fun c => support (relabel σ ps) c != 0).map fun c =>
        (tp (relabel σ ps) c : Q) / (support (relabel σ ps) c : Q))
      = meanX (((List.range C).filter fun c => support ps c != 0).map fun c =>
        (tp ps c : Q) / (support ps c : Q)) := by
  apply meanX_filter_relabel h
  · intro c hc; simp only [support_relabel h ps hr c hc]
  · intro c hc; simp only [support_relabel h ps hr c hc, tp_relabel h ps hr c hc]


example : meanX (((List.range 3).filter fun c => support (relabel cyc3 rlPs) c != 0).map fun c =>
      (tp (relabel cyc3 rlPs) c : Q) / (support (relabel cyc3 rlPs) c : Q))
    = meanX (((List.range 3).filter fun c => support rlPs c != 0).map fun c =>
      (tp rlPs c : Q) / (support rlPs c : Q)) := macroAccuracy_relabel cyc3_perm rlPs rlPs_inRange

/-! ## B. transfer to the executable models -/

theorem zip_relabel (σ : Nat → Nat) (preds labs : List Nat) :
    (preds.map σ).zip (labs.map σ) = relabel σ (preds.zip labs) := by
  rw [List.zip_map]; rfl

theorem all_lt_map_relabel (h : PermOn C σ τ) (l : List Nat) (hl : l.all (· < C) = true) :
    (l.map σ).all (· < C) = true := by
  rw [List.all_eq_true] at hl ⊢
  intro x hx
  obtain ⟨a, ha, rfl⟩ := List.mem_map.mp hx
  have := hl a ha
  simp only [decide_eq_true_eq] at this ⊢
  exact h.map a this

theorem inRange_zip (preds labs : List Nat) (hp : preds.all (· < C) = true)
    (hl : labs.all (· < C) = true) : InRange C (preds.zip labs) := by
  intro p hp'
  have hm := List.of_mem_zip (a := p.1) (b := p.2) hp'
  have h1 := List.all_eq_true.mp hp p.1 hm.1
  have h2 := List.all_eq_true.mp hl p.2 hm.2
  simp only [decide_eq_true_eq] at h1 h2
  exact ⟨h1, h2⟩

theorem rl_getD_map_range {α : Type} (f : Nat → α) (n i : Nat) (d : α) (hi : i < n) :
    ((List.range n).map f).getD i d = f i := by
  simp [List.getD_eq_getElem?_getD, hi]

/-- generic transfer of a per-class (`average=None`) result. -/
theorem none_transfer_relabel (h : PermOn C σ τ) {S : Type} (upd upd' : Except Err S) (cmp : S → List XQ)
    (g g' : Nat → XQ) (d : XQ)
    (h1 : upd.map cmp = .ok ((List.range C).map g))
    (h2 : upd'.map cmp = .ok ((List.range C).map g'))
    (hg : ∀ c, c < C → g' (σ c) = g c) :
    upd'.map cmp = upd.map (fun s => (List.range C).map fun c => (cmp s).getD (τ c) d) := by
  cases upd with
  | error e => simp [Except.map] at h1
  | ok s =>
    have h1 : cmp s = (List.range C).map g := by
      simp only [Except.map] at h1; injection h1
    rw [h2]
    show _ = Except.ok ((List.range C).map fun c => (cmp s).getD (τ c) d)
    rw [h1]
    congr 1
    apply List.map_congr_left
    intro c hc
    have hc := List.mem_range.mp hc
    rw [rl_getD_map_range g C (τ c) d (h.inv c hc), ← hg (τ c) (h.inv c hc), h.right c hc]


theorem ratio0_micro_relabel (h : PermOn C σ τ) (ps : Pairs) (hr : InRange C ps) :
    ratio0 (correct (relabel σ ps)) (relabel σ ps).length = ratio0 (correct ps) ps.length := by
  rw [correct_relabel h ps hr, relabel_length]

/-- `multiclass_precision` on relabelled class indices: the per-class vector is permuted, the
    macro / weighted / micro averages are unchanged. -/
theorem precision_model_relabel (h : PermOn C σ τ) (preds labs : List Nat)
    (hlen : preds.length = labs.length)
    (hp : preds.all (· < C) = true) (hl : labs.all (· < C) = true) :
    (precisionUpdate (preds.map σ) (labs.map σ) .none C).map (precisionCompute · .none)
        = (precisionUpdate preds labs .none C).map (fun s =>
            (List.range C).map fun c => (precisionCompute s .none).getD (τ c) (.val 0)) ∧
    ∀ avg ∈ [Avg.macro, .weighted, .micro],
      (precisionUpdate (preds.map σ) (labs.map σ) avg C).map (precisionCompute · avg)
        = (precisionUpdate preds labs avg C).map (precisionCompute · avg) := by
  have hr := inRange_zip preds labs hp hl
  obtain ⟨n1, m1, w1, u1⟩ := C04.precision_pipeline preds labs C hlen hp hl
  obtain ⟨n2, m2, w2, u2⟩ := C04.precision_pipeline (preds.map σ) (labs.map σ) C
    (by simp [hlen]) (all_lt_map_relabel h preds hp) (all_lt_map_relabel h labs hl)
  rw [zip_relabel] at n2 m2 w2 u2
  refine ⟨?_, ?_⟩
  · exact none_transfer_relabel h _ _ (precisionCompute · .none) _ _ _ n1 n2
      (fun c hc => by rw [precision_relabel h _ hr c hc])
  · intro avg havg
    simp only [List.mem_cons, List.not_mem_nil, or_false] at havg
    rcases havg with rfl | rfl | rfl
    · rw [m1, m2, precision_macro_relabel h _ hr]
    · rw [w1, w2, precision_weighted_relabel h _ hr]
    · rw [u1, u2, ratio0_micro_relabel h _ hr]

example : rlPreds.length = rlLabs.length ∧ rlPreds.all (· < 3) = true ∧ rlLabs.all (· < 3) = true := by
  decide
example : (precisionUpdate (rlPreds.map cyc3) (rlLabs.map cyc3) .none 3).map (precisionCompute · .none)
    = (precisionUpdate rlPreds rlLabs .none 3).map (fun s =>
        (List.range 3).map fun c => (precisionCompute s .none).getD (cyc3inv c) (.val 0)) :=
  (precision_model_relabel cyc3_perm rlPreds rlLabs (by decide) (by decide) (by decide)).1
example : (precisionUpdate (rlPreds.map cyc3) (rlLabs.map cyc3) .weighted 3).map (precisionCompute · .weighted)
    = (precisionUpdate rlPreds rlLabs .weighted 3).map (precisionCompute · .weighted) :=
  (precision_model_relabel cyc3_perm rlPreds rlLabs (by decide) (by decide) (by decide)).2 _ (by decide)

theorem recall_model_relabel (h : PermOn C σ τ) (preds labs : List Nat)
    (hlen : preds.length = labs.length)
    (hp : preds.all (· < C) = true) (hl : labs.all (· < C) = true) :
    (recallUpdate (preds.map σ) (labs.map σ) .none C).map (recallCompute · .none)
        = (recallUpdate preds labs .none C).map (fun s =>
            (List.range C).map fun c => (recallCompute s .none).getD (τ c) (.val 0)) ∧
    ∀ avg ∈ [Avg.macro, .weighted, .micro],
      (recallUpdate (preds.map σ) (labs.map σ) avg C).map (recallCompute · avg)
        = (recallUpdate preds labs avg C).map (recallCompute · avg) := by
  have hr := inRange_zip preds labs hp hl
  obtain ⟨n1, m1, w1, u1⟩ := C04.recall_pipeline preds labs C hlen hp hl
  obtain ⟨n2, m2, w2, u2⟩ := C04.recall_pipeline (preds.map σ) (labs.map σ) C
    (by simp [hlen]) (all_lt_map_relabel h preds hp) (all_lt_map_relabel h labs hl)
  rw [zip_relabel] at n2 m2 w2 u2
  refine ⟨?_, ?_⟩
  · exact none_transfer_relabel h _ _ (recallCompute · .none) _ _ _ n1 n2
      (fun c hc => by rw [recall_relabel h _ hr c hc])
  · intro avg havg
    simp only [List.mem_cons, List.not_mem_nil, or_false] at havg
    rcases havg with rfl | rfl | rfl
    · rw [m1, m2, recall_macro_relabel h _ hr]
    · rw [w1, w2, recall_weighted_relabel h _ hr]
    · rw [u1, u2, ratio0_micro_relabel h _ hr]

example : (recallUpdate (rlPreds.map cyc3) (rlLabs.map cyc3) .macro 3).map (recallCompute · .macro)
    = (recallUpdate rlPreds rlLabs .macro 3).map (recallCompute · .macro) :=
  (recall_model_relabel cyc3_perm rlPreds rlLabs (by decide) (by decide) (by decide)).2 _ (by decide)

theorem f1_model_relabel (h : PermOn C σ τ) (preds labs : List Nat)
    (hlen : preds.length = labs.length)
    (hp : preds.all (· < C) = true) (hl : labs.all (· < C) = true) :
    (recallUpdate (preds.map σ) (labs.map σ) .none C).map (f1Compute · .none)
        = (recallUpdate preds labs .none C).map (fun s =>
            (List.range C).map fun c => (f1Compute s .none).getD (τ c) (.val 0)) ∧
    ∀ avg ∈ [Avg.macro, .weighted, .micro],
      (recallUpdate (preds.map σ) (labs.map σ) avg C).map (f1Compute · avg)
        = (recallUpdate preds labs avg C).map (f1Compute · avg) := by
  have hr := inRange_zip preds labs hp hl
  obtain ⟨n1, m1, w1, u1⟩ := C04.f1_pipeline preds labs C hlen hp hl
  obtain ⟨n2, m2, w2, u2⟩ := C04.f1_pipeline (preds.map σ) (labs.map σ) C
    (by simp [hlen]) (all_lt_map_relabel h preds hp) (all_lt_map_relabel h labs hl)
  rw [zip_relabel] at n2 m2 w2 u2
  refine ⟨?_, ?_⟩
  · exact none_transfer_relabel h _ _ (f1Compute · .none) _ _ _ n1 n2
      (fun c hc => by rw [f1_relabel h _ hr c hc])
  · intro avg havg
    simp only [List.mem_cons, List.not_mem_nil, or_false] at havg
    rcases havg with rfl | rfl | rfl
    · rw [m1, m2, f1_macro_relabel h _ hr]
    · rw [w1, w2, f1_weighted_relabel h _ hr]
    · rw [u1, u2, correct_relabel h _ hr, relabel_length]

example : (recallUpdate (rlPreds.map cyc3) (rlLabs.map cyc3) .none 3).map (f1Compute · .none)
    = (recallUpdate rlPreds rlLabs .none 3).map (fun s =>
        (List.range 3).map fun c => (f1Compute s .none).getD (cyc3inv c) (.val 0)) :=
  (f1_model_relabel cyc3_perm rlPreds rlLabs (by decide) (by decide) (by decide)).1

/-- the confusion matrix of the relabelled data is the conjugated matrix. -/
theorem confusion_model_relabel (h : PermOn C σ τ) (preds labs : List Nat)
    (hp : preds.all (· < C) = true) (hl : labs.all (· < C) = true) :
    ∃ m m', confusionUpdate preds labs C = .ok m ∧
      confusionUpdate (preds.map σ) (labs.map σ) C = .ok m' ∧
      ∀ t p, t < C → p < C → (m'.getD (σ t) []).getD (σ p) 0 = (m.getD t []).getD p 0 := by
  have hr := inRange_zip preds labs hp hl
  obtain ⟨m, hm, _, em⟩ := C04.confusionUpdate_entry preds labs C hp hl
  obtain ⟨m', hm', _, em'⟩ := C04.confusionUpdate_entry (preds.map σ) (labs.map σ) C
    (all_lt_map_relabel h preds hp) (all_lt_map_relabel h labs hl)
  refine ⟨m, m', hm, hm', ?_⟩
  intro t p ht hp'
  rw [(em t p ht hp').2, (em' (σ t) (σ p) (h.map t ht) (h.map p hp')).2, zip_relabel,
    confusion_relabel h _ hr t p ht hp']

example : ∃ m m', confusionUpdate rlPreds rlLabs 3 = .ok m ∧
    confusionUpdate (rlPreds.map cyc3) (rlLabs.map cyc3) 3 = .ok m' ∧
    ∀ t p, t < 3 → p < 3 → (m'.getD (cyc3 t) []).getD (cyc3 p) 0 = (m.getD t []).getD p 0 :=
  confusion_model_relabel cyc3_perm rlPreds rlLabs (by decide) (by decide)

/-- multiclass accuracy (`k = 1`, predictions as labels): `average=None` is permuted, micro and
    macro are unchanged. -/
theorem accuracy_model_relabel (h : PermOn C σ τ) (preds labs : List Nat)
    (hlen : preds.length = labs.length)
    (hp : preds.all (· < C) = true) (hl : labs.all (· < C) = true) :
    (mcAccFromMask (mcMaskLabel (preds.map σ) (labs.map σ)) (labs.map σ) .none C).map
        (fun r => accuracyCompute r.1 r.2 .none)
      = (mcAccFromMask (mcMaskLabel preds labs) labs .none C).map (fun r =>
          (List.range C).map fun c => (accuracyCompute r.1 r.2 .none).getD (τ c) .nan) ∧
    ∀ avg ∈ [Avg.macro, .micro],
      (mcAccFromMask (mcMaskLabel (preds.map σ) (labs.map σ)) (labs.map σ) avg C).map
          (fun r => accuracyCompute r.1 r.2 avg)
        = (mcAccFromMask (mcMaskLabel preds labs) labs avg C).map
          (fun r => accuracyCompute r.1 r.2 avg) := by
  have hr := inRange_zip preds labs hp hl
  have hlen' : (preds.map σ).length = (labs.map σ).length := by simp [hlen]
  have hl' := all_lt_map_relabel h labs hl
  refine ⟨?_, ?_⟩
  · apply none_transfer_relabel h _ _ (fun r : List Q × List Q => accuracyCompute r.1 r.2 .none)
      (classAccuracy (preds.zip labs)) (classAccuracy (relabel σ (preds.zip labs))) .nan
    · rw [C04.mcAccFromMask_class_eq preds labs .none C hlen hl (by decide)]
      exact congrArg Except.ok (C04.accuracyCompute_none_eq _ C)
    · rw [C04.mcAccFromMask_class_eq _ _ .none C hlen' hl' (by decide), zip_relabel]
      exact congrArg Except.ok (C04.accuracyCompute_none_eq _ C)
    · exact classAccuracy_relabel h _ hr
  · intro avg havg
    simp only [List.mem_cons, List.not_mem_nil, or_false] at havg
    rcases havg with rfl | rfl
    · rw [C04.mcAccFromMask_class_eq preds labs .macro C hlen hl (by decide),
        C04.mcAccFromMask_class_eq _ _ .macro C hlen' hl' (by decide), zip_relabel]
      simp only [Except.map]
      rw [C04.accuracyCompute_macro_eq, C04.accuracyCompute_macro_eq, macroAccuracy_relabel h _ hr]
    · rw [C04.mcAccFromMask_micro_eq, C04.mcAccFromMask_micro_eq, zip_relabel,
        correct_relabel h _ hr, List.length_map]


example : (mcAccFromMask (mcMaskLabel (rlPreds.map cyc3) (rlLabs.map cyc3)) (rlLabs.map cyc3) .macro 3).map
      (fun r => accuracyCompute r.1 r.2 .macro)
    = (mcAccFromMask (mcMaskLabel rlPreds rlLabs) rlLabs .macro 3).map
      (fun r => accuracyCompute r.1 r.2 .macro) :=
  (accuracy_model_relabel cyc3_perm rlPreds rlLabs (by decide) (by decide) (by decide)).2 _ (by decide)

/-! ## C. predictions given as logits: permuted columns -/

/-- permute the columns of one score row: new column `σ c` holds old column `c`. -/
def permCols (_σ τ : Nat → Nat) (C : Nat) (row : List Q) : List Q :=
  (List.range C).map fun j => row.getD (τ j) 0

def rlRow : List Q := [1/2, 3, 2]
def rlRows : List (List Q) := [[1/2, 3, 2], [5, 4, 6]]

example : permCols cyc3 cyc3inv 3 rlRow = [2, 1/2, 3] := by decide +kernel

theorem permCols_length (σ τ : Nat → Nat) (C : Nat) (row : List Q) :
    (permCols σ τ C row).length = C := by simp [permCols]

theorem permCols_getD (σ τ : Nat → Nat) (C : Nat) (row : List Q) (j : Nat) (hj : j < C) :
    (permCols σ τ C row).getD j 0 = row.getD (τ j) 0 :=
  rl_getD_map_range _ C j 0 hj

theorem permCols_getD_map (h : PermOn C σ τ) (row : List Q) (c : Nat) (hc : c < C) :
    (permCols σ τ C row).getD (σ c) 0 = row.getD c 0 := by
  rw [permCols_getD σ τ C row (σ c) (h.map c hc), h.left c hc]

theorem rl_map_getD_range (row : List Q) :
    (List.range row.length).map (fun j => row.getD j 0) = row := by
  apply List.ext_getElem
  · simp
  · intro i h1 h2
    simp [List.getD_eq_getElem?_getD, h2]

theorem countP_permCols (h : PermOn C σ τ) (row : List Q) (hrow : row.length = C) (P : Q → Bool) :
    (permCols σ τ C row).countP P = row.countP P := by
  have e : permCols σ τ C row = ((List.range C).map τ).map (fun j => row.getD j 0) := by
    simp [permCols, List.map_map, Function.comp_def]
  rw [e, List.countP_map, (range_map_perm h.symm).countP_eq, ← List.countP_map, ← hrow,
    rl_map_getD_range]

/-- top-k correctness counts strictly greater scores only: no tie hypothesis is needed. -/
theorem topkCorrect_permCols (h : PermOn C σ τ) (row : List Q) (hrow : row.length = C)
    (lab : Nat) (hl : lab < C) (k : Nat) :
    topkCorrect (permCols σ τ C row) (σ lab) k = topkCorrect row lab k := by
  unfold topkCorrect
  rw [permCols_getD_map h row lab hl, ← List.countP_eq_length_filter,
    ← List.countP_eq_length_filter, countP_permCols h row hrow]

example : topkCorrect (permCols cyc3 cyc3inv 3 rlRow) (cyc3 2) 2 = topkCorrect rlRow 2 2 :=
  topkCorrect_permCols cyc3_perm rlRow (by decide) 2 (by decide) 2
example : topkCorrect rlRow 2 2 = true ∧ topkCorrect rlRow 2 1 = false := by decide +kernel

theorem rankOf_permCols (h : PermOn C σ τ) (row : List Q) (hrow : row.length = C)
    (lab : Nat) (hl : lab < C) :
    rankOf (permCols σ τ C row) (σ lab) = rankOf row lab := by
  unfold rankOf
  rw [permCols_getD_map h row lab hl, countP_permCols h row hrow]

/-- the top-k correctness mask of the code (`k > 1` path) is unchanged. -/
theorem mcMaskTopk_permCols (h : PermOn C σ τ) (rows : List (List Q)) (labs : List Nat) (k : Nat)
    (hrows : ∀ r ∈ rows, r.length = C) (hl : ∀ l ∈ labs, l < C) :
    mcMaskTopk (rows.map (permCols σ τ C)) (labs.map σ) k = mcMaskTopk rows labs k := by
  unfold mcMaskTopk
  rw [List.zip_map, List.map_map]
  apply List.map_congr_left
  intro p hp
  have hm := List.of_mem_zip (a := p.1) (b := p.2) hp
  simp only [Function.comp, Prod.map, rankOf_permCols h p.1 (hrows _ hm.1) p.2 (hl _ hm.2)]

example : mcMaskTopk (rlRows.map (permCols cyc3 cyc3inv 3)) (rlLabs.take 2 |>.map cyc3) 2
    = mcMaskTopk rlRows (rlLabs.take 2) 2 :=
  mcMaskTopk_permCols cyc3_perm rlRows _ 2 (by decide) (by decide)

/-- `torch.argmax` (first maximal index) commutes with the column permutation when the maximum
    is attained once. -/
theorem argmaxFirst_permCols (h : PermOn C σ τ) (row : List Q) (hrow : row.length = C) (hC : 0 < C)
    (huniq : ∀ j, j < C → j ≠ argmaxFirst row → row.getD j 0 < row.getD (argmaxFirst row) 0) :
    argmaxFirst (permCols σ τ C row) = σ (argmaxFirst row) := by
  have hne : row ≠ [] := by intro e; rw [e] at hrow; simp at hrow; omega
  have hne' : permCols σ τ C row ≠ [] := by
    intro e; have := permCols_length σ τ C row; rw [e] at this; simp at this; omega
  obtain ⟨ha, _, _⟩ := C04.argmaxFirst_spec row hne
  obtain ⟨ha', hmax', _⟩ := C04.argmaxFirst_spec _ hne'
  rw [hrow] at ha
  rw [permCols_length] at ha' hmax'
  have h1 := hmax' (σ (argmaxFirst row)) (h.map _ ha)
  rw [permCols_getD_map h row _ ha, permCols_getD σ τ C row _ ha'] at h1
  have h2 : τ (argmaxFirst (permCols σ τ C row)) = argmaxFirst row := by
    apply Decidable.byContradiction
    intro hne2
    have := huniq _ (h.inv _ ha') hne2
    exact absurd h1 (Rat.not_le.mpr this)
  rw [← h2, h.right _ ha']


example : argmaxFirst (permCols cyc3 cyc3inv 3 rlRow) = cyc3 (argmaxFirst rlRow) :=
  argmaxFirst_permCols cyc3_perm rlRow (by decide) (by decide) (by decide +kernel)
example : argmaxFirst rlRow = 1 ∧ argmaxFirst (permCols cyc3 cyc3inv 3 rlRow) = 2 := by decide +kernel

/-- arg-max predictions of a whole batch of logit rows (`k = 1` path), unique maxima. -/
theorem argmax_preds_permCols (h : PermOn C σ τ) (rows : List (List Q)) (hC : 0 < C)
    (hrows : ∀ r ∈ rows, r.length = C)
    (huniq : ∀ r ∈ rows, ∀ j, j < C → j ≠ argmaxFirst r → r.getD j 0 < r.getD (argmaxFirst r) 0) :
    (rows.map (permCols σ τ C)).map argmaxFirst = (rows.map argmaxFirst).map σ := by
  rw [List.map_map, List.map_map]
  apply List.map_congr_left
  intro r hr
  exact argmaxFirst_permCols h r (hrows r hr) hC (huniq r hr)

example : (rlRows.map (permCols cyc3 cyc3inv 3)).map argmaxFirst = (rlRows.map argmaxFirst).map cyc3 :=
  argmax_preds_permCols cyc3_perm rlRows (by decide) (by decide) (by decide +kernel)

/-- swap of two classes. -/
def swap2 : Nat → Nat := fun c => (c + 1) % 2

theorem swap2_perm : PermOn 2 swap2 swap2 := by
  refine ⟨?_, ?_, ?_, ?_⟩ <;> intro c hc <;> simp only [swap2] <;> omega

/-- with a tie, first-index tie-breaking does not commute with the relabelling: row `[1, 1]`
    with label `0` is counted correct (arg-max 0), the relabelled sample (same row after the
    swap, label `1`) is predicted `0 ≠ 1`.  Documented `torch.argmax` behaviour, not a defect. -/
theorem argmaxFirst_permCols_tie_witness :
    PermOn 2 swap2 swap2 ∧ permCols swap2 swap2 2 [1, 1] = [1, 1] ∧
    argmaxFirst [1, 1] = 0 ∧ argmaxFirst (permCols swap2 swap2 2 [1, 1]) = 0 ∧ swap2 0 = 1 ∧
    mcMaskLabel [argmaxFirst [1, 1]] [0] = [1] ∧
    mcMaskLabel [argmaxFirst (permCols swap2 swap2 2 [1, 1])] [swap2 0] = [0] := by
  refine ⟨swap2_perm, ?_, ?_, ?_, ?_, ?_, ?_⟩ <;> decide +kernel

/-! ## D. one-vs-rest curve metrics -/

open TE.Spec.Curve in
theorem ovr_label_relabel (h : PermOn C σ τ) (c l : Nat) (hc : c < C) (hl : l < C) :
    (((σ l : Nat) : Q) == ((σ c : Nat) : Q)) = (((l : Nat) : Q) == ((c : Nat) : Q)) := by
  rw [Bool.eq_iff_iff, beq_iff_eq, beq_iff_eq, Rat.natCast_inj, Rat.natCast_inj]
  exact ⟨h.inj hl hc, fun e => by rw [e]⟩

open TE.Spec.Curve in
theorem ovrSamples_relabel (h : PermOn C σ τ) (c : Nat) (hc : c < C) (col : List Q)
    (labs : List Nat) (hl : ∀ l ∈ labs, l < C) :
    ovrSamples (σ c) col (labs.map fun l => ((σ l : Nat) : Q))
      = ovrSamples c col (labs.map fun l => ((l : Nat) : Q)) := by
  unfold ovrSamples
  rw [List.zip_map_right, List.zip_map_right, List.map_map, List.map_map]
  apply List.map_congr_left
  intro p hp
  have hm := List.of_mem_zip (a := p.1) (b := p.2) hp
  simp only [Function.comp, Prod.map, id, ovr_label_relabel h c p.2 hc (hl _ hm.2)]

open TE.Spec.Curve in
theorem ovrLS_relabel (h : PermOn C σ τ) (c : Nat) (hc : c < C) (col : List Q)
    (labs : List Nat) (hl : ∀ l ∈ labs, l < C) :
    ovrLS (σ c) col (labs.map fun l => ((σ l : Nat) : Q))
      = ovrLS c col (labs.map fun l => ((l : Nat) : Q)) := by
  unfold ovrLS
  rw [List.zip_map_right, List.zip_map_right, List.map_map, List.map_map]
  apply List.map_congr_left
  intro p hp
  have hm := List.of_mem_zip (a := p.1) (b := p.2) hp
  simp only [Function.comp, Prod.map, id, ovr_label_relabel h c p.2 hc (hl _ hm.2)]

open TE.Spec.Curve in
/-- per-class one-vs-rest AUROC / AUPRC of class `σ c` on the relabelled targets equal those of
    class `c` (the score column `col` is the one moved to position `σ c` by `permCols`). -/
theorem ovr_auroc_auprc_relabel (h : PermOn C σ τ) (c : Nat) (hc : c < C) (col : List Q)
    (labs : List Nat) (hl : ∀ l ∈ labs, l < C) :
    auroc (ovrSamples (σ c) col (labs.map fun l => ((σ l : Nat) : Q)))
        = auroc (ovrSamples c col (labs.map fun l => ((l : Nat) : Q))) ∧
    auprc (ovrLS (σ c) col (labs.map fun l => ((σ l : Nat) : Q)))
        = auprc (ovrLS c col (labs.map fun l => ((l : Nat) : Q))) := by
  rw [ovrSamples_relabel h c hc col labs hl, ovrLS_relabel h c hc col labs hl]
  exact ⟨rfl, rfl⟩

/-- the model-side one-vs-rest points (`TE.Curve.ovrPts`, input of `aurocCore`) coincide as well,
    so the executable per-class AUROC of class `σ c` equals that of class `c`. -/
theorem ovrPts_relabel (h : PermOn C σ τ) (c : Nat) (hc : c < C) (col : List Q)
    (labs : List Nat) (hl : ∀ l ∈ labs, l < C) :
    TE.Curve.ovrPts (σ c) col (labs.map fun l => ((σ l : Nat) : Q))
      = TE.Curve.ovrPts c col (labs.map fun l => ((l : Nat) : Q)) := by
  unfold TE.Curve.ovrPts
  rw [List.zip_map_right, List.zip_map_right, List.map_map, List.map_map]
  apply List.map_congr_left
  intro p hp
  have hm := List.of_mem_zip (a := p.1) (b := p.2) hp
  simp only [Function.comp, Prod.map, id, ovr_label_relabel h c p.2 hc (hl _ hm.2)]

theorem aurocCore_ovr_relabel (h : PermOn C σ τ) (c : Nat) (hc : c < C) (col : List Q)
    (labs : List Nat) (hl : ∀ l ∈ labs, l < C) :
    TE.Curve.aurocCore (TE.Curve.ovrPts (σ c) col (labs.map fun l => ((σ l : Nat) : Q)))
      = TE.Curve.aurocCore (TE.Curve.ovrPts c col (labs.map fun l => ((l : Nat) : Q))) := by
  rw [ovrPts_relabel h c hc col labs hl]

/-- the score column of class `σ c` in the column-permuted logits is the old column of `c`. -/
theorem column_permCols (h : PermOn C σ τ) (rows : List (List Q)) (c : Nat) (hc : c < C) :
    (rows.map (permCols σ τ C)).map (fun r => r.getD (σ c) 0) = rows.map (fun r => r.getD c 0) := by
  rw [List.map_map]
  apply List.map_congr_left
  intro r _
  exact permCols_getD_map h r c hc

example : ∀ l ∈ rlLabs, l < 3 := by decide
example : TE.Spec.Curve.ovrSamples (cyc3 1) [1/2, 1/4, 3/4, 1] (rlLabs.map fun l => ((cyc3 l : Nat) : Q))
    = TE.Spec.Curve.ovrSamples 1 [1/2, 1/4, 3/4, 1] (rlLabs.map fun l => ((l : Nat) : Q)) :=
  ovrSamples_relabel cyc3_perm 1 (by decide) _ rlLabs (by decide)
example : TE.Spec.Curve.ovrLS (cyc3 1) [1/2, 1/4, 3/4, 1] (rlLabs.map fun l => ((cyc3 l : Nat) : Q))
    = TE.Spec.Curve.ovrLS 1 [1/2, 1/4, 3/4, 1] (rlLabs.map fun l => ((l : Nat) : Q)) :=
  ovrLS_relabel cyc3_perm 1 (by decide) _ rlLabs (by decide)
/-- both labels occur in the one-vs-rest view of the example (class 1 has positives and negatives). -/
example : (TE.Spec.Curve.ovrLS 1 [1/2, 1/4, 3/4, 1] (rlLabs.map fun l => ((l : Nat) : Q))).map (·.2)
    = [false, true, true, false] := by decide +kernel

end TE.MetaL
