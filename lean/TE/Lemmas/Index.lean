/-
  TE.Lemmas.Index — lemmas behind the index-range part of C14:
  the kernel semantics of TE/Model/Index.lean, a generic "invariant of every history"
  principle for class state machines, and the cursor invariants of the two ring buffers.
-/
import TE.Model.Index
import TE.Model.Window
import TE.Model.ClassSM
namespace TE.IndexL
open TE TE.Index TE.Window

variable {α : Type}

/-- decidable equality of model outcomes (for `decide`d examples and witnesses). -/
instance exceptDecEq {ε β : Type} [DecidableEq ε] [DecidableEq β] : DecidableEq (Except ε β) := fun a b =>
  match a, b with
  | .ok x, .ok y => if h : x = y then isTrue (by rw [h]) else isFalse (by intro e; cases e; exact h rfl)
  | .error x, .error y => if h : x = y then isTrue (by rw [h]) else isFalse (by intro e; cases e; exact h rfl)
  | .ok _, .error _ => isFalse (by intro e; cases e)
  | .error _, .ok _ => isFalse (by intro e; cases e)

/-! ### kernels -/

theorem inRange_iff (n : Nat) (i : Int) : inRange n i = true ↔ 0 ≤ i ∧ i < (n : Int) := by
  simp [inRange]

theorem modifyAt_inRange (b : Behaviour) (buf : List α) (i : Int) (f : α → α)
    (h : 0 ≤ i ∧ i < (buf.length : Int)) : modifyAt b buf i f = .ok (buf.modify i.toNat f) := by
  unfold modifyAt
  rw [if_pos ((inRange_iff _ _).mpr h)]

theorem modifyAt_length (b : Behaviour) (buf l : List α) (i : Int) (f : α → α)
    (h : modifyAt b buf i f = .ok l) : l.length = buf.length := by
  unfold modifyAt at h
  split at h
  · cases h; simp
  · cases b with
    | raises => simp at h
    | wraps =>
      simp only at h
      split at h
      · cases h; simp
      · simp at h
    | drops => simp only [Res.ok.injEq] at h; subst h; rfl
    | unchecked => simp at h

theorem modifyAt_defined (b : Behaviour) (hb : b ≠ .unchecked) (buf : List α) (i : Int) (f : α → α) :
    modifyAt b buf i f ≠ .undefined := by
  unfold modifyAt
  split
  · simp
  · cases b with
    | raises => simp
    | wraps => simp only; split <;> simp
    | drops => simp
    | unchecked => exact absurd rfl hb

theorem modifyAt_raises_ok (buf l : List α) (i : Int) (f : α → α)
    (h : modifyAt .raises buf i f = .ok l) : 0 ≤ i ∧ i < (buf.length : Int) := by
  unfold modifyAt at h
  split at h
  · rename_i hr; exact (inRange_iff _ _).mp hr
  · simp at h

/-- under `SafeIdx` a whole index tensor is either rejected with an exception or handled exactly as
    the caller means — never wrapped, dropped or written outside the buffer. -/
theorem applyAll_safe (b : Behaviour) :
    ∀ (ops : List (Int × (α → α))) (buf : List α),
      SafeIdx b buf.length (ops.map (·.1)) →
      applyAll b buf ops = .raised ∨
        ((∀ i ∈ ops.map (·.1), 0 ≤ i ∧ i < (buf.length : Int)) ∧ applyAll b buf ops = .ok (textbook buf ops))
  | [], buf, _ => by right; simp [applyAll, textbook]
  | (i, f) :: ops, buf, hs => by
    by_cases hi : 0 ≤ i ∧ i < (buf.length : Int)
    · have e := modifyAt_inRange b buf i f hi
      have hlen : (buf.modify i.toNat f).length = buf.length := by simp
      have hs' : SafeIdx b (buf.modify i.toNat f).length (ops.map (·.1)) := by
        rw [hlen]
        rcases hs with hr | ha
        · exact Or.inl hr
        · exact Or.inr fun j hj => ha j (by simp [hj])
      rcases applyAll_safe b ops _ hs' with hr | ⟨ha, hk⟩
      · left; simp [applyAll, e, hr]
      · right
        refine ⟨?_, ?_⟩
        · intro j hj
          simp only [List.map_cons, List.mem_cons] at hj
          rcases hj with rfl | hj
          · exact hi
          · have := ha j hj; rwa [hlen] at this
        · simp [applyAll, e, hk, textbook]
    · left
      rcases hs with hr | ha
      · subst hr
        have : inRange buf.length i = false := by
          cases hx : inRange buf.length i with
          | false => rfl
          | true => exact absurd ((inRange_iff _ _).mp hx) hi
        simp [applyAll, modifyAt, this]
      · exact absurd (ha i (by simp)) hi

/-! ### an invariant of every history (updates, merges, resets) -/

section hist
variable {B S O : Type}

private theorem bind_ok {β γ : Type} {x : Except Err β} {f : β → Except Err γ} {c : γ}
    (h : (x >>= f) = .ok c) : ∃ a, x = .ok a ∧ f a = .ok c := by
  cases x with
  | error e => simp [bind, Except.bind] at h
  | ok a => exact ⟨a, rfl, by simpa [bind, Except.bind] using h⟩

mutual
theorem inv_all (m : Impl B S O) (Inv : S → Prop) (hi : Inv m.init)
    (hu : ∀ s b s', Inv s → m.upd s b = .ok s' → Inv s')
    (hm : ∀ s ss s', Inv s → (∀ t ∈ ss, Inv t) → m.mrg s ss = .ok s' → Inv s') :
    ∀ (h : Hist B) (s : S), eval m h = .ok s → Inv s
  | .fresh, s, he => by
    simp only [eval, Except.ok.injEq] at he; subst he; exact hi
  | .update h b, s, he => by
    simp only [eval] at he
    obtain ⟨s₀, h₀, h₁⟩ := bind_ok he
    exact hu s₀ b s (inv_all m Inv hi hu hm h s₀ h₀) h₁
  | .merge h hs, s, he => by
    simp only [eval] at he
    obtain ⟨s₀, h₀, h₁⟩ := bind_ok he
    obtain ⟨ss, h₂, h₃⟩ := bind_ok h₁
    exact hm s₀ ss s (inv_all m Inv hi hu hm h s₀ h₀) (inv_allList m Inv hi hu hm hs ss h₂) h₃
  | .reset h, s, he => by
    simp only [eval] at he
    obtain ⟨s₀, _, h₁⟩ := bind_ok he
    simp only [Except.ok.injEq] at h₁; subst h₁; exact hi
theorem inv_allList (m : Impl B S O) (Inv : S → Prop) (hi : Inv m.init)
    (hu : ∀ s b s', Inv s → m.upd s b = .ok s' → Inv s')
    (hm : ∀ s ss s', Inv s → (∀ t ∈ ss, Inv t) → m.mrg s ss = .ok s' → Inv s') :
    ∀ (hs : List (Hist B)) (ss : List S), evalList m hs = .ok ss → ∀ t ∈ ss, Inv t
  | [], ss, he => by
    simp only [evalList, Except.ok.injEq] at he; subst he; simp
  | h :: hs, ss, he => by
    simp only [evalList] at he
    obtain ⟨s₀, h₀, h₁⟩ := bind_ok he
    obtain ⟨ss', h₂, h₃⟩ := bind_ok h₁
    simp only [Except.ok.injEq] at h₃; subst h₃
    intro t ht
    rcases List.mem_cons.mp ht with rfl | ht
    · exact inv_all m Inv hi hu hm h _ h₀
    · exact inv_allList m Inv hi hu hm hs ss' h₂ t ht
end

/-! ### update-granular ring buffer: the write position is a slot of the buffer -/

/-- cursor invariant: `next_inserted < max_num_updates ≤ number of buffer columns`. -/
def RingOk (r : Ring α) : Prop := 0 < r.cap ∧ r.next < r.cap ∧ r.cap ≤ r.buf.length

theorem ringOk_init (M : Acc α) (N : Nat) (hN : 1 ≤ N) : RingOk (Ring.init M N) := by
  simp [RingOk, Ring.init]; omega

theorem ringOk_push (M : Acc α) (r : Ring α) (x : α) (h : RingOk r) : RingOk (r.push M x) := by
  obtain ⟨h0, _, h2⟩ := h
  refine ⟨h0, Nat.mod_lt _ h0, ?_⟩
  simpa [Ring.push] using h2

theorem ringOk_merge (M : Acc α) (r : Ring α) (srcs : List (Ring α)) (h : RingOk r) :
    RingOk (r.merge M srcs) := by
  obtain ⟨h0, _, _⟩ := h
  refine ⟨h0, Nat.mod_lt _ h0, ?_⟩
  simp only [Ring.merge, List.length_append, List.length_replicate]
  omega

theorem ring_all_histories (M : Acc α) (N : Nat) (hN : 1 ≤ N) (whole : Bool) (stat : B → Except Err α)
    (render : α → α → Except Err O) (empty : O) (h : Hist B) (r : Ring α)
    (he : eval (ringImpl M N whole stat render empty) h = .ok r) : RingOk r := by
  refine inv_all (ringImpl M N whole stat render empty) RingOk (ringOk_init M N hN) ?_ ?_ h r he
  · intro s b s' hs hu
    simp only [ringImpl] at hu
    obtain ⟨x, _, hx⟩ := bind_ok hu
    simp only [Except.ok.injEq] at hx; subst hx
    exact ringOk_push M s x hs
  · intro s ss s' hs _ hmr
    simp only [ringImpl, Except.ok.injEq] at hmr; subst hmr
    exact ringOk_merge M s ss hs

end hist

/-! ### sample-granular buffer (WindowedBinaryAUROC): the three write branches stay inside -/

theorem place_length (dst src : List α) (i : Nat) (h : i + src.length ≤ dst.length) :
    (place dst i src).length = dst.length := by
  simp only [place, List.length_append, List.length_take, List.length_drop]; omega

theorem aurocWriteRanges_in (cap next n : Nat) (h : next < cap) :
    ∀ r ∈ aurocWriteRanges cap next n, r.1 ≤ r.2 ∧ r.2 ≤ cap := by
  intro r hr
  unfold aurocWriteRanges at hr
  split at hr
  · simp at hr; subst hr; simp
  · simp only at hr
    split at hr
    · simp at hr; subst hr; simp; omega
    · simp at hr
      rcases hr with rfl | rfl <;> simp <;> omega

theorem aurocWrites_ranges {γ : Type} (cap next : Nat) (b : List γ) (h : next < cap) :
    (aurocWrites cap next b).map (fun w => (w.1, w.1 + w.2.length)) = aurocWriteRanges cap next b.length := by
  unfold aurocWrites aurocWriteRanges
  split
  · simp; omega
  · simp only
    split
    · simp
    · simp; omega

/-- cursor invariant of the sample buffer. -/
def SBufOk (s : SBuf) : Prop := 0 < s.cap ∧ s.next < s.cap ∧ s.cap ≤ s.buf.length

theorem sbufOk_init (T N : Nat) (hN : 1 ≤ N) : SBufOk (SBuf.init T N) := by
  simp [SBufOk, SBuf.init]; omega

theorem sbufOk_update (s : SBuf) (b : List Col) (h : SBufOk s) : SBufOk (s.update b) := by
  obtain ⟨h0, h1, h2⟩ := h
  unfold SBuf.update
  simp only
  split
  · refine ⟨h0, h0, ?_⟩
    simp only [List.length_drop]; omega
  · split
    · refine ⟨h0, Nat.mod_lt _ h0, ?_⟩
      simp only
      rw [place_length _ _ _ (by omega)]; exact h2
    · refine ⟨h0, Nat.mod_lt _ h0, ?_⟩
      simp only
      have e1 : (place s.buf s.next (List.take (s.cap - s.next) b)).length = s.buf.length :=
        place_length _ _ _ (by simp only [List.length_take]; omega)
      have e2 : (place (place s.buf s.next (List.take (s.cap - s.next) b)) 0 (List.drop (s.cap - s.next) b)).length
          = s.buf.length := by
        rw [place_length _ _ _ (by rw [e1]; simp only [List.length_drop]; omega), e1]
      rw [e2]; exact h2

theorem sbufOk_merge (s : SBuf) (srcs : List SBuf) (h : SBufOk s) : SBufOk (s.merge srcs) := by
  obtain ⟨h0, _, _⟩ := h
  have hpos : 0 < s.cap + (srcs.map (·.cap)).sum := by omega
  refine ⟨hpos, Nat.mod_lt _ hpos, ?_⟩
  simp only [SBuf.merge, List.length_append, List.length_replicate]
  omega

theorem sbuf_all_histories {B O : Type} (T N : Nat) (hN : 1 ≤ N) (cols : B → Except Err (List Col)) (render : AOut → O)
    (h : Hist B) (s : SBuf) (he : eval (aurocImpl T N cols render) h = .ok s) : SBufOk s := by
  refine inv_all (aurocImpl T N cols render) SBufOk (sbufOk_init T N hN) ?_ ?_ h s he
  · intro s b s' hs hu
    simp only [aurocImpl] at hu
    cases hc : cols b with
    | error e => simp [hc, bind, Except.bind] at hu
    | ok c =>
      simp only [hc, bind, Except.bind, Except.ok.injEq] at hu; subst hu
      exact sbufOk_update s c hs
  · intro s ss s' hs _ hmr
    simp only [aurocImpl, Except.ok.injEq] at hmr; subst hmr
    exact sbufOk_merge s ss hs

/-- `SBuf.update` IS the sequence of slice assignments `aurocWrites`, when the buffer has exactly
    `max_num_samples` columns (always, on the real object: `merge_state` re-allocates it so). -/
theorem update_buf_eq_writes (s : SBuf) (b : List Col) (hlen : s.buf.length = s.cap) :
    (s.update b).buf = (aurocWrites s.cap s.next b).foldl (fun d w => place d w.1 w.2) s.buf := by
  unfold SBuf.update aurocWrites
  simp only
  split
  · simp only [List.foldl_cons, List.foldl_nil, place, List.take_zero, List.nil_append, Nat.zero_add]
    have : (List.drop (b.length - s.cap) b).length = s.buf.length := by
      simp only [List.length_drop]; omega
    rw [this, List.drop_length, List.append_nil]
  · split <;> simp

end TE.IndexL
