/-
  TE.Lemmas.AggSM — a *relational* refinement over operation histories (for classes whose
  state is not a monoid image of the data: Welford/Chan covariance, Throughput's
  max-of-elapsed merge, running min/max range), and the class invariants of C07.
-/
import TE.Lemmas.Agg
import TE.Lemmas.ClassSM
namespace TE.AggL
open TE TE.Agg

variable {B S O : Type}

theorem bind_ok {α β : Type} {x : Except Err α} {f : α → Except Err β} {b : β}
    (h : (x >>= f) = .ok b) : ∃ a, x = .ok a ∧ f a = .ok b := by
  cases x with
  | error e => simp [bind, Except.bind] at h
  | ok a => exact ⟨a, rfl, by simpa [bind, Except.bind] using h⟩

/-- the sources of a merge, each related to its own live data; the index is the concatenation. -/
inductive RelL (R : S → List B → Prop) : List S → List B → Prop
  | nil : RelL R [] []
  | cons {s l ss ls} : R s l → RelL R ss ls → RelL R (s :: ss) (l ++ ls)

mutual
theorem refines_rel (m : Impl B S O) (R : S → List B → Prop)
    (hinit : R m.init [])
    (hupd : ∀ s l b s', R s l → m.upd s b = .ok s' → R s' (l ++ [b]))
    (hmrg : ∀ s l ss ls s', R s l → RelL R ss ls → m.mrg s ss = .ok s' → R s' (l ++ ls)) :
    ∀ (h : Hist B) (s : S), eval m h = .ok s → R s (flatten h)
  | .fresh, s, he => by
    simp only [eval, Except.ok.injEq] at he
    subst he; simpa [flatten] using hinit
  | .update h b, s, he => by
    simp only [eval] at he
    obtain ⟨s₀, h₀, h₁⟩ := bind_ok he
    simpa [flatten] using hupd s₀ _ b s (refines_rel m R hinit hupd hmrg h s₀ h₀) h₁
  | .merge h hs, s, he => by
    simp only [eval] at he
    obtain ⟨s₀, h₀, h₁⟩ := bind_ok he
    obtain ⟨ss, h₂, h₃⟩ := bind_ok h₁
    simpa [flatten] using hmrg s₀ _ ss _ s (refines_rel m R hinit hupd hmrg h s₀ h₀)
      (refines_relList m R hinit hupd hmrg hs ss h₂) h₃
  | .reset h, s, he => by
    simp only [eval] at he
    obtain ⟨s₀, _, h₁⟩ := bind_ok he
    simp only [Except.ok.injEq] at h₁
    subst h₁; simpa [flatten] using hinit
theorem refines_relList (m : Impl B S O) (R : S → List B → Prop)
    (hinit : R m.init [])
    (hupd : ∀ s l b s', R s l → m.upd s b = .ok s' → R s' (l ++ [b]))
    (hmrg : ∀ s l ss ls s', R s l → RelL R ss ls → m.mrg s ss = .ok s' → R s' (l ++ ls)) :
    ∀ (hs : List (Hist B)) (ss : List S), evalList m hs = .ok ss → RelL R ss (flattenList hs)
  | [], ss, he => by
    simp only [evalList, Except.ok.injEq] at he
    subst he; exact .nil
  | h :: hs, ss, he => by
    simp only [evalList] at he
    obtain ⟨s₀, h₀, h₁⟩ := bind_ok he
    obtain ⟨ss', h₂, h₃⟩ := bind_ok h₁
    simp only [Except.ok.injEq] at h₃
    subst h₃
    simpa [flattenList] using RelL.cons (refines_rel m R hinit hupd hmrg h s₀ h₀)
      (refines_relList m R hinit hupd hmrg hs ss' h₂)
end

/-! ### Covariance: every reachable state is the summary of the live observations -/

/-- the state represents the observations `rows` seen so far. -/
def CovRep (d : Nat) (s : CovS) (rows : Mat) : Prop :=
  (rows = [] ∧ s = covInit) ∨ (rows ≠ [] ∧ s = covBatch d rows)

theorem covRep_combine (d : Nat) {s t : CovS} {P R : Mat} (hs : CovRep d s P) (ht : CovRep d t R) :
    CovRep d (covCombine s t) (P ++ R) := by
  rcases ht with ⟨rfl, rfl⟩ | ⟨hR, rfl⟩
  · simpa [covCombine, covInit] using hs
  · rcases hs with ⟨rfl, rfl⟩ | ⟨hP, rfl⟩
    · have : R.length ≠ 0 := by simpa using hR
      right; exact ⟨by simpa using hR, by simp [covCombine, covInit, covBatch, this]⟩
    · right; exact ⟨by simp [hP], chan_combine_batches d P R⟩

theorem covRep_update (d : Nat) {s : CovS} {P : Mat} (rows : Mat) (hs : CovRep d s P) :
    CovRep d (covUpdate d s rows) (P ++ rows) := by
  by_cases h : rows = []
  · subst h; simpa [covUpdate, covCombine, covBatch] using hs
  · exact covRep_combine d hs (Or.inr ⟨h, rfl⟩)

theorem covRep_compute (d : Nat) {s : CovS} {P : Mat} (hs : CovRep d s P) :
    covCompute s = covCompute (covBatch d P) := by
  rcases hs with ⟨rfl, rfl⟩ | ⟨_, rfl⟩
  · simp [covCompute, covInit, covBatch]
  · rfl

theorem cov_fold (d : Nat) (bs : List Mat) (s : CovS) (P : Mat) (hs : CovRep d s P) :
    CovRep d (bs.foldl (covUpdate d) s) (P ++ bs.flatten) := by
  induction bs generalizing s P with
  | nil => simpa using hs
  | cons b bs ih =>
    simp only [List.foldl_cons, List.flatten_cons, ← List.append_assoc]
    exact ih _ _ (covRep_update d b hs)

def rowsOf (l : List (Nat × Mat)) : Mat := (l.map (·.2)).flatten

theorem rowsOf_append (a b : List (Nat × Mat)) : rowsOf (a ++ b) = rowsOf a ++ rowsOf b := by
  simp [rowsOf]

def CovR (d : Nat) (s : CovS) (l : List (Nat × Mat)) : Prop :=
  (∀ b ∈ l, b.1 = d) → CovRep d s (rowsOf l)

theorem cov_mrg_fold (d : Nat) (ss : List CovS) (ls : List (Nat × Mat)) (h : RelL (CovR d) ss ls) :
    ∀ (s : CovS) (l : List (Nat × Mat)), CovR d s l → CovR d (ss.foldl covCombine s) (l ++ ls) := by
  induction h with
  | nil => intro s l hs; simpa using hs
  | cons h₁ _ ih =>
    intro s l hs
    simp only [List.foldl_cons, ← List.append_assoc]
    apply ih
    intro hall
    rw [rowsOf_append]
    exact covRep_combine d (hs fun b hb => hall b (List.mem_append_left _ hb))
      (h₁ fun b hb => hall b (List.mem_append_right _ hb))

theorem cov_refines (d : Nat) : ∀ (h : Hist (Nat × Mat)) (s : CovS), eval covImpl h = .ok s → CovR d s (flatten h) := by
  apply refines_rel covImpl (CovR d)
  · intro _; left; exact ⟨rfl, rfl⟩
  · intro s l b s' hs hu hall
    simp only [covImpl, Except.ok.injEq] at hu
    subst hu
    rw [rowsOf_append]
    have hb : b.1 = d := hall b (by simp)
    have : rowsOf [b] = b.2 := by simp [rowsOf]
    rw [this, hb]
    exact covRep_update d b.2 (hs fun b' hb' => hall b' (List.mem_append_left _ hb'))
  · intro s l ss ls s' hs hss hm
    simp only [covImpl, Except.ok.injEq] at hm
    subst hm
    exact cov_mrg_fold d ss ls hss s l hs


/-! ### Max / Min -/

/-- representation invariant of `Max` / `Min`: `none` before any data, otherwise the extremum of the live data. -/
def ExtR (IsExt : List Q → Q → Prop) (s : Option Q) (l : List (List Q)) : Prop :=
  match s with
  | none => l.flatten = []
  | some m => IsExt l.flatten m

theorem extR_opick (pick : Q → Q → Q) (IsExt : List Q → Q → Prop)
    (happ : ∀ l₁ l₂ a b, IsExt l₁ a → IsExt l₂ b → IsExt (l₁ ++ l₂) (pick a b))
    {s t : Option Q} {l lt : List (List Q)} (hs : ExtR IsExt s l) (ht : ExtR IsExt t lt) :
    ExtR IsExt (opick pick s t) (l ++ lt) := by
  cases s with
  | none =>
    simp only [ExtR] at hs
    cases t with
    | none => simp only [ExtR] at ht; simp [opick, ExtR, hs, ht]
    | some b => simp only [ExtR] at ht; simpa [opick, ExtR, hs] using ht
  | some a =>
    simp only [ExtR] at hs
    cases t with
    | none => simp only [ExtR] at ht; simpa [opick, ExtR, ht] using hs
    | some b => simp only [ExtR] at ht; simpa [opick, ExtR] using happ _ _ a b hs ht

theorem ext_refines (pick : Q → Q → Q) (empty : XQ) (IsExt : List Q → Q → Prop)
    (hred : ∀ xs m, reduceBy pick xs = some m → IsExt xs m)
    (happ : ∀ l₁ l₂ a b, IsExt l₁ a → IsExt l₂ b → IsExt (l₁ ++ l₂) (pick a b)) :
    ∀ (h : Hist (List Q)) (s : Option Q), eval (extImpl pick empty) h = .ok s → ExtR IsExt s (flatten h) := by
  apply refines_rel (extImpl pick empty) (ExtR IsExt)
  · simp [extImpl, additive, ExtR]
  · intro s l b s' hs hu
    simp only [extImpl, additive, extStat] at hu
    cases hb : reduceBy pick b with
    | none => simp [hb, bind, Except.bind] at hu
    | some m =>
      simp only [hb, bind, Except.bind, Except.ok.injEq] at hu
      subst hu
      apply extR_opick pick IsExt happ hs
      simpa [ExtR] using hred b m hb
  · intro s l ss ls s' hs hss hm
    simp only [extImpl, additive, Except.ok.injEq] at hm
    subst hm
    induction hss generalizing s l with
    | nil => simpa using hs
    | cons h₁ _ ih =>
      simp only [List.foldl_cons, ← List.append_assoc]
      exact ih _ _ (extR_opick pick IsExt happ hs h₁)


end TE.AggL
