/-
  TE.Lemmas.BinnedArea — helper lemmas for the floor statements of C06:
  trapezoid (AUROC) and Riemann (AUPRC) sums over the threshold grid expand into
  per-pair / per-positive weights, and those weights only see the scores through
  their floor on the grid.  Core Lean only.
-/
import TE.Lemmas.Binned
namespace TE.BinnedL
open TE TE.Binned TE.Spec.Binned

/-! ### sums -/

theorem sum_mul_sum {α β : Type} (l : List α) (m : List β) (f : α → Q) (g : β → Q) :
    (l.map f).sum * (m.map g).sum = (l.map fun a => (m.map fun b => f a * g b).sum).sum := by
  induction l with
  | nil => simp; grind
  | cons a l ih =>
    simp only [List.map_cons, List.sum_cons, ← ih, sum_map_mul_left]
    grind

theorem sum_map_sub {α : Type} (l : List α) (f g : α → Q) :
    (l.map fun a => f a - g a).sum = (l.map f).sum - (l.map g).sum := by
  induction l with
  | nil => simp; grind
  | cons a l ih => simp only [List.map_cons, List.sum_cons, ih]; grind

theorem sum_map_div {α : Type} (l : List α) (f : α → Q) (c : Q) :
    (l.map fun a => f a / c).sum = (l.map f).sum / c := by
  induction l with
  | nil => simp; grind
  | cons a l ih => simp only [List.map_cons, List.sum_cons, ih]; grind

theorem sum_map_congr {α : Type} (l : List α) (f g : α → Q) (h : ∀ a ∈ l, f a = g a) :
    (l.map f).sum = (l.map g).sum := by
  rw [List.map_congr_left h]

/-! ### AUROC: the trapezoid sum over descending thresholds as a double sum of pair weights -/

/-- weight of the (positive `a`, negative `b`) pair in the trapezoid sum over the descending
    thresholds `d`; `pa`, `pb` are the indicators at the previous point. -/
def pairW (a b : Q) : Q → Q → List Q → Q
  | _, _, [] => 0
  | pa, pb, u :: d =>
    (b2q (decide (u ≤ b)) - pb) * (pa + b2q (decide (u ≤ a))) / 2
      + pairW a b (b2q (decide (u ≤ a))) (b2q (decide (u ≤ b))) d

/-- `aurocFp` is the sum over the samples of `(1 - y)·[u ≤ x]`. -/
theorem aurocFp_eq (u : Q) (xs ys : List Q) (hlen : xs.length = ys.length) :
    aurocFp u xs ys = ((xs.zip ys).map fun p => (1 - p.2) * b2q (decide (u ≤ p.1))).sum := by
  unfold aurocFp aurocTp
  rw [qsum_eq_sum, qsum_eq_sum]
  have : xs = (xs.zip ys).map Prod.fst := (List.map_fst_zip (by omega)).symm
  conv => lhs; lhs; rw [this, List.map_map]
  rw [← sum_map_sub]
  apply sum_map_congr
  intro p _
  simp only [Function.comp]; grind

theorem aurocTp_eq (u : Q) (xs ys : List Q) :
    aurocTp u xs ys = ((xs.zip ys).map fun p => p.2 * b2q (decide (u ≤ p.1))).sum := by
  unfold aurocTp
  rw [qsum_eq_sum]
  apply sum_map_congr
  intro p _; grind

/-- bilinear expansion of the trapezoid sum. -/
theorem trapz_expand (l : List (Q × Q)) (d : List Q) (al be : Q → Q) :
    trapz ((l.map fun p => p.2 * al p.1).sum :: d.map fun u => (l.map fun p => p.2 * b2q (decide (u ≤ p.1))).sum)
          ((l.map fun p => (1 - p.2) * be p.1).sum :: d.map fun u => (l.map fun p => (1 - p.2) * b2q (decide (u ≤ p.1))).sum)
      = (l.map fun p => (l.map fun q => p.2 * (1 - q.2) * pairW p.1 q.1 (al p.1) (be q.1) d).sum).sum := by
  induction d generalizing al be with
  | nil =>
    simp only [List.map_nil, trapz, pairW]
    have : ∀ p : Q × Q, (l.map fun q : Q × Q => p.2 * (1 - q.2) * 0).sum = 0 := by
      intro p
      have e : (fun q : Q × Q => p.2 * (1 - q.2) * 0) = fun _ => (0 : Q) := by funext q; grind
      rw [e, sum_map_zero]
    simp only [this, sum_map_zero]
  | cons u d ih =>
    simp only [List.map_cons, trapz, pairW]
    rw [ih (fun x => b2q (decide (u ≤ x))) (fun x => b2q (decide (u ≤ x)))]
    have e1 : (l.map fun p => (1 - p.2) * b2q (decide (u ≤ p.1))).sum - (l.map fun p => (1 - p.2) * be p.1).sum
        = (l.map fun q => (1 - q.2) * (b2q (decide (u ≤ q.1)) - be q.1)).sum := by
      rw [← sum_map_sub]; apply sum_map_congr; intro q _; grind
    have e2 : (l.map fun p => p.2 * al p.1).sum + (l.map fun p => p.2 * b2q (decide (u ≤ p.1))).sum
        = (l.map fun p => p.2 * (al p.1 + b2q (decide (u ≤ p.1)))).sum := by
      rw [← sum_map_add]; apply sum_map_congr; intro q _; grind
    rw [e1, e2, Rat.mul_comm ((l.map fun q => (1 - q.2) * (b2q (decide (u ≤ q.1)) - be q.1)).sum), sum_mul_sum,
      ← sum_map_div, ← sum_map_add]
    apply sum_map_congr
    intro p _
    rw [← sum_map_div, ← sum_map_add]
    apply sum_map_congr
    intro q _
    grind

end TE.BinnedL
