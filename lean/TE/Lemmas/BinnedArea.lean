/-
  TE.Lemmas.BinnedArea — helper lemmas for the floor statements of C06:
  trapezoid (AUROC) and Riemann (AUPRC) sums over the threshold grid expand into
  per-pair / per-positive weights, and those weights only see the scores through
  their floor on the grid.  Core Lean only.
-/
import TE.Lemmas.Binned
namespace TE.BinnedL
open TE TE.Binned TE.Spec.Binned

/-! ### sums -/

theorem sum_mul_sum {α β : Type} (l : List α) (m : List β) (f : α → Q) (g : β → Q) :
    (l.map f).sum * (m.map g).sum = (l.map fun a => (m.map fun b => f a * g b).sum).sum := by
  induction l with
  | nil => simp
  | cons a l ih =>
    simp only [List.map_cons, List.sum_cons]
    rw [← ih, sum_map_mul_left]; grind

theorem sum_map_sub {α : Type} (l : List α) (f g : α → Q) :
    (l.map fun a => f a - g a).sum = (l.map f).sum - (l.map g).sum := by
  induction l with
  | nil => simp; grind
  | cons a l ih => simp only [List.map_cons, List.sum_cons, ih]; grind

theorem sum_map_div {α : Type} (l : List α) (f : α → Q) (c : Q) :
    (l.map fun a => f a / c).sum = (l.map f).sum / c := by
  induction l with
  | nil => simp; grind
  | cons a l ih => simp only [List.map_cons, List.sum_cons, ih]; grind

theorem sum_map_congr {α : Type} (l : List α) (f g : α → Q) (h : ∀ a ∈ l, f a = g a) :
    (l.map f).sum = (l.map g).sum := by
  rw [List.map_congr_left h]

/-! ### AUROC: the trapezoid sum over descending thresholds as a double sum of pair weights -/

/-- weight of the (positive `a`, negative `b`) pair in the trapezoid sum over the descending
    thresholds `d`; `pa`, `pb` are the indicators at the previous point. -/
def pairW (a b : Q) : Q → Q → List Q → Q
  | _, _, [] => 0
  | pa, pb, u :: d =>
    (b2q (decide (u ≤ b)) - pb) * (pa + b2q (decide (u ≤ a))) / 2
      + pairW a b (b2q (decide (u ≤ a))) (b2q (decide (u ≤ b))) d

/-- `aurocFp` is the sum over the samples of `(1 - y)·[u ≤ x]`. -/
theorem aurocFp_eq (u : Q) (xs ys : List Q) (hlen : xs.length = ys.length) :
    aurocFp u xs ys = ((xs.zip ys).map fun p => (1 - p.2) * b2q (decide (u ≤ p.1))).sum := by
  unfold aurocFp aurocTp
  rw [qsum_eq_sum, qsum_eq_sum]
  have : xs = (xs.zip ys).map Prod.fst := (List.map_fst_zip (by omega)).symm
  conv => lhs; lhs; rw [this, List.map_map]
  rw [← sum_map_sub]
  apply sum_map_congr
  intro p _
  simp only [Function.comp]; grind

theorem aurocTp_eq (u : Q) (xs ys : List Q) :
    aurocTp u xs ys = ((xs.zip ys).map fun p => p.2 * b2q (decide (u ≤ p.1))).sum := by
  unfold aurocTp
  rw [qsum_eq_sum]
  apply sum_map_congr
  intro p _; grind

/-- bilinear expansion of the trapezoid sum. -/
theorem trapz_expand (l : List (Q × Q)) (d : List Q) (al be : Q → Q) :
    trapz ((l.map fun p => p.2 * al p.1).sum :: d.map fun u => (l.map fun p => p.2 * b2q (decide (u ≤ p.1))).sum)
          ((l.map fun p => (1 - p.2) * be p.1).sum :: d.map fun u => (l.map fun p => (1 - p.2) * b2q (decide (u ≤ p.1))).sum)
      = (l.map fun p => (l.map fun q => p.2 * (1 - q.2) * pairW p.1 q.1 (al p.1) (be q.1) d).sum).sum := by
  induction d generalizing al be with
  | nil =>
    simp only [List.map_nil, trapz, pairW]
    have : ∀ p : Q × Q, (l.map fun q : Q × Q => p.2 * (1 - q.2) * 0).sum = 0 := by
      intro p
      have e : (fun q : Q × Q => p.2 * (1 - q.2) * 0) = fun _ => (0 : Q) := by funext q; grind
      rw [e, sum_map_zero]
    simp only [this, sum_map_zero]
  | cons u d ih =>
    simp only [List.map_cons, trapz, pairW]
    rw [ih (fun x => b2q (decide (u ≤ x))) (fun x => b2q (decide (u ≤ x)))]
    have e1 : (l.map fun p => (1 - p.2) * b2q (decide (u ≤ p.1))).sum - (l.map fun p => (1 - p.2) * be p.1).sum
        = (l.map fun q => (1 - q.2) * (b2q (decide (u ≤ q.1)) - be q.1)).sum := by
      rw [← sum_map_sub]; apply sum_map_congr; intro q _; grind
    have e2 : (l.map fun p => p.2 * al p.1).sum + (l.map fun p => p.2 * b2q (decide (u ≤ p.1))).sum
        = (l.map fun p => p.2 * (al p.1 + b2q (decide (u ≤ p.1)))).sum := by
      rw [← sum_map_add]; apply sum_map_congr; intro q _; grind
    rw [e1, e2, Rat.mul_comm ((l.map fun q => (1 - q.2) * (b2q (decide (u ≤ q.1)) - be q.1)).sum), sum_mul_sum,
      ← sum_map_div, ← sum_map_add]
    apply sum_map_congr
    intro p _
    rw [← sum_map_div, ← sum_map_add]
    apply sum_map_congr
    intro q _
    grind

/-- some threshold of `T` lies in `(lo, hi]`. -/
def sepB (T : List Q) (lo hi : Q) : Bool := T.any fun v => decide (lo < v) && decide (v ≤ hi)

theorem pairW_one (a b pa : Q) (d : List Q) (hd : ∀ u ∈ d, u ≤ b) : pairW a b pa 1 d = 0 := by
  induction d generalizing pa with
  | nil => rfl
  | cons u d ih =>
    have hu : u ≤ b := hd u List.mem_cons_self
    simp only [pairW, hu, decide_true, b2q_true]
    rw [ih _ (fun v hv => hd v (List.mem_cons_of_mem _ hv))]
    grind

theorem pairW_closed (a b : Q) (seen d : List Q) (hd : d.Pairwise (· ≥ ·))
    (hsd : ∀ v ∈ seen, ∀ u ∈ d, u ≤ v) (hsb : ∀ v ∈ seen, b < v) :
    pairW a b (b2q (seen.any fun v => decide (v ≤ a))) 0 d
      = if d.any (fun u => decide (u ≤ b)) then
          (b2q (sepB (seen ++ d) b a) + b2q (!sepB (seen ++ d) a b)) / 2
        else 0 := by
  induction d generalizing seen with
  | nil => simp [pairW]
  | cons u d ih =>
    rw [List.pairwise_cons] at hd
    by_cases hub : u ≤ b
    · have hrest : ∀ v ∈ d, v ≤ b := fun v hv => Rat.le_trans (hd.1 v hv) hub
      have h1 : (seen.any fun v => decide (v ≤ a)) = sepB (seen ++ u :: d) b a := by
        rw [Bool.eq_iff_iff]
        simp only [sepB, List.any_eq_true, Bool.and_eq_true, decide_eq_true_eq, List.mem_append, List.mem_cons]
        constructor
        · rintro ⟨v, hv, hva⟩; exact ⟨v, Or.inl hv, hsb v hv, hva⟩
        · rintro ⟨v, hv, hbv, hva⟩
          rcases hv with hv | rfl | hv
          · exact ⟨v, hv, hva⟩
          · exact absurd hub (Rat.not_le.mpr hbv)
          · exact absurd (hrest v hv) (Rat.not_le.mpr hbv)
      have h2 : decide (u ≤ a) = !sepB (seen ++ u :: d) a b := by
        rw [Bool.eq_iff_iff]
        simp only [sepB, Bool.not_eq_true', decide_eq_true_eq, List.any_eq_false, Bool.and_eq_true, List.mem_append,
          List.mem_cons]
        constructor
        · intro hua v hv hh
          rcases hv with hv | rfl | hv
          · exact absurd hh.2 (Rat.not_le.mpr (hsb v hv))
          · exact absurd hua (Rat.not_le.mpr hh.1)
          · exact absurd (Rat.le_trans (hd.1 v hv) hua) (Rat.not_le.mpr hh.1)
        · intro h
          apply Decidable.byContradiction
          intro hna
          exact h u (Or.inr (Or.inl rfl)) ⟨Rat.not_le.mp hna, hub⟩
      simp only [pairW, hub, decide_true, b2q_true, List.any_cons, Bool.true_or, if_true]
      rw [pairW_one _ _ _ _ hrest, h1, h2]
      grind
    · have hbu : b < u := Rat.not_le.mp hub
      have hseen : b2q (decide (u ≤ a)) = b2q ((seen ++ [u]).any fun v => decide (v ≤ a)) := by
        congr 1
        rw [Bool.eq_iff_iff]
        simp only [List.any_eq_true, decide_eq_true_eq, List.mem_append, List.mem_singleton]
        constructor
        · intro h; exact ⟨u, Or.inr rfl, h⟩
        · rintro ⟨v, hv | rfl, hva⟩
          · exact Rat.le_trans (hsd v hv u List.mem_cons_self) hva
          · exact hva
      have ih' := ih (seen ++ [u]) hd.2
        (by
          intro v hv w hw
          rcases List.mem_append.mp hv with hv | hv
          · exact hsd v hv w (List.mem_cons_of_mem _ hw)
          · rw [List.mem_singleton.mp hv]; exact hd.1 w hw)
        (by
          intro v hv
          rcases List.mem_append.mp hv with hv | hv
          · exact hsb v hv
          · rw [List.mem_singleton.mp hv]; exact hbu)
      have hub' : decide (u ≤ b) = false := decide_eq_false hub
      simp only [pairW, hub', b2q_false, List.any_cons, Bool.false_or]
      rw [hseen, ih', List.append_assoc, List.singleton_append]
      grind

theorem sepB_iff_floor (t T : List Q) (hT : ∀ v, v ∈ T ↔ v ∈ t) (a b fa fb : Q)
    (ha : IsFloorOf t a fa) (hb : IsFloorOf t b fb) : sepB T b a = true ↔ fb < fa := by
  simp only [sepB, List.any_eq_true, Bool.and_eq_true, decide_eq_true_eq]
  constructor
  · rintro ⟨v, hv, hbv, hva⟩
    have h1 : v ≤ fa := ha.greatest v ((hT v).mp hv) hva
    have h2 := hb.le
    grind
  · intro h
    refine ⟨fa, (hT fa).mpr ha.mem, ?_, ha.le⟩
    apply Rat.not_le.mp
    intro hle
    exact absurd (hb.greatest fa ha.mem hle) (Rat.not_le.mpr h)

/-- the pair weight only sees the two scores through their floors on the grid. -/
theorem pairW_floor (t : List Q) (hs : t.Pairwise (· ≤ ·)) (a b fa fb : Q)
    (ha : IsFloorOf t a fa) (hb : IsFloorOf t b fb) :
    pairW a b 0 0 t.reverse = pairScore fa fb := by
  have hd : t.reverse.Pairwise (· ≥ ·) := List.pairwise_reverse.mpr hs
  have h := pairW_closed a b [] t.reverse hd (by simp) (by simp)
  have hany : (t.reverse.any fun u => decide (u ≤ b)) = true := by
    simp only [List.any_eq_true, decide_eq_true_eq, List.mem_reverse]
    exact ⟨fb, hb.mem, hb.le⟩
  simp only [List.any_nil, b2q_false, hany, if_true, List.nil_append] at h
  rw [h]
  have hT : ∀ v, v ∈ t.reverse ↔ v ∈ t := fun v => List.mem_reverse
  have e1 := sepB_iff_floor t t.reverse hT a b fa fb ha hb
  have e2 := sepB_iff_floor t t.reverse hT b a fb fa hb ha
  unfold pairScore
  by_cases h1 : fb < fa
  · have h2 : ¬ fa < fb := by grind
    have s1 : sepB t.reverse b a = true := e1.mpr h1
    have s2 : sepB t.reverse a b = false := by
      cases hh : sepB t.reverse a b
      · rfl
      · exact absurd (e2.mp hh) h2
    simp [s1, s2, h1, b2q]; grind
  · have s1 : sepB t.reverse b a = false := by
      cases hh : sepB t.reverse b a
      · rfl
      · exact absurd (e1.mp hh) h1
    by_cases h2 : fa < fb
    · have s2 : sepB t.reverse a b = true := e2.mpr h2
      have h3 : ¬ fa = fb := by grind
      simp [s1, s2, h3, b2q]; grind
    · have s2 : sepB t.reverse a b = false := by
        cases hh : sepB t.reverse a b
        · rfl
        · exact absurd (e2.mp hh) h2
      have h3 : fa = fb := by grind
      simp [s1, s2, h3, b2q]; grind

theorem zip_map_pair {α β γ : Type} (l : List α) (f : α → β) (g : α → γ) :
    (l.map f).zip (l.map g) = l.map fun a => (f a, g a) := by
  induction l with
  | nil => rfl
  | cons a l ih => simp [ih]

theorem trapz_auroc (t xs ys : List Q) (hlen : xs.length = ys.length) :
    trapz (0 :: (t.map fun u => aurocTp u xs ys).reverse) (0 :: (t.map fun u => aurocFp u xs ys).reverse)
      = ((xs.zip ys).map fun p => ((xs.zip ys).map fun q => p.2 * (1 - q.2) * pairW p.1 q.1 0 0 t.reverse).sum).sum := by
  have h := trapz_expand (xs.zip ys) t.reverse (fun _ => 0) (fun _ => 0)
  have z1 : ((xs.zip ys).map fun p : Q × Q => p.2 * (fun _ : Q => (0 : Q)) p.1).sum = 0 := by
    have e : (fun p : Q × Q => p.2 * (fun _ : Q => (0 : Q)) p.1) = fun _ => (0 : Q) := by funext p; grind
    rw [e, sum_map_zero]
  have z2 : ((xs.zip ys).map fun p : Q × Q => (1 - p.2) * (fun _ : Q => (0 : Q)) p.1).sum = 0 := by
    have e : (fun p : Q × Q => (1 - p.2) * (fun _ : Q => (0 : Q)) p.1) = fun _ => (0 : Q) := by funext p; grind
    rw [e, sum_map_zero]
  rw [z1, z2] at h
  rw [← List.map_reverse, ← List.map_reverse]
  simp only [aurocTp_eq, aurocFp_eq _ _ _ hlen]
  exact h

/-! ### weighted sums over 0/1-labelled samples = sums over positives / negatives -/

theorem sum_pos (s : Samples) (g : Q → Q) (h01 : ∀ p ∈ s, p.2 ≤ 1) :
    (s.map fun p => ((p.2 : Nat) : Q) * g p.1).sum = ((positives s).map g).sum := by
  unfold positives
  induction s with
  | nil => rfl
  | cons p s ih =>
    have hp : p.2 ≤ 1 := h01 p List.mem_cons_self
    have ih := ih (fun q hq => h01 q (List.mem_cons_of_mem _ hq))
    simp only [List.map_cons, List.sum_cons, ih, List.filter_cons]
    rcases (show p.2 = 0 ∨ p.2 = 1 by omega) with h | h
    · simp [h]; grind
    · simp [h]

theorem sum_neg (s : Samples) (g : Q → Q) (h01 : ∀ p ∈ s, p.2 ≤ 1) :
    (s.map fun p => (1 - ((p.2 : Nat) : Q)) * g p.1).sum = ((negatives s).map g).sum := by
  unfold negatives
  induction s with
  | nil => rfl
  | cons p s ih =>
    have hp : p.2 ≤ 1 := h01 p List.mem_cons_self
    have ih := ih (fun q hq => h01 q (List.mem_cons_of_mem _ hq))
    simp only [List.map_cons, List.sum_cons, ih, List.filter_cons]
    rcases (show p.2 = 0 ∨ p.2 = 1 by omega) with h | h
    · simp [h]; grind
    · simp [h]; grind

theorem positives_map (s : Samples) (f : Q → Q) :
    positives (s.map fun p => (f p.1, p.2)) = (positives s).map f := by
  unfold positives
  induction s with
  | nil => rfl
  | cons p s ih => by_cases h : p.2 = 1 <;> simp [h, ih]

theorem negatives_map (s : Samples) (f : Q → Q) :
    negatives (s.map fun p => (f p.1, p.2)) = (negatives s).map f := by
  unfold negatives
  induction s with
  | nil => rfl
  | cons p s ih => by_cases h : p.2 = 0 <;> simp [h, ih]

theorem sum_const_one {α : Type} (l : List α) : (l.map fun _ => (1 : Q)).sum = (l.length : Q) := by
  induction l with
  | nil => rfl
  | cons a l ih => simp only [List.map_cons, List.sum_cons, ih, List.length_cons, Rat.natCast_add]; grind

theorem head_le_of_floor (t0 : Q) (t' : List Q) (hs : (t0 :: t').Pairwise (· ≤ ·)) (x v : Q)
    (h : IsFloorOf (t0 :: t') x v) : t0 ≤ x := by
  rw [List.pairwise_cons] at hs
  rcases List.mem_cons.mp h.mem with rfl | hv
  · exact h.le
  · exact Rat.le_trans (hs.1 v hv) h.le

theorem getLast_cum (t0 : Q) (t' : List Q) (g : Q → Q) (h : (0 :: ((t0 :: t').map g).reverse) ≠ []) :
    (0 :: ((t0 :: t').map g).reverse).getLast h = g t0 := by
  simp [List.getLast_cons]

/-- the binned AUROC of one task on 0/1 labels with every score at or above the first threshold:
    pair sum of the floored scores over `P·N`, `1/2` when `P·N = 0`. -/
theorem binnedAurocRow_floor (t : List Q) (s : Samples) (f : Q → Q)
    (hs : t.Pairwise (· ≤ ·)) (hne : t ≠ []) (h01 : ∀ p ∈ s, p.2 ≤ 1)
    (hf : ∀ p ∈ s, IsFloorOf t p.1 (f p.1)) :
    binnedAurocRow t (s.map (·.1)) (s.map fun p => ((p.2 : Nat) : Q))
      = aurocSpec (s.map fun p => (f p.1, p.2)) := by
  obtain ⟨t0, t', rfl⟩ : ∃ t0 t', t = t0 :: t' := by
    cases t with
    | nil => exact absurd rfl hne
    | cons a b => exact ⟨a, b, rfl⟩
  have hlen : (s.map (·.1)).length = (s.map fun p => ((p.2 : Nat) : Q)).length := by simp
  have hzip : (s.map (·.1)).zip (s.map fun p => ((p.2 : Nat) : Q)) = s.map fun p => (p.1, ((p.2 : Nat) : Q)) :=
    zip_map_pair s _ _
  have hlow : ∀ p ∈ s, t0 ≤ p.1 := fun p hp => head_le_of_floor t0 t' hs p.1 (f p.1) (hf p hp)
  -- the two factors
  have hP : aurocTp t0 (s.map (·.1)) (s.map fun p => ((p.2 : Nat) : Q)) = ((positives s).length : Q) := by
    rw [aurocTp_eq, hzip, List.map_map, ← sum_const_one, ← sum_pos s (fun _ => 1) h01]
    apply sum_map_congr
    intro p hp
    simp [Function.comp, hlow p hp, b2q]
  have hN : aurocFp t0 (s.map (·.1)) (s.map fun p => ((p.2 : Nat) : Q)) = ((negatives s).length : Q) := by
    rw [aurocFp_eq _ _ _ hlen, hzip, List.map_map, ← sum_const_one, ← sum_neg s (fun _ => 1) h01]
    apply sum_map_congr
    intro p hp
    simp [Function.comp, hlow p hp, b2q]
  -- the trapezoid sum
  have hT : trapz (0 :: ((t0 :: t').map fun u => aurocTp u (s.map (·.1)) (s.map fun p => ((p.2 : Nat) : Q))).reverse)
        (0 :: ((t0 :: t').map fun u => aurocFp u (s.map (·.1)) (s.map fun p => ((p.2 : Nat) : Q))).reverse)
      = pairSum (s.map fun p => (f p.1, p.2)) := by
    rw [trapz_auroc _ _ _ hlen, hzip, List.map_map]
    unfold pairSum
    rw [positives_map, negatives_map, List.map_map, ← sum_pos s _ h01]
    apply sum_map_congr
    intro p hp
    simp only [Function.comp]
    rw [List.map_map, List.map_map, ← sum_neg s _ h01, ← sum_map_mul_left]
    apply sum_map_congr
    intro q hq
    simp only [Function.comp]
    rw [pairW_floor (t0 :: t') hs p.1 q.1 (f p.1) (f q.1) (hf p hp) (hf q hq)]
    grind
  unfold binnedAurocRow aurocSpec
  simp only [getLast_cum, hP, hN, hT, positives_map, negatives_map, List.length_map]

/-! ### AUPRC: the Riemann sum over ascending thresholds as a sum of per-positive weights -/

theorem sum_map_mul_right {α : Type} (l : List α) (c : Q) (f : α → Q) :
    (l.map fun a => f a * c).sum = (l.map f).sum * c := by
  induction l with
  | nil => simp
  | cons a l ih => simp only [List.map_cons, List.sum_cons, ih]; grind

/-- weight of a positive scoring `a` in the Riemann sum over the ascending thresholds, `g` = precision. -/
def riemW (g : Q → Q) (a : Q) : List Q → Q
  | [] => 0
  | [u] => b2q (decide (u ≤ a)) * g u
  | u :: v :: r => (b2q (decide (u ≤ a)) - b2q (decide (v ≤ a))) * g u + riemW g a (v :: r)

theorem riemW_zero (g : Q → Q) (a : Q) (t : List Q) (h : ∀ u ∈ t, a < u) : riemW g a t = 0 := by
  induction t with
  | nil => rfl
  | cons u t ih =>
    have hu : ¬ u ≤ a := Rat.not_le.mpr (h u List.mem_cons_self)
    have ih := ih (fun v hv => h v (List.mem_cons_of_mem _ hv))
    cases t with
    | nil => simp [riemW, hu, b2q]
    | cons v r =>
      have hv : ¬ v ≤ a := Rat.not_le.mpr (h v (List.mem_cons_of_mem _ List.mem_cons_self))
      simp only [riemW, hu, hv, decide_false, b2q_false, ih]; grind

/-- the weight only sees the score through its floor on the grid. -/
theorem riemW_floor (g : Q → Q) (a fa : Q) (t : List Q) (hs : t.Pairwise (· ≤ ·)) (h : IsFloorOf t a fa) :
    riemW g a t = g fa := by
  induction t with
  | nil => exact absurd h.mem (by simp)
  | cons u t ih =>
    rw [List.pairwise_cons] at hs
    cases t with
    | nil =>
      have : fa = u := by simpa using h.mem
      subst this
      simp [riemW, h.le, b2q]
    | cons v r =>
      by_cases hv : v ≤ a
      · have huv : u ≤ v := hs.1 v List.mem_cons_self
        have hu : u ≤ a := Rat.le_trans huv hv
        have hfl : IsFloorOf (v :: r) a fa := by
          refine ⟨?_, h.le, fun w hw hwa => h.greatest w (List.mem_cons_of_mem _ hw) hwa⟩
          rcases List.mem_cons.mp h.mem with rfl | hm
          · have : v ≤ fa := h.greatest v (List.mem_cons_of_mem _ List.mem_cons_self) hv
            have : fa = v := by grind
            rw [this]; exact List.mem_cons_self
          · exact hm
        simp only [riemW, hu, hv, decide_true, b2q_true, ih hs.2 hfl]; grind
      · have hav : a < v := Rat.not_le.mp hv
        have hrest : ∀ w ∈ v :: r, a < w := by
          intro w hw
          rcases List.mem_cons.mp hw with rfl | hw
          · exact hav
          · have h2 := List.pairwise_cons.mp hs.2
            have := h2.1 w hw
            grind
        have hfa : fa = u := by
          rcases List.mem_cons.mp h.mem with rfl | hm
          · rfl
          · exact absurd h.le (Rat.not_le.mpr (hrest fa hm))
        subst hfa
        simp only [riemW, h.le, hv, decide_true, decide_false, b2q_true, b2q_false, riemW_zero g a _ hrest]; grind

/-- expansion of `-riemannSum(recall ++ [0], precision ++ [1])` with `recall u = (Σ y·[u ≤ x]) / P`. -/
theorem riemann_expand (l : List (Q × Q)) (P : Q) (g : Q → Q) (t : List Q) :
    - riemannSum (t.map (fun u => (l.map fun p => p.2 * b2q (decide (u ≤ p.1))).sum / P) ++ [0]) (t.map g ++ [1])
      = (l.map fun p => p.2 * riemW g p.1 t).sum / P := by
  induction t with
  | nil =>
    simp only [List.map_nil, List.nil_append, riemannSum, riemW]
    have e : (fun p : Q × Q => p.2 * (0 : Q)) = fun _ => (0 : Q) := by funext p; grind
    rw [e, sum_map_zero]; grind
  | cons u t ih =>
    cases t with
    | nil =>
      simp only [List.map_cons, List.map_nil, List.cons_append, List.nil_append, riemannSum, riemW]
      have e : (l.map fun p : Q × Q => p.2 * (b2q (decide (u ≤ p.1)) * g u)).sum
          = (l.map fun p : Q × Q => p.2 * b2q (decide (u ≤ p.1))).sum * g u := by
        rw [← sum_map_mul_right]; apply sum_map_congr; intro p _; grind
      rw [e]; grind
    | cons v r =>
      simp only [List.map_cons, List.cons_append, riemannSum, riemW] at ih ⊢
      have e : (l.map fun p : Q × Q => p.2 * ((b2q (decide (u ≤ p.1)) - b2q (decide (v ≤ p.1))) * g u + riemW g p.1 (v :: r))).sum
          = ((l.map fun p : Q × Q => p.2 * b2q (decide (u ≤ p.1))).sum
              - (l.map fun p : Q × Q => p.2 * b2q (decide (v ≤ p.1))).sum) * g u
            + (l.map fun p : Q × Q => p.2 * riemW g p.1 (v :: r)).sum := by
        rw [← sum_map_sub, ← sum_map_mul_right, ← sum_map_add]
        apply sum_map_congr; intro p _; grind
      rw [e]
      grind

/-! ### binned AUPRC of one curve -/

theorem natCast_add_eq_zero (a b : Nat) (h : ((a : Nat) : Q) + ((b : Nat) : Q) = 0) : a = 0 ∧ b = 0 := by
  have : ((a + b : Nat) : Q) = ((0 : Nat) : Q) := by rw [Rat.natCast_add]; simpa using h
  have := Rat.natCast_inj.mp this
  omega

theorem natCast_ne_zero (a : Nat) (h : 1 ≤ a) : ((a : Nat) : Q) ≠ 0 := by
  intro h0
  have : ((a : Nat) : Q) = ((0 : Nat) : Q) := by simpa using h0
  have := Rat.natCast_inj.mp this
  omega

/-- the precision entry the code reports at threshold `u` (`1` when nothing is predicted positive). -/
def precG (s : Samples) (u : Q) : Q :=
  if (tpAt s u : Q) + (fpAt s u : Q) = 0 then 1 else (tpAt s u : Q) / ((tpAt s u : Q) + (fpAt s u : Q))

theorem allVals_vals (l : List Q) : allVals (l.map XQ.val) = some l := by
  induction l with
  | nil => rfl
  | cons a l ih => simp [allVals, ih]

theorem curve_fst_vals (s : Samples) (t : List Q) :
    (curve s t).1 = (t.map (precG s) ++ [1]).map XQ.val := by
  unfold curve
  simp only [List.map_append, List.map_map, List.map_cons, List.map_nil]
  congr 1
  apply List.map_congr_left
  intro u _
  simp only [Function.comp]
  unfold precisionAt xdiv precG
  by_cases h : (tpAt s u : Q) + (fpAt s u : Q) = 0
  · have h1 := (natCast_add_eq_zero _ _ h).1
    have h2 := (natCast_add_eq_zero _ _ h).2
    have h3 : (0 : Q) + 0 = 0 := by grind
    simp [h1, h2, h3]
  · simp [h]

theorem recall_entry (s : Samples) (u : Q) (hP : ((positives s).length : Q) ≠ 0) :
    recallAt s u = .val ((tpAt s u : Q) / ((positives s).length : Q)) := by
  have e : ((positives s).length : Q) = (tpAt s u : Q) + (fnAt s u : Q) := by
    rw [← Rat.natCast_add, ← pos_split s u]; unfold positives; simp [List.countP_eq_length_filter]
  rw [e] at hP
  unfold recallAt xdiv
  simp [hP, e]

theorem recall_nan (s : Samples) (u : Q) (hP : (positives s).length = 0) : recallAt s u = .nan := by
  have e : (positives s).length = tpAt s u + fnAt s u := by
    rw [← pos_split s u]; unfold positives; simp [List.countP_eq_length_filter]
  have h1 : tpAt s u = 0 := by omega
  have h2 : fnAt s u = 0 := by omega
  have h3 : (0 : Q) + 0 = 0 := by grind
  unfold recallAt xdiv; simp [h1, h2, h3]

theorem allVals_append_none (a : List XQ) (b : List XQ) (h : allVals a = none) : allVals (a ++ b) = none := by
  induction a with
  | nil => simp [allVals] at h
  | cons x a ih =>
    cases x with
    | val q =>
      simp only [allVals, Option.map_eq_none_iff] at h
      simp [allVals, ih h]
    | nan => rfl
    | pinf => rfl
    | ninf => rfl

theorem tpAt_eq_sum (s : Samples) (u : Q) (h01 : ∀ p ∈ s, p.2 ≤ 1) :
    ((tpAt s u : Nat) : Q) = (s.map fun p => ((p.2 : Nat) : Q) * b2q (decide (u ≤ p.1))).sum := by
  unfold tpAt
  rw [cast_countP_eq_sum]
  apply sum_map_congr
  intro p hp
  have := h01 p hp
  rcases (show p.2 = 0 ∨ p.2 = 1 by omega) with h | h <;> simp [h, b2q] <;> grind

/-- counting at a grid value is the same on the floored scores. -/
theorem tpAt_floored (t : List Q) (s : Samples) (f : Q → Q) (hf : ∀ p ∈ s, IsFloorOf t p.1 (f p.1))
    (u : Q) (hu : u ∈ t) : tpAt (s.map fun p => (f p.1, p.2)) u = tpAt s u := by
  unfold tpAt
  rw [List.countP_map]
  apply List.countP_congr
  intro p hp
  have hfl := hf p hp
  have : (u ≤ f p.1) ↔ (u ≤ p.1) := ⟨fun h => Rat.le_trans h hfl.le, fun h => hfl.greatest u hu h⟩
  simp [Function.comp, this]

theorem fpAt_floored (t : List Q) (s : Samples) (f : Q → Q) (hf : ∀ p ∈ s, IsFloorOf t p.1 (f p.1))
    (u : Q) (hu : u ∈ t) : fpAt (s.map fun p => (f p.1, p.2)) u = fpAt s u := by
  unfold fpAt
  rw [List.countP_map]
  apply List.countP_congr
  intro p hp
  have hfl := hf p hp
  have : (u ≤ f p.1) ↔ (u ≤ p.1) := ⟨fun h => Rat.le_trans h hfl.le, fun h => hfl.greatest u hu h⟩
  simp [Function.comp, this]

theorem auprcOfCurve_floor (t : List Q) (s : Samples) (f : Q → Q)
    (hs : t.Pairwise (· ≤ ·)) (h01 : ∀ p ∈ s, p.2 ≤ 1)
    (hf : ∀ p ∈ s, IsFloorOf t p.1 (f p.1)) (hP : (positives s).length ≠ 0) :
    auprcOfCurve (curve s t) = auprcSpec (s.map fun p => (f p.1, p.2)) := by
  have hPq : ((positives s).length : Q) ≠ 0 := natCast_ne_zero _ (by omega)
  have hr : allVals (curve s t).2 = some (t.map (fun u => (s.map fun p => ((p.2 : Nat) : Q) * b2q (decide (u ≤ p.1))).sum
      / ((positives s).length : Q)) ++ [0]) := by
    have : (curve s t).2 = (t.map (fun u => (s.map fun p : Q × Nat => ((p.2 : Nat) : Q) * b2q (decide (u ≤ p.1))).sum
        / ((positives s).length : Q)) ++ [0]).map XQ.val := by
      unfold curve
      simp only [List.map_append, List.map_map, List.map_cons, List.map_nil]
      congr 1
      apply List.map_congr_left
      intro u _
      simp only [Function.comp, recall_entry s u hPq, tpAt_eq_sum s u h01]
    rw [this, allVals_vals]
  have hp : allVals (curve s t).1 = some (t.map (precG s) ++ [1]) := by
    rw [curve_fst_vals, allVals_vals]
  unfold auprcOfCurve
  simp only [hr, hp]
  have hexp := riemann_expand (s.map fun p => (p.1, ((p.2 : Nat) : Q))) ((positives s).length : Q) (precG s) t
  simp only [List.map_map, Function.comp_def] at hexp
  rw [hexp]
  unfold auprcSpec apSum
  simp only [positives_map, List.length_map, hPq, if_false, List.map_map]
  congr 1
  rw [← sum_pos s _ h01]
  apply sum_map_congr
  intro p hp
  have hfl := hf p hp
  rcases (show p.2 = 0 ∨ p.2 = 1 by have := h01 p hp; omega) with h0 | h1
  · simp [h0]
  · simp only [Function.comp, riemW_floor (precG s) p.1 (f p.1) t hs hfl,
      tpAt_floored t s f hf (f p.1) hfl.mem, fpAt_floored t s f hf (f p.1) hfl.mem]
    have hpos : 1 ≤ tpAt s (f p.1) := by
      unfold tpAt
      apply List.countP_pos_iff.mpr
      exact ⟨p, hp, by simp [h1, hfl.le]⟩
    have hne : ((tpAt s (f p.1) : Nat) : Q) + ((fpAt s (f p.1) : Nat) : Q) ≠ 0 := by
      intro h
      have := (natCast_add_eq_zero _ _ h).1
      omega
    unfold precG
    simp [hne]

theorem auprcOfCurve_no_positives (t : List Q) (s : Samples) (hne : t ≠ []) (hP : (positives s).length = 0) :
    auprcOfCurve (curve s t) = 0 := by
  obtain ⟨u, t', rfl⟩ : ∃ u t', t = u :: t' := by
    cases t with
    | nil => exact absurd rfl hne
    | cons a b => exact ⟨a, b, rfl⟩
  have : allVals (curve s (u :: t')).2 = none := by
    unfold curve
    simp only [List.map_cons, List.cons_append, recall_nan s u hP]
    rfl
  unfold auprcOfCurve
  simp [this]

/-! ### the executable floor -/

theorem maxOf_spec (l : List Q) (m : Q) (h : maxOf l = some m) : m ∈ l ∧ ∀ u ∈ l, u ≤ m := by
  induction l generalizing m with
  | nil => simp [maxOf] at h
  | cons a l ih =>
    unfold maxOf at h
    cases hm : maxOf l with
    | none =>
      rw [hm] at h
      have hl : l = [] := by
        cases l with
        | nil => rfl
        | cons b l => unfold maxOf at hm; cases h2 : maxOf l <;> simp [h2] at hm
      simp only [Option.some.injEq] at h
      subst h; subst hl
      simp
    | some m' =>
      rw [hm] at h
      have ih := ih m' hm
      simp only [Option.some.injEq] at h
      by_cases hlt : m' < a
      · simp only [hlt, if_true] at h
        subst h
        refine ⟨List.mem_cons_self, ?_⟩
        intro u hu
        rcases List.mem_cons.mp hu with rfl | hu
        · grind
        · have := ih.2 u hu; grind
      · simp only [hlt, if_false] at h
        subst h
        refine ⟨List.mem_cons_of_mem _ ih.1, ?_⟩
        intro u hu
        rcases List.mem_cons.mp hu with rfl | hu
        · grind
        · exact ih.2 u hu

/-- `floorTo?` returns the largest threshold `≤ x`. -/
theorem floorTo?_isFloor (t : List Q) (x v : Q) (h : floorTo? t x = some v) : IsFloorOf t x v := by
  unfold floorTo? at h
  have := maxOf_spec _ v h
  have hm := List.mem_filter.mp this.1
  refine ⟨hm.1, by simpa using hm.2, ?_⟩
  intro u hu hux
  exact this.2 u (List.mem_filter.mpr ⟨hu, by simpa using hux⟩)

end TE.BinnedL
