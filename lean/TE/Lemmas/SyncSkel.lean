/-
  TE.Lemmas.SyncSkel — what a well-formed skeleton table (TE/Model/SyncSkel.lean) gives:
    * `wf_facts`            the seven facts in ∀-form;
    * `storeLoop_delivers`  the gather pattern delivers member j's value under index j;
    * `run_lockstep`        the collective sites a member passes depend only on the rank-free guards / trip counts.
-/
import TE.Model.SyncSkel
namespace TE.SyncSkel

theorem wf_facts (t : Table) (h : WF t = true) :
    (∀ f ∈ t, f.untranslated.isNone = true) ∧
    (∀ f ∈ t, (f.module != "synclib" || f.body.terms.all Term.keysSorted) = true) ∧
    (∀ f ∈ t, ∀ tm ∈ f.body.terms, tm.groupScoped = true) ∧
    (∀ f ∈ t, ∀ cl ∈ f.body.colls, collAddressed cl = true) ∧
    (∀ f ∈ t, (f.body.colls.all bufferSized && f.body.calls.all (wsArgOk t)) = true) ∧
    (∀ f ∈ t, storesByIndex f.body = true) ∧
    (∀ f ∈ t, ∀ g ∈ f.body.relevant true, g.rankFree = true) := by
  have h' : factsOf t = ⟨true, true, true, true, true, true, true⟩ := by
    simpa [WF] using h
  simp only [factsOf, Facts.mk.injEq, List.all_eq_true] at h'
  obtain ⟨h1, h2, h3, h4, h5, h6, h7⟩ := h'
  exact ⟨h1, h2, h3, h4, h5, h6, h7⟩

/-! ### the gather pattern -/

theorem storeLoop_enum_get {α : Type} (k : Nat) (xs : List α) :
    ∀ (i : Nat) (col : List α), i + xs.length ≤ col.length →
      (∀ j, j < i → (storeLoop k (enumIdx k) i xs col)[j]? = col[j]?) ∧
      (∀ j, j < xs.length → (storeLoop k (enumIdx k) i xs col)[i + j]? = xs[j]?) := by
  induction xs with
  | nil => intro i col _; exact ⟨fun _ _ => rfl, fun j hj => absurd hj (Nat.not_lt_zero _)⟩
  | cons x xs ih =>
    intro i col hlen
    simp only [List.length_cons] at hlen
    have hev : evalIdx k (enumIdx k) i = some i := by simp [evalIdx]
    simp only [storeLoop, hev]
    have hlen' : i + 1 + xs.length ≤ (col.set i x).length := by simp; omega
    obtain ⟨ha, hb⟩ := ih (i + 1) (col.set i x) hlen'
    refine ⟨fun j hj => ?_, fun j hj => ?_⟩
    · rw [ha j (by omega), List.getElem?_set_ne (by omega)]
    · cases j with
      | zero =>
        show (storeLoop k (enumIdx k) (i + 1) xs (col.set i x))[i]? = some x
        rw [ha i (by omega)]
        simp [List.getElem?_set_self (show i < col.length by omega)]
      | succ j =>
        have := hb j (by simp only [List.length_cons] at hj; omega)
        rw [show i + (j + 1) = i + 1 + j by omega, this]; rfl

theorem storeLoop_delivers {α : Type} (k : Nat) (xs col : List α) (h : xs.length ≤ col.length) (j : Nat) (hj : j < xs.length) :
    (storeLoop k (enumIdx k) 0 xs col)[j]? = xs[j]? := by
  have := (storeLoop_enum_get k xs 0 col (by omega)).2 j hj
  simpa using this

theorem storeLoop_beyond {α : Type} (k : Nat) (xs : List α) :
    ∀ (i : Nat) (col : List α) (j : Nat), i + xs.length ≤ j → (storeLoop k (enumIdx k) i xs col)[j]? = col[j]? := by
  induction xs with
  | nil => intro i col j _; rfl
  | cons x xs ih =>
    intro i col j hj
    simp only [List.length_cons] at hj
    have hev : evalIdx k (enumIdx k) i = some i := by simp [evalIdx]
    simp only [storeLoop, hev]
    rw [ih (i + 1) (col.set i x) j (by omega), List.getElem?_set_ne (by omega)]

/-- the whole column after the loop: the gathered values in order, then the untouched rest — nothing is dropped, duplicated,
    reordered or overwritten. -/
theorem storeLoop_exact {α : Type} (k : Nat) (xs col : List α) (h : xs.length ≤ col.length) :
    storeLoop k (enumIdx k) 0 xs col = xs ++ col.drop xs.length := by
  apply List.ext_getElem?
  intro j
  by_cases hj : j < xs.length
  · rw [storeLoop_delivers k xs col h j hj, List.getElem?_append_left hj]
  · have hj' : xs.length ≤ j := by omega
    rw [storeLoop_beyond k xs 0 col j (by omega), List.getElem?_append_right hj', List.getElem?_drop]
    congr 1; omega


/-! ### lock-step -/

theorem repeatK_nil {α : Type} (f : List α → List α) (hf : f [] = []) : ∀ n, repeatK f n [] = []
  | 0 => rfl
  | n + 1 => by simp [repeatK, repeatK_nil f hf n, hf]

theorem repeatK_id {α : Type} (f : List α → List α) (k : List α) (hf : f k = k) : ∀ n, repeatK f n k = k
  | 0 => rfl
  | n + 1 => by simp [repeatK, repeatK_id f k hf n, hf]

theorem repeatK_congr {α : Type} (f g : List α → List α) (h : ∀ k, f k = g k) (k : List α) : ∀ n, repeatK f n k = repeatK g n k
  | 0 => rfl
  | n + 1 => by simp [repeatK, repeatK_congr f g h k n, h]

/-- a quiet skeleton in front of an empty continuation passes no site -/
theorem quiet_run_nil (ρ : Valuation) (callee : String → List Site) (fname : String) :
    ∀ sk : Skel, sk.quiet = true → sk.run ρ callee fname [] = [] := by
  intro sk
  induction sk with
  | skip => intro _; rfl
  | seq a b iha ihb =>
    intro h; simp only [Skel.quiet, Bool.and_eq_true] at h
    simp [Skel.run, ihb h.2, iha h.1]
  | ite g t e iht ihe =>
    intro h; simp only [Skel.quiet, Bool.and_eq_true] at h
    simp only [Skel.run]; split
    · exact iht h.1
    · exact ihe h.2
  | forEach k it body ih =>
    intro h; simp only [Skel.quiet] at h
    simp only [Skel.run]; exact repeatK_nil _ (ih h) _
  | coll => intro h; simp [Skel.quiet] at h
  | call => intro h; simp [Skel.quiet] at h
  | eff => intro _; rfl
  | ret => intro _; rfl
  | raise => intro _; rfl

/-- a quiet skeleton that cannot return leaves the continuation as it is -/
theorem quiet_noRet_run (ρ : Valuation) (callee : String → List Site) (fname : String) :
    ∀ sk : Skel, sk.quiet = true → sk.noRet = true → ∀ k, sk.run ρ callee fname k = k := by
  intro sk
  induction sk with
  | skip => intro _ _ _; rfl
  | seq a b iha ihb =>
    intro h h' k; simp only [Skel.quiet, Skel.noRet, Bool.and_eq_true] at h h'
    simp [Skel.run, ihb h.2 h'.2, iha h.1 h'.1]
  | ite g t e iht ihe =>
    intro h h' k; simp only [Skel.quiet, Skel.noRet, Bool.and_eq_true] at h h'
    simp only [Skel.run]; split
    · exact iht h.1 h'.1 k
    · exact ihe h.2 h'.2 k
  | forEach j it body ih =>
    intro h h' k; simp only [Skel.quiet, Skel.noRet] at h h'
    simp only [Skel.run]; exact repeatK_id _ k (ih h h' k) _
  | coll => intro h; simp [Skel.quiet] at h
  | call => intro h; simp [Skel.quiet] at h
  | eff => intro _ _ _; rfl
  | ret => intro _ h'; simp [Skel.noRet] at h'
  | raise => intro _ h'; simp [Skel.noRet] at h'

/-- the sites of a skeleton depend only on the values of its relevant guards / iterables -/
theorem skel_run_congr (ρ₁ ρ₂ : Valuation) (callee : String → List Site) (fname : String) :
    ∀ (sk : Skel) (tail : Bool) (k : List Site), (tail = true → k = []) →
      (∀ g ∈ sk.relevant tail, ρ₁.guard g = ρ₂.guard g ∧ ρ₁.trips g = ρ₂.trips g) →
      sk.run ρ₁ callee fname k = sk.run ρ₂ callee fname k := by
  intro sk
  induction sk with
  | skip => intros; rfl
  | coll => intros; rfl
  | call => intros; rfl
  | eff => intros; rfl
  | ret => intros; rfl
  | raise => intros; rfl
  | seq a b iha ihb =>
    intro tail k hk hrel
    simp only [Skel.relevant, List.mem_append] at hrel
    simp only [Skel.run]
    rw [ihb tail k hk (fun g hg => hrel g (Or.inr hg))]
    apply iha (tail && b.quiet) _ _ (fun g hg => hrel g (Or.inl hg))
    intro ht
    simp only [Bool.and_eq_true] at ht
    rw [hk ht.1]
    exact quiet_run_nil ρ₂ callee fname b ht.2
  | ite g t e iht ihe =>
    intro tail k hk hrel
    simp only [Skel.run]
    by_cases hq : (t.quiet && e.quiet && (tail || (t.noRet && e.noRet))) = true
    · simp only [Bool.and_eq_true, Bool.or_eq_true] at hq
      obtain ⟨⟨hqt, hqe⟩, hc⟩ := hq
      rcases hc with ht | ⟨hnt, hne⟩
      · rw [hk ht]
        simp [quiet_run_nil _ callee fname t hqt, quiet_run_nil _ callee fname e hqe]
      · simp [quiet_noRet_run _ callee fname t hqt hnt k, quiet_noRet_run _ callee fname e hqe hne k]
    · simp only [Skel.relevant, hq, Bool.false_eq_true, if_false, List.mem_cons, List.mem_append] at hrel
      rw [(hrel g (Or.inl rfl)).1]
      split
      · exact iht tail k hk (fun g' hg' => hrel g' (Or.inr (Or.inl hg')))
      · exact ihe tail k hk (fun g' hg' => hrel g' (Or.inr (Or.inr hg')))
  | forEach j it body ih =>
    intro tail k hk hrel
    simp only [Skel.run]
    by_cases hq : (body.quiet && (tail || body.noRet)) = true
    · simp only [Bool.and_eq_true, Bool.or_eq_true] at hq
      obtain ⟨hqb, hc⟩ := hq
      rcases hc with ht | hn
      · rw [hk ht]
        rw [repeatK_nil _ (quiet_run_nil ρ₁ callee fname body hqb), repeatK_nil _ (quiet_run_nil ρ₂ callee fname body hqb)]
      · rw [repeatK_id _ k (quiet_noRet_run ρ₁ callee fname body hqb hn k), repeatK_id _ k (quiet_noRet_run ρ₂ callee fname body hqb hn k)]
    · simp only [Skel.relevant, hq, Bool.false_eq_true, if_false, List.mem_cons] at hrel
      rw [(hrel it (Or.inl rfl)).2]
      apply repeatK_congr
      intro k'
      exact ih false k' (fun h => absurd h (by simp)) (fun g' hg' => hrel g' (Or.inr hg'))

theorem find_mem (t : Table) (f : String) (fs : FnSkel) (h : t.find f = some fs) : fs ∈ t := by
  unfold Table.find at h
  exact List.mem_of_find?_eq_some h

/-- **lock-step**: when no relevant guard / trip count of the table mentions the member's own rank, two members whose
    valuations agree on the rank-free terms pass the same collective sites in the same order. -/
theorem run_lockstep (t : Table) (hrf : ∀ f ∈ t, ∀ g ∈ f.body.relevant true, g.rankFree = true) (ρ₁ ρ₂ : Valuation)
    (hg : ∀ g : Term, g.rankFree = true → ρ₁.guard g = ρ₂.guard g)
    (ht : ∀ g : Term, g.rankFree = true → ρ₁.trips g = ρ₂.trips g) :
    ∀ (fuel : Nat) (f : String), run t ρ₁ fuel f = run t ρ₂ fuel f := by
  intro fuel
  induction fuel with
  | zero => intro f; rfl
  | succ n ih =>
    intro f
    simp only [run]
    cases hfind : t.find f with
    | none => rfl
    | some fs =>
      simp only []
      have hcal : run t ρ₁ n = run t ρ₂ n := funext ih
      rw [hcal]
      apply skel_run_congr ρ₁ ρ₂ _ f fs.body true [] (fun _ => rfl)
      intro g hgm
      have := hrf fs (find_mem t f fs hfind) g hgm
      exact ⟨hg g this, ht g this⟩

end TE.SyncSkel
