/-
  TE.Lemmas.FamStatAgg — `StatCat` for the aggregation / regression / entropy / ranking
  families of TE/Model/Fams.lean (Mean, Sum, PSNR, Perplexity, MeanSquaredError, R2Score,
  BinaryNormalizedEntropy, ClickThroughRate, WeightedCalibration): the statistic of a
  concatenation of valid batches is the zero-padded sum of the batches' statistics.

  A scalar / absent weight of a batch is expanded to per-sample weights by the
  concatenation; `…_expand` lemmas show that the expansion does not change the statistic,
  the `…_two` lemmas are the two-batch laws on expanded batches.
-/
import TE.Lemmas.FamStat
import TE.Lemmas.Agg
namespace TE.FamStat
open TE TE.Fams TE.Agg TE.Rank

/-! ### toolkit -/

private theorem map_ok' {α β : Type} {x : Except Err α} {f : α → β} {b : β}
    (h : Except.map f x = .ok b) : ∃ a, x = .ok a ∧ b = f a := by
  cases x with
  | error e => simp [Except.map] at h
  | ok a => exact ⟨a, rfl, by simpa [Except.map, eq_comm] using h⟩

/-! ### PSNR -/

/-- `PeakSignalNoiseRatio` : squared error and element count add. -/
theorem statCat_psnr : StatCat partsAcc psnrStat catPair := by
  apply statCat_pair partsAcc partsAcc_laws.toLaws
  intro x₁ y₁ x₂ y₂ a₁ a₂ h₁ h₂
  simp only [psnrStat] at h₁ h₂ ⊢
  split at h₁
  · split at h₂
    · rename_i e₁ e₂
      cases h₁; cases h₂
      have e : (x₁ ++ x₂).length = (y₁ ++ y₂).length := by simp [e₁, e₂]
      rw [if_pos e]
      simp only [psnrUpdate, partsAcc, ppadd_cons, padd_single, ppadd_nil_nil,
        List.zipWith_append e₁, List.sum_append, natCast_length_append]
    · cases h₂
  · cases h₁

/-! ### perplexity -/

/-- `Perplexity` : negative log-likelihood and token count add. -/
theorem statCat_ppl (exp ln : Q → Q) (v : Nat) (ignore : Option Int) :
    StatCat partsAcc (pplStat exp ln v ignore) catPair := by
  apply statCat_pair partsAcc partsAcc_laws.toLaws
  intro x₁ y₁ x₂ y₂ a₁ a₂ h₁ h₂
  simp only [pplStat] at h₁ h₂ ⊢
  split at h₁
  · split at h₂
    · rename_i e₁ e₂
      have e : (x₁ ++ x₂).length = (y₁ ++ y₂).length := by simp [e₁, e₂]
      rw [if_pos e]
      obtain ⟨r₁, hr₁, rfl⟩ := map_ok' h₁
      obtain ⟨r₂, hr₂, rfl⟩ := map_ok' h₂
      simp only [pplUpdate] at hr₁ hr₂ ⊢
      split at hr₁
      · cases hr₁
      · split at hr₂
        · cases hr₂
        · rename_i g₁ g₂
          cases hr₁; cases hr₂
          have ht : pplTokens (x₁ ++ x₂) (y₁ ++ y₂) ignore
              = pplTokens x₁ y₁ ignore ++ pplTokens x₂ y₂ ignore := by
            simp only [pplTokens, zip_append' _ _ _ _ e₁, List.filter_append]
          rw [ht, List.any_append]
          simp only [Bool.not_eq_true] at g₁ g₂
          simp only [g₁, g₂, Bool.or_false, Bool.false_eq_true, if_false, Except.map,
            partsAcc, ppadd_cons, padd_single, ppadd_nil_nil, List.map_append, List.sum_append,
            natCast_length_append]
          congr 3
          grind
    · cases h₂
  · cases h₁

/-! ### Mean / Sum -/

theorem expandW_length_of_mean {xs : List Q} {w : Weight} {r : Q × Q}
    (h : meanUpdate xs w = .ok r) : (expandW xs.length w).length = xs.length := by
  cases w with
  | scalar q => simp [expandW]
  | tensor ws =>
    simp only [meanUpdate] at h
    split at h
    · assumption
    · cases h

/-- a scalar weight is that weight on every sample. -/
theorem meanUpdate_expand {xs : List Q} {w : Weight} {r : Q × Q}
    (h : meanUpdate xs w = .ok r) : meanUpdate xs (.tensor (expandW xs.length w)) = .ok r := by
  cases w with
  | tensor ws => exact h
  | scalar q =>
    simp only [meanUpdate] at h
    cases h
    simp only [meanUpdate, expandW, List.length_replicate, if_true,
      AggL.zipWith_replicate_left xs.length q xs rfl, AggL.sum_map_mul_left, AggL.sum_replicate]
    congr 2
    grind

theorem meanUpdate_two {x₁ x₂ w₁ w₂ : List Q} {r₁ r₂ : Q × Q}
    (h₁ : meanUpdate x₁ (.tensor w₁) = .ok r₁) (h₂ : meanUpdate x₂ (.tensor w₂) = .ok r₂) :
    meanUpdate (x₁ ++ x₂) (.tensor (w₁ ++ w₂)) = .ok (r₁.1 + r₂.1, r₁.2 + r₂.2) := by
  simp only [meanUpdate] at h₁ h₂ ⊢
  split at h₁
  · split at h₂
    · rename_i e₁ e₂
      cases h₁; cases h₂
      rw [if_pos (by simp [e₁, e₂])]
      simp only [List.zipWith_append e₁, List.sum_append]
    · cases h₂
  · cases h₁

/-- `Mean` : weighted sum and total weight add. -/
theorem statCat_mean : StatCat partsAcc meanStat catWeighted := by
  apply statCat_of_cat2 partsAcc partsAcc_laws.toLaws meanStat catWeighted
    (fun b c => (b.1 ++ c.1, .tensor (expandW b.1.length b.2 ++ expandW c.1.length c.2)))
  · intro b a h
    simp only [meanStat] at h ⊢
    obtain ⟨r, hr, rfl⟩ := map_ok' h
    simp only [catWeighted, List.map_cons, List.map_nil, List.flatten_cons, List.flatten_nil,
      List.append_nil, meanUpdate_expand hr]
    rfl
  · intro b bs _
    simp [catWeighted, expandW]
  · intro b₁ b₂ a₁ a₂ h₁ h₂
    simp only [meanStat] at h₁ h₂ ⊢
    obtain ⟨r₁, hr₁, rfl⟩ := map_ok' h₁
    obtain ⟨r₂, hr₂, rfl⟩ := map_ok' h₂
    rw [meanUpdate_two (meanUpdate_expand hr₁) (meanUpdate_expand hr₂)]
    rfl

theorem expandW_length_of_sum {xs : List Q} {w : Weight} {r : Q}
    (h : sumUpdate xs w = .ok r) : (expandW xs.length w).length = xs.length := by
  cases w with
  | scalar q => simp [expandW]
  | tensor ws =>
    simp only [sumUpdate] at h
    split at h
    · assumption
    · cases h

theorem sumUpdate_expand {xs : List Q} {w : Weight} {r : Q}
    (h : sumUpdate xs w = .ok r) : sumUpdate xs (.tensor (expandW xs.length w)) = .ok r := by
  cases w with
  | tensor ws => exact h
  | scalar q =>
    simp only [sumUpdate] at h
    cases h
    simp only [sumUpdate, expandW, List.length_replicate, if_true]
    rw [AggL.zipWith_mul_comm, AggL.zipWith_replicate_left xs.length q xs rfl,
      AggL.sum_map_mul_left, AggL.sum_map_mul_right]

theorem sumUpdate_two {x₁ x₂ w₁ w₂ : List Q} {r₁ r₂ : Q}
    (h₁ : sumUpdate x₁ (.tensor w₁) = .ok r₁) (h₂ : sumUpdate x₂ (.tensor w₂) = .ok r₂) :
    sumUpdate (x₁ ++ x₂) (.tensor (w₁ ++ w₂)) = .ok (r₁ + r₂) := by
  simp only [sumUpdate] at h₁ h₂ ⊢
  split at h₁
  · split at h₂
    · rename_i e₁ e₂
      cases h₁; cases h₂
      rw [if_pos (by simp [e₁, e₂])]
      simp only [List.zipWith_append e₁.symm, List.sum_append]
    · cases h₂
  · cases h₁

/-- `Sum` : the weighted sums add. -/
theorem statCat_sum : StatCat partsAcc sumStat catWeighted := by
  apply statCat_of_cat2 partsAcc partsAcc_laws.toLaws sumStat catWeighted
    (fun b c => (b.1 ++ c.1, .tensor (expandW b.1.length b.2 ++ expandW c.1.length c.2)))
  · intro b a h
    simp only [sumStat] at h ⊢
    obtain ⟨r, hr, rfl⟩ := map_ok' h
    simp only [catWeighted, List.map_cons, List.map_nil, List.flatten_cons, List.flatten_nil,
      List.append_nil, sumUpdate_expand hr]
    rfl
  · intro b bs _
    simp [catWeighted, expandW]
  · intro b₁ b₂ a₁ a₂ h₁ h₂
    simp only [sumStat] at h₁ h₂ ⊢
    obtain ⟨r₁, hr₁, rfl⟩ := map_ok' h₁
    obtain ⟨r₂, hr₂, rfl⟩ := map_ok' h₂
    rw [sumUpdate_two (sumUpdate_expand hr₁) (sumUpdate_expand hr₂)]
    rfl

/-! ### per-row / per-column toolkit: vectors indexed by column / task -/

section rows
variable {α β γ δ : Type}

theorem zip_eq_range (x : List α) (t : List β) (d : Nat) (dx : α) (dt : β)
    (hx : x.length = d) (ht : t.length = d) :
    x.zip t = (List.range d).map fun k => (x.getD k dx, t.getD k dt) := by
  apply List.ext_getElem
  · simp [hx, ht]
  · intro i h₁ h₂
    have h₁' : i < x.length := by simp at h₁; omega
    have h₂' : i < t.length := by simp at h₁; omega
    simp [List.getD_eq_getElem?_getD, List.getElem?_eq_getElem h₁', List.getElem?_eq_getElem h₂']

theorem zip3_eq_range (x : List α) (t : List β) (w : List γ) (d : Nat) (dx : α) (dt : β) (dw : γ)
    (hx : x.length = d) (ht : t.length = d) (hw : w.length = d) :
    x.zip (t.zip w) = (List.range d).map fun k => (x.getD k dx, t.getD k dt, w.getD k dw) := by
  apply List.ext_getElem
  · simp [hx, ht, hw]
  · intro i h₁ h₂
    have h₁' : i < x.length := by simp at h₁; omega
    have h₂' : i < t.length := by simp at h₁; omega
    have h₃' : i < w.length := by simp at h₁; omega
    simp [List.getD_eq_getElem?_getD, List.getElem?_eq_getElem h₁', List.getElem?_eq_getElem h₂',
      List.getElem?_eq_getElem h₃']

theorem map_eq_range (f : α → β) (x : List α) (d : Nat) (dx : α) (hx : x.length = d) :
    x.map f = (List.range d).map fun k => f (x.getD k dx) := by
  apply List.ext_getElem
  · simp [hx]
  · intro i h₁ h₂
    have h₁' : i < x.length := by simpa using h₁
    simp [List.getD_eq_getElem?_getD, List.getElem?_eq_getElem h₁']

theorem zipWith_eq_range (F : α → β → γ) (x : List α) (t : List β) (d : Nat) (dx : α) (dt : β)
    (hx : x.length = d) (ht : t.length = d) :
    List.zipWith F x t = (List.range d).map fun k => F (x.getD k dx) (t.getD k dt) := by
  rw [← List.map_uncurry_zip_eq_zipWith, zip_eq_range x t d dx dt hx ht, List.map_map]
  rfl

theorem appendRows_getD (a b : List (List α)) (h : a.length = b.length) (k : Nat) :
    (appendRows a b).getD k [] = a.getD k [] ++ b.getD k [] := by
  induction a generalizing b k with
  | nil => cases b with
    | nil => simp [appendRows]
    | cons y b => simp at h
  | cons x a ih => cases b with
    | nil => simp at h
    | cons y b =>
      cases k with
      | zero => simp [appendRows]
      | succ k =>
        have := ih b (by simpa using h) k
        simpa [appendRows] using this

theorem getD_map_nil (g : List α → List β) (hg : g [] = []) (t : List (List α)) (k : Nat) :
    (t.map g).getD k [] = g (t.getD k []) := by
  induction t generalizing k with
  | nil => simp [hg]
  | cons x t ih => cases k with
    | zero => simp
    | succ k => simpa using ih k

theorem all_len_getD (x : List (List α)) (n k : Nat) (h : x.all (·.length == n) = true)
    (hk : k < x.length) : (x.getD k []).length = n := by
  induction x generalizing k with
  | nil => simp at hk
  | cons a x ih =>
    simp only [List.all_cons, Bool.and_eq_true, beq_iff_eq] at h
    cases k with
    | zero => simpa using h.1
    | succ k => simpa using ih k h.2 (by simpa using hk)

theorem appendRows_all_len (a b : List (List α)) (n m : Nat) (ha : a.all (·.length == n) = true)
    (hb : b.all (·.length == m) = true) : (appendRows a b).all (·.length == n + m) = true := by
  induction a generalizing b with
  | nil => simp [appendRows]
  | cons x a ih => cases b with
    | nil => simp [appendRows]
    | cons y b =>
      simp only [List.all_cons, Bool.and_eq_true, beq_iff_eq] at ha hb
      simp only [appendRows, List.zipWith_cons_cons, List.all_cons, Bool.and_eq_true, beq_iff_eq,
        List.length_append]
      exact ⟨by omega, ih b ha.2 hb.2⟩

/-- the row-by-row length check, by index. -/
theorem zipLen_iff (x : List (List α)) (t : List (List β)) (h : x.length = t.length) :
    (List.zipWith (fun a c => a.length == c.length) x t).all id = true
      ↔ ∀ k, (x.getD k []).length = (t.getD k []).length := by
  induction x generalizing t with
  | nil => cases t with
    | nil => simp
    | cons c t => simp at h
  | cons a x ih => cases t with
    | nil => simp at h
    | cons c t =>
      simp only [List.zipWith_cons_cons, List.all_cons, Bool.and_eq_true, id, beq_iff_eq]
      rw [ih t (by simpa using h)]
      constructor
      · rintro ⟨h0, hr⟩ k
        cases k with
        | zero => simpa using h0
        | succ k => simpa using hr k
      · intro hk
        exact ⟨by simpa using hk 0, fun k => by simpa using hk (k + 1)⟩

theorem rowsLenOk_iff (nt : Nat) (a b : Mat) :
    rowsLenOk nt a b = true
      ↔ a.length = nt ∧ b.length = nt ∧ ∀ k, (a.getD k []).length = (b.getD k []).length := by
  simp only [rowsLenOk, Bool.and_eq_true, beq_iff_eq]
  constructor
  · rintro ⟨⟨ha, hb⟩, hz⟩
    exact ⟨ha, hb, (zipLen_iff a b (by omega)).mp hz⟩
  · rintro ⟨ha, hb, hz⟩
    exact ⟨⟨ha, hb⟩, (zipLen_iff a b (by omega)).mpr hz⟩

theorem rowsLenOk_append {nt : Nat} {a₁ b₁ a₂ b₂ : Mat} (h₁ : rowsLenOk nt a₁ b₁ = true)
    (h₂ : rowsLenOk nt a₂ b₂ = true) : rowsLenOk nt (appendRows a₁ a₂) (appendRows b₁ b₂) = true := by
  rw [rowsLenOk_iff] at h₁ h₂ ⊢
  obtain ⟨ha₁, hb₁, hz₁⟩ := h₁
  obtain ⟨ha₂, hb₂, hz₂⟩ := h₂
  refine ⟨by rw [appendRows_length _ _ (by omega)]; exact ha₁,
    by rw [appendRows_length _ _ (by omega)]; exact hb₁, fun k => ?_⟩
  rw [appendRows_getD _ _ (by omega), appendRows_getD _ _ (by omega), List.length_append,
    List.length_append, hz₁ k, hz₂ k]

theorem mem_range_lt {d k : Nat} (h : k ∈ List.range d) : k < d := List.mem_range.mp h

end rows

/-! ### click-through rate -/

theorem qsum_map_const (r : List Q) (q : Q) : qsum (r.map fun _ => q) = q * (r.length : Q) := by
  rw [qsum_eq_sum]
  induction r with
  | nil => simp
  | cons a r ih => simp only [List.map_cons, List.sum_cons, ih, List.length_cons, Rat.natCast_add]; grind

theorem qsum_zip_const_right (r : List Q) (q : Q) :
    qsum ((r.zip (r.map fun _ => q)).map fun p => p.1 * p.2) = q * qsum r := by
  simp only [qsum_eq_sum]
  induction r with
  | nil => simp
  | cons a r ih => simp only [List.map_cons, List.zip_cons_cons, List.sum_cons, ih]; grind

/-- `Σ q·t` over `zip (const q) t` when the constant row is at least as long as `t`. -/
theorem qsum_zip_const_left (r t : List Q) (q : Q) (h : r.length = t.length) :
    qsum (((r.map fun _ => q).zip t).map fun p => p.1 * p.2) = q * qsum t := by
  simp only [qsum_eq_sum]
  induction r generalizing t with
  | nil => cases t with
    | nil => simp
    | cons b t => simp at h
  | cons a r ih => cases t with
    | nil => simp at h
    | cons b t =>
      simp only [List.map_cons, List.zip_cons_cons, List.sum_cons, ih t (by simpa using h)]; grind

theorem ctrUpdate_const (r : List Q) (q : Q) :
    ctrUpdate r (r.map fun _ => q) = ctrUpdateScalar r q := by
  simp only [ctrUpdate, ctrUpdateScalar, qsum_zip_const_right, qsum_map_const]

theorem ctrUpdate_append (r₁ r₂ w₁ w₂ : List Q) (h : r₁.length = w₁.length) :
    ctrUpdate (r₁ ++ r₂) (w₁ ++ w₂)
      = ((ctrUpdate r₁ w₁).1 + (ctrUpdate r₂ w₂).1, (ctrUpdate r₁ w₁).2 + (ctrUpdate r₂ w₂).2) := by
  simp only [ctrUpdate, zip_append' _ _ _ _ h, List.map_append, qsum_append]

theorem rowsLenOk_const (nt : Nat) (m : Mat) (q : Q) (h : m.length = nt) :
    rowsLenOk nt m (m.map fun r => r.map fun _ => q) = true := by
  rw [rowsLenOk_iff]
  refine ⟨h, by simpa using h, fun k => ?_⟩
  rw [getD_map_nil _ rfl]
  simp

/-- the statistic on tensor weights, by task index. -/
theorem ctrStat_tensor (nt : Nat) (m w : Mat) (h : rowsLenOk nt m w = true) :
    ctrStat nt (m, .tensor w) = .ok
      [(List.range nt).map fun k => (ctrUpdate (m.getD k []) (w.getD k [])).1,
       (List.range nt).map fun k => (ctrUpdate (m.getD k []) (w.getD k [])).2] := by
  have h' := (rowsLenOk_iff nt m w).mp h
  simp only [ctrStat, h, if_true, zip_eq_range m w nt [] [] h'.1 h'.2.1, List.map_map]
  rfl

/-- a scalar weight is that weight on every element. -/
theorem ctrStat_expand (nt : Nat) (b : Mat × TW) (a : Parts) (h : ctrStat nt b = .ok a) :
    ctrStat nt (b.1, .tensor (b.2.rows b.1)) = .ok a ∧ rowsLenOk nt b.1 (b.2.rows b.1) = true := by
  obtain ⟨m, tw⟩ := b
  cases tw with
  | tensor w =>
    refine ⟨h, ?_⟩
    simp only [ctrStat] at h
    split at h
    · assumption
    · cases h
  | scalar q =>
    simp only [ctrStat] at h
    split at h
    · rename_i hm
      cases h
      have hr := rowsLenOk_const nt m q hm
      refine ⟨?_, hr⟩
      simp only [TW.rows]
      rw [ctrStat_tensor nt _ _ hr]
      simp only [List.map_map, getD_map_nil (fun r : List Q => r.map fun _ => q) rfl, ctrUpdate_const]
      rw [map_eq_range _ m nt [] hm, map_eq_range _ m nt [] hm]
      rfl
    · cases h

theorem ctrStat_two (nt : Nat) (m₁ w₁ m₂ w₂ : Mat) (a₁ a₂ : Parts)
    (h₁ : ctrStat nt (m₁, .tensor w₁) = .ok a₁) (r₁ : rowsLenOk nt m₁ w₁ = true)
    (h₂ : ctrStat nt (m₂, .tensor w₂) = .ok a₂) (r₂ : rowsLenOk nt m₂ w₂ = true) :
    ctrStat nt (appendRows m₁ m₂, .tensor (appendRows w₁ w₂)) = .ok (ppadd a₁ a₂) := by
  rw [ctrStat_tensor nt _ _ r₁] at h₁
  rw [ctrStat_tensor nt _ _ r₂] at h₂
  cases h₁; cases h₂
  rw [ctrStat_tensor nt _ _ (rowsLenOk_append r₁ r₂)]
  have g₁ := (rowsLenOk_iff nt m₁ w₁).mp r₁
  have g₂ := (rowsLenOk_iff nt m₂ w₂).mp r₂
  simp only [ppadd_cons, ppadd_nil_nil, padd_map,
    appendRows_getD m₁ m₂ (by omega), appendRows_getD w₁ w₂ (by omega)]
  congr 2
  · apply List.map_congr_left
    intro k _
    rw [ctrUpdate_append _ _ _ _ (g₁.2.2 k)]
  · congr 1
    apply List.map_congr_left
    intro k _
    rw [ctrUpdate_append _ _ _ _ (g₁.2.2 k)]

/-- `ClickThroughRate` : per task, click total and weight total add. -/
theorem statCat_ctr (nt : Nat) : StatCat partsAcc (ctrStat nt) (catCtr nt) := by
  apply statCat_of_cat2 partsAcc partsAcc_laws.toLaws (ctrStat nt) (catCtr nt)
    (fun b c => (appendRows b.1 c.1, .tensor (appendRows (b.2.rows b.1) (c.2.rows c.1))))
  · intro b a h
    obtain ⟨he, hr⟩ := ctrStat_expand nt b a h
    have g := (rowsLenOk_iff nt _ _).mp hr
    simp only [catCtr, List.map_cons, List.map_nil, catRows_one nt _ g.1, catRows_one nt _ g.2.1]
    exact he
  · intro b bs _
    rfl
  · intro b₁ b₂ a₁ a₂ h₁ h₂
    obtain ⟨he₁, hr₁⟩ := ctrStat_expand nt b₁ a₁ h₁
    obtain ⟨he₂, hr₂⟩ := ctrStat_expand nt b₂ a₂ h₂
    exact ctrStat_two nt _ _ _ _ a₁ a₂ he₁ hr₁ he₂ hr₂

/-! ### weighted calibration -/

theorem wcUpdate_const (x t : List Q) (q : Q) (h : x.length = t.length) :
    wcUpdate x t (x.map fun _ => q) = wcUpdateScalar x t q := by
  simp only [wcUpdate, wcUpdateScalar, qsum_zip_const_left x x q rfl, qsum_zip_const_left x t q h]

theorem wcUpdate_append (x₁ x₂ t₁ t₂ w₁ w₂ : List Q) (hx : x₁.length = w₁.length)
    (ht : x₁.length = t₁.length) :
    wcUpdate (x₁ ++ x₂) (t₁ ++ t₂) (w₁ ++ w₂)
      = ((wcUpdate x₁ t₁ w₁).1 + (wcUpdate x₂ t₂ w₂).1, (wcUpdate x₁ t₁ w₁).2 + (wcUpdate x₂ t₂ w₂).2) := by
  simp only [wcUpdate, zip_append' w₁ w₂ x₁ x₂ hx.symm, zip_append' w₁ w₂ t₁ t₂ (by omega),
    List.map_append, qsum_append]

theorem wcStat_tensor (nt : Nat) (x t w : Mat) (h : rowsLenOk nt x t = true)
    (hw : rowsLenOk nt x w = true) :
    wcStat nt (x, t, .tensor w) = .ok
      [(List.range nt).map fun k => (wcUpdate (x.getD k []) (t.getD k []) (w.getD k [])).1,
       (List.range nt).map fun k => (wcUpdate (x.getD k []) (t.getD k []) (w.getD k [])).2] := by
  have h' := (rowsLenOk_iff nt x t).mp h
  have hw' := (rowsLenOk_iff nt x w).mp hw
  simp only [wcStat, h, hw, if_true, zip3_eq_range x t w nt [] [] [] h'.1 h'.2.1 hw'.2.1, List.map_map]
  rfl

theorem wcStat_expand (nt : Nat) (b : Mat × Mat × TW) (a : Parts) (h : wcStat nt b = .ok a) :
    wcStat nt (b.1, b.2.1, .tensor (b.2.2.rows b.1)) = .ok a ∧ rowsLenOk nt b.1 b.2.1 = true ∧
      rowsLenOk nt b.1 (b.2.2.rows b.1) = true := by
  obtain ⟨x, t, tw⟩ := b
  simp only [wcStat] at h
  split at h
  · rename_i hxt
    have g := (rowsLenOk_iff nt x t).mp hxt
    cases tw with
    | tensor w =>
      simp only at h
      split at h
      · rename_i hxw
        refine ⟨?_, hxt, hxw⟩
        simp only [wcStat, hxt, TW.rows, hxw, if_true]
        exact h
      · cases h
    | scalar q =>
      simp only at h
      cases h
      have hr := rowsLenOk_const nt x q g.1
      refine ⟨?_, hxt, hr⟩
      simp only [TW.rows]
      rw [wcStat_tensor nt _ _ _ hxt hr]
      simp only [getD_map_nil (fun r : List Q => r.map fun _ => q) rfl, wcUpdate_const _ _ q (g.2.2 _),
        zip_eq_range x t nt [] [] g.1 g.2.1, List.map_map]
      rfl
  · cases h

theorem wcStat_two (nt : Nat) (x₁ t₁ w₁ x₂ t₂ w₂ : Mat) (a₁ a₂ : Parts)
    (h₁ : wcStat nt (x₁, t₁, .tensor w₁) = .ok a₁) (r₁ : rowsLenOk nt x₁ t₁ = true)
    (s₁ : rowsLenOk nt x₁ w₁ = true)
    (h₂ : wcStat nt (x₂, t₂, .tensor w₂) = .ok a₂) (r₂ : rowsLenOk nt x₂ t₂ = true)
    (s₂ : rowsLenOk nt x₂ w₂ = true) :
    wcStat nt (appendRows x₁ x₂, appendRows t₁ t₂, .tensor (appendRows w₁ w₂)) = .ok (ppadd a₁ a₂) := by
  rw [wcStat_tensor nt _ _ _ r₁ s₁] at h₁
  rw [wcStat_tensor nt _ _ _ r₂ s₂] at h₂
  cases h₁; cases h₂
  rw [wcStat_tensor nt _ _ _ (rowsLenOk_append r₁ r₂) (rowsLenOk_append s₁ s₂)]
  have g₁ := (rowsLenOk_iff nt x₁ t₁).mp r₁
  have g₂ := (rowsLenOk_iff nt x₂ t₂).mp r₂
  have k₁ := (rowsLenOk_iff nt x₁ w₁).mp s₁
  have k₂ := (rowsLenOk_iff nt x₂ w₂).mp s₂
  simp only [ppadd_cons, ppadd_nil_nil, padd_map,
    appendRows_getD x₁ x₂ (by omega), appendRows_getD t₁ t₂ (by omega),
    appendRows_getD w₁ w₂ (by omega)]
  congr 2
  · apply List.map_congr_left
    intro k _
    rw [wcUpdate_append _ _ _ _ _ _ (k₁.2.2 k) (g₁.2.2 k)]
  · congr 1
    apply List.map_congr_left
    intro k _
    rw [wcUpdate_append _ _ _ _ _ _ (k₁.2.2 k) (g₁.2.2 k)]

/-- `WeightedCalibration` : per task, weighted input and weighted target totals add. -/
theorem statCat_wc (nt : Nat) : StatCat partsAcc (wcStat nt) (catWc nt) := by
  apply statCat_of_cat2 partsAcc partsAcc_laws.toLaws (wcStat nt) (catWc nt)
    (fun b c => (appendRows b.1 c.1, appendRows b.2.1 c.2.1,
      .tensor (appendRows (b.2.2.rows b.1) (c.2.2.rows c.1))))
  · intro b a h
    obtain ⟨he, hr, hs⟩ := wcStat_expand nt b a h
    have g := (rowsLenOk_iff nt _ _).mp hr
    have k := (rowsLenOk_iff nt _ _).mp hs
    simp only [catWc, List.map_cons, List.map_nil, catRows_one nt _ g.1, catRows_one nt _ g.2.1,
      catRows_one nt _ k.2.1]
    exact he
  · intro b bs _
    rfl
  · intro b₁ b₂ a₁ a₂ h₁ h₂
    obtain ⟨he₁, hr₁, hs₁⟩ := wcStat_expand nt b₁ a₁ h₁
    obtain ⟨he₂, hr₂, hs₂⟩ := wcStat_expand nt b₂ a₂ h₂
    exact wcStat_two nt _ _ _ _ _ _ a₁ a₂ he₁ hr₁ hs₁ he₂ hr₂ hs₂

/-! ### regression batches (columns) -/

/-- the two-batch concatenation of column batches. -/
def cat2Cols (b c : ColBatch) : ColBatch :=
  { xcols := appendRows b.xcols c.xcols
    tcols := appendRows b.tcols c.tcols
    n := b.n + c.n
    w := some (expandO b.n b.w ++ expandO c.n c.w) }

theorem expandO_some (n : Nat) (ws : List Q) : expandO n (some ws) = ws := rfl

theorem colBatch_ok_iff (d : Nat) (b : ColBatch) :
    b.ok d = true ↔ b.xcols.length = d ∧ b.tcols.length = d ∧
      b.xcols.all (·.length == b.n) = true ∧ b.tcols.all (·.length == b.n) = true ∧
      (expandO b.n b.w).length = b.n := by
  obtain ⟨x, t, n, w⟩ := b
  cases w with
  | none => simp [ColBatch.ok, expandO, and_assoc]
  | some ws => simp [ColBatch.ok, expandO, and_assoc]

theorem catCols_one (d : Nat) (b : ColBatch) (h : b.ok d = true) :
    catCols d [b] = { b with w := some (expandO b.n b.w) } := by
  obtain ⟨hx, ht, _⟩ := (colBatch_ok_iff d b).mp h
  simp [catCols, catRows_one d _ hx, catRows_one d _ ht]

theorem catCols_cons (d : Nat) (b : ColBatch) (bs : List ColBatch) :
    catCols d (b :: bs) = cat2Cols b (catCols d bs) := by
  simp [catCols, cat2Cols, catRows_cons, expandO]

theorem expand_ok (d : Nat) (b : ColBatch) (h : b.ok d = true) :
    ColBatch.ok d { b with w := some (expandO b.n b.w) } = true := by
  rw [colBatch_ok_iff] at h ⊢
  exact h

theorem cat2Cols_ok (d : Nat) (b c : ColBatch) (hb : b.ok d = true) (hc : c.ok d = true) :
    (cat2Cols b c).ok d = true := by
  rw [colBatch_ok_iff] at hb hc ⊢
  obtain ⟨bx, bt, bxa, bta, bw⟩ := hb
  obtain ⟨cx, ct, cxa, cta, cw⟩ := hc
  refine ⟨?_, ?_, appendRows_all_len _ _ _ _ bxa cxa, appendRows_all_len _ _ _ _ bta cta, ?_⟩
  · simp only [cat2Cols]; rw [appendRows_length _ _ (by omega)]; exact bx
  · simp only [cat2Cols]; rw [appendRows_length _ _ (by omega)]; exact bt
  · show (expandO b.n b.w ++ expandO c.n c.w).length = b.n + c.n
    rw [List.length_append, bw, cw]

theorem sum_expandO (n : Nat) (w : Option (List Q)) :
    (expandO n w).sum = (match w with | none => (n : Q) | some ws => ws.sum) := by
  cases w with
  | some ws => rfl
  | none => simp only [expandO, AggL.sum_replicate]; grind

theorem sseCol_expand (n : Nat) (w : Option (List Q)) (xs ts : List Q) (hx : xs.length = n)
    (ht : ts.length = n) : sseCol (some (expandO n w)) xs ts = sseCol w xs ts := by
  cases w with
  | some ws => rfl
  | none =>
    simp only [sseCol, expandO]
    rw [AggL.zipWith_mul_comm, AggL.zipWith_replicate_left n 1 _ (by simp [hx, ht]),
      AggL.sum_map_mul_left]
    grind

theorem sseCol_append (w₁ w₂ x₁ x₂ t₁ t₂ : List Q) (hx : x₁.length = t₁.length)
    (hw : x₁.length = w₁.length) :
    sseCol (some (w₁ ++ w₂)) (x₁ ++ x₂) (t₁ ++ t₂) = sseCol (some w₁) x₁ t₁ + sseCol (some w₂) x₂ t₂ := by
  simp only [sseCol]
  rw [List.zipWith_append hx, List.zipWith_append (by simp [← hx, hw]), List.sum_append]

/-- `MeanSquaredError` on a valid batch, by column index. -/
theorem mseStat_ok (d : Nat) (b : ColBatch) (h : b.ok d = true) :
    mseStat d b = .ok
      [(List.range d).map fun k => sseCol b.w (b.xcols.getD k []) (b.tcols.getD k []),
       [(expandO b.n b.w).sum]] := by
  obtain ⟨hx, ht, _⟩ := (colBatch_ok_iff d b).mp h
  simp only [mseStat, h, if_true, mseUpdate, zipWith_eq_range _ _ _ d [] [] hx ht, sum_expandO]
  rfl

theorem mseStat_inv {d : Nat} {b : ColBatch} {a : Parts} (h : mseStat d b = .ok a) : b.ok d = true := by
  simp only [mseStat] at h
  split at h
  · assumption
  · cases h

theorem mseStat_expand (d : Nat) (b : ColBatch) (h : b.ok d = true) :
    mseStat d { b with w := some (expandO b.n b.w) } = mseStat d b := by
  obtain ⟨hx, ht, hxa, hta, _⟩ := (colBatch_ok_iff d b).mp h
  rw [mseStat_ok d _ (expand_ok d b h), mseStat_ok d b h]
  congr 2
  apply List.map_congr_left
  intro k hk
  have hk := mem_range_lt hk
  exact sseCol_expand b.n b.w _ _ (all_len_getD b.xcols _ _ hxa (by omega))
    (all_len_getD b.tcols _ _ hta (by omega))

theorem mseStat_two (d : Nat) (b c : ColBatch) (hb : b.ok d = true) (hc : c.ok d = true) (a₁ a₂ : Parts)
    (h₁ : mseStat d b = .ok a₁) (h₂ : mseStat d c = .ok a₂) :
    mseStat d (cat2Cols b c) = .ok (ppadd a₁ a₂) := by
  rw [← mseStat_expand d b hb, mseStat_ok d _ (expand_ok d b hb)] at h₁
  rw [← mseStat_expand d c hc, mseStat_ok d _ (expand_ok d c hc)] at h₂
  cases h₁; cases h₂
  rw [mseStat_ok d _ (cat2Cols_ok d b c hb hc)]
  obtain ⟨bx, bt, bxa, bta, bw⟩ := (colBatch_ok_iff d b).mp hb
  obtain ⟨cx, ct, cxa, cta, cw⟩ := (colBatch_ok_iff d c).mp hc
  simp only [cat2Cols, ppadd_cons, ppadd_nil_nil, padd_map, padd_single, expandO_some, List.sum_append,
    appendRows_getD b.xcols c.xcols (by omega), appendRows_getD b.tcols c.tcols (by omega)]
  congr 2
  apply List.map_congr_left
  intro k hk
  have hk := mem_range_lt hk
  have e₁ := all_len_getD _ _ _ bxa (show k < b.xcols.length by omega)
  have e₂ := all_len_getD _ _ _ bta (show k < b.tcols.length by omega)
  exact sseCol_append _ _ _ _ _ _ (by omega) (by omega)

theorem statCat_cols (d : Nat) (stat : ColBatch → Except Err Parts)
    (hinv : ∀ b a, stat b = .ok a → b.ok d = true)
    (hexp : ∀ b, b.ok d = true → stat { b with w := some (expandO b.n b.w) } = stat b)
    (h2 : ∀ b c, b.ok d = true → c.ok d = true → ∀ a₁ a₂, stat b = .ok a₁ → stat c = .ok a₂ →
      stat (cat2Cols b c) = .ok (ppadd a₁ a₂)) :
    StatCat partsAcc stat (catCols d) := by
  apply statCat_of_cat2 partsAcc partsAcc_laws.toLaws stat (catCols d) cat2Cols
  · intro b a h
    rw [catCols_one d b (hinv b a h), hexp b (hinv b a h)]
    exact h
  · intro b bs _
    exact catCols_cons d b bs
  · intro b₁ b₂ a₁ a₂ h₁ h₂
    exact h2 b₁ b₂ (hinv _ _ h₁) (hinv _ _ h₂) a₁ a₂ h₁ h₂

/-- `MeanSquaredError` : per-output squared error and total weight add. -/
theorem statCat_mse (d : Nat) : StatCat partsAcc (mseStat d) (catCols d) :=
  statCat_cols d (mseStat d) (fun _ _ h => mseStat_inv h) (mseStat_expand d) (mseStat_two d)

/-! ### R² -/

/-- `R2Score` on a valid batch, by column index. -/
theorem r2Stat_ok (d : Nat) (b : ColBatch) (h : b.ok d = true) :
    r2Stat d b = .ok
      [(List.range d).map fun k => ((b.tcols.getD k []).map fun y => y * y).sum,
       (List.range d).map fun k => (b.tcols.getD k []).sum,
       (List.range d).map fun k =>
         (List.zipWith (fun a y => (y - a) * (y - a)) (b.xcols.getD k []) (b.tcols.getD k [])).sum,
       [(b.n : Q)]] := by
  obtain ⟨hx, ht, _⟩ := (colBatch_ok_iff d b).mp h
  simp only [r2Stat, h, if_true, r2Update, zipWith_eq_range _ _ _ d [] [] hx ht,
    map_eq_range _ b.tcols d [] ht]

theorem r2Stat_inv {d : Nat} {b : ColBatch} {a : Parts} (h : r2Stat d b = .ok a) : b.ok d = true := by
  simp only [r2Stat] at h
  split at h
  · assumption
  · cases h

theorem r2Stat_expand (d : Nat) (b : ColBatch) (h : b.ok d = true) :
    r2Stat d { b with w := some (expandO b.n b.w) } = r2Stat d b := by
  rw [r2Stat_ok d _ (expand_ok d b h), r2Stat_ok d b h]

theorem r2Stat_two (d : Nat) (b c : ColBatch) (hb : b.ok d = true) (hc : c.ok d = true) (a₁ a₂ : Parts)
    (h₁ : r2Stat d b = .ok a₁) (h₂ : r2Stat d c = .ok a₂) :
    r2Stat d (cat2Cols b c) = .ok (ppadd a₁ a₂) := by
  rw [r2Stat_ok d _ hb] at h₁
  rw [r2Stat_ok d _ hc] at h₂
  cases h₁; cases h₂
  rw [r2Stat_ok d _ (cat2Cols_ok d b c hb hc)]
  obtain ⟨bx, bt, bxa, bta, bw⟩ := (colBatch_ok_iff d b).mp hb
  obtain ⟨cx, ct, cxa, cta, cw⟩ := (colBatch_ok_iff d c).mp hc
  simp only [cat2Cols, ppadd_cons, ppadd_nil_nil, padd_map, padd_single, List.sum_append,
    List.map_append, Rat.natCast_add,
    appendRows_getD b.xcols c.xcols (by omega), appendRows_getD b.tcols c.tcols (by omega)]
  congr 4
  apply List.map_congr_left
  intro k hk
  have hk := mem_range_lt hk
  have e₁ := all_len_getD _ _ _ bxa (show k < b.xcols.length by omega)
  have e₂ := all_len_getD _ _ _ bta (show k < b.tcols.length by omega)
  rw [List.zipWith_append (by omega), List.sum_append]

/-- `R2Score` : `(Σy², Σy, Σ(y−ŷ)², n)` add. -/
theorem statCat_r2 (d : Nat) : StatCat partsAcc (r2Stat d) (catCols d) :=
  statCat_cols d (r2Stat d) (fun _ _ h => r2Stat_inv h) (r2Stat_expand d) (r2Stat_two d)

/-! ### binary normalized entropy -/

/-- absent weights are weight one on every element of the target rows. -/
def expT (b : TaskBatch) : Mat :=
  match b.w with
  | some w => w
  | none => b.t.map fun r => r.map fun _ => (1 : Q)

/-- the two-batch concatenation of multi-task batches. -/
def cat2Tasks (b c : TaskBatch) : TaskBatch :=
  { x := appendRows b.x c.x
    t := appendRows b.t c.t
    w := some (appendRows (expT b) (expT c)) }

theorem taskBatch_shapeOk_iff (nt : Nat) (b : TaskBatch) :
    b.shapeOk nt = true ↔ b.x.length = nt ∧ b.t.length = nt ∧ (expT b).length = nt ∧
      (∀ k, (b.x.getD k []).length = (b.t.getD k []).length) ∧
      (∀ k, (b.x.getD k []).length = ((expT b).getD k []).length) := by
  obtain ⟨x, t, w⟩ := b
  cases w with
  | none =>
    simp only [TaskBatch.shapeOk, expT, Bool.and_eq_true, beq_iff_eq, Bool.and_true,
      List.length_map, getD_map_nil (fun r : List Q => r.map fun _ => (1 : Q)) rfl]
    constructor
    · rintro ⟨⟨hx, ht⟩, hz⟩
      have := (zipLen_iff x t (by omega)).mp hz
      exact ⟨hx, ht, ht, this, this⟩
    · rintro ⟨hx, ht, _, hz, _⟩
      exact ⟨⟨hx, ht⟩, (zipLen_iff x t (by omega)).mpr hz⟩
  | some w =>
    simp only [TaskBatch.shapeOk, expT, Bool.and_eq_true, beq_iff_eq]
    constructor
    · rintro ⟨⟨⟨hx, ht⟩, hz⟩, hw, hzw⟩
      exact ⟨hx, ht, hw, (zipLen_iff x t (by omega)).mp hz, (zipLen_iff x w (by omega)).mp hzw⟩
    · rintro ⟨hx, ht, hw, hz, hzw⟩
      exact ⟨⟨⟨hx, ht⟩, (zipLen_iff x t (by omega)).mpr hz⟩, hw, (zipLen_iff x w (by omega)).mpr hzw⟩

theorem catTasks_one (nt : Nat) (b : TaskBatch) (h : b.shapeOk nt = true) :
    catTasks nt [b] = { b with w := some (expT b) } := by
  obtain ⟨hx, ht, hw, _⟩ := (taskBatch_shapeOk_iff nt b).mp h
  simp only [catTasks, List.map_cons, List.map_nil, catRows_one nt _ hx, catRows_one nt _ ht]
  congr 2
  exact catRows_one nt _ hw

theorem catTasks_cons (nt : Nat) (b : TaskBatch) (bs : List TaskBatch) :
    catTasks nt (b :: bs) = cat2Tasks b (catTasks nt bs) := rfl

theorem expand_shapeOk (nt : Nat) (b : TaskBatch) (h : b.shapeOk nt = true) :
    TaskBatch.shapeOk nt { b with w := some (expT b) } = true := by
  rw [taskBatch_shapeOk_iff] at h ⊢
  exact h

theorem cat2Tasks_shapeOk (nt : Nat) (b c : TaskBatch) (hb : b.shapeOk nt = true)
    (hc : c.shapeOk nt = true) : (cat2Tasks b c).shapeOk nt = true := by
  rw [taskBatch_shapeOk_iff] at hb hc ⊢
  obtain ⟨bx, bt, bw, bz, bzw⟩ := hb
  obtain ⟨cx, ct, cw, cz, czw⟩ := hc
  have e : expT (cat2Tasks b c) = appendRows (expT b) (expT c) := rfl
  rw [e]
  simp only [cat2Tasks]
  refine ⟨?_, ?_, ?_, fun k => ?_, fun k => ?_⟩
  · rw [appendRows_length _ _ (by omega)]; exact bx
  · rw [appendRows_length _ _ (by omega)]; exact bt
  · rw [appendRows_length _ _ (by omega)]; exact bw
  · rw [appendRows_getD _ _ (by omega), appendRows_getD _ _ (by omega), List.length_append,
      List.length_append, bz k, cz k]
  · rw [appendRows_getD _ _ (by omega), appendRows_getD _ _ (by omega), List.length_append,
      List.length_append, bzw k, czw k]

theorem mem_flatten_appendRows {α : Type} (a b : List (List α)) (h : a.length = b.length) (q : α) :
    q ∈ (appendRows a b).flatten ↔ q ∈ a.flatten ∨ q ∈ b.flatten := by
  induction a generalizing b with
  | nil => cases b with
    | nil => simp [appendRows]
    | cons y b => simp at h
  | cons x a ih => cases b with
    | nil => simp at h
    | cons y b =>
      have := ih b (by simpa using h)
      simp only [appendRows] at this
      simp only [appendRows, List.zipWith_cons_cons, List.flatten_cons, List.mem_append, this]
      constructor
      · rintro ((h | h) | (h | h)) <;> simp [h]
      · rintro ((h | h) | (h | h)) <;> simp [h]

theorem any_flatten_appendRows {α : Type} (a b : List (List α)) (h : a.length = b.length) (p : α → Bool) :
    (appendRows a b).flatten.any p = (a.flatten.any p || b.flatten.any p) := by
  rw [Bool.eq_iff_iff]
  simp only [List.any_eq_true, Bool.or_eq_true, mem_flatten_appendRows a b h]
  constructor
  · rintro ⟨q, hq | hq, hp⟩
    · exact Or.inl ⟨q, hq, hp⟩
    · exact Or.inr ⟨q, hq, hp⟩
  · rintro (⟨q, hq, hp⟩ | ⟨q, hq, hp⟩)
    · exact ⟨q, Or.inl hq, hp⟩
    · exact ⟨q, Or.inr hq, hp⟩

theorem isEmpty_flatten_appendRows {α : Type} (a b : List (List α)) (h : a.length = b.length)
    (ha : a.flatten.isEmpty = false) : (appendRows a b).flatten.isEmpty = false := by
  rw [List.isEmpty_eq_false_iff_exists_mem] at ha ⊢
  obtain ⟨q, hq⟩ := ha
  exact ⟨q, (mem_flatten_appendRows a b h q).mpr (Or.inl hq)⟩

/-- one task row with explicit weights. -/
theorem bneUpdate_expand (ln exp : Q → Q) (fl : Bool) (b : TaskBatch) (k : Nat) :
    bneUpdate ln exp fl (b.x.getD k []) (b.t.getD k []) (b.w.map fun w => w.getD k [])
      = bneUpdate ln exp fl (b.x.getD k []) (b.t.getD k []) (some ((expT b).getD k [])) := by
  obtain ⟨x, t, w⟩ := b
  cases w with
  | some w => rfl
  | none =>
    simp only [expT, getD_map_nil (fun r : List Q => r.map fun _ => (1 : Q)) rfl]
    rfl

theorem bneUpdate_append (ln exp : Q → Q) (fl : Bool) (x₁ x₂ t₁ t₂ w₁ w₂ : List Q)
    (ht : x₁.length = t₁.length) (hw : x₁.length = w₁.length) :
    bneUpdate ln exp fl (x₁ ++ x₂) (t₁ ++ t₂) (some (w₁ ++ w₂))
      = ((bneUpdate ln exp fl x₁ t₁ (some w₁)).1 + (bneUpdate ln exp fl x₂ t₂ (some w₂)).1,
         (bneUpdate ln exp fl x₁ t₁ (some w₁)).2.1 + (bneUpdate ln exp fl x₂ t₂ (some w₂)).2.1,
         (bneUpdate ln exp fl x₁ t₁ (some w₁)).2.2 + (bneUpdate ln exp fl x₂ t₂ (some w₂)).2.2) := by
  simp only [bneUpdate, zip_append' _ _ _ _ ht]
  rw [List.zipWith_append (by simp [← ht, hw]), List.zipWith_append (by omega)]
  simp only [List.sum_append]

/-- `BinaryNormalizedEntropy` on a batch that passes the checks, by task index. -/
theorem bneStat_ok (ln exp : Q → Q) (fl : Bool) (nt : Nat) (b : TaskBatch) (h : b.shapeOk nt = true)
    (he : b.x.flatten.isEmpty = false)
    (hr : (!fl && (b.x.flatten.any (fun q => decide (1 < q)) || b.x.flatten.any (fun q => decide (q < 0))))
      = false) :
    bneStat ln exp fl nt b = .ok
      [(List.range nt).map fun k =>
         (bneUpdate ln exp fl (b.x.getD k []) (b.t.getD k []) (some ((expT b).getD k []))).1,
       (List.range nt).map fun k =>
         (bneUpdate ln exp fl (b.x.getD k []) (b.t.getD k []) (some ((expT b).getD k []))).2.2,
       (List.range nt).map fun k =>
         (bneUpdate ln exp fl (b.x.getD k []) (b.t.getD k []) (some ((expT b).getD k []))).2.1] := by
  obtain ⟨hx, _⟩ := (taskBatch_shapeOk_iff nt b).mp h
  simp only [bneStat, h, he, hr, Bool.not_true, Bool.false_eq_true, if_false, bneRows, hx,
    List.map_map, bneUpdate_expand]
  rfl

theorem bneStat_inv {ln exp : Q → Q} {fl : Bool} {nt : Nat} {b : TaskBatch} {a : Parts}
    (h : bneStat ln exp fl nt b = .ok a) :
    b.shapeOk nt = true ∧ b.x.flatten.isEmpty = false ∧
    (!fl && (b.x.flatten.any (fun q => decide (1 < q)) || b.x.flatten.any (fun q => decide (q < 0))))
      = false := by
  simp only [bneStat] at h
  split at h
  · cases h
  · split at h
    · cases h
    · split at h
      · cases h
      · rename_i h₁ h₂ h₃
        exact ⟨by simpa using h₁, by simpa using h₂, by simpa using h₃⟩

/-- `BinaryNormalizedEntropy` : per task, cross entropy, example weight and positive weight add. -/
theorem statCat_bne (ln exp : Q → Q) (fl : Bool) (nt : Nat) :
    StatCat partsAcc (bneStat ln exp fl nt) (catTasks nt) := by
  apply statCat_of_cat2 partsAcc partsAcc_laws.toLaws (bneStat ln exp fl nt) (catTasks nt) cat2Tasks
  · intro b a h
    obtain ⟨hs, he, hr⟩ := bneStat_inv h
    rw [catTasks_one nt b hs]
    rw [bneStat_ok ln exp fl nt b hs he hr] at h
    rw [bneStat_ok ln exp fl nt _ (expand_shapeOk nt b hs) he hr]
    exact h
  · intro b bs _
    exact catTasks_cons nt b bs
  · intro b c a₁ a₂ h₁ h₂
    obtain ⟨bs, be, br⟩ := bneStat_inv h₁
    obtain ⟨cs, ce, cr⟩ := bneStat_inv h₂
    rw [bneStat_ok ln exp fl nt b bs be br] at h₁
    rw [bneStat_ok ln exp fl nt c cs ce cr] at h₂
    cases h₁; cases h₂
    obtain ⟨bx, bt, bw, bz, bzw⟩ := (taskBatch_shapeOk_iff nt b).mp bs
    obtain ⟨cx, ct, cw, cz, czw⟩ := (taskBatch_shapeOk_iff nt c).mp cs
    have hr : (!fl && ((cat2Tasks b c).x.flatten.any (fun q => decide (1 < q))
        || (cat2Tasks b c).x.flatten.any (fun q => decide (q < 0)))) = false := by
      simp only [cat2Tasks, any_flatten_appendRows b.x c.x (by omega)]
      cases fl with
      | true => rfl
      | false =>
        simp only [Bool.not_false, Bool.true_and, Bool.or_eq_false_iff] at br cr ⊢
        exact ⟨⟨br.1, cr.1⟩, br.2, cr.2⟩
    rw [bneStat_ok ln exp fl nt _ (cat2Tasks_shapeOk nt b c bs cs)
      (isEmpty_flatten_appendRows b.x c.x (by omega) be) hr]
    have e : expT (cat2Tasks b c) = appendRows (expT b) (expT c) := rfl
    rw [e]
    simp only [cat2Tasks, partsAcc, ppadd_cons, ppadd_nil_nil, padd_map,
      appendRows_getD b.x c.x (by omega), appendRows_getD b.t c.t (by omega),
      appendRows_getD (expT b) (expT c) (by omega)]
    congr 2
    · apply List.map_congr_left
      intro k _
      rw [bneUpdate_append _ _ _ _ _ _ _ _ _ (bz k) (bzw k)]
    · congr 1
      · apply List.map_congr_left
        intro k _
        rw [bneUpdate_append _ _ _ _ _ _ _ _ _ (bz k) (bzw k)]
      · congr 1
        apply List.map_congr_left
        intro k _
        rw [bneUpdate_append _ _ _ _ _ _ _ _ _ (bz k) (bzw k)]

end TE.FamStat
