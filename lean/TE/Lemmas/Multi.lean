/-
  TE.Lemmas.Multi — helper lemmas for C16: the flat (row-major) tensor primitives of
  TE/Model/Multi.lean hand every row back its own data.
-/
import TE.Model.Multi
import TE.Lemmas.Curve
namespace TE.MultiL
open TE TE.Curve TE.Multi

/-- `masks` and `vals` are two tensors of the same (possibly ragged) shape. -/
def RowsMatch {α : Type} (masks : List (List Bool)) (vals : List (List α)) : Prop :=
  masks.length = vals.length ∧ ∀ p ∈ masks.zip vals, p.1.length = p.2.length

instance {α : Type} (masks : List (List Bool)) (vals : List (List α)) : Decidable (RowsMatch masks vals) := by
  unfold RowsMatch; infer_instance

/-- closed evaluations: `Except Err _` has no `DecidableEq`; decide on the `Option` view. -/
theorem ok_of_toOption {β : Type} {x : Except Err β} {v : β} (h : x.toOption = some v) : x = .ok v := by
  cases x with
  | error e => simp [Except.toOption] at h
  | ok b => simp [Except.toOption] at h; rw [h]

theorem rowsMatch_nil {α : Type} : RowsMatch (α := α) [] [] := ⟨rfl, by simp⟩

theorem rowsMatch_cons {α : Type} {m : List Bool} {v : List α} {ms : List (List Bool)} {vs : List (List α)}
    (h : RowsMatch (m :: ms) (v :: vs)) : m.length = v.length ∧ RowsMatch ms vs := by
  refine ⟨h.2 (m, v) (by simp), ?_, ?_⟩
  · have := h.1; simpa using this
  · intro p hp
    exact h.2 p (by simp [hp])

theorem rowsMatch_map {α β : Type} (rows : List β) (f : β → List Bool) (g : β → List α)
    (h : ∀ r ∈ rows, (f r).length = (g r).length) : RowsMatch (rows.map f) (rows.map g) := by
  refine ⟨by simp, ?_⟩
  intro p hp
  rw [List.zip_map'] at hp
  obtain ⟨r, hr, rfl⟩ := List.mem_map.mp hp
  exact h r hr

/-! ### boolean-mask selection -/

theorem select_nil_left {α : Type} (v : List α) : select [] v = [] := by
  cases v <;> rfl

theorem select_append {α : Type} : ∀ (m₁ : List Bool) (v₁ : List α) (m₂ : List Bool) (v₂ : List α),
    m₁.length = v₁.length → select (m₁ ++ m₂) (v₁ ++ v₂) = select m₁ v₁ ++ select m₂ v₂
  | [], [], _, _, _ => by simp [select]
  | b :: m, x :: v, m₂, v₂, h => by
    have ih := select_append m v m₂ v₂ (by simpa using h)
    cases b <;> simp [select, ih]
  | [], _ :: _, _, _, h => by simp at h
  | _ :: _, [], _, _, h => by simp at h

theorem select_length {α : Type} : ∀ (m : List Bool) (v : List α), m.length = v.length →
    (select m v).length = countTrue m
  | [], [], _ => rfl
  | b :: m, x :: v, h => by
    have ih := select_length m v (by simpa using h)
    cases b <;> simp [select, countTrue, ih] <;> simp [countTrue] at ih ⊢
  | [], _ :: _, h => by simp at h
  | _ :: _, [], h => by simp at h

theorem countTrue_le (m : List Bool) : countTrue m ≤ m.length := List.count_le_length

/-- the flat selection is the concatenation of the per-row selections. -/
theorem selectFlat_rows {α : Type} : ∀ (masks : List (List Bool)) (vals : List (List α)),
    RowsMatch masks vals → selectFlat masks vals = (List.zipWith select masks vals).flatten
  | [], [], _ => rfl
  | m :: ms, v :: vs, h => by
    obtain ⟨h1, h2⟩ := rowsMatch_cons h
    have ih := selectFlat_rows ms vs h2
    unfold selectFlat at ih ⊢
    simp only [List.flatten_cons, List.zipWith_cons_cons]
    rw [select_append _ _ _ _ h1, ih]
  | [], _ :: _, h => by have := h.1; simp at this
  | _ :: _, [], h => by have := h.1; simp at this

/-! ### the shifted mask -/

theorem shiftedMask_ge : ∀ (n cnt : Nat), n ≤ cnt → shiftedMask n cnt = List.replicate n true
  | 0, _, _ => rfl
  | n + 1, cnt, h => by
    have ih := shiftedMask_ge n cnt (by omega)
    unfold shiftedMask at ih ⊢
    simp only [arangeDown, List.map_cons, ih, List.replicate_succ]
    simp [h]

/-- the shifted mask marks exactly the last `cnt` positions. -/
theorem shiftedMask_eq : ∀ (n cnt : Nat), cnt ≤ n →
    shiftedMask n cnt = List.replicate (n - cnt) false ++ List.replicate cnt true
  | 0, cnt, h => by
    have : cnt = 0 := by omega
    subst this; rfl
  | n + 1, cnt, h => by
    by_cases hc : cnt = n + 1
    · subst hc
      rw [shiftedMask_ge _ _ (Nat.le_refl _)]
      simp
    · have hle : cnt ≤ n := by omega
      have ih := shiftedMask_eq n cnt hle
      unfold shiftedMask at ih ⊢
      simp only [arangeDown, List.map_cons, ih]
      have e : n + 1 - cnt = (n - cnt) + 1 := by omega
      rw [e, List.replicate_succ]
      have : ¬ (n + 1 ≤ cnt) := by omega
      simp [this]

/-! ### `masked_scatter_` -/

theorem scatterRow_false (a : Nat) (m : List Bool) (src r s : List Q)
    (h : scatterRow m src = .ok (r, s)) :
    scatterRow (List.replicate a false ++ m) src = .ok (List.replicate a 0 ++ r, s) := by
  induction a with
  | zero => simpa using h
  | succ a ih =>
    rw [List.replicate_succ, List.cons_append, scatterRow, ih]
    simp [List.replicate_succ]

theorem scatterRow_true : ∀ (v rest : List Q),
    scatterRow (List.replicate v.length true) (v ++ rest) = .ok (v, rest)
  | [], rest => by simp [scatterRow]
  | x :: v, rest => by
    have ih := scatterRow_true v rest
    simp only [List.length_cons, List.replicate_succ, List.cons_append, scatterRow, ih]

/-- scattering `v` (followed by whatever) under the shifted mask of `v.length` right-aligns it. -/
theorem scatterRow_shifted (n : Nat) (v rest : List Q) (h : v.length ≤ n) :
    scatterRow (shiftedMask n v.length) (v ++ rest) = .ok (padLeft n v, rest) := by
  rw [shiftedMask_eq n v.length h]
  exact scatterRow_false _ _ _ _ _ (scatterRow_true v rest)

/-- **rows never leak**, with surplus source elements allowed (torch ignores them). -/
theorem maskedScatterFlat_shifted : ∀ (masks : List (List Bool)) (vals : List (List Q)) (rest : List Q),
    RowsMatch masks vals →
    maskedScatterFlat (shiftedMasks masks) ((List.zipWith select masks vals).flatten ++ rest)
      = .ok (List.zipWith (fun m v => padLeft m.length (select m v)) masks vals)
  | [], [], rest, _ => rfl
  | m :: ms, v :: vs, rest, h => by
    obtain ⟨h1, h2⟩ := rowsMatch_cons h
    have ih := maskedScatterFlat_shifted ms vs rest h2
    have hl := select_length m v h1
    have hle : (select m v).length ≤ m.length := by rw [hl]; exact countTrue_le m
    have hs := scatterRow_shifted m.length (select m v) ((List.zipWith select ms vs).flatten ++ rest) hle
    simp only [shiftedMasks, List.map_cons, List.zipWith_cons_cons, List.flatten_cons, List.append_assoc,
      maskedScatterFlat] at ih ⊢
    rw [← hl, hs]
    simp only []
    rw [ih]
  | [], _ :: _, _, h => by have := h.1; simp at this
  | _ :: _, [], _, h => by have := h.1; simp at this

/-! ### `split(sizes)` -/

theorem splitSizes_flatten {α : Type} : ∀ (ls : List (List α)),
    splitSizes (ls.map List.length) ls.flatten = ls
  | [] => rfl
  | l :: ls => by
    simp [splitSizes, splitSizes_flatten ls]

theorem zipWith_select_lengths {α : Type} : ∀ (masks : List (List Bool)) (vals : List (List α)),
    RowsMatch masks vals → (List.zipWith select masks vals).map List.length = masks.map countTrue
  | [], [], _ => rfl
  | m :: ms, v :: vs, h => by
    obtain ⟨h1, h2⟩ := rowsMatch_cons h
    simp [select_length m v h1, zipWith_select_lengths ms vs h2]
  | [], _ :: _, h => by have := h.1; simp at this
  | _ :: _, [], h => by have := h.1; simp at this

/-- `x[mask].split(mask.sum(1).tolist())` hands every row its own selected values. -/
theorem splitSizes_selectFlat {α : Type} (masks : List (List Bool)) (vals : List (List α))
    (h : RowsMatch masks vals) :
    splitSizes (masks.map countTrue) (selectFlat masks vals) = List.zipWith select masks vals := by
  rw [selectFlat_rows masks vals h, ← zipWith_select_lengths masks vals h]
  exact splitSizes_flatten _

/-! ### row-major chunks -/

theorem chunks_flatten {α : Type} (n : Nat) : ∀ (rows : List (List α)), (∀ r ∈ rows, r.length = n) →
    chunks n rows.length rows.flatten = rows
  | [], _ => rfl
  | r :: rows, h => by
    have hr : r.length = n := h r (by simp)
    have ih := chunks_flatten n rows (fun x hx => h x (by simp [hx]))
    simp only [List.length_cons, List.flatten_cons, chunks]
    rw [List.take_left' hr, List.drop_left' hr, ih]

theorem zipWith_flatten {α β γ : Type} (f : α → β → γ) : ∀ (a : List (List α)) (b : List (List β)),
    a.length = b.length → (∀ p ∈ a.zip b, p.1.length = p.2.length) →
    List.zipWith f a.flatten b.flatten = (List.zipWith (List.zipWith f) a b).flatten
  | [], [], _, _ => rfl
  | x :: a, y :: b, hl, h => by
    have hxy : x.length = y.length := h (x, y) (by simp)
    have ih := zipWith_flatten f a b (by simpa using hl) (fun p hp => h p (by simp [hp]))
    simp only [List.flatten_cons, List.zipWith_cons_cons]
    rw [List.zipWith_append hxy, ih]
  | [], _ :: _, hl, _ => by simp at hl
  | _ :: _, [], hl, _ => by simp at hl

/-! ### small list facts -/

theorem zipWith_map_map {α β γ δ : Type} (f : β → γ → δ) (g : α → β) (h : α → γ) (l : List α) :
    List.zipWith f (l.map g) (l.map h) = l.map fun x => f (g x) (h x) := by
  induction l with
  | nil => rfl
  | cons x l ih => simp [ih]

theorem mapM_map_except {α β γ : Type} (f : α → Except Err β) (g : β → γ) (l : List α) :
    l.mapM (fun x => (f x).map g) = (l.mapM f).map (List.map g) := by
  induction l with
  | nil => rfl
  | cons x l ih =>
    rw [List.mapM_cons, List.mapM_cons, ih]
    cases f x with
    | error e => rfl
    | ok b =>
      cases l.mapM f with
      | error e => rfl
      | ok bs => rfl

theorem mapM_ok_mem {α β : Type} {f : α → Except Err β} : ∀ {l : List α} {rs : List β},
    l.mapM f = .ok rs → ∀ r ∈ rs, ∃ x ∈ l, f x = .ok r
  | [], rs, h, r, hr => by
    have : rs = [] := by simpa [List.mapM_nil, pure, Except.pure] using h.symm
    subst this; simp at hr
  | x :: l, rs, h, r, hr => by
    rw [List.mapM_cons] at h
    cases hx : f x with
    | error e => rw [hx] at h; simp [bind, Except.bind] at h
    | ok b =>
      rw [hx] at h
      cases hl : l.mapM f with
      | error e => rw [hl] at h; simp [bind, Except.bind] at h
      | ok bs =>
        rw [hl] at h
        have e : rs = b :: bs := by simpa [bind, Except.bind, pure, Except.pure] using h.symm
        subst e
        rcases List.mem_cons.mp hr with rfl | hr
        · exact ⟨x, by simp, hx⟩
        · obtain ⟨y, hy, e⟩ := mapM_ok_mem hl r hr
          exact ⟨y, by simp [hy], e⟩

/-- position `i` of a successful `mapM` only depends on element `i`. -/
theorem mapM_ok_get {α β : Type} {f : α → Except Err β} : ∀ {l : List α} {rs : List β} (i : Nat) (x : α),
    l.mapM f = .ok rs → l[i]? = some x → ∃ v, f x = .ok v ∧ rs[i]? = some v
  | [], _, i, x, _, hx => by simp at hx
  | y :: l, rs, i, x, h, hx => by
    rw [List.mapM_cons] at h
    cases hy : f y with
    | error e => rw [hy] at h; simp [bind, Except.bind] at h
    | ok b =>
      rw [hy] at h
      cases hl : l.mapM f with
      | error e => rw [hl] at h; simp [bind, Except.bind] at h
      | ok bs =>
        rw [hl] at h
        have e : rs = b :: bs := by simpa [bind, Except.bind, pure, Except.pure] using h.symm
        subst e
        cases i with
        | zero =>
          simp only [List.getElem?_cons_zero, Option.some.injEq] at hx
          subst hx
          exact ⟨b, hy, rfl⟩
        | succ i =>
          simp only [List.getElem?_cons_succ] at hx ⊢
          exact mapM_ok_get i x hl hx

end TE.MultiL
