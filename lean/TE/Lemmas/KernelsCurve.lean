/-
  TE.Lemmas.KernelsCurve — evaluation lemmas for the generated terms of the curve kernels (C05, TE/Gen/KernelsCurve.lean).
-/
import TE.Model.TExpr
import TE.Model.Curve
import TE.Lemmas.Kernels
import TE.Lemmas.KernelsAgg
namespace TE.TXL
open TE TE.TX TE.Count TE.CountL

/-- the vectorised form of the Riemann sum: `sum((x[1:] - x[:-1]) * y[:-1])` -/
theorem riemannSum_eq (xs ys : List Q) (h : xs.length = ys.length) :
    Curve.riemannSum xs ys
      = qsum (List.zipWith (· * ·) (List.zipWith (· - ·) (xs.drop 1) xs.dropLast) ys.dropLast) := by
  fun_induction Curve.riemannSum xs ys with
  | case1 x0 x1 xs y0 ys ih =>
    cases ys with
    | nil => simp at h
    | cons y1 ys =>
      have := ih (by simpa using h)
      simp only [List.drop_succ_cons, List.drop_zero, List.dropLast_cons_cons, List.zipWith_cons_cons] at this ⊢
      rw [this, qsum_eq_sum, qsum_eq_sum, List.sum_cons]
  | case2 xs ys hno =>
    match xs, ys, hno with
    | [], _, _ => simp [qsum]
    | [_], _, _ => simp [qsum]
    | x0 :: x1 :: xs, [], _ => simp at h
    | x0 :: x1 :: xs, y0 :: ys, hno => exact absurd rfl (hno x0 x1 xs y0 ys rfl)

/-! ## the descending sort of the curve kernels -/

/-- the (score, source index) pairs of `input.sort(descending=True)` on exact scores -/
def sortedIdx (xs : List Q) : List (Q × Nat) :=
  (xs.zip (List.range xs.length)).mergeSort fun x y => decide (y.1 ≤ x.1)

theorem xargsortDesc_val (xs : List Q) : xargsortDesc (xs.map XQ.val) = (sortedIdx xs).map valIdx := by
  unfold xargsortDesc sortedIdx
  rw [List.length_map]
  have hz : (xs.map XQ.val).zip (List.range xs.length) = (xs.zip (List.range xs.length)).map valIdx := by
    rw [show List.range xs.length = (List.range xs.length).map id from (List.map_id _).symm, List.zip_map]
    simp [valIdx, Prod.map]
  rw [hz]
  exact (List.map_mergeSort (fun a _ b _ => by simp only [valIdx, xle_val])).symm

theorem mem_sortedIdx_lt (xs : List Q) (p : Q × Nat) (h : p ∈ sortedIdx xs) : p.2 < xs.length := by
  have := (List.mem_mergeSort.mp h)
  have := (List.of_mem_zip this).2
  simpa using this

theorem zip_eq_zip_range_getD {α β : Type} (xs : List α) (ts : List β) (d : β) (h : xs.length = ts.length) :
    xs.zip ts = (xs.zip (List.range xs.length)).map fun p => (p.1, ts.getD p.2 d) := by
  apply List.ext_getElem
  · simp [h]
  · intro i h1 h2
    simp only [List.getElem_zip, List.getElem_map, List.getElem_range, List.getD_eq_getElem?_getD]
    have : i < ts.length := by simp at h1; omega
    simp [this]

/-- the model's sorted samples are the images of the sorted (score, index) pairs -/
theorem sortDesc_posPts (xs ts : List Q) (h : xs.length = ts.length) :
    Curve.sortDesc (Curve.posPts xs ts)
      = (sortedIdx xs).map fun p => ⟨p.1, b2q (ts.getD p.2 0 == 1), 1 - b2q (ts.getD p.2 0 == 1)⟩ := by
  unfold Curve.sortDesc Curve.posPts sortedIdx
  rw [zip_eq_zip_range_getD xs ts 0 h, List.map_map]
  exact (List.map_mergeSort (f := fun p : Q × Nat => (⟨p.1, b2q (ts.getD p.2 0 == 1), 1 - b2q (ts.getD p.2 0 == 1)⟩ : Curve.Pt))
    (r := fun x y => decide (y.1 ≤ x.1)) (s := fun x y => decide (y.s ≤ x.s)) (fun a _ b _ => rfl)).symm

/-! ## cumulative sums, the tie mask, mask selection -/

theorem xcumsumFrom_val (acc : Q) (l : List Q) :
    xcumsumFrom (.val acc) (l.map XQ.val) = (Curve.cumsumFrom acc l).map XQ.val := by
  induction l generalizing acc with
  | nil => rfl
  | cons x xs ih => simp only [List.map_cons, xcumsumFrom, Curve.cumsumFrom, xadd_val, ih]

theorem xcumsum_map {α : Type} (l : List α) (f : α → Q) :
    xcumsumFrom (.val 0) (l.map fun a => XQ.val (f a)) = (Curve.cumsum (l.map f)).map XQ.val := by
  have := xcumsumFrom_val 0 (l.map f)
  simpa only [List.map_map, Function.comp_def, Curve.cumsum] using this

/-- `F.pad(threshold.diff() != 0, [0, 1], value=1.0)` on exact scores = `diffMask` (non-empty input) -/
theorem diffMask_val (l : List Q) (h : l ≠ []) :
    (List.map (fun x => XQ.val (b2q (xcmp .ne x (.val 0)))) (xdiff (l.map XQ.val))) ++ [XQ.val 1]
      = (Curve.diffMask l).map fun m => XQ.val (b2q m) := by
  induction l with
  | nil => exact absurd rfl h
  | cons x xs ih =>
    cases xs with
    | nil => simp [xdiff, Curve.diffMask, b2q]
    | cons y ys =>
      have := ih (by simp)
      simp only [List.map_cons, xdiff, Curve.diffMask, List.cons_append, xsub_val, xcmp_val, qcmp] at this ⊢
      rw [this]
      rfl

theorem maskSel_select {α : Type} (l : List α) (F : α → XQ) (m : List Bool) :
    (((l.map F).zip (m.map fun b => XQ.val (b2q b))).filter fun p => xtruthy p.2).map (·.1)
      = (Curve.select m l).map F := by
  induction m generalizing l with
  | nil => cases l <;> simp [Curve.select]
  | cons b m ih =>
    cases l with
    | nil => simp [Curve.select]
    | cons x l =>
      simp only [List.map_cons, List.zip_cons_cons, List.filter_cons, xtruthy_b2q, Curve.select]
      cases b <;> simp [ih]

theorem select_length {α β : Type} (m : List Bool) (a : List α) (b : List β) (h : a.length = b.length) :
    (Curve.select m a).length = (Curve.select m b).length := by
  induction m generalizing a b with
  | nil => cases a <;> cases b <;> simp [Curve.select]
  | cons x m ih =>
    cases a with
    | nil => cases b with
      | nil => simp [Curve.select]
      | cons _ _ => simp at h
    | cons p a =>
      cases b with
      | nil => simp at h
      | cons q b =>
        simp only [Curve.select]
        cases x <;> simp [ih a b (by simpa using h)]

theorem diffMask_length (l : List Q) : (Curve.diffMask l).length = l.length := by
  induction l with
  | nil => rfl
  | cons x xs ih =>
    cases xs with
    | nil => rfl
    | cons y ys => simp only [Curve.diffMask, List.length_cons] at ih ⊢; omega

theorem xnanTo_one (x : XQ) : xnanTo (.val 1) x = Curve.nanTo1 x := by cases x <;> rfl

theorem firstV_vec (l : List XQ) :
    firstV (.vec l) = match l.head? with | some x => .ok (.scalar x) | none => .error .index := by
  cases l <;> rfl

theorem cumsumFrom_length (acc : Q) (l : List Q) : (Curve.cumsumFrom acc l).length = l.length := by
  induction l generalizing acc with
  | nil => rfl
  | cons x xs ih => simp only [Curve.cumsumFrom, List.length_cons, ih]

theorem cumsum_length (l : List Q) : (Curve.cumsum l).length = l.length := cumsumFrom_length 0 l

theorem select_map {α β : Type} (m : List Bool) (l : List α) (f : α → β) :
    Curve.select m (l.map f) = (Curve.select m l).map f := by
  induction m generalizing l with
  | nil => cases l <;> simp [Curve.select]
  | cons b m ih =>
    cases l with
    | nil => simp [Curve.select]
    | cons x l =>
      simp only [List.map_cons, Curve.select]
      cases b <;> simp [ih]

theorem lastV_map (l : List Q) :
    lastV (.vec (l.map XQ.val)) = match l.getLast? with | some x => .ok (.scalar (.val x)) | none => .error .index := by
  simp only [lastV, List.getLast?_map]
  cases l.getLast? <;> rfl

/-! ## `masked_scatter_` with the right-aligned mask of the AUROC kernel -/

theorem bzip_single_left (f : XQ → XQ → XQ) (x : XQ) (b : List XQ) : bzip f [x] b = .ok (b.map (f x)) := by
  unfold bzip
  split
  · rename_i h
    match b, h with
    | [y], _ => rfl
  · rfl

theorem xmaskedScatter_true (src : List XQ) :
    xmaskedScatter (List.replicate src.length (.val 0)) (List.replicate src.length (.val 1)) src = .ok src := by
  induction src with
  | nil => rfl
  | cons s ss ih =>
    simp only [List.length_cons, List.replicate_succ, xmaskedScatter, ih, Except.map]
    rfl

theorem xmaskedScatter_pad (k : Nat) (src : List XQ) :
    xmaskedScatter (List.replicate (k + src.length) (.val 0))
        (List.replicate k (.val 0) ++ List.replicate src.length (.val 1)) src
      = .ok (List.replicate k (.val 0) ++ src) := by
  induction k with
  | zero => simpa using xmaskedScatter_true src
  | succ k ih =>
    have : k + 1 + src.length = (k + src.length) + 1 := by omega
    rw [this]
    simp only [List.replicate_succ, List.cons_append, xmaskedScatter, ih, Except.map]
    rfl

/-- the shifted mask `count >= arange(n, 0, -1)`: the last `c` positions -/
theorem shifted_mask_form (n c : Nat) (hc : c ≤ n) :
    ((List.range n).map fun i => XQ.val (b2q (decide ((((n - i : Nat) : Nat) : Q) ≤ ((c : Nat) : Q)))))
      = List.replicate (n - c) (.val 0) ++ List.replicate c (.val 1) := by
  apply List.ext_getElem
  · simp; omega
  · intro i h1 h2
    simp only [List.length_map, List.length_range] at h1
    simp only [List.getElem_map, List.getElem_range, Rat.natCast_le_natCast]
    by_cases hi : i < n - c
    · rw [List.getElem_append_left (by simpa using hi)]
      have : ¬ (n - i ≤ c) := by omega
      simp [this, b2q]
    · rw [List.getElem_append_right (by simpa using hi)]
      have : n - i ≤ c := by omega
      simp [this, b2q]

theorem select_length_count {α : Type} (m : List Bool) (l : List α) (h : l.length = m.length) :
    (Curve.select m l).length = m.countP id := by
  induction m generalizing l with
  | nil => cases l <;> simp [Curve.select]
  | cons b m ih =>
    cases l with
    | nil => simp at h
    | cons x l =>
      simp only [Curve.select, List.countP_cons]
      cases b <;> simp [ih l (by simpa using h)]

theorem countP_le_length (m : List Bool) : m.countP id ≤ m.length := List.countP_le_length

theorem qsum_map_b2q (m : List Bool) : qsum (m.map b2q) = ((m.countP id : Nat) : Q) := by
  have := qsum_b2q m id
  simpa using this

theorem arangeDownV_nat (n : Nat) :
    arangeDownV (.int (n : Int)) = .ok (.vec ((List.range n).map fun i => XQ.val (((n - i : Nat) : Nat) : Q))) := by
  simp [arangeDownV]

/-- `zeros.masked_scatter_(count >= arange(n, 0, -1), cum[mask])` = `padLeft`: the selected values right-aligned -/
theorem scatter_padLeft (m : List Bool) (cum : List Q) (h : cum.length = m.length) :
    xmaskedScatter (List.replicate cum.length (.val 0))
        ((List.range cum.length).map fun i =>
          XQ.val (b2q (decide ((((cum.length - i : Nat) : Nat) : Q) ≤ ((m.countP id : Nat) : Q)))))
        ((Curve.select m cum).map XQ.val)
      = .ok ((Curve.padLeft cum.length (Curve.select m cum)).map XQ.val) := by
  have hc := select_length_count m cum h
  have hle : m.countP id ≤ cum.length := by rw [h]; exact List.countP_le_length
  rw [shifted_mask_form cum.length (m.countP id) hle]
  have hpad := xmaskedScatter_pad (cum.length - m.countP id) ((Curve.select m cum).map XQ.val)
  simp only [List.length_map, hc] at hpad
  rw [show cum.length - m.countP id + m.countP id = cum.length by omega] at hpad
  rw [hpad]
  simp only [Curve.padLeft, hc, List.map_append, List.map_replicate]

theorem binPts_ones (xs ts : List Q) (h : xs.length = ts.length) :
    Curve.binPts xs ts (ts.map fun _ => 1)
      = (xs.zip (List.range xs.length)).map fun p => ⟨p.1, 1 * ts.getD p.2 0, 1 * (1 - ts.getD p.2 0)⟩ := by
  unfold Curve.binPts
  apply List.ext_getElem
  · simp [h]
  · intro i h1 h2
    have hi : i < ts.length := by simp at h1; omega
    simp [List.getD_eq_getElem?_getD, hi]

theorem sortDesc_binPts_ones (xs ts : List Q) (h : xs.length = ts.length) :
    Curve.sortDesc (Curve.binPts xs ts (ts.map fun _ => 1))
      = (sortedIdx xs).map fun p => ⟨p.1, 1 * ts.getD p.2 0, 1 * (1 - ts.getD p.2 0)⟩ := by
  rw [binPts_ones xs ts h]
  unfold Curve.sortDesc sortedIdx
  exact (List.map_mergeSort (f := fun p : Q × Nat => (⟨p.1, 1 * ts.getD p.2 0, 1 * (1 - ts.getD p.2 0)⟩ : Curve.Pt))
    (r := fun x y => decide (y.1 ≤ x.1)) (s := fun x y => decide (y.s ≤ x.s)) (fun a _ b _ => rfl)).symm

theorem trapz_swap (x y : List Q) : Agg.trapz x y = Curve.trapz y x := by
  fun_induction Agg.trapz x y with
  | case1 x0 x1 xs y0 y1 ys ih => simp only [Curve.trapz, ih]
  | case2 xs ys hno =>
    match xs, ys, hno with
    | [], [], _ => simp [Curve.trapz]
    | [], [_], _ => simp [Curve.trapz]
    | [], _ :: _ :: _, _ => simp [Curve.trapz]
    | [_], [], _ => simp [Curve.trapz]
    | [_], [_], _ => simp [Curve.trapz]
    | [_], _ :: _ :: _, _ => simp [Curve.trapz]
    | _ :: _ :: _, [], _ => simp [Curve.trapz]
    | _ :: _ :: _, [_], _ => simp [Curve.trapz]
    | x0 :: x1 :: xs, y0 :: y1 :: ys, hno => exact absurd rfl (hno x0 x1 xs y0 y1 ys rfl)

theorem padLeft_length_eq (n : Nat) (a b : List Q) (h : a.length = b.length) :
    (Curve.padLeft n a).length = (Curve.padLeft n b).length := by
  simp [Curve.padLeft, h]

theorem binPts_idx (xs ts ws : List Q) (h : xs.length = ts.length) (hw : ts.length = ws.length) :
    Curve.binPts xs ts ws
      = (xs.zip (List.range xs.length)).map fun p =>
          ⟨p.1, ws.getD p.2 0 * ts.getD p.2 0, ws.getD p.2 0 * (1 - ts.getD p.2 0)⟩ := by
  unfold Curve.binPts
  apply List.ext_getElem
  · simp [h, hw]
  · intro i h1 h2
    have hi : i < ts.length := by simp at h1; omega
    have hi' : i < ws.length := by omega
    simp [List.getD_eq_getElem?_getD, hi, hi']

theorem sortDesc_binPts (xs ts ws : List Q) (h : xs.length = ts.length) (hw : ts.length = ws.length) :
    Curve.sortDesc (Curve.binPts xs ts ws)
      = (sortedIdx xs).map fun p => ⟨p.1, ws.getD p.2 0 * ts.getD p.2 0, ws.getD p.2 0 * (1 - ts.getD p.2 0)⟩ := by
  rw [binPts_idx xs ts ws h hw]
  unfold Curve.sortDesc sortedIdx
  exact (List.map_mergeSort
    (f := fun p : Q × Nat => (⟨p.1, ws.getD p.2 0 * ts.getD p.2 0, ws.getD p.2 0 * (1 - ts.getD p.2 0)⟩ : Curve.Pt))
    (r := fun x y => decide (y.1 ≤ x.1)) (s := fun x y => decide (y.s ≤ x.s)) (fun a _ b _ => rfl)).symm

theorem fullV_one (v : Int) : fullV (.int 1) (.int v) = .ok (.vec [XQ.val ((v : Int) : Q)]) := rfl

/-! ### `torch.max(x)` of a whole tensor, `torch.abs` (recall at fixed precision) -/

theorem xmax_val (a b : Q) : xmax (.val a) (.val b) = .val (Curve.qmax a b) := by
  simp only [xmax, xisNan, xlt, Curve.qmax, Bool.false_or, Bool.false_eq_true, if_false, decide_eq_true_eq]
  split <;> rfl

theorem foldl_xmax_val (l : List Q) (a : Q) :
    (l.map XQ.val).foldl xmax (.val a) = .val (l.foldl Curve.qmax a) := by
  induction l generalizing a with
  | nil => rfl
  | cons x xs ih => simp only [List.map_cons, List.foldl_cons, xmax_val, ih]

theorem maxAllV_val (l : List Q) :
    maxAllV (.vec (l.map XQ.val)) = (Curve.listMax l).map fun q => Val.scalar (.val q) := by
  cases l with
  | nil => rfl
  | cons x xs => simp only [List.map_cons, maxAllV, foldl_xmax_val, Curve.listMax, Except.map]

theorem maxAllV_map {α : Type} (l : List α) (g : α → Q) :
    maxAllV (.vec (l.map fun a => XQ.val (g a))) = (Curve.listMax (l.map g)).map fun q => Val.scalar (.val q) := by
  rw [← maxAllV_val, List.map_map]; rfl

theorem xabs_val (a : Q) : xabs (.val a) = .val (Curve.qabs a) := rfl

theorem fullV_one_flt (v : Q) : fullV (.int 1) (.num v) = .ok (.vec [XQ.val v]) := rfl

theorem zip_fst_snd {α β : Type} (W : List (α × β)) : (W.map (·.1)).zip (W.map (·.2)) = W := by
  induction W with
  | nil => rfl
  | cons w W ih => simp [ih]

/-! ### the Python-level loop over tasks (`_binary_auprc_compute`) -/

/-- `p, r, t = _compute_for_each_class(a, b, 1); _riemann_integral(r, p)` on argument terms `a`, `b` -/
def auprcTerm (cfe ri a b : TExpr) : TExpr :=
  .call2 "x" (.fst (.snd (.call3 "input" a "target" b "pos_label" (.int 1) cfe))) "y"
    (.fst (.call3 "input" a "target" b "pos_label" (.int 1) cfe)) ri

theorem rowDynV_nat (M : List (List XQ)) (j : Nat) (hj : j < M.length) :
    rowDynV (.mat M) (.int ((j : Nat) : Int)) = .ok (.vec M[j]) := by
  have h0 : (0 : Int) ≤ (j : Int) := by omega
  simp only [rowDynV, h0, if_true, Int.toNat_natCast, List.getElem?_eq_getElem hj]

theorem range_map_getD {α β : Type} (l : List α) (d : α) (F : α → β) :
    (List.range l.length).map (fun j => F (l.getD j d)) = l.map F := by
  apply List.ext_getElem (by simp)
  intro j h1 h2
  simp at h1
  simp [List.getD_eq_getElem?_getD, h1]

theorem some_beq_nan (x : XQ) : ((some x : Option XQ) == some XQ.nan) = xisNan x := by
  cases x <;> first | rfl | decide

end TE.TXL
