/-
  TE.Lemmas.SyncPrim — worlds given as `xs.map P` (one program per member), the
  `Yields` relation, and what one rendezvous of each kind delivers.
-/
import TE.Lemmas.SyncRun
namespace TE.Sync

variable {A B R X : Type}

/-- the world `ps` (members in group order) runs to completion and member `i` returns `rs[i]`. -/
def Yields (g : List Nat) (ps : List (Prog R)) (rs : List R) : Prop := (runWorldL g ps).out = .ok rs

theorem runWorld_out_length (g : List Nat) :
    ∀ (m : Prog R) (ms : List (Prog R)) (as : List R), (runWorld g m ms).out = .ok as → as.length = ms.length + 1 := by
  intro m
  induction m with
  | done a =>
    intro ms as h
    cases hd : dones ms with
    | none => simp [runWorld, hd] at h
    | some rs =>
      simp only [runWorld, hd, Except.ok.injEq] at h
      subst h
      rw [dones_eq_some hd]; simp
  | fail e => intro ms as h; simp [runWorld] at h
  | coll q k ih =>
    intro ms as h
    cases hq : reqsOf ms with
    | none => simp [runWorld, hq] at h
    | some qs =>
      cases hx : exchange g (q :: qs) with
      | error e => simp [runWorld, hq, hx] at h
      | ok resps =>
        cases resps with
        | nil => simp [runWorld, hq, hx] at h
        | cons r rs =>
          rw [runWorld_coll_out g q k ms qs r rs hq hx] at h
          rw [ih r _ as h, stepAll_length]

theorem bindAll_map (xs : List X) (M : X → Prog A) (F : X → A → Prog B) :
    bindAll (xs.map M) (xs.map F) = xs.map fun x => (M x).bind (F x) := by
  induction xs with
  | nil => rfl
  | cons x xs ih => simp only [bindAll] at ih; simp [bindAll, ih]

theorem applyAll_map (xs : List X) (F : X → A → Prog B) (G : X → A) :
    applyAll (xs.map F) (xs.map G) = xs.map fun x => F x (G x) := by
  induction xs with
  | nil => rfl
  | cons x xs ih => simp only [applyAll] at ih; simp [applyAll, ih]

/-- sequencing for worlds indexed by `xs`: run `M`, continue with `F` on the own result. -/
theorem out_bind_map (g : List Nat) (xs : List X) (M : X → Prog A) (F : X → A → Prog B) (G : X → A)
    (h : Yields g (xs.map M) (xs.map G)) :
    (runWorldL g (xs.map fun x => (M x).bind (F x))).out = (runWorldL g (xs.map fun x => F x (G x))).out := by
  cases xs with
  | nil => rfl
  | cons x xs =>
    have := (runWorld_bind g (M x) (xs.map M) (F x) (xs.map F) (G x) (xs.map G) (by simp) (by simpa [Yields, runWorldL] using h)).1
    rw [bindAll_map, applyAll_map] at this
    simpa [runWorldL] using this

theorem Yields.bind_map {g : List Nat} {xs : List X} {M : X → Prog A} {F : X → A → Prog B} {G : X → A}
    {rs : List B} (h1 : Yields g (xs.map M) (xs.map G)) (h2 : Yields g (xs.map fun x => F x (G x)) rs) :
    Yields g (xs.map fun x => (M x).bind (F x)) rs := by
  unfold Yields; rw [out_bind_map g xs M F G h1]; exact h2

theorem yields_done (g : List Nat) (xs : List X) (G : X → R) :
    Yields g (xs.map fun x => Prog.done (G x)) (xs.map G) := by
  cases xs with
  | nil => rfl
  | cons x xs =>
    have : dones (xs.map fun x => Prog.done (G x)) = some (xs.map G) := by
      have := dones_map_done (xs.map G); simpa [List.map_map, Function.comp_def] using this
    simp [Yields, runWorldL, runWorld, this]

/-- one rendezvous: if the transport answers `rs`, the world continues with the continuations. -/
theorem out_coll_map (g : List Nat) (xs : List X) (Q : X → Req) (K : X → Resp → Prog R) (rs : List Resp)
    (hl : rs.length = xs.length) (hx : exchange g (xs.map Q) = .ok rs) :
    (runWorldL g (xs.map fun x => Prog.coll (Q x) (K x))).out = (runWorldL g (List.zipWith K xs rs)).out := by
  cases xs with
  | nil => cases rs with
    | nil => rfl
    | cons r rs => simp at hl
  | cons x xs =>
    cases rs with
    | nil => simp at hl
    | cons r rs =>
      have hq : reqsOf (xs.map fun x => Prog.coll (Q x) (K x)) = some (xs.map Q) := by
        have := reqsOf_map_coll (xs.map fun x => (Q x, K x)); simpa [List.map_map, Function.comp_def] using this
      have hs : stepAll (xs.map fun x => Prog.coll (Q x) (K x)) rs = List.zipWith K xs rs := by
        have := stepAll_map_coll (xs.map fun x => (Q x, K x)) rs (by simpa using hl)
        simpa [List.map_map, List.zipWith_map_left, Function.comp_def] using this
      simp only [runWorldL, List.map_cons, List.zipWith_cons_cons]
      rw [runWorld_coll_out g (Q x) (K x) _ (xs.map Q) r rs hq (by simpa using hx), hs]

theorem zipWith_map_self (xs : List X) (K : X → Resp → Prog R) (H : X → Resp) :
    List.zipWith K xs (xs.map H) = xs.map fun x => K x (H x) := by
  induction xs with
  | nil => rfl
  | cons x xs ih => simp [ih]

/-- …in the common case that the answer of member `x` is `H x`. -/
theorem Yields.coll_map {g : List Nat} {xs : List X} {Q : X → Req} {K : X → Resp → Prog R} {H : X → Resp}
    {rs : List R} (hx : exchange g (xs.map Q) = .ok (xs.map H))
    (h2 : Yields g (xs.map fun x => K x (H x)) rs) :
    Yields g (xs.map fun x => Prog.coll (Q x) (K x)) rs := by
  unfold Yields
  rw [out_coll_map g xs Q K (xs.map H) (by simp) hx, zipWith_map_self]; exact h2

/-! ### what the transport answers -/

theorem tensorsOf_map (xs : List X) (T : X → Tensor) :
    tensorsOf (xs.map fun x => Req.allGather (T x)) = some (xs.map T) := by
  induction xs with
  | nil => rfl
  | cons x xs ih => simp [tensorsOf, ih]

theorem gathersOf_map (xs : List X) (d : Nat) (h : X → Bool) (T : X → Tensor) :
    gathersOf (xs.map fun x => Req.gather d (h x) (T x)) = some (xs.map fun x => (d, h x, T x)) := by
  induction xs with
  | nil => rfl
  | cons x xs ih => simp [gathersOf, ih]

theorem objsOf_map (xs : List X) (O : X → Obj) :
    objsOf (xs.map fun x => Req.allGatherObj (O x)) = some (xs.map O) := by
  induction xs with
  | nil => rfl
  | cons x xs ih => simp [objsOf, ih]

theorem gatherObjsOf_map (xs : List X) (d : Nat) (h : X → Bool) (O : X → Obj) :
    gatherObjsOf (xs.map fun x => Req.gatherObj d (h x) (O x)) = some (xs.map fun x => (d, h x, O x)) := by
  induction xs with
  | nil => rfl
  | cons x xs ih => simp [gatherObjsOf, ih]

theorem bcastsOf_map (xs : List X) (s : Nat) (O : X → Obj) :
    bcastsOf (xs.map fun x => Req.broadcastObj s (O x)) = some (xs.map fun x => (s, O x)) := by
  induction xs with
  | nil => rfl
  | cons x xs ih => simp [bcastsOf, ih]

/-- all members' tensors have the dtype and shape `(dt, sh)`. -/
def SameSig (xs : List X) (T : X → Tensor) (dt : DType) (sh : List Nat) : Prop :=
  ∀ x ∈ xs, (T x).dtype = dt ∧ (T x).shape = sh

theorem sameSig_of (xs : List X) (T : X → Tensor) (dt : DType) (sh : List Nat) (t0 : Tensor)
    (h0 : t0.dtype = dt ∧ t0.shape = sh) (h : SameSig xs T dt sh) : sameSig t0 (xs.map T) = true := by
  simp only [sameSig, List.all_map, List.all_eq_true]
  intro x hx
  simp [Function.comp, (h x hx).1, (h x hx).2, h0.1, h0.2]

theorem exchange_allGather (g : List Nat) (xs : List X) (T : X → Tensor) (dt : DType) (sh : List Nat)
    (h : SameSig xs T dt sh) :
    exchange g (xs.map fun x => Req.allGather (T x)) = .ok (xs.map fun _ => Resp.tensors (xs.map T)) := by
  cases xs with
  | nil => rfl
  | cons x xs =>
    have ht := tensorsOf_map (x :: xs) T
    have hs := sameSig_of (x :: xs) T dt sh (T x) (h x (List.mem_cons_self ..)) h
    simp only [List.map_cons] at ht hs ⊢
    simp only [exchange, ht, hs, if_true]
    simp

theorem exchange_allGatherObj (g : List Nat) (xs : List X) (O : X → Obj) :
    exchange g (xs.map fun x => Req.allGatherObj (O x)) = .ok (xs.map fun _ => Resp.objs (xs.map O)) := by
  cases xs with
  | nil => rfl
  | cons x xs =>
    have ho := objsOf_map (x :: xs) O
    simp only [List.map_cons] at ho ⊢
    simp only [exchange, ho]
    simp

/-- torch reads the root `gd` (a GLOBAL rank) as the member with group rank `d`. -/
def RootOk (g : List Nat) (d gd : Nat) : Prop := g.contains gd = true ∧ g.idxOf gd = d
instance (g : List Nat) (d gd : Nat) : Decidable (RootOk g d gd) := by unfold RootOk; exact inferInstance

/-- in a group without repeated members, `_to_global_rank` of a group rank is read back by torch as
    that very member. -/
theorem rootOk_of_nodup (g : List Nat) (hg : g.Nodup) (d : Nat) (hd : d < g.length) :
    g[d]? = some g[d] ∧ RootOk g d g[d] :=
  ⟨List.getElem?_eq_getElem hd, List.contains_iff_mem.mpr (List.getElem_mem hd), hg.idxOf_getElem d hd⟩

theorem rootCheck_ok (g : List Nat) (d gd : Nat) (hr : RootOk g d gd) (xs : List X) (idx : X → Nat)
    (hidx : xs.map idx = List.range xs.length) :
    rootCheck g gd (xs.map fun _ => gd) (xs.map fun x => idx x == d) = .ok d := by
  have h1 : (xs.map fun _ => gd).all (· == gd) = true := by simp
  have h3 : (xs.map fun x => idx x == d) = (List.range (xs.map fun x => idx x == d).length).map (· == d) := by
    rw [List.length_map, ← hidx, List.map_map]; rfl
  simp only [rootCheck, h1, hr.1, hr.2, Bool.not_true, Bool.false_eq_true, if_false]
  rw [if_pos (by rw [beq_iff_eq]; exact h3)]

theorem exchange_gather (g : List Nat) (d gd : Nat) (hr : RootOk g d gd) (xs : List X) (idx : X → Nat)
    (hidx : xs.map idx = List.range xs.length) (T : X → Tensor) (dt : DType) (sh : List Nat)
    (h : SameSig xs T dt sh) :
    exchange g (xs.map fun x => Req.gather gd (idx x == d) (T x)) =
      .ok (xs.map fun x => if idx x == d then Resp.tensors (xs.map T) else Resp.unit) := by
  cases xs with
  | nil => rfl
  | cons x xs =>
    have hg := gathersOf_map (x :: xs) gd (fun x => idx x == d) T
    have hs := sameSig_of (x :: xs) T dt sh (T x) (h x (List.mem_cons_self ..)) h
    have hrc := rootCheck_ok g d gd hr (x :: xs) idx hidx
    simp only [List.map_cons] at hg hs hrc ⊢
    simp only [exchange, hg]
    simp only [List.map_cons, List.map_map, Function.comp_def, hs, Bool.not_true, Bool.false_eq_true, if_false, hrc]
    have : (List.range (xs.length + 1)) = idx x :: xs.map idx := by
      simpa using hidx.symm
    simp [this, Function.comp_def]

theorem exchange_gatherObj (g : List Nat) (d gd : Nat) (hr : RootOk g d gd) (xs : List X) (idx : X → Nat)
    (hidx : xs.map idx = List.range xs.length) (O : X → Obj) :
    exchange g (xs.map fun x => Req.gatherObj gd (idx x == d) (O x)) =
      .ok (xs.map fun x => if idx x == d then Resp.objs (xs.map O) else Resp.unit) := by
  cases xs with
  | nil => rfl
  | cons x xs =>
    have hg := gatherObjsOf_map (x :: xs) gd (fun x => idx x == d) O
    have hrc := rootCheck_ok g d gd hr (x :: xs) idx hidx
    simp only [List.map_cons] at hg hrc ⊢
    simp only [exchange, hg]
    simp only [List.map_cons, List.map_map, Function.comp_def, hrc]
    have : (List.range (xs.length + 1)) = idx x :: xs.map idx := by
      simpa using hidx.symm
    simp [this, Function.comp_def]

end TE.Sync
