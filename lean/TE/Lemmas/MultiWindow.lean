/-
  TE.Lemmas.MultiWindow — windowed metrics with `num_tasks > 1`: every operation of the ring
  buffer commutes with a homomorphism of the statistics, in particular with the projection
  onto one task; so task `t` of a multi-task window is the single-task window of row `t`.
-/
import TE.Model.Window
import TE.Lemmas.Parts
namespace TE.MultiL
open TE TE.Window

variable {α β : Type}

/-- a homomorphism between two accumulators. -/
structure AccHom (M : Acc α) (M' : Acc β) (f : α → β) : Prop where
  zero : f M.zero = M'.zero
  add  : ∀ a b, f (M.add a b) = M'.add (f a) (f b)

/-- the image of a ring-buffer state under a map of the slots. -/
def mapRing (f : α → β) (r : Ring α) : Ring β := ⟨r.cap, r.buf.map f, r.next, r.total, f r.life⟩

theorem init_map {M : Acc α} {M' : Acc β} {f : α → β} (H : AccHom M M' f) (N : Nat) :
    mapRing f (Ring.init M N) = Ring.init M' N := by
  simp [mapRing, Ring.init, H.zero]

theorem push_map {M : Acc α} {M' : Acc β} {f : α → β} (H : AccHom M M' f) (r : Ring α) (x : α) :
    mapRing f (r.push M x) = (mapRing f r).push M' (f x) := by
  simp [mapRing, Ring.push, H.add, List.map_set]

theorem foldl_add_map {M : Acc α} {M' : Acc β} {f : α → β} (H : AccHom M M' f) (l : List α) (a : α) :
    f (l.foldl M.add a) = (l.map f).foldl M'.add (f a) := by
  induction l generalizing a with
  | nil => rfl
  | cons x l ih => simp [ih, H.add]

theorem sumA_map {M : Acc α} {M' : Acc β} {f : α → β} (H : AccHom M M' f) (l : List α) :
    f (sumA M l) = sumA M' (l.map f) := by
  unfold sumA
  rw [foldl_add_map H, H.zero]

theorem windowed_map {M : Acc α} {M' : Acc β} {f : α → β} (H : AccHom M M' f) (whole : Bool) (r : Ring α) :
    f (r.windowed M whole) = (mapRing f r).windowed M' whole := by
  have e : (mapRing f r).windowed M' whole
      = if whole || decide (r.cap ≤ r.total) then sumA M' (r.buf.map f) else sumA M' ((r.buf.map f).take r.next) := rfl
  rw [e]
  unfold Ring.windowed
  split
  · exact sumA_map H _
  · rw [sumA_map H, List.map_take]

theorem lead_map (f : α → β) (r : Ring α) : (mapRing f r).lead = r.lead.map f := by
  simp [Ring.lead, mapRing, List.map_take]

theorem foldl_life_map {M : Acc α} {M' : Acc β} {f : α → β} (H : AccHom M M' f) (srcs : List (Ring α)) (a : α) :
    f (srcs.foldl (fun a s => M.add a s.life) a)
      = (srcs.map (mapRing f)).foldl (fun a s => M'.add a s.life) (f a) := by
  induction srcs generalizing a with
  | nil => rfl
  | cons s srcs ih => simp [ih, H.add, mapRing]

theorem merge_map {M : Acc α} {M' : Acc β} {f : α → β} (H : AccHom M M' f) (r : Ring α) (srcs : List (Ring α)) :
    mapRing f (r.merge M srcs) = (mapRing f r).merge M' (srcs.map (mapRing f)) := by
  have hl : (srcs.map (mapRing f)).flatMap Ring.lead = (srcs.flatMap Ring.lead).map f := by
    induction srcs with
    | nil => rfl
    | cons s srcs ih => simp [List.flatMap_cons, ih, lead_map]
  have hc : (srcs.map (mapRing f)).map (·.cap) = srcs.map (·.cap) := by
    simp [List.map_map, Function.comp, mapRing]
  have ht : (srcs.map (mapRing f)).map (·.total) = srcs.map (·.total) := by
    simp [List.map_map, Function.comp, mapRing]
  have hm : (srcs.map (mapRing f)).map (fun s => min s.total s.cap) = srcs.map (fun s => min s.total s.cap) := by
    simp [List.map_map, Function.comp, mapRing]
  have hf := foldl_life_map H srcs r.life
  unfold Ring.merge
  simp only [hl, hc, ht, hm, lead_map]
  simp only [mapRing, Ring.mk.injEq, true_and, hf, and_true]
  simp [Ring.lead, H.zero, List.map_append, List.map_replicate, List.map_take]

theorem run_map {M : Acc α} {M' : Acc β} {f : α → β} (H : AccHom M M' f) (N : Nat) (us : List α) :
    mapRing f (Ring.run M N us) = Ring.run M' N (us.map f) := by
  unfold Ring.run
  rw [← init_map H N]
  generalize Ring.init M N = r
  induction us generalizing r with
  | nil => rfl
  | cons u us ih => simp only [List.foldl_cons, List.map_cons, ih, push_map H]

/-! ### the projection onto one task -/

/-- keep only task `t` of every per-task vector of a statistic. -/
def taskProj (t : Nat) (p : Parts) : Parts := p.map fun v => [v.getD t 0]

theorem padd_getD : ∀ (a b : List Q) (t : Nat), (padd a b).getD t 0 = a.getD t 0 + b.getD t 0
  | [], b, t => by simp [padd_nil_left, Rat.zero_add]
  | x :: a, [], t => by simp [padd, Rat.add_zero]
  | x :: a, y :: b, 0 => by simp [padd]
  | x :: a, y :: b, t + 1 => by
    have := padd_getD a b t
    simpa [padd] using this

theorem taskProj_hom (t : Nat) : AccHom partsAcc partsAcc (taskProj t) where
  zero := rfl
  add := by
    intro a b
    show taskProj t (ppadd a b) = ppadd (taskProj t a) (taskProj t b)
    induction a generalizing b with
    | nil => simp [taskProj, ppadd_nil_left]
    | cons x a ih =>
      cases b with
      | nil => simp [taskProj, ppadd]
      | cons y b =>
        have := ih b
        simp only [taskProj, ppadd, List.map_cons, padd, padd_getD, List.cons.injEq, true_and] at this ⊢
        exact this

theorem getD_append_zeros (v : List Q) (k t : Nat) : (v ++ List.replicate k 0).getD t 0 = v.getD t 0 := by
  by_cases hv : t < v.length
  · simp [List.getD, List.getElem?_append_left hv]
  · have hv' : v.length ≤ t := Nat.le_of_not_lt hv
    simp only [List.getD, List.getElem?_append_right hv', List.getElem?_eq_none hv']
    by_cases hk : t - v.length < k
    · simp [hk]
    · simp [hk]

/-- what `compute()` reads for task `t` (`part p i T`, padded to the task count) is what the
    single-task instance reads at position 0 of the projected statistic. -/
theorem part_taskProj (p : Parts) (i T t : Nat) :
    (part p i T).getD t 0 = (part (taskProj t p) i 1).getD 0 0 := by
  unfold part
  simp only [getD_append_zeros]
  unfold taskProj
  by_cases hi : i < p.length
  · simp [List.getD, List.getElem?_map, List.getElem?_eq_getElem hi]
  · have hi' : p.length ≤ i := Nat.le_of_not_lt hi
    simp [List.getD, List.getElem?_map, List.getElem?_eq_none hi']

/-! ### per-update statistics: task `t` of the multi-task statistic is the single-task statistic of row `t` -/

theorem getD_zipWith_dot (a b : List (List Q)) (t : Nat) (x y : List Q) (ha : a[t]? = some x) (hb : b[t]? = some y) :
    (List.zipWith dot a b).getD t 0 = dot x y := by
  induction a generalizing b t with
  | nil => simp at ha
  | cons a0 a ih =>
    cases b with
    | nil => simp at hb
    | cons b0 b =>
      cases t with
      | zero =>
        simp only [List.getElem?_cons_zero, Option.some.injEq] at ha hb
        subst ha; subst hb; simp
      | succ t =>
        simp only [List.getElem?_cons_succ] at ha hb
        simpa using ih b t ha hb

theorem ctrStat_task (input weights : List (List Q)) (t : Nat) (x w : List Q)
    (hx : input[t]? = some x) (hw : weights[t]? = some w) :
    taskProj t (ctrStat input weights) = ctrStat [x] [w] := by
  simp only [taskProj, ctrStat, List.map_cons, List.map_nil, getD_zipWith_dot _ _ t x w hx hw,
    List.zipWith_cons_cons, List.zipWith_nil_left]
  simp [List.getD, List.getElem?_map, hw]

theorem calStat_task (input target weight : List (List Q)) (t : Nat) (x y w : List Q)
    (hx : input[t]? = some x) (hy : target[t]? = some y) (hw : weight[t]? = some w) :
    taskProj t (calStat input target weight) = calStat [x] [y] [w] := by
  simp only [taskProj, calStat, List.map_cons, List.map_nil, getD_zipWith_dot _ _ t w x hw hx,
    getD_zipWith_dot _ _ t w y hw hy, List.zipWith_cons_cons, List.zipWith_nil_left]

end TE.MultiL
