/-
  TE.Lemmas.SyncSend — `send_tensors` on a whole group: every receiving member obtains
  every member's tensor, untrimmed and unpadded.
-/
import TE.Lemmas.SyncPrim
import TE.Lemmas.SyncPad
import TE.Spec.Sync
namespace TE.Sync
open TE.Spec.Sync

/-! ### pointwise max / min of shapes -/

theorem ShapeLe.trans {a b c : List Nat} (h1 : ShapeLe a b) (h2 : ShapeLe b c) : ShapeLe a c := by
  induction h1 generalizing c with
  | nil => exact h2
  | cons hab _ ih =>
    cases h2 with
    | cons hbc h2' => exact .cons (Nat.le_trans hab hbc) (ih h2')

theorem ShapeLe.antisymm {a b : List Nat} (h1 : ShapeLe a b) (h2 : ShapeLe b a) : a = b := by
  induction h1 with
  | nil => rfl
  | cons hab _ ih =>
    cases h2 with
    | cons hba h2' => rw [Nat.le_antisymm hab hba, ih h2']

theorem zipWith_max_ge : ∀ (a b : List Nat), a.length = b.length →
    ShapeLe a (List.zipWith max a b) ∧ ShapeLe b (List.zipWith max a b) ∧ (List.zipWith max a b).length = a.length
  | [], [], _ => ⟨.nil, .nil, rfl⟩
  | x :: a, y :: b, h => by
    obtain ⟨h1, h2, h3⟩ := zipWith_max_ge a b (by simpa using h)
    exact ⟨.cons (Nat.le_max_left ..) h1, .cons (Nat.le_max_right ..) h2, by simp [h3]⟩
  | [], _ :: _, h => by simp at h
  | _ :: _, [], h => by simp at h

theorem zipWith_min_le : ∀ (a b : List Nat), a.length = b.length →
    ShapeLe (List.zipWith min a b) a ∧ ShapeLe (List.zipWith min a b) b ∧ (List.zipWith min a b).length = a.length
  | [], [], _ => ⟨.nil, .nil, rfl⟩
  | x :: a, y :: b, h => by
    obtain ⟨h1, h2, h3⟩ := zipWith_min_le a b (by simpa using h)
    exact ⟨.cons (Nat.min_le_left ..) h1, .cons (Nat.min_le_right ..) h2, by simp [h3]⟩
  | [], _ :: _, h => by simp at h
  | _ :: _, [], h => by simp at h

theorem foldl_max_ge (ss : List (List Nat)) : ∀ acc : List Nat, (∀ s ∈ ss, s.length = acc.length) →
    ShapeLe acc (ss.foldl (List.zipWith max) acc) ∧ ∀ s ∈ ss, ShapeLe s (ss.foldl (List.zipWith max) acc) := by
  induction ss with
  | nil => intro acc _; exact ⟨ShapeLe.refl _, fun s hs => by simp at hs⟩
  | cons s ss ih =>
    intro acc hl
    have hs : s.length = acc.length := hl s (List.mem_cons_self ..)
    obtain ⟨h1, h2, h3⟩ := zipWith_max_ge acc s hs.symm
    obtain ⟨i1, i2⟩ := ih (List.zipWith max acc s) (fun t ht => by rw [h3]; exact hl t (List.mem_cons_of_mem _ ht))
    refine ⟨h1.trans i1, ?_⟩
    intro t ht
    rcases List.mem_cons.mp ht with rfl | ht
    · exact h2.trans i1
    · exact i2 t ht

theorem foldl_min_le (ss : List (List Nat)) : ∀ acc : List Nat, (∀ s ∈ ss, s.length = acc.length) →
    ShapeLe (ss.foldl (List.zipWith min) acc) acc ∧ ∀ s ∈ ss, ShapeLe (ss.foldl (List.zipWith min) acc) s := by
  induction ss with
  | nil => intro acc _; exact ⟨ShapeLe.refl _, fun s hs => by simp at hs⟩
  | cons s ss ih =>
    intro acc hl
    have hs : s.length = acc.length := hl s (List.mem_cons_self ..)
    obtain ⟨h1, h2, h3⟩ := zipWith_min_le acc s hs.symm
    obtain ⟨i1, i2⟩ := ih (List.zipWith min acc s) (fun t ht => by rw [h3]; exact hl t (List.mem_cons_of_mem _ ht))
    refine ⟨i1.trans h1, ?_⟩
    intro t ht
    rcases List.mem_cons.mp ht with rfl | ht
    · exact i1.trans h2
    · exact i2 t ht

/-- every gathered shape is pointwise below the maximum. -/
theorem pmax_ge (ss : List (List Nat)) (k : Nat) (hl : ∀ s ∈ ss, s.length = k) :
    ∀ s ∈ ss, ShapeLe s (pmax ss) := by
  cases ss with
  | nil => intro s hs; simp at hs
  | cons s0 ss =>
    have h0 := hl s0 (List.mem_cons_self ..)
    obtain ⟨h1, h2⟩ := foldl_max_ge ss s0 (fun t ht => by rw [h0]; exact hl t (List.mem_cons_of_mem _ ht))
    intro s hs
    rcases List.mem_cons.mp hs with rfl | hs
    · exact h1
    · exact h2 s hs

theorem pmin_le (ss : List (List Nat)) (k : Nat) (hl : ∀ s ∈ ss, s.length = k) :
    ∀ s ∈ ss, ShapeLe (pmin ss) s := by
  cases ss with
  | nil => intro s hs; simp at hs
  | cons s0 ss =>
    have h0 := hl s0 (List.mem_cons_self ..)
    obtain ⟨h1, h2⟩ := foldl_min_le ss s0 (fun t ht => by rw [h0]; exact hl t (List.mem_cons_of_mem _ ht))
    intro s hs
    rcases List.mem_cons.mp hs with rfl | hs
    · exact h1
    · exact h2 s hs

/-- `torch.equal(max_size, min_size)` holds exactly when no rank deviates. -/
theorem all_eq_of_pmax_eq_pmin (ss : List (List Nat)) (k : Nat) (hl : ∀ s ∈ ss, s.length = k)
    (h : pmax ss = pmin ss) : ∀ s ∈ ss, s = pmax ss := by
  intro s hs
  have h1 := pmax_ge ss k hl s hs
  have h2 := pmin_le ss k hl s hs
  rw [← h] at h2
  exact h1.antisymm h2

/-! ### shape vectors travel unharmed -/

theorem shapeOf_shapeTensor (t : Tensor) : shapeOf (shapeTensor t) = t.shape := by
  simp only [shapeOf, shapeTensor, List.map_map]
  conv => rhs; rw [← List.map_id t.shape]
  apply List.map_congr_left
  intro n _
  simp [Function.comp]

/-- **pad to the maximum, gather, trim back** returns the tensor itself. -/
theorem slice_pad (t : Tensor) (m : List Nat) (hle : ShapeLe t.shape m) (hwf : t.WF) :
    (t.pad m).slice t.shape = t := by
  cases t with
  | mk dt sh da =>
    simp only [Tensor.pad, Tensor.slice, Tensor.mk.injEq, true_and]
    exact sliceTo_padTo hle da hwf

/-! ### worlds -/

theorem envOf_recv (g : List Nat) (n : Nat) (dst : Option Nat) (junk : Nat → Q) (i : Nat) :
    (envOf g n dst junk i).recv = receives dst i := by
  cases dst <;> rfl

theorem range_idx (n : Nat) : (List.range n).map id = List.range (List.range n).length := by simp

theorem yields_simpleSend (g : List Nat) (n : Nat) (hg : IsGroup g n) (edst : Option Nat) (junk : Nat → Q)
    (dst : Option Nat) (hd : DstIn n dst) (T : Nat → Tensor) (dt : DType) (sh : List Nat)
    (h : SameSig (List.range n) T dt sh) :
    Yields g ((List.range n).map fun i => simpleSend (envOf g n edst junk i) dst (T i))
      ((List.range n).map fun i => gathered n dst T i) := by
  cases dst with
  | none =>
    simp only [simpleSend]
    apply Yields.coll_map (H := fun _ => Resp.tensors ((List.range n).map T))
    · exact exchange_allGather g (List.range n) T dt sh h
    · exact yields_done g (List.range n) _
  | some d =>
    have hdl : d < g.length := by rw [hg.len]; exact hd
    obtain ⟨hget, hroot⟩ := rootOk_of_nodup g hg.nodup d hdl
    simp only [simpleSend, toGlobal, envOf, hget]
    apply Yields.coll_map (H := fun i => if i == d then Resp.tensors ((List.range n).map T) else Resp.unit)
    · exact exchange_gather g d g[d] hroot (List.range n) id (range_idx n) T dt sh h
    · rw [List.map_congr_left (g := fun i => Prog.done (gathered n (some d) T i))]
      · exact yields_done g (List.range n) _
      · intro i _
        cases hid : i == d <;> simp [gathered, receives, allOf, hid, recvTensors]

theorem yields_sendTensors (g : List Nat) (n : Nat) (hg : IsGroup g n) (dst : Option Nat) (junk : Nat → Q)
    (hd : DstIn n dst) (T : Nat → Tensor) (dt : DType) (k : Nat) (hT : Sendable n T dt k) :
    Yields g ((List.range n).map fun i => sendTensors (envOf g n dst junk i) (T i))
      ((List.range n).map fun i => gathered n dst T i) := by
  let e : Nat → Env := envOf g n dst junk
  have hdst : ∀ i, (e i).dst = dst := fun _ => rfl
  show Yields g ((List.range n).map fun i => sendTensors (e i) (T i)) _
  by_cases hk : k = 0
  · -- 0-dim on every rank: plain gather
    have hsh : SameSig (List.range n) T dt [] := by
      intro i hi
      have := hT i (List.mem_range.mp hi)
      exact ⟨this.1, List.eq_nil_of_length_eq_zero (by rw [this.2.1, hk])⟩
    rw [List.map_congr_left (g := fun i => simpleSend (e i) dst (T i))]
    · exact yields_simpleSend g n hg dst junk dst hd T dt [] hsh
    · intro i hi
      have := (hT i (List.mem_range.mp hi)).2.1
      simp [sendTensors, this, hk, hdst]
  · -- ≥ 1-dim: gather the shapes first
    have hrw : ∀ i ∈ List.range n, sendTensors (e i) (T i) =
        (simpleSend (e i) none (shapeTensor (T i))).bind (sendUnevenK (e i) (T i)) := by
      intro i hi
      have := (hT i (List.mem_range.mp hi)).2.1
      simp [sendTensors, sendUneven, this, hk]
    rw [List.map_congr_left hrw]
    have hshape : SameSig (List.range n) (fun i => shapeTensor (T i)) .i64 [k] := by
      intro i hi
      simp [shapeTensor, (hT i (List.mem_range.mp hi)).2.1]
    apply Yields.bind_map (G := fun i => gathered n none (fun j => shapeTensor (T j)) i)
      (yields_simpleSend g n hg dst junk none trivial _ .i64 [k] hshape)
    -- what every member now knows: all shapes
    let shapes := (List.range n).map fun j => (T j).shape
    have hshapes : ((List.range n).map fun j => shapeTensor (T j)).map shapeOf = shapes := by
      simp [shapes, List.map_map, Function.comp_def, shapeOf_shapeTensor]
    have hlen : ∀ s ∈ shapes, s.length = k := by
      intro s hs
      obtain ⟨j, hj, rfl⟩ := List.mem_map.mp hs
      exact (hT j (List.mem_range.mp hj)).2.1
    simp only [gathered, receives, allOf, if_true, sendUnevenK, hshapes, hdst]
    by_cases heq : pmax shapes = pmin shapes
    · -- all shapes equal
      have hall := all_eq_of_pmax_eq_pmin shapes k hlen heq
      have hsame : SameSig (List.range n) T dt (pmax shapes) := by
        intro i hi
        refine ⟨(hT i (List.mem_range.mp hi)).1, ?_⟩
        exact hall _ (List.mem_map.mpr ⟨i, hi, rfl⟩)
      simp only [heq, beq_self_eq_true, if_true]
      exact yields_simpleSend g n hg dst junk dst hd T dt _ hsame
    · -- uneven: pad, gather, trim
      have hne : (pmax shapes == pmin shapes) = false := by simpa using heq
      simp only [hne, Bool.false_eq_true, if_false]
      have hpad : SameSig (List.range n) (fun i => (T i).pad (pmax shapes)) dt (pmax shapes) := by
        intro i hi
        exact ⟨(hT i (List.mem_range.mp hi)).1, rfl⟩
      apply Yields.bind_map (G := fun i => gathered n dst (fun j => (T j).pad (pmax shapes)) i)
        (yields_simpleSend g n hg dst junk dst hd _ dt _ hpad)
      have htrim : List.zipWith Tensor.slice ((List.range n).map fun j => (T j).pad (pmax shapes)) shapes
          = (List.range n).map T := by
        simp only [shapes, List.zipWith_map_left, List.zipWith_map_right, List.zipWith_self]
        apply List.map_congr_left
        intro j hj
        have hj' := hT j (List.mem_range.mp hj)
        exact slice_pad (T j) _ (pmax_ge shapes k hlen _ (List.mem_map.mpr ⟨j, hj, rfl⟩)) hj'.2.2
      rw [List.map_congr_left (g := fun i => Prog.done (gathered n dst T i))]
      · exact yields_done g (List.range n) _
      · intro i _
        cases hr : receives dst i <;> simp [gathered, allOf, hr, htrim, trimK]

end TE.Sync
