/-
  TE.Lemmas.WinPlumb — the state machine of ANY well-formed window-plumbing row (TE.Model.WinPlumb)
  is the ring buffer of TE.Model.Window: per (buffer, lifetime state) pair of one component,
  `rowInit` is `Ring.init`, `rowPush` is `Ring.push`, `rowWindowed` is `Ring.windowed`,
  `rowMerge` is `Ring.merge`; `rowReset` is `rowInit`.
-/
import TE.Model.WinPlumb
import TE.Lemmas.WindowMerge
namespace TE.WinPlumb
open TE TE.Window TE.Spec.Window TE.WindowL

variable {γ : Type}

/-! ## unpacking `WF` -/

structure BufOk (b : BufW) : Prop where
  reg : b.regGuard = .always
  cols : b.cols = .cap
  guard : b.guard = .always
  col : b.col = .cur
  msrc : b.msrc = b.name

structure LifeOk (l : LifeW) : Prop where
  reg : l.regGuard = .lifetime
  guard : l.guard = .lifetime
  mop : l.mop = l.op
  msrc : l.msrc = l.name

theorem BufW.ok {b : BufW} (h : b.wf = true) : BufOk b := by
  simp only [BufW.wf, Bool.and_eq_true, beq_iff_eq, and_assoc] at h
  obtain ⟨h1, _, h3, h4, h5, h6⟩ := h
  exact ⟨h1, h3, h4, h5, h6⟩

theorem LifeW.ok {l : LifeW} (h : l.wf = true) : LifeOk l := by
  simp only [LifeW.wf, Bool.and_eq_true, beq_iff_eq, and_assoc] at h
  obtain ⟨h1, _, h3, h4, h5⟩ := h
  exact ⟨h1, h3, h4, h5⟩

/-- the propositional content of `WinRow.WF`. -/
structure WFP (r : WinRow) : Prop where
  tot0 : r.tot0 = .lit 0
  cur0 : r.cur0 = .lit 0
  bufs : ∀ b ∈ r.bufs, BufOk b
  lifes : ∀ l ∈ r.lifes, LifeOk l
  bcomps : r.bufs.map (·.comp) = List.range r.upd.ncomp
  lcomps : r.lifes.map (·.comp) = List.range r.upd.ncomp
  bnames : nodup (r.bufs.map (·.name)) = true
  lnames : nodup (r.lifes.map (·.name)) = true
  ncomp : 1 ≤ r.upd.ncomp
  checksFirst : r.upd.checksFirst = true
  curGuard : r.upd.curGuard = .always
  curNew : r.upd.curNew = ixStep
  totGuard : r.upd.totGuard = .always
  totNew : r.upd.totNew = .add .tot (.lit 1)
  emptyWhen : r.cmp.emptyWhen = .eq .tot (.lit 0)
  full : (r.cmp.fullWhen = .tt ∧ r.cmp.partHi = none) ∨ (r.cmp.fullWhen = .le .cap .tot ∧ r.cmp.partHi = some .cur)
  sameFormula : r.cmp.sameFormula = true
  lifeShown : r.cmp.lifeShown = .lifetime
  callsSuper : r.rst.callsSuper = true
  cursorTo : r.rst.cursorTo = some (.lit 0)
  mrg : r.mrg.wf = true

theorem WinRow.wfp {r : WinRow} (h : r.WF = true) : WFP r := by
  simp only [WinRow.WF, Bool.and_eq_true, beq_iff_eq, List.all_eq_true, decide_eq_true_eq, and_assoc] at h
  obtain ⟨_, h2, h3, h4, h5, h6, h7, h8, h9, h10, hu, hc, hr, hm⟩ := h
  simp only [UpdW.wf, Bool.and_eq_true, beq_iff_eq, and_assoc] at hu
  obtain ⟨u1, u2, u3, u4, u5⟩ := hu
  simp only [CompW.wf, Bool.and_eq_true, Bool.or_eq_true, beq_iff_eq, and_assoc] at hc
  obtain ⟨c1, c2, c3, _, _, c6⟩ := hc
  simp only [ResetW.wf, Bool.and_eq_true, beq_iff_eq] at hr
  exact ⟨h2, h3, fun b hb => BufW.ok (h4 b hb), fun l hl => LifeW.ok (h5 l hl), h6, h7, h8, h9, h10,
    u1, u2, u3, u4, u5, c1, c2, c3, c6, hr.1, hr.2, hm⟩

/-! ## lookup by name -/

theorem find_of_nodup {α : Type} (name : α → String) :
    ∀ (l : List α) (b : α), nodup (l.map name) = true → b ∈ l → l.find? (fun a => name a == name b) = some b := by
  intro l
  induction l with
  | nil => intro b _ hb; cases hb
  | cons a l ih =>
    intro b hn hb
    simp only [List.map_cons, nodup, Bool.and_eq_true, Bool.not_eq_true', List.contains_eq_mem,
      decide_eq_false_iff_not] at hn
    rcases List.mem_cons.mp hb with rfl | hb'
    · simp
    · have hne : (name a == name b) = false := by
        apply beq_false_of_ne
        intro e
        exact hn.1 (e ▸ List.mem_map_of_mem hb')
      rw [List.find?_cons, hne]
      exact ih b hn.2 hb'

theorem findBuf_mem {r : WinRow} (w : WFP r) {b : BufW} (hb : b ∈ r.bufs) : findBuf r b.name = some b :=
  find_of_nodup BufW.name r.bufs b w.bnames hb

theorem findLife_mem {r : WinRow} (w : WFP r) {l : LifeW} (hl : l ∈ r.lifes) : findLife r l.name = some l :=
  find_of_nodup LifeW.name r.lifes l w.lnames hl

/-! ## init / push / windowed are the ring buffer's -/

/-- the window part of a ring (everything but the lifetime accumulator). -/
def Ring.sameWindow (a b : Ring γ) : Prop :=
  a.cap = b.cap ∧ a.buf = b.buf ∧ a.next = b.next ∧ a.total = b.total

theorem init_ring {r : WinRow} (w : WFP r) (cfg : Cfg) (M : Acc γ) {b : BufW} (hb : b ∈ r.bufs) (ln : String) :
    (rowInit r cfg M).ring b.name ln = Ring.init M cfg.N := by
  have hbo := w.bufs b hb
  simp only [RowState.ring, rowInit, Ring.init, findBuf_mem w hb, hbo.reg, hbo.cols, w.cur0, w.tot0, Ix.eval,
    Guard.holds, if_true]

theorem push_window {r : WinRow} (w : WFP r) (cfg : Cfg) (M : Acc γ) (sc : γ → Bool) (s : RowState γ) (x : Nat → γ)
    {b : BufW} (hb : b ∈ r.bufs) :
    (rowPush r cfg M sc s x).cap = s.cap ∧
    (rowPush r cfg M sc s x).buf b.name = (s.buf b.name).set s.next (x b.comp) ∧
    (rowPush r cfg M sc s x).next = (s.next + 1) % s.cap ∧
    (rowPush r cfg M sc s x).total = s.total + 1 := by
  have hbo := w.bufs b hb
  simp only [rowPush, findBuf_mem w hb, hbo.guard, hbo.col, w.curGuard, w.curNew, w.totGuard, w.totNew, ixStep,
    Ix.eval, RowState.env, Guard.holds, if_true, and_self]

theorem push_life {r : WinRow} (w : WFP r) (cfg : Cfg) (M : Acc γ) (sc : γ → Bool) (s : RowState γ) (x : Nat → γ)
    {l : LifeW} (hl : l ∈ r.lifes) :
    (rowPush r cfg M sc s x).life l.name
      = if cfg.lifetime then lifeApply M sc l.op (s.life l.name) (x l.comp) else s.life l.name := by
  have hlo := w.lifes l hl
  simp only [rowPush, findLife_mem w hl, hlo.guard, Guard.holds]

/-- one accepted update, seen on one buffer: `Ring.push` up to the lifetime accumulator. -/
theorem push_sameWindow {r : WinRow} (w : WFP r) (cfg : Cfg) (M : Acc γ) (sc : γ → Bool) (s : RowState γ) (x : Nat → γ)
    {b : BufW} (hb : b ∈ r.bufs) (ln : String) :
    Ring.sameWindow ((rowPush r cfg M sc s x).ring b.name ln) ((s.ring b.name ln).push M (x b.comp)) := by
  obtain ⟨h1, h2, h3, h4⟩ := push_window w cfg M sc s x hb
  exact ⟨h1, h2, h3, h4⟩

theorem sameWindow_push (M : Acc γ) {a b : Ring γ} (h : Ring.sameWindow a b) (x : γ) :
    Ring.sameWindow (a.push M x) (b.push M x) := by
  obtain ⟨h1, h2, h3, h4⟩ := h
  simp only [Ring.sameWindow, Ring.push, h1, h2, h3, h4, and_self]

theorem foldl_window {r : WinRow} (w : WFP r) (cfg : Cfg) (M : Acc γ) (sc : γ → Bool) {b : BufW} (hb : b ∈ r.bufs)
    (ln : String) (xs : List (Nat → γ)) :
    ∀ (s : RowState γ) (g : Ring γ), Ring.sameWindow (s.ring b.name ln) g →
      Ring.sameWindow ((xs.foldl (rowPush r cfg M sc) s).ring b.name ln) ((xs.map (· b.comp)).foldl (Ring.push M) g) := by
  induction xs with
  | nil => intro s g h; exact h
  | cons x xs ih =>
    intro s g h
    simp only [List.foldl_cons, List.map_cons]
    apply ih
    obtain ⟨p1, p2, p3, p4⟩ := push_sameWindow w cfg M sc s x hb ln
    obtain ⟨q1, q2, q3, q4⟩ := sameWindow_push M h (x b.comp)
    exact ⟨p1.trans q1, p2.trans q2, p3.trans q3, p4.trans q4⟩

/-- **window part of the simulation**: buffer, cursor, counter and cap of a single instance fed `xs` are those
    of `Ring.run` on the buffer's component — with or without lifetime states. -/
theorem run_window {r : WinRow} (w : WFP r) (cfg : Cfg) (M : Acc γ) (sc : γ → Bool) {b : BufW} (hb : b ∈ r.bufs)
    (ln : String) (xs : List (Nat → γ)) :
    Ring.sameWindow ((rowRun r cfg M sc xs).ring b.name ln) (Ring.run M cfg.N (xs.map (· b.comp))) := by
  unfold rowRun Ring.run
  apply foldl_window w cfg M sc hb ln xs
  rw [init_ring w cfg M hb ln]
  exact ⟨rfl, rfl, rfl, rfl⟩

theorem windowed_congr (M : Acc γ) (whole : Bool) {a b : Ring γ} (h : Ring.sameWindow a b) :
    a.windowed M whole = b.windowed M whole := by
  obtain ⟨h1, h2, h3, h4⟩ := h
  simp only [Ring.windowed, h1, h2, h3, h4]

/-- the sums `compute()` forms over a buffer are `Ring.windowed` of that buffer's ring. -/
theorem rowWindowed_eq {r : WinRow} (w : WFP r) (M : Acc γ) (s : RowState γ) (bn ln : String) :
    rowWindowed r M s bn = (s.ring bn ln).windowed M r.cmp.whole := by
  rcases w.full with ⟨hf, hp⟩ | ⟨hf, hp⟩
  · simp [rowWindowed, Ring.windowed, CompW.whole, hf, Cnd.eval, RowState.ring]
  · have hw : (Cnd.le Ix.cap Ix.tot == Cnd.tt) = false := by decide
    simp only [rowWindowed, Ring.windowed, CompW.whole, hf, hp, hw, Cnd.eval, Ix.eval, RowState.env, RowState.ring,
      Bool.false_or]
    rfl

/-! ## lifetime states -/

/-- laws of "is a 0-dim tensor" under broadcasting addition (only the adoption branch of
    WindowedMeanSquaredError needs them): the default is 0-dim, a sum is 0-dim iff both summands are. -/
structure ScLaws (M : Acc γ) (sc : γ → Bool) : Prop where
  zero : sc M.zero = true
  add : ∀ a b, sc (M.add a b) = (sc a && sc b)

/-- when the adoption branch is harmless: every update's statistic has the same number of dimensions
    (the input check pins it: `num_tasks = 1` ⇒ 1-D input ⇒ 0-dim sums, else `(n, num_tasks)` ⇒ 1-D sums). -/
def AdoptOk (M : Acc γ) (sc : γ → Bool) (ys : List γ) : Prop :=
  Laws M ∧ ScLaws M sc ∧ ∀ a ∈ ys, ∀ b ∈ ys, sc a = sc b

theorem sc_foldl (M : Acc γ) (sc : γ → Bool) (S : ScLaws M sc) (l : List γ) :
    ∀ a, sc (l.foldl M.add a) = (sc a && l.all sc) := by
  induction l with
  | nil => intro a; simp
  | cons x l ih => intro a; simp [ih, S.add, Bool.and_assoc]

theorem lifeApply_eq_add (M : Acc γ) (sc : γ → Bool) (op : LifeOp) (pre : List γ) (x : γ)
    (h : op = .add ∨ AdoptOk M sc (pre ++ [x])) :
    lifeApply M sc op (pre.foldl M.add M.zero) x = M.add (pre.foldl M.add M.zero) x := by
  cases op with
  | add => rfl
  | adopt =>
    rcases h with h | ⟨L, S, hu⟩
    · cases h
    · simp only [lifeApply]
      split
      · rename_i hc
        simp only [Bool.and_eq_true, Bool.not_eq_true'] at hc
        obtain ⟨h1, h2⟩ := hc
        rw [sc_foldl M sc S, S.zero, Bool.true_and] at h1
        cases pre with
        | nil => exact (L.zero_add x).symm
        | cons p pre =>
          exfalso
          have hp : sc p = true := by
            simp only [List.all_cons, Bool.and_eq_true] at h1; exact h1.1
          have := hu p (by simp) x (by simp)
          rw [hp, h2] at this
          cases this
      · rfl

theorem foldl_life {r : WinRow} (w : WFP r) (cfg : Cfg) (hl : cfg.lifetime = true) (M : Acc γ) (sc : γ → Bool)
    {l : LifeW} (hm : l ∈ r.lifes) (xs : List (Nat → γ)) :
    ∀ (pre : List (Nat → γ)) (s : RowState γ),
      s.life l.name = (pre.map (· l.comp)).foldl M.add M.zero →
      (l.op = .add ∨ AdoptOk M sc ((pre ++ xs).map (· l.comp))) →
      (xs.foldl (rowPush r cfg M sc) s).life l.name = ((pre ++ xs).map (· l.comp)).foldl M.add M.zero := by
  induction xs with
  | nil => intro pre s hs _; simpa using hs
  | cons x xs ih =>
    intro pre s hs hop
    simp only [List.foldl_cons]
    have e : pre ++ x :: xs = (pre ++ [x]) ++ xs := by simp
    rw [e] at hop ⊢
    apply ih (pre ++ [x]) _ _ hop
    rw [push_life w cfg M sc s x hm, hl, if_pos rfl, hs, List.map_append, List.foldl_append]
    apply lifeApply_eq_add
    rcases hop with h | ⟨L, S, hu⟩
    · exact Or.inl h
    · refine Or.inr ⟨L, S, fun a ha b hb => hu a ?_ b ?_⟩
      · rw [List.map_append]; exact List.mem_append_left _ (by simpa using ha)
      · rw [List.map_append]; exact List.mem_append_left _ (by simpa using hb)

/-- **lifetime part of the simulation**: with `enable_lifetime`, a lifetime state is the accumulated component
    of everything (`Ring.run …).life`. -/
theorem run_life {r : WinRow} (w : WFP r) (cfg : Cfg) (hl : cfg.lifetime = true) (M : Acc γ) (sc : γ → Bool)
    {l : LifeW} (hm : l ∈ r.lifes) (xs : List (Nat → γ))
    (hop : l.op = .add ∨ AdoptOk M sc (xs.map (· l.comp))) :
    (rowRun r cfg M sc xs).life l.name = (xs.map (· l.comp)).foldl M.add M.zero := by
  have := foldl_life w cfg hl M sc hm xs [] (rowInit r cfg M) (by simp [rowInit]) (by simpa using hop)
  simpa [rowRun] using this

theorem run_life_off {r : WinRow} (w : WFP r) (cfg : Cfg) (hl : cfg.lifetime = false) (M : Acc γ) (sc : γ → Bool)
    {l : LifeW} (hm : l ∈ r.lifes) (xs : List (Nat → γ)) :
    (rowRun r cfg M sc xs).life l.name = M.zero := by
  unfold rowRun
  suffices ∀ s : RowState γ, s.life l.name = M.zero → (xs.foldl (rowPush r cfg M sc) s).life l.name = M.zero from
    this _ (by simp [rowInit])
  induction xs with
  | nil => intro s hs; exact hs
  | cons x xs ih =>
    intro s hs
    simp only [List.foldl_cons]
    apply ih
    rw [push_life w cfg M sc s x hm, hl]
    simpa using hs

theorem ring_ext {a b : Ring γ} (h : Ring.sameWindow a b) (hl : a.life = b.life) : a = b := by
  obtain ⟨h1, h2, h3, h4⟩ := h
  cases a; cases b
  simp only at h1 h2 h3 h4 hl
  simp [h1, h2, h3, h4, hl]

/-! ## compute() of a single instance -/

theorem push_total {r : WinRow} (w : WFP r) (cfg : Cfg) (M : Acc γ) (sc : γ → Bool) (s : RowState γ) (x : Nat → γ) :
    (rowPush r cfg M sc s x).total = s.total + 1 := by
  simp only [rowPush, w.totGuard, w.totNew, Ix.eval, RowState.env, Guard.holds, if_true]

theorem run_total {r : WinRow} (w : WFP r) (cfg : Cfg) (M : Acc γ) (sc : γ → Bool) (xs : List (Nat → γ)) :
    (rowRun r cfg M sc xs).total = xs.length := by
  unfold rowRun
  suffices ∀ s : RowState γ, (xs.foldl (rowPush r cfg M sc) s).total = s.total + xs.length by
    rw [this]; simp [rowInit, w.tot0, Ix.eval]
  induction xs with
  | nil => intro s; rfl
  | cons x xs ih =>
    intro s
    simp only [List.foldl_cons, List.length_cons]
    rw [ih, push_total w]; omega

/-- the windowed sum of a buffer of a single instance = `Ring.windowed` of `Ring.run` on its component. -/
theorem rowWindowed_run {r : WinRow} (w : WFP r) (cfg : Cfg) (M : Acc γ) (sc : γ → Bool) {b : BufW} (hb : b ∈ r.bufs)
    (xs : List (Nat → γ)) :
    rowWindowed r M (rowRun r cfg M sc xs) b.name = (Ring.run M cfg.N (xs.map (· b.comp))).windowed M r.cmp.whole := by
  rw [rowWindowed_eq w M _ b.name ""]
  exact windowed_congr M _ (run_window w cfg M sc hb "" xs)

theorem map_comp_range {α β : Type} (l : List α) (comp : α → Nat) (n : Nat) (h : l.map comp = List.range n)
    (F : Nat → β) : l.map (fun a => F (comp a)) = (List.range n).map F := by
  rw [← h, List.map_map]; rfl

/-- what `compute()` of the queue specification shows, per component: empty before the first update, else the
    value formula on the non-windowed sums of the last `N` updates and (with lifetime) of all updates. -/
def specOut {V : Type} (M : Acc γ) (N : Nat) (lifetime : Bool) (ncomp : Nat) (value : List γ → Except Err V)
    (xs : List (Nat → γ)) : Except Err (Option (Option V × V)) :=
  if xs = [] then .ok none
  else do
    let w ← value ((List.range ncomp).map fun c => windowedSpec M N (xs.map (· c)))
    if lifetime then
      let l ← value ((List.range ncomp).map fun c => lifetimeSpec M (xs.map (· c)))
      .ok (some (some l, w))
    else .ok (some (none, w))

theorem out_run {V : Type} {r : WinRow} (w : WFP r) (cfg : Cfg) (hN : 1 ≤ cfg.N) (M : Acc γ) (L : CommLaws M)
    (sc : γ → Bool) (value valueL : List γ → Except Err V) (xs : List (Nat → γ))
    (hop : cfg.lifetime = true → ∀ l ∈ r.lifes, l.op = .add ∨ AdoptOk M sc (xs.map (· l.comp))) :
    rowOut r cfg M value valueL (rowRun r cfg M sc xs) = specOut M cfg.N cfg.lifetime r.upd.ncomp value xs := by
  have hw : (r.bufs.map fun b => rowWindowed r M (rowRun r cfg M sc xs) b.name)
      = (List.range r.upd.ncomp).map fun c => windowedSpec M cfg.N (xs.map (· c)) := by
    rw [← map_comp_range r.bufs (·.comp) _ w.bcomps]
    apply List.map_congr_left
    intro b hb
    rw [rowWindowed_run w cfg M sc hb]
    exact windowed_eq M L cfg.N _ _ _ (rinv_run M cfg.N hN _)
  have he : r.cmp.emptyWhen.eval (rowRun r cfg M sc xs).env = decide (xs = []) := by
    simp only [w.emptyWhen, Cnd.eval, Ix.eval, RowState.env, run_total w]
    cases xs <;> simp
  unfold rowOut specOut
  rw [he, hw, w.lifeShown, w.sameFormula]
  cases hl : cfg.lifetime with
  | false => simp [Guard.holds]
  | true =>
    have hlf : (r.lifes.map fun l => (rowRun r cfg M sc xs).life l.name)
        = (List.range r.upd.ncomp).map fun c => lifetimeSpec M (xs.map (· c)) := by
      rw [← map_comp_range r.lifes (·.comp) _ w.lcomps]
      apply List.map_congr_left
      intro l hm
      exact run_life w cfg hl M sc hm xs (hop hl l hm)
    simp [Guard.holds, hlf]

/-! ## reset, rejected updates -/

theorem reset_eq_init {r : WinRow} (w : WFP r) (cfg : Cfg) (M : Acc γ) (s : RowState γ) :
    rowReset r cfg M s = rowInit r cfg M := by
  simp only [rowReset, w.callsSuper, w.cursorTo, if_true, Ix.eval]
  simp only [rowInit, w.cur0, Ix.eval]

theorem reject_eq {r : WinRow} (w : WFP r) (cfg : Cfg) (M : Acc γ) (sc : γ → Bool) (s : RowState γ) (junk : Nat → γ) :
    rowReject r cfg M sc s junk = s := by
  simp only [rowReject, w.checksFirst, if_true]

/-! ## merge_state is `Ring.merge` -/

structure MergeOk (m : MergeW) : Prop where
  sizeInit : m.sizeInit = .cap
  sizeStep : m.sizeStep = .add .mmax .scap
  allocCols : m.allocCols = .mmax
  ownTake : m.ownTake = ixLead
  idxInit : m.idxInit = ixLead
  srcLo : m.srcLo = .idx
  srcTake : m.srcTake = ixSrcLead
  idxStep : m.idxStep = .add .idx ixSrcLead
  totStep : m.totStep = .add .tot .stot
  lifeGuard : m.lifeGuard = .lifetime
  curFinal : m.curFinal = .mod .idx .cap
  capFinal : m.capFinal = .cap

theorem MergeW.ok {m : MergeW} (h : m.wf = true) : MergeOk m := by
  simp only [MergeW.wf, Bool.and_eq_true, beq_iff_eq, and_assoc] at h
  obtain ⟨h1, h2, h3, _, h5, h6, h7, _, h9, h10, h11, h12, h13, h14⟩ := h
  exact ⟨h1, h2, h3, h5, h6, h7, h9, h10, h11, h12, h13, h14⟩

theorem foldl_add_sum {α : Type} (f : α → Nat) (l : List α) (x : Nat) :
    l.foldl (fun a t => a + f t) x = x + (l.map f).sum := by
  induction l generalizing x with
  | nil => simp
  | cons t l ih => simp only [List.foldl_cons, List.map_cons, List.sum_cons]; rw [ih]; omega

theorem mergeMax_eq {r : WinRow} (w : WFP r) (s : RowState γ) (ss : List (RowState γ)) :
    mergeMax r s ss = s.cap + (ss.map (·.cap)).sum := by
  have m := MergeW.ok w.mrg
  simp only [mergeMax, m.sizeInit, m.sizeStep, Ix.eval, RowState.env]
  exact foldl_add_sum (·.cap) ss s.cap

/-- slice-assigning `src` right behind the `C.length` columns copied so far into a zero-padded buffer. -/
theorem place_padded (z : γ) (C src : List γ) (mm : Nat) :
    place (C ++ List.replicate (mm - C.length) z) C.length src
      = (C ++ src) ++ List.replicate (mm - (C ++ src).length) z := by
  unfold place
  rw [List.take_left' rfl, List.drop_append, List.drop_replicate, List.length_append, Nat.sub_sub]
  have h1 : List.drop (C.length + src.length) C = [] := List.drop_eq_nil_of_le (by omega)
  have h2 : C.length + (C.length + src.length - C.length) = C.length + src.length := by omega
  rw [h1, h2, List.nil_append]

theorem mergeStep_fields {r : WinRow} (w : WFP r) (cfg : Cfg) (M : Acc γ) (sc : γ → Bool) (e0 : IxEnv)
    (a : MLoop γ) (t : RowState γ) {b : BufW} (hb : b ∈ r.bufs) {l : LifeW} (hl : l ∈ r.lifes) :
    (mergeStep r cfg M sc e0 a t).idx = a.idx + min t.total t.cap ∧
    (mergeStep r cfg M sc e0 a t).tot = a.tot + t.total ∧
    (mergeStep r cfg M sc e0 a t).buf b.name = place (a.buf b.name) a.idx ((t.buf b.name).take (min t.total t.cap)) ∧
    (mergeStep r cfg M sc e0 a t).life l.name
      = if cfg.lifetime then lifeApply M sc l.op (a.life l.name) (t.life l.name) else a.life l.name := by
  have m := MergeW.ok w.mrg
  have hbo := w.bufs b hb
  have hlo := w.lifes l hl
  simp only [mergeStep, m.idxStep, m.totStep, m.srcLo, m.srcTake, m.lifeGuard, ixSrcLead, Ix.eval, findBuf_mem w hb,
    findLife_mem w hl, hbo.msrc, hlo.msrc, hlo.mop, Guard.holds, and_self]

/-- the copy loop: the buffer stays "columns copied so far, then zeros", the index is their number. -/
theorem merge_loop {r : WinRow} (w : WFP r) (cfg : Cfg) (M : Acc γ) (sc : γ → Bool) (e0 : IxEnv) (mm : Nat)
    {b : BufW} (hb : b ∈ r.bufs) {l : LifeW} (hl : l ∈ r.lifes) (ss : List (RowState γ))
    (hlen : ∀ t ∈ ss, min t.total t.cap ≤ (t.buf b.name).length) :
    ∀ (a : MLoop γ) (C : List γ), a.buf b.name = C ++ List.replicate (mm - C.length) M.zero → a.idx = C.length →
      let z := ss.foldl (mergeStep r cfg M sc e0) a
      z.idx = a.idx + (ss.map fun t => min t.total t.cap).sum ∧
      z.tot = a.tot + (ss.map (·.total)).sum ∧
      z.buf b.name = (C ++ ss.flatMap fun t => (t.buf b.name).take (min t.total t.cap))
        ++ List.replicate (mm - (C ++ ss.flatMap fun t => (t.buf b.name).take (min t.total t.cap)).length) M.zero ∧
      z.life l.name = ss.foldl (fun x t => if cfg.lifetime then lifeApply M sc l.op x (t.life l.name) else x) (a.life l.name) := by
  induction ss with
  | nil => intro a C hbuf _; simp [hbuf]
  | cons t ss ih =>
    intro a C hbuf hidx
    obtain ⟨s1, s2, s3, s4⟩ := mergeStep_fields w cfg M sc e0 a t hb hl
    have ht := hlen t (List.mem_cons_self ..)
    have hl1 : ((t.buf b.name).take (min t.total t.cap)).length = min t.total t.cap := by
      rw [List.length_take]; omega
    have hb' : (mergeStep r cfg M sc e0 a t).buf b.name
        = (C ++ (t.buf b.name).take (min t.total t.cap))
          ++ List.replicate (mm - (C ++ (t.buf b.name).take (min t.total t.cap)).length) M.zero := by
      rw [s3, hbuf, hidx]; exact place_padded M.zero C _ mm
    have hi' : (mergeStep r cfg M sc e0 a t).idx = (C ++ (t.buf b.name).take (min t.total t.cap)).length := by
      rw [s1, hidx, List.length_append, hl1]
    obtain ⟨i1, i2, i3, i4⟩ := ih (fun t' ht' => hlen t' (List.mem_cons_of_mem _ ht')) _ _ hb' hi'
    simp only [List.foldl_cons, List.map_cons, List.sum_cons, List.flatMap_cons]
    refine ⟨by rw [i1, s1]; omega, by rw [i2, s2]; omega, ?_, by rw [i4, s4]⟩
    rw [i3]; simp only [List.append_assoc]

/-- **`merge_state` is `Ring.merge`, window part** (any sources with any histories, provided their buffers are
    at least as long as what is copied out of them — true of every constructed / updated / merged object). -/
theorem merge_window {r : WinRow} (w : WFP r) (cfg : Cfg) (M : Acc γ) (sc : γ → Bool) (s : RowState γ)
    (ss : List (RowState γ)) {b : BufW} (hb : b ∈ r.bufs) {l : LifeW} (hl : l ∈ r.lifes)
    (hlen : ∀ t ∈ s :: ss, min t.total t.cap ≤ (t.buf b.name).length) :
    Ring.sameWindow ((rowMerge r cfg M sc s ss).ring b.name l.name)
      ((s.ring b.name l.name).merge M (ss.map (·.ring b.name l.name))) ∧
    (rowMerge r cfg M sc s ss).life l.name
      = ss.foldl (fun x t => if cfg.lifetime then lifeApply M sc l.op x (t.life l.name) else x) (s.life l.name) := by
  have m := MergeW.ok w.mrg
  have hs := hlen s (List.mem_cons_self ..)
  have hlead : ((s.buf b.name).take (min s.total s.cap)).length = min s.total s.cap := by
    rw [List.length_take]; omega
  have h0 : (place (List.replicate (mergeMax r s ss) M.zero) 0 ((s.buf b.name).take (min s.total s.cap)))
      = (s.buf b.name).take (min s.total s.cap)
        ++ List.replicate (mergeMax r s ss - ((s.buf b.name).take (min s.total s.cap)).length) M.zero := by
    have := place_padded M.zero [] ((s.buf b.name).take (min s.total s.cap)) (mergeMax r s ss)
    simpa using this
  obtain ⟨i1, i2, i3, i4⟩ := merge_loop w cfg M sc (mergeEnv r s ss) (mergeMax r s ss) hb hl ss
    (fun t ht => hlen t (List.mem_cons_of_mem _ ht)) (mergeInit r M s ss) ((s.buf b.name).take (min s.total s.cap))
    (by simp only [mergeInit, mergeEnv, findBuf_mem w hb, m.allocCols, m.ownTake, ixLead, Ix.eval, RowState.env]; exact h0)
    (by simp only [mergeInit, mergeEnv, m.idxInit, ixLead, Ix.eval, RowState.env]; exact hlead.symm)
  have i1' : (mergeLoop r cfg M sc s ss).idx = _ := i1
  have i2' : (mergeLoop r cfg M sc s ss).tot = _ := i2
  have i3' : (mergeLoop r cfg M sc s ss).buf b.name = _ := i3
  have i4' : (mergeLoop r cfg M sc s ss).life l.name = _ := i4
  refine ⟨⟨?_, ?_, ?_, ?_⟩, ?_⟩
  · simp only [RowState.ring, rowMerge, Ring.merge, m.capFinal, Ix.eval, mergeEnv, RowState.env]
  · simp only [RowState.ring, rowMerge, Ring.merge, Ring.lead]
    rw [i3', mergeMax_eq w]
    simp only [List.map_map, List.flatMap_map, Function.comp_def, Ring.lead]
  · simp only [RowState.ring, rowMerge, Ring.merge, m.curFinal, Ix.eval, mergeEnv, RowState.env]
    rw [i1']
    simp only [mergeInit, mergeEnv, m.idxInit, ixLead, Ix.eval, RowState.env, List.map_map, Function.comp_def]
  · simp only [RowState.ring, rowMerge, Ring.merge]
    rw [i2']
    simp only [mergeInit, List.map_map, Function.comp_def]
  · simp only [rowMerge]
    rw [i4']
    simp only [mergeInit]

/-- a ring with its lifetime accumulator replaced: two rings have the same window part iff they agree after it. -/
def Ring.forget (z : γ) (a : Ring γ) : Ring γ := { a with life := z }

theorem sameWindow_iff_forget (z : γ) (a b : Ring γ) : Ring.sameWindow a b ↔ Ring.forget z a = Ring.forget z b := by
  cases a; cases b
  simp [Ring.sameWindow, Ring.forget]

/-- the window part of `Ring.merge` does not look at lifetime accumulators. -/
theorem merge_forget (M : Acc γ) (z : γ) (a : Ring γ) (ss : List (Ring γ)) :
    Ring.sameWindow (a.merge M ss) ((Ring.forget z a).merge M (ss.map (Ring.forget z))) := by
  have hl : (Ring.lead : Ring γ → List γ) = fun a => a.buf.take (min a.total a.cap) := rfl
  simp only [Ring.sameWindow, Ring.merge, Ring.forget, Ring.lead, hl, List.map_map, List.flatMap_map, Function.comp_def,
    and_self]

theorem merge_sameWindow (M : Acc γ) {a a' : Ring γ} {ss ss' : List (Ring γ)} (z : γ)
    (ha : Ring.sameWindow a a') (hs : ss.map (Ring.forget z) = ss'.map (Ring.forget z)) :
    Ring.sameWindow (a.merge M ss) (a'.merge M ss') := by
  have h1 := merge_forget M z a ss
  have h2 := merge_forget M z a' ss'
  rw [(sameWindow_iff_forget z a a').mp ha, hs] at h1
  obtain ⟨p1, p2, p3, p4⟩ := h1
  obtain ⟨q1, q2, q3, q4⟩ := h2
  exact ⟨p1.trans q1.symm, p2.trans q2.symm, p3.trans q3.symm, p4.trans q4.symm⟩

/-- the buffers of a single instance are as long as its window. -/
theorem run_buf_length {r : WinRow} (w : WFP r) (cfg : Cfg) (hN : 1 ≤ cfg.N) (M : Acc γ) (sc : γ → Bool) {b : BufW}
    (hb : b ∈ r.bufs) (xs : List (Nat → γ)) :
    min (rowRun r cfg M sc xs).total (rowRun r cfg M sc xs).cap ≤ ((rowRun r cfg M sc xs).buf b.name).length := by
  obtain ⟨h1, h2, _, _⟩ := run_window w cfg M sc hb "" xs
  have inv := rinv_run M cfg.N hN (xs.map (· b.comp))
  simp only [RowState.ring] at h1 h2
  rw [h1, h2, inv.cap, inv.len]
  exact Nat.min_le_right _ _

/-- **one flat `merge_state` of single instances** (target window `cfg.N`, source `i` window `p.1`, each fed its own
    statistics), seen on one buffer: the ring `Ring.merge` builds from the corresponding `Ring.run`s, up to lifetime. -/
theorem merge_runs_window {r : WinRow} (w : WFP r) (cfg : Cfg) (hN : 1 ≤ cfg.N) (M : Acc γ) (sc : γ → Bool)
    {b : BufW} (hb : b ∈ r.bufs) {l : LifeW} (hl : l ∈ r.lifes) (ut : List (Nat → γ))
    (srcs : List (Nat × List (Nat → γ))) (hs : ∀ p ∈ srcs, 1 ≤ p.1) :
    Ring.sameWindow
      ((rowMerge r cfg M sc (rowRun r cfg M sc ut)
          (srcs.map fun p => rowRun r ⟨p.1, cfg.lifetime⟩ M sc p.2)).ring b.name l.name)
      ((Ring.run M cfg.N (ut.map (· b.comp))).merge M (runs M (srcs.map fun p => (p.1, p.2.map (· b.comp))))) := by
  have hlen : ∀ t ∈ rowRun r cfg M sc ut :: (srcs.map fun p => rowRun r ⟨p.1, cfg.lifetime⟩ M sc p.2),
      min t.total t.cap ≤ (t.buf b.name).length := by
    intro t ht
    rcases List.mem_cons.mp ht with rfl | ht
    · exact run_buf_length w cfg hN M sc hb ut
    · obtain ⟨p, hp, rfl⟩ := List.mem_map.mp ht
      exact run_buf_length w ⟨p.1, cfg.lifetime⟩ (hs p hp) M sc hb p.2
  obtain ⟨h1, _⟩ := merge_window w cfg M sc _ _ hb hl hlen
  have h2 : Ring.sameWindow
      (((rowRun r cfg M sc ut).ring b.name l.name).merge M
        ((srcs.map fun p => rowRun r ⟨p.1, cfg.lifetime⟩ M sc p.2).map (·.ring b.name l.name)))
      ((Ring.run M cfg.N (ut.map (· b.comp))).merge M (runs M (srcs.map fun p => (p.1, p.2.map (· b.comp))))) := by
    apply merge_sameWindow M M.zero (run_window w cfg M sc hb l.name ut)
    simp only [runs, List.map_map]
    apply List.map_congr_left
    intro p _
    exact (sameWindow_iff_forget M.zero _ _).mp (run_window w ⟨p.1, cfg.lifetime⟩ M sc hb l.name p.2)
  obtain ⟨p1, p2, p3, p4⟩ := h1
  obtain ⟨q1, q2, q3, q4⟩ := h2
  exact ⟨p1.trans q1, p2.trans q2, p3.trans q3, p4.trans q4⟩

/-! ## sample-windowed rows (WindowedBinaryAUROC) -/

structure SWFP (r : SRow) : Prop where
  tot0 : r.tot0 = .lit 0
  cur0 : r.cur0 = .lit 0
  checksFirst : r.checksFirst = true
  args : r.bufs.map (·.2.1) = ["input", "target", "weight"]
  names : nodup (r.bufs.map (·.1)) = true
  branches : r.branches = sBranchesExpected
  zeroBuf : r.cmp.zeroBuf = (r.bufs.map (·.1)).headD ""
  zeroFrom : r.cmp.zeroFrom = .cur
  partHi : r.cmp.partHi = .cur
  squeezed : r.cmp.squeezed = true
  argBufs : r.cmp.argBufs = r.bufs.map (·.1)
  callsSuper : r.rst.callsSuper = true
  cursorTo : r.rst.cursorTo = some (.lit 0)
  mrg : r.mrg.swf = true

theorem SRow.wfp {r : SRow} (h : r.WF = true) : SWFP r := by
  simp only [SRow.WF, Bool.and_eq_true, beq_iff_eq, and_assoc] at h
  obtain ⟨_, h2, h3, _, h5, h6, _, h8, h9, h10, h11, h12, h13, h14, hr, hm⟩ := h
  simp only [ResetW.wf, Bool.and_eq_true, beq_iff_eq] at hr
  exact ⟨h2, h3, h5, h6, h8, h9, h10, h11, h12, h13, h14, hr.1, hr.2, hm⟩

theorem findSBuf_mem {r : SRow} (w : SWFP r) {b : String × String × String} (hb : b ∈ r.bufs) :
    r.bufs.find? (·.1 == b.1) = some b :=
  find_of_nodup (fun (x : String × String × String) => x.1) r.bufs b w.names hb

/-- **one accepted `update()` of a sample-windowed row is the three-branch sample window** (`sUpdate`, which is
    `SBuf.update` on any column type), on every sample buffer with the columns of its own argument; the batch has
    `n` columns, the window size is ≥ 1. -/
theorem sPush_eq {r : SRow} (w : SWFP r) (s : SState γ) (hcap : 1 ≤ s.cap) (x : String → List γ) (n : Nat)
    {b : String × String × String} (hb : b ∈ r.bufs) (hn : (x b.2.1).length = n) :
    (sPush r s n x).buf b.1 = (sUpdate s.cap s.next (s.buf b.1) (x b.2.1)).1 ∧
    (sPush r s n x).next = (sUpdate s.cap s.next (s.buf b.1) (x b.2.1)).2 ∧
    (sPush r s n x).total = s.total + n ∧ (sPush r s n x).cap = s.cap := by
  unfold sPush sUpdate
  rw [w.branches, hn]
  by_cases h1 : s.cap ≤ n
  · have hc : s.cap ≠ 0 := by omega
    simp [sBranchesExpected, SBranch.taken, Cnd.eval, Ix.eval, h1, findSBuf_mem w hb, SWrite.apply, SSlice.apply, hc, hn]
  · by_cases h2 : n ≤ s.cap - s.next
    · simp [sBranchesExpected, SBranch.taken, Cnd.eval, Ix.eval, h1, h2, findSBuf_mem w hb, SWrite.apply, SSlice.apply]
    · have hk : n - (s.cap - s.next) ≠ 0 := by omega
      have hd : n - (n - (s.cap - s.next)) = s.cap - s.next := by omega
      simp [sBranchesExpected, SBranch.taken, Cnd.eval, Ix.eval, h1, h2, findSBuf_mem w hb, SWrite.apply, SSlice.apply,
        hk, hn, hd]

/-- `sUpdate` IS the hand-written sample buffer of TE.Model.Window. -/
theorem sbuf_update_eq (s : SBuf) (b : List Col) :
    s.update b = { s with buf := (sUpdate s.cap s.next s.buf b).1, next := (sUpdate s.cap s.next s.buf b).2,
                          total := s.total + b.length } := by
  unfold SBuf.update sUpdate
  by_cases h1 : s.cap ≤ b.length
  · simp [h1]
  · by_cases h2 : b.length ≤ s.cap - s.next <;> simp [h1, h2]

/-- the columns `compute()` hands to the functional (`SBuf.compute`'s choice: prefix below the cursor when every
    score from the cursor on is zero, else everything). -/
theorem sWindow_eq {r : SRow} (w : SWFP r) (isZero : γ → Bool) (s : SState γ) (name : String) :
    sWindow r isZero s name
      = if ((s.buf ((r.bufs.map (·.1)).headD "")).drop s.next).all isZero then (s.buf name).take s.next else s.buf name := by
  simp only [sWindow, w.zeroBuf, w.zeroFrom, w.partHi, Ix.eval]

theorem sReset_eq_init {r : SRow} (w : SWFP r) (N : Nat) (z : γ) (s : SState γ) :
    sReset r N z s = sInit r N z ∧ (sInit r N z).next = 0 ∧ (sInit r N z).total = 0 := by
  simp only [sReset, w.callsSuper, w.cursorTo, if_true, Ix.eval]
  simp only [sInit, w.cur0, w.tot0, Ix.eval, and_self]

end TE.WinPlumb
