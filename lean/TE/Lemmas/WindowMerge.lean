/-
  TE.Lemmas.WindowMerge — one flat `merge_state` of metrics that were only ever
  updated pools exactly their live windows (C01, windowed clause).
-/
import TE.Lemmas.Window
namespace TE.WindowL
open TE TE.Window TE.Spec.Window

variable {α : Type}

/-- the source metrics: instance `i` has window size `p.1` and was fed `p.2`. -/
def runs (M : Acc α) (srcs : List (Nat × List α)) : List (Ring α) :=
  srcs.map fun p => Ring.run M p.1 p.2

theorem lead_run_length (M : Acc α) (N : Nat) (hN : 1 ≤ N) (us : List α) :
    (Ring.run M N us).lead.length = min us.length N := by
  have h := rinv_run M N hN us
  simp only [Ring.lead, List.length_take, h.total, h.cap, h.len]; omega

/-- the slots `merge_state` copies out of an un-merged metric are its live window (in buffer order). -/
theorem lead_run_perm (M : Acc α) (N : Nat) (hN : 1 ≤ N) (us : List α) :
    (Ring.run M N us).lead.Perm (lastN N us) := by
  have h := rinv_run M N hN us
  unfold Ring.lead
  rw [h.total, h.cap]
  by_cases hlt : us.length < N
  · obtain ⟨_, hb⟩ := rinv_short M N _ us h hlt
    rw [hb, lastN_of_length_le N us (by omega), Nat.min_eq_left (by omega), List.take_left]
  · have hge : N ≤ us.length := by omega
    rw [Nat.min_eq_right hge, List.take_of_length_le (by rw [h.len]; exact Nat.le_refl _),
      ← rinv_long M N _ us h hge]
    exact (rot_perm _ _).symm

theorem runs_lead_perm (M : Acc α) (srcs : List (Nat × List α)) (hs : ∀ p ∈ srcs, 1 ≤ p.1) :
    ((runs M srcs).flatMap Ring.lead).Perm (srcs.flatMap fun p => lastN p.1 p.2) := by
  induction srcs with
  | nil => simp [runs]
  | cons p ps ih =>
    simp only [runs, List.map_cons, List.flatMap_cons]
    exact List.Perm.append (lead_run_perm M p.1 (hs p (List.mem_cons_self ..)) p.2)
      (ih fun q hq => hs q (List.mem_cons_of_mem _ hq))

theorem runs_lead_length (M : Acc α) (srcs : List (Nat × List α)) (hs : ∀ p ∈ srcs, 1 ≤ p.1) :
    ((runs M srcs).flatMap Ring.lead).length = ((runs M srcs).map fun s => min s.total s.cap).sum := by
  induction srcs with
  | nil => simp [runs]
  | cons p ps ih =>
    have hp := hs p (List.mem_cons_self ..)
    have h := rinv_run M p.1 hp p.2
    simp only [runs, List.map_cons, List.flatMap_cons, List.length_append, List.sum_cons]
    rw [lead_run_length M p.1 hp, h.total, h.cap]
    congr 1
    exact ih fun q hq => hs q (List.mem_cons_of_mem _ hq)

theorem runs_idx_le_total (M : Acc α) (srcs : List (Nat × List α)) :
    ((runs M srcs).map fun s => min s.total s.cap).sum ≤ ((runs M srcs).map (·.total)).sum := by
  induction srcs with
  | nil => simp [runs]
  | cons p ps ih =>
    simp only [runs, List.map_cons, List.sum_cons] at ih ⊢
    have : min (Ring.run M p.1 p.2).total (Ring.run M p.1 p.2).cap ≤ (Ring.run M p.1 p.2).total :=
      Nat.min_le_left _ _
    omega

theorem runs_life (M : Acc α) (L : Laws M) (srcs : List (Nat × List α)) (hs : ∀ p ∈ srcs, 1 ≤ p.1) :
    ∀ x : α, (runs M srcs).foldl (fun a s => M.add a s.life) x
      = M.add x (sumA M (srcs.flatMap fun p => p.2)) := by
  induction srcs with
  | nil => intro x; simp [runs, sumA, L.add_zero]
  | cons p ps ih =>
    intro x
    have h := rinv_run M p.1 (hs p (List.mem_cons_self ..)) p.2
    simp only [runs, List.map_cons, List.foldl_cons, List.flatMap_cons]
    have ih' := ih (fun q hq => hs q (List.mem_cons_of_mem _ hq)) (M.add x (Ring.run M p.1 p.2).life)
    simp only [runs] at ih'
    rw [ih', h.life, sumA_append M L, L.assoc]
    rfl

/-- **flat merge of un-merged metrics**: the windowed sums are the sums over the pooled live windows. -/
theorem merge_flat_windowed (M : Acc α) (L : CommLaws M) (N : Nat) (hN : 1 ≤ N) (whole : Bool)
    (ut : List α) (srcs : List (Nat × List α)) (hs : ∀ p ∈ srcs, 1 ≤ p.1) :
    ((Ring.run M N ut).merge M (runs M srcs)).windowed M whole = pooledSpec M N ut srcs := by
  have ht := rinv_run M N hN ut
  have hlen : ((Ring.run M N ut).lead ++ (runs M srcs).flatMap Ring.lead).length
      = min (Ring.run M N ut).total (Ring.run M N ut).cap
        + ((runs M srcs).map fun s => min s.total s.cap).sum := by
    rw [List.length_append, lead_run_length M N hN, runs_lead_length M srcs hs, ht.total, ht.cap]
  have hperm : ((Ring.run M N ut).lead ++ (runs M srcs).flatMap Ring.lead).Perm
      (lastN N ut ++ srcs.flatMap fun p => lastN p.1 p.2) :=
    List.Perm.append (lead_run_perm M N hN ut) (runs_lead_perm M srcs hs)
  unfold pooledSpec nonWindowed
  show _ = sumA M _
  rw [← sumA_perm M L hperm]
  unfold Ring.windowed Ring.merge
  simp only
  by_cases hc : (whole || decide ((Ring.run M N ut).cap ≤
      (Ring.run M N ut).total + ((runs M srcs).map (·.total)).sum)) = true
  · rw [if_pos hc]; exact sumA_pad M L.toLaws _ _
  · rw [if_neg hc]
    have hc' : ¬ ((Ring.run M N ut).cap ≤ (Ring.run M N ut).total + ((runs M srcs).map (·.total)).sum) := by
      intro hle; apply hc; simp [hle]
    have hidx := runs_idx_le_total M srcs
    have hmin : min (Ring.run M N ut).total (Ring.run M N ut).cap ≤ (Ring.run M N ut).total :=
      Nat.min_le_left _ _
    rw [Nat.mod_eq_of_lt (by omega), ← hlen, List.take_left]

/-- …and the lifetime accumulator is the sum over everything any of them saw. -/
theorem merge_flat_life (M : Acc α) (L : Laws M) (N : Nat) (hN : 1 ≤ N)
    (ut : List α) (srcs : List (Nat × List α)) (hs : ∀ p ∈ srcs, 1 ≤ p.1) :
    ((Ring.run M N ut).merge M (runs M srcs)).life
      = lifetimeSpec M (ut ++ srcs.flatMap fun p => p.2) := by
  have ht := rinv_run M N hN ut
  unfold Ring.merge lifetimeSpec nonWindowed
  simp only
  rw [runs_life M L srcs hs, ht.life]
  exact (sumA_append M L ut _).symm

end TE.WindowL
