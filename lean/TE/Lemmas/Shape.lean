/-
  TE.Lemmas.Shape — simp lemmas and tactics for the C18 theorems about the generated
  shape checks (TE/Gen/Shapes.lean).  Core Lean only.
-/
import TE.Model.Shape
namespace TE.Shape
open TE

@[simp] theorem Res.ite_err_ok {c : Prop} [Decidable c] (e : Err) (x : Res) :
    (if c then Res.err e else x) = Res.ok ↔ ¬c ∧ x = Res.ok := by
  by_cases h : c <;> simp [h]

@[simp] theorem Res.ite_ok_err {c : Prop} [Decidable c] (e : Err) (x : Res) :
    (if c then x else Res.err e) = Res.ok ↔ c ∧ x = Res.ok := by
  by_cases h : c <;> simp [h]

@[simp] theorem Res.seq_ok (a b : Res) : a.seq b = Res.ok ↔ a = Res.ok ∧ b = Res.ok := by
  cases a <;> simp [Res.seq]

/-- general two-branch form (not a simp lemma: used explicitly where both branches can return) -/
theorem Res.ite_ok {c : Prop} [Decidable c] (x y : Res) :
    (if c then x else y) = Res.ok ↔ (c ∧ x = Res.ok) ∨ (¬c ∧ y = Res.ok) := by
  by_cases h : c <;> simp [h]

@[simp] theorem ndim_nil : ndim [] = 0 := rfl
@[simp] theorem ndim_cons (a : Nat) (s : Shp) : ndim (a :: s) = ndim s + 1 := rfl
@[simp] theorem size_cons_zero (a : Nat) (s : Shp) : size (a :: s) 0 = a := rfl
@[simp] theorem size_cons_succ (a : Nat) (s : Shp) (i : Nat) : size (a :: s) (i + 1) = size s i := rfl
@[simp] theorem size_nil (i : Nat) : size [] i = 0 := rfl
@[simp] theorem shp_none : shp none = [] := rfl
@[simp] theorem shp_some (s : Shp) : shp (some s) = s := rfl
@[simp] theorem ival_some (n : Int) : ival (some n) = n := rfl
@[simp] theorem slen_some (n : Nat) : slen (some n) = n := rfl
@[simp] theorem numel_nil : numel [] = 1 := rfl
@[simp] theorem numel_cons (a : Nat) (s : Shp) : numel (a :: s) = a * numel s := rfl

theorem numel_eq_zero (s : Shp) : numel s = 0 ↔ 0 ∈ s := by
  induction s with
  | nil => simp
  | cons a s ih =>
    rw [numel_cons, Nat.mul_eq_zero, ih]
    simp [eq_comm]

/-- case split of a shape into ndim 0, 1, 2, 3, ≥ 4 -/
macro "split_shape " x:ident : tactic =>
  `(tactic| rcases $x:ident with _ | ⟨_, _ | ⟨_, _ | ⟨_, _ | ⟨_, _⟩⟩⟩⟩)
/-- case split of a shape into ndim 0, 1, 2, ≥ 3 -/
macro "split_shape3 " x:ident : tactic =>
  `(tactic| rcases $x:ident with _ | ⟨_, _ | ⟨_, _ | ⟨_, _⟩⟩⟩)

end TE.Shape
