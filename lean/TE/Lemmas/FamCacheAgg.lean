/-
  TE.Lemmas.FamCacheAgg — per-class facts for the typed cache-all classes AUC, Wasserstein1D and
  BinaryBinnedAUROC (TE/Model/FamsCache.lean):

    * AUC(reorder=True): `compute()` is invariant under permutations of the points **when points with
      equal abscissa are equal** (`DistinctX`); without that the stably sorted trapezoid depends on the
      arrival order of the tied points (`auc_reorder_tie_witness`) — by definition of the polyline;
    * Wasserstein1D: `StatCat` for its two sample caches, `compute()` invariant under independent
      permutations of both caches (via `C07.wasserstein_eq`: the value is the CDF form `Spec.Agg.w1`),
      and the class's functional is `wasserstein` itself;
    * BinaryBinnedAUROC: per-threshold sums ⇒ permutation invariant; the functional has no `torch.cat`.
-/
import TE.Lemmas.FamCacheCurve
import TE.Props.C07
namespace TE.FamCache
open TE TE.Fams TE.FamStat TE.Agg

/-! ### sorted lists that are permutations of each other -/

theorem insertQ_perm (a : Q) (l : List Q) : (Spec.Agg.insertQ a l).Perm (a :: l) := by
  induction l with
  | nil => exact List.Perm.refl _
  | cons b l ih =>
    unfold Spec.Agg.insertQ
    split
    · exact List.Perm.refl _
    · exact ((List.Perm.cons b ih).trans (List.Perm.swap a b l))

theorem sortQ_perm (l : List Q) : (Spec.Agg.sortQ l).Perm l := by
  induction l with
  | nil => exact List.Perm.refl _
  | cons a l ih => exact (insertQ_perm a _).trans (List.Perm.cons a ih)

theorem insertQ_sorted (a : Q) (l : List Q) (h : l.Pairwise (· ≤ ·)) :
    (Spec.Agg.insertQ a l).Pairwise (· ≤ ·) := by
  induction l with
  | nil => exact List.pairwise_singleton _ _
  | cons b l ih =>
    unfold Spec.Agg.insertQ
    obtain ⟨hb, hl⟩ := List.pairwise_cons.mp h
    split
    · rename_i hab
      refine List.pairwise_cons.mpr ⟨?_, h⟩
      intro c hc
      rcases List.mem_cons.mp hc with rfl | hc
      · exact hab
      · exact Rat.le_trans hab (hb c hc)
    · rename_i hab
      refine List.pairwise_cons.mpr ⟨?_, ih hl⟩
      intro c hc
      rcases List.mem_cons.mp ((insertQ_perm a l).mem_iff.mp hc) with rfl | hc
      · exact Rat.le_of_lt (Rat.not_le.mp hab)
      · exact hb c hc

theorem sortQ_sorted (l : List Q) : (Spec.Agg.sortQ l).Pairwise (· ≤ ·) := by
  induction l with
  | nil => exact List.Pairwise.nil
  | cons a l ih => exact insertQ_sorted a _ ih

theorem sortQ_eq_of_perm {l l' : List Q} (h : l.Perm l') : Spec.Agg.sortQ l = Spec.Agg.sortQ l' :=
  List.Perm.eq_of_pairwise (le := (· ≤ ·)) (fun _ _ _ _ h1 h2 => Rat.le_antisymm h1 h2)
    (sortQ_sorted l) (sortQ_sorted l') ((sortQ_perm l).trans (h.trans (sortQ_perm l').symm))

/-- points with equal abscissa are equal points. -/
def TiesEqual (m : List (Q × Q)) : Prop := ∀ p ∈ m, ∀ q ∈ m, p.1 = q.1 → p = q

theorem sortPts_eq_of_perm {m m' : List (Q × Q)} (h : m.Perm m') (ht : TiesEqual m) :
    Spec.Agg.sortPts m = Spec.Agg.sortPts m' := by
  apply List.Perm.eq_of_pairwise (le := fun a b : Q × Q => a.1 ≤ b.1) _ (AggL.sortPts_sorted m)
    (AggL.sortPts_sorted m') ((AggL.sortPts_perm m).trans (h.trans (AggL.sortPts_perm m').symm))
  intro a b ha hb h1 h2
  exact ht a ((AggL.sortPts_perm m).mem_iff.mp ha)
    b (h.mem_iff.mpr ((AggL.sortPts_perm m').mem_iff.mp hb)) (Rat.le_antisymm h1 h2)

/-! ### AUC -/

theorem zip_fst_snd {α β : Type} (m : List (α × β)) : (m.map (·.1)).zip (m.map (·.2)) = m := by
  rw [zip_map_map]; simp

/-- `reorder=True` on the points of one task: the trapezoid rule over the points ordered by `x`. -/
theorem aucRow_reorder_pairs (m : List (Q × Q)) :
    aucRow true (m.map (·.1)) (m.map (·.2)) = Spec.Agg.auc m := by
  rw [AggL.aucRow_reorder _ _ (by simp), zip_fst_snd]

/-- the points of every task have pairwise distinct abscissae (or coincide). -/
def DistinctX (nt : Nat) (l : List TaskPair) : Prop := ∀ k, k < nt → TiesEqual (pairsAt k l)

theorem outPerm_auc_reorder (nt : Nat) : OutPerm (aucC true nt).out (DistinctX nt) := by
  intro l l' hp hP
  show Except.ok _ = Except.ok _
  congr 1
  unfold taskPairRows
  rw [List.map_map, List.map_map]
  apply List.map_congr_left
  intro k hk
  simp only [Function.comp_def, taskPairRow_eq, aucRow_reorder_pairs, Spec.Agg.auc]
  rw [sortPts_eq_of_perm (show (pairsAt k l).Perm (pairsAt k l') from hp.map _) (hP k (List.mem_range.mp hk))]

/-- why `DistinctX` cannot be dropped: two points share `x = 1`; `torch.sort(stable=True)` keeps their
    arrival order, and the polyline through `(1, 1), (1, 2)` is not the one through `(1, 2), (1, 1)`. -/
theorem auc_reorder_tie_witness :
    ((aucC true 1).out [([0], [0]), ([1], [1]), ([1], [2]), ([3], [0])]).toOption = some [5 / 2] ∧
    ((aucC true 1).out [([0], [0]), ([1], [2]), ([1], [1]), ([3], [0])]).toOption = some [2] := by
  decide +kernel

/-! ### Wasserstein1D -/

theorem expandO_length (xs : List Q) (w : Option (List Q)) (h : weightsOk xs w = true) :
    (expandO xs.length w).length = xs.length := by
  cases w with
  | none => simp [expandO]
  | some ws => simp [weightsOk] at h; simp [expandO, h.2]

theorem expandO_pos (xs : List Q) (w : Option (List Q)) (h : weightsOk xs w = true) :
    ∀ q ∈ expandO xs.length w, 0 < q := by
  cases w with
  | none => intro q hq; simp [expandO] at hq; rw [hq.2]; decide +kernel
  | some ws =>
    simp [weightsOk] at h
    intro q hq
    exact h.1.2 q hq

/-- validity of a cached distribution: some sample, all weights positive. -/
def WOk (p : List (Q × Q)) : Prop := p ≠ [] ∧ ∀ q ∈ p, 0 < q.2

theorem weightsOk_pairs (p : List (Q × Q)) :
    (p ≠ [] ∧ weightsOk (p.map (·.1)) (some (p.map (·.2))) = true) ↔ WOk p := by
  unfold WOk
  constructor
  · intro ⟨hne, h⟩
    simp [weightsOk] at h
    exact ⟨hne, fun q hq => h.2 q.1 q.2 hq⟩
  · intro ⟨hne, h⟩
    refine ⟨hne, ?_⟩
    simp [weightsOk, hne]
    intro a b hab
    exact h (a, b) hab

theorem wOk_perm {p p' : List (Q × Q)} (h : p.Perm p') (hp : WOk p) : WOk p' :=
  ⟨fun e => hp.1 ((perm_nil_iff h).mpr e), fun q hq => hp.2 q (h.mem_iff.mpr hq)⟩

theorem cdf_perm {p p' : List (Q × Q)} (h : p.Perm p') : Spec.Agg.cdf p = Spec.Agg.cdf p' := by
  funext v
  unfold Spec.Agg.cdf
  rw [AggL.sum_perm ((h.filter _).map _), AggL.sum_perm (h.map _)]

/-- the CDF form of the distance depends only on the two multisets of weighted samples. -/
theorem w1_perm {px px' py py' : List (Q × Q)} (hx : px.Perm px') (hy : py.Perm py') :
    Spec.Agg.w1 px py = Spec.Agg.w1 px' py' := by
  unfold Spec.Agg.w1
  rw [sortQ_eq_of_perm ((hx.map _).append (hy.map _))]
  generalize Spec.Agg.sortQ _ = S
  have e1 := cdf_perm hx
  have e2 := cdf_perm hy
  induction S with
  | nil => rfl
  | cons a S ih =>
    cases S with
    | nil => rfl
    | cons b S => simp only [Spec.Agg.w1On, e1, e2, ih]

theorem wassOut_valid (s : List (Q × Q) × List (Q × Q)) (h1 : WOk s.1) (h2 : WOk s.2) :
    wassOut s = .ok (Spec.Agg.w1 s.1 s.2) := by
  unfold wassOut
  have a1 := (weightsOk_pairs s.1).mpr h1
  have a2 := (weightsOk_pairs s.2).mpr h2
  rw [C07.wasserstein_eq _ _ _ _ (by simpa using a1.1) (by simpa using a2.1) a1.2 a2.2]
  simp only [Spec.Agg.unitOr, Option.getD_some, zip_fst_snd]

theorem wassOut_invalid (s : List (Q × Q) × List (Q × Q)) (h : ¬ (WOk s.1 ∧ WOk s.2)) :
    wassOut s = .error .value := by
  unfold wassOut
  apply C07.wasserstein_rejects
  by_cases e1 : s.1 = []
  · left; simp [e1]
  · by_cases e2 : s.2 = []
    · right; left; simp [e2]
    · by_cases w1 : weightsOk (s.1.map (·.1)) (some (s.1.map (·.2))) = true
      · by_cases w2 : weightsOk (s.2.map (·.1)) (some (s.2.map (·.2))) = true
        · exact absurd ⟨(weightsOk_pairs s.1).mp ⟨e1, w1⟩, (weightsOk_pairs s.2).mp ⟨e2, w2⟩⟩ h
        · right; right; right; simpa using w2
      · right; right; left; simpa using w1

/-- **`Wasserstein1D.compute()` depends only on the two multisets of cached weighted samples.** -/
theorem wassOut_perm {s s' : List (Q × Q) × List (Q × Q)} (h1 : s.1.Perm s'.1) (h2 : s.2.Perm s'.2) :
    wassOut s = wassOut s' := by
  by_cases hv : WOk s.1 ∧ WOk s.2
  · rw [wassOut_valid s hv.1 hv.2, wassOut_valid s' (wOk_perm h1 hv.1) (wOk_perm h2 hv.2), w1_perm h1 h2]
  · have hv' : ¬ (WOk s'.1 ∧ WOk s'.2) := fun h => hv ⟨wOk_perm h1.symm h.1, wOk_perm h2.symm h.2⟩
    rw [wassOut_invalid s hv, wassOut_invalid s' hv']

/-- the data-level validity of an update. -/
def wValid (b : WBatch) : Bool :=
  !(b.x.isEmpty || b.y.isEmpty) && (weightsOk b.x b.xw && weightsOk b.y b.yw)

def wSamples (b : WBatch) : List (Q × Q) × List (Q × Q) :=
  (b.x.zip (expandO b.x.length b.xw), b.y.zip (expandO b.y.length b.yw))

theorem wassStat_eq (b : WBatch) : wassStat b = if wValid b then .ok (wSamples b) else .error .value := by
  unfold wassStat wValid wSamples
  by_cases h1 : (b.x.isEmpty || b.y.isEmpty) = true
  · simp [h1]
  · by_cases h2 : (!weightsOk b.x b.xw || !weightsOk b.y b.yw) = true
    · have : (weightsOk b.x b.xw && weightsOk b.y b.yw) = false := by
        cases hx : weightsOk b.x b.xw <;> cases hy : weightsOk b.y b.yw <;> simp_all
      simp [h1, h2, this]
    · have : (weightsOk b.x b.xw && weightsOk b.y b.yw) = true := by
        cases hx : weightsOk b.x b.xw <;> cases hy : weightsOk b.y b.yw <;> simp_all
      simp [h1, h2, this]

theorem wassStat_ok_iff (b : WBatch) (a : List (Q × Q) × List (Q × Q)) :
    wassStat b = .ok a ↔ wValid b = true ∧ a = wSamples b := by
  rw [wassStat_eq]
  by_cases h : wValid b = true
  · simp [h, eq_comm]
  · simp [h]

theorem wValid_iff (b : WBatch) :
    wValid b = true ↔ b.x ≠ [] ∧ b.y ≠ [] ∧ weightsOk b.x b.xw = true ∧ weightsOk b.y b.yw = true := by
  unfold wValid
  cases hx : b.x <;> cases hy : b.y <;> simp

def cat2W (b c : WBatch) : WBatch :=
  { x := b.x ++ c.x
    y := b.y ++ c.y
    xw := some (expandO b.x.length b.xw ++ expandO c.x.length c.xw)
    yw := some (expandO b.y.length b.yw ++ expandO c.y.length c.yw) }

theorem weightsOk_some_iff (xs ws : List Q) :
    weightsOk xs (some ws) = true ↔ ws ≠ [] ∧ (∀ q ∈ ws, 0 < q) ∧ ws.length = xs.length := by
  simp [weightsOk, and_assoc]

theorem weightsOk_expand (xs : List Q) (w : Option (List Q)) (hne : xs ≠ []) (h : weightsOk xs w = true) :
    weightsOk xs (some (expandO xs.length w)) = true := by
  rw [weightsOk_some_iff]
  refine ⟨?_, expandO_pos xs w h, expandO_length xs w h⟩
  intro e
  have := expandO_length xs w h
  rw [e] at this
  exact hne (List.length_eq_zero_iff.mp this.symm)

/-- **Wasserstein1D: the statistic of a concatenation is the concatenation of the statistics.** -/
theorem statCat_wass : StatCat (pairAcc (Q × Q) (Q × Q)) wassStat catW := by
  apply statCat_of_cat2 (pairAcc (Q × Q) (Q × Q)) (pairAcc_laws _ _) wassStat catW cat2W
  · intro b a h
    obtain ⟨hv, rfl⟩ := (wassStat_ok_iff b a).mp h
    obtain ⟨hx, hy, wx, wy⟩ := (wValid_iff b).mp hv
    rw [wassStat_ok_iff]
    have ex := expandO_length b.x b.xw wx
    have ey := expandO_length b.y b.yw wy
    refine ⟨?_, ?_⟩
    · rw [wValid_iff]
      simp only [catW, List.map_cons, List.map_nil, List.flatten_cons, List.flatten_nil, List.append_nil]
      exact ⟨hx, hy, weightsOk_expand _ _ hx wx, weightsOk_expand _ _ hy wy⟩
    · simp [wSamples, catW, expandO]
  · intro b bs _
    simp [catW, cat2W, expandO]
  · intro b₁ b₂ a₁ a₂ h₁ h₂
    obtain ⟨hv₁, rfl⟩ := (wassStat_ok_iff b₁ a₁).mp h₁
    obtain ⟨hv₂, rfl⟩ := (wassStat_ok_iff b₂ a₂).mp h₂
    obtain ⟨hx₁, hy₁, wx₁, wy₁⟩ := (wValid_iff b₁).mp hv₁
    obtain ⟨hx₂, hy₂, wx₂, wy₂⟩ := (wValid_iff b₂).mp hv₂
    have ex₁ := expandO_length b₁.x b₁.xw wx₁
    have ey₁ := expandO_length b₁.y b₁.yw wy₁
    have ex₂ := expandO_length b₂.x b₂.xw wx₂
    have ey₂ := expandO_length b₂.y b₂.yw wy₂
    rw [wassStat_ok_iff]
    refine ⟨?_, ?_⟩
    · rw [wValid_iff]
      refine ⟨by simp [cat2W, hx₁], by simp [cat2W, hy₁], ?_, ?_⟩
      · rw [show (cat2W b₁ b₂).xw = some _ from rfl, weightsOk_some_iff]
        refine ⟨?_, ?_, by simp [cat2W, ex₁, ex₂]⟩
        · intro e
          have := congrArg List.length e
          simp [ex₁, ex₂] at this
          exact hx₁ this.1
        · intro q hq
          rcases List.mem_append.mp hq with hq | hq
          · exact expandO_pos _ _ wx₁ q hq
          · exact expandO_pos _ _ wx₂ q hq
      · rw [show (cat2W b₁ b₂).yw = some _ from rfl, weightsOk_some_iff]
        refine ⟨?_, ?_, by simp [cat2W, ey₁, ey₂]⟩
        · intro e
          have := congrArg List.length e
          simp [ey₁, ey₂] at this
          exact hy₁ this.1
        · intro q hq
          rcases List.mem_append.mp hq with hq | hq
          · exact expandO_pos _ _ wy₁ q hq
          · exact expandO_pos _ _ wy₂ q hq
    · have eo : ∀ (n : Nat) (ws : List Q), expandO n (some ws) = ws := fun _ _ => rfl
      simp only [wSamples, cat2W, pairAcc, eo]
      rw [List.zip_append (by rw [ex₁]), List.zip_append (by rw [ey₁])]

/-- the class's functional `stat >=> out` IS the functional `wasserstein_1d`: the class substitutes
    unit weights for missing ones, which is what the definition does. -/
theorem wassFn_eq_functional (b : WBatch) : wassFn b = wasserstein b.x b.y b.xw b.yw := by
  unfold wassFn
  rw [wassStat_eq]
  by_cases hv : wValid b = true
  · obtain ⟨hx, hy, wx, wy⟩ := (wValid_iff b).mp hv
    have ex := expandO_length b.x b.xw wx
    have ey := expandO_length b.y b.yw wy
    simp only [hv, if_true, bind, Except.bind]
    unfold wassOut wSamples
    simp only [map_fst_zip' _ _ ex.symm, map_snd_zip' _ _ ex.symm, map_fst_zip' _ _ ey.symm, map_snd_zip' _ _ ey.symm]
    rw [C07.wasserstein_eq _ _ _ _ hx hy (weightsOk_expand _ _ hx wx) (weightsOk_expand _ _ hy wy),
      C07.wasserstein_eq _ _ _ _ hx hy wx wy]
    have u : ∀ (xs : List Q) (w : Option (List Q)),
        Spec.Agg.unitOr xs (some (expandO xs.length w)) = Spec.Agg.unitOr xs w := by
      intro xs w
      cases w with
      | none => simp [Spec.Agg.unitOr, expandO, List.map_const']
      | some ws => rfl
    rw [u, u]
  · have hv' : wValid b = false := by simpa using hv
    simp only [hv', Bool.false_eq_true, if_false, bind, Except.bind]
    symm
    apply C07.wasserstein_rejects
    have : ¬ (b.x ≠ [] ∧ b.y ≠ [] ∧ weightsOk b.x b.xw = true ∧ weightsOk b.y b.yw = true) :=
      fun h => hv ((wValid_iff b).mpr h)
    by_cases e1 : b.x = []
    · exact Or.inl e1
    · by_cases e2 : b.y = []
      · exact Or.inr (Or.inl e2)
      · by_cases w1 : weightsOk b.x b.xw = true
        · by_cases w2 : weightsOk b.y b.yw = true
          · exact absurd ⟨e1, e2, w1, w2⟩ this
          · exact Or.inr (Or.inr (Or.inr (by simpa using w2)))
        · exact Or.inr (Or.inr (Or.inl (by simpa using w1)))

/-- states of valid `Wasserstein1D` streams. -/
def WValid (bs : List WBatch) : Prop := ∀ b ∈ bs, ∃ a, wassStat b = .ok a

def wState (bs : List WBatch) : List (Q × Q) × List (Q × Q) :=
  accL (pairAcc (Q × Q) (Q × Q)) (statT (pairAcc (Q × Q) (Q × Q)) wassStat) bs

/-- **C12 (any order)**: two valid streams whose weighted samples of either distribution are
    permutations of each other give the same `compute()`. -/
theorem wass_anyOrder (bs bs' : List WBatch) (hv : WValid bs) (hv' : WValid bs')
    (h1 : (wState bs).1.Perm (wState bs').1) (h2 : (wState bs).2.Perm (wState bs').2) :
    ∃ s s', eval wassCls (single bs) = .ok s ∧ eval wassCls (single bs') = .ok s' ∧
      wassCls.out s = wassCls.out s' :=
  ⟨_, _, eval_single _ wassStat wassOut bs hv, eval_single _ wassStat wassOut bs' hv', wassOut_perm h1 h2⟩

/-- **C01 (any order)**: `compute()` of any history tree = the functional `wasserstein_1d` on the
    concatenation of ANY valid stream holding the same weighted samples (in any order). -/
theorem wass_mergeTree_anyOrder (h : Hist WBatch) (s : List (Q × Q) × List (Q × Q))
    (he : eval wassCls h = .ok s) (bs : List WBatch) (hne : bs ≠ []) (hv : WValid bs)
    (h1 : (wState bs).1.Perm (wState (flatten h)).1) (h2 : (wState bs).2.Perm (wState (flatten h)).2) :
    s = wState (flatten h) ∧
    wassCls.out s = wasserstein (catW bs).x (catW bs).y (catW bs).xw (catW bs).yw ∧
    ∃ s', eval wassCls (single bs) = .ok s' ∧ wassCls.out s' = wassCls.out s := by
  have hs : s = wState (flatten h) := by
    have := (refines (additive_sim _ wassStat wassOut) (pairAcc_laws _ _) h s he).2
    simp only [id] at this
    unfold wState
    exact this
  refine ⟨hs, ?_, _, eval_single _ wassStat wassOut bs hv, ?_⟩
  · rw [← wassFn_eq_functional, wassFn, statCat_wass bs hne hv, hs]
    exact (wassOut_perm h1 h2).symm
  · rw [hs]; exact wassOut_perm h1 h2

/-! ### BinaryBinnedAUROC -/

theorem qsum_perm {l l' : List Q} (h : l.Perm l') : qsum l = qsum l' := by
  rw [qsum_eq_sum, qsum_eq_sum, AggL.sum_perm h]

/-- one task row of the binned AUROC only sums over the samples. -/
theorem binnedAurocRow_perm (t : List Q) {m m' : List (Q × Q)} (h : m.Perm m') :
    Binned.binnedAurocRow t (m.map (·.1)) (m.map (·.2)) = Binned.binnedAurocRow t (m'.map (·.1)) (m'.map (·.2)) := by
  have e1 : ∀ u, Binned.aurocTp u (m.map (·.1)) (m.map (·.2)) = Binned.aurocTp u (m'.map (·.1)) (m'.map (·.2)) := by
    intro u
    unfold Binned.aurocTp
    rw [zip_fst_snd, zip_fst_snd]
    exact qsum_perm (h.map _)
  have e2 : ∀ u, Binned.aurocFp u (m.map (·.1)) (m.map (·.2)) = Binned.aurocFp u (m'.map (·.1)) (m'.map (·.2)) := by
    intro u
    unfold Binned.aurocFp
    rw [e1 u, qsum_perm ((h.map _).map _)]
  unfold Binned.binnedAurocRow
  simp only [e1, e2]

theorem outPerm_binaryBinnedAuroc (t : List Q) (nt : Nat) :
    OutPerm (binaryBinnedAurocL t nt).outA (fun _ => True) := by
  intro l l' hp _
  show (if l.isEmpty then _ else _) = (if l'.isEmpty then _ else _)
  have e : l.isEmpty = l'.isEmpty := by
    cases l <;> cases l' <;> simp_all
  rw [e]
  split
  · rfl
  · congr 1
    unfold Binned.binaryBinnedAuroc taskPairRows
    rw [List.map_map, List.map_map]
    apply List.map_congr_left
    intro k _
    simp only [Function.comp_def, taskPairRow_eq]
    exact binnedAurocRow_perm t (hp.map _)

/-- on a non-empty cache the class computes what the functional computes. -/
theorem binaryBinnedAuroc_out_eq_fn (t : List Q) (nt : Nat) (l : List TaskPair) (h : l ≠ []) :
    (binaryBinnedAurocL t nt).outA l = binaryBinnedAurocFn t nt l := by
  simp [binaryBinnedAurocL, binaryBinnedAurocFn, h]

theorem mcBinnedAuroc_out_eq_fn (t : List Q) (C : Nat) (b : Mat × List Nat) (h : b.1.length = b.2.length)
    (hne : b.1 ≠ []) :
    rowSamples b >>= (mcBinnedAurocL t C).outA = mcBinnedAurocFn t C b := by
  have hz : (b.1.zip b.2).isEmpty = false := by
    cases h1 : b.1 with
    | nil => exact absurd h1 hne
    | cons r rs =>
      cases h2 : b.2 with
      | nil => rw [h1, h2] at h; simp at h
      | cons c cs => rfl
  unfold mcBinnedAurocFn
  rw [rowSamples_ok b h]
  simp only [bind, Except.bind, mcBinnedAurocL, hz, Bool.false_eq_true, if_false]

end TE.FamCache
