/-
  TE.Lemmas.RoundTree — error of a floating-point sum over an arbitrary summation tree, with
  arbitrary per-node rounding (`RSum`), with perturbed leaves (elementwise operations before the
  sum), and for the left fold of per-batch tree sums (the class accumulators).
-/
import TE.Lemmas.Round
namespace TE.RoundL
open TE.Round TE.Round.SumTree

/-! ### exact sums over trees -/

theorem asum_nonneg (t : SumTree Q) : 0 ≤ t.asum := by
  induction t with
  | leaf x => exact qabs_nonneg x
  | node l r ihl ihr => simp only [asum]; linarith

theorem qabs_sum_le_asum (t : SumTree Q) : qabs t.sum ≤ t.asum := by
  induction t with
  | leaf x => exact le_refl _
  | node l r ihl ihr =>
    simp only [SumTree.sum, asum]
    have := qabs_add_le l.sum r.sum
    linarith

/-- for non-negative leaves `Σ|x| = Σx`. -/
theorem asum_eq_sum_of_nonneg {t : SumTree Q} (h : t.NonNeg) : t.asum = t.sum ∧ 0 ≤ t.sum := by
  induction t with
  | leaf x => exact ⟨qabs_of_nonneg h, h⟩
  | node l r ihl ihr =>
    obtain ⟨hl, hr⟩ := h
    obtain ⟨el, pl⟩ := ihl hl
    obtain ⟨er, pr⟩ := ihr hr
    simp only [SumTree.sum, asum]
    exact ⟨by rw [el, er], by linarith⟩

theorem size_pos {α : Type} (t : SumTree α) : 0 < t.size := by
  induction t with
  | leaf a => simp [size]
  | node l r ihl ihr => simp only [size]; omega

/-- **a tree with n leaves has depth at most n − 1** (equality for the left comb = sequential summation). -/
theorem depth_lt_size {α : Type} (t : SumTree α) : t.depth + 1 ≤ t.size := by
  induction t with
  | leaf a => simp [depth, size]
  | node l r ihl ihr =>
    simp only [depth, size]
    have := size_pos l; have := size_pos r
    omega

theorem size_eq_length_leaves {α : Type} (t : SumTree α) : t.size = t.leaves.length := by
  induction t with
  | leaf a => rfl
  | node l r ihl ihr => simp [size, leaves, ihl, ihr]

theorem depth_map {α β : Type} (f : α → β) (t : SumTree α) : (t.map f).depth = t.depth := by
  induction t with
  | leaf a => rfl
  | node l r ihl ihr => simp [map, depth, ihl, ihr]

theorem size_map {α β : Type} (f : α → β) (t : SumTree α) : (t.map f).size = t.size := by
  induction t with
  | leaf a => rfl
  | node l r ihl ihr => simp [map, size, ihl, ihr]

theorem sum_eq_leaves_sum (t : SumTree Q) : t.sum = t.leaves.sum := by
  induction t with
  | leaf x => simp [SumTree.sum, leaves]
  | node l r ihl ihr => simp [SumTree.sum, leaves, ihl, ihr]

theorem asum_eq_leaves_sum (t : SumTree Q) : t.asum = (t.leaves.map qabs).sum := by
  induction t with
  | leaf x => simp [asum, leaves]
  | node l r ihl ihr => simp [asum, leaves, ihl, ihr]

/-! ### the main induction -/

/-- **SumTree-sum error, every tree, every per-node rounding.**  If every addition of the tree commits a
    relative error of at most `u`, the computed sum `v` satisfies
    `|v − Σ leaves| ≤ ((1+u)^depth − 1)·Σ|leaves|`. -/
theorem rsum_error {u : Q} (hu : 0 ≤ u) {t : SumTree Q} {v : Q} (h : RSum u t v) :
    qabs (v - t.sum) ≤ ((1 + u) ^ t.depth - 1) * t.asum := by
  induction h with
  | leaf x =>
    have e : x - x = 0 := by ring
    simp only [SumTree.sum, depth, asum, e, qabs_zero]
    simp
  | @node l r a b v hl hr hv ihl ihr =>
    simp only [SumTree.sum, depth, asum]
    -- m = max depth; P = (1+u)^m
    have hml : l.depth ≤ max l.depth r.depth := Nat.le_max_left _ _
    have hmr : r.depth ≤ max l.depth r.depth := Nat.le_max_right _ _
    generalize max l.depth r.depth = m at hml hmr ⊢
    have hAl := asum_nonneg l; have hAr := asum_nonneg r
    have hP1 := one_le_pw hu m
    have el : qabs (a - l.sum) ≤ ((1 + u) ^ m - 1) * l.asum :=
      le_trans ihl (mul_le_mul_of_nonneg_right (ek_mono hu hml) hAl)
    have er : qabs (b - r.sum) ≤ ((1 + u) ^ m - 1) * r.asum :=
      le_trans ihr (mul_le_mul_of_nonneg_right (ek_mono hu hmr) hAr)
    -- |a + b| ≤ P·(Al + Ar)
    have ha : qabs a ≤ (1 + u) ^ m * l.asum := by
      have := qabs_le_add_err a l.sum; have := qabs_sum_le_asum l; linarith
    have hb : qabs b ≤ (1 + u) ^ m * r.asum := by
      have := qabs_le_add_err b r.sum; have := qabs_sum_le_asum r; linarith
    have hab : qabs (a + b) ≤ (1 + u) ^ m * (l.asum + r.asum) := by
      have := qabs_add_le a b; linarith
    have huab : u * qabs (a + b) ≤ u * ((1 + u) ^ m * (l.asum + r.asum)) := mul_le_mul_of_nonneg_left hab hu
    -- |v − S| ≤ |v − (a+b)| + |a − Sl| + |b − Sr|
    have t1 := qabs_tri v (a + b) (l.sum + r.sum)
    have t2 : qabs (a + b - (l.sum + r.sum)) ≤ qabs (a - l.sum) + qabs (b - r.sum) := by
      have := qabs_add_le (a - l.sum) (b - r.sum)
      have e : a - l.sum + (b - r.sum) = a + b - (l.sum + r.sum) := by ring
      rwa [e] at this
    have fin : ((1 + u) ^ (m + 1) - 1) * (l.asum + r.asum)
        = u * ((1 + u) ^ m * (l.asum + r.asum)) + ((1 + u) ^ m - 1) * l.asum + ((1 + u) ^ m - 1) * r.asum := by
      rw [pow_succ]; ring
    rw [fin]
    linarith

/-- a single rounding operator applied at every node is one admissible per-node rounding. -/
theorem fsum_RSum {u : Q} (F : Fl u) (t : SumTree Q) : RSum u t (t.fsum F) := by
  induction t with
  | leaf x => exact RSum.leaf x
  | node l r ihl ihr => exact RSum.node ihl ihr (F.err _)

/-- `tree_sum_error` for a fixed rounding operator. -/
theorem fsum_error {u : Q} (hu : 0 ≤ u) (F : Fl u) (t : SumTree Q) :
    qabs (t.fsum F - t.sum) ≤ ((1 + u) ^ t.depth - 1) * t.asum :=
  rsum_error hu (fsum_RSum F t)

/-- the bound in terms of the NUMBER of addends only (valid whatever the order of summation). -/
theorem rsum_error_size {u : Q} (hu : 0 ≤ u) {t : SumTree Q} {v : Q} (h : RSum u t v) :
    qabs (v - t.sum) ≤ ((1 + u) ^ (t.size - 1) - 1) * t.asum := by
  have hd : t.depth ≤ t.size - 1 := by have := depth_lt_size t; omega
  exact le_trans (rsum_error hu h) (mul_le_mul_of_nonneg_right (ek_mono hu hd) (asum_nonneg t))

/-! ### perturbed leaves: elementwise rounded operations before the sum -/

/-- leafwise `k` roundings: `|Σf̂ − Σf| ≤ eₖ·Σ|f|` and `Σ|f̂| ≤ (1+u)ᵏ·Σ|f|`. -/
theorem map_leaf_err {α : Type} {u : Q} {k : Nat} (fh f : α → Q) (hf : ∀ a, RelErr u k (fh a) (f a))
    (t : SumTree α) :
    qabs ((t.map fh).sum - (t.map f).sum) ≤ ((1 + u) ^ k - 1) * (t.map f).asum ∧
    (t.map fh).asum ≤ (1 + u) ^ k * (t.map f).asum := by
  induction t with
  | leaf a =>
    simp only [map, SumTree.sum, asum]
    exact ⟨hf a, relErr_abs_le (hf a)⟩
  | node l r ihl ihr =>
    simp only [map, SumTree.sum, asum]
    obtain ⟨l1, l2⟩ := ihl; obtain ⟨r1, r2⟩ := ihr
    constructor
    · have := qabs_add_le ((l.map fh).sum - (l.map f).sum) ((r.map fh).sum - (r.map f).sum)
      have e : (l.map fh).sum - (l.map f).sum + ((r.map fh).sum - (r.map f).sum)
          = (l.map fh).sum + (r.map fh).sum - ((l.map f).sum + (r.map f).sum) := by ring
      rw [e] at this
      have d : ((1 + u) ^ k - 1) * ((l.map f).asum + (r.map f).asum)
          = ((1 + u) ^ k - 1) * (l.map f).asum + ((1 + u) ^ k - 1) * (r.map f).asum := by ring
      rw [d]; linarith
    · have d : (1 + u) ^ k * ((l.map f).asum + (r.map f).asum)
          = (1 + u) ^ k * (l.map f).asum + (1 + u) ^ k * (r.map f).asum := by ring
      rw [d]; linarith

/-- **Sum of rounded terms.**  Each term carries at most `k` roundings, the sum is taken over any tree with
    any per-node rounding: `|v − Σ f| ≤ ((1+u)^(depth+k) − 1)·Σ|f|`. -/
theorem map_rsum_error {α : Type} {u : Q} (hu : 0 ≤ u) {k : Nat} (fh f : α → Q)
    (hf : ∀ a, RelErr u k (fh a) (f a)) (t : SumTree α) {v : Q} (h : RSum u (t.map fh) v) :
    qabs (v - (t.map f).sum) ≤ ((1 + u) ^ (t.depth + k) - 1) * (t.map f).asum := by
  have h1 := rsum_error hu h
  rw [depth_map] at h1
  obtain ⟨h2, h3⟩ := map_leaf_err fh f hf t
  have h4 := qabs_tri v (t.map fh).sum (t.map f).sum
  have hd := ek_nonneg hu t.depth
  have h5 : ((1 + u) ^ t.depth - 1) * (t.map fh).asum ≤ ((1 + u) ^ t.depth - 1) * ((1 + u) ^ k * (t.map f).asum) :=
    mul_le_mul_of_nonneg_left h3 hd
  have fin : ((1 + u) ^ (t.depth + k) - 1) * (t.map f).asum
      = ((1 + u) ^ t.depth - 1) * ((1 + u) ^ k * (t.map f).asum) + ((1 + u) ^ k - 1) * (t.map f).asum := by
    rw [pow_add]; ring
  rw [fin]; linarith

/-- leafwise relative perturbation by an ARBITRARY `e` (e.g. the leaves are themselves computed ratios). -/
theorem map_leaf_err_e {α : Type} {e : Q} (fh f : α → Q) (hf : ∀ a, qabs (fh a - f a) ≤ e * qabs (f a))
    (t : SumTree α) :
    qabs ((t.map fh).sum - (t.map f).sum) ≤ e * (t.map f).asum ∧
    (t.map fh).asum ≤ (1 + e) * (t.map f).asum := by
  induction t with
  | leaf a =>
    simp only [map, SumTree.sum, asum]
    refine ⟨hf a, ?_⟩
    have := qabs_le_add_err (fh a) (f a)
    have := hf a
    linarith
  | node l r ihl ihr =>
    simp only [map, SumTree.sum, asum]
    obtain ⟨l1, l2⟩ := ihl; obtain ⟨r1, r2⟩ := ihr
    constructor
    · have := qabs_add_le ((l.map fh).sum - (l.map f).sum) ((r.map fh).sum - (r.map f).sum)
      have e1 : (l.map fh).sum - (l.map f).sum + ((r.map fh).sum - (r.map f).sum)
          = (l.map fh).sum + (r.map fh).sum - ((l.map f).sum + (r.map f).sum) := by ring
      rw [e1] at this
      have d : e * ((l.map f).asum + (r.map f).asum) = e * (l.map f).asum + e * (r.map f).asum := by ring
      rw [d]; linarith
    · have d : (1 + e) * ((l.map f).asum + (r.map f).asum)
          = (1 + e) * (l.map f).asum + (1 + e) * (r.map f).asum := by ring
      rw [d]; linarith

/-- **Sum of perturbed terms, arbitrary perturbation**: `|v − Σ f| ≤ ((1+u)^depth·(1+e) − 1)·Σ|f|`. -/
theorem pert_rsum_error {α : Type} {u e : Q} (hu : 0 ≤ u) (fh f : α → Q)
    (hf : ∀ a, qabs (fh a - f a) ≤ e * qabs (f a)) (t : SumTree α) {v : Q} (h : RSum u (t.map fh) v) :
    qabs (v - (t.map f).sum) ≤ ((1 + u) ^ t.depth * (1 + e) - 1) * (t.map f).asum := by
  have h1 := rsum_error hu h
  rw [depth_map] at h1
  obtain ⟨h2, h3⟩ := map_leaf_err_e fh f hf t
  have h4 := qabs_tri v (t.map fh).sum (t.map f).sum
  have hd := ek_nonneg hu t.depth
  have h5 : ((1 + u) ^ t.depth - 1) * (t.map fh).asum ≤ ((1 + u) ^ t.depth - 1) * ((1 + e) * (t.map f).asum) :=
    mul_le_mul_of_nonneg_left h3 hd
  have fin : ((1 + u) ^ t.depth * (1 + e) - 1) * (t.map f).asum
      = ((1 + u) ^ t.depth - 1) * ((1 + e) * (t.map f).asum) + e * (t.map f).asum := by ring
  rw [fin]; linarith

/-- one rounding after an arbitrary relative perturbation: `|rnd x̂ − x| ≤ ((1+e)(1+u) − 1)·|x|`. -/
theorem rnd_pert {u e : Q} (hu : 0 ≤ u) (F : Fl u) {xh x : Q} (h : qabs (xh - x) ≤ e * qabs x) :
    qabs (F.rnd xh - x) ≤ ((1 + e) * (1 + u) - 1) * qabs x := by
  have h1 := F.err xh
  have h2 := qabs_le_add_err xh x
  have h3 := qabs_tri (F.rnd xh) xh x
  have h4 : u * qabs xh ≤ u * (qabs x + e * qabs x) := mul_le_mul_of_nonneg_left (by linarith) hu
  have fin : ((1 + e) * (1 + u) - 1) * qabs x = u * (qabs x + e * qabs x) + e * qabs x := by ring
  rw [fin]; linarith

/-! ### left fold of batches (class accumulators) -/

theorem comb_sum (s : SumTree Q) (bs : List (SumTree Q)) : (comb s bs).sum = s.sum + (bs.map SumTree.sum).sum := by
  induction bs generalizing s with
  | nil => simp [comb]
  | cons b bs ih =>
    have := ih (node s b)
    simp only [comb, List.foldl_cons, List.map_cons, List.sum_cons, SumTree.sum] at this ⊢
    rw [this]; ring

theorem comb_asum (s : SumTree Q) (bs : List (SumTree Q)) : (comb s bs).asum = s.asum + (bs.map SumTree.asum).sum := by
  induction bs generalizing s with
  | nil => simp [comb]
  | cons b bs ih =>
    have := ih (node s b)
    simp only [comb, List.foldl_cons, List.map_cons, List.sum_cons, asum] at this ⊢
    rw [this]; ring

/-- depth of the left comb: number of batches + the largest batch depth. -/
theorem comb_depth {α : Type} (s : SumTree α) (bs : List (SumTree α)) (d : Nat) (hs : s.depth ≤ d)
    (hb : ∀ b ∈ bs, b.depth ≤ d) : (comb s bs).depth ≤ d + bs.length := by
  induction bs generalizing s d with
  | nil => simpa [comb] using hs
  | cons b bs ih =>
    have hbd : b.depth ≤ d := hb b (by simp)
    have h1 : (node s b).depth ≤ d + 1 := by
      simp only [depth]
      have : max s.depth b.depth ≤ d := Nat.max_le.mpr ⟨hs, hbd⟩
      omega
    have := ih (node s b) (d + 1) h1 (fun b' hb' => Nat.le_succ_of_le (hb b' (by simp [hb'])))
    simp only [comb, List.foldl_cons, List.length_cons] at this ⊢
    omega

/-- the accumulator stream IS the tree sum over the left comb of the batches. -/
theorem stream_eq_fsum_comb {u : Q} (F : Fl u) (s : SumTree Q) (bs : List (SumTree Q)) :
    stream F (s.fsum F) bs = (comb s bs).fsum F := by
  induction bs generalizing s with
  | nil => simp [stream, lfold, comb]
  | cons b bs ih =>
    have := ih (node s b)
    simp only [stream, lfold, comb, List.map_cons, List.foldl_cons, fsum] at this ⊢
    exact this

/-- sequential summation of a list is the stream of one-leaf batches. -/
theorem lfold_eq_stream {u : Q} (F : Fl u) (s : Q) (xs : List Q) :
    lfold F s xs = stream F s (xs.map SumTree.leaf) := by
  simp [stream, List.map_map, Function.comp_def, fsum]

/-- **Streaming form.**  A left fold (state starts at 0) of per-batch tree sums, batch depths at most `d`:
    `|state − Σ_batches Σ leaves| ≤ ((1+u)^(d + #batches) − 1)·Σ_batches Σ|leaves|`. -/
theorem stream_error {u : Q} (hu : 0 ≤ u) (F : Fl u) (bs : List (SumTree Q)) (d : Nat) (hb : ∀ b ∈ bs, b.depth ≤ d) :
    qabs (stream F 0 bs - (bs.map SumTree.sum).sum) ≤ ((1 + u) ^ (d + bs.length) - 1) * (bs.map SumTree.asum).sum := by
  have e := stream_eq_fsum_comb F (leaf 0) bs
  simp only [fsum] at e
  rw [e]
  have h := fsum_error hu F (comb (leaf 0) bs)
  rw [comb_sum, comb_asum] at h
  simp only [SumTree.sum, asum, qabs_zero, zero_add] at h
  have hd := comb_depth (leaf (0 : Q)) bs d (Nat.zero_le _) hb
  have hA : 0 ≤ (bs.map SumTree.asum).sum := by
    have := asum_nonneg (comb (leaf 0) bs)
    rw [comb_asum] at this
    simpa [asum, qabs_zero] using this
  exact le_trans h (mul_le_mul_of_nonneg_right (ek_mono hu hd) hA)

end TE.RoundL
