/-
  TE.Lemmas.FamStatBinned — `StatCat` for the BINNED typed families of TE/Model/Fams.lean
  (binned precision-recall curve / binned AUPRC: binary, multiclass, multilabel, both the
  "vectorized" and the "memory" (histogram) forms, and the multi-task binary binned AUPRC).

  The content is LINEARITY of the histogram pipeline in the multiset of samples:
    * the code list of a concatenation is the concatenation of the code lists;
    * `histcUnit bins (a ++ b)` is the entrywise sum of the two histograms (`getD` form,
      in and out of range);
    * `suffixSums` commutes with the zero-padding sum `padd`;
    * `targetSum - ·`, `fnFrom`, `memLine`, `memMat` are linear;
    * the validity checks do not depend on the data (`T = 0`, `2*T*C = 0`) or distribute
      over `++` (`labs.all (· < C)`).
  No sortedness of the threshold list and no 0/1 hypothesis on the labels is needed.
-/
import TE.Lemmas.FamStat
namespace TE.FamStat
open TE TE.Fams TE.Binned

/-! ### toolkit -/

private theorem map_ok {α β : Type} {x : Except Err α} {f : α → β} {b : β}
    (h : Except.map f x = .ok b) : ∃ a, x = .ok a ∧ b = f a := by
  cases x with
  | error e => simp [Except.map] at h
  | ok a => exact ⟨a, rfl, by simpa [Except.map, eq_comm] using h⟩

/-- the common shape of the `(input, target)` families: sample-count check, then `F`. -/
private theorem statCat_lenCheck {α β : Type} (F : List α → List β → Except Err Parts)
    (h : ∀ x₁ y₁ x₂ y₂ a₁ a₂, x₁.length = y₁.length → x₂.length = y₂.length →
      F x₁ y₁ = .ok a₁ → F x₂ y₂ = .ok a₂ → F (x₁ ++ x₂) (y₁ ++ y₂) = .ok (ppadd a₁ a₂)) :
    StatCat partsAcc
      (fun b : List α × List β => if b.1.length = b.2.length then F b.1 b.2 else .error .value)
      catPair := by
  apply statCat_pair partsAcc partsAcc_laws.toLaws
  intro x₁ y₁ x₂ y₂ a₁ a₂ h₁ h₂
  simp only at h₁ h₂ ⊢
  split at h₁
  · split at h₂
    · rename_i e₁ e₂
      have e : (x₁ ++ x₂).length = (y₁ ++ y₂).length := by simp [e₁, e₂]
      rw [if_pos e]
      exact h x₁ y₁ x₂ y₂ a₁ a₂ e₁ e₂ h₁ h₂
    · cases h₂
  · cases h₁

/-- entry `i` of a vector given over `range n`, in and out of range. -/
theorem getD_map_range (n : Nat) (f : Nat → Q) (i : Nat) :
    ((List.range n).map f).getD i 0 = if i < n then f i else 0 := by
  by_cases h : i < n
  · simp [List.getD_eq_getElem?_getD, h]
  · simp [List.getD_eq_getElem?_getD, h]

/-- zero-padding makes `getD · 0` additive without any length condition. -/
theorem getD_padd : ∀ (a b : List Q) (i : Nat), (padd a b).getD i 0 = a.getD i 0 + b.getD i 0
  | [], b, i => by simp [padd_nil_left, Rat.zero_add]
  | a, [], i => by simp [padd_nil_right, Rat.add_zero]
  | x :: a, y :: b, 0 => by simp [padd]
  | x :: a, y :: b, i + 1 => by simpa [padd] using getD_padd a b i

theorem headD_padd (a b : List Q) : (padd a b).headD 0 = a.headD 0 + b.headD 0 := by
  cases a <;> cases b <;> simp [padd, Rat.zero_add, Rat.add_zero]

/-- `histc` of a concatenation: the entrywise sum, in the `getD` form the pipelines use. -/
theorem histcUnit_getD_append (n : Nat) (a b : List Int) (i : Nat) :
    (histcUnit n (a ++ b)).getD i 0 = (histcUnit n a).getD i 0 + (histcUnit n b).getD i 0 := by
  unfold histcUnit
  rw [getD_map_range, getD_map_range, getD_map_range]
  split
  · rw [qcount_append]
  · simp [Rat.add_zero]

theorem histcUnit_append (n : Nat) (a b : List Int) :
    histcUnit n (a ++ b) = padd (histcUnit n a) (histcUnit n b) := by
  unfold histcUnit
  rw [padd_map]
  simp only [qcount_append]

/-- `flip.cumsum.flip` commutes with the zero-padding sum. -/
theorem suffixSums_padd : ∀ (a b : List Q),
    suffixSums (padd a b) = padd (suffixSums a) (suffixSums b)
  | [], b => by simp [padd_nil_left, suffixSums]
  | a, [] => by simp [padd_nil_right, suffixSums]
  | x :: a, y :: b => by
    simp only [padd, suffixSums]
    rw [suffixSums_padd a b, headD_padd]
    congr 1
    grind

theorem suffixSums_length : ∀ (a : List Q), (suffixSums a).length = a.length
  | [] => rfl
  | x :: a => by simp [suffixSums, suffixSums_length a]

/-- a line read off a histogram at the indices `idx k`, then suffix-summed: additive in the
    histogram (given entrywise additivity of the histogram). -/
theorem suffixLine_add {h h₁ h₂ : List Q}
    (hh : ∀ i, h.getD i 0 = h₁.getD i 0 + h₂.getD i 0) (l : List Nat) (idx : Nat → Nat) :
    suffixSums (l.map fun k => h.getD (idx k) 0)
      = padd (suffixSums (l.map fun k => h₁.getD (idx k) 0))
             (suffixSums (l.map fun k => h₂.getD (idx k) 0)) := by
  rw [← suffixSums_padd, padd_map]
  simp only [hh]

/-- `total − ·` on a sum of two vectors of equal length. -/
theorem map_sub_padd (s₁ s₂ : Q) : ∀ (a b : List Q), a.length = b.length →
    (padd a b).map (fun x => (s₁ + s₂) - x) = padd (a.map fun x => s₁ - x) (b.map fun x => s₂ - x)
  | [], [], _ => rfl
  | [], _ :: _, h => by simp at h
  | _ :: _, [], h => by simp at h
  | x :: a, y :: b, h => by
    simp only [padd, List.map_cons]
    rw [map_sub_padd s₁ s₂ a b (by simpa using h)]
    congr 1
    grind

/-! ### binary: `BinaryBinnedPrecisionRecallCurve` -/

/-- the code list of the binary `_update`. -/
def binCodes (t : List Q) (xs : List Q) (ys : List Nat) : List Int :=
  (xs.zip ys).map fun p => binaryCode t p.1 p.2

/-- row `r` of `hist.reshape((T, 2)).T`, suffix-summed. -/
def binLine (t : List Q) (xs : List Q) (ys : List Nat) (r : Nat) : List Q :=
  suffixSums ((List.range t.length).map fun k =>
    (histcUnit (2 * t.length) (binCodes t xs ys)).getD (2 * k + r) 0)

def binTargetSum (ys : List Nat) : Q := qsum (ys.map fun y => ((y : Nat) : Q))

/-- the three parts of the binary `_update`, as a pure function. -/
def binParts (t : List Q) (xs : List Q) (ys : List Nat) : List Q × List Q × List Q :=
  (binLine t xs ys 1, binLine t xs ys 0, (binLine t xs ys 1).map fun a => binTargetSum ys - a)

theorem binaryUpdate_eq (t : List Q) (xs : List Q) (ys : List Nat) :
    binaryUpdate t xs ys = if t.length = 0 then .error .runtime else .ok (binParts t xs ys) := rfl

theorem binCodes_append (t : List Q) (x₁ x₂ : List Q) (y₁ y₂ : List Nat) (e : x₁.length = y₁.length) :
    binCodes t (x₁ ++ x₂) (y₁ ++ y₂) = binCodes t x₁ y₁ ++ binCodes t x₂ y₂ := by
  simp only [binCodes, zip_append' _ _ _ _ e, List.map_append]

theorem binLine_length (t : List Q) (xs : List Q) (ys : List Nat) (r : Nat) :
    (binLine t xs ys r).length = t.length := by
  simp [binLine, suffixSums_length]

theorem binLine_append (t : List Q) (x₁ x₂ : List Q) (y₁ y₂ : List Nat) (r : Nat)
    (e : x₁.length = y₁.length) :
    binLine t (x₁ ++ x₂) (y₁ ++ y₂) r = padd (binLine t x₁ y₁ r) (binLine t x₂ y₂ r) := by
  unfold binLine
  rw [binCodes_append _ _ _ _ _ e]
  exact suffixLine_add (histcUnit_getD_append _ _ _) _ _

theorem binTargetSum_append (y₁ y₂ : List Nat) :
    binTargetSum (y₁ ++ y₂) = binTargetSum y₁ + binTargetSum y₂ := by
  simp only [binTargetSum, List.map_append, qsum_append]

theorem binParts_append (t : List Q) (x₁ x₂ : List Q) (y₁ y₂ : List Nat) (e : x₁.length = y₁.length) :
    binParts t (x₁ ++ x₂) (y₁ ++ y₂)
      = (padd (binParts t x₁ y₁).1 (binParts t x₂ y₂).1,
         padd (binParts t x₁ y₁).2.1 (binParts t x₂ y₂).2.1,
         padd (binParts t x₁ y₁).2.2 (binParts t x₂ y₂).2.2) := by
  simp only [binParts, binLine_append _ _ _ _ _ _ e, binTargetSum_append]
  rw [map_sub_padd _ _ _ _ (by rw [binLine_length, binLine_length])]

/-- `BinaryBinnedPrecisionRecallCurve` : the per-threshold `(num_tp, num_fp, num_fn)` add,
    for every threshold list (sorted or not) and all integer targets. -/
theorem statCat_binaryBinned (t : List Q) : StatCat partsAcc (binaryBinnedStat t) catPair := by
  apply statCat_lenCheck (fun x y => (binaryUpdate t x y).map fun r => [r.1, r.2.1, r.2.2])
  intro x₁ y₁ x₂ y₂ a₁ a₂ e₁ e₂ h₁ h₂
  simp only [binaryUpdate_eq] at h₁ h₂ ⊢
  by_cases hT : t.length = 0
  · rw [if_pos hT] at h₁; cases h₁
  · rw [if_neg hT] at h₁ h₂ ⊢
    cases h₁; cases h₂
    rw [binParts_append _ _ _ _ _ e₁]
    rfl

/-! ### three `(·, S)` matrices given entrywise -/

/-- three matrices over the same index lists add entrywise (flattened, as `parts3` packs them). -/
theorem parts3_add {α : Type} (l : List α) (S : Nat) (F F₁ F₂ G G₁ G₂ H H₁ H₂ : α → Nat → Q)
    (hF : ∀ u c, F u c = F₁ u c + F₂ u c) (hG : ∀ u c, G u c = G₁ u c + G₂ u c)
    (hH : ∀ u c, H u c = H₁ u c + H₂ u c) :
    parts3 (l.map fun u => (List.range S).map (F u), l.map fun u => (List.range S).map (G u),
            l.map fun u => (List.range S).map (H u))
      = ppadd (parts3 (l.map fun u => (List.range S).map (F₁ u), l.map fun u => (List.range S).map (G₁ u),
                       l.map fun u => (List.range S).map (H₁ u)))
              (parts3 (l.map fun u => (List.range S).map (F₂ u), l.map fun u => (List.range S).map (G₂ u),
                       l.map fun u => (List.range S).map (H₂ u))) := by
  have eF : F = fun u c => F₁ u c + F₂ u c := by funext u c; exact hF u c
  have eG : G = fun u c => G₁ u c + G₂ u c := by funext u c; exact hG u c
  have eH : H = fun u c => H₁ u c + H₂ u c := by funext u c; exact hH u c
  subst eF; subst eG; subst eH
  simp only [parts3, ppadd_cons, ppadd_nil_nil, padd_flatten_map_map]

/-! ### multiclass, vectorized -/

theorem mcVecTp_append (u : Q) (c : Nat) (r₁ r₂ : List (List Q)) (l₁ l₂ : List Nat)
    (e : r₁.length = l₁.length) :
    mcVecTp u c (r₁ ++ r₂) (l₁ ++ l₂) = mcVecTp u c r₁ l₁ + mcVecTp u c r₂ l₂ := by
  simp only [mcVecTp, zip_append' _ _ _ _ e, List.map_append, qsum_append]

theorem mcVecFp_append (u : Q) (c : Nat) (r₁ r₂ : List (List Q)) (l₁ l₂ : List Nat)
    (e : r₁.length = l₁.length) :
    mcVecFp u c (r₁ ++ r₂) (l₁ ++ l₂) = mcVecFp u c r₁ l₁ + mcVecFp u c r₂ l₂ := by
  simp only [mcVecFp, mcVecTp_append _ _ _ _ _ _ e, List.map_append, qsum_append]
  grind

theorem mcVecFn_append (u : Q) (c : Nat) (r₁ r₂ : List (List Q)) (l₁ l₂ : List Nat)
    (e : r₁.length = l₁.length) :
    mcVecFn u c (r₁ ++ r₂) (l₁ ++ l₂) = mcVecFn u c r₁ l₁ + mcVecFn u c r₂ l₂ := by
  simp only [mcVecFn, mcVecTp_append _ _ _ _ _ _ e, List.map_append, qsum_append]
  grind

def mcVecMats (t : List Q) (C : Nat) (rows : List (List Q)) (labs : List Nat) : Mat × Mat × Mat :=
  (t.map (fun u => (List.range C).map fun c => mcVecTp u c rows labs),
   t.map (fun u => (List.range C).map fun c => mcVecFp u c rows labs),
   t.map (fun u => (List.range C).map fun c => mcVecFn u c rows labs))

theorem mcVectorized_eq (t : List Q) (C : Nat) (rows : List (List Q)) (labs : List Nat) :
    mcVectorized t C rows labs
      = if labs.all (· < C) = true then .ok (mcVecMats t C rows labs) else .error .runtime := by
  cases h : labs.all (· < C) <;> simp [mcVectorized, mcVecMats, h]

theorem mcVecMats_append (t : List Q) (C : Nat) (r₁ r₂ : List (List Q)) (l₁ l₂ : List Nat)
    (e : r₁.length = l₁.length) :
    parts3 (mcVecMats t C (r₁ ++ r₂) (l₁ ++ l₂))
      = ppadd (parts3 (mcVecMats t C r₁ l₁)) (parts3 (mcVecMats t C r₂ l₂)) :=
  parts3_add t C _ _ _ _ _ _ _ _ _
    (fun u c => mcVecTp_append u c _ _ _ _ e) (fun u c => mcVecFp_append u c _ _ _ _ e)
    (fun u c => mcVecFn_append u c _ _ _ _ e)

/-! ### the memory (histogram) forms -/

theorem memLine_add {h h₁ h₂ : List Q} (hh : ∀ i, h.getD i 0 = h₁.getD i 0 + h₂.getD i 0)
    (T S r s : Nat) : memLine T S h r s = padd (memLine T S h₁ r s) (memLine T S h₂ r s) :=
  suffixLine_add hh _ _

theorem memLine_getD_add {h h₁ h₂ : List Q} (hh : ∀ i, h.getD i 0 = h₁.getD i 0 + h₂.getD i 0)
    (T S r s k : Nat) :
    (memLine T S h r s).getD k 0 = (memLine T S h₁ r s).getD k 0 + (memLine T S h₂ r s).getD k 0 := by
  rw [memLine_add hh, getD_padd]

theorem zip_map_range (S : Nat) (f g : Nat → Q) :
    ((List.range S).map f).zip ((List.range S).map g) = (List.range S).map fun s => (f s, g s) := by
  induction (List.range S) with
  | nil => rfl
  | cons x l ih => simp [ih]

/-- `class_counts[None, :] - num_tp` entrywise. -/
theorem fnFrom_range {α : Type} (S : Nat) (cnt : Nat → Q) (l : List α) (g : α → Nat → Q) :
    fnFrom ((List.range S).map cnt) (l.map fun k => (List.range S).map (g k))
      = l.map fun k => (List.range S).map fun s => cnt s - g k s := by
  simp only [fnFrom, List.map_map]
  apply List.map_congr_left
  intro k _
  simp only [Function.comp, zip_map_range, List.map_map]
  rfl

/-- the three matrices of a memory form out of its histogram and its class counts. -/
def memMats (T S : Nat) (hist : List Q) (cnt : Nat → Q) : Mat × Mat × Mat :=
  (memMat T S hist 1, memMat T S hist 0, fnFrom ((List.range S).map cnt) (memMat T S hist 1))

theorem memMats_add {h h₁ h₂ : List Q} (hh : ∀ i, h.getD i 0 = h₁.getD i 0 + h₂.getD i 0)
    {cnt cnt₁ cnt₂ : Nat → Q} (hc : ∀ s, cnt s = cnt₁ s + cnt₂ s) (T S : Nat) :
    parts3 (memMats T S h cnt) = ppadd (parts3 (memMats T S h₁ cnt₁)) (parts3 (memMats T S h₂ cnt₂)) := by
  simp only [memMats, memMat, fnFrom_range]
  apply parts3_add
  · intro k s; exact memLine_getD_add hh ..
  · intro k s; exact memLine_getD_add hh ..
  · intro k s
    rw [memLine_getD_add hh, hc]
    grind

/-! ### multiclass, memory -/

def mcCodes (t : List Q) (C : Nat) (rows : List (List Q)) (labs : List Nat) : List Int :=
  (rows.zip labs).flatMap fun p =>
    (List.range C).map fun c => flatCode C t (colAt p.1 c) c (if c == p.2 then 1 else 0)

def mcCount (C : Nat) (labs : List Nat) (k : Nat) : Q :=
  qcount (fun v : Int => v == (k : Int) || (k + 1 == C && v == (C : Int))) (labs.map fun l => ((l : Nat) : Int))

theorem mcMemory_eq (t : List Q) (C : Nat) (rows : List (List Q)) (labs : List Nat) :
    mcMemory t C rows labs
      = if labs.all (· < C) = true then
          (if 2 * t.length * C = 0 then .error .runtime
           else .ok (memMats t.length C (histcUnit (2 * t.length * C) (mcCodes t C rows labs)) (mcCount C labs)))
        else .error .index := by
  cases h : labs.all (· < C) <;> simp only [mcMemory, h] <;> rfl

theorem mcCodes_append (t : List Q) (C : Nat) (r₁ r₂ : List (List Q)) (l₁ l₂ : List Nat)
    (e : r₁.length = l₁.length) :
    mcCodes t C (r₁ ++ r₂) (l₁ ++ l₂) = mcCodes t C r₁ l₁ ++ mcCodes t C r₂ l₂ := by
  simp only [mcCodes, zip_append' _ _ _ _ e, List.flatMap_append]

theorem mcCount_append (C : Nat) (l₁ l₂ : List Nat) (k : Nat) :
    mcCount C (l₁ ++ l₂) k = mcCount C l₁ k + mcCount C l₂ k := by
  simp only [mcCount, List.map_append, qcount_append]

/-- `MulticlassBinnedPrecisionRecallCurve` / `MulticlassBinnedAUPRC`, both optimizations. -/
theorem statCat_mcBinned (t : List Q) (opt : Opt) (W : Nat) :
    StatCat partsAcc (mcBinnedStat t opt W) catPair := by
  cases opt with
  | vectorized =>
    apply statCat_lenCheck (fun x y => (mcVectorized t W x y).map parts3)
    intro x₁ y₁ x₂ y₂ a₁ a₂ e₁ e₂ h₁ h₂
    simp only [mcVectorized_eq] at h₁ h₂ ⊢
    by_cases w₁ : y₁.all (· < W) = true
    · by_cases w₂ : y₂.all (· < W) = true
      · rw [if_pos w₁] at h₁
        rw [if_pos w₂] at h₂
        rw [if_pos (by rw [List.all_append, w₁, w₂]; rfl)]
        cases h₁; cases h₂
        simp only [Except.map]
        rw [mcVecMats_append _ _ _ _ _ _ e₁]
      · rw [if_neg w₂] at h₂; cases h₂
    · rw [if_neg w₁] at h₁; cases h₁
  | memory =>
    apply statCat_lenCheck (fun x y => (mcMemory t W x y).map parts3)
    intro x₁ y₁ x₂ y₂ a₁ a₂ e₁ e₂ h₁ h₂
    simp only [mcMemory_eq] at h₁ h₂ ⊢
    by_cases w₁ : y₁.all (· < W) = true
    · by_cases w₂ : y₂.all (· < W) = true
      · rw [if_pos w₁] at h₁
        rw [if_pos w₂] at h₂
        rw [if_pos (by rw [List.all_append, w₁, w₂]; rfl)]
        by_cases hT : 2 * t.length * W = 0
        · rw [if_pos hT] at h₁; cases h₁
        · rw [if_neg hT] at h₁ h₂ ⊢
          cases h₁; cases h₂
          simp only [Except.map]
          rw [mcCodes_append _ _ _ _ _ _ e₁]
          rw [memMats_add (histcUnit_getD_append _ _ _) (mcCount_append W y₁ y₂)]
      · rw [if_neg w₂] at h₂; cases h₂
    · rw [if_neg w₁] at h₁; cases h₁

/-! ### multilabel -/

theorem mlVecTp_append (u : Q) (c : Nat) (r₁ r₂ : List (List Q)) (l₁ l₂ : List (List Nat))
    (e : r₁.length = l₁.length) :
    mlVecTp u c (r₁ ++ r₂) (l₁ ++ l₂) = mlVecTp u c r₁ l₁ + mlVecTp u c r₂ l₂ := by
  simp only [mlVecTp, zip_append' _ _ _ _ e, List.map_append, qsum_append]

theorem mlVecFp_append (u : Q) (c : Nat) (r₁ r₂ : List (List Q)) (l₁ l₂ : List (List Nat))
    (e : r₁.length = l₁.length) :
    mlVecFp u c (r₁ ++ r₂) (l₁ ++ l₂) = mlVecFp u c r₁ l₁ + mlVecFp u c r₂ l₂ := by
  simp only [mlVecFp, mlVecTp_append _ _ _ _ _ _ e, List.map_append, qsum_append]
  grind

theorem mlVecFn_append (u : Q) (c : Nat) (r₁ r₂ : List (List Q)) (l₁ l₂ : List (List Nat))
    (e : r₁.length = l₁.length) :
    mlVecFn u c (r₁ ++ r₂) (l₁ ++ l₂) = mlVecFn u c r₁ l₁ + mlVecFn u c r₂ l₂ := by
  simp only [mlVecFn, mlVecTp_append _ _ _ _ _ _ e, List.map_append, qsum_append]
  grind

theorem mlVectorized_append (t : List Q) (L : Nat) (r₁ r₂ : List (List Q)) (l₁ l₂ : List (List Nat))
    (e : r₁.length = l₁.length) :
    parts3 (mlVectorized t L (r₁ ++ r₂) (l₁ ++ l₂))
      = ppadd (parts3 (mlVectorized t L r₁ l₁)) (parts3 (mlVectorized t L r₂ l₂)) :=
  parts3_add t L _ _ _ _ _ _ _ _ _
    (fun u c => mlVecTp_append u c _ _ _ _ e) (fun u c => mlVecFp_append u c _ _ _ _ e)
    (fun u c => mlVecFn_append u c _ _ _ _ e)

def mlCodes (t : List Q) (L : Nat) (rows : List (List Q)) (tgts : List (List Nat)) : List Int :=
  (rows.zip tgts).flatMap fun p =>
    (List.range L).map fun l => flatCode L t (colAt p.1 l) l (tgtAt p.2 l)

def mlCount (tgts : List (List Nat)) (l : Nat) : Q := qsum (tgts.map fun r => ((tgtAt r l : Nat) : Q))

theorem mlMemory_eq (t : List Q) (L : Nat) (rows : List (List Q)) (tgts : List (List Nat)) :
    mlMemory t L rows tgts
      = if 2 * t.length * L = 0 then .error .runtime
        else .ok (memMats t.length L (histcUnit (2 * t.length * L) (mlCodes t L rows tgts)) (mlCount tgts)) :=
  rfl

theorem mlCodes_append (t : List Q) (L : Nat) (r₁ r₂ : List (List Q)) (l₁ l₂ : List (List Nat))
    (e : r₁.length = l₁.length) :
    mlCodes t L (r₁ ++ r₂) (l₁ ++ l₂) = mlCodes t L r₁ l₁ ++ mlCodes t L r₂ l₂ := by
  simp only [mlCodes, zip_append' _ _ _ _ e, List.flatMap_append]

theorem mlCount_append (l₁ l₂ : List (List Nat)) (k : Nat) :
    mlCount (l₁ ++ l₂) k = mlCount l₁ k + mlCount l₂ k := by
  simp only [mlCount, List.map_append, qsum_append]

/-- `MultilabelBinnedPrecisionRecallCurve` / `MultilabelBinnedAUPRC`, both optimizations. -/
theorem statCat_mlBinned (t : List Q) (opt : Opt) (L : Nat) :
    StatCat partsAcc (mlBinnedStat t opt L) catPair := by
  cases opt with
  | vectorized =>
    apply statCat_lenCheck (fun x y => (Except.ok (mlVectorized t L x y)).map parts3)
    intro x₁ y₁ x₂ y₂ a₁ a₂ e₁ e₂ h₁ h₂
    simp only [Except.map] at h₁ h₂ ⊢
    cases h₁; cases h₂
    rw [mlVectorized_append _ _ _ _ _ _ e₁]
  | memory =>
    apply statCat_lenCheck (fun x y => (mlMemory t L x y).map parts3)
    intro x₁ y₁ x₂ y₂ a₁ a₂ e₁ e₂ h₁ h₂
    simp only [mlMemory_eq] at h₁ h₂ ⊢
    by_cases hT : 2 * t.length * L = 0
    · rw [if_pos hT] at h₁; cases h₁
    · rw [if_neg hT] at h₁ h₂ ⊢
      cases h₁; cases h₂
      simp only [Except.map]
      rw [mlCodes_append _ _ _ _ _ _ e₁]
      rw [memMats_add (histcUnit_getD_append _ _ _) (mlCount_append y₁ y₂)]

/-! ### multi-task binary binned AUPRC -/

/-- per-task vectors of one common length: the flattened parts of a rowwise combination
    are the sum of the flattened parts. -/
theorem flatten_zipWith_padd {α : Type} (T : Nat) (c : α → α → α) (F : α → List Q) (P : α → Prop)
    (hlen : ∀ x, (F x).length = T) (hF : ∀ x y, P x → P y → F (c x y) = padd (F x) (F y)) :
    ∀ l₁ l₂ : List α, l₁.length = l₂.length → (∀ x ∈ l₁, P x) → (∀ y ∈ l₂, P y) →
      ((List.zipWith c l₁ l₂).map F).flatten = padd (l₁.map F).flatten (l₂.map F).flatten
  | [], [], _, _, _ => rfl
  | [], _ :: _, h, _, _ => by simp at h
  | _ :: _, [], h, _, _ => by simp at h
  | x :: l₁, y :: l₂, h, h₁, h₂ => by
    simp only [List.zipWith_cons_cons, List.map_cons, List.flatten_cons]
    rw [padd_append _ _ _ _ (by rw [hlen, hlen]),
      hF x y (h₁ x (List.mem_cons_self ..)) (h₂ y (List.mem_cons_self ..)),
      flatten_zipWith_padd T c F P hlen hF l₁ l₂ (by simpa using h)
        (fun x hx => h₁ x (List.mem_cons_of_mem _ hx)) (fun y hy => h₂ y (List.mem_cons_of_mem _ hy))]

theorem mapM_binaryUpdate (t : List Q) (hT : t.length ≠ 0) (b : List (List Q × List Nat)) :
    (b.mapM fun p => binaryUpdate t p.1 p.2) = .ok (b.map fun p => binParts t p.1 p.2) := by
  induction b with
  | nil => rfl
  | cons p b ih =>
    rw [List.mapM_cons, ih, binaryUpdate_eq, if_neg hT]
    rfl

def auprcPack (t : List Q) (b : List (List Q × List Nat)) : Parts :=
  [(b.map fun p => (binParts t p.1 p.2).1).flatten,
   (b.map fun p => (binParts t p.1 p.2).2.1).flatten,
   (b.map fun p => (binParts t p.1 p.2).2.2).flatten]

theorem auprcStat_eq (t : List Q) (hT : t.length ≠ 0) (nt : Nat) (b : List (List Q × List Nat)) :
    binaryBinnedAuprcStat t nt b
      = if (b.all fun p => p.1.length == p.2.length) = true then
          (if b.length = nt then .ok (auprcPack t b) else .error .index)
        else .error .value := by
  unfold binaryBinnedAuprcStat
  rw [mapM_binaryUpdate t hT]
  cases h : (b.all fun p => p.1.length == p.2.length)
  · simp
  · by_cases hl : b.length = nt
    · simp [hl, Except.map, auprcPack]
      exact ⟨rfl, rfl, rfl⟩
    · simp [hl]

theorem auprcStat_ok_inv {t : List Q} {nt : Nat} {b : List (List Q × List Nat)} {a : Parts}
    (h : binaryBinnedAuprcStat t nt b = .ok a) :
    (b.all fun p => p.1.length == p.2.length) = true ∧ b.length = nt := by
  unfold binaryBinnedAuprcStat at h
  cases hb : (b.all fun p => p.1.length == p.2.length)
  · simp [hb] at h
  · by_cases hl : b.length = nt
    · exact ⟨rfl, hl⟩
    · simp [hb, hl] at h

theorem zipWith_pair_replicate {α β : Type} (b : List (List α × List β)) :
    List.zipWith (fun p q => (p.1 ++ q.1, p.2 ++ q.2)) b (List.replicate b.length (([] : List α), ([] : List β))) = b := by
  induction b with
  | nil => rfl
  | cons p b ih => simp [List.replicate_succ, ih]

theorem mapM_binaryUpdate_zero (t : List Q) (hT : t.length = 0) (p : List Q × List Nat)
    (b : List (List Q × List Nat)) :
    ((p :: b).mapM fun p => binaryUpdate t p.1 p.2) = .error .runtime := by
  rw [List.mapM_cons, binaryUpdate_eq, if_pos hT]
  rfl

theorem auprcStat_nil (t : List Q) : binaryBinnedAuprcStat t 0 [] = .ok [[], [], []] := rfl

theorem zipWith_pair_len {α β : Type} (b₁ b₂ : List (List α × List β))
    (h₁ : ∀ p ∈ b₁, p.1.length = p.2.length) (h₂ : ∀ p ∈ b₂, p.1.length = p.2.length) :
    ∀ p ∈ List.zipWith (fun p q => (p.1 ++ q.1, p.2 ++ q.2)) b₁ b₂, p.1.length = p.2.length := by
  induction b₁ generalizing b₂ with
  | nil => simp
  | cons x b₁ ih =>
    cases b₂ with
    | nil => simp
    | cons y b₂ =>
      simp only [List.zipWith_cons_cons, List.mem_cons]
      intro p hp
      rcases hp with rfl | hp
      · simp [h₁ x (List.mem_cons_self ..), h₂ y (List.mem_cons_self ..)]
      · exact ih b₂ (fun q hq => h₁ q (List.mem_cons_of_mem _ hq))
          (fun q hq => h₂ q (List.mem_cons_of_mem _ hq)) p hp

theorem auprcPack_zipWith (t : List Q) (b₁ b₂ : List (List Q × List Nat)) (hl : b₁.length = b₂.length)
    (h₁ : ∀ p ∈ b₁, p.1.length = p.2.length) (h₂ : ∀ p ∈ b₂, p.1.length = p.2.length) :
    auprcPack t (List.zipWith (fun p q => (p.1 ++ q.1, p.2 ++ q.2)) b₁ b₂)
      = ppadd (auprcPack t b₁) (auprcPack t b₂) := by
  simp only [auprcPack, ppadd_cons, ppadd_nil_nil]
  rw [flatten_zipWith_padd t.length _ (fun p => (binParts t p.1 p.2).1) (fun p => p.1.length = p.2.length)
        (fun p => binLine_length ..) (fun p q e _ => by simp only [binParts_append _ _ _ _ _ e]) b₁ b₂ hl h₁ h₂,
      flatten_zipWith_padd t.length _ (fun p => (binParts t p.1 p.2).2.1) (fun p => p.1.length = p.2.length)
        (fun p => binLine_length ..) (fun p q e _ => by simp only [binParts_append _ _ _ _ _ e]) b₁ b₂ hl h₁ h₂,
      flatten_zipWith_padd t.length _ (fun p => (binParts t p.1 p.2).2.2) (fun p => p.1.length = p.2.length)
        (fun p => by simp [binParts, binLine_length])
        (fun p q e _ => by simp only [binParts_append _ _ _ _ _ e]) b₁ b₂ hl h₁ h₂]

/-- `BinaryBinnedAUPRC` with `num_tasks = nt` : the per-task, per-threshold counts add. -/
theorem statCat_binaryBinnedAuprc (t : List Q) (nt : Nat) :
    StatCat partsAcc (binaryBinnedAuprcStat t nt) (catTaskPairs nt) := by
  apply statCat_of_cat2 partsAcc partsAcc_laws.toLaws _ _
    (List.zipWith fun p q => (p.1 ++ q.1, p.2 ++ q.2))
  · intro b a h
    obtain ⟨_, hl⟩ := auprcStat_ok_inv h
    subst hl
    simp only [catTaskPairs, List.foldr_cons, List.foldr_nil]
    rw [zipWith_pair_replicate]
    exact h
  · intro b bs _
    rfl
  · intro b₁ b₂ a₁ a₂ h₁ h₂
    obtain ⟨v₁, l₁⟩ := auprcStat_ok_inv h₁
    obtain ⟨v₂, l₂⟩ := auprcStat_ok_inv h₂
    have v₁' : ∀ p ∈ b₁, p.1.length = p.2.length := by simpa using v₁
    have v₂' : ∀ p ∈ b₂, p.1.length = p.2.length := by simpa using v₂
    by_cases hT : t.length = 0
    · -- no threshold: only the empty task list is valid
      cases b₁ with
      | nil =>
        have hn : nt = 0 := l₁.symm
        subst hn
        have hb : b₂ = [] := List.length_eq_zero_iff.mp l₂
        subst hb
        rw [auprcStat_nil] at h₁ h₂
        cases h₁; cases h₂
        rfl
      | cons p b₁ =>
        exfalso
        unfold binaryBinnedAuprcStat at h₁
        rw [mapM_binaryUpdate_zero t hT] at h₁
        simp [v₁, l₁, Except.map] at h₁
    · rw [auprcStat_eq t hT] at h₁ h₂ ⊢
      rw [if_pos v₁, if_pos l₁] at h₁
      rw [if_pos v₂, if_pos l₂] at h₂
      cases h₁; cases h₂
      have hv : (List.all (List.zipWith (fun p q => (p.1 ++ q.1, p.2 ++ q.2)) b₁ b₂)
          fun p => p.1.length == p.2.length) = true := by
        simpa using zipWith_pair_len b₁ b₂ v₁' v₂'
      rw [if_pos hv, if_pos (by simp [l₁, l₂]), auprcPack_zipWith t b₁ b₂ (l₁.trans l₂.symm) v₁' v₂']
      rfl

end TE.FamStat
