/-
  TE.Lemmas.FamStatCount — `StatCat` for the count-based classification families of
  TE/Model/Fams.lean (accuracy, precision, recall, F1, confusion matrix): the statistic of
  a concatenation of valid batches is the zero-padded sum of the batches' statistics.
-/
import TE.Lemmas.FamStat
import TE.Lemmas.Count
namespace TE.FamStat
open TE TE.Fams TE.Count

/-- `binary_accuracy` : correct-count and sample count add. -/
theorem statCat_binaryAccuracy (thr : Q) : StatCat partsAcc (binaryAccuracyStat thr) catPair := by
  apply statCat_pair partsAcc partsAcc_laws.toLaws
  intro x₁ y₁ x₂ y₂ a₁ a₂ h₁ h₂
  simp only [binaryAccuracyStat] at h₁ h₂ ⊢
  split at h₁
  · split at h₂
    · rename_i e₁ e₂
      cases h₁; cases h₂
      have e : (x₁ ++ x₂).length = (y₁ ++ y₂).length := by simp [e₁, e₂]
      rw [if_pos e]
      simp only [binaryAccuracyUpdate, partsAcc, ppadd_cons, padd_single, ppadd_nil_nil,
        zip_append' _ _ _ _ e₁, qcount_append, natCast_length_append]
    · cases h₂
  · cases h₁

/-! ### toolkit -/

private theorem bind_ok {α β : Type} {x : Except Err α} {f : α → Except Err β} {b : β}
    (h : (x >>= f) = .ok b) : ∃ a, x = .ok a ∧ f a = .ok b := by
  cases x with
  | error e => simp [bind, Except.bind] at h
  | ok a => exact ⟨a, rfl, by simpa [bind, Except.bind] using h⟩

private theorem map_ok {α β : Type} {x : Except Err α} {f : α → β} {b : β}
    (h : Except.map f x = .ok b) : ∃ a, x = .ok a ∧ b = f a := by
  cases x with
  | error e => simp [Except.map] at h
  | ok a => exact ⟨a, rfl, by simpa [Except.map, eq_comm] using h⟩

/-- the common shape of the `(input, target)` families: sample-count check, then `F`. -/
private theorem statCat_lenCheck {α β : Type} (F : List α → List β → Except Err Parts)
    (h : ∀ x₁ y₁ x₂ y₂ a₁ a₂, x₁.length = y₁.length → x₂.length = y₂.length →
      F x₁ y₁ = .ok a₁ → F x₂ y₂ = .ok a₂ → F (x₁ ++ x₂) (y₁ ++ y₂) = .ok (ppadd a₁ a₂)) :
    StatCat partsAcc
      (fun b : List α × List β => if b.1.length = b.2.length then F b.1 b.2 else .error .value)
      catPair := by
  apply statCat_pair partsAcc partsAcc_laws.toLaws
  intro x₁ y₁ x₂ y₂ a₁ a₂ h₁ h₂
  simp only at h₁ h₂ ⊢
  split at h₁
  · split at h₂
    · rename_i e₁ e₂
      have e : (x₁ ++ x₂).length = (y₁ ++ y₂).length := by simp [e₁, e₂]
      rw [if_pos e]
      exact h x₁ y₁ x₂ y₂ a₁ a₂ e₁ e₂ h₁ h₂
    · cases h₂
  · cases h₁

theorem sumAt_append (p q : List (Nat × Q)) (c : Nat) :
    CountL.sumAt (p ++ q) c = CountL.sumAt p c + CountL.sumAt q c := by
  simp only [CountL.sumAt, List.filter_append, List.map_append, List.sum_append]

/-- a successful `scatterAdd` is the closed form, and all indices are in range. -/
theorem scatterAdd_ok_inv {n : Nat} {idx : List Nat} {vals a : List Q}
    (h : scatterAdd n idx vals = .ok a) :
    idx.all (· < n) = true ∧ a = (List.range n).map fun c => CountL.sumAt (idx.zip vals) c := by
  by_cases hi : idx.all (· < n) = true
  · rw [CountL.scatterAdd_ok n idx vals hi] at h
    cases h
    exact ⟨hi, rfl⟩
  · rw [CountL.scatterAdd_error n idx vals hi] at h
    cases h

theorem scatterOnes_ok_inv {n : Nat} {idx : List Nat} {a : List Q}
    (h : scatterOnes n idx = .ok a) :
    idx.all (· < n) = true ∧ a = (List.range n).map fun c => (idx.count c : Q) := by
  by_cases hi : idx.all (· < n) = true
  · rw [CountL.scatterOnes_ok n idx hi] at h
    cases h
    exact ⟨hi, rfl⟩
  · unfold scatterOnes at h
    rw [CountL.scatterAdd_error n idx _ hi] at h
    cases h

/-- `scatter_(reduce="add")` of a concatenation = sum of the scatters. -/
theorem scatterAdd_append {n : Nat} {i₁ i₂ : List Nat} {v₁ v₂ a₁ a₂ : List Q}
    (hl : i₁.length = v₁.length)
    (h₁ : scatterAdd n i₁ v₁ = .ok a₁) (h₂ : scatterAdd n i₂ v₂ = .ok a₂) :
    scatterAdd n (i₁ ++ i₂) (v₁ ++ v₂) = .ok (padd a₁ a₂) := by
  obtain ⟨g₁, rfl⟩ := scatterAdd_ok_inv h₁
  obtain ⟨g₂, rfl⟩ := scatterAdd_ok_inv h₂
  rw [CountL.scatterAdd_ok n _ _ (by rw [List.all_append, g₁, g₂]; rfl), padd_map,
    zip_append' _ _ _ _ hl]
  simp only [sumAt_append]

theorem scatterOnes_append {n : Nat} {i₁ i₂ : List Nat} {a₁ a₂ : List Q}
    (h₁ : scatterOnes n i₁ = .ok a₁) (h₂ : scatterOnes n i₂ = .ok a₂) :
    scatterOnes n (i₁ ++ i₂) = .ok (padd a₁ a₂) := by
  obtain ⟨g₁, rfl⟩ := scatterOnes_ok_inv h₁
  obtain ⟨g₂, rfl⟩ := scatterOnes_ok_inv h₂
  rw [CountL.scatterOnes_ok n _ (by rw [List.all_append, g₁, g₂]; rfl), padd_map]
  simp only [List.count_append, Rat.natCast_add]

/-! ### accuracy -/

theorem mcAccFromMask_append {m₁ m₂ : List Q} {l₁ l₂ : List Nat} {avg : Avg} {C : Nat}
    {r₁ r₂ : List Q × List Q} (hl : l₁.length = m₁.length)
    (h₁ : mcAccFromMask m₁ l₁ avg C = .ok r₁) (h₂ : mcAccFromMask m₂ l₂ avg C = .ok r₂) :
    mcAccFromMask (m₁ ++ m₂) (l₁ ++ l₂) avg C = .ok (padd r₁.1 r₂.1, padd r₁.2 r₂.2) := by
  by_cases hm : avg = .micro
  · subst hm
    simp only [mcAccFromMask] at h₁ h₂ ⊢
    cases h₁; cases h₂
    simp only [padd_single, qsum_append, natCast_length_append]
  · have key : ∀ (m : List Q) (l : List Nat), mcAccFromMask m l avg C
        = (scatterAdd C l m >>= fun c => scatterOnes C l >>= fun t => .ok (c, t)) := by
      intro m l; cases avg <;> first | exact absurd rfl hm | rfl
    rw [key] at h₁ h₂ ⊢
    obtain ⟨c₁, hc₁, h₁⟩ := bind_ok h₁
    obtain ⟨t₁, ht₁, h₁⟩ := bind_ok h₁
    obtain ⟨c₂, hc₂, h₂⟩ := bind_ok h₂
    obtain ⟨t₂, ht₂, h₂⟩ := bind_ok h₂
    cases h₁; cases h₂
    rw [scatterAdd_append hl hc₁ hc₂, scatterOnes_append ht₁ ht₂]
    rfl

theorem mcMaskLabel_append (x₁ x₂ y₁ y₂ : List Nat) (h : x₁.length = y₁.length) :
    mcMaskLabel (x₁ ++ x₂) (y₁ ++ y₂) = mcMaskLabel x₁ y₁ ++ mcMaskLabel x₂ y₂ := by
  simp only [mcMaskLabel, zip_append' _ _ _ _ h, List.map_append]

theorem mcMaskTopk_append (x₁ x₂ : List (List Q)) (y₁ y₂ : List Nat) (k : Nat)
    (h : x₁.length = y₁.length) :
    mcMaskTopk (x₁ ++ x₂) (y₁ ++ y₂) k = mcMaskTopk x₁ y₁ k ++ mcMaskTopk x₂ y₂ k := by
  simp only [mcMaskTopk, zip_append' _ _ _ _ h, List.map_append]

/-- `multiclass_accuracy` (`k = 1`) : per-class (or micro) correct / total counts add. -/
theorem statCat_mcAccuracy (avg : Avg) (C : Nat) :
    StatCat partsAcc (mcAccuracyStat avg C) catPair := by
  apply statCat_lenCheck (fun x y => (mcAccFromMask (mcMaskLabel x y) y avg C).map fun r => [r.1, r.2])
  intro x₁ y₁ x₂ y₂ a₁ a₂ e₁ e₂ h₁ h₂
  obtain ⟨r₁, g₁, rfl⟩ := map_ok h₁
  obtain ⟨r₂, g₂, rfl⟩ := map_ok h₂
  rw [mcMaskLabel_append _ _ _ _ e₁,
    mcAccFromMask_append (by simp [mcMaskLabel, e₁]) g₁ g₂]
  rfl

/-- `multiclass_accuracy` (`k > 1`, logit rows of width `W`). -/
theorem statCat_mcAccuracyTopk (avg : Avg) (C k W : Nat) :
    StatCat partsAcc (mcAccuracyTopkStat avg C k W) catPair := by
  apply statCat_lenCheck (fun x y => if y.all (· < W) then
      (mcAccFromMask (mcMaskTopk x y k) y avg C).map fun r => [r.1, r.2] else .error .runtime)
  intro x₁ y₁ x₂ y₂ a₁ a₂ e₁ e₂ h₁ h₂
  split at h₁
  · split at h₂
    · rename_i w₁ w₂
      obtain ⟨r₁, g₁, rfl⟩ := map_ok h₁
      obtain ⟨r₂, g₂, rfl⟩ := map_ok h₂
      rw [if_pos (by rw [List.all_append, w₁, w₂]; rfl), mcMaskTopk_append _ _ _ _ _ e₁,
        mcAccFromMask_append (by simp [mcMaskTopk, e₁]) g₁ g₂]
      rfl
    · cases h₂
  · cases h₁

theorem multilabelUpdate_append (crit : Crit) (x₁ x₂ y₁ y₂ : List (List Q))
    (h : x₁.length = y₁.length) :
    multilabelUpdate crit (x₁ ++ x₂) (y₁ ++ y₂)
      = ((multilabelUpdate crit x₁ y₁).1 + (multilabelUpdate crit x₂ y₂).1,
         (multilabelUpdate crit x₁ y₁).2 + (multilabelUpdate crit x₂ y₂).2) := by
  cases crit <;>
    simp only [multilabelUpdate, zip_append' _ _ _ _ h, List.map_append, qsum_append,
      natCast_length_append]

/-- `multilabel_accuracy` -/
theorem statCat_multilabelAccuracy (thr : Q) (crit : Crit) :
    StatCat partsAcc (multilabelAccuracyStat thr crit) catPair := by
  apply statCat_lenCheck (fun x y =>
    .ok [[(multilabelAccuracyUpdate thr crit x y).1], [(multilabelAccuracyUpdate thr crit x y).2]])
  intro x₁ y₁ x₂ y₂ a₁ a₂ e₁ e₂ h₁ h₂
  cases h₁; cases h₂
  simp only [multilabelAccuracyUpdate, List.map_append]
  rw [multilabelUpdate_append _ _ _ _ _ (by simpa using e₁)]
  rfl

/-- `topk_multilabel_accuracy` -/
theorem statCat_topkMultilabel (crit : Crit) (k : Nat) :
    StatCat partsAcc (topkMultilabelStat crit k) catPair := by
  apply statCat_lenCheck (fun x y =>
    .ok [[(topkMultilabelUpdate crit k x y).1], [(topkMultilabelUpdate crit k x y).2]])
  intro x₁ y₁ x₂ y₂ a₁ a₂ e₁ e₂ h₁ h₂
  cases h₁; cases h₂
  simp only [topkMultilabelUpdate, List.map_append]
  rw [multilabelUpdate_append _ _ _ _ _ (by simpa using e₁)]
  rfl

/-! ### binary precision / recall / F1 -/

/-- `binary_precision` : `(num_tp, num_fp)` -/
theorem statCat_binaryPrecision (thr : Q) : StatCat partsAcc (binaryPrecisionStat thr) catPair := by
  apply statCat_lenCheck (fun x y =>
    .ok [[(binaryPrecisionUpdate thr x y).1], [(binaryPrecisionUpdate thr x y).2]])
  intro x₁ y₁ x₂ y₂ a₁ a₂ e₁ e₂ h₁ h₂
  cases h₁; cases h₂
  simp only [binaryPrecisionUpdate, ppadd_cons, padd_single, ppadd_nil_nil,
    zip_append' _ _ _ _ e₁, List.map_append, qsum_append]
  congr 3
  grind

/-- `binary_recall` -/
theorem statCat_binaryRecall (thr : Q) : StatCat partsAcc (binaryRecallStat thr) catPair := by
  apply statCat_lenCheck (fun x y =>
    .ok [[(binaryRecallUpdate thr x y).1], [(binaryRecallUpdate thr x y).2]])
  intro x₁ y₁ x₂ y₂ a₁ a₂ e₁ e₂ h₁ h₂
  cases h₁; cases h₂
  simp only [binaryRecallUpdate, ppadd_cons, padd_single, ppadd_nil_nil,
    zip_append' _ _ _ _ e₁, List.map_append, qsum_append]

/-- `binary_f1_score` -/
theorem statCat_binaryF1 (thr : Q) : StatCat partsAcc (binaryF1Stat thr) catPair := by
  apply statCat_lenCheck (fun x y =>
    .ok [[(binaryF1Update thr x y).1], [(binaryF1Update thr x y).2.1], [(binaryF1Update thr x y).2.2]])
  intro x₁ y₁ x₂ y₂ a₁ a₂ e₁ e₂ h₁ h₂
  cases h₁; cases h₂
  simp only [binaryF1Update, ppadd_cons, padd_single, ppadd_nil_nil,
    zip_append' _ _ _ _ e₁, List.map_append, qsum_append]

/-! ### multiclass precision / recall / F1 -/

private theorem filterMap_zip_append {α β γ : Type} (x₁ x₂ : List α) (y₁ y₂ : List β)
    (p : α × β → Bool) (f : α × β → γ) (h : x₁.length = y₁.length) :
    (((x₁ ++ x₂).zip (y₁ ++ y₂)).filter p).map f
      = ((x₁.zip y₁).filter p).map f ++ ((x₂.zip y₂).filter p).map f := by
  rw [zip_append' _ _ _ _ h, List.filter_append, List.map_append]

theorem precisionUpdate_append {x₁ x₂ y₁ y₂ : List Nat} {avg : Avg} {C : Nat} {s₁ s₂ : PRF}
    (e₁ : x₁.length = y₁.length)
    (h₁ : precisionUpdate x₁ y₁ avg C = .ok s₁) (h₂ : precisionUpdate x₂ y₂ avg C = .ok s₂) :
    precisionUpdate (x₁ ++ x₂) (y₁ ++ y₂) avg C
      = .ok ⟨padd s₁.tp s₂.tp, padd s₁.a s₂.a, padd s₁.b s₂.b⟩ := by
  by_cases hm : avg = .micro
  · subst hm
    simp only [precisionUpdate] at h₁ h₂ ⊢
    cases h₁; cases h₂
    simp only [padd_single, zip_append' _ _ _ _ e₁, qcount_append, Rat.add_zero]
  · have key : ∀ (x y : List Nat), precisionUpdate x y avg C
        = (scatterOnes C y >>= fun lab =>
           scatterOnes C (((x.zip y).filter fun p => p.1 == p.2).map (·.2)) >>= fun tp =>
           scatterOnes C (((x.zip y).filter fun p => p.1 != p.2).map (·.1)) >>= fun fp =>
           .ok ⟨tp, fp, lab⟩) := by
      intro x y; cases avg <;> first | exact absurd rfl hm | rfl
    rw [key] at h₁ h₂ ⊢
    obtain ⟨l₁, hl₁, h₁⟩ := bind_ok h₁
    obtain ⟨t₁, ht₁, h₁⟩ := bind_ok h₁
    obtain ⟨f₁, hf₁, h₁⟩ := bind_ok h₁
    obtain ⟨l₂, hl₂, h₂⟩ := bind_ok h₂
    obtain ⟨t₂, ht₂, h₂⟩ := bind_ok h₂
    obtain ⟨f₂, hf₂, h₂⟩ := bind_ok h₂
    cases h₁; cases h₂
    rw [filterMap_zip_append _ _ _ _ _ _ e₁, filterMap_zip_append _ _ _ _ _ _ e₁,
      scatterOnes_append hl₁ hl₂, scatterOnes_append ht₁ ht₂, scatterOnes_append hf₁ hf₂]
    rfl

theorem recallUpdate_append {x₁ x₂ y₁ y₂ : List Nat} {avg : Avg} {C : Nat} {s₁ s₂ : PRF}
    (e₁ : x₁.length = y₁.length)
    (h₁ : recallUpdate x₁ y₁ avg C = .ok s₁) (h₂ : recallUpdate x₂ y₂ avg C = .ok s₂) :
    recallUpdate (x₁ ++ x₂) (y₁ ++ y₂) avg C
      = .ok ⟨padd s₁.tp s₂.tp, padd s₁.a s₂.a, padd s₁.b s₂.b⟩ := by
  by_cases hm : avg = .micro
  · subst hm
    simp only [recallUpdate] at h₁ h₂ ⊢
    cases h₁; cases h₂
    simp only [padd_single, zip_append' _ _ _ _ e₁, qcount_append, natCast_length_append]
  · have key : ∀ (x y : List Nat), recallUpdate x y avg C
        = (scatterOnes C y >>= fun lab =>
           scatterOnes C x >>= fun prd =>
           scatterOnes C (((x.zip y).filter fun p => p.1 == p.2).map (·.2)) >>= fun tp =>
           .ok ⟨tp, lab, prd⟩) := by
      intro x y; cases avg <;> first | exact absurd rfl hm | rfl
    rw [key] at h₁ h₂ ⊢
    obtain ⟨l₁, hl₁, h₁⟩ := bind_ok h₁
    obtain ⟨p₁, hp₁, h₁⟩ := bind_ok h₁
    obtain ⟨t₁, ht₁, h₁⟩ := bind_ok h₁
    obtain ⟨l₂, hl₂, h₂⟩ := bind_ok h₂
    obtain ⟨p₂, hp₂, h₂⟩ := bind_ok h₂
    obtain ⟨t₂, ht₂, h₂⟩ := bind_ok h₂
    cases h₁; cases h₂
    rw [filterMap_zip_append _ _ _ _ _ _ e₁,
      scatterOnes_append hl₁ hl₂, scatterOnes_append hp₁ hp₂, scatterOnes_append ht₁ ht₂]
    rfl

/-- `multiclass_precision` : `(num_tp, num_fp, num_label)` per class (or micro). -/
theorem statCat_mcPrecision (avg : Avg) (C : Nat) :
    StatCat partsAcc (mcPrecisionStat avg C) catPair := by
  apply statCat_lenCheck (fun x y => (precisionUpdate x y avg C).map fun s => [s.tp, s.a, s.b])
  intro x₁ y₁ x₂ y₂ a₁ a₂ e₁ e₂ h₁ h₂
  obtain ⟨s₁, g₁, rfl⟩ := map_ok h₁
  obtain ⟨s₂, g₂, rfl⟩ := map_ok h₂
  rw [precisionUpdate_append e₁ g₁ g₂]
  rfl

/-- `multiclass_recall` / `multiclass_f1_score` : `(num_tp, num_labels, num_predictions)`. -/
theorem statCat_mcRecall (avg : Avg) (C : Nat) :
    StatCat partsAcc (mcRecallStat avg C) catPair := by
  apply statCat_lenCheck (fun x y => (recallUpdate x y avg C).map fun s => [s.tp, s.a, s.b])
  intro x₁ y₁ x₂ y₂ a₁ a₂ e₁ e₂ h₁ h₂
  obtain ⟨s₁, g₁, rfl⟩ := map_ok h₁
  obtain ⟨s₂, g₂, rfl⟩ := map_ok h₂
  rw [recallUpdate_append e₁ g₁ g₂]
  rfl

/-! ### confusion matrix -/

theorem confusionUpdate_ok_inv {preds labs : List Nat} {C : Nat} {m : Mat}
    (h : confusionUpdate preds labs C = .ok m) :
    preds.all (· < C) = true ∧ labs.all (· < C) = true ∧
    m = (List.range C).map fun t => (List.range C).map fun p =>
      (Spec.Count.confusion (preds.zip labs) t p : Q) := by
  by_cases hv : preds.all (· < C) = true ∧ labs.all (· < C) = true
  · rw [CountL.confusionUpdate_ok preds labs C hv.1 hv.2] at h
    cases h
    exact ⟨hv.1, hv.2, rfl⟩
  · rw [CountL.confusionUpdate_err preds labs C hv] at h
    cases h

theorem confusion_append (p q : Spec.Count.Pairs) (t c : Nat) :
    Spec.Count.confusion (p ++ q) t c = Spec.Count.confusion p t c + Spec.Count.confusion q t c := by
  simp only [Spec.Count.confusion, List.countP_append]

/-- the (flattened) confusion matrix of a concatenation is the entrywise sum. -/
theorem confusionUpdate_append {x₁ x₂ y₁ y₂ : List Nat} {C : Nat} {m₁ m₂ : Mat}
    (e₁ : x₁.length = y₁.length)
    (h₁ : confusionUpdate x₁ y₁ C = .ok m₁) (h₂ : confusionUpdate x₂ y₂ C = .ok m₂) :
    ∃ m, confusionUpdate (x₁ ++ x₂) (y₁ ++ y₂) C = .ok m ∧
      m.flatten = padd m₁.flatten m₂.flatten := by
  obtain ⟨p₁, l₁, rfl⟩ := confusionUpdate_ok_inv h₁
  obtain ⟨p₂, l₂, rfl⟩ := confusionUpdate_ok_inv h₂
  refine ⟨_, CountL.confusionUpdate_ok _ _ C (by rw [List.all_append, p₁, p₂]; rfl)
    (by rw [List.all_append, l₁, l₂]; rfl), ?_⟩
  rw [padd_flatten_map_map, zip_append' _ _ _ _ e₁]
  simp only [confusion_append, Rat.natCast_add]

/-- `multiclass_confusion_matrix` : the flattened `C × C` count matrix adds. -/
theorem statCat_confusion (C : Nat) (checkP checkL : Bool) :
    StatCat partsAcc (confusionStat C checkP checkL) catPair := by
  apply statCat_lenCheck (fun x y =>
    if checkP && !(x.all (· < C)) then .error .value
    else if checkL && !(y.all (· < C)) then .error .value
    else (confusionUpdate x y C).map fun m => [m.flatten])
  intro x₁ y₁ x₂ y₂ a₁ a₂ e₁ e₂ h₁ h₂
  split at h₁
  · cases h₁
  split at h₁
  · cases h₁
  split at h₂
  · cases h₂
  split at h₂
  · cases h₂
  obtain ⟨m₁, g₁, rfl⟩ := map_ok h₁
  obtain ⟨m₂, g₂, rfl⟩ := map_ok h₂
  obtain ⟨m, hm, hf⟩ := confusionUpdate_append e₁ g₁ g₂
  obtain ⟨p₁, l₁, _⟩ := confusionUpdate_ok_inv g₁
  obtain ⟨p₂, l₂, _⟩ := confusionUpdate_ok_inv g₂
  have hp : (x₁ ++ x₂).all (· < C) = true := by rw [List.all_append, p₁, p₂]; rfl
  have hl : (y₁ ++ y₂).all (· < C) = true := by rw [List.all_append, l₁, l₂]; rfl
  rw [hp, hl, hm]
  simp only [Bool.not_true, Bool.and_false, Bool.false_eq_true, if_false, Except.map, hf]
  rfl

/-- `binary_confusion_matrix` : the `2 × 2` matrix of the thresholded scores. -/
theorem statCat_binaryConfusion (thr : Q) :
    StatCat partsAcc (binaryConfusionStat thr) catPair := by
  apply statCat_comap partsAcc (statCat_confusion 2 false false)
    (fun b : List Q × List Nat => (b.1.map (thresh thr), b.2)) catPair
  intro bs
  simp only [catPair, List.map_flatten, List.map_map]
  rfl

end TE.FamStat
