/-
  TE.Lemmas.SyncList — `_sync_list_tensor_states` on a whole group: per-rank lengths are
  kept, dummy tensors never surface.
-/
import TE.Lemmas.SyncObj
namespace TE.Sync
open TE.Spec.Sync

/-! ### one cell over the rounds -/

theorem listCell_updCell (r : Nat) (c : TState) (t : Tensor) (len : Nat) :
    listCell (updCell r c t len) = if r < len then listCell c ++ [t] else listCell c := rfl

/-- after rounds `0 … m-1` the cell of a member holds the first `m` of its tensors — the dummies
    sent in rounds `≥ length` are never appended. -/
theorem cell_rounds (xs : List Tensor) (dm : Nat → Tensor) (c0 : TState) (hc0 : listCell c0 = []) :
    ∀ m, (List.range m).foldl (fun c r => updCell r c (match xs[r]? with | some x => x | none => dm r) xs.length) c0
      = if m = 0 then c0 else TState.list (xs.take m) := by
  intro m
  induction m with
  | zero => rfl
  | succ m ih =>
    rw [List.range_succ, List.foldl_append, ih]
    simp only [List.foldl_cons, List.foldl_nil, Nat.succ_ne_zero, if_false]
    have hl : listCell (if m = 0 then c0 else TState.list (xs.take m)) = xs.take m := by
      by_cases hm : m = 0
      · simp [hm, hc0]
      · simp [hm, listCell]
    simp only [updCell, hl]
    by_cases hlt : m < xs.length
    · have : xs[m]? = some xs[m] := List.getElem?_eq_getElem hlt
      simp only [hlt, if_true, this]
      rw [List.take_add_one, this]; rfl
    · have hle : xs.length ≤ m := Nat.le_of_not_lt hlt
      simp only [hlt, if_false]
      rw [List.take_of_length_le hle, List.take_of_length_le (Nat.le_succ_of_le hle)]

theorem foldl_pointwise {α β : Type} (f : Nat → α → Nat → α) (is : List β) (r : β → Nat) (F : Nat → α) (j : Nat) :
    (is.foldl (fun (F : Nat → α) b => fun j => f (r b) (F j) j) F) j = is.foldl (fun c b => f (r b) c j) (F j) := by
  induction is generalizing F with
  | nil => rfl
  | cons b is ih => simp only [List.foldl_cons]; rw [ih]

/-! ### one round on a column -/

theorem appendRound_map (r : Nat) (js : List Nat) (F : Nat → TState) (T : Nat → Tensor) (L : Nat → Nat)
    (back : List TState) :
    appendRound r (js.map F ++ back) (js.map T) (js.map L) = js.map (fun j => updCell r (F j) (T j) (L j)) ++ back := by
  induction js with
  | nil => cases back <;> rfl
  | cons j js ih => simp [appendRound, ih]

/-! ### the rounds loop on a whole group -/

section rounds
variable (g : List Nat) (n : Nat) (dst : Option Nat) (junk : Nat → Q)
variable (xs : Nat → List Tensor) (D : Nat → DType) (S : Nat → List Nat)

/-- the tensor member `j` sends in round `r`. -/
def roundOf (j r : Nat) : Tensor := roundTensor (envOf g n dst junk j) (xs j) (D j) (S j) r

/-- the effect of round `r` on the cells of a receiving member's column. -/
def stepF (F : Nat → TState) (r : Nat) : Nat → TState :=
  fun j => updCell r (F j) (roundOf g n dst junk xs D S j r) (xs j).length

/-- the column of member `i`: receiving members hold `F`. -/
def colR (c0 : List TState) (F : Nat → TState) (i : Nat) : List TState :=
  if receives dst i then colF n F else c0

theorem roundOf_sendable (dt : DType) (k : Nat) (hx : ListSendable n xs dt k)
    (hD : ∀ i, i < n → D i = dt ∧ (S i).length = k) (r : Nat) :
    Sendable n (fun j => roundOf g n dst junk xs D S j r) dt k := by
  intro i hi
  simp only [roundOf, roundTensor]
  cases hget : (xs i)[r]? with
  | some x => exact hx i hi x (List.mem_of_getElem? hget)
  | none =>
    refine ⟨(hD i hi).1, (hD i hi).2, ?_⟩
    simp [dummy, Tensor.WF]

theorem yields_listRounds (hg : IsGroup g n) (hd : DstIn n dst) (dt : DType) (k : Nat)
    (hx : ListSendable n xs dt k) (hD : ∀ i, i < n → D i = dt ∧ (S i).length = k)
    (c0 : List TState) :
    ∀ (is : List Nat) (F : Nat → TState),
      Yields g ((List.range n).map fun i =>
          listRounds (envOf g n dst junk i) (xs i) ((List.range n).map fun j => (xs j).length) (D i) (S i) is
            (colR n dst c0 F i))
        ((List.range n).map fun i => colR n dst c0 (is.foldl (stepF g n dst junk xs D S) F) i) := by
  intro is
  induction is with
  | nil => intro F; exact yields_done g (List.range n) _
  | cons r is ih =>
    intro F
    simp only [listRounds, List.foldl_cons]
    apply Yields.bind_map (G := fun i => gathered n dst (fun j => roundOf g n dst junk xs D S j r) i)
    · exact yields_sendTensors g n hg dst junk hd _ dt k (roundOf_sendable g n dst junk xs D S dt k hx hD r)
    · have hstep : ∀ i ∈ List.range n,
          liftE (roundK ((List.range n).map fun j => (xs j).length) r (colR n dst c0 F i)
            (gathered n dst (fun j => roundOf g n dst junk xs D S j r) i))
          = Prog.done (colR n dst c0 (stepF g n dst junk xs D S F r) i) := by
        intro i _
        cases hr : receives dst i
        · simp [gathered, hr, roundK, liftE, colR]
        · have hlen : ¬ ((List.range n).map fun j => roundOf g n dst junk xs D S j r).length
              > (colF n F).length := by
            simp [colF]
          simp only [gathered, hr, if_true, allOf, roundK, colR, hlen, if_false, liftE]
          have := appendRound_map r (List.range n) F (fun j => roundOf g n dst junk xs D S j r) (fun j => (xs j).length) []
          simp only [List.append_nil] at this
          rw [colF, this]; rfl
      rw [List.map_congr_left (g := fun i =>
        listRounds (envOf g n dst junk i) (xs i) ((List.range n).map fun j => (xs j).length) (D i) (S i) is
          (colR n dst c0 (stepF g n dst junk xs D S F r) i))]
      · exact ih _
      · intro i hi
        rw [hstep i hi]; rfl

/-- the cell of member `j` after rounds `0 … m-1`. -/
theorem rounds_cell (F : Nat → TState) (hF : ∀ j, listCell (F j) = []) (m j : Nat) :
    ((List.range m).foldl (stepF g n dst junk xs D S) F) j
      = if m = 0 then F j else TState.list ((xs j).take m) := by
  have h1 := foldl_pointwise (fun r c j => updCell r c (roundOf g n dst junk xs D S j r) (xs j).length)
    (List.range m) id F j
  have h2 := cell_rounds (xs j) (fun _ => dummy (envOf g n dst junk j) (D j) (S j)) (F j) (hF j) m
  simp only [id] at h1
  rw [← h2]
  exact h1
end rounds

end TE.Sync

namespace TE.Sync
open TE.Spec.Sync

/-! ### dtype / shape negotiation -/

theorem mapM_map_some {α β γ : Type} (l : List α) (f : α → β) (p : β → Option γ) (h : α → γ)
    (hp : ∀ a ∈ l, p (f a) = some (h a)) : (l.map f).mapM p = some (l.map h) := by
  induction l with
  | nil => rfl
  | cons a l ih =>
    have h1 := hp a (List.mem_cons_self ..)
    have h2 := ih (fun b hb => hp b (List.mem_cons_of_mem _ hb))
    simp [List.mapM_cons, h1, h2]

/-- the highest member below `n` that holds a tensor, with that tensor. -/
def lastSome (H : Nat → Option Tensor) : Nat → Option (Nat × Tensor)
  | 0 => none
  | n + 1 => match H n with
    | some x => some (n, x)
    | none => lastSome H n

theorem lastSome_spec (H : Nat → Option Tensor) : ∀ n,
    match lastSome H n with
    | none => ∀ j, j < n → H j = none
    | some (m, x) => m < n ∧ H m = some x ∧ ∀ j, j < n → m < j → H j = none := by
  intro n
  induction n with
  | zero => intro j hj; omega
  | succ n ih =>
    simp only [lastSome]
    cases hn : H n with
    | some x =>
      refine ⟨Nat.lt_succ_self n, hn, ?_⟩
      intro j hj hm; omega
    | none =>
      cases hl : lastSome H n with
      | none =>
        rw [hl] at ih
        intro j hj
        by_cases hjn : j = n
        · rw [hjn]; exact hn
        · exact ih j (by omega)
      | some mx =>
        obtain ⟨m, x⟩ := mx
        rw [hl] at ih
        obtain ⟨h1, h2, h3⟩ := ih
        refine ⟨Nat.lt_succ_of_lt h1, h2, ?_⟩
        intro j hj hm
        by_cases hjn : j = n
        · rw [hjn]; exact hn
        · exact h3 j (by omega) hm

/-- `max(object_list)` over `rank if tensor is not None else -1` is the highest rank holding a tensor. -/
theorem foldl_max_rank (H : Nat → Option Tensor) (f : Nat → Int)
    (hf : ∀ j, f j = if (H j).isSome then (j : Int) else -1) : ∀ n,
    ((List.range n).map f).foldl max (-1)
      = match lastSome H n with | some (m, _) => (m : Int) | none => -1 := by
  intro n
  induction n with
  | zero => rfl
  | succ n ih =>
    rw [List.range_succ, List.map_append, List.foldl_append, ih]
    simp only [List.map_cons, List.map_nil, List.foldl_cons, List.foldl_nil, lastSome, hf n]
    have hb := lastSome_spec H n
    cases hn : H n with
    | some x =>
      cases hl : lastSome H n with
      | none => simp <;> omega
      | some mx =>
        rw [hl] at hb
        simp <;> omega
    | none =>
      cases hl : lastSome H n with
      | none => simp
      | some mx => simp <;> omega

theorem exchange_broadcast (g : List Nat) (n m gm : Nat) (hm : m < n) (hr : RootOk g m gm) (O : Nat → Obj)
    (hO : ∀ i, i < n → (O i != Obj.none) = (i == m)) :
    exchange g ((List.range n).map fun i => Req.broadcastObj gm (O i)) =
      .ok ((List.range n).map fun _ => Resp.obj (O m)) := by
  cases n with
  | zero => omega
  | succ n =>
    have hb := bcastsOf_map (List.range (n + 1)) gm O
    have hrc : rootCheck g gm ((List.range (n + 1)).map fun _ => gm) ((List.range (n + 1)).map fun i => O i != Obj.none) = .ok m := by
      have : ((List.range (n + 1)).map fun i => O i != Obj.none) = (List.range (n + 1)).map fun i => id i == m := by
        apply List.map_congr_left
        intro i hi
        exact hO i (List.mem_range.mp hi)
      rw [this]
      exact rootCheck_ok g m gm hr (List.range (n + 1)) id (range_idx (n + 1))
    have hget : ((List.range (n + 1)).map fun i => (gm, O i))[m]? = some (gm, O m) := by
      simp [List.getElem?_map, List.getElem?_range hm]
    rw [List.range_succ_eq_map] at hb hrc hget ⊢
    simp only [List.map_cons] at hb hrc hget ⊢
    simp only [exchange, hb]
    simp only [List.map_cons, List.map_map, Function.comp_def] at hrc hget ⊢
    simp only [hrc, hget]

theorem yields_syncDtypeShape (g : List Nat) (n : Nat) (hg : IsGroup g n) (dst : Option Nat) (junk : Nat → Q)
    (H : Nat → Option Tensor) :
    Yields g ((List.range n).map fun i => syncDtypeShape (envOf g n dst junk i) (H i))
      ((List.range n).map fun _ => (lastSome H n).map fun mx => (mx.2.dtype, mx.2.shape)) := by
  simp only [syncDtypeShape]
  apply Yields.bind_map (G := fun _ => (List.range n).map fun j => Obj.int (rankOrMinus1 (envOf g n dst junk j) (H j)))
    (yields_allGatherObj g n _)
  have hmapM : ((List.range n).map fun j => Obj.int (rankOrMinus1 (envOf g n dst junk j) (H j))).mapM objInt
      = some ((List.range n).map fun j => rankOrMinus1 (envOf g n dst junk j) (H j)) :=
    mapM_map_some _ _ _ _ (fun _ _ => rfl)
  have hmx : ((List.range n).map fun j => rankOrMinus1 (envOf g n dst junk j) (H j)).foldl max (-1)
      = match lastSome H n with | some (m, _) => (m : Int) | none => -1 := by
    apply foldl_max_rank H
    intro j
    cases H j <;> simp [rankOrMinus1, envOf]
  simp only [syncDtypeShapeK, hmapM, hmx]
  have hspec := lastSome_spec H n
  cases hl : lastSome H n with
  | none =>
    simp only [beq_self_eq_true, if_true, Option.map_none]
    exact yields_done g (List.range n) _
  | some mx =>
    obtain ⟨m, x⟩ := mx
    rw [hl] at hspec
    obtain ⟨hmn, hHm, hlast⟩ := hspec
    have hne : ((m : Int) == -1) = false := by
      rw [beq_eq_false_iff_ne]; omega
    have hml : m < g.length := by rw [hg.len]; exact hmn
    obtain ⟨hget, hroot⟩ := rootOk_of_nodup g hg.nodup m hml
    simp only [hne, Bool.false_eq_true, if_false, Int.toNat_natCast, Option.map_some, toGlobal, envOf, hget]
    apply Yields.coll_map (H := fun _ => Resp.obj (Obj.dsh x.dtype x.shape))
    · have hO : ∀ i, i < n → (dtypePayload (envOf g n dst junk i) (H i) (m : Int) != Obj.none) = (i == m) := by
        intro i hi
        simp only [dtypePayload, envOf]
        cases hHi : H i with
        | none =>
          have : i ≠ m := by intro h; rw [h, hHm] at hHi; cases hHi
          simp [this]
        | some y =>
          by_cases him : i = m
          · simp [him]
          · have : ((i : Int) == (m : Int)) = false := by rw [beq_eq_false_iff_ne]; omega
            simp [this, him]
      have := exchange_broadcast g n m g[m] hmn hroot _ hO
      have hpm : dtypePayload (envOf g n dst junk m) (H m) (m : Int) = Obj.dsh x.dtype x.shape := by
        simp [dtypePayload, envOf, hHm]
      rw [hpm] at this
      exact this
    · simp only [recvDtypeShape]
      exact yields_done g (List.range n) _

end TE.Sync
