/-
  TE.Lemmas.SyncRun — generic facts about the lock-step execution `runWorld`:
  unfolding equations, the bind (sequencing) lemma, uniformity of successful runs.
-/
import TE.Model.Sync
namespace TE.Sync

variable {A B R : Type}

/-! ### unfolding -/

theorem runWorld_done_out (g : List Nat) (r : R) (ps : List (Prog R)) (rs : List R)
    (h : dones ps = some rs) : (runWorld g (.done r) ps).out = .ok (r :: rs) := by
  simp [runWorld, h]

theorem runWorld_coll_out (g : List Nat) (q : Req) (k : Resp → Prog R) (ps : List (Prog R))
    (qs : List Req) (r : Resp) (rs : List Resp)
    (h1 : reqsOf ps = some qs) (h2 : exchange g (q :: qs) = .ok (r :: rs)) :
    (runWorld g (.coll q k) ps).out = (runWorld g (k r) (stepAll ps rs)).out := by
  simp [runWorld, h1, h2]

theorem runWorld_coll_rounds (g : List Nat) (q : Req) (k : Resp → Prog R) (ps : List (Prog R))
    (qs : List Req) (r : Resp) (rs : List Resp)
    (h1 : reqsOf ps = some qs) (h2 : exchange g (q :: qs) = .ok (r :: rs)) :
    (runWorld g (.coll q k) ps).rounds =
      (some q :: ps.map reqOf) :: (runWorld g (k r) (stepAll ps rs)).rounds := by
  simp [runWorld, h1, h2]

/-! ### `dones`, `reqsOf`, `stepAll` -/

theorem dones_map_done (rs : List R) : dones (rs.map Prog.done) = some rs := by
  induction rs with
  | nil => rfl
  | cons r rs ih => simp [dones, ih]

theorem dones_eq_some {ps : List (Prog R)} {rs : List R} (h : dones ps = some rs) :
    ps = rs.map Prog.done := by
  induction ps generalizing rs with
  | nil => simp [dones] at h; subst h; rfl
  | cons p ps ih =>
    cases p with
    | done r =>
      simp only [dones, Option.map_eq_some_iff] at h
      obtain ⟨rs', h', rfl⟩ := h
      simp [ih h']
    | fail e => simp [dones] at h
    | coll q k => simp [dones] at h

theorem stepAll_length (ps : List (Prog R)) (rs : List Resp) : (stepAll ps rs).length = ps.length := by
  induction ps generalizing rs with
  | nil => cases rs <;> rfl
  | cons p ps ih => cases rs <;> simp [stepAll, ih]

theorem reqsOf_map_coll (qks : List (Req × (Resp → Prog R))) :
    reqsOf (qks.map fun qk => Prog.coll qk.1 qk.2) = some (qks.map (·.1)) := by
  induction qks with
  | nil => rfl
  | cons qk qks ih => simp [reqsOf, ih]

theorem stepAll_map_coll (qks : List (Req × (Resp → Prog R))) (rs : List Resp)
    (h : rs.length = qks.length) :
    stepAll (qks.map fun qk => Prog.coll qk.1 qk.2) rs = List.zipWith (fun qk r => qk.2 r) qks rs := by
  induction qks generalizing rs with
  | nil => cases rs <;> rfl
  | cons qk qks ih =>
    cases rs with
    | nil => simp at h
    | cons r rs => simp [stepAll, step, ih rs (by simpa using h)]

/-! ### sequencing -/

theorem bind_done (a : A) (f : A → Prog B) : (Prog.done a).bind f = f a := rfl
theorem bind_coll (q : Req) (k : Resp → Prog A) (f : A → Prog B) :
    (Prog.coll q k).bind f = .coll q (fun r => (k r).bind f) := rfl
theorem bind_fail (e : Err) (f : A → Prog B) : (Prog.fail e : Prog A).bind f = .fail e := rfl

theorem bind_assoc {C : Type} (m : Prog A) (f : A → Prog B) (h : B → Prog C) :
    (m.bind f).bind h = m.bind (fun a => (f a).bind h) := by
  induction m with
  | done a => rfl
  | fail e => rfl
  | coll q k ih => simp [Prog.bind, ih]

/-- the bound world: member `i` runs `ms[i]` and continues with `fs[i]`. -/
def bindAll (ms : List (Prog A)) (fs : List (A → Prog B)) : List (Prog B) :=
  List.zipWith Prog.bind ms fs

/-- continue every member with its own result. -/
def applyAll (fs : List (A → Prog B)) (as : List A) : List (Prog B) :=
  List.zipWith (fun f a => f a) fs as

theorem bindAll_map_done (as : List A) (fs : List (A → Prog B)) :
    bindAll (as.map Prog.done) fs = applyAll fs as := by
  induction as generalizing fs with
  | nil => cases fs <;> rfl
  | cons a as ih =>
    cases fs with
    | nil => rfl
    | cons f fs =>
      have := ih fs
      simp only [bindAll, applyAll] at this
      simp [bindAll, applyAll, bind_done, this]

theorem bindAll_dones {ms : List (Prog A)} {as : List A} (h : dones ms = some as)
    (fs : List (A → Prog B)) : bindAll ms fs = applyAll fs as := by
  rw [dones_eq_some h, bindAll_map_done]

theorem reqsOf_bindAll {ms : List (Prog A)} {qs : List Req} (h : reqsOf ms = some qs)
    (fs : List (A → Prog B)) (hl : ms.length = fs.length) : reqsOf (bindAll ms fs) = some qs := by
  induction ms generalizing qs fs with
  | nil =>
    cases fs with
    | nil =>
      simp only [reqsOf, Option.some.injEq] at h
      simp [bindAll, reqsOf, h]
    | cons f fs => simp at hl
  | cons m ms ih =>
    cases fs with
    | nil => simp at hl
    | cons f fs =>
      cases m with
      | done a => simp [reqsOf] at h
      | fail e => simp [reqsOf] at h
      | coll q k =>
        simp only [reqsOf, Option.map_eq_some_iff] at h
        obtain ⟨qs', h', rfl⟩ := h
        have := ih h' fs (by simpa using hl)
        simp only [bindAll] at this
        simp [bindAll, bind_coll, reqsOf, this]

theorem map_reqOf_bindAll {ms : List (Prog A)} {qs : List Req} (h : reqsOf ms = some qs)
    (fs : List (A → Prog B)) (hl : ms.length = fs.length) :
    (bindAll ms fs).map reqOf = ms.map reqOf := by
  induction ms generalizing qs fs with
  | nil => cases fs <;> simp [bindAll]
  | cons m ms ih =>
    cases fs with
    | nil => simp at hl
    | cons f fs =>
      cases m with
      | done a => simp [reqsOf] at h
      | fail e => simp [reqsOf] at h
      | coll q k =>
        simp only [reqsOf, Option.map_eq_some_iff] at h
        obtain ⟨qs', h', rfl⟩ := h
        have := ih h' fs (by simpa using hl)
        simp only [bindAll] at this
        simp [bindAll, bind_coll, reqOf, this]

theorem stepAll_bindAll {ms : List (Prog A)} {qs : List Req} (h : reqsOf ms = some qs)
    (fs : List (A → Prog B)) (hl : ms.length = fs.length) (rs : List Resp) :
    stepAll (bindAll ms fs) rs = bindAll (stepAll ms rs) fs := by
  induction ms generalizing qs fs rs with
  | nil => cases fs <;> cases rs <;> simp [bindAll, stepAll]
  | cons m ms ih =>
    cases fs with
    | nil => simp at hl
    | cons f fs =>
      cases m with
      | done a => simp [reqsOf] at h
      | fail e => simp [reqsOf] at h
      | coll q k =>
        simp only [reqsOf, Option.map_eq_some_iff] at h
        obtain ⟨qs', h', rfl⟩ := h
        have hl' : ms.length = fs.length := by simpa using hl
        cases rs with
        | nil =>
          have := ih h' fs hl' []
          simp only [bindAll] at this
          simp [bindAll, bind_coll, stepAll, bind_fail, this]
        | cons r rs =>
          have := ih h' fs hl' rs
          simp only [bindAll] at this
          simp [bindAll, bind_coll, stepAll, step, this]

/-- **sequencing**: if the members' first phases `m :: ms` run to completion with results
    `a :: as`, the world of `mᵢ >>= fᵢ` behaves like the world of the continuations `fᵢ aᵢ`
    (outcome), after the rounds of the first phase (trace). -/
theorem runWorld_bind (g : List Nat) :
    ∀ (m : Prog A) (ms : List (Prog A)) (f : A → Prog B) (fs : List (A → Prog B)) (a : A) (as : List A),
      ms.length = fs.length → (runWorld g m ms).out = .ok (a :: as) →
      (runWorld g (m.bind f) (bindAll ms fs)).out = (runWorld g (f a) (applyAll fs as)).out ∧
      (runWorld g (m.bind f) (bindAll ms fs)).rounds =
        (runWorld g m ms).rounds ++ (runWorld g (f a) (applyAll fs as)).rounds := by
  intro m
  induction m with
  | done a' =>
    intro ms f fs a as hl h
    cases hd : dones ms with
    | none => simp [runWorld, hd] at h
    | some rs =>
      simp only [runWorld, hd, Except.ok.injEq, List.cons.injEq] at h
      obtain ⟨rfl, rfl⟩ := h
      rw [bind_done, bindAll_dones hd]
      simp [runWorld, hd]
  | fail e =>
    intro ms f fs a as _ h
    simp [runWorld] at h
  | coll q k ih =>
    intro ms f fs a as hl h
    cases hq : reqsOf ms with
    | none => simp [runWorld, hq] at h
    | some qs =>
      cases hx : exchange g (q :: qs) with
      | error e => simp [runWorld, hq, hx] at h
      | ok resps =>
        cases resps with
        | nil => simp [runWorld, hq, hx] at h
        | cons r rs =>
          rw [runWorld_coll_out g q k ms qs r rs hq hx] at h
          have hq' := reqsOf_bindAll hq fs hl
          have hl' : (stepAll ms rs).length = fs.length := by rw [stepAll_length]; exact hl
          obtain ⟨ih1, ih2⟩ := ih r (stepAll ms rs) f fs a as hl' h
          rw [bind_coll]
          constructor
          · rw [runWorld_coll_out g q _ _ qs r rs hq' hx, stepAll_bindAll hq fs hl]
            exact ih1
          · rw [runWorld_coll_rounds g q _ _ qs r rs hq' hx, runWorld_coll_rounds g q k ms qs r rs hq hx,
              stepAll_bindAll hq fs hl, map_reqOf_bindAll hq fs hl, ih2]
            rfl

/-! ### successful runs: nobody leaves early -/

theorem map_reqOf_of_reqsOf {ps : List (Prog R)} {qs : List Req} (h : reqsOf ps = some qs) :
    ps.map reqOf = qs.map some := by
  induction ps generalizing qs with
  | nil => simp only [reqsOf, Option.some.injEq] at h; subst h; rfl
  | cons p ps ih =>
    cases p with
    | done a => simp [reqsOf] at h
    | fail e => simp [reqsOf] at h
    | coll q k =>
      simp only [reqsOf, Option.map_eq_some_iff] at h
      obtain ⟨qs', h', rfl⟩ := h
      simp [reqOf, ih h']

/-- in a run that ends `.ok`, every round is a complete rendezvous: every member sits at a
    collective (nobody has returned or raised while the others wait). -/
theorem rounds_complete_of_ok (g : List Nat) :
    ∀ (m : Prog R) (ms : List (Prog R)) (as : List R), (runWorld g m ms).out = .ok as →
      ∀ r ∈ (runWorld g m ms).rounds, ∀ x ∈ r, x ≠ none := by
  intro m
  induction m with
  | done a =>
    intro ms as h
    cases hd : dones ms with
    | none => simp [runWorld, hd] at h
    | some rs => simp [runWorld, hd]
  | fail e => intro ms as h; simp [runWorld] at h
  | coll q k ih =>
    intro ms as h
    cases hq : reqsOf ms with
    | none => simp [runWorld, hq] at h
    | some qs =>
      cases hx : exchange g (q :: qs) with
      | error e => simp [runWorld, hq, hx] at h
      | ok resps =>
        cases resps with
        | nil => simp [runWorld, hq, hx] at h
        | cons r rs =>
          rw [runWorld_coll_out g q k ms qs r rs hq hx] at h
          rw [runWorld_coll_rounds g q k ms qs r rs hq hx]
          intro rd hrd
          rcases List.mem_cons.mp hrd with rfl | hrd
          · intro x hx'
            rw [map_reqOf_of_reqsOf hq] at hx'
            rcases List.mem_cons.mp hx' with rfl | hx'
            · simp
            · obtain ⟨q', _, rfl⟩ := List.mem_map.mp hx'; simp
          · exact ih r _ as h rd hrd

end TE.Sync

namespace TE.Sync
/-- decidable equality of outcomes (for `decide`d witness theorems). -/
instance exceptDecEq {ε α : Type} [DecidableEq ε] [DecidableEq α] : DecidableEq (Except ε α) := fun a b =>
  match a, b with
  | .ok x, .ok y => if h : x = y then isTrue (by rw [h]) else isFalse (by intro h'; cases h'; exact h rfl)
  | .error x, .error y => if h : x = y then isTrue (by rw [h]) else isFalse (by intro h'; cases h'; exact h rfl)
  | .ok _, .error _ => isFalse (by intro h; cases h)
  | .error _, .ok _ => isFalse (by intro h; cases h)
/-- shortcuts for instance search through deeply nested result types. -/
instance rowDecEq : DecidableEq (List (Key × TState)) := inferInstance
instance rowsDecEq : DecidableEq (Option (List (List (Key × TState)))) := inferInstance
instance wfDec (t : Tensor) : Decidable t.WF := by unfold Tensor.WF; exact inferInstance
end TE.Sync
