/-
  TE.Lemmas.MetaMono — C17 (a): metrics that read the scores only through `<` / `=`
  are unchanged by a transformation of the scores that is strictly increasing on the
  domain `D` the scores live in (`MonoOn D f`; `D := fun _ => True` for maps increasing everywhere).
  Proved on the textbook specs (TE/Spec/{Curve,Rank,Count}.lean) and transferred to
  the executable models of the code through the `model = spec` theorems of C04 / C05 / C08;
  where the model itself only compares scores (ranking functionals, arg-max, top-k) the
  statement is proved on the model directly.
-/
import TE.Lemmas.MetaBasic
import TE.Props.C05
import TE.Props.C04
import TE.Props.C08
namespace TE.MetaL
open TE TE.Spec.Curve

variable {D : Q → Prop} {f : Q → Q}

/-! ### AUROC -/

def mapS (f : Q → Q) (x : Sample) : Sample := ⟨f x.s, x.t, x.w⟩

theorem kernel_mono (hf : MonoOn D f) {a b : Q} (ha : D a) (hb : D b) : kernel (f a) (f b) = kernel a b := by
  unfold kernel; simp only [hf.lt hb ha, hf.eq ha hb]

theorem filter_isPos_mapS (f : Q → Q) (l : List Sample) :
    (l.map (mapS f)).filter isPos = (l.filter isPos).map (mapS f) := by
  rw [List.filter_map]; rfl

theorem filter_isNeg_mapS (f : Q → Q) (l : List Sample) :
    (l.map (mapS f)).filter isNeg = (l.filter isNeg).map (mapS f) := by
  rw [List.filter_map]; rfl

theorem wPos_mapS (f : Q → Q) (l : List Sample) : wPos (l.map (mapS f)) = wPos l := by
  unfold wPos; rw [filter_isPos_mapS, List.map_map]; rfl

theorem wNeg_mapS (f : Q → Q) (l : List Sample) : wNeg (l.map (mapS f)) = wNeg l := by
  unfold wNeg; rw [filter_isNeg_mapS, List.map_map]; rfl

theorem aurocNum_mapS (hf : MonoOn D f) (l : List Sample) (hD : ∀ x ∈ l, D x.s) :
    aurocNum (l.map (mapS f)) = aurocNum l := by
  unfold aurocNum
  rw [filter_isPos_mapS, filter_isNeg_mapS, List.map_map]
  congr 1
  apply List.map_congr_left
  intro i hi
  simp only [Function.comp, List.map_map]
  congr 1
  apply List.map_congr_left
  intro j hj
  simp only [Function.comp, mapS,
    kernel_mono hf (hD i (List.mem_filter.mp hi).1) (hD j (List.mem_filter.mp hj).1)]

theorem aurocSpec_mono (hf : MonoOn D f) (l : List Sample) (hD : ∀ x ∈ l, D x.s) :
    auroc (l.map (mapS f)) = auroc l := by
  unfold auroc
  rw [wPos_mapS, wNeg_mapS, aurocNum_mapS hf l hD]

theorem samples_map (f : Q → Q) (xs ts ws : List Q) :
    samples (xs.map f) ts ws = (samples xs ts ws).map (mapS f) := by
  unfold samples
  rw [List.zip_map_left, List.map_map, List.map_map]
  rfl

theorem samples_score_mem (xs ts ws : List Q) : ∀ x ∈ samples xs ts ws, x.s ∈ xs := by
  intro x hx
  obtain ⟨p, hp, rfl⟩ := List.mem_map.mp hx
  exact (List.of_mem_zip hp).1

theorem binaryAuroc_mono (hf : MonoOn D f) (xs ts ws : List Q) (hD : ∀ x ∈ xs, D x)
    (hne : samples xs ts ws ≠ [])
    (hlab : ∀ x ∈ samples xs ts ws, x.t = 0 ∨ x.t = 1) :
    Curve.binaryAuroc (xs.map f) ts ws = Curve.binaryAuroc xs ts ws := by
  rw [C05.auroc_model_eq_spec xs ts ws hne hlab,
    C05.auroc_model_eq_spec (xs.map f) ts ws (by rw [samples_map]; simpa using hne)
      (by rw [samples_map]; intro x hx; obtain ⟨y, hy, rfl⟩ := List.mem_map.mp hx; exact hlab y hy),
    samples_map, aurocSpec_mono hf _ (fun x hx => hD _ (samples_score_mem xs ts ws x hx))]

/-! ### precision-recall curve, AUPRC, recall at fixed precision -/

def mapLS (f : Q → Q) (x : LS) : LS := (f x.1, x.2)

theorem insertDistinct_map (hf : MonoOn D f) (t : Q) (l : List Q) (ht : D t) (hl : ∀ u ∈ l, D u) :
    insertDistinct (f t) (l.map f) = (insertDistinct t l).map f := by
  induction l with
  | nil => rfl
  | cons u r ih =>
    have hu : D u := hl u (List.mem_cons_self ..)
    simp only [List.map_cons, insertDistinct, hf.lt ht hu, hf.eq ht hu]
    split
    · rfl
    · split
      · rfl
      · simp [ih (fun v hv => hl v (List.mem_cons_of_mem _ hv))]

theorem distinctAsc_map (hf : MonoOn D f) (l : List Q) (hl : ∀ u ∈ l, D u) :
    distinctAsc (l.map f) = (distinctAsc l).map f := by
  induction l with
  | nil => rfl
  | cons a l ih =>
    have ih' := ih (fun v hv => hl v (List.mem_cons_of_mem _ hv))
    simp only [distinctAsc, List.map_cons, List.foldr_cons] at ih' ⊢
    rw [ih', insertDistinct_map hf _ _ (hl a (List.mem_cons_self ..))]
    intro u hu
    exact hl u (List.mem_cons_of_mem _ ((CurveL.mem_distinctAsc l u).mp hu))

theorem tpAt_mapLS (hf : MonoOn D f) (l : List LS) (t : Q) (ht : D t) (hl : ∀ x ∈ l, D x.1) :
    tpAt (l.map (mapLS f)) (f t) = tpAt l t := by
  unfold tpAt
  rw [List.countP_map]
  apply List.countP_congr
  intro x hx
  simp [mapLS, hf.le ht (hl x hx)]

theorem fpAt_mapLS (hf : MonoOn D f) (l : List LS) (t : Q) (ht : D t) (hl : ∀ x ∈ l, D x.1) :
    fpAt (l.map (mapLS f)) (f t) = fpAt l t := by
  unfold fpAt
  rw [List.countP_map]
  apply List.countP_congr
  intro x hx
  simp [mapLS, hf.le ht (hl x hx)]

theorem nPos_mapLS (f : Q → Q) (l : List LS) : nPos (l.map (mapLS f)) = nPos l := by
  unfold nPos
  rw [List.countP_map]
  rfl

/-- the curve of the transformed scores: same precision and recall VALUES, thresholds mapped by `f`. -/
theorem prCurveSpec_mono (hf : MonoOn D f) (l : List LS) (hl : ∀ x ∈ l, D x.1) :
    prCurve (l.map (mapLS f)) = ⟨(prCurve l).precision, (prCurve l).recall, (prCurve l).thresholds.map f⟩ := by
  have hl' : ∀ u ∈ l.map (·.1), D u := by
    intro u hu; obtain ⟨x, hx, rfl⟩ := List.mem_map.mp hu; exact hl x hx
  have hT : distinctAsc ((l.map (mapLS f)).map (·.1)) = (distinctAsc (l.map (·.1))).map f := by
    rw [← distinctAsc_map hf _ hl', List.map_map, List.map_map]; rfl
  have hDt : ∀ t ∈ distinctAsc (l.map (·.1)), D t := fun t ht => hl' t ((CurveL.mem_distinctAsc _ t).mp ht)
  simp only [prCurve]
  rw [hT]
  simp only [List.map_map]
  congr 2
  · apply List.map_congr_left
    intro t ht
    simp only [Function.comp, precisionAt, tpAt_mapLS hf l t (hDt t ht) hl, fpAt_mapLS hf l t (hDt t ht) hl]
  · apply List.map_congr_left
    intro t ht
    simp only [Function.comp, recallAt, tpAt_mapLS hf l t (hDt t ht) hl, nPos_mapLS]

theorem auprcSpec_mono (hf : MonoOn D f) (l : List LS) (hl : ∀ x ∈ l, D x.1) :
    auprc (l.map (mapLS f)) = auprc l := by
  unfold auprc; rw [prCurveSpec_mono hf l hl]

theorem recallAtPrecisionSpec_mono (hf : MonoOn D f) (l : List LS) (hl : ∀ x ∈ l, D x.1) (bound : Q) :
    Spec.Curve.recallAtPrecision (l.map (mapLS f)) bound = Spec.Curve.recallAtPrecision l bound := by
  unfold Spec.Curve.recallAtPrecision; rw [prCurveSpec_mono hf l hl]

theorem posLS_map (f : Q → Q) (xs ts : List Q) : posLS (xs.map f) ts = (posLS xs ts).map (mapLS f) := by
  unfold posLS
  rw [List.zip_map_left, List.map_map, List.map_map]
  rfl

theorem posLS_score_mem (xs ts : List Q) : ∀ x ∈ posLS xs ts, x.1 ∈ xs := by
  intro x hx
  obtain ⟨p, hp, rfl⟩ := List.mem_map.mp hx
  exact (List.of_mem_zip hp).1

theorem ovrLS_map (f : Q → Q) (c : Nat) (col labs : List Q) :
    ovrLS c (col.map f) labs = (ovrLS c col labs).map (mapLS f) := by
  unfold ovrLS
  rw [List.zip_map_left, List.map_map, List.map_map]
  rfl

theorem ovrLS_score_mem (c : Nat) (col labs : List Q) : ∀ x ∈ ovrLS c col labs, x.1 ∈ col := by
  intro x hx
  obtain ⟨p, hp, rfl⟩ := List.mem_map.mp hx
  exact (List.of_mem_zip hp).1

/-- thresholds are transformed, precision / recall VALUES are not. -/
def mapThr (f : Q → Q) (c : Curve.PRC) : Curve.PRC := ⟨c.precision, c.recall, c.thresholds.map f⟩

theorem binaryPrCurve_mono (hf : MonoOn D f) (xs ts : List Q) (hD : ∀ x ∈ xs, D x) (hne : posLS xs ts ≠ []) :
    Curve.binaryPrCurve (xs.map f) ts = (Curve.binaryPrCurve xs ts).map (mapThr f) := by
  rw [C05.prCurve_model_eq_spec xs ts hne,
    C05.prCurve_model_eq_spec (xs.map f) ts (by rw [posLS_map]; simpa using hne),
    posLS_map, prCurveSpec_mono hf _ (fun x hx => hD _ (posLS_score_mem xs ts x hx))]
  rfl

theorem binaryAuprc_mono (hf : MonoOn D f) (xs ts : List Q) (hD : ∀ x ∈ xs, D x) (hne : posLS xs ts ≠ []) :
    Curve.binaryAuprc (xs.map f) ts = Curve.binaryAuprc xs ts := by
  rw [C05.auprc_eq xs ts hne, C05.auprc_eq (xs.map f) ts (by rw [posLS_map]; simpa using hne),
    posLS_map, auprcSpec_mono hf _ (fun x hx => hD _ (posLS_score_mem xs ts x hx))]

theorem isMaxRecall_unique {c c' : Curve} (hr : c'.recall = c.recall) (hp : c'.precision = c.precision)
    {b m m' : Q} (h : IsMaxRecall c b m) (h' : IsMaxRecall c' b m') : m = m' := by
  unfold IsMaxRecall at h h'
  rw [hr, hp] at h'
  obtain ⟨⟨rp, h1, h2, h3⟩, hmax⟩ := h
  obtain ⟨⟨rp', h1', h2', h3'⟩, hmax'⟩ := h'
  apply Rat.le_antisymm
  · rw [← h3]; exact hmax' rp h1 h2
  · rw [← h3']; exact hmax rp' h1' h2'

theorem binaryRecallAtPrecision_mono (hf : MonoOn D f) (xs ts : List Q) (minP : Q) (hD : ∀ x ∈ xs, D x)
    (hne : posLS xs ts ≠ []) :
    (Curve.binaryRecallAtPrecision (xs.map f) ts minP).map (·.1)
      = (Curve.binaryRecallAtPrecision xs ts minP).map (·.1) := by
  have hne' : posLS (xs.map f) ts ≠ [] := by rw [posLS_map]; simpa using hne
  by_cases hp : minP ≤ 1
  · obtain ⟨m, t, h1, h2, _⟩ := C05.recall_at_precision_eq xs ts minP hne hp
    obtain ⟨m', t', h1', h2', _⟩ := C05.recall_at_precision_eq (xs.map f) ts minP hne' hp
    rw [posLS_map, prCurveSpec_mono hf _ (fun x hx => hD _ (posLS_score_mem xs ts x hx))] at h2'
    have := isMaxRecall_unique (c := prCurve (posLS xs ts)) rfl rfl h2 h2'
    rw [h1, h1', this]; rfl
  · have hp' : 1 < minP := Rat.not_le.mp hp
    rw [C05.recall_at_precision_bound_above_one xs ts minP hne hp',
      C05.recall_at_precision_bound_above_one (xs.map f) ts minP hne' hp']

/-! ### multiclass / multilabel forms -/

theorem zipIdx_map' {α β : Type} (g : α → β) (l : List α) (k : Nat) :
    (l.map g).zipIdx k = (l.zipIdx k).map fun p => (g p.1, p.2) := by
  induction l generalizing k with
  | nil => rfl
  | cons a l ih => simp [List.zipIdx_cons, ih]

theorem ovrSamples_map (f : Q → Q) (c : Nat) (col labs : List Q) :
    ovrSamples c (col.map f) labs = (ovrSamples c col labs).map (mapS f) := by
  unfold ovrSamples
  rw [List.zip_map_left, List.map_map, List.map_map]
  rfl

theorem ovrSamples_score_mem (c : Nat) (col labs : List Q) : ∀ x ∈ ovrSamples c col labs, x.s ∈ col := by
  intro x hx
  obtain ⟨p, hp, rfl⟩ := List.mem_map.mp hx
  exact (List.of_mem_zip hp).1

theorem zip_map_ne_nil {f : Q → Q} {col labs : List Q} (h : col.zip labs ≠ []) :
    (col.map f).zip labs ≠ [] := by
  cases col <;> cases labs <;> simp_all

theorem multiclassAuroc_mono (hf : MonoOn D f) (cols : List (List Q)) (labs : List Q) (avg : Curve.Avg)
    (hD : ∀ col ∈ cols, ∀ x ∈ col, D x) (hne : ∀ col ∈ cols, col.zip labs ≠ []) :
    Curve.multiclassAuroc (cols.map (·.map f)) labs avg = Curve.multiclassAuroc cols labs avg := by
  have hne' : ∀ col ∈ cols.map (·.map f), col.zip labs ≠ [] := by
    intro col hc
    obtain ⟨c, hc', rfl⟩ := List.mem_map.mp hc
    exact zip_map_ne_nil (hne c hc')
  have key : (cols.map (·.map f)).zipIdx.map (fun cc => auroc (ovrSamples cc.2 cc.1 labs))
      = cols.zipIdx.map (fun cc => auroc (ovrSamples cc.2 cc.1 labs)) := by
    rw [zipIdx_map', List.map_map]
    apply List.map_congr_left
    intro cc hcc
    have hcol := hD cc.1 (CurveL.mem_zipIdx_fst hcc)
    simp only [Function.comp, ovrSamples_map]
    exact aurocSpec_mono hf _ (fun x hx => hcol _ (ovrSamples_score_mem _ _ _ x hx))
  cases avg
  · rw [C05.multiclass_auroc_macro_eq _ _ hne', C05.multiclass_auroc_macro_eq _ _ hne, key]
  · rw [C05.multiclass_auroc_none_eq _ _ hne', C05.multiclass_auroc_none_eq _ _ hne, key]

theorem multiclassPrCurve_mono (hf : MonoOn D f) (cols : List (List Q)) (labs : List Q)
    (hD : ∀ col ∈ cols, ∀ x ∈ col, D x) (hne : ∀ col ∈ cols, col.zip labs ≠ []) :
    Curve.multiclassPrCurve (cols.map (·.map f)) labs
      = (Curve.multiclassPrCurve cols labs).map (·.map (mapThr f)) := by
  have hne' : ∀ col ∈ cols.map (·.map f), col.zip labs ≠ [] := by
    intro col hc
    obtain ⟨c, hc', rfl⟩ := List.mem_map.mp hc
    exact zip_map_ne_nil (hne c hc')
  rw [C05.multiclass_prcurve_eq _ _ hne', C05.multiclass_prcurve_eq _ _ hne, zipIdx_map']
  simp only [Except.map, List.map_map]
  congr 1
  apply List.map_congr_left
  intro cc hcc
  have hcol := hD cc.1 (CurveL.mem_zipIdx_fst hcc)
  simp only [Function.comp, ovrLS_map,
    prCurveSpec_mono hf _ (fun x hx => hcol _ (ovrLS_score_mem cc.2 cc.1 labs x hx)), mapThr]

theorem multiclassAuprc_mono (hf : MonoOn D f) (cols : List (List Q)) (labs : List Q) (avg : Curve.Avg)
    (hD : ∀ col ∈ cols, ∀ x ∈ col, D x) (hne : ∀ col ∈ cols, col.zip labs ≠ []) :
    Curve.multiclassAuprc (cols.map (·.map f)) labs avg = Curve.multiclassAuprc cols labs avg := by
  have hne' : ∀ col ∈ cols.map (·.map f), col.zip labs ≠ [] := by
    intro col hc
    obtain ⟨c, hc', rfl⟩ := List.mem_map.mp hc
    exact zip_map_ne_nil (hne c hc')
  rw [C05.multiclass_auprc_eq _ _ _ hne', C05.multiclass_auprc_eq _ _ _ hne, zipIdx_map', List.map_map]
  congr 2
  apply List.map_congr_left
  intro cc hcc
  have hcol := hD cc.1 (CurveL.mem_zipIdx_fst hcc)
  simp only [Function.comp, ovrLS_map,
    auprcSpec_mono hf _ (fun x hx => hcol _ (ovrLS_score_mem cc.2 cc.1 labs x hx))]

def mapCol (f : Q → Q) (c : List Q × List Q) : List Q × List Q := (c.1.map f, c.2)

theorem multilabelPrCurve_mono (hf : MonoOn D f) (cols : List (List Q × List Q))
    (hD : ∀ c ∈ cols, ∀ x ∈ c.1, D x) (hne : ∀ c ∈ cols, posLS c.1 c.2 ≠ []) :
    Curve.multilabelPrCurve (cols.map (mapCol f)) = (Curve.multilabelPrCurve cols).map (·.map (mapThr f)) := by
  have hne' : ∀ c ∈ cols.map (mapCol f), posLS c.1 c.2 ≠ [] := by
    intro c hc
    obtain ⟨c0, hc0, rfl⟩ := List.mem_map.mp hc
    simp only [mapCol, posLS_map]
    simpa using hne c0 hc0
  rw [C05.multilabel_prcurve_eq _ hne', C05.multilabel_prcurve_eq _ hne]
  simp only [Except.map, List.map_map]
  congr 1
  apply List.map_congr_left
  intro c hc
  have hcol := hD c hc
  simp only [Function.comp, mapCol, posLS_map,
    prCurveSpec_mono hf _ (fun x hx => hcol _ (posLS_score_mem c.1 c.2 x hx)), mapThr]

theorem multilabelAuprc_mono (hf : MonoOn D f) (cols : List (List Q × List Q)) (avg : Curve.Avg)
    (hD : ∀ c ∈ cols, ∀ x ∈ c.1, D x) (hne : ∀ c ∈ cols, posLS c.1 c.2 ≠ []) :
    Curve.multilabelAuprc (cols.map (mapCol f)) avg = Curve.multilabelAuprc cols avg := by
  have hne' : ∀ c ∈ cols.map (mapCol f), posLS c.1 c.2 ≠ [] := by
    intro c hc
    obtain ⟨c0, hc0, rfl⟩ := List.mem_map.mp hc
    simp only [mapCol, posLS_map]
    simpa using hne c0 hc0
  rw [C05.multilabel_auprc_eq _ _ hne', C05.multilabel_auprc_eq _ _ hne, List.map_map]
  congr 2
  apply List.map_congr_left
  intro c hc
  have hcol := hD c hc
  simp only [Function.comp, mapCol, posLS_map,
    auprcSpec_mono hf _ (fun x hx => hcol _ (posLS_score_mem c.1 c.2 x hx))]

/-! ### hit rate, reciprocal rank, retrieval: the textbook specs -/

section rank
open TE.Spec.Rank

theorem insertDesc_map (hf : MonoOn D f) (x : Q) (l : List Q) (hx : D x) (hl : ∀ y ∈ l, D y) :
    insertDesc (f x) (l.map f) = (insertDesc x l).map f := by
  induction l with
  | nil => rfl
  | cons y l ih =>
    simp only [List.map_cons, insertDesc, hf.lt hx (hl y (List.mem_cons_self ..))]
    split
    · simp [ih (fun v hv => hl v (List.mem_cons_of_mem _ hv))]
    · rfl

theorem sortedDesc_map (hf : MonoOn D f) (l : List Q) (hl : ∀ y ∈ l, D y) :
    sortedDesc (l.map f) = (sortedDesc l).map f := by
  induction l with
  | nil => rfl
  | cons x l ih =>
    have hl' : ∀ y ∈ l, D y := fun v hv => hl v (List.mem_cons_of_mem _ hv)
    simp only [List.map_cons, sortedDesc, ih hl']
    exact insertDesc_map hf x _ (hl x (List.mem_cons_self ..))
      (fun y hy => hl' y ((RankL.mem_sortedDesc y l).mp hy))

theorem position_map (hf : MonoOn D f) (y : Q) (s : List Q) (hy : D y) (hs : ∀ x ∈ s, D x) :
    position (f y) (s.map f) = position y s := by
  induction s with
  | nil => rfl
  | cons x s ih =>
    simp only [List.map_cons, position, hf.eq (hs x (List.mem_cons_self ..)) hy,
      ih (fun v hv => hs v (List.mem_cons_of_mem _ hv))]

theorem rankOf_map (hf : MonoOn D f) (row : List Q) (t : Nat) (hrow : ∀ x ∈ row, D x) :
    rankOf (row.map f) t = rankOf row t := by
  unfold rankOf
  rw [List.getElem?_map, sortedDesc_map hf row hrow]
  cases h : row[t]? with
  | none => rfl
  | some y =>
    have hy : y ∈ row := List.mem_of_getElem? h
    simp [position_map hf y _ (hrow y hy) (fun x hx => hrow x ((RankL.mem_sortedDesc x row).mp hx))]

theorem rankOfI_map (hf : MonoOn D f) (row : List Q) (t : Int) (hrow : ∀ x ∈ row, D x) :
    rankOfI (row.map f) t = rankOfI row t := by
  unfold rankOfI; rw [rankOf_map hf row _ hrow]

theorem zip_map_rows (g : List Q → List Q) {β : Type} (rows : List (List Q)) (target : List β) :
    (rows.map g).zip target = (rows.zip target).map fun p => (g p.1, p.2) := by
  rw [List.zip_map_left]; rfl

theorem option_mapM_congr {α β : Type} {g h : α → Option β} {l : List α}
    (e : ∀ x ∈ l, g x = h x) : l.mapM g = l.mapM h := by
  induction l with
  | nil => rfl
  | cons x l ih =>
    rw [List.mapM_cons, List.mapM_cons, e x (List.mem_cons_self ..),
      ih (fun y hy => e y (List.mem_cons_of_mem _ hy))]

theorem hitRateSpec_mono (hf : MonoOn D f) (k : Option Nat) (rows : List (List Q)) (target : List Int)
    (hD : ∀ row ∈ rows, ∀ x ∈ row, D x) :
    Spec.Rank.hitRate k (rows.map (·.map f)) target = Spec.Rank.hitRate k rows target := by
  unfold Spec.Rank.hitRate
  rw [zip_map_rows, List.mapM_map]
  apply option_mapM_congr
  intro p hp
  simp only [Function.comp_def, rankOfI_map hf p.1 p.2 (hD p.1 (List.of_mem_zip hp).1)]

theorem reciprocalRankSpec_mono (hf : MonoOn D f) (k : Option Nat) (rows : List (List Q)) (target : List Int)
    (hD : ∀ row ∈ rows, ∀ x ∈ row, D x) :
    Spec.Rank.reciprocalRank k (rows.map (·.map f)) target = Spec.Rank.reciprocalRank k rows target := by
  unfold Spec.Rank.reciprocalRank
  rw [zip_map_rows, List.mapM_map]
  apply option_mapM_congr
  intro p hp
  simp only [Function.comp_def, rankOfI_map hf p.1 p.2 (hD p.1 (List.of_mem_zip hp).1)]

def mapP (f : Q → Q) (p : Q × Q) : Q × Q := (f p.1, p.2)

theorem above_map (hf : MonoOn D f) (scores : List Q) (s : Q) (hs : D s) (hD : ∀ x ∈ scores, D x) :
    above (scores.map f) (f s) = above scores s := by
  unfold above
  rw [List.countP_map]
  apply List.countP_congr
  intro x hx
  simp [hf.lt hs (hD x hx)]

theorem retrieved_map (hf : MonoOn D f) (k : Option Nat) (scores : List Q) (s : Q) (hs : D s)
    (hD : ∀ x ∈ scores, D x) :
    retrieved k (scores.map f) (f s) = retrieved k scores s := by
  cases k with
  | none => rfl
  | some k => simp only [retrieved, above_map hf scores s hs hD]

theorem relevantRetrieved_map (hf : MonoOn D f) (k : Option Nat) (items : List (Q × Q))
    (hD : ∀ p ∈ items, D p.1) :
    relevantRetrieved k (items.map (mapP f)) = relevantRetrieved k items := by
  unfold relevantRetrieved
  have e : (items.map (mapP f)).map (·.1) = (items.map (·.1)).map f := by
    rw [List.map_map, List.map_map]; rfl
  have hsc : ∀ x ∈ items.map (·.1), D x := by
    intro x hx; obtain ⟨p, hp, rfl⟩ := List.mem_map.mp hx; exact hD p hp
  rw [e, List.filter_map, List.map_map]
  have e2 : (fun p : Q × Q => p.2) ∘ mapP f = fun p => p.2 := rfl
  rw [e2]
  congr 2
  apply List.filter_congr
  intro p hp
  simp only [Function.comp, mapP, retrieved_map hf k _ p.1 (hD p hp) hsc]

theorem retrievalPrecisionSpec_mono (hf : MonoOn D f) (k : Option Nat) (limit : Bool) (items : List (Q × Q))
    (hD : ∀ p ∈ items, D p.1) :
    Spec.Rank.precision k limit (items.map (mapP f)) = Spec.Rank.precision k limit items := by
  unfold Spec.Rank.precision
  rw [relevantRetrieved_map hf k items hD, List.length_map]

theorem retrievalRecallSpec_mono (hf : MonoOn D f) (k : Option Nat) (items : List (Q × Q))
    (hD : ∀ p ∈ items, D p.1) :
    Spec.Rank.recall k (items.map (mapP f)) = Spec.Rank.recall k items := by
  unfold Spec.Rank.recall
  rw [relevantRetrieved_map hf k items hD, List.map_map]
  rfl

end rank

/-! ### … and the executable models of the ranking functionals -/

theorem gather1_map (f : Q → Q) (row : List Q) (t : Int) :
    Rank.gather1 (row.map f) t = (Rank.gather1 row t).map f := by
  unfold Rank.gather1
  split
  · rfl
  · rw [List.getElem?_map]
    cases row[t.toNat]? <;> rfl

theorem gather1_mem (row : List Q) (t : Int) (y : Q) (h : Rank.gather1 row t = .ok y) : y ∈ row := by
  unfold Rank.gather1 at h
  split at h
  · cases h
  · cases e : row[t.toNat]? with
    | none => simp [e] at h
    | some z =>
      simp only [e, Except.ok.injEq] at h
      subst h
      exact List.mem_of_getElem? e

theorem rankRow_map (hf : MonoOn D f) (row : List Q) (y : Q) (hy : D y) (hrow : ∀ x ∈ row, D x) :
    Rank.rankRow (row.map f) (f y) = Rank.rankRow row y := by
  unfold Rank.rankRow
  rw [List.countP_map]
  apply List.countP_congr
  intro x hx
  simp [hf.lt hy (hrow x hx)]

theorem ranks_map (hf : MonoOn D f) (rows : List (List Q)) (target : List Int)
    (hD : ∀ row ∈ rows, ∀ x ∈ row, D x) :
    Rank.ranks (rows.map (·.map f)) target = Rank.ranks rows target := by
  unfold Rank.ranks
  rw [zip_map_rows, List.mapM_map]
  apply CurveL.mapM_congr
  intro p hp
  have hrow := hD p.1 (List.of_mem_zip hp).1
  simp only [Function.comp_def, gather1_map]
  cases h : Rank.gather1 p.1 p.2 with
  | error e => rfl
  | ok y =>
    simp [Except.map, bind, Except.bind, rankRow_map hf p.1 y (hrow y (gather1_mem _ _ _ h)) hrow]

theorem hitRate_mono (hf : MonoOn D f) (rows : List (List Q)) (C : Nat) (target : List Int) (k : Option Int)
    (hD : ∀ row ∈ rows, ∀ x ∈ row, D x) :
    Rank.hitRate (rows.map (·.map f)) C target k = Rank.hitRate rows C target k := by
  unfold Rank.hitRate
  rw [ranks_map hf rows target hD]

theorem reciprocalRank_mono (hf : MonoOn D f) (rows : List (List Q)) (target : List Int) (k : Option Int)
    (hD : ∀ row ∈ rows, ∀ x ∈ row, D x) :
    Rank.reciprocalRank (rows.map (·.map f)) target k = Rank.reciprocalRank rows target k := by
  unfold Rank.reciprocalRank
  rw [ranks_map hf rows target hD]

theorem insDesc_map (hf : MonoOn D f) (x : Rank.Pair) (l : List Rank.Pair) (hx : D x.1) (hl : ∀ y ∈ l, D y.1) :
    Rank.insDesc (mapP f x) (l.map (mapP f)) = (Rank.insDesc x l).map (mapP f) := by
  induction l with
  | nil => rfl
  | cons y l ih =>
    simp only [List.map_cons, Rank.insDesc, mapP, hf.lt (hl y (List.mem_cons_self ..)) hx]
    split
    · rfl
    · simp only [List.map_cons, mapP]
      congr 1
      exact ih (fun v hv => hl v (List.mem_cons_of_mem _ hv))

theorem sortDesc_mapP (hf : MonoOn D f) (l : List Rank.Pair) (hl : ∀ y ∈ l, D y.1) :
    Rank.sortDesc (l.map (mapP f)) = (Rank.sortDesc l).map (mapP f) := by
  unfold Rank.sortDesc
  suffices ∀ acc : List Rank.Pair, (∀ y ∈ acc, D y.1) →
      (l.map (mapP f)).foldl (fun acc x => Rank.insDesc x acc) (acc.map (mapP f))
        = (l.foldl (fun acc x => Rank.insDesc x acc) acc).map (mapP f) from this [] (by simp)
  induction l with
  | nil => intro acc _; rfl
  | cons x l ih =>
    intro acc hacc
    have hx := hl x (List.mem_cons_self ..)
    simp only [List.map_cons, List.foldl_cons, insDesc_map hf x acc hx hacc]
    apply ih (fun v hv => hl v (List.mem_cons_of_mem _ hv))
    intro y hy
    rcases (RankL.mem_insDesc y x acc).mp hy with rfl | h
    · exact hx
    · exact hacc y h

theorem topk_mapP (hf : MonoOn D f) (k : Option Nat) (l : List Rank.Pair) (hl : ∀ y ∈ l, D y.1) :
    Rank.topk k (l.map (mapP f)) = (Rank.topk k l).map (mapP f) := by
  cases k with
  | none => exact sortDesc_mapP hf l hl
  | some k => simp only [Rank.topk, sortDesc_mapP hf l hl, List.map_take]

theorem nbRelevant_mapP (hf : MonoOn D f) (k : Option Nat) (l : List Rank.Pair) (hl : ∀ y ∈ l, D y.1) :
    Rank.nbRelevant k (l.map (mapP f)) = Rank.nbRelevant k l := by
  unfold Rank.nbRelevant
  rw [topk_mapP hf k l hl, List.map_map]
  rfl

/-- `retrieval_precision` (sort, take k, gather labels, sum): unchanged, ties included — the model's stable
    sort makes the same comparisons on `f ∘ score` as on `score`. -/
theorem retrievalPrecision_mono (hf : MonoOn D f) (k : Option Nat) (limit : Bool) (items : List Rank.Pair)
    (hD : ∀ p ∈ items, D p.1) :
    Rank.precisionPairs k limit (items.map (mapP f)) = Rank.precisionPairs k limit items := by
  unfold Rank.precisionPairs
  rw [nbRelevant_mapP hf k items hD, List.length_map]

theorem retrievalRecall_mono (hf : MonoOn D f) (k : Option Nat) (items : List Rank.Pair)
    (hD : ∀ p ∈ items, D p.1) :
    Rank.recallPairs k (items.map (mapP f)) = Rank.recallPairs k items := by
  unfold Rank.recallPairs
  rw [nbRelevant_mapP hf k items hD, List.map_map]
  rfl

/-! ### top-k accuracy, arg-max, thresholds -/

theorem getD_mem_of_lt (row : List Q) (lab : Nat) (hl : lab < row.length) : row.getD lab 0 ∈ row := by
  simp [List.getD_eq_getElem?_getD, hl]

theorem topkCorrect_mono (hf : MonoOn D f) (row : List Q) (lab k : Nat) (hl : lab < row.length)
    (hrow : ∀ x ∈ row, D x) :
    Spec.Count.topkCorrect (row.map f) lab k = Spec.Count.topkCorrect row lab k := by
  unfold Spec.Count.topkCorrect
  have e : (row.map f).getD lab 0 = f (row.getD lab 0) := by
    simp [List.getD_eq_getElem?_getD, hl]
  have hy := hrow _ (getD_mem_of_lt row lab hl)
  rw [e, List.filter_map, List.length_map]
  generalize row.getD lab 0 = y at hy
  congr 3
  apply List.filter_congr
  intro x hx
  simp [hf.lt hy (hrow x hx)]

theorem rankOf_mono (hf : MonoOn D f) (row : List Q) (lab : Nat) (hl : lab < row.length)
    (hrow : ∀ x ∈ row, D x) :
    Count.rankOf (row.map f) lab = Count.rankOf row lab := by
  unfold Count.rankOf
  have e : (row.map f).getD lab 0 = f (row.getD lab 0) := by
    simp [List.getD_eq_getElem?_getD, hl]
  have hy := hrow _ (getD_mem_of_lt row lab hl)
  rw [e, List.countP_map]
  generalize row.getD lab 0 = y at hy
  apply List.countP_congr
  intro x hx
  simp [hf.lt hy (hrow x hx)]

theorem mcMaskTopk_mono (hf : MonoOn D f) (rows : List (List Q)) (labs : List Nat) (k : Nat)
    (hD : ∀ row ∈ rows, ∀ x ∈ row, D x) (hl : ∀ p ∈ rows.zip labs, p.2 < p.1.length) :
    Count.mcMaskTopk (rows.map (·.map f)) labs k = Count.mcMaskTopk rows labs k := by
  unfold Count.mcMaskTopk
  rw [zip_map_rows, List.map_map]
  apply List.map_congr_left
  intro p hp
  simp only [Function.comp, rankOf_mono hf p.1 p.2 (hl p hp) (hD p.1 (List.of_mem_zip hp).1)]

theorem argmaxFirst_go_map (hf : MonoOn D f) (l : List Q) (i best : Nat) (bv : Q) (hbv : D bv)
    (hl : ∀ x ∈ l, D x) :
    Count.argmaxFirst.go (l.map f) i best (f bv) = Count.argmaxFirst.go l i best bv := by
  induction l generalizing i best bv with
  | nil => rfl
  | cons x l ih =>
    have hx := hl x (List.mem_cons_self ..)
    have hl' : ∀ y ∈ l, D y := fun v hv => hl v (List.mem_cons_of_mem _ hv)
    simp only [List.map_cons, Count.argmaxFirst.go, hf.lt hbv hx]
    split
    · exact ih _ _ _ hx hl'
    · exact ih _ _ _ hbv hl'

/-- `torch.argmax` (first maximal index) reads the logits only through `<`. -/
theorem argmaxFirst_mono (hf : MonoOn D f) (row : List Q) (hrow : ∀ x ∈ row, D x) :
    Count.argmaxFirst (row.map f) = Count.argmaxFirst row := by
  cases row with
  | nil => rfl
  | cons x l =>
    exact argmaxFirst_go_map hf l 1 0 x (hrow x (List.mem_cons_self ..))
      (fun v hv => hrow v (List.mem_cons_of_mem _ hv))

theorem argmax_preds_mono (hf : MonoOn D f) (rows : List (List Q)) (hD : ∀ row ∈ rows, ∀ x ∈ row, D x) :
    (rows.map (·.map f)).map Count.argmaxFirst = rows.map Count.argmaxFirst := by
  rw [List.map_map]
  apply List.map_congr_left
  intro r hr
  exact argmaxFirst_mono hf r (hD r hr)

theorem topkIndicator_mono (hf : MonoOn D f) (row : List Q) (k : Nat) (hrow : ∀ x ∈ row, D x) :
    Count.topkIndicator (row.map f) k = Count.topkIndicator row k := by
  unfold Count.topkIndicator
  rw [List.map_map]
  apply List.map_congr_left
  intro x hx
  simp only [Function.comp_def, List.countP_map]
  congr 3
  apply List.countP_congr
  intro y hy
  simp [hf.lt (hrow x hx) (hrow y hy)]

theorem topkMultilabelUpdate_mono (hf : MonoOn D f) (crit : Count.Crit) (k : Nat) (inp tgt : List (List Q))
    (hD : ∀ row ∈ inp, ∀ x ∈ row, D x) :
    Count.topkMultilabelUpdate crit k (inp.map (·.map f)) tgt = Count.topkMultilabelUpdate crit k inp tgt := by
  unfold Count.topkMultilabelUpdate
  have e : (inp.map (·.map f)).map (fun r => Count.topkIndicator r k)
      = inp.map (fun r => Count.topkIndicator r k) := by
    rw [List.map_map]
    apply List.map_congr_left
    intro r hr
    exact topkIndicator_mono hf r k (hD r hr)
  rw [e]

/-- thresholded (binary / multilabel) predictions: unchanged when the threshold is transformed along. -/
theorem thresh_mono (hf : MonoOn D f) (thr x : Q) (ht : D thr) (hx : D x) :
    Count.thresh (f thr) (f x) = Count.thresh thr x := by
  unfold Count.thresh; simp only [hf.lt hx ht]

end TE.MetaL
