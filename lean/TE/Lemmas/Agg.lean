/-
  TE.Lemmas.Agg — helper lemmas for C07 (sums, shifted second moments, the Chan
  combine, stable insertion sort, prefix sums / searchsorted).
-/
import TE.Model.Agg
import TE.Spec.Agg
namespace TE.AggL
open TE TE.Agg
open TE.Spec.Agg (wsum)

/-! ### sums -/

theorem sum_map_mul_left (c : Q) (l : List Q) : (l.map (c * ·)).sum = c * l.sum := by
  induction l with
  | nil => simp
  | cons a l ih => simp [ih]; grind

theorem sum_map_mul_right (c : Q) (l : List Q) : (l.map (· * c)).sum = c * l.sum := by
  induction l with
  | nil => simp
  | cons a l ih => simp [ih]; grind

theorem sum_map_div (c : Q) (l : List Q) : (l.map (· / c)).sum = l.sum / c := by
  induction l with
  | nil => simp; grind
  | cons a l ih => simp [ih]; grind

theorem sum_replicate (n : Nat) (c : Q) : (List.replicate n c).sum = (n : Q) * c := by
  induction n with
  | zero => simp
  | succ n ih => simp [List.replicate_succ, ih]; grind

theorem zipWith_mul_comm (a b : List Q) :
    List.zipWith (· * ·) a b = List.zipWith (· * ·) b a := by
  induction a generalizing b with
  | nil => cases b <;> simp
  | cons x a ih => cases b with
    | nil => simp
    | cons y b => simp [ih b]; grind

theorem zipWith_replicate_left (n : Nat) (c : Q) (l : List Q) (h : l.length = n) :
    List.zipWith (· * ·) (List.replicate n c) l = l.map (c * ·) := by
  induction l generalizing n with
  | nil => simp
  | cons a l ih =>
    cases n with
    | zero => simp at h
    | succ n => simp at h; simp [List.replicate_succ, ih n h]

theorem sum_zipWith_append (f : Q → Q → Q) (a₁ a₂ b₁ b₂ : List Q) (h : a₁.length = b₁.length) :
    (List.zipWith f (a₁ ++ a₂) (b₁ ++ b₂)).sum = (List.zipWith f a₁ b₁).sum + (List.zipWith f a₂ b₂).sum := by
  rw [List.zipWith_append h, List.sum_append]

/-- `Σ (x−a)(y−b) = Σxy − aΣy − bΣx + n·a·b` for *fixed* shifts `a`, `b`. -/
theorem sum_shift (a b : Q) (xs ys : List Q) (h : xs.length = ys.length) :
    (List.zipWith (fun x y => (x - a) * (y - b)) xs ys).sum
      = (List.zipWith (· * ·) xs ys).sum - a * ys.sum - b * xs.sum + (xs.length : Q) * a * b := by
  induction xs generalizing ys with
  | nil => cases ys <;> simp_all <;> grind
  | cons x xs ih =>
    cases ys with
    | nil => simp at h
    | cons y ys =>
      simp at h
      simp [ih ys h]
      grind

/-- the scatter (co-moment) from raw sums: `Σ(x−x̄)(y−ȳ) = Σxy − ΣxΣy/n`. -/
theorem scatter_raw (xs ys : List Q) (h : xs.length = ys.length) (hn : xs.length ≠ 0) :
    Spec.Agg.scatter xs ys = (List.zipWith (· * ·) xs ys).sum - xs.sum * ys.sum / (xs.length : Q) := by
  unfold Spec.Agg.scatter Spec.Agg.mean
  rw [sum_shift _ _ xs ys h, ← h]
  have : (xs.length : Q) ≠ 0 := by
    intro h0; exact hn (by exact_mod_cast h0)
  grind

theorem comoment_eq_scatter (xs ys : List Q) : comoment xs ys = Spec.Agg.scatter xs ys := rfl

theorem natCast_ne_zero {n : Nat} (h : n ≠ 0) : (n : Q) ≠ 0 := by
  intro h0; exact h (by exact_mod_cast h0)

theorem natCast_pos {n : Nat} (h : n ≠ 0) : (0 : Q) < (n : Q) := by
  have : 0 < n := Nat.pos_of_ne_zero h
  exact_mod_cast this

/-- **Chan / Welford combine, scalar form**: the scatter of a concatenation from the
    scatters, sums and sizes of the two parts. -/
theorem chan_scalar (x₁ y₁ x₂ y₂ : List Q) (h₁ : x₁.length = y₁.length) (h₂ : x₂.length = y₂.length)
    (n₁ : x₁.length ≠ 0) (n₂ : x₂.length ≠ 0) :
    Spec.Agg.scatter (x₁ ++ x₂) (y₁ ++ y₂)
      = Spec.Agg.scatter x₁ y₁ +
        (Spec.Agg.scatter x₂ y₂ +
          (x₁.sum / (x₁.length : Q) - x₂.sum / (x₂.length : Q)) * (y₁.sum / (x₁.length : Q) - y₂.sum / (x₂.length : Q))
            * ((x₂.length : Q) * (x₁.length : Q)) / ((x₁.length : Q) + (x₂.length : Q))) := by
  have hl : (x₁ ++ x₂).length = (y₁ ++ y₂).length := by simp [h₁, h₂]
  have hn : (x₁ ++ x₂).length ≠ 0 := by rw [List.length_append]; omega
  rw [scatter_raw _ _ hl hn, scatter_raw _ _ h₁ n₁, scatter_raw _ _ h₂ n₂,
    sum_zipWith_append _ _ _ _ _ h₁, List.sum_append, List.sum_append]
  have p₁ := natCast_pos n₁
  have p₂ := natCast_pos n₂
  have : ((x₁ ++ x₂).length : Q) = (x₁.length : Q) + (x₂.length : Q) := by simp
  rw [this]
  grind

/-! ### the Chan combine on whole batches (columns `0..d-1` of row-major observations) -/

theorem col_append (j : Nat) (A B : Mat) : col j (A ++ B) = col j A ++ col j B := by
  simp [col]

theorem col_length (j : Nat) (A : Mat) : (col j A).length = A.length := by simp [col]

theorem zipWith_map_same {α β γ δ : Type} (f : β → γ → δ) (g : α → β) (h : α → γ) (l : List α) :
    List.zipWith f (l.map g) (l.map h) = l.map fun a => f (g a) (h a) := by
  rw [List.zipWith_map, List.zipWith_self]

theorem chan_combine_batches (d : Nat) (A B : Mat) :
    covCombine (covBatch d A) (covBatch d B) = covBatch d (A ++ B) := by
  by_cases hB : B = []
  · subst hB; simp [covCombine, covBatch]
  by_cases hA : A = []
  · subst hA
    have : B.length ≠ 0 := by simpa using hB
    simp [covCombine, covBatch, this]
  have nA : A.length ≠ 0 := by simpa using hA
  have nB : B.length ≠ 0 := by simpa using hB
  simp only [covCombine, covBatch, nA, nB, if_false, List.map_map, zipWith_map_same]
  refine congr (congr (congrArg CovS.mk (by simp)) ?_) ?_
  · apply List.map_congr_left; intro j _
    simp [col_append]
  · apply List.map_congr_left; intro i _
    simp only [Function.comp]
    rw [zipWith_map_same, zipWith_map_same]
    apply List.map_congr_left; intro j _
    have := chan_scalar (col i A) (col j A) (col i B) (col j B) (by simp [col_length]) (by simp [col_length])
      (by simpa [col_length] using nA) (by simpa [col_length] using nB)
    simp only [comoment_eq_scatter, col_append, this, col_length, Function.comp_apply]

/-! ### stable sort, argsort + gather, trapezoid rule -/

theorem insertBy_map {α β : Type} (f : α → β) (le : α → α → Bool) (le' : β → β → Bool)
    (h : ∀ a b, le' (f a) (f b) = le a b) (a : α) (l : List α) :
    (insertBy le a l).map f = insertBy le' (f a) (l.map f) := by
  induction l with
  | nil => rfl
  | cons b l ih =>
    simp only [insertBy, List.map_cons, h]
    split <;> simp [ih]

theorem isort_map {α β : Type} (f : α → β) (le : α → α → Bool) (le' : β → β → Bool)
    (h : ∀ a b, le' (f a) (f b) = le a b) (l : List α) :
    (isort le l).map f = isort le' (l.map f) := by
  induction l with
  | nil => rfl
  | cons a l ih => simp only [isort, List.map_cons, insertBy_map f le le' h, ih]

theorem zip_range_gather (xs ys : List Q) (h : xs.length = ys.length) :
    (xs.zip (List.range xs.length)).map (fun p => (p.1, ys.getD p.2 0)) = xs.zip ys := by
  apply List.ext_getElem
  · simp [h]
  · intro i h₁ h₂
    simp at h₁ h₂
    have hy : i < ys.length := by omega
    simp [List.getD, List.getElem?_eq_getElem hy]

/-- `torch.sort(x, stable=True)` followed by `y.gather(idx)` sorts the *points* by abscissa. -/
theorem argsort_gather (xs ys : List Q) (h : xs.length = ys.length) :
    (argsortStable xs).map (fun p => (p.1, ys.getD p.2 0)) = isort leFst (xs.zip ys) := by
  unfold argsortStable
  rw [isort_map (fun p : Q × Nat => (p.1, ys.getD p.2 0)) leFst leFst (fun _ _ => rfl), zip_range_gather xs ys h]

theorem insertBy_leFst (p : Q × Q) (l : List (Q × Q)) : insertBy leFst p l = Spec.Agg.insertPt p l := by
  induction l with
  | nil => rfl
  | cons q l ih => simp [insertBy, Spec.Agg.insertPt, leFst, ih]

theorem isort_leFst (l : List (Q × Q)) : isort leFst l = Spec.Agg.sortPts l := by
  induction l with
  | nil => rfl
  | cons p l ih => simp [isort, Spec.Agg.sortPts, insertBy_leFst, ih]

theorem trapz_zip : ∀ (xs ys : List Q), xs.length = ys.length → trapz xs ys = Spec.Agg.trapzPts (xs.zip ys)
  | [], [], _ => rfl
  | [_], [_], _ => rfl
  | x0 :: x1 :: xs, y0 :: y1 :: ys, h => by
    simp only [trapz, List.zip_cons_cons, Spec.Agg.trapzPts]
    rw [trapz_zip (x1 :: xs) (y1 :: ys) (by simpa using h)]
    rfl
  | [], _ :: _, h => by simp at h
  | _ :: _, [], h => by simp at h
  | [_], _ :: _ :: _, h => by simp at h
  | _ :: _ :: _, [_], h => by simp at h

theorem aucRow_reorder (xs ys : List Q) (h : xs.length = ys.length) :
    aucRow true xs ys = Spec.Agg.auc (xs.zip ys) := by
  simp only [aucRow, if_true, gatherBy, Spec.Agg.auc]
  rw [trapz_zip _ _ (by simp), List.zip_map', argsort_gather xs ys h, isort_leFst]

theorem insertPt_perm (p : Q × Q) (l : List (Q × Q)) : (Spec.Agg.insertPt p l).Perm (p :: l) := by
  induction l with
  | nil => exact List.Perm.refl _
  | cons q l ih =>
    simp only [Spec.Agg.insertPt]
    split
    · exact List.Perm.refl _
    · exact (List.Perm.cons q ih).trans (List.Perm.swap p q l)

theorem sortPts_perm (l : List (Q × Q)) : (Spec.Agg.sortPts l).Perm l := by
  induction l with
  | nil => exact List.Perm.refl _
  | cons p l ih => exact (insertPt_perm p _).trans (List.Perm.cons p ih)

theorem insertPt_sorted (p : Q × Q) (l : List (Q × Q)) (h : l.Pairwise (fun a b => a.1 ≤ b.1)) :
    (Spec.Agg.insertPt p l).Pairwise (fun a b => a.1 ≤ b.1) := by
  induction l with
  | nil => simp [Spec.Agg.insertPt]
  | cons q l ih =>
    simp only [Spec.Agg.insertPt]
    have hq := List.pairwise_cons.mp h
    split
    · rename_i hpq
      refine List.pairwise_cons.mpr ⟨?_, h⟩
      intro a ha
      rcases List.mem_cons.mp ha with rfl | ha
      · exact hpq
      · exact Rat.le_trans hpq (hq.1 a ha)
    · rename_i hpq
      have hqp : q.1 ≤ p.1 := Rat.le_of_lt (Rat.not_le.mp hpq)
      refine List.pairwise_cons.mpr ⟨?_, ih hq.2⟩
      intro a ha
      have := (insertPt_perm p l).mem_iff.mp ha
      rcases List.mem_cons.mp this with rfl | ha
      · exact hqp
      · exact hq.1 a ha

theorem sortPts_sorted (l : List (Q × Q)) : (Spec.Agg.sortPts l).Pairwise (fun a b => a.1 ≤ b.1) := by
  induction l with
  | nil => simp [Spec.Agg.sortPts]
  | cons p l ih => exact insertPt_sorted p _ ih


/-! ### prefix sums, `searchsorted(right=True)`, weighted CDFs -/

def leQ (a b : Q) : Bool := decide (a ≤ b)

theorem isort_leQ (l : List Q) : isort (fun a b => decide (a ≤ b)) l = Spec.Agg.sortQ l := by
  induction l with
  | nil => rfl
  | cons a l ih =>
    simp only [isort, Spec.Agg.sortQ, ih]
    generalize Spec.Agg.sortQ l = m
    induction m with
    | nil => rfl
    | cons b m ihm => simp [insertBy, Spec.Agg.insertQ, ihm]

theorem sum_perm {l₁ l₂ : List Q} (h : l₁.Perm l₂) : l₁.sum = l₂.sum := by
  induction h with
  | nil => rfl
  | cons x _ ih => simp [ih]
  | swap x y l => simp; grind
  | trans _ _ ih₁ ih₂ => exact ih₁.trans ih₂

/-- `cat([a], a + cumsum(ws))[k] = a + Σ_{i<k} ws[i]` -/
theorem cumFrom_getD (ws : List Q) : ∀ (a : Q) (k : Nat), k ≤ ws.length →
    (cumFrom a ws).getD k 0 = a + (ws.take k).sum := by
  induction ws with
  | nil => intro a k hk; simp at hk; subst hk; simp [cumFrom]; grind
  | cons w ws ih =>
    intro a k hk
    cases k with
    | zero => simp [cumFrom]; grind
    | succ k =>
      simp only [cumFrom, List.getD_cons_succ, List.take_succ_cons, List.sum_cons]
      rw [ih (a + w) k (by simpa using hk)]
      grind

theorem length_takeWhile_le' {α : Type} (p : α → Bool) (l : List α) : (l.takeWhile p).length ≤ l.length := by
  induction l with
  | nil => simp
  | cons a l ih => simp only [List.takeWhile_cons]; split <;> simp <;> omega

theorem take_length_takeWhile' {α : Type} (p : α → Bool) (l : List α) :
    l.take (l.takeWhile p).length = l.takeWhile p := by
  induction l with
  | nil => simp
  | cons a l ih => simp only [List.takeWhile_cons]; split <;> simp [ih]

/-- on a list sorted by key, the prefix of keys `≤ v` is the filter. -/
theorem takeWhile_eq_filter_of_sorted (v : Q) (l : List (Q × Q)) (h : l.Pairwise (fun a b => a.1 ≤ b.1)) :
    l.takeWhile (fun p => decide (p.1 ≤ v)) = l.filter (fun p => decide (p.1 ≤ v)) := by
  induction l with
  | nil => rfl
  | cons p l ih =>
    have hp := List.pairwise_cons.mp h
    by_cases hv : p.1 ≤ v
    · simp [List.takeWhile_cons, List.filter_cons, hv, ih hp.2]
    · simp only [List.takeWhile_cons, List.filter_cons, hv, decide_false, Bool.false_eq_true, if_false]
      symm
      apply List.filter_eq_nil_iff.mpr
      intro a ha
      have := hp.1 a ha
      simp
      intro hav
      exact hv (Rat.le_trans this hav)

/-- `searchsorted(right=True)` on the sorted keys picks out exactly the points with key `≤ v`;
    the cumulative weight there is the weight of `{xᵢ ≤ v}` in the **unsorted** data. -/
theorem cum_weight_at (l : List (Q × Q)) (v : Q) :
    let pts := Spec.Agg.sortPts l
    (cumFrom 0 (pts.map (·.2))).getD (searchsortedRight (pts.map (·.1)) v) 0
      = ((l.filter fun p => decide (p.1 ≤ v)).map (·.2)).sum := by
  intro pts
  have hs : pts.Pairwise (fun a b => a.1 ≤ b.1) := sortPts_sorted l
  have hk : searchsortedRight (pts.map (·.1)) v = (pts.takeWhile fun p => decide (p.1 ≤ v)).length := by
    simp [searchsortedRight, List.takeWhile_map, Function.comp_def]
  rw [hk, cumFrom_getD _ _ _ (by simpa using length_takeWhile_le' _ pts)]
  rw [← List.map_take, take_length_takeWhile']
  rw [takeWhile_eq_filter_of_sorted v pts hs]
  have hp : (pts.filter fun p => decide (p.1 ≤ v)).Perm (l.filter fun p => decide (p.1 ≤ v)) :=
    (sortPts_perm l).filter _
  rw [sum_perm (hp.map _)]
  grind



theorem sortWith_eq (xs ws : List Q) (h : xs.length = ws.length) :
    sortWith xs ws = ((Spec.Agg.sortPts (xs.zip ws)).map (·.1), (Spec.Agg.sortPts (xs.zip ws)).map (·.2)) := by
  have := argsort_gather xs ws h
  rw [isort_leFst] at this
  simp only [sortWith, gatherBy, ← this, List.map_map, Function.comp_def]

/-- weighted path of `_wasserstein_compute`: sorted cumulative weights at the `searchsorted` index,
    over the total weight, is the weighted empirical CDF of the unsorted sample. -/
theorem wCdf_weighted (xs ws q : List Q) (h : xs.length = ws.length) :
    wCdf xs (some ws) q = q.map (Spec.Agg.cdf (xs.zip ws)) := by
  simp only [wCdf, sortWith_eq xs ws h]
  apply List.map_congr_left; intro v _
  have := cum_weight_at (xs.zip ws) v
  simp only at this
  rw [this, Spec.Agg.cdf, sum_perm ((sortPts_perm (xs.zip ws)).map _)]

theorem sum_snd_ones (m : List (Q × Q)) (h : ∀ p ∈ m, p.2 = 1) : (m.map (·.2)).sum = (m.length : Q) := by
  induction m with
  | nil => simp
  | cons p m ih =>
    simp only [List.map_cons, List.sum_cons, List.length_cons]
    rw [ih (fun q hq => h q (List.mem_cons_of_mem _ hq)), h p (List.mem_cons_self ..)]
    push_cast; grind

/-- unweighted path: `searchsorted index / n` is the CDF with unit weights. -/
theorem wCdf_unweighted (xs q : List Q) :
    wCdf xs none q = q.map (Spec.Agg.cdf (xs.zip (xs.map fun _ => 1))) := by
  let ones := xs.map fun _ => (1 : Q)
  have hl : xs.length = ones.length := by simp [ones]
  have hs := sortWith_eq xs ones hl
  simp only [sortWith, Prod.mk.injEq] at hs
  simp only [wCdf, hs.1]
  apply List.map_congr_left; intro v _
  have hone : ∀ p ∈ xs.zip ones, p.2 = 1 := by
    intro p hp
    have := (List.of_mem_zip hp).2
    simp [ones] at this
    exact this.2.symm
  have hk : searchsortedRight ((Spec.Agg.sortPts (xs.zip ones)).map (·.1)) v
      = ((xs.zip ones).filter fun p => decide (p.1 ≤ v)).length := by
    simp only [searchsortedRight, List.takeWhile_map, List.length_map, Function.comp_def]
    rw [takeWhile_eq_filter_of_sorted v _ (sortPts_sorted _)]
    exact ((sortPts_perm (xs.zip ones)).filter _).length_eq
  rw [hk, Spec.Agg.cdf, sum_snd_ones _ (fun p hp => hone p (List.mem_filter.mp hp).1), sum_snd_ones _ hone]
  simp [ones]

theorem w1_sum (f g : Q → Q) (px py : List (Q × Q)) (hf : f = Spec.Agg.cdf px) (hg : g = Spec.Agg.cdf py) :
    ∀ l : List Q, (List.zipWith (· * ·) (List.zipWith (fun a b => qabs (a - b)) (l.dropLast.map f) (l.dropLast.map g)) (diffs l)).sum
      = Spec.Agg.w1On px py l
  | [] => rfl
  | [_] => rfl
  | a :: b :: l => by
    have ih := w1_sum f g px py hf hg (b :: l)
    simp only [List.dropLast_cons_cons, List.map_cons, List.zipWith_cons_cons, diffs, List.sum_cons, Spec.Agg.w1On]
    rw [ih, hf, hg]
    rfl


/-! ### extended scalars, guarded denominators, extrema -/

theorem xdiv_val (a b : Q) (h : b ≠ 0) : xdiv a b = .val (a / b) := by simp [xdiv, h]

theorem xsum_vals (l : List Q) : xsum (l.map XQ.val) = .val l.sum := by
  induction l with
  | nil => rfl
  | cons a l ih => simp only [xsum, List.map_cons, List.foldr_cons] at ih ⊢; rw [ih]; rfl

theorem xmean_vals (l : List Q) (h : l ≠ []) : xmean (l.map XQ.val) = .val (l.sum / (l.length : Q)) := by
  have : (l.length : Q) ≠ 0 := natCast_ne_zero (by simpa using h)
  simp [xmean, xsum_vals, xdivX, xdiv_val _ _ this]

/-- the guarded denominator of `_mean_squared_error_compute` is the weight itself once it is at least `eps`. -/
theorem mse_den (sw : Q) (h : eps64 ≤ sw) : qmax (qabs sw) eps64 * sgn sw = sw := by
  unfold qmax qabs sgn
  unfold eps64 at *
  split <;> split <;> (try split) <;> grind

/-! extremum -/
theorem foldl_pick_mem (pick : Q → Q → Q) (hsel : ∀ a b, pick a b = a ∨ pick a b = b) (xs : List Q) (x : Q) :
    xs.foldl pick x ∈ x :: xs := by
  induction xs generalizing x with
  | nil => simp
  | cons y xs ih =>
    simp only [List.foldl_cons]
    have := ih (pick x y)
    rcases List.mem_cons.mp this with h | h
    · rw [h]; rcases hsel x y with e | e <;> rw [e] <;> simp
    · simp [h]

theorem foldl_pick_bound (pick : Q → Q → Q) (le : Q → Q → Prop) (hrefl : ∀ a, le a a)
    (htrans : ∀ a b c, le a b → le b c → le a c)
    (hub : ∀ a b, le a (pick a b) ∧ le b (pick a b)) (xs : List Q) (x : Q) :
    ∀ z ∈ x :: xs, le z (xs.foldl pick x) := by
  induction xs generalizing x with
  | nil => intro z hz; simp at hz; subst hz; exact hrefl _
  | cons y xs ih =>
    intro z hz
    simp only [List.foldl_cons]
    have hb := ih (pick x y)
    rcases List.mem_cons.mp hz with rfl | hz
    · exact htrans _ _ _ (hub z y).1 (hb _ (List.mem_cons_self ..))
    · rcases List.mem_cons.mp hz with rfl | hz
      · exact htrans _ _ _ (hub x z).2 (hb _ (List.mem_cons_self ..))
      · exact hb z (List.mem_cons_of_mem _ hz)

theorem qmax_sel (a b : Q) : qmax a b = a ∨ qmax a b = b := by unfold qmax; split <;> simp
theorem qmin_sel (a b : Q) : qmin a b = a ∨ qmin a b = b := by unfold qmin; split <;> simp
theorem qmax_ub (a b : Q) : a ≤ qmax a b ∧ b ≤ qmax a b := by unfold qmax; split <;> grind
theorem qmin_lb (a b : Q) : qmin a b ≤ a ∧ qmin a b ≤ b := by unfold qmin; split <;> grind

theorem reduce_max (xs : List Q) (m : Q) (h : reduceBy qmax xs = some m) : Spec.Agg.IsMax xs m := by
  cases xs with
  | nil => simp [reduceBy] at h
  | cons x xs =>
    simp only [reduceBy, Option.some.injEq] at h
    subst h
    exact ⟨foldl_pick_mem qmax qmax_sel xs x,
      foldl_pick_bound qmax (· ≤ ·) (fun _ => Rat.le_refl) (fun _ _ _ => Rat.le_trans) qmax_ub xs x⟩

theorem reduce_min (xs : List Q) (m : Q) (h : reduceBy qmin xs = some m) : Spec.Agg.IsMin xs m := by
  cases xs with
  | nil => simp [reduceBy] at h
  | cons x xs =>
    simp only [reduceBy, Option.some.injEq] at h
    subst h
    exact ⟨foldl_pick_mem qmin qmin_sel xs x,
      foldl_pick_bound qmin (fun a b => b ≤ a) (fun _ => Rat.le_refl) (fun _ _ _ h₁ h₂ => Rat.le_trans h₂ h₁) qmin_lb xs x⟩

/-- the maximum is unique. -/
theorem isMax_unique {l : List Q} {a b : Q} (ha : Spec.Agg.IsMax l a) (hb : Spec.Agg.IsMax l b) : a = b :=
  Rat.le_antisymm (hb.2 a ha.1) (ha.2 b hb.1)
theorem isMin_unique {l : List Q} {a b : Q} (ha : Spec.Agg.IsMin l a) (hb : Spec.Agg.IsMin l b) : a = b :=
  Rat.le_antisymm (ha.2 b hb.1) (hb.2 a ha.1)

theorem isMax_append {l₁ l₂ : List Q} {a b : Q} (ha : Spec.Agg.IsMax l₁ a) (hb : Spec.Agg.IsMax l₂ b) :
    Spec.Agg.IsMax (l₁ ++ l₂) (qmax a b) := by
  refine ⟨?_, ?_⟩
  · rcases qmax_sel a b with e | e <;> rw [e] <;> simp [ha.1, hb.1]
  · intro x hx
    rcases List.mem_append.mp hx with h | h
    · exact Rat.le_trans (ha.2 x h) (qmax_ub a b).1
    · exact Rat.le_trans (hb.2 x h) (qmax_ub a b).2

theorem isMin_append {l₁ l₂ : List Q} {a b : Q} (ha : Spec.Agg.IsMin l₁ a) (hb : Spec.Agg.IsMin l₂ b) :
    Spec.Agg.IsMin (l₁ ++ l₂) (qmin a b) := by
  refine ⟨?_, ?_⟩
  · rcases qmin_sel a b with e | e <;> rw [e] <;> simp [ha.1, hb.1]
  · intro x hx
    rcases List.mem_append.mp hx with h | h
    · exact Rat.le_trans (qmin_lb a b).1 (ha.2 x h)
    · exact Rat.le_trans (qmin_lb a b).2 (hb.2 x h)



/-! ### MSE -/
theorem sseCol_weighted (ws xs ts : List Q) :
    sseCol (some ws) xs ts = Spec.Agg.wsum ws (List.zipWith (fun x t => (t - x) * (t - x)) xs ts) := by
  simp [sseCol, Spec.Agg.wsum, zipWith_mul_comm ws]

theorem mseRaw_eq (sse : List Q) (sw : Q) (h : eps64 ≤ sw) :
    mseRaw sse sw = (sse.map (· / sw)).map XQ.val := by
  have h0 : sw ≠ 0 := by
    intro h0; rw [h0] at h; unfold eps64 at h; grind
  simp [mseRaw, mse_den sw h, xdiv_val _ _ h0, Function.comp_def]

theorem eps64_le_natCast {n : Nat} (h : n ≠ 0) : eps64 ≤ (n : Q) := by
  have : (1 : Q) ≤ (n : Q) := by
    have : 1 ≤ n := Nat.pos_of_ne_zero h
    exact_mod_cast this
  unfold eps64; grind

/-! ### R² -/
theorem tss_eq_scatter (ys : List Q) : Spec.Agg.tss ys = Spec.Agg.scatter ys ys := by
  simp [Spec.Agg.tss, Spec.Agg.scatter, List.zipWith_self]

/-- **`Σy² − (Σy)²/n = Σ(y−ȳ)²`** -/
theorem tss_raw (ys : List Q) (h : ys ≠ []) :
    (ys.map fun y => y * y).sum - ys.sum * ys.sum / (ys.length : Q) = Spec.Agg.tss ys := by
  rw [tss_eq_scatter, scatter_raw ys ys rfl (by simpa using h), List.zipWith_self]

theorem xsub_one_div (r t : Q) (ht : t ≠ 0) : xsub (.val 1) (xdiv r t) = .val (1 - r / t) := by
  simp [xsub, xdiv_val _ _ ht, xneg, xadd]; grind

theorem r2_raw_list (n : Nat) (hn : n ≠ 0) : ∀ (xc tc : Mat), (∀ t ∈ tc, t.length = n ∧ Spec.Agg.tss t ≠ 0) →
    r2Raw (r2Update xc tc).2.2 (r2Tss (r2Update xc tc).1 (r2Update xc tc).2.1 (n : Q))
      = (List.zipWith Spec.Agg.r2 xc tc).map XQ.val
  | [], _, _ => by simp [r2Update, r2Raw]
  | _ :: _, [], _ => by simp [r2Update, r2Raw, r2Tss]
  | x :: xc, t :: tc, h => by
    have ih := r2_raw_list n hn xc tc (fun t' ht' => h t' (List.mem_cons_of_mem _ ht'))
    have ht := h t (List.mem_cons_self ..)
    have hne : t ≠ [] := by intro e; rw [e] at ht; exact hn ht.1.symm
    simp only [r2Update, r2Raw, r2Tss, List.map_cons, List.zipWith_cons_cons] at ih ⊢
    rw [ih]
    have := tss_raw t hne
    rw [ht.1] at this
    rw [this, xsub_one_div _ _ ht.2]
    rfl

theorem tss_list (n : Nat) (hn : n ≠ 0) (xc tc : Mat) (h : ∀ t ∈ tc, t.length = n) :
    r2Tss (r2Update xc tc).1 (r2Update xc tc).2.1 (n : Q) = tc.map Spec.Agg.tss := by
  simp only [r2Update, r2Tss, zipWith_map_same]
  apply List.map_congr_left; intro t ht
  have hne : t ≠ [] := by intro e; have := h t ht; rw [e] at this; exact hn this.symm
  have := tss_raw t hne
  rw [h t ht] at this
  exact this

theorem zipWith_zipWith_map {α β γ δ ε : Type} (f : γ → δ → ε) (g : α → β → γ) (k : β → δ) :
    ∀ (a : List α) (b : List β), List.zipWith f (List.zipWith g a b) (b.map k) = List.zipWith (fun x y => f (g x y) (k y)) a b
  | [], _ => by simp
  | _ :: _, [] => by simp
  | x :: a, y :: b => by simp [zipWith_zipWith_map f g k a b]

theorem r2Adjust_val (n : Q) (p : Nat) (r : Q) (h : n - (p : Q) - 1 ≠ 0) :
    r2Adjust n p (.val r) = .val (Spec.Agg.r2adj n p r) := by
  simp [r2Adjust, xsub, xneg, xadd, xmul, xdivX, xdiv_val _ _ h, Spec.Agg.r2adj]; grind

theorem xsum_weighted_vals (l t : List Q) (T : Q) (hT : T ≠ 0) :
    xsum (List.zipWith (fun ri ti => xdivX (xmul ri (.val ti)) (.val T)) (l.map XQ.val) t)
      = .val ((List.zipWith (· * ·) l t).sum / T) := by
  have : List.zipWith (fun ri ti => xdivX (xmul ri (.val ti)) (.val T)) (l.map XQ.val) t
      = ((List.zipWith (· * ·) l t).map (· / T)).map XQ.val := by
    rw [List.zipWith_map_left, List.map_map, List.map_zipWith]
    congr 1
    funext a b
    simp [xmul, xdivX, xdiv_val _ _ hT]
  rw [this, xsum_vals, sum_map_div]



/-! ### entropy / perplexity helpers -/
theorem sum_map_neg (l : List Q) : (l.map fun a => -a).sum = -l.sum := by
  induction l with
  | nil => simp
  | cons a l ih => simp [ih]; grind

theorem qmax_of_le (a b : Q) (h : b ≤ a) : qmax a b = a := by
  unfold qmax; split
  · rename_i h'; exact absurd h (Rat.not_le.mpr h')
  · rfl

theorem bce_sum (ln exp : Q → Q) (fl : Bool) : ∀ (xs ts ws : List Q),
    (fl = false → ∀ p ∈ xs.zip ts, -100 ≤ ln p.1 ∧ -100 ≤ ln (1 - p.1)) →
    (List.zipWith (fun (p : Q × Q) wi => if fl then bceLogit ln exp p.1 p.2 wi else bceProb ln p.1 p.2 wi) (xs.zip ts) ws).sum
      = Spec.Agg.wsum ws (if fl then List.zipWith (Spec.Agg.ceLogit ln exp) xs ts else List.zipWith (Spec.Agg.ce ln) xs ts)
  | [], _, _, _ => by cases fl <;> simp [wsum]
  | _ :: _, [], _, _ => by cases fl <;> simp [wsum]
  | _ :: _, _ :: _, [], _ => by cases fl <;> simp [wsum]
  | x :: xs, t :: ts, w :: ws, h => by
    have ih := bce_sum ln exp fl xs ts ws (fun hf p hp => h hf p (by simp [hp]))
    cases fl with
    | true =>
      simp only [if_true, wsum, List.zip_cons_cons, List.zipWith_cons_cons, List.sum_cons] at ih ⊢
      rw [ih]; simp [bceLogit, Spec.Agg.ceLogit]
    | false =>
      have hc := h rfl (x, t) (by simp)
      simp only [Bool.false_eq_true, if_false, wsum, List.zip_cons_cons, List.zipWith_cons_cons, List.sum_cons] at ih ⊢
      rw [ih]
      simp only [bceProb, Spec.Agg.ce, qmax_of_le _ _ hc.1, qmax_of_le _ _ hc.2]
      grind

theorem baseline_eq (ln : Q → Q) (pos ex : Q) :
    bneBaseline ln pos ex = Spec.Agg.H ln (clampQ eps64 (1 - eps64) (pos / ex)) := by
  simp only [bneBaseline, Spec.Agg.H]; grind



/-! ### PSNR / FAD helpers -/
theorem psnrArg_val (s n r : Q) (hn : n ≠ 0) (hs : s ≠ 0) :
    psnrArg s n (.val r) = .val (r * r / (s / n)) := by
  have : s / n ≠ 0 := by grind
  simp [psnrArg, xmul, xdivX, xdiv_val _ _ hn, xdiv_val _ _ this]

theorem fadBatch_append (d : Nat) (A B : Mat) : fadAdd (fadBatch d A) (fadBatch d B) = fadBatch d (A ++ B) := by
  simp only [fadAdd, fadBatch, zipWith_map_same]
  refine congr (congr (congrArg FadS.mk (by simp)) ?_) ?_
  · apply List.map_congr_left; intro j _
    simp [col_append]
  · apply List.map_congr_left; intro i _
    apply List.map_congr_left; intro j _
    rw [col_append, col_append, sum_zipWith_append _ _ _ _ _ (by simp [col_length])]


end TE.AggL
