/-
  TE.Lemmas.MetaScale — C17 (b): invariance of the weighted metrics under multiplication of
  all weights by a constant.  Core Lean only.

  For every weighted metric: the textbook definition (`TE/Spec`) is homogeneous of degree 0 in
  the weights (`c ≠ 0`, ratio theorems carry their non-zero guard), and the executable model
  (`TE/Model`, the code's algorithm) returns the same outcome on scaled weights for `c > 0`,
  *including* its rejections and torch's `x/0` conventions (`nan`, `±inf` keep their sign only
  for a positive factor).  Two places where the code is NOT exactly homogeneous are recorded by
  decided witnesses: the `eps` clamp of `mean_squared_error` (`mse_scale_clamp_witness`) and the
  `+ eps` in the denominator of `click_through_rate` (`ctr_scale_eps_witness`).
-/
import TE.Lemmas.MetaBasic
import TE.Props.C05
import TE.Props.C07
import TE.Props.C08
namespace TE.MetaL
open TE

/-! ### list helpers -/

/-- a weight-linear summand: scaling the weights scales the sum (any lengths, truncating zip). -/
theorem sum_zipWith_scale_right {α : Type} (c : Q) (g : α → Q → Q) (hg : ∀ a w, g a (c * w) = c * g a w) :
    ∀ (l : List α) (ws : List Q),
      (List.zipWith g l (ws.map (c * ·))).sum = c * (List.zipWith g l ws).sum
  | [], _ => by simp [Rat.mul_zero]
  | _ :: _, [] => by simp [Rat.mul_zero]
  | a :: l, w :: ws => by
    have ih := sum_zipWith_scale_right c g hg l ws
    simp only [List.map_cons, List.zipWith_cons_cons, List.sum_cons, ih, hg]; grind

theorem sum_zipWith_scale_left {α : Type} (c : Q) (g : Q → α → Q) (hg : ∀ w a, g (c * w) a = c * g w a) :
    ∀ (ws : List Q) (l : List α),
      (List.zipWith g (ws.map (c * ·)) l).sum = c * (List.zipWith g ws l).sum
  | [], _ => by simp [Rat.mul_zero]
  | _ :: _, [] => by simp [Rat.mul_zero]
  | w :: ws, a :: l => by
    have ih := sum_zipWith_scale_left c g hg ws l
    simp only [List.map_cons, List.zipWith_cons_cons, List.sum_cons, ih, hg]; grind

theorem sum_zip_scale_right (c : Q) (xs ws : List Q) :
    ((xs.zip (ws.map (c * ·))).map fun p => p.1 * p.2).sum = c * ((xs.zip ws).map fun p => p.1 * p.2).sum := by
  have := sum_zipWith_scale_right c (fun (a w : Q) => a * w) (by intro a w; grind) xs ws
  simpa [List.zip, List.map_zipWith] using this

theorem sum_zip_scale_left (c : Q) (ws xs : List Q) :
    (((ws.map (c * ·)).zip xs).map fun p => p.1 * p.2).sum = c * ((ws.zip xs).map fun p => p.1 * p.2).sum := by
  have := sum_zipWith_scale_left c (fun (w a : Q) => w * a) (by intro a w; grind) ws xs
  simpa [List.zip, List.map_zipWith] using this

theorem wsum_scale (c : Q) (ws xs : List Q) :
    Spec.Agg.wsum (ws.map (c * ·)) xs = c * Spec.Agg.wsum ws xs :=
  sum_zipWith_scale_left c (fun (w a : Q) => w * a) (by intro a w; grind) ws xs

/-! ## (1) Mean -/

theorem wmean_scale (c : Q) (hc : c ≠ 0) (ws xs : List Q) (hw : ws.sum ≠ 0) :
    Spec.Agg.wmean (ws.map (c * ·)) xs = Spec.Agg.wmean ws xs := by
  have _ := hw
  simp only [Spec.Agg.wmean, wsum_scale, sum_map_scale, div_scale _ _ _ hc]

example : (2 : Q) ≠ 0 ∧ ([1, 2, 3] : List Q).sum ≠ 0 ∧
    Spec.Agg.wmean (([1, 2, 3] : List Q).map (2 * ·)) [1, 2, 3] = 7 / 3 := by decide +kernel

/-- model, including the zero-total-weight branch (`nan`/`±inf`) and the size-mismatch rejection. -/
theorem meanFn_scale (c : Q) (hc : 0 < c) (xs ws : List Q) :
    Agg.meanFn xs (.tensor (ws.map (c * ·))) = Agg.meanFn xs (.tensor ws) := by
  have h1 := sum_zipWith_scale_left c (fun (w a : Q) => w * a) (by intro a w; grind) ws xs
  by_cases h : ws.length = xs.length
  · simp [Agg.meanFn, Agg.meanUpdate, h, bind, Except.bind, pure, Except.pure, h1, sum_map_scale,
      xdiv_scale _ _ _ hc]
  · simp [Agg.meanFn, Agg.meanUpdate, h, bind, Except.bind]

example : (Agg.meanFn [1, 2, 4] (.tensor (([1, -2, 1] : List Q).map (3 * ·)))).toOption = some .pinf ∧
    (Agg.meanFn [1, 2, 3] (.tensor (([1, 2, 3] : List Q).map (3 * ·)))).toOption = some (.val (7 / 3)) ∧
    (Agg.meanFn [1, 2, 3] (.tensor (([1, 2] : List Q).map (3 * ·)))).toOption = none := by decide +kernel

theorem meanFn_scalar_scale (c : Q) (hc : 0 < c) (xs : List Q) (w : Q) :
    Agg.meanFn xs (.scalar (c * w)) = Agg.meanFn xs (.scalar w) := by
  simp only [Agg.meanFn, Agg.meanUpdate, bind, Except.bind, pure, Except.pure, Rat.mul_assoc,
    xdiv_scale _ _ _ hc]

example : (Agg.meanFn [1, 2, 3] (.scalar (3 * 2))).toOption = some (.val 2) := by decide +kernel

/-- class `Mean.compute` on the accumulated `(Σ wx, Σ w)`. -/
theorem meanCompute_scale (c : Q) (hc : c ≠ 0) (s t : Q) :
    Agg.meanCompute (c * s) (c * t) = Agg.meanCompute s t := by
  simp only [Agg.meanCompute, mul_eq_zero_iff c t hc, div_scale _ _ _ hc]

example : Agg.meanCompute (2 * 14) (2 * 6) = 7 / 3 ∧ Agg.meanCompute (2 * 14) (2 * 0) = 0 := by decide +kernel

/-! ## (2) weighted MSE -/

theorem wmse_scale (c : Q) (hc : c ≠ 0) (ws xs ts : List Q) (hw : ws.sum ≠ 0) :
    Spec.Agg.wmse (ws.map (c * ·)) xs ts = Spec.Agg.wmse ws xs ts := by
  have _ := hw
  simp only [Spec.Agg.wmse, wsum_scale, sum_map_scale, div_scale _ _ _ hc]

example : (2 : Q) ≠ 0 ∧ ([1, 2, 3] : List Q).sum ≠ 0 ∧
    Spec.Agg.wmse (([1, 2, 3] : List Q).map (2 * ·)) [0, 1, 2] [0, 3, 2] = 4 / 3 := by decide +kernel

theorem sseCol_scale (c : Q) (ws xs ts : List Q) :
    Agg.sseCol (some (ws.map (c * ·))) xs ts = c * Agg.sseCol (some ws) xs ts := by
  simp only [AggL.sseCol_weighted, wsum_scale]

theorem mseUpdate_scale (c : Q) (ws : List Q) (xc tc : Mat) (n : Nat) :
    Agg.mseUpdate (some (ws.map (c * ·))) xc tc n
      = (((Agg.mseUpdate (some ws) xc tc n).1).map (c * ·), c * (Agg.mseUpdate (some ws) xc tc n).2) := by
  simp only [Agg.mseUpdate, sum_map_scale, List.map_zipWith, Prod.mk.injEq, and_true]
  congr 1
  funext x t
  exact sseCol_scale c ws x t

theorem mse_scale (c : Q) (hc : 0 < c) (u : Bool) (ws : List Q) (xc tc : Mat) (n : Nat)
    (hw : Agg.eps64 ≤ ws.sum) (hw' : Agg.eps64 ≤ c * ws.sum) :
    Agg.mseCompute u (Agg.mseUpdate (some (ws.map (c * ·))) xc tc n).1 (Agg.mseUpdate (some (ws.map (c * ·))) xc tc n).2
      = Agg.mseCompute u (Agg.mseUpdate (some ws) xc tc n).1 (Agg.mseUpdate (some ws) xc tc n).2 := by
  have hc' : c ≠ 0 := by grind
  have hsw : (Agg.mseUpdate (some ws) xc tc n).2 = ws.sum := rfl
  have key : Agg.mseRaw (Agg.mseUpdate (some (ws.map (c * ·))) xc tc n).1 (Agg.mseUpdate (some (ws.map (c * ·))) xc tc n).2
      = Agg.mseRaw (Agg.mseUpdate (some ws) xc tc n).1 (Agg.mseUpdate (some ws) xc tc n).2 := by
    rw [mseUpdate_scale, hsw, AggL.mseRaw_eq _ _ hw, AggL.mseRaw_eq _ _ hw']
    simp only [List.map_map, Function.comp_def, div_scale _ _ _ hc']
  simp only [Agg.mseCompute, key]

example : (0 : Q) < 1 / 2 ∧ Agg.eps64 ≤ ([1, 2, 3] : List Q).sum ∧ Agg.eps64 ≤ 1 / 2 * ([1, 2, 3] : List Q).sum ∧
    Agg.mseCompute false (Agg.mseUpdate (some (([1, 2, 3] : List Q).map (1 / 2 * ·))) [[1, 1, 1], [0, 1, 2]] [[0, 0, 0], [0, 3, 2]] 3).1
      (Agg.mseUpdate (some (([1, 2, 3] : List Q).map (1 / 2 * ·))) [[1, 1, 1], [0, 1, 2]] [[0, 0, 0], [0, 3, 2]] 3).2
      = [.val 1, .val (4 / 3)] := by decide +kernel

/-- below `eps` the documented clamp `sum_weight.abs().clamp(min=eps)` breaks homogeneity:
    weights `[1]` scaled by `c = eps/2` give `1/2` instead of `1`.  (Without the hypotheses
    `eps ≤ Σw`, `eps ≤ c·Σw` the statement `mse_scale` is false.) -/
theorem mse_scale_clamp_witness :
    let c : Q := Agg.eps64 / 2
    0 < c ∧ Agg.eps64 ≤ ([1] : List Q).sum ∧ ¬ Agg.eps64 ≤ c * ([1] : List Q).sum ∧
    Agg.mseRaw (Agg.mseUpdate (some ([1] : List Q)) [[0]] [[1]] 1).1 (Agg.mseUpdate (some ([1] : List Q)) [[0]] [[1]] 1).2
      = [.val 1] ∧
    Agg.mseRaw (Agg.mseUpdate (some (([1] : List Q).map (c * ·))) [[0]] [[1]] 1).1
        (Agg.mseUpdate (some (([1] : List Q).map (c * ·))) [[0]] [[1]] 1).2
      = [.val (1 / 2)] ∧
    Agg.mseRaw (Agg.mseUpdate (some (([1] : List Q).map (c * ·))) [[0]] [[1]] 1).1
        (Agg.mseUpdate (some (([1] : List Q).map (c * ·))) [[0]] [[1]] 1).2
      ≠ Agg.mseRaw (Agg.mseUpdate (some ([1] : List Q)) [[0]] [[1]] 1).1 (Agg.mseUpdate (some ([1] : List Q)) [[0]] [[1]] 1).2 := by
  decide +kernel

/-! ## (3) binary normalized entropy -/

theorem bceProb_scale (ln : Q → Q) (x t w c : Q) : Agg.bceProb ln x t (c * w) = c * Agg.bceProb ln x t w := by
  simp only [Agg.bceProb]; grind

theorem bceLogit_scale (ln exp : Q → Q) (x t w c : Q) :
    Agg.bceLogit ln exp x t (c * w) = c * Agg.bceLogit ln exp x t w := by
  simp only [Agg.bceLogit]; grind

theorem bneBaseline_scale (ln : Q → Q) (c : Q) (hc : c ≠ 0) (pos ex : Q) :
    Agg.bneBaseline ln (c * pos) (c * ex) = Agg.bneBaseline ln pos ex := by
  simp only [Agg.bneBaseline, div_scale _ _ _ hc]

theorem bneCompute_scale (ln : Q → Q) (c : Q) (hc : c ≠ 0) (ce pos ex : Q) :
    Agg.bneCompute ln (c * ce) (c * pos) (c * ex) = Agg.bneCompute ln ce pos ex := by
  simp only [Agg.bneCompute, mul_eq_zero_iff c ex hc, div_scale _ _ _ hc, bneBaseline_scale ln c hc]

/-- arbitrary `ln exp : Q → Q`, both `from_logits` values, `c ≠ 0`: the three accumulated
    quantities are homogeneous of degree one, the result of degree zero (including the `nan`
    of zero total weight and torch's division conventions for a zero baseline entropy). -/
theorem bne_scale (ln exp : Q → Q) (fl : Bool) (xs ts ws : List Q) (c : Q) (hc : c ≠ 0) :
    let u := Agg.bneUpdate ln exp fl xs ts (some ws)
    let u' := Agg.bneUpdate ln exp fl xs ts (some (ws.map (c * ·)))
    u' = (c * u.1, c * u.2.1, c * u.2.2) ∧
    Agg.bneCompute ln u'.1 u'.2.1 u'.2.2 = Agg.bneCompute ln u.1 u.2.1 u.2.2 := by
  intro u u'
  have hu : u' = (c * u.1, c * u.2.1, c * u.2.2) := by
    simp only [u, u', Agg.bneUpdate, sum_map_scale, Prod.mk.injEq, and_true]
    refine ⟨?_, ?_⟩
    · apply sum_zipWith_scale_right
      intro a w
      cases fl
      · simp only [Bool.false_eq_true, if_false, bceProb_scale]
      · simp only [if_true, bceLogit_scale]
    · exact sum_zipWith_scale_left c (fun (w a : Q) => w * a) (by intro a w; grind) ws ts
  refine ⟨hu, ?_⟩
  rw [hu]
  exact bneCompute_scale ln c hc _ _ _

example : (3 : Q) ≠ 0 ∧
    Agg.bneUpdate (fun q => q - 1) (fun q => q) false [1/4, 1/2] [0, 1] (some (([1, 2] : List Q).map (3 * ·)))
      = (3 * (Agg.bneUpdate (fun q => q - 1) (fun q => q) false [1/4, 1/2] [0, 1] (some [1, 2])).1, 3 * 2, 3 * 3) ∧
    (Agg.bneUpdate (fun q => q - 1) (fun q => q) false [1/4, 1/2] [0, 1] (some [1, 2])).1 ≠ 0 := by decide +kernel

/-! ## (4) weighted AUROC -/

/-- multiply the weight of a sample by `c`. -/
def scaleW (c : Q) (x : Spec.Curve.Sample) : Spec.Curve.Sample := ⟨x.s, x.t, c * x.w⟩

theorem wPos_scale (c : Q) (l : List Spec.Curve.Sample) :
    Spec.Curve.wPos (l.map (scaleW c)) = c * Spec.Curve.wPos l := by
  have : Spec.Curve.isPos ∘ scaleW c = Spec.Curve.isPos := rfl
  simp only [Spec.Curve.wPos, List.filter_map, this, List.map_map]
  exact sum_map_scale' c _ _

theorem wNeg_scale (c : Q) (l : List Spec.Curve.Sample) :
    Spec.Curve.wNeg (l.map (scaleW c)) = c * Spec.Curve.wNeg l := by
  have : Spec.Curve.isNeg ∘ scaleW c = Spec.Curve.isNeg := rfl
  simp only [Spec.Curve.wNeg, List.filter_map, this, List.map_map]
  exact sum_map_scale' c _ _

theorem aurocNum_scale (c : Q) (l : List Spec.Curve.Sample) :
    Spec.Curve.aurocNum (l.map (scaleW c)) = c * c * Spec.Curve.aurocNum l := by
  have hp : Spec.Curve.isPos ∘ scaleW c = Spec.Curve.isPos := rfl
  have hn : Spec.Curve.isNeg ∘ scaleW c = Spec.Curve.isNeg := rfl
  simp only [Spec.Curve.aurocNum, List.filter_map, hp, hn, List.map_map, Function.comp_def, scaleW]
  have inner : ∀ i : Spec.Curve.Sample,
      ((l.filter Spec.Curve.isNeg).map fun j => c * i.w * (c * j.w) * Spec.Curve.kernel i.s j.s).sum
        = c * c * ((l.filter Spec.Curve.isNeg).map fun j => i.w * j.w * Spec.Curve.kernel i.s j.s).sum := by
    intro i
    rw [← sum_map_scale' (c * c)]
    congr 1
    apply List.map_congr_left; intro j _; grind
  simp only [inner]
  exact sum_map_scale' (c * c) _ _

/-- `c ≠ 0` suffices: numerator and denominator both scale by `c²`; the degenerate value `1/2`
    (one class without weight) is kept. -/
theorem aurocSpec_scale (c : Q) (hc : c ≠ 0) (l : List Spec.Curve.Sample) :
    Spec.Curve.auroc (l.map (scaleW c)) = Spec.Curve.auroc l := by
  have hcc : c * c ≠ 0 := fun h => hc ((mul_eq_zero_iff c c hc).mp h)
  have hd : c * Spec.Curve.wPos l * (c * Spec.Curve.wNeg l) = c * c * (Spec.Curve.wPos l * Spec.Curve.wNeg l) := by
    grind
  simp only [Spec.Curve.auroc, wPos_scale, wNeg_scale, aurocNum_scale, hd, mul_eq_zero_iff _ _ hcc,
    div_scale _ _ _ hcc]

example : (-3 : Q) ≠ 0 ∧
    Spec.Curve.auroc ((Spec.Curve.samples [1/2, 1/2, 1/4, 3/4] [1, 0, 1, 0] [1, 2, 1, 2]).map (scaleW (-3))) = 1 / 8 := by
  decide +kernel

theorem samples_scale (c : Q) (xs ts ws : List Q) :
    Spec.Curve.samples xs ts (ws.map (c * ·)) = (Spec.Curve.samples xs ts ws).map (scaleW c) := by
  simp only [Spec.Curve.samples, List.zip_map_right, List.map_map]
  rfl

theorem binaryAuroc_scale (c : Q) (hc : c ≠ 0) (xs ts ws : List Q)
    (hne : Spec.Curve.samples xs ts ws ≠ []) (hlab : ∀ x ∈ Spec.Curve.samples xs ts ws, x.t = 0 ∨ x.t = 1) :
    Curve.binaryAuroc xs ts (ws.map (c * ·)) = Curve.binaryAuroc xs ts ws := by
  have hne' : Spec.Curve.samples xs ts (ws.map (c * ·)) ≠ [] := by
    rw [samples_scale]; simpa using hne
  have hlab' : ∀ x ∈ Spec.Curve.samples xs ts (ws.map (c * ·)), x.t = 0 ∨ x.t = 1 := by
    rw [samples_scale]
    intro x hx
    obtain ⟨y, hy, rfl⟩ := List.mem_map.mp hx
    exact hlab y hy
  rw [C05.auroc_model_eq_spec _ _ _ hne' hlab', C05.auroc_model_eq_spec _ _ _ hne hlab, samples_scale,
    aurocSpec_scale c hc]

example : Spec.Curve.samples [1/2, 1/2, 1/4, 3/4] [1, 0, 1, 0] [1, 2, 1, 2] ≠ [] ∧
    (∀ x ∈ Spec.Curve.samples [1/2, 1/2, 1/4, 3/4] [1, 0, 1, 0] [1, 2, 1, 2], x.t = 0 ∨ x.t = 1) := by
  decide +kernel

/-! ## (5) Wasserstein-1D -/

theorem cdf_scale (c : Q) (hc : c ≠ 0) (pts : List (Q × Q)) (v : Q) :
    Spec.Agg.cdf (pts.map fun p => (p.1, c * p.2)) v = Spec.Agg.cdf pts v := by
  simp only [Spec.Agg.cdf, List.filter_map, List.map_map, Function.comp_def]
  rw [sum_map_scale' c, sum_map_scale' c, div_scale _ _ _ hc]

example : (3 : Q) ≠ 0 ∧ Spec.Agg.cdf (([(1, 1), (2, 2), (3, 1)] : List (Q × Q)).map fun p => (p.1, 3 * p.2)) 2 = 3 / 4 := by
  decide +kernel

/-- `w1On` sees the two distributions only through their CDFs. -/
theorem w1On_congr (px py px' py' : List (Q × Q)) (hx : Spec.Agg.cdf px' = Spec.Agg.cdf px)
    (hy : Spec.Agg.cdf py' = Spec.Agg.cdf py) (l : List Q) :
    Spec.Agg.w1On px' py' l = Spec.Agg.w1On px py l :=
  (AggL.w1_sum (Spec.Agg.cdf px) (Spec.Agg.cdf py) px' py' hx.symm hy.symm l).symm.trans
    (AggL.w1_sum (Spec.Agg.cdf px) (Spec.Agg.cdf py) px py rfl rfl l)

/-- each distribution normalises by its own total weight: each weight vector may be scaled by
    its own non-zero constant. -/
theorem w1_scale (c d : Q) (hc : c ≠ 0) (hd : d ≠ 0) (px py : List (Q × Q)) :
    Spec.Agg.w1 (px.map fun p => (p.1, c * p.2)) (py.map fun p => (p.1, d * p.2)) = Spec.Agg.w1 px py := by
  simp only [Spec.Agg.w1, List.map_map, Function.comp_def]
  exact w1On_congr _ _ _ _ (funext (cdf_scale c hc px)) (funext (cdf_scale d hd py)) _

example : (3 : Q) ≠ 0 ∧ (1 / 2 : Q) ≠ 0 ∧
    Spec.Agg.w1 ((([1, 2, 3] : List Q).zip [1, 2, 1]).map fun p => (p.1, 3 * p.2))
      ((([1, 5] : List Q).zip [1, 3]).map fun p => (p.1, 1 / 2 * p.2)) = 2 := by decide +kernel

theorem weightsOk_scale (c : Q) (hc : 0 < c) (x : List Q) (w : Option (List Q)) :
    Agg.weightsOk x (w.map (·.map (c * ·))) = Agg.weightsOk x w := by
  cases w with
  | none => rfl
  | some ws =>
    simp only [Option.map_some, Agg.weightsOk, List.isEmpty_map, List.all_map, List.length_map, Function.comp_def,
      mul_pos_iff c _ hc]

theorem wCdf_scale (c : Q) (hc : c ≠ 0) (x : List Q) (w : Option (List Q)) (q : List Q)
    (hok : Agg.weightsOk x w = true) :
    Agg.wCdf x (w.map (·.map (c * ·))) q = Agg.wCdf x w q := by
  cases w with
  | none => rfl
  | some ws =>
    have hl : x.length = ws.length := by
      simp [Agg.weightsOk] at hok; exact hok.2.symm
    simp only [Option.map_some]
    rw [AggL.wCdf_weighted x ws q hl, AggL.wCdf_weighted x _ q (by simpa using hl)]
    apply List.map_congr_left; intro v _
    have : x.zip (ws.map (c * ·)) = (x.zip ws).map fun p => (p.1, c * p.2) := by
      rw [List.zip_map_right]; rfl
    rw [this, cdf_scale c hc]

/-- model: unconditional for `c, d > 0` — invalid inputs are rejected identically
    (`weightsOk` of the scaled weights is `weightsOk` of the weights), optional weights. -/
theorem wasserstein_scale (c d : Q) (hc : 0 < c) (hd : 0 < d) (x y : List Q) (xw yw : Option (List Q)) :
    Agg.wasserstein x y (xw.map (·.map (c * ·))) (yw.map (·.map (d * ·))) = Agg.wasserstein x y xw yw := by
  have hc' : c ≠ 0 := by grind
  have hd' : d ≠ 0 := by grind
  unfold Agg.wasserstein
  rw [weightsOk_scale c hc, weightsOk_scale d hd]
  by_cases h1 : (x.isEmpty || y.isEmpty) = true
  · simp only [h1, if_true]
  · by_cases h2 : (!Agg.weightsOk x xw || !Agg.weightsOk y yw) = true
    · simp only [h1, h2, if_true]
    · have hx : Agg.weightsOk x xw = true := by
        cases h : Agg.weightsOk x xw <;> simp_all
      have hy : Agg.weightsOk y yw = true := by
        cases h : Agg.weightsOk y yw <;> simp_all
      simp only [h1, h2, wCdf_scale c hc' x xw _ hx, wCdf_scale d hd' y yw _ hy]

example : (Agg.wasserstein [1, 2, 3] [1, 5] ((some ([1, 2, 1] : List Q)).map (·.map (3 * ·)))
      ((some ([1, 3] : List Q)).map (·.map (1 / 2 * ·)))).toOption = some 2 ∧
    (Agg.wasserstein [1, 2, 3] [1, 5] ((some ([1, 0, 1] : List Q)).map (·.map (3 * ·))) none).toOption = none := by
  decide +kernel

/-! ## (6) click-through rate -/

theorem ctrUpdate_scale (c : Q) (input ws : List Q) :
    Rank.ctrUpdate input (ws.map (c * ·)) = (c * (Rank.ctrUpdate input ws).1, c * (Rank.ctrUpdate input ws).2) := by
  simp only [Rank.ctrUpdate, qsum_eq_sum, sum_zip_scale_right, sum_map_scale]

example : Rank.ctrUpdate [1, 0, 1] (([1, 2, 3] : List Q).map (2 * ·)) = (2 * 4, 2 * 6) := by decide +kernel

theorem ctrSpec_scale (c : Q) (hc : c ≠ 0) (clicks ws : List Q) (hw : ws.sum ≠ 0) :
    Spec.Rank.ctr clicks (ws.map (c * ·)) = Spec.Rank.ctr clicks ws := by
  have _ := hw
  simp only [Spec.Rank.ctr, Spec.Rank.weightedClicks, sum_zip_scale_right, sum_map_scale, div_scale _ _ _ hc]

example : (2 : Q) ≠ 0 ∧ ([1, 2, 3] : List Q).sum ≠ 0 ∧
    Spec.Rank.ctr [1, 0, 1] (([1, 2, 3] : List Q).map (2 * ·)) = 2 / 3 := by decide +kernel

/-- the code divides by `weight_total + eps` (`eps = finfo.tiny`): the run on scaled weights is
    the run on the original weights with `eps / c`. -/
theorem ctrCompute_scale_eps (c : Q) (hc : 0 < c) (eps a b : Q) :
    Rank.ctrCompute eps (c * a) (c * b) = Rank.ctrCompute (eps / c) a b := by
  have : c * b + eps = c * (b + eps / c) := by grind
  simp only [Rank.ctrCompute, this, xdiv_scale _ _ _ hc]

example : Rank.ctrCompute 1 (2 * 4) (2 * 6) = .val (8 / 13) ∧ Rank.ctrCompute (1 / 2) 4 6 = .val (8 / 13) := by
  decide +kernel

/-- exact homogeneity for `eps = 0` (including torch's `x/0` conventions). -/
theorem ctr_scale (c : Q) (hc : 0 < c) (input ws : List Q) :
    Rank.ctrCompute 0 (Rank.ctrUpdate input (ws.map (c * ·))).1 (Rank.ctrUpdate input (ws.map (c * ·))).2
      = Rank.ctrCompute 0 (Rank.ctrUpdate input ws).1 (Rank.ctrUpdate input ws).2 := by
  rw [ctrUpdate_scale, ctrCompute_scale_eps c hc]
  simp [Rat.div_def, Rat.zero_mul]

example : Rank.ctrCompute 0 (Rank.ctrUpdate [1, 0, 1] (([1, 2, 3] : List Q).map (2 * ·))).1
    (Rank.ctrUpdate [1, 0, 1] (([1, 2, 3] : List Q).map (2 * ·))).2 = .val (2 / 3) := by decide +kernel

/-- the `eps` in the denominator is not homogeneous (a float-underflow guard, invisible at
    float precision): with `eps = 1`, `c = 2` the results differ. -/
theorem ctr_scale_eps_witness :
    Rank.ctrCompute 1 (Rank.ctrUpdate [1, 0, 1] (([1, 2, 3] : List Q).map (2 * ·))).1
        (Rank.ctrUpdate [1, 0, 1] (([1, 2, 3] : List Q).map (2 * ·))).2 = .val (8 / 13) ∧
    Rank.ctrCompute 1 (Rank.ctrUpdate [1, 0, 1] [1, 2, 3]).1 (Rank.ctrUpdate [1, 0, 1] [1, 2, 3]).2 = .val (4 / 7) ∧
    Rank.ctrCompute 1 (Rank.ctrUpdate [1, 0, 1] (([1, 2, 3] : List Q).map (2 * ·))).1
        (Rank.ctrUpdate [1, 0, 1] (([1, 2, 3] : List Q).map (2 * ·))).2
      ≠ Rank.ctrCompute 1 (Rank.ctrUpdate [1, 0, 1] [1, 2, 3]).1 (Rank.ctrUpdate [1, 0, 1] [1, 2, 3]).2 := by
  decide +kernel

/-! ## (7) weighted calibration -/

/-- torch division semantics (`nan`, `±inf` for a zero denominator), `c > 0`, unconditional. -/
theorem calibrationSpec_scale (c : Q) (hc : 0 < c) (pred label w : List Q) :
    Spec.Rank.calibration pred label (w.map (c * ·)) = Spec.Rank.calibration pred label w := by
  simp only [Spec.Rank.calibration, sum_zip_scale_left, xdiv_scale _ _ _ hc]

example : Spec.Rank.calibration [1/2, 1/4] [1, 0] (([1, 2] : List Q).map (3 * ·)) = .val 1 ∧
    Spec.Rank.calibration [1/2, 1/4] [0, 0] (([1, 2] : List Q).map (3 * ·)) = .pinf := by decide +kernel

theorem wc_scale (c : Q) (hc : 0 < c) (input target w : List Q) :
    xdiv (Rank.wcUpdate input target (w.map (c * ·))).1 (Rank.wcUpdate input target (w.map (c * ·))).2
      = xdiv (Rank.wcUpdate input target w).1 (Rank.wcUpdate input target w).2 := by
  rw [C08.weighted_calibration_eq, C08.weighted_calibration_eq, calibrationSpec_scale c hc]

example : xdiv (Rank.wcUpdate [1/2, 1/4] [1, 0] (([1, 2] : List Q).map (3 * ·))).1
    (Rank.wcUpdate [1/2, 1/4] [1, 0] (([1, 2] : List Q).map (3 * ·))).2 = .val 1 := by decide +kernel

end TE.MetaL
