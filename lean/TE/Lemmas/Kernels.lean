/-
  TE.Lemmas.Kernels — evaluation lemmas for the tensor-expression language of TE/Model/TExpr.lean.

  The kernels' arguments are tensors of exact rationals; `vecQ`, `matQ`, `scalarQ` embed them.  The lemmas of
  section 1 push the embedding `XQ.val` outwards through every elementwise primitive, so that evaluating a
  generated term on embedded arguments (`tx_eval`) ends in `List`-level expressions over `Q` that can be
  compared with the models of TE/Model/Count.lean (section 2 onwards: one normal-form lemma per model shape).
-/
import TE.Model.TExpr
import TE.Lemmas.Count
import TE.Spec.Count
namespace TE.TXL
open TE TE.TX TE.Count TE.CountL TE.Spec.Count

/-! ## embeddings of exact arguments -/

def vecQ (l : List Q) : Val := .vec (l.map .val)
def matQ (m : List (List Q)) : Val := .mat (m.map fun r => r.map .val)
def scalarQ (q : Q) : Val := .scalar (.val q)
/-- integer-valued tensors (labels, predictions, counts) -/
def vecN (l : List Nat) : Val := vecQ (l.map fun (n : Nat) => (n : Q))

/-- the Python value of an `average` argument -/
def avgVal : Avg → Val
  | .micro => .str "micro" | .macro => .str "macro" | .weighted => .str "weighted" | .none => .none

def critVal : Crit → Val
  | .exact => .str "exact_match" | .hamming => .str "hamming" | .overlap => .str "overlap"
  | .contain => .str "contain" | .belong => .str "belong"

def normVal : Norm → Val
  | .none => .none | .all => .str "all" | .pred => .str "pred" | .true_ => .str "true"

/-! ## 0. the `Except` monad on constructors (stuck binds stay as `>>=`) -/

theorem ok_bind {α β : Type} (a : α) (f : α → Except Err β) : (Except.ok a >>= f) = f a := rfl
theorem error_bind {α β : Type} (e : Err) (f : α → Except Err β) : ((Except.error e : Except Err α) >>= f) = .error e := rfl
theorem pure_eq_ok {α : Type} (a : α) : (pure a : Except Err α) = .ok a := rfl
theorem map_ok {α β : Type} (f : α → β) (a : α) : (Except.ok a : Except Err α).map f = .ok (f a) := rfl
theorem map_error {α β : Type} (f : α → β) (e : Err) : (Except.error e : Except Err α).map f = .error e := rfl

/-- a result that is a value or the `RuntimeError` of an index out of range -/
def OkRt {α : Type} (x : Except Err α) : Prop := (∃ v, x = .ok v) ∨ x = .error .runtime

/-! ## 1. pushing `XQ.val` outwards -/

/-- comparison on exact rationals -/
def qcmp : CmpOp → Q → Q → Bool
  | .lt, a, b => decide (a < b)
  | .gt, a, b => decide (b < a)
  | .le, a, b => decide (a < b) || a == b
  | .ge, a, b => decide (b < a) || a == b
  | .eq, a, b => a == b
  | .ne, a, b => !(a == b)

theorem xcmp_val (op : CmpOp) (a b : Q) : xcmp op (.val a) (.val b) = qcmp op a b := by
  cases op <;> rfl

theorem b2x_eq (b : Bool) : b2x b = .val (b2q b) := by
  cases b <;> rfl

theorem xtruthy_val (q : Q) : xtruthy (.val q) = (q != 0) := rfl

theorem xtruthy_b2q (b : Bool) : xtruthy (.val (b2q b)) = b := by
  cases b <;> decide

theorem xisNan_val (q : Q) : xisNan (.val q) = false := rfl

theorem xadd_val (a b : Q) : xadd (.val a) (.val b) = .val (a + b) := rfl
theorem xsub_val (a b : Q) : xsub (.val a) (.val b) = .val (a - b) := by
  simp [xsub, xneg, xadd, Rat.sub_eq_add_neg]
theorem xmul_val (a b : Q) : xmul (.val a) (.val b) = .val (a * b) := rfl
theorem xdivX_val (a b : Q) : xdivX (.val a) (.val b) = xdiv a b := rfl

theorem xarith_add_val (a b : Q) : xarith .add (.val a) (.val b) = .val (a + b) := rfl
theorem xarith_sub_val (a b : Q) : xarith .sub (.val a) (.val b) = .val (a - b) := xsub_val a b
theorem xarith_mul_val (a b : Q) : xarith .mul (.val a) (.val b) = .val (a * b) := rfl
theorem xarith_div_val (a b : Q) : xarith .div (.val a) (.val b) = xdiv a b := rfl

theorem xarith_mul_eq (a b : XQ) : xarith .mul a b = xmul a b := rfl

theorem xsum_foldl_val (l : List Q) (a : Q) :
    (l.map XQ.val).foldl xadd (.val a) = .val (l.foldl (· + ·) a) := by
  induction l generalizing a with
  | nil => rfl
  | cons x xs ih => simp only [List.map_cons, List.foldl_cons, xadd_val, ih]

theorem xsum_val (l : List Q) : xsum (l.map XQ.val) = .val (qsum l) := xsum_foldl_val l 0

theorem xnat_natCast (n : Nat) : xnat? (.val (n : Q)) = some n := by
  simp [xnat?, Rat.den_natCast, Rat.num_natCast]

theorem xband_natCast (a b : Nat) : xband (.val (a : Q)) (.val (b : Q)) = .val ((Nat.land a b : Nat) : Q) := by
  simp [xband, xnat_natCast]

/-- `torch.where(x < thr, 0, 1)` on an exact score -/
def thrQ (thr x : Q) : Q := ((thresh thr x : Nat) : Q)

theorem where_thr (thr x : Q) :
    (if xtruthy (b2x (xcmp .lt (.val x) (.val thr))) = true then XQ.val ((0 : Int) : Q) else XQ.val ((1 : Int) : Q))
      = .val (thrQ thr x) := by
  simp only [xcmp_val, b2x_eq, xtruthy_b2q, qcmp, thrQ, thresh, decide_eq_true_eq]
  split <;> simp

theorem idxList_natCast (l : List Nat) : idxList ((l.map fun (n : Nat) => (n : Q)).map XQ.val) = .ok l := by
  induction l with
  | nil => rfl
  | cons x xs ih =>
    simp only [idxList, List.map_cons, seqE, xnat_natCast] at ih ⊢
    rw [ih]

theorem xband_thrQ (thr a : Q) (b : Nat) :
    xband (.val (thrQ thr a)) (.val (b : Q)) = .val ((Nat.land (thresh thr a) b : Nat) : Q) := xband_natCast _ _

theorem xlor_b2q (a b : Bool) : xlor (.val (b2q a)) (.val (b2q b)) = .val (b2q (a || b)) := by
  cases a <;> cases b <;> decide
theorem xland_b2q (a b : Bool) : xland (.val (b2q a)) (.val (b2q b)) = .val (b2q (a && b)) := by
  cases a <;> cases b <;> decide
theorem xlnot_b2q (a : Bool) : xlnot (.val (b2q a)) = .val (b2q (!a)) := by
  cases a <;> decide

theorem ite_val (c : Prop) [Decidable c] (a b : Q) :
    (if c then XQ.val a else XQ.val b) = XQ.val (if c then a else b) := by
  split <;> rfl

theorem xsum_zipWith_val {α β : Type} (g : α → β → Q) (l1 : List α) (l2 : List β) :
    xsum (List.zipWith (fun a b => XQ.val (g a b)) l1 l2) = .val (qsum (List.zipWith g l1 l2)) := by
  rw [← xsum_val, List.map_zipWith]

theorem xsum_map_val {α : Type} (g : α → Q) (l : List α) :
    xsum (l.map fun a => XQ.val (g a)) = .val (qsum (l.map g)) := by
  rw [← xsum_val, List.map_map]; rfl

theorem b2q_bne_zero (b : Bool) : (b2q b != 0) = b := by cases b <;> decide

theorem thr_ite (thr a : Q) : (if qcmp .lt a thr = true then (0 : Q) else 1) = thrQ thr a := by
  simp only [qcmp, thrQ, thresh, decide_eq_true_eq]
  split <;> simp

theorem zipWith_zip_map {α β γ : Type} (g : α → β → γ) (l1 : List α) (l2 : List β) :
    List.zipWith g l1 l2 = (l1.zip l2).map fun p => g p.1 p.2 := by
  rw [List.map_zip_eq_zipWith]; rfl

/-! ### equal-length vectors as projections of one list of rows; boolean masks -/

theorem exists_rows2 {α β : Type} (a : List α) (b : List β) (h : a.length = b.length) :
    ∃ R : List (α × β), a = R.map (·.1) ∧ b = R.map (·.2) :=
  ⟨a.zip b, (List.map_fst_zip (by omega)).symm, (List.map_snd_zip (by omega)).symm⟩

theorem exists_rows3 {α β γ : Type} (a : List α) (b : List β) (c : List γ) (h1 : a.length = b.length)
    (h2 : b.length = c.length) :
    ∃ R : List (α × β × γ), a = R.map (·.1) ∧ b = R.map (·.2.1) ∧ c = R.map (·.2.2) := by
  obtain ⟨S, rfl, rfl⟩ := exists_rows2 b c h2
  obtain ⟨R, rfl, hS⟩ := exists_rows2 a S (by simpa using h1)
  refine ⟨R, rfl, ?_, ?_⟩ <;> simp [hS]

theorem sel_same {ρ : Type} (R : List ρ) (F : ρ → XQ) (g : ρ → Bool) :
    (((R.map F).zip (R.map fun r => XQ.val (b2q (g r)))).filter fun p => xtruthy p.2).map (·.1)
      = (R.filter g).map F := by
  induction R with
  | nil => rfl
  | cons r R ih =>
    simp only [List.map_cons, List.zip_cons_cons, List.filter_cons, xtruthy_b2q]
    cases g r <;> simp [ih]

theorem xmean_val {α : Type} (l : List α) (h : α → Q) : xmean (l.map fun a => XQ.val (h a)) = meanX (l.map h) := by
  simp only [xmean, xsum_map_val, xdivX_val, meanX, List.length_map]


theorem map_filter_xdiv {ρ : Type} (R : List ρ) (f g : ρ → Q) (P : ρ → Bool) (hP : ∀ r, P r = true → g r ≠ 0) :
    (R.filter P).map (fun r => xdiv (f r) (g r)) = (R.filter P).map (fun r => XQ.val (f r / g r)) := by
  apply List.map_congr_left
  intro r hr
  have := hP r (List.mem_filter.mp hr).2
  simp [xdiv, this]

theorem qcmp_ne_zero (a : Q) : qcmp .ne a 0 = (a != 0) := rfl


/-! ### COO accumulation -/

theorem idxList_map_nat {α : Type} (l : List α) (f : α → Nat) :
    idxList (l.map fun a => XQ.val ((f a : Nat) : Q)) = .ok (l.map f) := by
  have := idxList_natCast (l.map f)
  simpa only [List.map_map, Function.comp_def] using this

theorem map_modify_comm {α β : Type} (g : α → β) (f : α → α) (f' : β → β) (h : ∀ x, g (f x) = f' (g x))
    (l : List α) (i : Nat) : (l.modify i f).map g = (l.map g).modify i f' := by
  induction l generalizing i with
  | nil => simp
  | cons x xs ih =>
    cases i with
    | zero => simp [h]
    | succ i => simp [ih]

theorem xbump_val (acc : List Q) (i : Nat) (v : Q) :
    xbump (acc.map XQ.val) i (.val v) = (bump acc i v).map XQ.val := by
  unfold xbump bump
  exact (map_modify_comm XQ.val (· + v) (xadd · (.val v)) (fun _ => rfl) acc i).symm

theorem coo_fold (ps : List (Nat × Nat)) (vs : List XQ) (M : Mat) (hv : ∀ v ∈ vs, v = XQ.val 1)
    (hl : ps.length = vs.length) :
    (ps.zip vs).foldl (fun acc p => acc.modify p.1.1 (fun row => xbump row p.1.2 p.2)) (M.map fun r => r.map XQ.val)
      = (ps.foldl (fun m p => m.modify p.1 (fun row => bump row p.2 1)) M).map fun r => r.map XQ.val := by
  induction ps generalizing vs M with
  | nil => simp
  | cons p ps ih =>
    cases vs with
    | nil => simp at hl
    | cons v vs =>
      have hv1 : v = XQ.val 1 := hv v (List.mem_cons_self)
      subst hv1
      simp only [List.zip_cons_cons, List.foldl_cons]
      rw [← map_modify_comm (fun r => r.map XQ.val) (fun row => bump row p.2 1) (fun row => xbump row p.2 (XQ.val 1))
        (fun r => (xbump_val r p.2 1).symm)]
      exact ih vs _ (fun v hv' => hv v (List.mem_cons_of_mem _ hv')) (by simpa using hl)

theorem cooDenseV_nat {α β γ : Type} (rs : List α) (cs : List β) (vs : List γ) (f : α → Nat) (g : β → Nat) (n : Nat)
    (h1 : rs.length = cs.length) (h2 : rs.length = vs.length) :
    cooDenseV (.vec (rs.map fun a => XQ.val ((f a : Nat) : Q))) (.vec (cs.map fun a => XQ.val ((g a : Nat) : Q)))
        (.vec (vs.map fun _ => XQ.val 1)) (.int (n : Int)) (.int (n : Int))
      = (confusionUpdate (cs.map g) (rs.map f) n).map matQ := by
  have h3 : cs.length = vs.length := h1 ▸ h2
  simp only [cooDenseV, sizeOf?, bind, Except.bind, idxList_map_nat, List.length_map, h1, h3, pure, Except.pure,
    Int.toNat_natCast, Int.natCast_nonneg, if_true, confusionUpdate, throw, throwThe, MonadExceptOf.throw,
    ne_eq, not_true_eq_false, or_self, if_false]
  rw [Bool.and_comm]
  by_cases hr : (((List.map g cs).all fun x => decide (x < n)) && (List.map f rs).all fun x => decide (x < n)) = true
  · rw [if_pos hr, if_pos hr]
    simp only [Except.map, matQ, mzero, vzero]
    congr 2
    have := coo_fold ((rs.map f).zip (cs.map g)) (vs.map fun _ => XQ.val 1) (List.replicate n (List.replicate n 0))
      (by simp) (by simp [h1, ← h2])
    simpa using this
  · rw [if_neg hr, if_neg hr]; rfl

/-! ### argmax, scatter -/

theorem seqE_map_ok {α β : Type} (l : List α) (f : α → β) : seqE (l.map fun a => Except.ok (f a)) = .ok (l.map f) := by
  induction l with
  | nil => rfl
  | cons x xs ih => simp only [List.map_cons, seqE, ih]

theorem seqE_congr_ok {α β : Type} (l : List α) (F : α → Except Err β) (f : α → β) (h : ∀ a ∈ l, F a = .ok (f a)) :
    seqE (l.map F) = .ok (l.map f) := by
  rw [← seqE_map_ok]
  congr 1
  exact List.map_congr_left h

theorem xargmaxGo_val (l : List Q) (i best : Nat) (bv : Q) :
    xargmaxGo (l.map XQ.val) i best (.val bv) = argmaxFirst.go l i best bv := by
  induction l generalizing i best bv with
  | nil => rfl
  | cons x xs ih =>
    simp only [List.map_cons, xargmaxGo, argmaxFirst.go, xlt, decide_eq_true_eq]
    split <;> exact ih _ _ _

theorem rowArgmax_val (r : List Q) (h : r ≠ []) :
    rowArgmax (r.map XQ.val) = .ok (.val ((argmaxFirst r : Nat) : Q)) := by
  cases r with
  | nil => exact absurd rfl h
  | cons x xs => simp only [List.map_cons, rowArgmax, argmaxFirst, xargmaxGo_val]

theorem argmax1V_matQ (rows : List (List Q)) (h : ∀ r ∈ rows, r ≠ []) :
    argmax1V (matQ rows) = .ok (vecN (rows.map argmaxFirst)) := by
  simp only [argmax1V, matQ, List.map_map, vecN, vecQ, Function.comp_def]
  rw [seqE_congr_ok rows _ (fun r => XQ.val ((argmaxFirst r : Nat) : Q)) (fun r hr => rowArgmax_val r (h r hr))]
  rfl

theorem xscatterAdd_val (n : Nat) (idx : List Nat) (vals : List Q) :
    xscatterAdd n idx (vals.map XQ.val) = (scatterAdd n idx vals).map fun l => l.map XQ.val := by
  unfold xscatterAdd scatterAdd
  split
  · simp only [Except.map]
    congr 1
    have : ∀ (ps : List (Nat × Q)) (acc : List Q),
        (ps.map fun p => (p.1, XQ.val p.2)).foldl (fun a p => xbump a p.1 p.2) (acc.map XQ.val)
          = (ps.foldl (fun a p => bump a p.1 p.2) acc).map XQ.val := by
      intro ps
      induction ps with
      | nil => intro acc; rfl
      | cons p ps ih => intro acc; simp only [List.map_cons, List.foldl_cons, xbump_val, ih]
    have hz : idx.zip (vals.map XQ.val) = (idx.zip vals).map fun p => (p.1, XQ.val p.2) := by
      rw [show idx = idx.map id from (List.map_id _).symm, List.zip_map]; simp [Prod.map]
    rw [hz]
    have := this (idx.zip vals) (vzero n)
    simpa [vzero] using this
  · rfl

/-- what the multiclass kernels accept as `input`: predicted labels (1-d), or logits (2-d, non-empty rows) whose
    prediction is the first maximal index. -/
inductive IsPred : Val → List Nat → Prop where
  | labels (preds : List Nat) : IsPred (vecN preds) preds
  | logits (rows : List (List Q)) (h : ∀ r ∈ rows, r ≠ []) : IsPred (matQ rows) (rows.map argmaxFirst)

theorem natCast_beq (a b : Nat) : (((a : Nat) : Q) == ((b : Nat) : Q)) = (a == b) := by
  rw [Bool.eq_iff_iff]; simp [Rat.natCast_inj]

theorem qcmp_eq_natCast (a b : Nat) : qcmp .eq (a : Q) (b : Q) = (a == b) := natCast_beq a b
theorem qcmp_ne_natCast (a b : Nat) : qcmp .ne (a : Q) (b : Q) = (a != b) := by
  simp only [qcmp, natCast_beq]; rfl

def prfOut (s : PRF) : Val := .pair (vecQ s.tp) (.pair (vecQ s.a) (vecQ s.b))

theorem scatterAddV_vec {α β : Type} (l : List α) (f : α → Nat) (m : List β) (g : β → Q) (C : Nat)
    (h : l.length ≤ m.length) :
    scatterAddV (.int (C : Int)) (.vec (l.map fun a => XQ.val ((f a : Nat) : Q))) (.vec (m.map fun b => XQ.val (g b)))
      = (scatterAdd C (l.map f) (m.map g)).map vecQ := by
  simp only [scatterAddV, sizeOf?, Int.natCast_nonneg, if_true, Int.toNat_natCast, bind, Except.bind,
    idxList_map_nat, List.length_map, h]
  rw [show (m.map fun b => XQ.val (g b)) = (m.map g).map XQ.val by simp, xscatterAdd_val]
  cases scatterAdd C (l.map f) (m.map g) <;> rfl

theorem scatterAddV_ones {α : Type} (l : List α) (f : α → Nat) (C : Nat) :
    scatterAddV (.int (C : Int)) (.vec (l.map fun a => XQ.val ((f a : Nat) : Q))) (.int 1)
      = (scatterOnes C (l.map f)).map vecQ := by
  simp only [scatterAddV, sizeOf?, Int.natCast_nonneg, if_true, Int.toNat_natCast, bind, Except.bind,
    idxList_map_nat, Val.asElem, scatterOnes]
  rw [show ((l.map f).map fun _ => XQ.val ((1 : Int) : Q)) = ((l.map f).map fun _ => (1 : Q)).map XQ.val by simp,
    xscatterAdd_val]
  cases scatterAdd C (l.map f) ((l.map f).map fun _ => 1) <;> rfl

theorem scatterOnes_cases (n : Nat) (idx : List Nat) :
    (∃ v, scatterOnes n idx = .ok v) ∨ scatterOnes n idx = .error .runtime := by
  by_cases h : idx.all (· < n) = true
  · exact .inl ⟨_, scatterOnes_ok n idx h⟩
  · exact .inr (scatterAdd_error n idx _ h)

theorem scatterAdd_cases (n : Nat) (idx : List Nat) (vals : List Q) :
    (∃ v, scatterAdd n idx vals = .ok v) ∨ scatterAdd n idx vals = .error .runtime := by
  by_cases h : idx.all (· < n) = true
  · exact .inl ⟨_, scatterAdd_ok n idx vals h⟩
  · exact .inr (scatterAdd_error n idx _ h)

theorem argmax1V_mat {ρ : Type} (R : List ρ) (row : ρ → List Q) (h : ∀ x ∈ R, row x ≠ []) :
    argmax1V (.mat (R.map fun x => (row x).map XQ.val))
      = .ok (.vec (R.map fun x => XQ.val ((argmaxFirst (row x) : Nat) : Q))) := by
  have := argmax1V_matQ (R.map row) (by
    intro r hr
    obtain ⟨x, hx, rfl⟩ := List.mem_map.mp hr
    exact h x hx)
  simpa only [matQ, vecN, vecQ, List.map_map, Function.comp_def] using this


/-! ### gather, row broadcasting -/

theorem bzip_single_right (f : XQ → XQ → XQ) (a : List XQ) (y : XQ) : bzip f a [y] = .ok (a.map (f · y)) := by
  unfold bzip
  split
  · rename_i h
    match a, h with
    | [x], _ => rfl
  · match a with
    | [] => rfl
    | [x] => simp at *
    | x :: x' :: xs => rfl

theorem bzipM_rows_single {ρ : Type} (f : XQ → XQ → XQ) (R : List ρ) (A : ρ → List XQ) (y : ρ → XQ) :
    bzipM f (R.map A) (R.map fun r => [y r]) = .ok (R.map fun r => (A r).map (f · (y r))) := by
  simp only [bzipM, List.length_map, if_true, List.zipWith_map, List.zipWith_self, bzip_single_right]
  exact seqE_map_ok R _

theorem gatherRow_single (row : List Q) (l : Nat) (h : l < row.length) :
    gatherRow (row.map XQ.val) [XQ.val ((l : Nat) : Q)] = .ok [XQ.val (row.getD l 0)] := by
  simp only [gatherRow, idxList, List.map_cons, List.map_nil, xnat_natCast, seqE, bind, Except.bind]
  simp [h, List.getD_eq_getElem?_getD]

theorem gatherLastV_rows {ρ : Type} (R : List ρ) (row : ρ → List Q) (lab : ρ → Nat)
    (h : ∀ r ∈ R, lab r < (row r).length) :
    gatherLastV (.mat (R.map fun r => (row r).map XQ.val)) (.mat (R.map fun r => [XQ.val ((lab r : Nat) : Q)]))
      = .ok (.mat (R.map fun r => [XQ.val ((row r).getD (lab r) 0)])) := by
  simp only [gatherLastV, List.length_map, Nat.le_refl, if_true, List.zipWith_map, List.zipWith_self]
  rw [seqE_congr_ok R _ (fun r => [XQ.val ((row r).getD (lab r) 0)]) (fun r hr => gatherRow_single _ _ (h r hr))]
  rfl

theorem qcmp_lt_natCast (a b : Nat) : qcmp .lt (a : Q) (b : Q) = decide (a < b) := by
  simp only [qcmp, Rat.natCast_lt_natCast]

theorem qcmp_eq (a b : Q) : qcmp .eq a b = (a == b) := rfl
theorem qcmp_ne (a b : Q) : qcmp .ne a b = (a != b) := rfl

theorem qcmp_gt (a b : Q) : qcmp .gt a b = decide (b < a) := rfl

theorem scatterAddV_vec_same {ρ : Type} (R : List ρ) (f : ρ → Nat) (g : ρ → Q) (C : Nat) :
    scatterAddV (.int (C : Int)) (.vec (R.map fun a => XQ.val ((f a : Nat) : Q))) (.vec (R.map fun b => XQ.val (g b)))
      = (scatterAdd C (R.map f) (R.map g)).map vecQ := scatterAddV_vec R f R g C (Nat.le_refl _)

def accOut (p : List Q × List Q) : Val := .pair (vecQ p.1) (vecQ p.2)

/-! ### packaging of several scatters: the kernels and the models run them in different orders; every failure is
     the same `RuntimeError`, so the order is immaterial -/

theorem scatterOnes_okRt (n : Nat) (idx : List Nat) : OkRt (scatterOnes n idx) := scatterOnes_cases n idx
theorem scatterAdd_okRt (n : Nat) (idx : List Nat) (vals : List Q) : OkRt (scatterAdd n idx vals) :=
  scatterAdd_cases n idx vals

theorem pack2 (A B : Except Err (List Q)) :
    (do let x ← A.map vecQ; let y ← B.map vecQ; Except.ok (x.pair y))
      = Except.map accOut (do let c ← A; let t ← B; Except.ok (c, t)) := by
  cases A <;> cases B <;> rfl

/-- kernel order `(a, (b, c))`, model order `c, a, b` (`_precision_update`). -/
theorem pack3_cab (A B C : Except Err (List Q)) (hA : OkRt A) (hB : OkRt B) (hC : OkRt C) :
    (do let x ← A.map vecQ
        let yz ← (do let y ← B.map vecQ; let z ← C.map vecQ; Except.ok (y.pair z))
        Except.ok (x.pair yz))
      = Except.map prfOut (do let c ← C; let a ← A; let b ← B; Except.ok ⟨a, b, c⟩) := by
  rcases hA with ⟨a, rfl⟩ | rfl <;> rcases hB with ⟨b, rfl⟩ | rfl <;> rcases hC with ⟨c, rfl⟩ | rfl <;> rfl

/-- kernel order `(a, (b, c))`, model order `b, c, a` (`_recall_update`, f1 `_update`). -/
theorem pack3_bca (A B C : Except Err (List Q)) (hA : OkRt A) (hB : OkRt B) (hC : OkRt C) :
    (do let x ← A.map vecQ
        let yz ← (do let y ← B.map vecQ; let z ← C.map vecQ; Except.ok (y.pair z))
        Except.ok (x.pair yz))
      = Except.map prfOut (do let b ← B; let c ← C; let a ← A; Except.ok ⟨a, b, c⟩) := by
  rcases hA with ⟨a, rfl⟩ | rfl <;> rcases hB with ⟨b, rfl⟩ | rfl <;> rcases hC with ⟨c, rfl⟩ | rfl <;> rfl

/-! ### ratios with `nan_to_num`, means and weighted sums over the present classes -/

theorem list_ite {α : Type} (c : Prop) [Decidable c] (a b : α) : (if c then [a] else [b]) = [if c then a else b] := by
  split <;> rfl

theorem nanToNum_xdiv (a b : Q) (h : b = 0 → a = 0) : xnanToNum (xdiv a b) = .val (divNan0 a b) := by
  unfold xdiv divNan0
  by_cases hb : b = 0
  · simp [hb, h hb, xnanToNum]
  · simp [hb, xnanToNum]

theorem map_congr_val {ρ : Type} (L : List ρ) (S : ρ → XQ) (s : ρ → Q) (hS : ∀ r ∈ L, S r = .val (s r)) :
    L.map S = L.map fun r => XQ.val (s r) := List.map_congr_left hS

theorem xmean_congr {ρ : Type} (L : List ρ) (S : ρ → XQ) (s : ρ → Q) (hS : ∀ r ∈ L, S r = .val (s r)) :
    xmean (L.map S) = meanX (L.map s) := by
  rw [map_congr_val L S s hS, xmean_val]

theorem xsum_nan {ρ : Type} (L : List ρ) (h : L ≠ []) : xsum (L.map fun _ => XQ.nan) = .nan := by
  cases L with
  | nil => exact absurd rfl h
  | cons x xs =>
    simp only [xsum, List.map_cons, List.foldl_cons, xadd]
    generalize (xs.map fun _ => XQ.nan) = l
    induction l with
    | nil => rfl
    | cons y ys ih => simpa [List.foldl_cons, xadd] using ih

theorem wsum {ρ : Type} (L : List ρ) (S : ρ → XQ) (s w : ρ → Q) (tot : Q) (hS : ∀ r ∈ L, S r = .val (s r))
    (h0 : tot = 0 → ∀ r ∈ L, w r = 0) :
    xsum (L.map fun r => xmul (S r) (xdiv (w r) tot))
      = if tot = 0 then (if L.isEmpty then .val 0 else .nan)
        else .val (qsum (L.map fun r => s r * (w r / tot))) := by
  by_cases ht : tot = 0
  · rw [if_pos ht]
    have : (L.map fun r => xmul (S r) (xdiv (w r) tot)) = L.map fun _ => XQ.nan := by
      apply List.map_congr_left
      intro r hr
      rw [hS r hr, ht, h0 ht r hr]
      rfl
    rw [this]
    cases L with
    | nil => rfl
    | cons x xs => simpa using xsum_nan (x :: xs) (by simp)
  · rw [if_neg ht]
    have : (L.map fun r => xmul (S r) (xdiv (w r) tot)) = L.map fun r => XQ.val (s r * (w r / tot)) := by
      apply List.map_congr_left
      intro r hr
      rw [hS r hr]
      simp [xdiv, ht, xmul]
    rw [this, xsum_map_val]

/-- the same for `(score * weights).sum()` -/
theorem wsum' {ρ : Type} (L : List ρ) (S : ρ → XQ) (s w : ρ → Q) (tot : Q) (hS : ∀ r ∈ L, S r = .val (s r))
    (h0 : tot = 0 → ∀ r ∈ L, w r = 0) :
    xsum (L.map fun r => xarith .mul (S r) (xdiv (w r) tot))
      = if tot = 0 then (if L.isEmpty then .val 0 else .nan)
        else .val (qsum (L.map fun r => s r * (w r / tot))) := wsum L S s w tot hS h0

theorem qsum_zero_of_nonneg {ρ : Type} (L : List ρ) (w : ρ → Q) (hw : ∀ r ∈ L, 0 ≤ w r) (h : qsum (L.map w) = 0) :
    ∀ r ∈ L, w r = 0 := by
  rw [qsum_eq_sum] at h
  induction L with
  | nil => intro r hr; cases hr
  | cons x xs ih =>
    simp only [List.map_cons, List.sum_cons] at h
    have hx : 0 ≤ w x := hw x (List.mem_cons_self)
    have hs : 0 ≤ (xs.map w).sum := by
      clear h ih
      induction xs with
      | nil => simp
      | cons y ys ih2 =>
        simp only [List.map_cons, List.sum_cons]
        have := hw y (List.mem_cons_of_mem _ List.mem_cons_self)
        have := ih2 (fun r hr => by
          rcases List.mem_cons.mp hr with rfl | hr
          · exact hw _ List.mem_cons_self
          · exact hw r (List.mem_cons_of_mem _ (List.mem_cons_of_mem _ hr)))
        grind
    intro r hr
    rcases List.mem_cons.mp hr with rfl | hr
    · grind
    · exact ih (fun r hr => hw r (List.mem_cons_of_mem _ hr)) (by grind) r hr

theorem f1_pointwise (t l p : Q) (ht : 0 ≤ t) (hl : t ≤ l) (hp : t ≤ p) :
    xnanToNum (xarith .div (xarith .mul (xarith .mul (XQ.val ((2 : Int) : Q)) (xdiv t p)) (xdiv t l))
        (xarith .add (xdiv t p) (xdiv t l)))
      = .val (f1One t l p) := by
  by_cases hp0 : p = 0
  · have ht0 : t = 0 := by grind
    subst hp0 ht0
    simp [xdiv, xarith, xmul, xdivX, xnanToNum, f1One]
  · by_cases hl0 : l = 0
    · have ht0 : t = 0 := by grind
      subst hl0 ht0
      simp [xdiv, xarith, xmul, xdivX, xadd, xnanToNum, f1One, hp0]
    · by_cases ht0 : t = 0
      · subst ht0
        have z : ∀ x : Q, (0 : Q) / x = 0 := by intro x; grind
        simp [xdiv, xarith, xmul, xdivX, xadd, xnanToNum, f1One, hp0, hl0, z, Rat.add_zero]
      · have htp : 0 < t := by grind
        have hpp : 0 < p := by grind
        have hlp : 0 < l := by grind
        have hne := f1_pos t p l htp hpp hlp
        simp [xdiv, xarith, xmul, xdivX, xadd, xnanToNum, f1One, hp0, hl0, hne]

theorem xnanToNum_of_not_nan (x : XQ) (h : xisNan x = false) : xnanToNum x = x := by
  cases x <;> first | rfl | exact absurd h (by decide)

theorem no_nan_mem {ρ : Type} (L : List ρ) (S : ρ → XQ)
    (hn : ¬ (L.map fun x => XQ.val (b2q (xisNan (S x)))).any xtruthy = true) : ∀ r ∈ L, xisNan (S r) = false := by
  intro r hr
  cases h : xisNan (S r) with
  | false => rfl
  | true =>
    exfalso; apply hn
    simp only [List.any_map, List.any_eq_true]
    exact ⟨r, hr, by simp [Function.comp, h, xtruthy_b2q]⟩

/-- without a NaN, `nan_to_num` changes nothing: the value of the guarded and the unguarded branch coincide -/
theorem val_of_no_nan {ρ : Type} (L : List ρ) (S : ρ → XQ) (s : ρ → Q)
    (hn : ¬ (L.map fun x => XQ.val (b2q (xisNan (S x)))).any xtruthy = true)
    (hS : ∀ r ∈ L, xnanToNum (S r) = .val (s r)) : ∀ r ∈ L, S r = .val (s r) := by
  intro r hr
  rw [← xnanToNum_of_not_nan _ (no_nan_mem L S hn r hr)]
  exact hS r hr

/-! ### counts are count-like -/

theorem natCast_add_eq_zero (a b : Nat) (h : (a : Q) + (b : Q) = 0) : (a : Q) = 0 := by
  rw [← Rat.natCast_add, Rat.natCast_eq_zero_iff] at h
  rw [Rat.natCast_eq_zero_iff]; omega

theorem natCast_zero_of_le (a b : Nat) (hab : a ≤ b) (h : (b : Q) = 0) : (a : Q) = 0 := by
  rw [Rat.natCast_eq_zero_iff] at h ⊢; omega

theorem tp_le_support (ps : Pairs) (c : Nat) : tp ps c ≤ support ps c := by rw [support_eq]; omega
theorem tp_le_predicted (ps : Pairs) (c : Nat) : tp ps c ≤ predicted ps c := by rw [predicted_eq]; omega

/-! ### multilabel: matrices as rows of (prediction, target) cells -/

theorem exists_cells {α β : Type} (a : List (List α)) (b : List (List β)) (h1 : a.length = b.length)
    (h2 : ∀ p ∈ a.zip b, p.1.length = p.2.length) :
    ∃ R : List (List (α × β)), a = R.map (fun r => r.map (·.1)) ∧ b = R.map (fun r => r.map (·.2)) := by
  refine ⟨(a.zip b).map fun p => p.1.zip p.2, ?_, ?_⟩
  · rw [List.map_map]
    have : ∀ p ∈ a.zip b, ((fun r : List (α × β) => r.map (·.1)) ∘ fun p : List α × List β => p.1.zip p.2) p = p.1 :=
      fun p hp => List.map_fst_zip (by have := h2 p hp; omega)
    rw [List.map_congr_left this, List.map_fst_zip (by omega)]
  · rw [List.map_map]
    have : ∀ p ∈ a.zip b, ((fun r : List (α × β) => r.map (·.2)) ∘ fun p : List α × List β => p.1.zip p.2) p = p.2 :=
      fun p hp => List.map_snd_zip (by have := h2 p hp; omega)
    rw [List.map_congr_left this, List.map_snd_zip (by omega)]

theorem bzipM_rows_same {ρ : Type} (f : XQ → XQ → XQ) (R : List ρ) (A B : ρ → List XQ)
    (h : ∀ r ∈ R, (A r).length = (B r).length) :
    bzipM f (R.map A) (R.map B) = .ok (R.map fun r => List.zipWith f (A r) (B r)) := by
  simp only [bzipM, List.length_map, if_true, List.zipWith_map, List.zipWith_self]
  exact seqE_congr_ok R _ _ (fun r hr => by simp only [bzip, h r hr, if_true])

theorem bzipM_rows_map {α : Type} (f : XQ → XQ → XQ) (R : List (List α)) (A B : α → XQ) :
    bzipM f (R.map fun r => r.map A) (R.map fun r => r.map B) = .ok (R.map fun r => r.map fun p => f (A p) (B p)) := by
  rw [bzipM_rows_same f R _ _ (fun r _ => by simp only [List.length_map])]
  simp only [List.zipWith_map, List.zipWith_self]

theorem all_truthy_map {α : Type} (g : α → Bool) (l : List α) :
    (l.map fun a => XQ.val (b2q (g a))).all xtruthy = l.all g := by
  simp only [List.all_map, Function.comp_def, xtruthy_b2q]

theorem foldl_xmax_b2q {α : Type} (g : α → Bool) (l : List α) (b0 : Bool) :
    (l.map fun a => XQ.val (b2q (g a))).foldl xmax (.val (b2q b0)) = .val (b2q (b0 || l.any g)) := by
  induction l generalizing b0 with
  | nil => simp
  | cons x xs ih =>
    simp only [List.map_cons, List.foldl_cons, List.any_cons]
    have : xmax (.val (b2q b0)) (.val (b2q (g x))) = .val (b2q (b0 || g x)) := by
      cases b0 <;> cases g x <;> decide
    rw [this, ih, Bool.or_assoc]

theorem rowMax_b2q {α : Type} (g : α → Bool) (l : List α) (h : l ≠ []) :
    rowMax (l.map fun a => XQ.val (b2q (g a))) = .ok (.val (b2q (l.any g))) := by
  cases l with
  | nil => exact absurd rfl h
  | cons x xs => simp only [List.map_cons, rowMax, foldl_xmax_b2q, List.any_cons]

theorem maxDim1V_rows {α : Type} (R : List (List α)) (g : α → Bool) (h : ∀ r ∈ R, r ≠ []) :
    maxDim1V (.mat (R.map fun r => r.map fun p => XQ.val (b2q (g p))))
      = .ok (.vec (R.map fun r => XQ.val (b2q (r.any g)))) := by
  simp only [maxDim1V, List.map_map, Function.comp_def]
  rw [seqE_congr_ok R _ (fun r => XQ.val (b2q (r.any g))) (fun r hr => rowMax_b2q g r (h r hr))]
  rfl

theorem qsum_flatten (L : List (List Q)) : qsum L.flatten = qsum (L.map qsum) := by
  simp only [qsum_eq_sum]
  induction L with
  | nil => rfl
  | cons x xs ih => simp only [List.flatten_cons, List.sum_append, List.map_cons, List.sum_cons, ih, qsum_eq_sum]

theorem xsum_flatten_rows {α : Type} (R : List (List α)) (g : α → Q) :
    xsum (R.map fun r => r.map fun p => XQ.val (g p)).flatten = .val (qsum (R.map fun r => qsum (r.map g))) := by
  have : (R.map fun r => r.map fun p => XQ.val (g p)).flatten = ((R.map fun r => r.map g).flatten).map XQ.val := by
    rw [List.map_flatten, List.map_map]; simp [Function.comp_def]
  rw [this, xsum_val, qsum_flatten, List.map_map]; rfl

theorem natCast_length_flatten {α β : Type} (R : List α) (F : α → List β) :
    (((R.map F).flatten.length : Nat) : Q) = qsum (R.map fun r => ((F r).length : Q)) := by
  simp only [qsum_eq_sum]
  induction R with
  | nil => simp
  | cons x xs ih =>
    simp only [List.map_cons, List.flatten_cons, List.length_append, Rat.natCast_add, List.sum_cons, ih]

theorem qsum_map_add {α : Type} (l : List α) (f g : α → Q) :
    qsum (l.map fun a => f a + g a) = qsum (l.map f) + qsum (l.map g) := by
  simp only [qsum_eq_sum]
  induction l with
  | nil => simp only [List.map_nil, List.sum_nil]; grind
  | cons x xs ih => simp only [List.map_cons, List.sum_cons, ih]; grind

theorem qcmp_ge_zero (a : Q) : qcmp .ge a 0 = decide (0 ≤ a) := by
  rw [Bool.eq_iff_iff]
  simp only [qcmp, Bool.or_eq_true, decide_eq_true_eq, beq_iff_eq, Rat.le_iff_lt_or_eq]
  constructor
  · rintro (h | h)
    · exact .inl h
    · exact .inr h.symm
  · rintro (h | h)
    · exact .inl h
    · exact .inr h.symm
theorem qcmp_le_zero (a : Q) : qcmp .le a 0 = decide (a ≤ 0) := by
  rw [Bool.eq_iff_iff]
  simp only [qcmp, Bool.or_eq_true, decide_eq_true_eq, beq_iff_eq, Rat.le_iff_lt_or_eq]

/-! ### confusion matrix normalisation -/

/-- a matrix of counts -/
def natMat (M : List (List Nat)) : Mat := M.map fun r => r.map fun (n : Nat) => (n : Q)

theorem absQ_natCast (n : Nat) : absQ (n : Q) = (n : Q) := by
  unfold absQ
  have : ¬ ((n : Q) < 0) := Rat.not_lt.mpr Rat.natCast_nonneg
  simp [this]

theorem qsum_natCast (w : List Nat) : qsum (w.map fun (n : Nat) => (n : Q)) = ((w.sum : Nat) : Q) := by
  rw [qsum_eq_sum]
  induction w with
  | nil => simp
  | cons x xs ih => simp only [List.map_cons, List.sum_cons, ih, Rat.natCast_add]

theorem normEps_pos : (0 : Q) < normEps := by decide +kernel
theorem normEps_le_one : normEps ≤ (1 : Q) := by decide +kernel

theorem mem_le_sum (w : List Nat) (x : Nat) (hx : x ∈ w) : x ≤ w.sum := by
  induction w with
  | nil => cases hx
  | cons y ys ih =>
    simp only [List.sum_cons]
    rcases List.mem_cons.mp hx with rfl | h
    · omega
    · have := ih h; omega

theorem xl1normalize_natCast (w : List Nat) :
    xl1normalize ((w.map fun (n : Nat) => (n : Q)).map XQ.val)
      = (l1normalize (w.map fun (n : Nat) => (n : Q))).map XQ.val := by
  unfold xl1normalize l1normalize
  simp only [List.map_map, Function.comp_def, xabs, absQ_natCast]
  rw [show (w.map fun x => XQ.val ((x : Nat) : Q)) = (w.map fun (n : Nat) => (n : Q)).map XQ.val by simp, xsum_val,
    qsum_natCast]
  have heps0 : normEps ≠ 0 := by decide +kernel
  by_cases h0 : w.sum = 0
  · have hall : ∀ x ∈ w, x = 0 := by
      intro x hx
      have := mem_le_sum w x hx
      omega
    have hS : ((w.sum : Nat) : Q) = 0 := by rw [h0]; rfl
    have hlt : xlt (XQ.val ((w.sum : Nat) : Q)) (XQ.val normEps) = true := by
      rw [hS]; decide +kernel
    have hlt0 : xlt (XQ.val 0) (XQ.val normEps) = true := by decide +kernel
    simp only [if_true, hS, hlt0]
    apply List.map_congr_left
    intro x hx
    have hx0 : ((x : Nat) : Q) = 0 := by rw [hall x hx]; rfl
    have z : (0 : Q) / normEps = 0 := by grind
    simp only [hx0, xdivX, xdiv, heps0, if_false, z, if_true]
  · have h1 : (1 : Q) ≤ ((w.sum : Nat) : Q) := by
      have : 1 ≤ w.sum := by omega
      have := Rat.natCast_le_natCast.mpr this
      simpa using this
    have hlt : xlt (XQ.val ((w.sum : Nat) : Q)) (XQ.val normEps) = false := by
      have := normEps_le_one
      simp only [xlt, decide_eq_false_iff_not]
      grind
    have hne : ((w.sum : Nat) : Q) ≠ 0 := by grind
    simp only [hlt, Bool.false_eq_true, if_false, hne]
    apply List.map_congr_left
    intro x _
    simp only [xdivX, xdiv, hne, if_false]

theorem getD_map' {α β : Type} (f : α → β) (l : List α) (n : Nat) (d : α) : (l.map f).getD n (f d) = f (l.getD n d) := by
  simp only [List.getD_eq_getElem?_getD, List.getElem?_map]
  cases l[n]? <;> rfl

def transposeN (M : List (List Nat)) (cols : Nat) : List (List Nat) :=
  (List.range cols).map fun j => M.map fun row => row.getD j 0

theorem transpose_natMat (M : List (List Nat)) (c : Nat) : transpose (natMat M) c = natMat (transposeN M c) := by
  simp only [transpose, natMat, transposeN, List.map_map, Function.comp_def]
  apply List.map_congr_left; intro j _
  apply List.map_congr_left; intro r _
  exact getD_map' (fun (n : Nat) => (n : Q)) r j 0

theorem xtranspose_val (m : Mat) (c : Nat) :
    xtranspose (m.map fun r => r.map XQ.val) c = (transpose m c).map fun r => r.map XQ.val := by
  simp only [xtranspose, transpose, List.map_map, Function.comp_def]
  apply List.map_congr_left; intro j _
  apply List.map_congr_left; intro r _
  exact getD_map' XQ.val r j 0

theorem xtranspose_val' {ρ : Type} (X : List ρ) (f : ρ → List Q) (c : Nat) :
    xtranspose (X.map fun x => (f x).map XQ.val) c = (transpose (X.map f) c).map fun r => r.map XQ.val := by
  have := xtranspose_val (X.map f) c
  simpa only [List.map_map, Function.comp_def] using this

theorem xl1normalize_rows (M : List (List Nat)) :
    (natMat M).map (fun r => xl1normalize (r.map XQ.val))
      = ((natMat M).map l1normalize).map fun r => r.map XQ.val := by
  simp only [natMat, List.map_map, Function.comp_def]
  apply List.map_congr_left; intro r _
  have := xl1normalize_natCast r
  simpa only [List.map_map, Function.comp_def] using this

theorem xsum_flatten_val (m : Mat) : xsum (m.map fun r => r.map XQ.val).flatten = .val (qsum (m.map qsum)) := by
  have := xsum_flatten_rows m (fun x => x)
  simpa only [List.map_id'] using this

theorem headD_cols (M : List (List Nat)) (n : Nat) (hn : M.length = n) (hr : ∀ r ∈ M, r.length = n) :
    (((natMat M).map fun r => r.map XQ.val).headD []).length = n := by
  cases M with
  | nil => subst hn; rfl
  | cons r rs => simpa [natMat] using hr r (List.mem_cons_self)

/-- `_binary_confusion_matrix_compute` normalises along the OTHER dimension than `_confusion_matrix_compute` -/
def swapNorm : Norm → Norm
  | .pred => .true_ | .true_ => .pred | .all => .all | .none => .none

/-- rows of per-class counts `(tp c, a c, b c)` for `c < C` -/
theorem rows_range {C : Nat} (f g h : Nat → Q) (P : Q × Q × Q → Prop) (hP : ∀ c, P (f c, g c, h c)) :
    ∀ r ∈ ((List.range C).map f).zip (((List.range C).map g).zip ((List.range C).map h)), P r := by
  intro r hr
  simp only [List.zip_map'] at hr
  obtain ⟨c, _, rfl⟩ := List.mem_map.mp hr
  exact hP c

/-- symbolic evaluation of a closed term on embedded arguments: unfolds `eval` and the primitives, looks the
    parameters up, and pushes `XQ.val` outwards. -/
syntax "tx_eval" ("[" Lean.Parser.Tactic.simpLemma,* "]")? : tactic
macro_rules
  | `(tactic| tx_eval) => `(tactic| tx_eval [])
  | `(tactic| tx_eval [$extra,*]) => `(tactic|
  simp only [eval, List.lookup, ok_bind, error_bind, pure_eq_ok, map_ok, map_error, String.reduceBEq,
    vecQ, vecN, scalarQ, matQ,
    bop, uop, Val.toTV, tvBop, tvMap, TV.toVal, whereV, Val.asElem, bzip,
    sumV, sumLastV, meanV, shape0V, numelV, ndimV, tensorOfV, pyEqV, isStrV, isIntV, asBool,
    maskSelV, sel_same, onesLikeV, unsqueezeLastV, innerV, anyV, truthT, allDim1V, all_truthy_map, l1normV,
    List.length_map, List.map_map, List.zipWith_map, List.zipWith_self, List.map_zipWith, Function.comp_def,
    xcmp_val, b2x_eq, xtruthy_b2q, b2q_bne_zero, thr_ite, ite_val,
    xarith_add_val, xarith_sub_val, xarith_mul_val, xarith_div_val, xband_natCast, xband_thrQ, xlor_b2q, xland_b2q, xlnot_b2q,
    xsum_zipWith_val, xsum_map_val, xsum_val, Rat.intCast_zero, Rat.intCast_one, Rat.intCast_natCast,
    if_true, if_false, ite_true, ite_false, Bool.false_eq_true, Bool.true_eq_false, Bool.and_true, Bool.and_false,
    Bool.true_and, Bool.false_and, Bool.or_true, Bool.or_false, Bool.true_or, Bool.false_or, Bool.not_true, Bool.not_false,
    String.reduceEq, Int.reduceBEq, Int.reduceEq, reduceCtorEq, $extra,*])

/-- `kernel_proof "<theorem>: <what broke>" => tactics`: runs the tactics and requires them to close the goal; when
    they do not (the generated term changed), the build error carries the theorem's name. -/
syntax "kernel_proof " str " => " tacticSeq : tactic
macro_rules
  | `(tactic| kernel_proof $msg => $t) => `(tactic| first | (($t); done) | fail $msg)

end TE.TXL
