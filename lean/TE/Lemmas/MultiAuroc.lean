/-
  TE.Lemmas.MultiAuroc — the vectorised AUROC / multiclass PR-curve pipelines of
  TE/Model/Multi.lean equal the row-by-row routines of TE/Model/Curve.lean.
-/
import TE.Lemmas.Multi
import TE.Lemmas.CurvePR
namespace TE.MultiL
open TE TE.Curve TE.Multi TE.CurveL

/-- `aurocSorted` is `aurocFinish` on the right-aligned selected cumulative sums. -/
theorem aurocSorted_eq_finish (srt : List Pt) :
    aurocSorted srt
      = aurocFinish
          (padLeft (diffMask (srt.map (·.s))).length (select (diffMask (srt.map (·.s))) (cumsum (srt.map (·.a)))))
          (padLeft (diffMask (srt.map (·.s))).length (select (diffMask (srt.map (·.s))) (cumsum (srt.map (·.b))))) := by
  rw [diffMask_length, List.length_map]
  rfl

theorem cumsum_length (l : List Q) : (cumsum l).length = l.length := cumsumFrom_length 0 l

/-- the 2-D pipeline is the 1-D routine on every row. -/
theorem aurocRows_eq_mapM (rows : List (List Pt)) : aurocRows rows = rows.mapM aurocSorted := by
  have hA : RowsMatch (rows.map fun r => diffMask (r.map (·.s))) (rows.map fun r => cumsum (r.map (·.a))) :=
    rowsMatch_map rows _ _ (fun r _ => by rw [diffMask_length, cumsum_length]; simp)
  have hB : RowsMatch (rows.map fun r => diffMask (r.map (·.s))) (rows.map fun r => cumsum (r.map (·.b))) :=
    rowsMatch_map rows _ _ (fun r _ => by rw [diffMask_length, cumsum_length]; simp)
  have eA := maskedScatterFlat_shifted _ _ [] hA
  have eB := maskedScatterFlat_shifted _ _ [] hB
  rw [List.append_nil, ← selectFlat_rows _ _ hA] at eA
  rw [List.append_nil, ← selectFlat_rows _ _ hB] at eB
  unfold aurocRows
  simp only [bind, Except.bind, eA, eB, zipWith_map_map, List.zip_map', List.mapM_map]
  apply mapM_congr
  intro r _
  exact (aurocSorted_eq_finish r).symm

theorem binaryAurocMulti_eq_tasks (rows : List (List Q × List Q × List Q)) :
    binaryAurocMulti rows = binaryAurocTasks rows := by
  unfold binaryAurocMulti binaryAurocTasks
  rw [aurocRows_eq_mapM, List.mapM_map]
  rfl

theorem multiclassAurocMulti_eq (cols : List (List Q)) (labs : List Q) (avg : Avg) :
    multiclassAurocMulti cols labs avg = multiclassAuroc cols labs avg := by
  unfold multiclassAurocMulti multiclassAuroc
  rw [aurocRows_eq_mapM, List.mapM_map]
  rfl

/-! ### multiclass precision-recall curve -/

/-- what one row of the vectorised routine keeps: the masked precision / recall / thresholds. -/
def prFinish (r : PrRow) : PRC :=
  ⟨select (r.mask ++ [true]) r.precision, select (r.mask ++ [true]) r.recall, select r.mask r.thrF⟩

theorem mcPrCurveSorted_eq_prRow (srt : List Pt) : mcPrCurveSorted srt = (prRow srt).map prFinish := by
  unfold mcPrCurveSorted prRow
  dsimp only
  cases (cumsum (srt.map (·.a))).reverse.head? <;> rfl

theorem prRow_shapes {srt : List Pt} {r : PrRow} (h : prRow srt = .ok r) :
    r.mask.length = r.thrF.length ∧ (r.mask ++ [true]).length = r.precision.length
      ∧ (r.mask ++ [true]).length = r.recall.length := by
  unfold prRow at h
  cases hh : (cumsum (srt.map (·.a))).reverse.head? with
  | none => simp [hh] at h
  | some P =>
    simp only [hh, Except.ok.injEq] at h
    subst h
    simp [diffMask_length, cumsum_length]

theorem mcPrCurveRows_eq_mapM (rows : List (List Pt)) : mcPrCurveRows rows = rows.mapM mcPrCurveSorted := by
  have e : rows.mapM mcPrCurveSorted = (rows.mapM prRow).map (List.map prFinish) := by
    rw [← mapM_map_except]
    apply mapM_congr
    intro r _
    exact mcPrCurveSorted_eq_prRow r
  rw [e]
  unfold mcPrCurveRows
  cases hrs : rows.mapM prRow with
  | error err => rfl
  | ok rs =>
    have hsh : ∀ r ∈ rs, r.mask.length = r.thrF.length ∧ (r.mask ++ [true]).length = r.precision.length
        ∧ (r.mask ++ [true]).length = r.recall.length := by
      intro r hr
      obtain ⟨srt, _, hs⟩ := mapM_ok_mem hrs r hr
      exact prRow_shapes hs
    have h1 : RowsMatch (rs.map (·.mask)) (rs.map (·.thrF)) :=
      rowsMatch_map rs _ _ (fun r hr => (hsh r hr).1)
    have h2 : RowsMatch ((rs.map (·.mask)).map (· ++ [true])) (rs.map (·.precision)) := by
      rw [List.map_map]
      exact rowsMatch_map rs _ _ (fun r hr => (hsh r hr).2.1)
    have h3 : RowsMatch ((rs.map (·.mask)).map (· ++ [true])) (rs.map (·.recall)) := by
      rw [List.map_map]
      exact rowsMatch_map rs _ _ (fun r hr => (hsh r hr).2.2)
    simp only [bind, Except.bind, Except.map]
    rw [splitSizes_selectFlat _ _ h1, splitSizes_selectFlat _ _ h2, splitSizes_selectFlat _ _ h3]
    simp only [List.map_map, zipWith_map_map, List.zip_map']
    rfl

theorem multiclassPrCurveMulti_eq (cols : List (List Q)) (labs : List Q) :
    multiclassPrCurveMulti cols labs = multiclassPrCurve cols labs := by
  unfold multiclassPrCurveMulti multiclassPrCurve
  rw [mcPrCurveRows_eq_mapM, List.mapM_map]
  rfl

end TE.MultiL
