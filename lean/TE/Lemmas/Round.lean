/-
  TE.Lemmas.Round — helper lemmas for the rounding-model part of C07 (TE/Props/C07_Round.lean):
  absolute value on `Q`, powers of `1 + u`, the algebra of `RelErr` ("at most k roundings").
-/
import TE.Model.Round
import Mathlib.Tactic.Ring
import Mathlib.Tactic.Linarith
import Mathlib.Tactic.Positivity
namespace TE.RoundL
open TE.Round

/-! ### `qabs` -/

theorem qabs_nonneg (x : Q) : 0 ≤ qabs x := by unfold qabs; split <;> linarith
theorem qabs_of_nonneg {x : Q} (h : 0 ≤ x) : qabs x = x := by unfold qabs; split <;> linarith
theorem qabs_of_nonpos {x : Q} (h : x ≤ 0) : qabs x = -x := by unfold qabs; split <;> linarith
theorem qabs_zero : qabs 0 = 0 := by simp [qabs]
theorem le_qabs (x : Q) : x ≤ qabs x := by unfold qabs; split <;> linarith
theorem neg_le_qabs (x : Q) : -x ≤ qabs x := by unfold qabs; split <;> linarith
theorem qabs_neg (x : Q) : qabs (-x) = qabs x := by unfold qabs; split <;> split <;> linarith
theorem qabs_sub_comm (x y : Q) : qabs (x - y) = qabs (y - x) := by
  rw [← qabs_neg]; congr 1; ring
theorem qabs_le {x b : Q} (h1 : x ≤ b) (h2 : -x ≤ b) : qabs x ≤ b := by unfold qabs; split <;> linarith
theorem qabs_add_le (x y : Q) : qabs (x + y) ≤ qabs x + qabs y := by
  unfold qabs; split <;> split <;> split <;> linarith
theorem qabs_sub_le (x y : Q) : qabs (x - y) ≤ qabs x + qabs y := by
  unfold qabs; split <;> split <;> split <;> linarith
/-- triangle inequality through an intermediate point. -/
theorem qabs_tri (x y z : Q) : qabs (x - z) ≤ qabs (x - y) + qabs (y - z) := by
  have := qabs_add_le (x - y) (y - z)
  have e : x - y + (y - z) = x - z := by ring
  rwa [e] at this
theorem qabs_mul (x y : Q) : qabs (x * y) = qabs x * qabs y := by
  rcases le_total 0 x with hx | hx <;> rcases le_total 0 y with hy | hy
  · rw [qabs_of_nonneg hx, qabs_of_nonneg hy, qabs_of_nonneg (mul_nonneg hx hy)]
  · rw [qabs_of_nonneg hx, qabs_of_nonpos hy, qabs_of_nonpos (mul_nonpos_of_nonneg_of_nonpos hx hy)]; ring
  · rw [qabs_of_nonpos hx, qabs_of_nonneg hy, qabs_of_nonpos (mul_nonpos_of_nonpos_of_nonneg hx hy)]; ring
  · rw [qabs_of_nonpos hx, qabs_of_nonpos hy, qabs_of_nonneg (mul_nonneg_of_nonpos_of_nonpos hx hy)]; ring
theorem qabs_div_pos (x : Q) {d : Q} (hd : 0 < d) : qabs (x / d) = qabs x / d := by
  rcases le_total 0 x with hx | hx
  · rw [qabs_of_nonneg hx, qabs_of_nonneg (div_nonneg hx hd.le)]
  · rw [qabs_of_nonpos hx, qabs_of_nonpos (div_nonpos_of_nonpos_of_nonneg hx hd.le)]; ring
/-- `|x̂| ≤ |x| + |x̂ − x|`. -/
theorem qabs_le_add_err (xh x : Q) : qabs xh ≤ qabs x + qabs (xh - x) := by
  have := qabs_add_le x (xh - x)
  have e : x + (xh - x) = xh := by ring
  rwa [e] at this

/-! ### powers of `1 + u` -/

theorem one_le_pw {u : Q} (hu : 0 ≤ u) (k : Nat) : 1 ≤ (1 + u) ^ k := by
  induction k with
  | zero => simp
  | succ k ih => rw [pow_succ]; nlinarith
theorem pw_pos {u : Q} (hu : 0 ≤ u) (k : Nat) : 0 < (1 + u) ^ k := lt_of_lt_of_le one_pos (one_le_pw hu k)
theorem pw_succ_ge {u : Q} (hu : 0 ≤ u) (k : Nat) : (1 + u) ^ k ≤ (1 + u) ^ (k + 1) := by
  have := one_le_pw hu k
  rw [pow_succ]; nlinarith
theorem pw_mono {u : Q} (hu : 0 ≤ u) {k m : Nat} (h : k ≤ m) : (1 + u) ^ k ≤ (1 + u) ^ m := by
  induction h with
  | refl => exact le_refl _
  | step _ ih => exact le_trans ih (pw_succ_ge hu _)
/-- the error factor `(1+u)ᵏ − 1` is non-negative and monotone in `k`. -/
theorem ek_nonneg {u : Q} (hu : 0 ≤ u) (k : Nat) : 0 ≤ (1 + u) ^ k - 1 := by
  have := one_le_pw hu k; linarith
theorem ek_mono {u : Q} (hu : 0 ≤ u) {k m : Nat} (h : k ≤ m) : (1 + u) ^ k - 1 ≤ (1 + u) ^ m - 1 := by
  have := pw_mono hu h; linarith

/-- `(1+u)ᵏ·(1 − k·u) ≤ 1` (Bernoulli, multiplicative form; no size restriction). -/
theorem pw_mul_le_one {u : Q} (hu : 0 ≤ u) (k : Nat) : (1 + u) ^ k * (1 - k * u) ≤ 1 := by
  induction k with
  | zero => simp
  | succ k ih =>
    have hp := (pw_pos hu k).le
    have hk : (0 : Q) ≤ k := Nat.cast_nonneg k
    have e : (1 + u) ^ (k + 1) * (1 - ((k + 1 : Nat) : Q) * u)
        = (1 + u) ^ k * (1 - k * u) - (1 + u) ^ k * ((k + 1) * (u * u)) := by
      rw [pow_succ]; push_cast; ring
    rw [e]
    have : 0 ≤ (1 + u) ^ k * ((k + 1) * (u * u)) := by positivity
    linarith

/-- **(1+u)ⁿ − 1 ≤ 2·n·u** as soon as `2·n·u ≤ 1`. -/
theorem pow_bound {u : Q} (hu : 0 ≤ u) (n : Nat) (h : 2 * (n : Q) * u ≤ 1) :
    (1 + u) ^ n - 1 ≤ 2 * n * u := by
  have h1 := pw_mul_le_one hu n
  have hp := (pw_pos hu n).le
  have hn : (0 : Q) ≤ n := Nat.cast_nonneg n
  -- p(1 − x) ≤ 1 with x = n·u ≤ 1/2  ⇒  p ≤ 2  ⇒  p − 1 ≤ p·x ≤ 2x
  have hx : (n : Q) * u ≤ 1 / 2 := by linarith
  have hp2 : (1 + u) ^ n ≤ 2 := by nlinarith
  have hxn : 0 ≤ (n : Q) * u := mul_nonneg hn hu
  nlinarith

/-- the sharper classical form `(1+u)ⁿ − 1 ≤ γₙ = n·u / (1 − n·u)` for `n·u < 1`. -/
theorem pow_bound_gamma {u : Q} (hu : 0 ≤ u) (n : Nat) (h : (n : Q) * u < 1) :
    (1 + u) ^ n - 1 ≤ n * u / (1 - n * u) := by
  have h1 := pw_mul_le_one hu n
  have hd : 0 < 1 - (n : Q) * u := by linarith
  rw [le_div_iff₀ hd]
  nlinarith

/-! ### `RelErr` -/

theorem relErr_refl {u : Q} (hu : 0 ≤ u) (k : Nat) (a : Q) : RelErr u k a a := by
  unfold RelErr
  have e : a - a = 0 := by ring
  rw [e, qabs_zero]
  exact mul_nonneg (ek_nonneg hu k) (qabs_nonneg a)

theorem relErr_mono {u : Q} (hu : 0 ≤ u) {k m : Nat} (h : k ≤ m) {ah a : Q} (r : RelErr u k ah a) :
    RelErr u m ah a := by
  unfold RelErr at *
  exact le_trans r (mul_le_mul_of_nonneg_right (ek_mono hu h) (qabs_nonneg a))

/-- roundings at a smaller unit roundoff count as roundings at a larger one. -/
theorem relErr_weaken {u1 u : Q} (h0 : 0 ≤ u1) (h : u1 ≤ u) {k : Nat} {ah a : Q} (r : RelErr u1 k ah a) :
    RelErr u k ah a := by
  unfold RelErr at *
  have hp : (1 + u1) ^ k ≤ (1 + u) ^ k := pow_le_pow_left₀ (by linarith) (by linarith) k
  exact le_trans r (mul_le_mul_of_nonneg_right (by linarith) (qabs_nonneg a))

/-- `|â| ≤ (1+u)ᵏ·|a|`. -/
theorem relErr_abs_le {u : Q} {k : Nat} {ah a : Q} (r : RelErr u k ah a) :
    qabs ah ≤ (1 + u) ^ k * qabs a := by
  unfold RelErr at r
  have := qabs_le_add_err ah a
  linarith

/-- one more rounding. -/
theorem relErr_rnd {u : Q} (hu : 0 ≤ u) (F : Fl u) {k : Nat} {ah a : Q} (r : RelErr u k ah a) :
    RelErr u (k + 1) (F.rnd ah) a := by
  have h1 := F.err ah
  have h2 := relErr_abs_le r
  have h3 := qabs_tri (F.rnd ah) ah a
  have h4 : u * qabs ah ≤ u * ((1 + u) ^ k * qabs a) := mul_le_mul_of_nonneg_left h2 hu
  unfold RelErr at *
  rw [pow_succ]
  nlinarith [qabs_nonneg a]

/-- product of two approximations: the rounding counts add. -/
theorem relErr_mul {u : Q} (hu : 0 ≤ u) {i j : Nat} {ah a bh b : Q} (ra : RelErr u i ah a) (rb : RelErr u j bh b) :
    RelErr u (i + j) (ah * bh) (a * b) := by
  have hb := relErr_abs_le rb
  unfold RelErr at *
  have e : ah * bh - a * b = (ah - a) * bh + a * (bh - b) := by ring
  have t := qabs_add_le ((ah - a) * bh) (a * (bh - b))
  rw [e, qabs_mul a b]
  rw [qabs_mul, qabs_mul] at t
  have hei := ek_nonneg hu i
  have s1 : qabs (ah - a) * qabs bh ≤ ((1 + u) ^ i - 1) * qabs a * ((1 + u) ^ j * qabs b) :=
    mul_le_mul ra hb (qabs_nonneg _) (mul_nonneg hei (qabs_nonneg a))
  have s2 : qabs a * qabs (bh - b) ≤ qabs a * (((1 + u) ^ j - 1) * qabs b) :=
    mul_le_mul_of_nonneg_left rb (qabs_nonneg a)
  rw [pow_add]
  calc qabs ((ah - a) * bh + a * (bh - b)) ≤ _ := t
    _ ≤ ((1 + u) ^ i - 1) * qabs a * ((1 + u) ^ j * qabs b) + qabs a * (((1 + u) ^ j - 1) * qabs b) := add_le_add s1 s2
    _ = ((1 + u) ^ i * (1 + u) ^ j - 1) * (qabs a * qabs b) := by ring

/-- a rounded product of two approximations. -/
theorem relErr_fmul {u : Q} (hu : 0 ≤ u) (F : Fl u) {i j : Nat} {ah a bh b : Q}
    (ra : RelErr u i ah a) (rb : RelErr u j bh b) : RelErr u (i + j + 1) (F.fmul ah bh) (a * b) :=
  relErr_rnd hu F (relErr_mul hu ra rb)

/-- the elementary operations on EXACT operands commit one rounding. -/
theorem relErr_fadd {u : Q} (hu : 0 ≤ u) (F : Fl u) (a b : Q) : RelErr u 1 (F.fadd a b) (a + b) :=
  relErr_rnd hu F (relErr_refl hu 0 (a + b))
theorem relErr_fsub {u : Q} (hu : 0 ≤ u) (F : Fl u) (a b : Q) : RelErr u 1 (F.fsub a b) (a - b) :=
  relErr_rnd hu F (relErr_refl hu 0 (a - b))
theorem relErr_fdiv {u : Q} (hu : 0 ≤ u) (F : Fl u) (a b : Q) : RelErr u 1 (F.fdiv a b) (a / b) :=
  relErr_rnd hu F (relErr_refl hu 0 (a / b))

/-- the model forces `rnd 0 = 0`: adding exact zeros (zero-initialised accumulators) is exact. -/
theorem rnd_zero {u : Q} (F : Fl u) : F.rnd 0 = 0 := by
  have h := F.err 0
  rw [qabs_zero, mul_zero] at h
  have e : F.rnd 0 - 0 = F.rnd 0 := by ring
  rw [e] at h
  have h0 := qabs_nonneg (F.rnd 0)
  have h1 := le_qabs (F.rnd 0)
  have h2 := neg_le_qabs (F.rnd 0)
  linarith

end TE.RoundL
