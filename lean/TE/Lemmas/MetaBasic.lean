/-
  TE.Lemmas.MetaBasic — scalar and list facts shared by the C17 developments
  (monotone maps, weight scaling, duplication, relabelling).  Core Lean only.
-/
import TE.Model.Basic
namespace TE.MetaL
open TE

/-! ### scaling by a constant -/

theorem mul_zero' (c : Q) : c * 0 = 0 := Rat.mul_zero c

theorem mul_eq_zero_iff (c a : Q) (hc : c ≠ 0) : c * a = 0 ↔ a = 0 := by
  constructor
  · intro h; grind
  · intro h; subst h; exact Rat.mul_zero c

theorem mul_pos_iff (c a : Q) (hc : 0 < c) : 0 < c * a ↔ 0 < a := by
  have := Rat.mul_lt_mul_left (a := 0) (b := a) hc
  rwa [Rat.mul_zero] at this

theorem mul_neg_iff (c a : Q) (hc : 0 < c) : c * a < 0 ↔ a < 0 := by
  have := Rat.mul_lt_mul_left (a := a) (b := 0) hc
  rwa [Rat.mul_zero] at this

theorem mul_le_iff (c a b : Q) (hc : 0 < c) : c * a ≤ c * b ↔ a ≤ b := by
  rw [← Rat.not_lt, ← Rat.not_lt, Rat.mul_lt_mul_left hc]

/-- `(c·a)/(c·b) = a/b` for `c ≠ 0` (also when `b = 0`: both sides are `x/0 = 0` in `Rat`,
    which is why every *theorem* using it carries its own non-zero guard). -/
theorem div_scale (c a b : Q) (hc : c ≠ 0) : (c * a) / (c * b) = a / b := by
  by_cases hb : b = 0
  · subst hb; simp [Rat.mul_zero, Rat.div_def, Rat.inv_zero]
  · grind

/-- torch division is homogeneous for a positive factor, *including* the `x/0` conventions
    (`nan`, `+inf`, `-inf` keep their sign). -/
theorem xdiv_scale (c a b : Q) (hc : 0 < c) : xdiv (c * a) (c * b) = xdiv a b := by
  have hc' : c ≠ 0 := by grind
  unfold xdiv
  by_cases hb : b = 0
  · subst hb
    by_cases ha : a = 0
    · subst ha; simp [Rat.mul_zero]
    · have h1 : c * a ≠ 0 := fun h => ha ((mul_eq_zero_iff c a hc').mp h)
      simp only [Rat.mul_zero, if_true, ha, h1, if_false, mul_pos_iff c a hc]
  · have h1 : c * b ≠ 0 := fun h => hb ((mul_eq_zero_iff c b hc').mp h)
    simp only [hb, h1, if_false, div_scale c a b hc']

theorem sum_map_scale (c : Q) (l : List Q) : (l.map (c * ·)).sum = c * l.sum := by
  induction l with
  | nil => simp [Rat.mul_zero]
  | cons a l ih => simp only [List.map_cons, List.sum_cons, ih]; grind

theorem sum_map_scale' {α : Type} (c : Q) (l : List α) (g : α → Q) :
    (l.map fun x => c * g x).sum = c * (l.map g).sum := by
  induction l with
  | nil => simp [Rat.mul_zero]
  | cons a l ih => simp only [List.map_cons, List.sum_cons, ih]; grind

theorem foldl_add_eq (l : List Q) (x : Q) : l.foldl (· + ·) x = x + l.sum := by
  induction l generalizing x with
  | nil => simp [Rat.add_zero]
  | cons a l ih => simp only [List.foldl_cons, List.sum_cons, ih]; grind

theorem qsum_eq_sum (l : List Q) : qsum l = l.sum := by
  unfold qsum; rw [foldl_add_eq]; grind

theorem sum_append_self (l : List Q) : (l ++ l).sum = 2 * l.sum := by
  rw [List.sum_append]; grind

theorem natCast_two_mul (n : Nat) : ((2 * n : Nat) : Q) = 2 * (n : Q) := by
  push_cast; rfl

theorem natCast_add_self (n : Nat) : ((n + n : Nat) : Q) = 2 * (n : Q) := by
  push_cast; grind

theorem two_pos : (0 : Q) < 2 := by decide
theorem two_ne_zero : (2 : Q) ≠ 0 := by decide

/-! ### strictly increasing maps -/

/-- `f` is strictly increasing on the domain `D` (an order embedding of `D ⊆ Q`): the maps C17 talks about
    need only be increasing where the scores live (`x ↦ x²` on `[0, 1]`, any affine map with positive slope
    everywhere). -/
def MonoOn (D : Q → Prop) (f : Q → Q) : Prop := ∀ a b, D a → D b → (a < b ↔ f a < f b)

/-- strictly increasing on all of `Q`. -/
def Mono (f : Q → Q) : Prop := ∀ a b, a < b ↔ f a < f b

theorem Mono.on {f : Q → Q} (h : Mono f) (D : Q → Prop) : MonoOn D f := fun a b _ _ => h a b

theorem MonoOn.lt {D : Q → Prop} {f : Q → Q} (h : MonoOn D f) {a b : Q} (ha : D a) (hb : D b) :
    f a < f b ↔ a < b := (h a b ha hb).symm

theorem MonoOn.le {D : Q → Prop} {f : Q → Q} (h : MonoOn D f) {a b : Q} (ha : D a) (hb : D b) :
    f a ≤ f b ↔ a ≤ b := by
  rw [← Rat.not_lt, ← Rat.not_lt, h.lt hb ha]

theorem MonoOn.eq {D : Q → Prop} {f : Q → Q} (h : MonoOn D f) {a b : Q} (ha : D a) (hb : D b) :
    f a = f b ↔ a = b := by
  constructor
  · intro e
    apply Rat.le_antisymm
    · rw [← h.le ha hb, e]; exact Rat.le_refl
    · rw [← h.le hb ha, e]; exact Rat.le_refl
  · intro e; rw [e]

/-- positive-slope affine maps are strictly increasing everywhere (maps the harness applies:
    `x/2`, `(x+1)/2`, `(3x+1)/4`, `2x−3`, `x/8+5`). -/
theorem mono_affine (a b : Q) (ha : 0 < a) : Mono fun x => a * x + b := by
  intro x y
  have := Rat.mul_lt_mul_left (a := x) (b := y) ha
  constructor
  · intro h; have := this.mpr h; grind
  · intro h; apply this.mp; grind

private theorem sq_lt_sq {a b : Q} (ha : 0 ≤ a) (h : a < b) : a * a < b * b := by
  have hb : 0 < b := by grind
  have h1 : b * a < b * b := Rat.mul_lt_mul_of_pos_left h hb
  by_cases h0 : a = 0
  · subst h0; have := Rat.mul_pos hb hb; simpa [Rat.mul_zero] using this
  · have ha' : 0 < a := by grind
    have h2 : a * a < a * b := Rat.mul_lt_mul_of_pos_left h ha'
    grind

/-- `x ↦ x²` is strictly increasing on the non-negative scores (probabilities). -/
theorem monoOn_square : MonoOn (fun x => 0 ≤ x) fun x => x * x := by
  intro a b ha hb
  constructor
  · exact sq_lt_sq ha
  · intro h
    apply Rat.not_le.mp
    intro hle
    by_cases e : b = a
    · subst e; exact Rat.lt_irrefl h
    · have : b < a := Rat.lt_of_le_of_ne hle e
      have := sq_lt_sq hb this
      grind

end TE.MetaL
