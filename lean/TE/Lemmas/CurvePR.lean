/-
  TE.Lemmas.CurvePR — helper lemmas for C05, part 3: the precision-recall curve
  pipeline (cumulative counts at the last element of every tie group, flipped,
  with the appended (1, 0) point) equals counting the samples scored at or above
  each distinct score; Riemann sum; maximum under a precision bound.
-/
import TE.Lemmas.CurveAuroc
namespace TE.CurveL
open TE TE.Curve TE.Spec.Curve

/-! ### cumulative sums over strictly descending groups = "scored at or above" sums -/

/-- indicator `[t ≤ s]` -/
def ge (t s : Q) : Q := if t ≤ s then 1 else 0

theorem cumsum_groups (w : Pt → Q) (gs : List Pt) (h : SDesc gs) (acc : Q) :
    cumsumFrom acc (gs.map w) = gs.map fun g => acc + wsum w (ge g.s) gs := by
  induction gs generalizing acc with
  | nil => rfl
  | cons g gs ih =>
    have hg := (List.pairwise_cons.mp h).1
    have ih := ih (List.pairwise_cons.mp h).2 (acc + w g)
    simp only [List.map_cons, cumsumFrom, ih, wsum_cons]
    congr 1
    · have : wsum w (ge g.s) gs = 0 := by
        unfold wsum
        have e : (gs.map fun x => w x * ge g.s x.s) = gs.map fun _ => (0 : Q) := by
          apply List.map_congr_left
          intro y hy
          have := hg y hy
          have hn : ¬ g.s ≤ y.s := by grind
          simp only [ge, hn, if_false]; grind
        rw [e, sum_map_zero]
      rw [this]
      have : ge g.s g.s = 1 := by unfold ge; simp
      rw [this]; grind
    · apply List.map_congr_left
      intro y hy
      have := hg y hy
      have : ge y.s g.s = 1 := by
        unfold ge
        have : y.s ≤ g.s := by grind
        simp [this]
      rw [this]; grind

/-! ### labelled samples of the curve functionals -/

/-- the sample as `_compute_for_each_class` sees it: a positive adds 1 to
    `num_tp`, anything else adds 1 to `num_fp`. -/
def lsPt (x : LS) : Pt := ⟨x.1, b2q x.2, 1 - b2q x.2⟩

theorem posPts_eq (xs ts : List Q) : posPts xs ts = (posLS xs ts).map lsPt := by
  simp [posPts, posLS, lsPt, List.map_map, Function.comp_def]

theorem wsum_a_ge (ls : List LS) (t : Q) : wsum Pt.a (ge t) (ls.map lsPt) = (tpAt ls t : Q) := by
  unfold wsum tpAt
  rw [List.map_map, ← sum_b2q_eq_countP]
  apply sum_map_congr
  intro x _
  simp only [Function.comp_def, lsPt, ge, b2q]
  by_cases h1 : x.2 = true <;> by_cases h2 : t ≤ x.1 <;> simp [h1, h2] <;> grind

theorem wsum_b_ge (ls : List LS) (t : Q) : wsum Pt.b (ge t) (ls.map lsPt) = (fpAt ls t : Q) := by
  unfold wsum fpAt
  rw [List.map_map, ← sum_b2q_eq_countP]
  apply sum_map_congr
  intro x _
  simp only [Function.comp_def, lsPt, ge, b2q]
  by_cases h1 : x.2 = true <;> by_cases h2 : t ≤ x.1 <;> simp [h1, h2] <;> grind

theorem sum_a_nPos (ls : List LS) : ((ls.map lsPt).map Pt.a).sum = (nPos ls : Q) := by
  unfold nPos
  rw [List.map_map, ← sum_b2q_eq_countP]
  rfl

theorem tpAt_le_nPos (ls : List LS) (t : Q) : tpAt ls t ≤ nPos ls := by
  unfold tpAt nPos
  apply List.countP_mono_left
  intro x _ hx
  simp only [Bool.and_eq_true] at hx
  exact hx.1

/-- at a threshold that is the score of some sample, at least one sample is
    counted: the precision denominator is not zero. -/
theorem tp_add_fp_ne_zero (ls : List LS) (t : Q) (h : ∃ x ∈ ls, x.1 = t) :
    (tpAt ls t : Q) + (fpAt ls t : Q) ≠ 0 := by
  obtain ⟨x, hx, rfl⟩ := h
  rw [← Rat.natCast_add]
  intro e
  have e := Rat.natCast_eq_zero_iff.mp e
  cases hb : x.2 with
  | true =>
    have : 0 < tpAt ls x.1 := List.countP_pos_iff.mpr ⟨x, hx, by simp [hb]⟩
    omega
  | false =>
    have : 0 < fpAt ls x.1 := List.countP_pos_iff.mpr ⟨x, hx, by simp [hb]⟩
    omega

/-! ### distinct ascending thresholds: uniqueness -/

theorem strictAsc_ext (l₁ l₂ : List Q) (h₁ : l₁.Pairwise (· < ·)) (h₂ : l₂.Pairwise (· < ·))
    (hm : ∀ t, t ∈ l₁ ↔ t ∈ l₂) : l₁ = l₂ := by
  induction l₁ generalizing l₂ with
  | nil =>
    cases l₂ with
    | nil => rfl
    | cons b r => exact absurd ((hm b).mpr (List.mem_cons_self ..)) (by simp)
  | cons a r₁ ih =>
    cases l₂ with
    | nil => exact absurd ((hm a).mp (List.mem_cons_self ..)) (by simp)
    | cons b r₂ =>
      have ha := (List.pairwise_cons.mp h₁).1
      have hb := (List.pairwise_cons.mp h₂).1
      have hab : a = b := by
        rcases List.mem_cons.mp ((hm a).mp (List.mem_cons_self ..)) with e | e
        · exact e
        · rcases List.mem_cons.mp ((hm b).mpr (List.mem_cons_self ..)) with e' | e'
          · exact e'.symm
          · have := ha b e'; have := hb a e; grind
      subst hab
      congr 1
      apply ih r₂ (List.pairwise_cons.mp h₁).2 (List.pairwise_cons.mp h₂).2
      intro t
      constructor
      · intro ht
        rcases List.mem_cons.mp ((hm t).mp (List.mem_cons_of_mem _ ht)) with e | e
        · have := ha t ht; grind
        · exact e
      · intro ht
        rcases List.mem_cons.mp ((hm t).mpr (List.mem_cons_of_mem _ ht)) with e | e
        · have := hb t ht; grind
        · exact e

theorem mem_insertDistinct (t u : Q) (l : List Q) : u ∈ insertDistinct t l ↔ u = t ∨ u ∈ l := by
  induction l with
  | nil => simp [insertDistinct]
  | cons v r ih =>
    simp only [insertDistinct]
    by_cases h1 : t < v
    · simp [h1]
    · by_cases h2 : t = v
      · simp only [h2, if_true, List.mem_cons]; grind
      · simp only [h1, h2, if_false, List.mem_cons, ih]; grind

theorem insertDistinct_sorted (t : Q) (l : List Q) (h : l.Pairwise (· < ·)) :
    (insertDistinct t l).Pairwise (· < ·) := by
  induction l with
  | nil => simp [insertDistinct]
  | cons v r ih =>
    have hv := (List.pairwise_cons.mp h).1
    have hr := (List.pairwise_cons.mp h).2
    simp only [insertDistinct]
    by_cases h1 : t < v
    · simp only [h1, if_true]
      refine List.pairwise_cons.mpr ⟨?_, h⟩
      intro u hu
      rcases List.mem_cons.mp hu with rfl | hu
      · exact h1
      · have := hv u hu; grind
    · by_cases h2 : t = v
      · subst h2
        simp only [h1, if_false, if_true]; exact h
      · simp only [h1, h2, if_false]
        refine List.pairwise_cons.mpr ⟨?_, ih hr⟩
        intro u hu
        rcases (mem_insertDistinct t u r).mp hu with rfl | hu
        · grind
        · exact hv u hu

theorem distinctAsc_sorted (l : List Q) : (distinctAsc l).Pairwise (· < ·) := by
  induction l with
  | nil => exact List.Pairwise.nil
  | cons x l ih => exact insertDistinct_sorted x _ ih

theorem mem_distinctAsc (l : List Q) (t : Q) : t ∈ distinctAsc l ↔ t ∈ l := by
  induction l with
  | nil => simp [distinctAsc]
  | cons x l ih =>
    show t ∈ insertDistinct x (distinctAsc l) ↔ _
    rw [mem_insertDistinct, ih, List.mem_cons]

/-- the flipped group scores of any descending arrangement are the distinct scores, ascending. -/
theorem thresholds_eq (ls : List LS) (srt : List Pt) (hp : srt.Perm (ls.map lsPt)) (hd : Desc srt) :
    ((collapse srt).map (·.s)).reverse = distinctAsc (ls.map (·.1)) := by
  apply strictAsc_ext
  · rw [List.pairwise_reverse, List.pairwise_map]
    exact collapse_sdesc srt hd
  · exact distinctAsc_sorted _
  · intro t
    rw [List.mem_reverse, mem_distinctAsc, List.mem_map, List.mem_map]
    constructor
    · rintro ⟨g, hg, e⟩
      obtain ⟨x, hx, e'⟩ := (mem_collapse_s srt t).mp ⟨g, hg, e⟩
      obtain ⟨y, hy, rfl⟩ := List.mem_map.mp (hp.mem_iff.mp hx)
      exact ⟨y, hy, e'⟩
    · rintro ⟨y, hy, e⟩
      have : lsPt y ∈ srt := hp.mem_iff.mpr (List.mem_map.mpr ⟨y, hy, rfl⟩)
      obtain ⟨g, hg, e'⟩ := (mem_collapse_s srt t).mpr ⟨lsPt y, this, e⟩
      exact ⟨g, hg, e'⟩

/-! ### the curve -/

/-- the spec curve in the output type of the model. -/
def curveX (c : Curve) : PRC := ⟨c.precision.map XQ.val, c.recall.map XQ.val, c.thresholds⟩

theorem nanfix_val (l : List Q) (hl : l ≠ []) :
    (if (l.map XQ.val ++ [XQ.val 0]).head? == some XQ.nan
      then (l.map XQ.val ++ [XQ.val 0]).map nanTo1 else l.map XQ.val ++ [XQ.val 0])
      = l.map XQ.val ++ [XQ.val 0] := by
  cases l with
  | nil => exact absurd rfl hl
  | cons x r => simp

theorem nanfix_nan {α : Type} (l : List α) (hl : l ≠ []) :
    (if (l.map (fun _ => XQ.nan) ++ [XQ.val 0]).head? == some XQ.nan
      then (l.map (fun _ => XQ.nan) ++ [XQ.val 0]).map nanTo1
      else l.map (fun _ => XQ.nan) ++ [XQ.val 0])
      = l.map (fun _ => XQ.val 1) ++ [XQ.val 0] := by
  cases l with
  | nil => exact absurd rfl hl
  | cons x r => simp [nanTo1, Function.comp_def]

/-- `_compute_for_each_class` on any descending arrangement of the samples = the
    curve of the definition. -/
theorem prCurveSorted_eq (ls : List LS) (srt : List Pt) (hp : srt.Perm (ls.map lsPt))
    (hd : Desc srt) (hne : ls ≠ []) :
    prCurveSorted srt = .ok (curveX (prCurve ls)) := by
  have hs := collapse_sdesc srt hd
  have hsne : srt ≠ [] := by
    intro e; rw [e] at hp
    have := List.Perm.nil_eq hp
    simp at this; exact hne this
  have hcne : collapse srt ≠ [] := by
    cases srt with
    | nil => exact absurd rfl hsne
    | cons x r => obtain ⟨g, gs, hc, _⟩ := collapse_head_s x r; rw [hc]; simp
  -- cumulative counts at the group ends
  have hA : cumsumFrom 0 ((collapse srt).map (·.a))
      = ((collapse srt).map (·.s)).map fun t => (tpAt ls t : Q) := by
    rw [cumsum_groups (·.a) _ hs, List.map_map]
    apply List.map_congr_left
    intro g _
    show 0 + wsum Pt.a (ge g.s) (collapse srt) = _
    rw [collapse_wsum_a, wsum_perm hp, wsum_a_ge]; grind
  have hB : cumsumFrom 0 ((collapse srt).map (·.b))
      = ((collapse srt).map (·.s)).map fun t => (fpAt ls t : Q) := by
    rw [cumsum_groups (·.b) _ hs, List.map_map]
    apply List.map_congr_left
    intro g _
    show 0 + wsum Pt.b (ge g.s) (collapse srt) = _
    rw [collapse_wsum_b, wsum_perm hp, wsum_b_ge]; grind
  have hP : (((collapse srt).map (·.s)).map fun t => (tpAt ls t : Q)).getLast? = some (nPos ls : Q) := by
    rw [← hA, getLast?_cumsumFrom _ _ (by simpa using hcne)]
    have : ((collapse srt).map (·.a)).sum = (nPos ls : Q) := by
      show ((collapse srt).map Pt.a).sum = _
      rw [collapse_sum_a, sum_map_perm hp, sum_a_nPos]
    rw [this]; congr 1; grind
  have hT := thresholds_eq ls srt hp hd
  have hTne : distinctAsc (ls.map (·.1)) ≠ [] := by
    rw [← hT]; simpa using hcne
  have hmem : ∀ t ∈ distinctAsc (ls.map (·.1)), ∃ x ∈ ls, x.1 = t := by
    intro t ht
    exact List.mem_map.mp ((mem_distinctAsc _ t).mp ht)
  have hT0 := hT
  generalize (collapse srt).map (·.s) = Td at hA hB hP hT
  unfold prCurveSorted cumsum
  simp only [select_cumsum_a, select_cumsum_b, select_scores, hA, hB, hP]
  simp only [List.zip_map', List.map_map, ← List.map_reverse, hT, Function.comp_def]
  -- precision
  have hprec : (distinctAsc (ls.map (·.1))).map (fun t => xdiv (tpAt ls t : Q) ((tpAt ls t : Q) + (fpAt ls t : Q)))
      = ((distinctAsc (ls.map (·.1))).map (precisionAt ls)).map XQ.val := by
    rw [List.map_map]
    apply List.map_congr_left
    intro t ht
    have := tp_add_fp_ne_zero ls t (hmem t ht)
    simp [xdiv, this, precisionAt]
  rw [hprec]
  by_cases hz : nPos ls = 0
  · -- no positive: every recall is 0/0 = NaN, replaced by 1
    have hrec : (distinctAsc (ls.map (·.1))).map (fun t => xdiv (tpAt ls t : Q) (nPos ls : Q))
        = (distinctAsc (ls.map (·.1))).map (fun _ => XQ.nan) := by
      apply List.map_congr_left
      intro t _
      have h0 : tpAt ls t = 0 := by have := tpAt_le_nPos ls t; omega
      simp [xdiv, hz, h0]
    rw [hrec, nanfix_nan _ hTne]
    simp [curveX, prCurve, recallAt, hz, Function.comp_def, hT0]
  · have hq : (nPos ls : Q) ≠ 0 := fun e => hz (Rat.natCast_eq_zero_iff.mp e)
    have hrec : (distinctAsc (ls.map (·.1))).map (fun t => xdiv (tpAt ls t : Q) (nPos ls : Q))
        = ((distinctAsc (ls.map (·.1))).map (recallAt ls)).map XQ.val := by
      rw [List.map_map]
      apply List.map_congr_left
      intro t _
      simp [xdiv, hq, recallAt, hz]
    rw [hrec, nanfix_val _ (by simpa using hTne)]
    simp [curveX, prCurve, hT0]

theorem prCurveSorted_nil : prCurveSorted [] = .error .runtime := rfl

/-! ### Riemann sum -/

theorem allQ?_map_val (l : List Q) : allQ? (l.map XQ.val) = some l := by
  induction l with
  | nil => rfl
  | cons x l ih => simp [allQ?, xq?, ih]

theorem riemann_eq_stepSum (r p : List Q) : riemann r p = stepSum r p := by
  unfold riemann
  induction r generalizing p with
  | nil => simp [riemannSum, stepSum]
  | cons x₀ r ih =>
    cases r with
    | nil => simp [riemannSum, stepSum]
    | cons x₁ xs =>
      cases p with
      | nil => simp [riemannSum, stepSum]
      | cons y₀ ys =>
        have := ih ys
        simp only [riemannSum, stepSum] at this ⊢
        rw [← this]; grind

theorem auprcOf_curveX (c : Curve) : auprcOf (curveX c) = .val (stepSum c.recall c.precision) := by
  simp [auprcOf, curveX, allQ?_map_val, riemann_eq_stepSum]

/-! ### maximum -/

theorem foldl_qmax (l : List Q) (init : Q) :
    (l.foldl qmax init = init ∨ l.foldl qmax init ∈ l) ∧ init ≤ l.foldl qmax init
      ∧ ∀ x ∈ l, x ≤ l.foldl qmax init := by
  induction l generalizing init with
  | nil => simp
  | cons y l ih =>
    obtain ⟨h1, h2, h3⟩ := ih (qmax init y)
    simp only [List.foldl_cons]
    have hm : (qmax init y = init ∨ qmax init y = y) ∧ init ≤ qmax init y ∧ y ≤ qmax init y := by
      unfold qmax
      by_cases h : init < y <;> simp [h] <;> grind
    refine ⟨?_, by grind, ?_⟩
    · rcases h1 with e | e
      · rcases hm.1 with e' | e'
        · left; rw [e, e']
        · right; rw [e, e']; exact List.mem_cons_self ..
      · right; exact List.mem_cons_of_mem _ e
    · intro x hx
      rcases List.mem_cons.mp hx with rfl | hx
      · grind
      · exact h3 x hx

theorem listMax_spec (l : List Q) (hne : l ≠ []) :
    ∃ m, listMax l = .ok m ∧ m ∈ l ∧ ∀ x ∈ l, x ≤ m := by
  cases l with
  | nil => exact absurd rfl hne
  | cons x l =>
    obtain ⟨h1, h2, h3⟩ := foldl_qmax l x
    refine ⟨l.foldl qmax x, rfl, ?_, ?_⟩
    · rcases h1 with e | e
      · rw [e]; exact List.mem_cons_self ..
      · exact List.mem_cons_of_mem _ e
    · intro y hy
      rcases List.mem_cons.mp hy with rfl | hy
      · exact h2
      · exact h3 y hy

theorem exists_zip_of_mem_right {α β : Type} (l₁ : List α) (l₂ : List β) (h : l₂.length ≤ l₁.length)
    (y : β) (hy : y ∈ l₂) : ∃ x, (x, y) ∈ l₁.zip l₂ := by
  induction l₂ generalizing l₁ with
  | nil => simp at hy
  | cons b r ih =>
    cases l₁ with
    | nil => simp at h
    | cons a l₁ =>
      rcases List.mem_cons.mp hy with rfl | hy
      · exact ⟨a, by simp⟩
      · obtain ⟨x, hx⟩ := ih l₁ (by simpa using h) hy
        exact ⟨x, by simp [hx]⟩

/-- `_recall_at_precision` on a finite curve whose last point is (precision 1, recall 0). -/
theorem recallAtPrecision_curveX (c : Curve) (minP : Q)
    (hlen : c.recall.length = c.thresholds.length + 1)
    (hlast : ∃ rp ∈ c.recall.zip c.precision, minP ≤ rp.2) :
    ∃ m t, recallAtPrecision (curveX c) minP = .ok (.val m, .val (qabs t))
      ∧ IsMaxRecall c minP m ∧ IsBestThreshold c m t := by
  obtain ⟨rp, hrp, hb⟩ := hlast
  have hne1 : ((c.recall.zip c.precision).filter fun rp => decide (minP ≤ rp.2)).map (·.1) ≠ [] := by
    intro e
    have : rp ∈ (c.recall.zip c.precision).filter fun rp => decide (minP ≤ rp.2) :=
      List.mem_filter.mpr ⟨hrp, by simpa using hb⟩
    rw [List.map_eq_nil_iff] at e
    rw [e] at this; simp at this
  obtain ⟨m, hm, hmem, hmax⟩ := listMax_spec _ hne1
  obtain ⟨rp', hrp', e'⟩ := List.mem_map.mp hmem
  have hrp'' := List.mem_filter.mp hrp'
  have hmr : m ∈ c.recall := by
    rw [← e']; exact (List.of_mem_zip hrp''.1).1
  obtain ⟨t0, ht0⟩ := exists_zip_of_mem_right (c.thresholds ++ [-1]) c.recall (by simp [hlen]) m hmr
  have hne2 : (((c.thresholds ++ [-1]).zip c.recall).filter fun (tr : Q × Q) => tr.2 == m).map (fun (tr : Q × Q) => tr.1) ≠ [] := by
    intro e
    have : (t0, m) ∈ ((c.thresholds ++ [-1]).zip c.recall).filter fun (tr : Q × Q) => tr.2 == m :=
      List.mem_filter.mpr ⟨ht0, by simp⟩
    rw [List.map_eq_nil_iff] at e
    rw [e] at this; simp at this
  obtain ⟨t, ht, htmem, htmax⟩ := listMax_spec _ hne2
  refine ⟨m, t, ?_, ⟨⟨rp', hrp''.1, by simpa using hrp''.2, e'⟩, ?_⟩, ⟨?_, ?_⟩⟩
  · simp only [TE.Curve.recallAtPrecision, curveX, allQ?_map_val]
    simp only [bind, Except.bind, hm, ht]
  · intro q hq hqb
    apply hmax
    exact List.mem_map.mpr ⟨q, List.mem_filter.mpr ⟨hq, by simpa using hqb⟩, rfl⟩
  · obtain ⟨tr, htr, e⟩ := List.mem_map.mp htmem
    have := List.mem_filter.mp htr
    exact ⟨tr, this.1, by simpa using this.2, e⟩
  · intro q hq hqr
    apply htmax
    exact List.mem_map.mpr ⟨q, List.mem_filter.mpr ⟨hq, by simpa using hqr⟩, rfl⟩

/-! ### the vectorised multiclass row = the per-class routine -/

theorem select_map {α β : Type} (f : α → β) (m : List Bool) (l : List α) :
    select m (l.map f) = (select m l).map f := by
  induction m generalizing l with
  | nil => cases l <;> rfl
  | cons b m ih =>
    cases l with
    | nil => rfl
    | cons x l => cases b <;> simp [select, ih]

theorem select_append {α : Type} (m₁ m₂ : List Bool) (l₁ l₂ : List α) (h : m₁.length = l₁.length) :
    select (m₁ ++ m₂) (l₁ ++ l₂) = select m₁ l₁ ++ select m₂ l₂ := by
  induction m₁ generalizing l₁ with
  | nil =>
    have : l₁ = [] := List.length_eq_zero_iff.mp (by simpa using h.symm)
    subst this
    cases m₂ <;> cases l₂ <;> rfl
  | cons b m ih =>
    cases l₁ with
    | nil => simp at h
    | cons x l =>
      have := ih l (by simpa using h)
      cases b <;> simp [select, this]

theorem select_reverse {α : Type} (m : List Bool) (l : List α) (h : m.length = l.length) :
    select m.reverse l.reverse = (select m l).reverse := by
  induction m generalizing l with
  | nil =>
    have : l = [] := List.length_eq_zero_iff.mp (by simpa using h.symm)
    subst this; rfl
  | cons b m ih =>
    cases l with
    | nil => simp at h
    | cons x l =>
      have hl : m.length = l.length := by simpa using h
      rw [List.reverse_cons, List.reverse_cons, select_append _ _ _ _ (by simpa using hl), ih l hl]
      cases b <;> simp [select]

theorem select_zip {α β : Type} (m : List Bool) (l₁ : List α) (l₂ : List β) :
    select m (l₁.zip l₂) = (select m l₁).zip (select m l₂) := by
  induction m generalizing l₁ l₂ with
  | nil => cases l₁ <;> cases l₂ <;> rfl
  | cons b m ih =>
    cases l₁ with
    | nil => cases l₂ <;> simp [select]
    | cons x l₁ =>
      cases l₂ with
      | nil => cases b <;> simp [select]
      | cons y l₂ => cases b <;> simp [select, ih]

theorem reverse_zip {α β : Type} (l₁ : List α) (l₂ : List β) (h : l₁.length = l₂.length) :
    l₁.reverse.zip l₂.reverse = (l₁.zip l₂).reverse := by
  induction l₁ generalizing l₂ with
  | nil => cases l₂ <;> simp
  | cons a l₁ ih =>
    cases l₂ with
    | nil => simp at h
    | cons b l₂ =>
      have hl : l₁.length = l₂.length := by simpa using h
      simp only [List.reverse_cons, List.zip_cons_cons]
      rw [List.zip_append (by simpa using hl), ih l₂ hl]
      rfl

theorem cumsum_length (l : List Q) : (cumsum l).length = l.length := cumsumFrom_length 0 l

/-- one row of the vectorised `_multiclass_precision_recall_curve_compute` (flip
    first, compute everywhere, pad, then mask; unconditional `nan_to_num`) returns
    exactly what `_compute_for_each_class` returns, for every input. -/
theorem mcPrCurveSorted_eq (srt : List Pt) : mcPrCurveSorted srt = prCurveSorted srt := by
  cases hs : srt with
  | nil => rfl
  | cons x0 r0 =>
  rw [← hs]
  have hne : srt ≠ [] := by rw [hs]; simp
  have hcne : collapse srt ≠ [] := by
    rw [hs]; obtain ⟨g, gs, hc, _⟩ := collapse_head_s x0 r0; rw [hc]; simp
  have hm : (diffMask (srt.map (·.s))).length = srt.length := by rw [diffMask_length, List.length_map]
  have hca : (cumsum (srt.map (·.a))).length = srt.length := by rw [cumsum_length, List.length_map]
  have hcb : (cumsum (srt.map (·.b))).length = srt.length := by rw [cumsum_length, List.length_map]
  -- both "total positives" are the sum of the `a` masses
  have hA1 : (cumsum (srt.map (·.a))).reverse.head? = some (0 + (srt.map (·.a)).sum) := by
    rw [List.head?_reverse]
    exact getLast?_cumsumFrom 0 _ (by simpa using hne)
  have hA2 : (select (diffMask (srt.map (·.s))) (cumsum (srt.map (·.a)))).getLast?
      = some (0 + (srt.map (·.a)).sum) := by
    unfold cumsum
    rw [select_cumsum_a, getLast?_cumsumFrom 0 _ (by simpa using hcne)]
    have := collapse_sum_a srt
    show some (0 + ((collapse srt).map Pt.a).sum) = some (0 + (srt.map Pt.a).sum)
    rw [this]
  unfold mcPrCurveSorted prCurveSorted
  simp only [hA1, hA2]
  generalize hP : (0 : Q) + (srt.map (·.a)).sum = P at hA2
  generalize hM : diffMask (srt.map (·.s)) = M at hm hA2
  generalize hCA : cumsum (srt.map (·.a)) = CA at hca hA2
  generalize hCB : cumsum (srt.map (·.b)) = CB at hcb
  have hthr : (srt.map (·.s)).length = M.length := by rw [hm, List.length_map]
  -- precision
  have e1 : select (M.reverse ++ [true])
      ((CA.reverse.zip CB.reverse).map (fun p => xdiv p.1 (p.1 + p.2)) ++ [XQ.val 1])
      = (((select M CA).zip (select M CB)).map fun p => xdiv p.1 (p.1 + p.2)).reverse ++ [XQ.val 1] := by
    rw [select_append _ _ _ _ (by simp [hm, hca, hcb]), reverse_zip _ _ (by rw [hca, hcb]),
      List.map_reverse, select_reverse _ _ (by simp [hm, hca, hcb]), select_map, select_zip]
    simp [select]
  -- recall
  have e2 : select (M.reverse ++ [true])
      (CA.reverse.map (fun tp => nanTo1 (xdiv tp P)) ++ [XQ.val 0])
      = ((select M CA).map fun tp => nanTo1 (xdiv tp P)).reverse ++ [XQ.val 0] := by
    rw [select_append _ _ _ _ (by simp [hm, hca]), List.map_reverse,
      select_reverse _ _ (by simp [hm, hca]), select_map]
    simp [select]
  have e3 : select M.reverse (srt.map (·.s)).reverse = (select M (srt.map (·.s))).reverse :=
    select_reverse _ _ hthr.symm
  rw [e1, e2, e3]
  -- the conditional `nan_to_num` of the per-class routine
  have e4 : (if (((select M CA).map fun tp => xdiv tp P).reverse ++ [XQ.val 0]).head? == some XQ.nan
      then (((select M CA).map fun tp => xdiv tp P).reverse ++ [XQ.val 0]).map nanTo1
      else ((select M CA).map fun tp => xdiv tp P).reverse ++ [XQ.val 0])
      = ((select M CA).map fun tp => nanTo1 (xdiv tp P)).reverse ++ [XQ.val 0] := by
    have hmap : (((select M CA).map fun tp => xdiv tp P).reverse ++ [XQ.val 0]).map nanTo1
        = ((select M CA).map fun tp => nanTo1 (xdiv tp P)).reverse ++ [XQ.val 0] := by
      simp [nanTo1, List.map_reverse, Function.comp_def]
    by_cases hz : P = 0
    · have hh : (((select M CA).map fun tp => xdiv tp P).reverse ++ [XQ.val 0]).head? = some XQ.nan := by
        rw [List.head?_append, List.head?_reverse, List.getLast?_map, hA2]
        simp [xdiv, hz]
      rw [hh]
      simp only [beq_self_eq_true, if_true]
      exact hmap
    · have hid : ((select M CA).map fun tp => nanTo1 (xdiv tp P)) = (select M CA).map fun tp => xdiv tp P := by
        apply List.map_congr_left
        intro tp _
        simp [xdiv, hz, nanTo1]
      have hh : ((((select M CA).map fun tp => xdiv tp P).reverse ++ [XQ.val 0]).head? == some XQ.nan) = false := by
        rw [List.head?_append, List.head?_reverse, List.getLast?_map, hA2]
        simp [xdiv, hz]
      rw [hh, hid]
      simp
  rw [e4]

theorem ovrPts_eq_lsPt (c : Nat) (col labs : List Q) :
    ovrPts c col labs = (ovrLS c col labs).map lsPt := by
  unfold ovrPts ovrLS
  rw [List.map_map]
  apply List.map_congr_left
  intro p _
  by_cases h : (p.2 == (c : Q)) = true <;> simp [lsPt, b2q, h] <;> grind

theorem averagedX_val (avg : Avg) (per : List Q) : averagedX avg (per.map XQ.val) = averaged avg per := by
  cases avg <;> simp [averagedX, averaged, allQ?_map_val]

/-! ### small facts about the spec -/

theorem maxOf_eq_none (l : List Q) (h : maxOf l = none) : l = [] := by
  cases l with
  | nil => rfl
  | cons x xs =>
    simp only [maxOf] at h
    split at h <;> simp at h

theorem maxOf_spec (l : List Q) (m : Q) (h : maxOf l = some m) : m ∈ l ∧ ∀ x ∈ l, x ≤ m := by
  induction l generalizing m with
  | nil => simp [maxOf] at h
  | cons x xs ih =>
    simp only [maxOf] at h
    split at h
    · rename_i hn
      have := maxOf_eq_none xs hn
      subst this
      simp only [Option.some.injEq] at h
      subst h
      simp
    · rename_i m' hm'
      obtain ⟨h1, h2⟩ := ih m' hm'
      simp only [Option.some.injEq] at h
      by_cases hc : m' ≤ x
      · simp only [hc, if_true] at h
        subst h
        refine ⟨List.mem_cons_self .., ?_⟩
        intro y hy
        rcases List.mem_cons.mp hy with rfl | hy
        · exact Rat.le_refl
        · exact Rat.le_trans (h2 y hy) hc
      · simp only [hc, if_false] at h
        subst h
        refine ⟨List.mem_cons_of_mem _ h1, ?_⟩
        intro y hy
        rcases List.mem_cons.mp hy with rfl | hy
        · grind
        · exact h2 y hy

theorem stepSum_ones_zeros {α : Type} (T : List α) (hT : T ≠ []) :
    stepSum (T.map (fun _ => (1 : Q)) ++ [0]) (T.map (fun _ => (0 : Q)) ++ [1]) = 0 := by
  induction T with
  | nil => exact absurd rfl hT
  | cons t T ih =>
    cases T with
    | nil => simp [stepSum]; grind
    | cons t' T' =>
      have := ih (by simp)
      simp only [List.map_cons, List.cons_append, stepSum] at this ⊢
      rw [this]; grind

theorem precision_le_one (ls : List LS) (p : Q) (hp : p ∈ (prCurve ls).precision) : p ≤ 1 := by
  simp only [prCurve, List.mem_append, List.mem_map, List.mem_singleton] at hp
  rcases hp with ⟨t, _, rfl⟩ | rfl
  · unfold precisionAt
    have ha : (0 : Q) ≤ (tpAt ls t : Q) := Rat.natCast_nonneg
    have hb : (0 : Q) ≤ (fpAt ls t : Q) := Rat.natCast_nonneg
    generalize (tpAt ls t : Q) = a at ha
    generalize (fpAt ls t : Q) = b at hb
    by_cases hz : a + b = 0
    · rw [hz, Rat.div_def, Rat.inv_zero, Rat.mul_zero]; decide +kernel
    · have hpos : 0 < a + b := by grind
      have h1 : a / (a + b) * (a + b) = a := by grind
      apply Rat.not_lt.mp
      intro hlt
      have h2 := (Rat.mul_lt_mul_right hpos).mpr hlt
      rw [h1] at h2
      grind
  · exact Rat.le_refl

theorem mapM_congr {α β : Type} {f g : α → Except Err β} {l : List α}
    (h : ∀ x ∈ l, f x = g x) : l.mapM f = l.mapM g := by
  induction l with
  | nil => rfl
  | cons x l ih =>
    rw [List.mapM_cons, List.mapM_cons, h x (List.mem_cons_self ..),
      ih (fun y hy => h y (List.mem_cons_of_mem _ hy))]

end TE.CurveL
