/-
  TE.Lemmas.RankSort — sorting facts behind C08's ranking theorems:
  (A) the number of strictly greater scores is the position in the descending
      ranking (hit rate / reciprocal rank);
  (B) the model's stable top-k: permutation, sortedness, truncation lemmas,
      `topk_retention`, uniqueness of a strictly sorted permutation.
-/
import TE.Model.Rank
import TE.Spec.Rank
namespace TE.RankL
open TE TE.Rank

/-! ### (A) rank = position in the sorted scores -/

section A
open TE.Spec.Rank

theorem countP_insertDesc (y x : Q) (l : List Q) :
    (insertDesc x l).countP (fun z => decide (y < z)) = (x :: l).countP (fun z => decide (y < z)) := by
  induction l with
  | nil => rfl
  | cons a l ih =>
    simp only [insertDesc]
    split
    · simp only [List.countP_cons, ih]; omega
    · rfl

theorem countP_sortedDesc (y : Q) (l : List Q) :
    (sortedDesc l).countP (fun z => decide (y < z)) = l.countP (fun z => decide (y < z)) := by
  induction l with
  | nil => rfl
  | cons a l ih => simp only [sortedDesc, countP_insertDesc, List.countP_cons, ih]

theorem mem_insertDesc (y x : Q) (l : List Q) : y ∈ insertDesc x l ↔ y = x ∨ y ∈ l := by
  induction l with
  | nil => simp [insertDesc]
  | cons a l ih =>
    simp only [insertDesc]
    split
    · simp only [List.mem_cons, ih]
      constructor
      · rintro (h | h | h) <;> simp [h]
      · rintro (h | h | h) <;> simp [h]
    · simp [List.mem_cons]

theorem mem_sortedDesc (y : Q) (l : List Q) : y ∈ sortedDesc l ↔ y ∈ l := by
  induction l with
  | nil => simp [sortedDesc]
  | cons a l ih => simp [sortedDesc, mem_insertDesc, ih]

/-- descending (weakly). -/
def Desc (l : List Q) : Prop := l.Pairwise (fun a b => b ≤ a)

theorem desc_insertDesc (x : Q) (l : List Q) (h : Desc l) : Desc (insertDesc x l) := by
  induction l with
  | nil => simp [insertDesc, Desc]
  | cons a l ih =>
    have ha : ∀ b ∈ l, b ≤ a := (List.pairwise_cons.mp h).1
    have hl : Desc l := (List.pairwise_cons.mp h).2
    simp only [insertDesc]
    split
    · rename_i hxa
      refine List.pairwise_cons.mpr ⟨?_, ih hl⟩
      intro b hb
      rcases (mem_insertDesc b x l).mp hb with rfl | hb
      · exact Rat.le_of_lt hxa
      · exact ha b hb
    · rename_i hxa
      have hax : a ≤ x := Rat.not_lt.mp hxa
      refine List.pairwise_cons.mpr ⟨?_, h⟩
      intro b hb
      rcases List.mem_cons.mp hb with rfl | hb
      · exact hax
      · exact Rat.le_trans (ha b hb) hax

theorem desc_sortedDesc (l : List Q) : Desc (sortedDesc l) := by
  induction l with
  | nil => simp [sortedDesc, Desc]
  | cons a l ih => exact desc_insertDesc a _ ih

/-- in a descending list the first position of `y` is the number of larger entries. -/
theorem position_eq_countP (y : Q) (s : List Q) (hs : Desc s) (hy : y ∈ s) :
    position y s = s.countP (fun z => decide (y < z)) := by
  induction s with
  | nil => cases hy
  | cons x t ih =>
    have hx : ∀ b ∈ t, b ≤ x := (List.pairwise_cons.mp hs).1
    have ht : Desc t := (List.pairwise_cons.mp hs).2
    simp only [position, List.countP_cons]
    by_cases hxy : x = y
    · subst hxy
      have h0 : t.countP (fun z => decide (x < z)) = 0 := by
        rw [List.countP_eq_zero]
        intro b hb
        have := hx b hb
        simp only [decide_eq_true_eq]
        exact Rat.not_lt.mpr this
      simp [h0, Rat.lt_irrefl]
    · have hyt : y ∈ t := by
        rcases List.mem_cons.mp hy with h | h
        · exact absurd h.symm hxy
        · exact h
      have hlt : y < x := by
        have := hx y hyt
        rcases Rat.le_iff_lt_or_eq.mp this with h | h
        · exact h
        · exact absurd h.symm hxy
      simp [hxy, ih ht hyt, hlt]

/-- **rank = explicit ranking**: the count of strictly greater scores is the
    position of the target's score in the descending order. -/
theorem rankRow_eq_position (row : List Q) (y : Q) (hy : y ∈ row) :
    rankRow row y = position y (sortedDesc row) := by
  rw [position_eq_countP y _ (desc_sortedDesc row) ((mem_sortedDesc y row).mpr hy), countP_sortedDesc]
  rfl

end A

/-! ### (B) the stable top-k -/

section B

theorem insDesc_perm (x : Pair) (l : List Pair) : (insDesc x l).Perm (x :: l) := by
  induction l with
  | nil => exact List.Perm.refl _
  | cons y l ih =>
    simp only [insDesc]
    split
    · exact List.Perm.refl _
    · exact (List.Perm.cons y ih).trans (List.Perm.swap x y l)

theorem foldl_ins_perm (s b : List Pair) :
    (b.foldl (fun acc x => insDesc x acc) s).Perm (s ++ b) := by
  induction b generalizing s with
  | nil => simp
  | cons x b ih =>
    simp only [List.foldl_cons]
    refine (ih (insDesc x s)).trans ?_
    refine ((insDesc_perm x s).append_right b).trans ?_
    simpa using (List.perm_middle (a := x) (l₁ := s) (l₂ := b)).symm

theorem sortDesc_perm (l : List Pair) : (sortDesc l).Perm l := by
  simpa [sortDesc] using foldl_ins_perm [] l

theorem sortDesc_append (a b : List Pair) :
    sortDesc (a ++ b) = b.foldl (fun acc x => insDesc x acc) (sortDesc a) := by
  simp [sortDesc, List.foldl_append]

/-- only the first `k` entries matter for the first `k` entries after an insertion. -/
theorem take_insDesc (x : Pair) (l : List Pair) (k : Nat) :
    (insDesc x l).take k = (insDesc x (l.take k)).take k := by
  induction l generalizing k with
  | nil => simp
  | cons y l ih =>
    cases k with
    | zero => simp
    | succ k =>
      simp only [List.take_succ_cons, insDesc]
      split
      · cases k with
        | zero => simp
        | succ k => simp [List.take_take]
      · simp only [List.take_succ_cons]
        rw [ih k]

theorem take_foldl_ins (b s : List Pair) (k : Nat) :
    (b.foldl (fun acc x => insDesc x acc) s).take k
      = (b.foldl (fun acc x => insDesc x acc) (s.take k)).take k := by
  induction b generalizing s with
  | nil => simp [List.take_take]
  | cons x b ih =>
    simp only [List.foldl_cons]
    rw [ih (insDesc x s), ih (insDesc x (s.take k)), take_insDesc]

/-- weakly descending by score. -/
def DescP (l : List Pair) : Prop := l.Pairwise (fun a b => b.1 ≤ a.1)

theorem mem_insDesc (y x : Pair) (l : List Pair) : y ∈ insDesc x l ↔ y = x ∨ y ∈ l := by
  rw [(insDesc_perm x l).mem_iff, List.mem_cons]

theorem descP_insDesc (x : Pair) (l : List Pair) (h : DescP l) : DescP (insDesc x l) := by
  induction l with
  | nil => simp [insDesc, DescP]
  | cons a l ih =>
    have ha : ∀ b ∈ l, b.1 ≤ a.1 := (List.pairwise_cons.mp h).1
    have hl : DescP l := (List.pairwise_cons.mp h).2
    simp only [insDesc]
    split
    · rename_i hax
      refine List.pairwise_cons.mpr ⟨?_, h⟩
      intro b hb
      rcases List.mem_cons.mp hb with rfl | hb
      · exact Rat.le_of_lt hax
      · exact Rat.le_trans (ha b hb) (Rat.le_of_lt hax)
    · rename_i hax
      have hxa : x.1 ≤ a.1 := Rat.not_lt.mp hax
      refine List.pairwise_cons.mpr ⟨?_, ih hl⟩
      intro b hb
      rcases (mem_insDesc b x l).mp hb with rfl | hb
      · exact hxa
      · exact ha b hb

theorem descP_foldl_ins (b s : List Pair) (h : DescP s) :
    DescP (b.foldl (fun acc x => insDesc x acc) s) := by
  induction b generalizing s with
  | nil => exact h
  | cons x b ih => exact ih _ (descP_insDesc x s h)

theorem descP_sortDesc (l : List Pair) : DescP (sortDesc l) :=
  descP_foldl_ins l [] List.Pairwise.nil

/-- an element not larger than everything present goes to the end. -/
theorem insDesc_append_of_le (x : Pair) (p : List Pair) (h : ∀ y ∈ p, x.1 ≤ y.1) :
    insDesc x p = p ++ [x] := by
  induction p with
  | nil => rfl
  | cons y p ih =>
    have hy : ¬ y.1 < x.1 := Rat.not_lt.mpr (h y (List.mem_cons_self ..))
    simp only [insDesc, hy, if_false, List.cons_append]
    rw [ih (fun z hz => h z (List.mem_cons_of_mem _ hz))]

theorem foldl_ins_of_desc (p s : List Pair) (h : DescP (p ++ s)) :
    s.foldl (fun acc x => insDesc x acc) p = p ++ s := by
  induction s generalizing p with
  | nil => simp
  | cons x s ih =>
    simp only [List.foldl_cons]
    have hx : ∀ y ∈ p, x.1 ≤ y.1 := by
      intro y hy
      exact (List.pairwise_append.mp h).2.2 y hy x (List.mem_cons_self ..)
    rw [insDesc_append_of_le x p hx]
    have : DescP ((p ++ [x]) ++ s) := by simpa using h
    rw [ih (p ++ [x]) this]
    simp

/-- sorting a descending list changes nothing. -/
theorem sortDesc_of_desc (s : List Pair) (h : DescP s) : sortDesc s = s := by
  simpa [sortDesc] using foldl_ins_of_desc [] s (by simpa using h)

theorem descP_take (s : List Pair) (k : Nat) (h : DescP s) : DescP (s.take k) :=
  List.Pairwise.sublist (List.take_sublist k s) h

/-- `topk` of anything is a fixed point of sorting. -/
theorem sortDesc_topk (k : Option Nat) (l : List Pair) : sortDesc (topk k l) = topk k l := by
  cases k with
  | none => exact sortDesc_of_desc _ (descP_sortDesc l)
  | some k => exact sortDesc_of_desc _ (descP_take _ k (descP_sortDesc l))

/-- **retention**: pruning the already seen items to their top-k before the
    next batch arrives loses nothing of the top-k of everything. -/
theorem topk_retention_left (k : Option Nat) (a b : List Pair) :
    topk k (topk k a ++ b) = topk k (a ++ b) := by
  cases k with
  | none =>
    simp only [topk]
    rw [sortDesc_append, sortDesc_append, sortDesc_of_desc _ (descP_sortDesc a)]
  | some k =>
    simp only [topk]
    rw [sortDesc_append, sortDesc_append,
      sortDesc_of_desc _ (descP_take _ k (descP_sortDesc a)), ← take_foldl_ins]

theorem topk_idem (k : Option Nat) (a : List Pair) : topk k (topk k a) = topk k a := by
  simpa using topk_retention_left k a []

/-- strictly descending by score. -/
def SDescP (l : List Pair) : Prop := l.Pairwise (fun a b => b.1 < a.1)

theorem sdescP_of_desc_nodup (l : List Pair) (h : DescP l) (hn : (l.map (·.1)).Nodup) : SDescP l := by
  induction l with
  | nil => exact List.Pairwise.nil
  | cons a l ih =>
    have ha := (List.pairwise_cons.mp h).1
    have hl := (List.pairwise_cons.mp h).2
    simp only [List.map_cons, List.nodup_cons] at hn
    refine List.pairwise_cons.mpr ⟨?_, ih hl hn.2⟩
    intro b hb
    rcases Rat.le_iff_lt_or_eq.mp (ha b hb) with h1 | h1
    · exact h1
    · exact absurd (by rw [← h1]; exact List.mem_map_of_mem hb) hn.1

/-- a strictly descending list is determined by its elements. -/
theorem sdescP_perm_eq (l₁ l₂ : List Pair) (h₁ : SDescP l₁) (h₂ : SDescP l₂) (hp : l₁.Perm l₂) : l₁ = l₂ := by
  induction l₁ generalizing l₂ with
  | nil => exact (List.Perm.nil_eq hp)
  | cons x t ih =>
    cases l₂ with
    | nil => exact absurd hp.length_eq (by simp)
    | cons y u =>
      have hx := (List.pairwise_cons.mp h₁).1
      have hy := (List.pairwise_cons.mp h₂).1
      have hxy : x = y := by
        apply Decidable.byContradiction
        intro hne
        have hxu : x ∈ u := by
          have : x ∈ y :: u := hp.mem_iff.mp (List.mem_cons_self ..)
          rcases List.mem_cons.mp this with h | h
          · exact absurd h hne
          · exact h
        have hyt : y ∈ t := by
          have : y ∈ x :: t := hp.mem_iff.mpr (List.mem_cons_self ..)
          rcases List.mem_cons.mp this with h | h
          · exact absurd h.symm hne
          · exact h
        have h1 := hy x hxu; have h2 := hx y hyt; grind
      subst hxy
      rw [ih u (List.pairwise_cons.mp h₁).2 (List.pairwise_cons.mp h₂).2 hp.cons_inv]

theorem sdescP_sortDesc (l : List Pair) (hn : (l.map (·.1)).Nodup) : SDescP (sortDesc l) :=
  sdescP_of_desc_nodup _ (descP_sortDesc l)
    (((sortDesc_perm l).map (·.1)).nodup_iff.mpr hn)

/-- tie-free scores: the sorted list depends only on the multiset of items. -/
theorem sortDesc_eq_of_perm (l₁ l₂ : List Pair) (hp : l₁.Perm l₂) (hn : (l₁.map (·.1)).Nodup) :
    sortDesc l₁ = sortDesc l₂ :=
  sdescP_perm_eq _ _ (sdescP_sortDesc l₁ hn)
    (sdescP_sortDesc l₂ ((hp.map (·.1)).nodup_iff.mp hn))
    ((sortDesc_perm l₁).trans (hp.trans (sortDesc_perm l₂).symm))

theorem topk_eq_of_perm (k : Option Nat) (l₁ l₂ : List Pair) (hp : l₁.Perm l₂)
    (hn : (l₁.map (·.1)).Nodup) : topk k l₁ = topk k l₂ := by
  cases k <;> simp only [topk, sortDesc_eq_of_perm l₁ l₂ hp hn]

theorem topk_sublist_perm (k : Option Nat) (l : List Pair) :
    ∃ r, (topk k l ++ r).Perm l := by
  cases k with
  | none => exact ⟨[], by simpa [topk] using sortDesc_perm l⟩
  | some k => exact ⟨(sortDesc l).drop k, by simpa [topk] using sortDesc_perm l⟩

/-- retention on the right-hand side (tie-free scores). -/
theorem topk_retention_right (k : Option Nat) (a b : List Pair) (hn : ((a ++ b).map (·.1)).Nodup) :
    topk k (a ++ topk k b) = topk k (a ++ b) := by
  obtain ⟨r, hr⟩ := topk_sublist_perm k b
  have hsub : ((a ++ topk k b).map (·.1)).Nodup := by
    have hp : ((a ++ topk k b) ++ r).Perm (a ++ b) := by
      simpa [List.append_assoc] using (List.Perm.append_left a hr)
    have : (((a ++ topk k b) ++ r).map (·.1)).Nodup := (hp.map (·.1)).nodup_iff.mpr hn
    rw [List.map_append] at this
    exact (List.nodup_append.mp this).1
  rw [topk_eq_of_perm k _ _ List.perm_append_comm hsub, topk_retention_left,
    topk_eq_of_perm k (b ++ a) (a ++ b) List.perm_append_comm
      (((List.perm_append_comm (l₁ := a) (l₂ := b)).map (fun p : Pair => p.1)).nodup_iff.mp hn)]

end B

end TE.RankL
