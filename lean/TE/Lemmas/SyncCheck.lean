/-
  TE.Lemmas.SyncCheck — the executable checker `syncableB` (TE/Spec/Sync.lean) is sound for `Syncable`.
-/
import TE.Spec.Sync
namespace TE.Sync
open TE.Spec.Sync

theorem mapM_some_spec {α β : Type} (f : α → Option β) :
    ∀ (l : List α) (r : List β), l.mapM f = some r →
      r.length = l.length ∧ ∀ (i : Nat) (a : α), l[i]? = some a → ∃ b, r[i]? = some b ∧ f a = some b := by
  intro l
  induction l with
  | nil =>
    intro r h
    simp only [List.mapM_nil, Option.pure_def, Option.some.injEq] at h
    subst h
    exact ⟨rfl, fun i a h => by simp at h⟩
  | cons x l ih =>
    intro r h
    simp only [List.mapM_cons, Option.bind_eq_bind, Option.pure_def] at h
    cases hx : f x with
    | none => simp [hx] at h
    | some b =>
      cases hl : l.mapM f with
      | none => simp [hx, hl] at h
      | some r' =>
        simp only [hx, hl, Option.bind_some, Option.some.injEq] at h
        subst h
        obtain ⟨hlen, hall⟩ := ih r' hl
        refine ⟨by simp [hlen], ?_⟩
        intro i a hia
        cases i with
        | zero =>
          simp only [List.getElem?_cons_zero, Option.some.injEq] at hia
          subst hia
          exact ⟨b, rfl, hx⟩
        | succ i =>
          simp only [List.getElem?_cons_succ] at hia ⊢
          exact hall i a hia

theorem tensorsOkB_spec {dt : DType} {k : Nat} {ts : List Tensor} (h : tensorsOkB dt k ts = true) :
    ∀ t ∈ ts, t.dtype = dt ∧ t.shape.length = k ∧ t.WF := by
  intro t ht
  simp only [tensorsOkB, List.all_eq_true, Bool.and_eq_true, beq_iff_eq] at h
  obtain ⟨⟨h1, h2⟩, h3⟩ := h t ht
  exact ⟨h1, h2, h3⟩

theorem getElem?_lt_of_lt {α : Type} (l : List α) (i : Nat) (h : i < l.length) : ∃ a, l[i]? = some a ∧ a ∈ l :=
  ⟨l[i], List.getElem?_eq_getElem h, List.getElem_mem h⟩

/-- the values of one state on the members, read off a list. -/
def stAt (sts : List TState) (i : Nat) : TState := sts[i]?.getD placeholder

theorem stateOkB_sound (sts : List TState) (h : stateOkB sts = true) : StateOk sts.length (stAt sts) := by
  cases sts with
  | nil => exact .int (fun _ => 0) (fun i hi => absurd hi (Nat.not_lt_zero i))
  | cons s0 rest =>
    cases s0 with
    | tensor t0 =>
      simp only [stateOkB] at h
      cases hm : (TState.tensor t0 :: rest).mapM asTensor with
      | none => simp [hm] at h
      | some ts =>
        simp only [hm] at h
        obtain ⟨hlen, hall⟩ := mapM_some_spec asTensor _ ts hm
        have hok := tensorsOkB_spec h
        refine .tensor (fun i => ts[i]?.getD default) (firstSig ts).1 (firstSig ts).2 ?_ ?_
        · intro i hi
          obtain ⟨a, ha, _⟩ := getElem?_lt_of_lt _ i hi
          obtain ⟨b, hb, hab⟩ := hall i a ha
          simp only [stAt, ha, hb, Option.getD_some]
          cases a <;> simp [asTensor] at hab
          rw [hab]
        · intro i hi
          obtain ⟨b, hb, hmem⟩ := getElem?_lt_of_lt ts i (by rw [hlen]; exact hi)
          simp only [hb, Option.getD_some]
          exact hok b hmem
    | list l0 =>
      simp only [stateOkB] at h
      cases hm : (TState.list l0 :: rest).mapM asList with
      | none => simp [hm] at h
      | some xss =>
        simp only [hm] at h
        obtain ⟨hlen, hall⟩ := mapM_some_spec asList _ xss hm
        have hok := tensorsOkB_spec h
        refine .list (fun i => xss[i]?.getD []) (firstSig xss.flatten).1 (firstSig xss.flatten).2 ?_ ?_
        · intro i hi
          obtain ⟨a, ha, _⟩ := getElem?_lt_of_lt _ i hi
          obtain ⟨b, hb, hab⟩ := hall i a ha
          simp only [stAt, ha, hb, Option.getD_some]
          cases a <;> simp [asList] at hab
          rw [hab]
        · intro i hi t ht
          obtain ⟨b, hb, hmem⟩ := getElem?_lt_of_lt xss i (by rw [hlen]; exact hi)
          simp only [hb, Option.getD_some] at ht
          exact hok t (List.mem_flatten.mpr ⟨b, hmem, ht⟩)
    | dict kv0 =>
      simp only [stateOkB] at h
      cases hm : (TState.dict kv0 :: rest).mapM asDict with
      | none => simp [hm] at h
      | some kvs =>
        simp only [hm, Bool.and_eq_true, List.all_eq_true, beq_iff_eq] at h
        obtain ⟨hkeys, hvals⟩ := h
        obtain ⟨hlen, hall⟩ := mapM_some_spec asDict _ kvs hm
        have hok := tensorsOkB_spec hvals
        refine .dict (fun i => kvs[i]?.getD []) (sortKeys (kv0.map (·.1)))
          (firstSig (kvs.map fun kv => valuesByKeys kv (sortKeys (kv0.map (·.1)))).flatten).1
          (firstSig (kvs.map fun kv => valuesByKeys kv (sortKeys (kv0.map (·.1)))).flatten).2 ?_ ?_ ?_
        · intro i hi
          obtain ⟨a, ha, _⟩ := getElem?_lt_of_lt _ i hi
          obtain ⟨b, hb, hab⟩ := hall i a ha
          simp only [stAt, ha, hb, Option.getD_some]
          cases a <;> simp [asDict] at hab
          rw [hab]
        · intro i hi
          obtain ⟨b, hb, hmem⟩ := getElem?_lt_of_lt kvs i (by rw [hlen]; exact hi)
          simp only [hb, Option.getD_some]
          exact hkeys b hmem
        · intro i hi t ht
          obtain ⟨b, hb, hmem⟩ := getElem?_lt_of_lt kvs i (by rw [hlen]; exact hi)
          simp only [hb, Option.getD_some] at ht
          exact hok t (List.mem_flatten.mpr ⟨_, List.mem_map.mpr ⟨b, hmem, rfl⟩, ht⟩)
    | int n0 =>
      simp only [stateOkB] at h
      cases hm : (TState.int n0 :: rest).mapM asInt with
      | none => simp [hm] at h
      | some ns =>
        obtain ⟨hlen, hall⟩ := mapM_some_spec asInt _ ns hm
        refine .int (fun i => ns[i]?.getD 0) ?_
        intro i hi
        obtain ⟨a, ha, _⟩ := getElem?_lt_of_lt _ i hi
        obtain ⟨b, hb, hab⟩ := hall i a ha
        simp only [stAt, ha, hb, Option.getD_some]
        cases a <;> simp [asInt] at hab
        rw [hab]
    | float q0 =>
      simp only [stateOkB] at h
      cases hm : (TState.float q0 :: rest).mapM asFloat with
      | none => simp [hm] at h
      | some qs =>
        obtain ⟨hlen, hall⟩ := mapM_some_spec asFloat _ qs hm
        refine .float (fun i => qs[i]?.getD 0) ?_
        intro i hi
        obtain ⟨a, ha, _⟩ := getElem?_lt_of_lt _ i hi
        obtain ⟨b, hb, hab⟩ := hall i a ha
        simp only [stAt, ha, hb, Option.getD_some]
        cases a <;> simp [asFloat] at hab
        rw [hab]

/-- member `i`'s collection, read off a list of rows. -/
def rowAt (rows : List (List (Key × TState))) (i : Nat) : List (Key × TState) := rows[i]?.getD []

theorem syncableGo_sound : ∀ (fuel : Nat) (rows : List (List (Key × TState))),
    syncableGo fuel rows = true → Syncable rows.length (rowAt rows) := by
  have hempty : ∀ rows : List (List (Key × TState)), rows.all List.isEmpty = true → Syncable rows.length (rowAt rows) := by
    intro rows h
    refine .nil fun i hi => ?_
    obtain ⟨a, ha, hmem⟩ := getElem?_lt_of_lt rows i hi
    simp only [rowAt, ha, Option.getD_some]
    exact List.isEmpty_iff.mp (List.all_eq_true.mp h a hmem)
  intro fuel
  induction fuel with
  | zero => intro rows h; exact hempty rows h
  | succ fuel ih =>
    intro rows h
    simp only [syncableGo] at h
    by_cases he : rows.all List.isEmpty = true
    · exact hempty rows he
    · simp only [he, Bool.false_eq_true, if_false] at h
      cases hm : rows.mapM List.head? with
      | none => simp [hm] at h
      | some hs =>
        simp only [hm] at h
        obtain ⟨hlen, hall⟩ := mapM_some_spec List.head? rows hs hm
        cases hs with
        | nil =>
          have : rows.length = 0 := by simpa using hlen.symm
          rw [this]
          exact .nil fun i hi => absurd hi (Nat.not_lt_zero i)
        | cons h0 hs' =>
          simp only [Bool.and_eq_true, List.all_eq_true, beq_iff_eq] at h
          obtain ⟨⟨hkeys, hst⟩, hrest⟩ := h
          have hS := stateOkB_sound _ hst
          have hT := ih _ hrest
          rw [List.length_map] at hS hT
          rw [hlen] at hS
          refine .cons h0.1 (stAt ((h0 :: hs').map (·.2))) (rowAt (rows.map List.tail)) ?_ hS hT
          intro i hi
          obtain ⟨a, ha, _⟩ := getElem?_lt_of_lt rows i hi
          obtain ⟨b, hb, hab⟩ := hall i a ha
          have hbm : b ∈ h0 :: hs' := List.mem_of_getElem? hb
          have hk := hkeys b hbm
          simp only [rowAt, stAt, ha, Option.getD_some, List.getElem?_map, hb, Option.map_some]
          cases a with
          | nil => simp at hab
          | cons x xs =>
            simp only [List.head?_cons, Option.some.injEq] at hab
            subst hab
            rw [← hk]; rfl

/-- **soundness of the checker**: rows it accepts are `Syncable`. -/
theorem syncableB_sound (rows : List (List (Key × TState))) (h : syncableB rows = true) :
    Syncable rows.length (rowAt rows) :=
  syncableGo_sound _ rows h

end TE.Sync
