/-
  TE.Lemmas.TextWer — the accumulation loops of WER / WIP / WIL as sums.
-/
import TE.Lemmas.TextLev
namespace TE.TextL
open TE TE.Text TE.Spec.Text

variable {α : Type} [DecidableEq α]

theorem sum_add_map {β : Type} (f g : β → Q) (l : List β) :
    (l.map fun p => f p + g p).sum = (l.map f).sum + (l.map g).sum := by
  induction l with
  | nil => simp [Rat.add_zero]
  | cons a l ih => simp only [List.map_cons, List.sum_cons, ih]; grind

theorem sum_sub_map {β : Type} (f g : β → Q) (l : List β) :
    (l.map fun p => f p - g p).sum = (l.map f).sum - (l.map g).sum := by
  induction l with
  | nil => simp [Rat.sub_eq_add_neg, Rat.add_zero]
  | cons a l ih => simp only [List.map_cons, List.sum_cons, ih]; grind

theorem sum_map_zero {β : Type} (f : β → Q) (l : List β) (h : ∀ p ∈ l, f p = 0) : (l.map f).sum = 0 := by
  induction l with
  | nil => rfl
  | cons a l ih =>
    rw [List.map_cons, List.sum_cons, h a (List.mem_cons_self ..),
      ih (fun p hp => h p (List.mem_cons_of_mem _ hp))]
    exact Rat.add_zero 0

theorem werUpdate_eq (input target : List (List α)) :
    werUpdate input target =
      (((input.zip target).map fun p => ((lev p.1 p.2 : Nat) : Q)).sum,
       ((input.zip target).map fun p => ((p.2.length : Nat) : Q)).sum) := by
  unfold werUpdate
  generalize input.zip target = l
  suffices ∀ x y : Q, l.foldl (fun acc p => (acc.1 + ((editDistance p.1 p.2 : Nat) : Q), acc.2 + ((p.2.length : Nat) : Q))) (x, y)
      = (x + (l.map fun p => ((lev p.1 p.2 : Nat) : Q)).sum, y + (l.map fun p => ((p.2.length : Nat) : Q)).sum) by
    have := this 0 0
    simpa [Rat.zero_add] using this
  induction l with
  | nil => intro x y; simp [Rat.add_zero]
  | cons p l ih =>
    intro x y
    have e : editDistance p.1 p.2 = lev p.1 p.2 := dp_last _ _
    simp only [List.foldl_cons]
    rw [ih, e]
    simp only [List.map_cons, List.sum_cons, Rat.add_assoc]

theorem errorsAndTotals_eq (input target : List (List α)) :
    errorsAndTotals input target =
      ⟨((input.zip target).map fun p => ((lev p.1 p.2 : Nat) : Q)).sum,
       ((input.zip target).map fun p => ((max p.2.length p.1.length : Nat) : Q)).sum,
       ((input.zip target).map fun p => ((p.2.length : Nat) : Q)).sum,
       ((input.zip target).map fun p => ((p.1.length : Nat) : Q)).sum⟩ := by
  unfold errorsAndTotals
  generalize input.zip target = l
  suffices ∀ a : Totals, l.foldl (fun acc p => (⟨acc.errors + ((editDistanceHelper p.1 p.2 : Nat) : Q),
        acc.maxTotal + ((max p.2.length p.1.length : Nat) : Q), acc.targetTotal + ((p.2.length : Nat) : Q),
        acc.inputTotal + ((p.1.length : Nat) : Q)⟩ : Totals)) a
      = ⟨a.errors + (l.map fun p => ((lev p.1 p.2 : Nat) : Q)).sum,
         a.maxTotal + (l.map fun p => ((max p.2.length p.1.length : Nat) : Q)).sum,
         a.targetTotal + (l.map fun p => ((p.2.length : Nat) : Q)).sum,
         a.inputTotal + (l.map fun p => ((p.1.length : Nat) : Q)).sum⟩ by
    have := this ⟨0, 0, 0, 0⟩
    simpa [Rat.zero_add] using this
  induction l with
  | nil => intro a; simp [Rat.add_zero]
  | cons p l ih =>
    intro a
    have e : editDistanceHelper p.1 p.2 = lev p.1 p.2 := dp_last _ _
    simp only [List.foldl_cons]
    rw [ih, e]
    simp only [List.map_cons, List.sum_cons, Rat.add_assoc]

theorem lev_nil_right (a : List α) : lev a ([] : List α) = a.length := by
  simp [lev, levP_zero_right]

theorem lev_nil_left (b : List α) : lev ([] : List α) b = b.length := by
  simp [lev, levP_zero_left]

end TE.TextL
