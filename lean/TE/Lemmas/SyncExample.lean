/-
  TE.Lemmas.SyncExample — a concrete `Syncable` world (non-vacuity of the hypotheses of the C15 / C02
  theorems): three ranks, one of them idle, uneven shapes, every state kind; and the fact that
  `Syncable` does not depend on how the metric is called.
-/
import TE.Lemmas.SyncToolkit
namespace TE.Sync
open TE.Spec.Sync

/-! ### non-vacuity of `Syncable`: three ranks, one idle, uneven shapes -/

def exTf (sh : List Nat) (d : List Q) : Tensor := ⟨.f32, sh, d⟩

/-- the state dict of one metric on three ranks: rank 0 saw two batches, rank 1 none (empty list,
    0-row tensor, zero-sized dict values), rank 2 one. -/
def exStates (i : Nat) : List (String × TState) :=
  match i with
  | 0 => [("items", .list [exTf [1, 2] [1, 2], exTf [2, 1] [3, 4]]), ("acc", .tensor (exTf [2, 2] [1, 2, 3, 4])),
          ("tab", .dict [("b", exTf [1] [7]), ("a", exTf [2] [8, 9])]), ("cnt", .int 3), ("wt", .float (1/2))]
  | 1 => [("items", .list []), ("acc", .tensor (exTf [0, 2] [])),
          ("tab", .dict [("a", exTf [0] []), ("b", exTf [0] [])]), ("cnt", .int 0), ("wt", .float 0)]
  | _ => [("items", .list [exTf [0, 3] []]), ("acc", .tensor (exTf [1, 2] [5, 6])),
          ("tab", .dict [("a", exTf [1] [1]), ("b", exTf [3] [1, 2, 3])]), ("cnt", .int 1), ("wt", .float 2)]

def exSD (i : Nat) : List (String × List (String × TState)) := [("bag", exStates i)]

theorem ex3 {P : Nat → Prop} (h0 : P 0) (h1 : P 1) (h2 : P 2) : ∀ i, i < 3 → P i := by
  intro i hi
  match i, hi with
  | 0, _ => exact h0
  | 1, _ => exact h1
  | 2, _ => exact h2

theorem ex_syncable_bag : Syncable 3 (fun i => traversal (exSD i)) := by
  refine .cons ("bag", "acc") (fun i => ((traversal (exSD i))[0]?.map (·.2)).getD placeholder)
    (fun i => (traversal (exSD i)).drop 1) (ex3 (by decide +kernel) (by decide +kernel) (by decide +kernel))
    (.tensor (fun i => match i with | 0 => exTf [2, 2] [1, 2, 3, 4] | 1 => exTf [0, 2] [] | _ => exTf [1, 2] [5, 6]) .f32 2
      (ex3 (by decide +kernel) (by decide +kernel) (by decide +kernel))
      (ex3 ⟨rfl, rfl, by decide⟩ ⟨rfl, rfl, by decide⟩ ⟨rfl, rfl, by decide⟩)) ?_
  refine .cons ("bag", "cnt") (fun i => match i with | 0 => .int 3 | 1 => .int 0 | _ => .int 1)
    (fun i => (traversal (exSD i)).drop 2) (ex3 (by decide +kernel) (by decide +kernel) (by decide +kernel))
    (.int (fun i => match i with | 0 => 3 | 1 => 0 | _ => 1) (ex3 rfl rfl rfl)) ?_
  refine .cons ("bag", "items")
    (fun i => .list (match i with | 0 => [exTf [1, 2] [1, 2], exTf [2, 1] [3, 4]] | 1 => [] | _ => [exTf [0, 3] []]))
    (fun i => (traversal (exSD i)).drop 3) (ex3 (by decide +kernel) (by decide +kernel) (by decide +kernel))
    (.list (fun i => match i with | 0 => [exTf [1, 2] [1, 2], exTf [2, 1] [3, 4]] | 1 => [] | _ => [exTf [0, 3] []]) .f32 2
      (ex3 rfl rfl rfl) (ex3 (by decide +kernel) (by decide +kernel) (by decide +kernel))) ?_
  refine .cons ("bag", "tab")
    (fun i => .dict (match i with | 0 => [("b", exTf [1] [7]), ("a", exTf [2] [8, 9])] | 1 => [("a", exTf [0] []), ("b", exTf [0] [])]
                                  | _ => [("a", exTf [1] [1]), ("b", exTf [3] [1, 2, 3])]))
    (fun i => (traversal (exSD i)).drop 4) (ex3 (by decide +kernel) (by decide +kernel) (by decide +kernel))
    (.dict (fun i => match i with | 0 => [("b", exTf [1] [7]), ("a", exTf [2] [8, 9])] | 1 => [("a", exTf [0] []), ("b", exTf [0] [])]
                                  | _ => [("a", exTf [1] [1]), ("b", exTf [3] [1, 2, 3])]) ["a", "b"] .f32 1
      (ex3 rfl rfl rfl) (ex3 (by decide +kernel) (by decide +kernel) (by decide +kernel))
      (ex3 (by decide +kernel) (by decide +kernel) (by decide +kernel))) ?_
  refine .cons ("bag", "wt") (fun i => match i with | 0 => .float (1/2) | 1 => .float 0 | _ => .float 2)
    (fun i => (traversal (exSD i)).drop 5) (ex3 (by decide +kernel) (by decide +kernel) (by decide +kernel))
    (.float (fun i => match i with | 0 => 1/2 | 1 => 0 | _ => 2) (ex3 rfl rfl rfl)) ?_
  exact .nil (ex3 (by decide +kernel) (by decide +kernel) (by decide +kernel))


/-! ### `Syncable` does not depend on the names -/

theorem Syncable.map_keys {n : Nat} {E : Nat → List (Key × TState)} (f : Key → Key) (h : Syncable n E) :
    Syncable n fun i => (E i).map fun kv => (f kv.1, kv.2) := by
  induction h with
  | nil h => exact .nil fun i hi => by rw [h i hi]; rfl
  | cons key st E' h hs _ ih =>
    exact .cons (f key) st (fun i => (E' i).map fun kv => (f kv.1, kv.2)) (fun i hi => by rw [h i hi]; rfl) hs ih

theorem traversal_single (m : String) (sd : List (String × TState)) :
    traversal [(m, sd)] =
      (sortKeys (sd.map (·.1))).filterMap fun s => (lookupKey s sd).map fun v => ((m, s), v) := by
  simp [traversal, sortKeys, insertKey, lookupKey]

theorem traversal_rename (m m' : String) (sd : List (String × TState)) :
    traversal [(m', sd)] = (traversal [(m, sd)]).map fun kv => ((m', kv.1.2), kv.2) := by
  rw [traversal_single, traversal_single, List.map_filterMap]
  congr 1
  funext s
  cases lookupKey s sd <;> rfl

/-- the example under any metric name (`"tmp"` is what `get_synced_metric` uses). -/
theorem ex_syncable (m : String) : Syncable 3 (fun i => traversal [(m, exStates i)]) := by
  have := ex_syncable_bag.map_keys (fun k => (m, k.2))
  simp only [exSD] at this
  exact (funext fun i => traversal_rename "bag" m (exStates i)) ▸ this

end TE.Sync
