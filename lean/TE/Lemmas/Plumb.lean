/-
  TE.Lemmas.Plumb — refinement of the class state machine of ANY well-formed plumbing row
  (TE.Model.Plumb) to "a single instance fed the surviving batches in order".
-/
import TE.Model.Plumb
import TE.Lemmas.AggSM
namespace TE.Plumb
open TE TE.AggL

variable {A C : Type} (O : Ops A C)

/-! ## carriers -/

theorem unit_right (o : NOp) (a : A) : O.op o a (O.unit o) = a := by
  rw [O.comm, O.unit_left]

theorem foldl_op_init (o : NOp) (φ : Contrib A C → A) (l : List (Contrib A C)) (x : A) :
    l.foldl (fun a b => O.op o a (φ b)) x = O.op o x (l.foldl (fun a b => O.op o a (φ b)) (O.unit o)) := by
  induction l generalizing x with
  | nil => simp [unit_right]
  | cons b l ih =>
    simp only [List.foldl_cons]
    rw [ih (O.op o x (φ b)), ih (O.op o (O.unit o) (φ b)), O.unit_left, O.assoc]

/-- a sum is 0-dimensional iff every summand is. -/
theorem scalar_foldl (φ : Contrib A C → A) (l : List (Contrib A C)) (x : A) :
    O.scalar (l.foldl (fun a b => O.op .add a (φ b)) x) = (O.scalar x && l.all (fun b => O.scalar (φ b))) := by
  induction l generalizing x with
  | nil => simp
  | cons b l ih =>
    simp only [List.foldl_cons, List.all_cons]
    rw [ih, O.scalar_add, Bool.and_assoc]

/-- contextual equality of two chunk lists under `cat d`, plus equal emptiness. -/
def LEq (d : Dim) (l l' : List C) : Prop :=
  (∀ pre post, O.cat d (pre ++ l ++ post) = O.cat d (pre ++ l' ++ post)) ∧ (l = [] ↔ l' = [])

theorem LEq.refl (d : Dim) (l : List C) : LEq O d l l := ⟨fun _ _ => rfl, Iff.rfl⟩

theorem LEq.append_right {d : Dim} {l l' : List C} (h : LEq O d l l') (m : List C) :
    LEq O d (l ++ m) (l' ++ m) := by
  refine ⟨fun pre post => ?_, ?_⟩
  · have := h.1 pre (m ++ post)
    simpa [List.append_assoc] using this
  · simp only [List.append_eq_nil_iff]
    exact ⟨fun ⟨a, b⟩ => ⟨h.2.mp a, b⟩, fun ⟨a, b⟩ => ⟨h.2.mpr a, b⟩⟩

theorem LEq.cat_eq {d : Dim} {l l' : List C} (h : LEq O d l l') : O.cat d l = O.cat d l' := by
  simpa using h.1 [] []

/-- the merge step on a list state: appending the concatenation of a non-empty source. -/
theorem LEq.merge_step {d : Dim} {l l' t t' : List C} (h : LEq O d l l') (ht : LEq O d t t') (hne : t ≠ []) :
    LEq O d (l ++ [O.cat d t]) (l' ++ t') := by
  have hne' : t' ≠ [] := fun e => hne (ht.2.mpr e)
  refine ⟨fun pre post => ?_, ?_⟩
  · have h1 := h.1 pre ([O.cat d t] ++ post)
    have h2 := O.cat_flat d (pre ++ l') t' post hne'
    rw [ht.cat_eq]
    simp only [List.append_assoc] at h1 h2 ⊢
    rw [ht.cat_eq] at h1
    rw [h1, h2]
  · constructor
    · intro e; simp at e
    · intro e
      simp only [List.append_eq_nil_iff] at e
      exact absurd e.2 hne'

/-- compaction: a non-empty chunk list may be replaced by its concatenation. -/
theorem LEq.compact {d : Dim} {t t' : List C} (ht : LEq O d t t') (hne : t ≠ []) :
    LEq O d [O.cat d t] t' := by
  simpa using LEq.merge_step O (LEq.refl O d []) ht hne

/-! ## the facts of a well-formed row -/

theorem numOf_mem {fs : List FieldPlumb} {f : String} {u m : NOp} {src : String}
    (h : numOf fs f = some (u, m, src)) : ∃ du, FieldPlumb.num f u m src du ∈ fs := by
  induction fs with
  | nil => simp [numOf] at h
  | cons x rest ih =>
    cases x with
    | num n u' m' s' du =>
      simp only [numOf] at h
      split at h
      · rename_i hn
        simp only [Option.some.injEq, Prod.mk.injEq] at h
        obtain ⟨rfl, rfl, rfl⟩ := h
        exact ⟨du, by simp [hn]⟩
      · obtain ⟨du', hm⟩ := ih h
        exact ⟨du', List.mem_cons_of_mem _ hm⟩
    | _ =>
      simp only [numOf] at h
      obtain ⟨du', hm⟩ := ih h
      exact ⟨du', List.mem_cons_of_mem _ hm⟩

theorem lstOf_mem {fs : List FieldPlumb} {f src g : String} {d : Dim}
    (h : lstOf fs f = some (src, g, d)) : ∃ rd raw, FieldPlumb.lst f src g d rd raw ∈ fs := by
  induction fs with
  | nil => simp [lstOf] at h
  | cons x rest ih =>
    cases x with
    | lst n s' g' d' rd raw =>
      simp only [lstOf] at h
      split at h
      · rename_i hn
        simp only [Option.some.injEq, Prod.mk.injEq] at h
        obtain ⟨rfl, rfl, rfl⟩ := h
        exact ⟨rd, raw, by simp [hn]⟩
      · obtain ⟨rd', raw', hm⟩ := ih h
        exact ⟨rd', raw', List.mem_cons_of_mem _ hm⟩
    | _ =>
      simp only [lstOf] at h
      obtain ⟨rd', raw', hm⟩ := ih h
      exact ⟨rd', raw', List.mem_cons_of_mem _ hm⟩

theorem adoptOf_mem {fs : List FieldPlumb} {f ug mg : String}
    (h : adoptOf fs f = some (ug, mg)) : FieldPlumb.adopt f ug mg ∈ fs := by
  induction fs with
  | nil => simp [adoptOf] at h
  | cons x rest ih =>
    cases x with
    | adopt n ug' mg' =>
      simp only [adoptOf] at h
      split at h
      · rename_i hn
        simp only [Option.some.injEq, Prod.mk.injEq] at h
        obtain ⟨rfl, rfl⟩ := h
        simp [hn]
      · exact List.mem_cons_of_mem _ (ih h)
    | _ =>
      simp only [adoptOf] at h
      exact List.mem_cons_of_mem _ (ih h)

theorem derOf_mem {fs : List FieldPlumb} {f a b : String} {iu im ae : Bool}
    (h : derOf fs f = some (a, b, iu, im, ae)) : FieldPlumb.der f a b iu im ae ∈ fs := by
  induction fs with
  | nil => simp [derOf] at h
  | cons x rest ih =>
    cases x with
    | der n a' b' iu' im' ae' =>
      simp only [derOf] at h
      split at h
      · rename_i hn
        simp only [Option.some.injEq, Prod.mk.injEq] at h
        obtain ⟨rfl, rfl, rfl, rfl, rfl⟩ := h
        simp [hn]
      · exact List.mem_cons_of_mem _ (ih h)
    | _ =>
      simp only [derOf] at h
      exact List.mem_cons_of_mem _ (ih h)

theorem cmpOf_mem {fs : List FieldPlumb} {f : String} {gs : List String} {d : Dim}
    (h : cmpOf fs f = some (gs, d)) : FieldPlumb.cmp f gs d ∈ fs := by
  induction fs with
  | nil => simp [cmpOf] at h
  | cons x rest ih =>
    cases x with
    | cmp n gs' d' =>
      simp only [cmpOf] at h
      split at h
      · rename_i hn
        simp only [Option.some.injEq, Prod.mk.injEq] at h
        obtain ⟨rfl, rfl⟩ := h
        simp [hn]
      · exact List.mem_cons_of_mem _ (ih h)
    | _ =>
      simp only [cmpOf] at h
      exact List.mem_cons_of_mem _ (ih h)

section wf
variable {fs : List FieldPlumb} (hall : fs.all (wfField fs) = true)
include hall

theorem wf_of_mem {x : FieldPlumb} (hx : x ∈ fs) : wfField fs x = true :=
  List.all_eq_true.mp hall x hx

theorem wf_num {f : String} {u m : NOp} {src : String}
    (h : numOf fs f = some (u, m, src)) : u = m ∧ src = f := by
  obtain ⟨du, hm⟩ := numOf_mem h
  have := wf_of_mem hall hm
  simp only [wfField, Bool.and_eq_true, beq_iff_eq] at this
  exact ⟨this.1.1, this.1.2⟩

theorem wf_lst {f src g : String} {d : Dim}
    (h : lstOf fs f = some (src, g, d)) : src = f ∧ isLst fs g = true := by
  obtain ⟨rd, raw, hm⟩ := lstOf_mem h
  have := wf_of_mem hall hm
  simp only [wfField, Bool.and_eq_true, beq_iff_eq] at this
  exact ⟨this.1.1.1.1, this.1.1.1.2⟩

theorem wf_adopt {f ug mg : String} (h : adoptOf fs f = some (ug, mg)) :
    ug = mg ∧ numOf fs f = some (.add, .add, f) ∧ numOf fs ug = some (.add, .add, ug) := by
  have := wf_of_mem hall (adoptOf_mem h)
  simp only [wfField, Bool.and_eq_true, beq_iff_eq] at this
  exact ⟨this.1.1, this.1.2, this.2⟩

theorem wf_der {f a b : String} {iu im ae : Bool} (h : derOf fs f = some (a, b, iu, im, ae)) :
    iu = true ∧ im = true ∧ isNum fs a = true ∧ isNum fs b = true := by
  have := wf_of_mem hall (derOf_mem h)
  simp only [wfField, Bool.and_eq_true] at this
  exact ⟨this.1.1.1.1, this.1.1.1.2, this.1.1.2, this.1.2⟩

theorem wf_cmp {f : String} {gs : List String} {d : Dim} (h : cmpOf fs f = some (gs, d)) :
    isLst fs f = true ∧ d = dimOf fs f ∧ gs ≠ [] ∧ ∀ g ∈ gs, isLst fs g = true := by
  have := wf_of_mem hall (cmpOf_mem h)
  simp only [wfField, Bool.and_eq_true, beq_iff_eq, Bool.not_eq_true', List.isEmpty_eq_false_iff,
    List.all_eq_true] at this
  exact ⟨this.1.1.1, this.1.1.2, this.1.2, this.2⟩

end wf

theorem effDer_of_num {fs : List FieldPlumb} {f : String} (h : isNum fs f = true) : effDer fs f = none := by
  simp only [isNum] at h
  simp [effDer, h]

theorem effDer_some {fs : List FieldPlumb} {f : String} {x} (h : effDer fs f = some x) :
    numOf fs f = none ∧ derOf fs f = some x := by
  simp only [effDer] at h
  split at h
  · simp at h
  · rename_i hn
    simp only [Bool.not_eq_true, Option.isSome_eq_false_iff, Option.isNone_iff_eq_none] at hn
    exact ⟨hn, h⟩

theorem hasAdopt_of {fs : List FieldPlumb} {f : String} {x} (h : adoptOf fs f = some x) : hasAdopt fs = true := by
  obtain ⟨ug, mg⟩ := x
  have := adoptOf_mem h
  simp only [hasAdopt, List.any_eq_true]
  exact ⟨_, this, rfl⟩

theorem hasDer_of {fs : List FieldPlumb} {f : String} {x} (h : derOf fs f = some x) : hasDer fs = true := by
  obtain ⟨a, b, iu, im, ae⟩ := x
  have := derOf_mem h
  simp only [hasDer, List.any_eq_true]
  exact ⟨_, this, rfl⟩

/-! ## the canonical state: a single instance fed `l` -/

def canon (fs : List FieldPlumb) (l : List (Contrib A C)) : St A C where
  num f := match numOf fs f with
    | some (u, _, _) => l.foldl (fun a b => O.op u a (b.num f)) (O.unit u)
    | none => O.unit .add
  lst f := match lstOf fs f with | some _ => l.map (·.lst f) | none => []

/-- the accumulated / constant states and the chunk lists of `s` represent the batches `l`. -/
def RelB (fs : List FieldPlumb) (s : St A C) (l : List (Contrib A C)) : Prop :=
  (∀ f, effDer fs f = none → s.num f = (canon O fs l).num f) ∧
  (∀ f, LEq O (dimOf fs f) (s.lst f) ((canon O fs l).lst f))

/-- the derived states are up to date (once there is a batch). -/
def RelD (fs : List FieldPlumb) (s : St A C) (l : List (Contrib A C)) : Prop :=
  ∀ f a b iu im ae, effDer fs f = some (a, b, iu, im, ae) → l ≠ [] → s.num f = O.sub (s.num a) (s.num b)

/-- the state `s` represents the batches `l`. -/
def Rel (fs : List FieldPlumb) (s : St A C) (l : List (Contrib A C)) : Prop :=
  RelB O fs s l ∧ RelD O fs s l

/-- shape coherence of a stream: every state's contribution has the same dimensionality (0-dim or not) in
    every batch — the batches of one metric have one `n_output`.  (Only the adoption branch needs it.) -/
def Coh (l : List (Contrib A C)) : Prop :=
  ∀ b ∈ l, ∀ b' ∈ l, ∀ G, O.scalar (b.num G) = O.scalar (b'.num G)

theorem Coh.sub {L l : List (Contrib A C)} (h : Coh O L) (hl : ∀ x ∈ l, x ∈ L) : Coh O l :=
  fun b hb b' hb' G => h b (hl b hb) b' (hl b' hb') G

/-- the hypothesis on the live batches under which a row's history is considered. -/
def CohIf (fs : List FieldPlumb) (l : List (Contrib A C)) : Prop := hasAdopt fs = true → Coh O l

theorem CohIf.sub {fs : List FieldPlumb} {L l : List (Contrib A C)} (h : CohIf O fs L) (hl : ∀ x ∈ l, x ∈ L) :
    CohIf O fs l := fun ha => (h ha).sub O hl

theorem rel_init (fs : List FieldPlumb) : Rel O fs (initSt O fs) [] := by
  refine ⟨⟨fun f _ => ?_, fun f => ?_⟩, fun f a b iu im ae _ hne => absurd rfl hne⟩
  · simp only [initSt, canon]
    rcases numOf fs f with _ | ⟨u, m, src⟩ <;> simp
  · simp only [initSt, canon]
    rcases lstOf fs f with _ | x <;> exact LEq.refl O _ _

/-- **the adoption branch is taken only by an object without live batches** (then `0 + v = v`). -/
theorem adopt_only_fresh {L l : List (Contrib A C)} {b' : Contrib A C} {G : String}
    (hc : Coh O L) (hl : ∀ x ∈ l, x ∈ L) (hb' : b' ∈ L)
    (hs : O.scalar (l.foldl (fun a b => O.op .add a (b.num G)) (O.unit .add)) = true)
    (hv : O.scalar (b'.num G) = false) : l = [] := by
  cases l with
  | nil => rfl
  | cons y l' =>
    rw [scalar_foldl, O.scalar_unit] at hs
    simp only [List.all_cons, Bool.true_and, Bool.and_eq_true] at hs
    have := hc y (hl y (by simp)) b' hb' G
    rw [hs.1, hv] at this
    exact absurd this (by simp)

/-- a non-0-dim sum has a non-0-dim summand. -/
theorem exists_nonscalar {l : List (Contrib A C)} {G : String}
    (hs : O.scalar (l.foldl (fun a b => O.op .add a (b.num G)) (O.unit .add)) = false) :
    ∃ b' ∈ l, O.scalar (b'.num G) = false := by
  rw [scalar_foldl, O.scalar_unit] at hs
  simp only [Bool.true_and] at hs
  obtain ⟨b', hb', hn⟩ := List.all_eq_false.mp hs
  exact ⟨b', hb', by simpa using hn⟩

/-- **update(), as the code computes it (adoption branch, row loop), is `op` on the carrier.** -/
theorem updNum_eq (fs : List FieldPlumb) (hwf : fs.all (wfField fs) = true)
    (s : St A C) (l : List (Contrib A C)) (b : Contrib A C)
    (h : RelB O fs s l) (hc : CohIf O fs (l ++ [b])) (f : String) :
    updNum O fs s b f = match numOf fs f with
      | some (u, _, _) => O.op u (s.num f) (b.num f)
      | none => s.num f := by
  simp only [updNum]
  rcases hf : numOf fs f with _ | ⟨u, m, src⟩
  · rfl
  · simp only
    rcases ha : adoptOf fs f with _ | ⟨ug, mg⟩
    · simp only
      split
      · exact O.row_fold u _ _
      · rfl
    · simp only
      split
      · rename_i hcond
        simp only [Bool.and_eq_true] at hcond
        obtain ⟨-, hnf, hng⟩ := wf_adopt hwf ha
        rw [hf] at hnf
        simp only [Option.some.injEq, Prod.mk.injEq] at hnf
        obtain ⟨rfl, -, -⟩ := hnf
        have hsg := h.1 ug (effDer_of_num (by simp [isNum, hng]))
        simp only [canon, hng] at hsg
        have hl : l = [] := by
          apply adopt_only_fresh O (hc (hasAdopt_of ha)) (l := l) (b' := b) (G := ug)
          · intro x hx; exact List.mem_append_left _ hx
          · simp
          · rw [← hsg]; exact hcond.1
          · exact O.vec_scalar _ hcond.2
        have hsf := h.1 f (effDer_of_num (by simp [isNum, hf]))
        simp only [canon, hf, hl, List.foldl_nil] at hsf
        rw [hsf, O.unit_left]
      · rfl

theorem rel_upd (fs : List FieldPlumb) (hwf : fs.all (wfField fs) = true)
    (s : St A C) (l : List (Contrib A C)) (b : Contrib A C)
    (h : Rel O fs s l) (hc : CohIf O fs (l ++ [b])) : Rel O fs (updSt O fs s b) (l ++ [b]) := by
  have hnum : ∀ f, effDer fs f = none → (updSt O fs s b).num f = (canon O fs (l ++ [b])).num f := by
    intro f hf
    have := h.1.1 f hf
    simp only [updSt, hf]
    rw [updNum_eq O fs hwf s l b h.1 hc]
    simp only [canon] at this ⊢
    rcases hn : numOf fs f with _ | ⟨u, m, src⟩ <;> simp only [hn] at this ⊢
    · exact this
    · rw [List.foldl_append, this]; rfl
  refine ⟨⟨hnum, fun f => ?_⟩, ?_⟩
  · have := h.1.2 f
    simp only [updSt, canon] at this ⊢
    rcases hf : lstOf fs f with _ | x <;> simp only [hf] at this ⊢
    · exact this
    · simpa using this.append_right O [b.lst f]
  · intro f a b' iu im ae hf _
    obtain ⟨-, hd⟩ := effDer_some hf
    obtain ⟨rfl, rfl, hna, hnb⟩ := wf_der hwf hd
    have ea := effDer_of_num hna
    have eb := effDer_of_num hnb
    simp only [updSt, hf, ea, eb]

/-- emptiness of a list state of a represented object says whether any batch is alive. -/
theorem rel_lst_empty (fs : List FieldPlumb) (s : St A C) (l : List (Contrib A C)) (h : RelB O fs s l)
    (g : String) (hg : isLst fs g = true) : s.lst g = [] ↔ l = [] := by
  have := (h.2 g).2
  simp only [canon] at this
  simp only [isLst, Option.isSome_iff_exists] at hg
  obtain ⟨x, hx⟩ := hg
  simp only [hx] at this
  simpa using this

theorem rel_compact (fs : List FieldPlumb) (hwf : fs.all (wfField fs) = true)
    (s : St A C) (l : List (Contrib A C)) (h : RelB O fs s l) : RelB O fs (compact O fs s) l := by
  refine ⟨h.1, fun f => ?_⟩
  have h1 := h.2 f
  simp only [compact]
  rcases hf : cmpOf fs f with _ | ⟨gs, d⟩
  · exact h1
  · simp only
    split
    · rename_i hall
      obtain ⟨hlf, rfl, hne, hgs⟩ := wf_cmp hwf hf
      obtain ⟨g, gs', rfl⟩ := List.exists_cons_of_ne_nil hne
      simp only [List.all_cons, Bool.and_eq_true, Bool.not_eq_true', List.isEmpty_eq_false_iff] at hall
      have hl : l ≠ [] := fun e => hall.1 ((rel_lst_empty O fs s l h g (hgs g (by simp))).mpr e)
      have hsf : s.lst f ≠ [] := fun e => hl ((rel_lst_empty O fs s l h f hlf).mp e)
      exact LEq.compact O h1 hsf
    · exact h1

/-- **merge_state(), as the code computes it (adoption branch), is `op` on the carrier.** -/
theorem mrgNum_eq (fs : List FieldPlumb) (hwf : fs.all (wfField fs) = true)
    (s t : St A C) (l lt : List (Contrib A C))
    (h : RelB O fs s l) (ht : RelB O fs t lt) (hc : CohIf O fs (l ++ lt)) (f : String) :
    mrgNum O fs s t f = match numOf fs f with
      | some (_, m, src) => O.op m (s.num f) (t.num src)
      | none => s.num f := by
  simp only [mrgNum]
  rcases hf : numOf fs f with _ | ⟨u, m, src⟩
  · rfl
  · simp only
    rcases ha : adoptOf fs f with _ | ⟨ug, mg⟩
    · rfl
    · simp only
      split
      · rename_i hcond
        simp only [Bool.and_eq_true] at hcond
        obtain ⟨rfl, hnf, hng⟩ := wf_adopt hwf ha
        rw [hf] at hnf
        simp only [Option.some.injEq, Prod.mk.injEq] at hnf
        obtain ⟨rfl, rfl, hsrc⟩ := hnf
        rw [hsrc]
        have eg : effDer fs ug = none := effDer_of_num (by simp [isNum, hng])
        have hsg := h.1 ug eg
        have htg := ht.1 ug eg
        simp only [canon, hng] at hsg htg
        have hvs := O.vec_scalar _ hcond.2
        rw [htg] at hvs
        obtain ⟨b', hb', hb's⟩ := exists_nonscalar O hvs
        have hl : l = [] := by
          apply adopt_only_fresh O (hc (hasAdopt_of ha)) (l := l) (b' := b') (G := ug)
          · intro x hx; exact List.mem_append_left _ hx
          · exact List.mem_append_right _ hb'
          · rw [← hsg]; exact hcond.1
          · exact hb's
        have hsf := h.1 f (effDer_of_num (by simp [isNum, hf]))
        simp only [canon, hf, hl, List.foldl_nil] at hsf
        rw [hsf, O.unit_left]
      · rfl

theorem rel_mrg1 (fs : List FieldPlumb) (hwf : fs.all (wfField fs) = true)
    (s t : St A C) (l lt : List (Contrib A C))
    (h : RelB O fs s l) (ht : RelB O fs t lt) (hc : CohIf O fs (l ++ lt)) : RelB O fs (mrg1 O fs s t) (l ++ lt) := by
  refine ⟨fun f hfd => ?_, fun f => ?_⟩
  · have h1 := h.1 f hfd
    simp only [mrg1, mrgNum, canon] at h1 ⊢
    rcases hf : numOf fs f with _ | ⟨u, m, src⟩ <;> simp only [hf] at h1 ⊢
    · exact h1
    · obtain ⟨rfl, rfl⟩ := wf_num hwf hf
      have h2 := ht.1 src (effDer_of_num (by simp [isNum, hf]))
      simp only [canon, hf] at h2
      have hadd : O.op u (s.num src) (t.num src) =
          (l ++ lt).foldl (fun a b => O.op u a (b.num src)) (O.unit u) := by
        rw [List.foldl_append, h1, h2]
        exact (foldl_op_init O u (fun b => b.num src) lt _).symm
      rcases ha : adoptOf fs src with _ | ⟨ug, mg⟩
      · exact hadd
      · simp only
        split
        · rename_i hcond
          simp only [Bool.and_eq_true] at hcond
          obtain ⟨rfl, hnf, hng⟩ := wf_adopt hwf ha
          rw [hf] at hnf
          simp only [Option.some.injEq, Prod.mk.injEq] at hnf
          obtain ⟨rfl, -, -⟩ := hnf
          have eg : effDer fs ug = none := effDer_of_num (by simp [isNum, hng])
          have hsg := h.1 ug eg
          have htg := ht.1 ug eg
          simp only [canon, hng] at hsg htg
          have hvs := O.vec_scalar _ hcond.2
          rw [htg] at hvs
          obtain ⟨b', hb', hb's⟩ := exists_nonscalar O hvs
          have hl : l = [] := by
            apply adopt_only_fresh O (hc (hasAdopt_of ha)) (l := l) (b' := b') (G := ug)
            · intro x hx; exact List.mem_append_left _ hx
            · exact List.mem_append_right _ hb'
            · rw [← hsg]; exact hcond.1
            · exact hb's
          subst hl
          simpa using h2
        · exact hadd
  · have h1 := h.2 f
    simp only [mrg1, canon] at h1 ⊢
    rcases hf : lstOf fs f with _ | ⟨src, g, d⟩
    · have hd : dimOf fs f = .lit 0 := by simp [dimOf, hf]
      simp only [hf, hd] at h1 ⊢
      exact h1
    · obtain ⟨rfl, hg⟩ := wf_lst hwf hf
      have h2 := ht.2 src
      have hd : dimOf fs src = d := by simp [dimOf, hf]
      simp only [canon, hf, hd] at h1 h2 ⊢
      have hsrc : t.lst src = [] ↔ lt = [] := rel_lst_empty O fs t lt ht src (by simp [isLst, hf])
      have hgd : t.lst g = [] ↔ lt = [] := rel_lst_empty O fs t lt ht g hg
      by_cases hne : t.lst g = []
      · have : lt = [] := hgd.mp hne
        subst this
        simpa [hne] using h1
      · have hne' : t.lst src ≠ [] := fun e => hne (hgd.mpr (hsrc.mp e))
        simpa [hne] using LEq.merge_step O h1 h2 hne'

/-- what a source of a merge is known to be: it represents its own live batches (if those are coherent). -/
def RC (fs : List FieldPlumb) (s : St A C) (l : List (Contrib A C)) : Prop := CohIf O fs l → Rel O fs s l

theorem rel_mrg_fold (fs : List FieldPlumb) (hwf : fs.all (wfField fs) = true)
    (ss : List (St A C)) (ls : List (Contrib A C)) (hss : RelL (RC O fs) ss ls) :
    ∀ (s : St A C) (l : List (Contrib A C)), RelB O fs s l → CohIf O fs (l ++ ls) →
      RelB O fs (ss.foldl (mrg1 O fs) s) (l ++ ls) := by
  induction hss with
  | nil => intro s l h _; simpa using h
  | @cons s₁ l₁ ss' ls' h₁ _ ih =>
    intro s l h hc
    simp only [List.foldl_cons, ← List.append_assoc] at hc ⊢
    have h₁' : Rel O fs s₁ l₁ := h₁ (hc.sub O (by intro x hx; simp [hx]))
    exact ih _ _ (rel_mrg1 O fs hwf _ _ _ _ h h₁'.1 (hc.sub O (fun x hx => List.mem_append_left _ hx))) hc

theorem relL_nil_iff {R : St A C → List (Contrib A C) → Prop} {ls : List (Contrib A C)}
    (h : RelL R [] ls) : ls = [] := by
  cases h; rfl

theorem rel_mrg (fs : List FieldPlumb) (hwf : fs.all (wfField fs) = true)
    (ss : List (St A C)) (ls : List (Contrib A C)) (hss : RelL (RC O fs) ss ls)
    (s : St A C) (l : List (Contrib A C)) (h : Rel O fs s l) (hc : CohIf O fs (l ++ ls)) :
    Rel O fs (mrgSt O fs s ss) (l ++ ls) := by
  have hB := rel_mrg_fold O fs hwf ss ls hss _ l (rel_compact O fs hwf s l h.1) hc
  simp only [mrgSt]
  generalize hs' : ss.foldl (mrg1 O fs) (compact O fs s) = s' at hB
  refine ⟨⟨fun f hf => ?_, hB.2⟩, ?_⟩
  · simp only [rederive, hf]
    exact hB.1 f hf
  · intro f a b iu im ae hf hne
    obtain ⟨-, hd⟩ := effDer_some hf
    obtain ⟨rfl, rfl, hna, hnb⟩ := wf_der hwf hd
    have ea := effDer_of_num hna
    have eb := effDer_of_num hnb
    simp only [rederive, hf, ea, eb]
    split
    · rfl
    · rename_i hcond
      simp only [Bool.or_eq_true, Bool.not_eq_true', not_or, Bool.not_eq_true, Bool.not_eq_false,
        List.isEmpty_iff] at hcond
      obtain ⟨-, rfl⟩ := hcond
      have : ls = [] := relL_nil_iff hss
      subst this
      simp only [List.foldl_nil] at hs'
      subst hs'
      simp only [List.append_nil] at hne
      exact h.2 f a b true true ae hf hne

variable {R : Type}

/-- **every reachable state of a well-formed row represents the batches alive in its history**
    (for a row with an adoption branch: when those batches are shape-coherent). -/
theorem plumb_refines (P : ClassPlumb) (g : View A C → Except Err R) (hwf : WF P = true) :
    ∀ (h : Hist (Contrib A C)) (s : St A C), eval (plumbImpl O P g) h = .ok s →
      CohIf O P.fields (flatten h) → Rel O P.fields s (flatten h) := by
  have hall : P.fields.all (wfField P.fields) = true := by
    simp only [WF, Bool.and_eq_true] at hwf; exact hwf.2
  apply refines_rel (plumbImpl O P g) (RC O P.fields)
  · exact fun _ => rel_init O P.fields
  · intro s l b s' hs hu hc
    simp only [plumbImpl, Except.ok.injEq] at hu
    subst hu
    exact rel_upd O P.fields hall s l b (hs (hc.sub O (by intro x hx; simp [hx]))) hc
  · intro s l ss ls s' hs hss hm hc
    simp only [plumbImpl, Except.ok.injEq] at hm
    subst hm
    exact rel_mrg O P.fields hall ss ls hss s l (hs (hc.sub O (by intro x hx; simp [hx]))) hc

/-- two states representing the same batches look the same to `compute()` (with a derived state: once there
    is a batch). -/
theorem rel_view (fs : List FieldPlumb) (hwf : fs.all (wfField fs) = true) (s s' : St A C) (l : List (Contrib A C))
    (h : Rel O fs s l) (h' : Rel O fs s' l) (hd : hasDer fs = true → l ≠ []) : view O fs s = view O fs s' := by
  have hn : s.num = s'.num := by
    funext f
    rcases hf : effDer fs f with _ | ⟨a, b, iu, im, ae⟩
    · exact (h.1.1 f hf).trans (h'.1.1 f hf).symm
    · obtain ⟨-, hdf⟩ := effDer_some hf
      have hne := hd (hasDer_of hdf)
      obtain ⟨-, -, hna, hnb⟩ := wf_der hwf hdf
      have ea := effDer_of_num hna
      have eb := effDer_of_num hnb
      rw [h.2 f a b iu im ae hf hne, h'.2 f a b iu im ae hf hne,
        (h.1.1 a ea).trans (h'.1.1 a ea).symm, (h.1.1 b eb).trans (h'.1.1 b eb).symm]
  have hc : ∀ f, O.cat (dimOf fs f) (s.lst f) = O.cat (dimOf fs f) (s'.lst f) := fun f =>
    (h.1.2 f).cat_eq.trans (h'.1.2 f).cat_eq.symm
  have he : ∀ f, (s.lst f).isEmpty = (s'.lst f).isEmpty := fun f => by
    have a := (h.1.2 f).2
    have b := (h'.1.2 f).2
    rw [Bool.eq_iff_iff]
    simp only [List.isEmpty_iff]
    exact a.trans b.symm
  simp only [view, hn]
  congr 1
  · exact funext hc
  · exact funext he

/-! ## totality and the explicit state of a single instance -/

mutual
theorem plumb_total (P : ClassPlumb) (g : View A C → Except Err R) :
    ∀ (h : Hist (Contrib A C)), ∃ s, eval (plumbImpl O P g) h = .ok s
  | .fresh => ⟨_, rfl⟩
  | .update h b => by
    obtain ⟨s, hs⟩ := plumb_total P g h
    refine ⟨updSt O P.fields s b, ?_⟩
    simp only [eval, hs]; rfl
  | .merge h hs => by
    obtain ⟨s, e⟩ := plumb_total P g h
    obtain ⟨ss, es⟩ := plumb_totalList P g hs
    refine ⟨mrgSt O P.fields s ss, ?_⟩
    simp only [eval, e, es]; rfl
  | .reset h => by
    obtain ⟨s, e⟩ := plumb_total P g h
    refine ⟨(plumbImpl O P g).init, ?_⟩
    simp only [eval, e]; rfl
theorem plumb_totalList (P : ClassPlumb) (g : View A C → Except Err R) :
    ∀ (hs : List (Hist (Contrib A C))), ∃ ss, evalList (plumbImpl O P g) hs = .ok ss
  | [] => ⟨_, rfl⟩
  | h :: hs => by
    obtain ⟨s, e⟩ := plumb_total P g h
    obtain ⟨ss, es⟩ := plumb_totalList P g hs
    refine ⟨s :: ss, ?_⟩
    simp only [evalList, e, es]; rfl
end

/-! ## rows of the basic normal form: update() is `op`, whatever the history -/

theorem adoptOf_none_of {fs : List FieldPlumb} (h : hasAdopt fs = false) (f : String) : adoptOf fs f = none := by
  rcases ha : adoptOf fs f with _ | x
  · rfl
  · rw [hasAdopt_of ha] at h; exact absurd h (by simp)

theorem effDer_none_of {fs : List FieldPlumb} (h : hasDer fs = false) (f : String) : effDer fs f = none := by
  rcases he : effDer fs f with _ | x
  · rfl
  · rw [hasDer_of (effDer_some he).2] at h; exact absurd h (by simp)

theorem updSt_num_basic (fs : List FieldPlumb) (ha : hasAdopt fs = false) (hd : hasDer fs = false)
    (s : St A C) (b : Contrib A C) (f : String) :
    (updSt O fs s b).num f =
      match numOf fs f with
      | some (u, _, _) => O.op u (s.num f) (b.num f)
      | none => s.num f := by
  simp only [updSt, effDer_none_of hd f, updNum, adoptOf_none_of ha f]
  rcases numOf fs f with _ | ⟨u, m, src⟩
  · rfl
  · simp only
    split
    · exact O.row_fold u _ _
    · rfl

theorem foldl_upd_num (fs : List FieldPlumb) (ha : hasAdopt fs = false) (hd : hasDer fs = false)
    (l : List (Contrib A C)) (s : St A C) (f : String) :
    (l.foldl (updSt O fs) s).num f =
      match numOf fs f with
      | some (u, _, _) => l.foldl (fun a b => O.op u a (b.num f)) (s.num f)
      | none => s.num f := by
  induction l generalizing s with
  | nil => rcases numOf fs f with _ | ⟨u, m, src⟩ <;> rfl
  | cons b l ih =>
    simp only [List.foldl_cons]
    rw [ih, updSt_num_basic O fs ha hd]
    rcases numOf fs f with _ | ⟨u, m, src⟩ <;> rfl

theorem foldl_upd_lst (fs : List FieldPlumb) (l : List (Contrib A C)) (s : St A C) (f : String) :
    (l.foldl (updSt O fs) s).lst f =
      match lstOf fs f with
      | some _ => s.lst f ++ l.map (·.lst f)
      | none => s.lst f := by
  induction l generalizing s with
  | nil => rcases lstOf fs f with _ | x <;> simp
  | cons b l ih =>
    simp only [List.foldl_cons]
    rw [ih]
    simp only [updSt]
    rcases lstOf fs f with _ | x <;> simp

theorem eval_updates (P : ClassPlumb) (g : View A C → Except Err R) (l : List (Contrib A C)) :
    ∀ (h : Hist (Contrib A C)) (s : St A C), eval (plumbImpl O P g) h = .ok s →
      eval (plumbImpl O P g) (l.foldl Hist.update h) = .ok (l.foldl (updSt O P.fields) s) := by
  induction l with
  | nil => intro h s e; simpa using e
  | cons b l ih =>
    intro h s e
    simp only [List.foldl_cons]
    apply ih
    simp only [eval, e]; rfl

theorem eval_single (P : ClassPlumb) (g : View A C → Except Err R) (l : List (Contrib A C)) :
    eval (plumbImpl O P g) (single l) = .ok (l.foldl (updSt O P.fields) (initSt O P.fields)) :=
  eval_updates O P g l .fresh _ rfl

/-- order-independence of the numeric folds (C12). -/
theorem foldl_op_perm (o : NOp) (φ : Contrib A C → A) {l l' : List (Contrib A C)} (hp : l.Perm l') (x : A) :
    l.foldl (fun a b => O.op o a (φ b)) x = l'.foldl (fun a b => O.op o a (φ b)) x := by
  apply hp.foldl_eq'
  intro a _ b _ z
  rw [O.assoc, O.assoc, O.comm o (φ a)]

theorem canon_num_perm (fs : List FieldPlumb) {l l' : List (Contrib A C)} (hp : l.Perm l') :
    (canon O fs l).num = (canon O fs l').num := by
  funext f
  simp only [canon]
  rcases numOf fs f with _ | ⟨u, m, src⟩
  · rfl
  · exact foldl_op_perm O u (fun b => b.num f) hp _

theorem Coh.perm {l l' : List (Contrib A C)} (hp : l.Perm l') (h : Coh O l) : Coh O l' :=
  h.sub O fun _ hx => hp.mem_iff.mpr hx

/-! ## joint accumulators (`welford` rows) -/

/-- every reachable state of a joint accumulator represents the live batches, for any representation relation the
    combine respects (Covariance: `TE.AggL.CovR`, by the Chan combine identity `chan_combine_batches`). -/
theorem welford_refines {B J : Type} (W : JOps J) (stat : B → J) (g : J → Except Err R) (Rep : J → List B → Prop)
    (h0 : Rep W.e [])
    (hu : ∀ s l b, Rep s l → Rep (W.comb s (stat b)) (l ++ [b]))
    (hm : ∀ s l t lt, Rep s l → Rep t lt → Rep (W.comb s t) (l ++ lt)) :
    ∀ (h : Hist B) (s : J), eval (welfordImpl W stat g) h = .ok s → Rep s (flatten h) := by
  apply refines_rel (welfordImpl W stat g) Rep h0
  · intro s l b s' hs hupd
    simp only [welfordImpl, Except.ok.injEq] at hupd
    subst hupd
    exact hu s l b hs
  · intro s l ss ls s' hs hss hmrg
    simp only [welfordImpl, Except.ok.injEq] at hmrg
    subst hmrg
    clear h0 hu
    induction hss generalizing s l with
    | nil => simpa using hs
    | cons h₁ _ ih =>
      simp only [List.foldl_cons, ← List.append_assoc]
      exact ih _ _ (hm _ _ _ _ hs h₁)

/-! ## per-query retained lists (`topk` rows) -/

section topk
variable {Cq M : Type} (T : TOps Cq M)

/-- the pairs of query `i` in the live batches, concatenated in order. -/
def liveQ (l : List (Nat → Option Cq)) (i : Nat) : Cq :=
  l.foldl (fun a b => match b i with | some x => T.cat2 a x | none => a) T.empty

theorem liveQ_init (l : List (Nat → Option Cq)) (i : Nat) (x : Cq) :
    l.foldl (fun a b => match b i with | some y => T.cat2 a y | none => a) x = T.cat2 x (liveQ T l i) := by
  induction l generalizing x with
  | nil => simp [liveQ, T.empty_right]
  | cons b l ih =>
    simp only [liveQ, List.foldl_cons]
    rcases hb : b i with _ | y
    · simpa [liveQ] using ih x
    · simp only
      rw [ih (T.cat2 x y), ih (T.cat2 T.empty y), T.empty_left, T.assoc]

theorem liveQ_append (l l' : List (Nat → Option Cq)) (i : Nat) :
    liveQ T (l ++ l') i = T.cat2 (liveQ T l i) (liveQ T l' i) := by
  simp only [liveQ, List.foldl_append]
  exact liveQ_init T l' i _

/-- the top-k selection does not change what compute() depends on — true for `k = None` (the selection is a
    sort), false for an integer `k` (pairs are dropped). -/
def SelNeutral : Prop := ∀ c, T.obs (T.sel c) = T.obs c

/-- the state represents the live batches, up to what compute() depends on. -/
def RepQ (s : Nat → Cq) (l : List (Nat → Option Cq)) : Prop := ∀ i, T.obs (s i) = T.obs (liveQ T l i)

theorem topk_refines (P : ClassPlumb) (g : (Nat → Cq) → Except Err R) (hsel : SelNeutral T) :
    ∀ (h : Hist (Nat → Option Cq)) (s : Nat → Cq), eval (topkImpl T P g) h = .ok s → RepQ T s (flatten h) := by
  apply refines_rel (topkImpl T P g) (RepQ T)
  · intro i; rfl
  · intro s l b s' hs hupd i
    simp only [topkImpl, Except.ok.injEq] at hupd
    subst hupd
    rw [liveQ_append]
    rcases hbi : b i with _ | x
    · have hb : liveQ T [b] i = T.empty := by simp [liveQ, hbi]
      simp only [hbi, hb, T.empty_right]
      exact hs i
    · have hb : liveQ T [b] i = x := by simp [liveQ, hbi, T.empty_left]
      simp only [hbi, hb]
      have := T.obs_cat (s i) (liveQ T l i) x x (hs i) rfl
      split
      · rw [hsel]; exact this
      · exact this
  · intro s l ss ls s' hs hss hmrg i
    simp only [topkImpl, Except.ok.injEq] at hmrg
    subst hmrg
    have key : ∀ (ss : List (Nat → Cq)) (ls : List (Nat → Option Cq)), RelL (RepQ T) ss ls → ∀ (a : Cq) (l : List (Nat → Option Cq)),
        T.obs a = T.obs (liveQ T l i) →
        T.obs (ss.foldl (fun a t => T.cat2 a (t i)) a) = T.obs (liveQ T (l ++ ls) i) := by
      intro ss ls hss
      induction hss with
      | nil => intro a l ha; simpa using ha
      | @cons s₁ l₁ ss' ls' h₁ _ ih =>
        intro a l ha
        simp only [List.foldl_cons, ← List.append_assoc]
        apply ih
        rw [liveQ_append]
        exact T.obs_cat _ _ _ _ ha (h₁ i)
    have := key ss ls hss (s i) l (hs i)
    simp only
    split
    · rw [hsel]; exact this
    · exact this

end topk

end TE.Plumb
