/-
  TE.Lemmas.Plumb — refinement of the class state machine of ANY well-formed plumbing row
  (TE.Model.Plumb) to "a single instance fed the surviving batches in order".
-/
import TE.Model.Plumb
import TE.Lemmas.AggSM
namespace TE.Plumb
open TE TE.AggL

variable {A C : Type} (O : Ops A C)

/-! ## carriers -/

theorem unit_right (o : NOp) (a : A) : O.op o a (O.unit o) = a := by
  rw [O.comm, O.unit_left]

theorem foldl_op_init (o : NOp) (φ : Contrib A C → A) (l : List (Contrib A C)) (x : A) :
    l.foldl (fun a b => O.op o a (φ b)) x = O.op o x (l.foldl (fun a b => O.op o a (φ b)) (O.unit o)) := by
  induction l generalizing x with
  | nil => simp [unit_right]
  | cons b l ih =>
    simp only [List.foldl_cons]
    rw [ih (O.op o x (φ b)), ih (O.op o (O.unit o) (φ b)), O.unit_left, O.assoc]

/-- contextual equality of two chunk lists under `cat d`, plus equal emptiness. -/
def LEq (d : Int) (l l' : List C) : Prop :=
  (∀ pre post, O.cat d (pre ++ l ++ post) = O.cat d (pre ++ l' ++ post)) ∧ (l = [] ↔ l' = [])

theorem LEq.refl (d : Int) (l : List C) : LEq O d l l := ⟨fun _ _ => rfl, Iff.rfl⟩

theorem LEq.append_right {d : Int} {l l' : List C} (h : LEq O d l l') (m : List C) :
    LEq O d (l ++ m) (l' ++ m) := by
  refine ⟨fun pre post => ?_, ?_⟩
  · have := h.1 pre (m ++ post)
    simpa [List.append_assoc] using this
  · simp only [List.append_eq_nil_iff]
    exact ⟨fun ⟨a, b⟩ => ⟨h.2.mp a, b⟩, fun ⟨a, b⟩ => ⟨h.2.mpr a, b⟩⟩

theorem LEq.cat_eq {d : Int} {l l' : List C} (h : LEq O d l l') : O.cat d l = O.cat d l' := by
  simpa using h.1 [] []

/-- the merge step on a list state: appending the concatenation of a non-empty source. -/
theorem LEq.merge_step {d : Int} {l l' t t' : List C} (h : LEq O d l l') (ht : LEq O d t t') (hne : t ≠ []) :
    LEq O d (l ++ [O.cat d t]) (l' ++ t') := by
  have hne' : t' ≠ [] := fun e => hne (ht.2.mpr e)
  refine ⟨fun pre post => ?_, ?_⟩
  · have h1 := h.1 pre ([O.cat d t] ++ post)
    have h2 := O.cat_flat d (pre ++ l') t' post hne'
    rw [ht.cat_eq]
    simp only [List.append_assoc] at h1 h2 ⊢
    rw [ht.cat_eq] at h1
    rw [h1, h2]
  · constructor
    · intro e; simp at e
    · intro e
      simp only [List.append_eq_nil_iff] at e
      exact absurd e.2 hne'

/-! ## the canonical state: a single instance fed `l` -/

def canon (fs : List FieldPlumb) (l : List (Contrib A C)) : St A C where
  num f := match numOf fs f with
    | some (u, _, _) => l.foldl (fun a b => O.op u a (b.num f)) (O.unit u)
    | none => O.unit .add
  lst f := match lstOf fs f with | some _ => l.map (·.lst f) | none => []

/-- the state `s` represents the batches `l`. -/
def Rel (fs : List FieldPlumb) (s : St A C) (l : List (Contrib A C)) : Prop :=
  (∀ f, s.num f = (canon O fs l).num f) ∧ (∀ f, LEq O (dimOf fs f) (s.lst f) ((canon O fs l).lst f))

theorem rel_init (fs : List FieldPlumb) : Rel O fs (initSt O fs) [] := by
  refine ⟨fun f => ?_, fun f => ?_⟩
  · simp only [initSt, canon]
    rcases numOf fs f with _ | ⟨u, m, src⟩ <;> simp
  · simp only [initSt, canon]
    rcases lstOf fs f with _ | x <;> exact LEq.refl O _ _

theorem rel_upd (fs : List FieldPlumb) (s : St A C) (l : List (Contrib A C)) (b : Contrib A C)
    (h : Rel O fs s l) : Rel O fs (updSt O fs s b) (l ++ [b]) := by
  refine ⟨fun f => ?_, fun f => ?_⟩
  · have := h.1 f
    simp only [updSt, canon] at this ⊢
    rcases hf : numOf fs f with _ | ⟨u, m, src⟩ <;> simp only [hf] at this ⊢
    · exact this
    · rw [List.foldl_append, this]; rfl
  · have := h.2 f
    simp only [updSt, canon] at this ⊢
    rcases hf : lstOf fs f with _ | x <;> simp only [hf] at this ⊢
    · exact this
    · simpa using this.append_right O [b.lst f]

/-- emptiness of a list state of a represented object says whether any batch is alive. -/
theorem rel_lst_empty (fs : List FieldPlumb) (s : St A C) (l : List (Contrib A C)) (h : Rel O fs s l)
    (g : String) (hg : isLst fs g = true) : s.lst g = [] ↔ l = [] := by
  have := (h.2 g).2
  simp only [canon] at this
  simp only [isLst, Option.isSome_iff_exists] at hg
  obtain ⟨x, hx⟩ := hg
  simp only [hx] at this
  simpa using this

theorem wf_num {fs fs' : List FieldPlumb} (hall : fs'.all (wfField fs) = true) {f : String} {u m : NOp} {src : String}
    (h : numOf fs' f = some (u, m, src)) : u = m ∧ src = f := by
  induction fs' with
  | nil => simp [numOf] at h
  | cons x rest ih =>
    simp only [List.all_cons, Bool.and_eq_true] at hall
    cases x with
    | num n u' m' s' du =>
      simp only [numOf] at h
      split at h
      · rename_i hn
        simp only [Option.some.injEq, Prod.mk.injEq] at h
        obtain ⟨rfl, rfl, rfl⟩ := h
        have := hall.1
        simp only [wfField, Bool.and_eq_true, beq_iff_eq] at this
        exact ⟨this.1.1, this.1.2.trans hn⟩
      · exact ih hall.2 h
    | lst n s' g d rd raw =>
      simp only [numOf] at h
      exact ih hall.2 h

theorem wf_lst {fs fs' : List FieldPlumb} (hall : fs'.all (wfField fs) = true) {f src g : String} {d : Int}
    (h : lstOf fs' f = some (src, g, d)) : src = f ∧ isLst fs g = true := by
  induction fs' with
  | nil => simp [lstOf] at h
  | cons x rest ih =>
    simp only [List.all_cons, Bool.and_eq_true] at hall
    cases x with
    | num n u' m' s' du =>
      simp only [lstOf] at h
      exact ih hall.2 h
    | lst n s' g' d' rd raw =>
      simp only [lstOf] at h
      split at h
      · rename_i hn
        simp only [Option.some.injEq, Prod.mk.injEq] at h
        obtain ⟨rfl, rfl, rfl⟩ := h
        have := hall.1
        simp only [wfField, Bool.and_eq_true, beq_iff_eq] at this
        exact ⟨this.1.1.1.trans hn, this.1.1.2⟩
      · exact ih hall.2 h

theorem rel_mrg1 (fs : List FieldPlumb) (hwf : fs.all (wfField fs) = true)
    (s t : St A C) (l lt : List (Contrib A C))
    (h : Rel O fs s l) (ht : Rel O fs t lt) : Rel O fs (mrg1 O fs s t) (l ++ lt) := by
  refine ⟨fun f => ?_, fun f => ?_⟩
  · have h1 := h.1 f
    simp only [mrg1, canon] at h1 ⊢
    rcases hf : numOf fs f with _ | ⟨u, m, src⟩ <;> simp only [hf] at h1 ⊢
    · exact h1
    · obtain ⟨rfl, rfl⟩ := wf_num hwf hf
      have h2 := ht.1 src
      simp only [canon, hf] at h2
      rw [List.foldl_append, h1, h2]
      exact (foldl_op_init O u (fun b => b.num src) lt _).symm
  · have h1 := h.2 f
    simp only [mrg1, canon] at h1 ⊢
    rcases hf : lstOf fs f with _ | ⟨src, g, d⟩
    · have hd : dimOf fs f = 0 := by simp [dimOf, hf]
      simp only [hf, hd] at h1 ⊢
      exact h1
    · obtain ⟨rfl, hg⟩ := wf_lst hwf hf
      have h2 := ht.2 src
      have hd : dimOf fs src = d := by simp [dimOf, hf]
      simp only [canon, hf, hd] at h1 h2 ⊢
      have hsrc : t.lst src = [] ↔ lt = [] := rel_lst_empty O fs t lt ht src (by simp [isLst, hf])
      have hgd : t.lst g = [] ↔ lt = [] := rel_lst_empty O fs t lt ht g hg
      by_cases hne : t.lst g = []
      · have : lt = [] := hgd.mp hne
        subst this
        simpa [hne] using h1
      · have hne' : t.lst src ≠ [] := fun e => hne (hgd.mpr (hsrc.mp e))
        simpa [hne] using LEq.merge_step O h1 h2 hne'

theorem rel_mrg (fs : List FieldPlumb) (hwf : fs.all (wfField fs) = true)
    (ss : List (St A C)) (ls : List (Contrib A C)) (hss : RelL (Rel O fs) ss ls) :
    ∀ (s : St A C) (l : List (Contrib A C)), Rel O fs s l → Rel O fs (ss.foldl (mrg1 O fs) s) (l ++ ls) := by
  induction hss with
  | nil => intro s l h; simpa using h
  | cons h₁ _ ih =>
    intro s l h
    simp only [List.foldl_cons, ← List.append_assoc]
    exact ih _ _ (rel_mrg1 O fs hwf _ _ _ _ h h₁)

variable {R : Type}

/-- **every reachable state of a well-formed row represents the batches alive in its history.** -/
theorem plumb_refines (P : ClassPlumb) (g : View A C → Except Err R) (hwf : WF P = true) :
    ∀ (h : Hist (Contrib A C)) (s : St A C), eval (plumbImpl O P g) h = .ok s → Rel O P.fields s (flatten h) := by
  have hall : P.fields.all (wfField P.fields) = true := by
    simp only [WF, Bool.and_eq_true] at hwf; exact hwf.2
  apply refines_rel (plumbImpl O P g) (Rel O P.fields)
  · exact rel_init O P.fields
  · intro s l b s' hs hu
    simp only [plumbImpl, Except.ok.injEq] at hu
    subst hu
    exact rel_upd O P.fields s l b hs
  · intro s l ss ls s' hs hss hm
    simp only [plumbImpl, Except.ok.injEq] at hm
    subst hm
    exact rel_mrg O P.fields hall ss ls hss s l hs

/-- two states representing the same batches look the same to `compute()`. -/
theorem rel_view (fs : List FieldPlumb) (s s' : St A C) (l : List (Contrib A C))
    (h : Rel O fs s l) (h' : Rel O fs s' l) : view O fs s = view O fs s' := by
  have hn : s.num = s'.num := funext fun f => (h.1 f).trans (h'.1 f).symm
  have hc : ∀ f, O.cat (dimOf fs f) (s.lst f) = O.cat (dimOf fs f) (s'.lst f) := fun f =>
    (h.2 f).cat_eq.trans (h'.2 f).cat_eq.symm
  have he : ∀ f, (s.lst f).isEmpty = (s'.lst f).isEmpty := fun f => by
    have a := (h.2 f).2
    have b := (h'.2 f).2
    rw [Bool.eq_iff_iff]
    simp only [List.isEmpty_iff]
    exact a.trans b.symm
  simp only [view, hn]
  congr 1
  · exact funext hc
  · exact funext he

/-! ## totality and the explicit state of a single instance -/

mutual
theorem plumb_total (P : ClassPlumb) (g : View A C → Except Err R) :
    ∀ (h : Hist (Contrib A C)), ∃ s, eval (plumbImpl O P g) h = .ok s
  | .fresh => ⟨_, rfl⟩
  | .update h b => by
    obtain ⟨s, hs⟩ := plumb_total P g h
    refine ⟨updSt O P.fields s b, ?_⟩
    simp only [eval, hs]; rfl
  | .merge h hs => by
    obtain ⟨s, e⟩ := plumb_total P g h
    obtain ⟨ss, es⟩ := plumb_totalList P g hs
    refine ⟨ss.foldl (mrg1 O P.fields) s, ?_⟩
    simp only [eval, e, es]; rfl
  | .reset h => by
    obtain ⟨s, e⟩ := plumb_total P g h
    refine ⟨(plumbImpl O P g).init, ?_⟩
    simp only [eval, e]; rfl
theorem plumb_totalList (P : ClassPlumb) (g : View A C → Except Err R) :
    ∀ (hs : List (Hist (Contrib A C))), ∃ ss, evalList (plumbImpl O P g) hs = .ok ss
  | [] => ⟨_, rfl⟩
  | h :: hs => by
    obtain ⟨s, e⟩ := plumb_total P g h
    obtain ⟨ss, es⟩ := plumb_totalList P g hs
    refine ⟨s :: ss, ?_⟩
    simp only [evalList, e, es]; rfl
end

theorem foldl_upd_num (fs : List FieldPlumb) (l : List (Contrib A C)) (s : St A C) (f : String) :
    (l.foldl (updSt O fs) s).num f =
      match numOf fs f with
      | some (u, _, _) => l.foldl (fun a b => O.op u a (b.num f)) (s.num f)
      | none => s.num f := by
  induction l generalizing s with
  | nil => rcases numOf fs f with _ | ⟨u, m, src⟩ <;> rfl
  | cons b l ih =>
    simp only [List.foldl_cons]
    rw [ih]
    simp only [updSt]
    rcases numOf fs f with _ | ⟨u, m, src⟩ <;> rfl

theorem foldl_upd_lst (fs : List FieldPlumb) (l : List (Contrib A C)) (s : St A C) (f : String) :
    (l.foldl (updSt O fs) s).lst f =
      match lstOf fs f with
      | some _ => s.lst f ++ l.map (·.lst f)
      | none => s.lst f := by
  induction l generalizing s with
  | nil => rcases lstOf fs f with _ | x <;> simp
  | cons b l ih =>
    simp only [List.foldl_cons]
    rw [ih]
    simp only [updSt]
    rcases lstOf fs f with _ | x <;> simp

theorem eval_updates (P : ClassPlumb) (g : View A C → Except Err R) (l : List (Contrib A C)) :
    ∀ (h : Hist (Contrib A C)) (s : St A C), eval (plumbImpl O P g) h = .ok s →
      eval (plumbImpl O P g) (l.foldl Hist.update h) = .ok (l.foldl (updSt O P.fields) s) := by
  induction l with
  | nil => intro h s e; simpa using e
  | cons b l ih =>
    intro h s e
    simp only [List.foldl_cons]
    apply ih
    simp only [eval, e]; rfl

theorem eval_single (P : ClassPlumb) (g : View A C → Except Err R) (l : List (Contrib A C)) :
    eval (plumbImpl O P g) (single l) = .ok (l.foldl (updSt O P.fields) (initSt O P.fields)) :=
  eval_updates O P g l .fresh _ rfl

/-- order-independence of the numeric folds (C12). -/
theorem foldl_op_perm (o : NOp) (φ : Contrib A C → A) {l l' : List (Contrib A C)} (hp : l.Perm l') (x : A) :
    l.foldl (fun a b => O.op o a (φ b)) x = l'.foldl (fun a b => O.op o a (φ b)) x := by
  apply hp.foldl_eq'
  intro a _ b _ z
  rw [O.assoc, O.assoc, O.comm o (φ a)]

end TE.Plumb
