/-
  TE.Lemmas.FamCache — generic class-level development for the typed cache-all classes of
  TE/Model/FamsCache.lean (`CFam`: samples + "was updated" flag; `LFam`: samples only).

  For a cache-all class `f` with functional `f.fn = stat >=> out`:
    * `ClassEqFn`          C03  class fed any non-empty stream = functional on the concatenation;
    * `BatchingSame`       C12  any consecutive batching reaches the same state;
    * `AnyOrder`           C12  any order of the batches / any permutation of the samples gives the
                                same `compute()` — from `OutPerm` (the functional's `compute` is
                                invariant under permutations of the samples, C05 / C06 / C07);
    * `MergeTreeFn`        C01  every history tree: state = samples of the live batches in merge
                                order, `compute()` = functional on their concatenation;
    * `MergeTreeAnyOrder`  C01  … = functional on ANY ordering of the live samples = the single
                                instance that saw them in any order.
-/
import TE.Lemmas.FamStat
import TE.Lemmas.FamStatList
import TE.Model.FamsCache
namespace TE.FamCache
open TE TE.Fams TE.FamStat

variable {B α β O : Type}

/-! ### the accumulators -/

theorem flagAcc_laws (α : Type) : Laws (flagAcc α) where
  assoc := by intro a b c; simp [flagAcc, Bool.or_assoc]
  add_zero := by intro a; simp [flagAcc]
  zero_add := by intro a; simp [flagAcc]

theorem pairAcc_laws (α β : Type) : Laws (pairAcc α β) where
  assoc := by intro a b c; simp [pairAcc]
  add_zero := by intro a; simp [pairAcc]
  zero_add := by intro a; simp [pairAcc]

/-- every batch passes the typed validation. -/
def Valid (stat : B → Except Err (List α)) (bs : List B) : Prop := ∀ b ∈ bs, ∃ l, stat b = .ok l

/-- the samples of a list of (valid) batches, in order. -/
def samplesOf (stat : B → Except Err (List α)) (bs : List B) : List α :=
  (bs.map (statT (listAcc α) stat)).flatten

theorem samplesOf_nil (stat : B → Except Err (List α)) : samplesOf stat [] = [] := rfl

theorem samplesOf_eq_accL (stat : B → Except Err (List α)) (bs : List B) :
    samplesOf stat bs = accL (listAcc α) (statT (listAcc α) stat) bs := (accL_listAcc _ bs).symm

theorem valid_of_flagged (f : CFam B α O) {bs : List B} (hv : ∀ b ∈ bs, ∃ a, f.flagged b = .ok a) :
    Valid f.stat bs := by
  intro b hb
  obtain ⟨a, ha⟩ := hv b hb
  unfold CFam.flagged at ha
  cases hs : f.stat b with
  | ok l => exact ⟨l, rfl⟩
  | error e => rw [hs] at ha; simp [Except.map] at ha

theorem flagged_of_valid (f : CFam B α O) {bs : List B} (hv : Valid f.stat bs) :
    ∀ b ∈ bs, ∃ a, f.flagged b = .ok a := by
  intro b hb
  obtain ⟨l, hl⟩ := hv b hb
  exact ⟨(true, l), by simp [CFam.flagged, hl, Except.map]⟩

theorem statT_flagged (f : CFam B α O) {b : B} {l : List α} (h : f.stat b = .ok l) :
    statT (flagAcc α) f.flagged b = (true, statT (listAcc α) f.stat b) := by
  simp [statT, CFam.flagged, h, Except.map]

theorem foldl_flag (f : CFam B α O) (bs : List B) (hv : Valid f.stat bs) (x : Bool × List α) :
    bs.foldl (fun a b => (flagAcc α).add a (statT (flagAcc α) f.flagged b)) x
      = (x.1 || !bs.isEmpty, x.2 ++ samplesOf f.stat bs) := by
  induction bs generalizing x with
  | nil => simp [samplesOf]
  | cons b bs ih =>
    obtain ⟨l, hl⟩ := hv b (List.mem_cons_self ..)
    rw [List.foldl_cons, ih (fun b' hb' => hv b' (List.mem_cons_of_mem _ hb')), statT_flagged f hl]
    simp [flagAcc, samplesOf]

/-- the accumulated state of valid batches: "some update happened" and their samples. -/
theorem accL_flag (f : CFam B α O) (bs : List B) (hv : Valid f.stat bs) :
    accL (flagAcc α) (statT (flagAcc α) f.flagged) bs = (!bs.isEmpty, samplesOf f.stat bs) := by
  unfold accL
  rw [foldl_flag f bs hv]
  simp [flagAcc]

/-- the flagged statistic inherits `StatCat` from the sample statistic. -/
theorem statCat_flag (f : CFam B α O) {catB : List B → B} (hc : StatCat (listAcc α) f.stat catB) :
    StatCat (flagAcc α) f.flagged catB := by
  intro bs hne hv
  have hv' := valid_of_flagged f hv
  have h1 := hc bs hne hv'
  rw [accL_flag f bs hv']
  have : bs.isEmpty = false := by cases bs <;> simp_all
  simp [CFam.flagged, h1, Except.map, this, samplesOf_eq_accL]

/-- the functional on a concatenation of valid batches is `out` of all their samples. -/
theorem fn_cat (f : CFam B α O) {catB : List B → B} (hc : StatCat (listAcc α) f.stat catB)
    (bs : List B) (hne : bs ≠ []) (hv : Valid f.stat bs) :
    f.fn (catB bs) = f.out (samplesOf f.stat bs) := by
  unfold CFam.fn
  rw [hc bs hne hv, samplesOf_eq_accL]
  rfl

/-- running the class on valid batches. -/
theorem eval_single_cls (f : CFam B α O) (bs : List B) (hv : Valid f.stat bs) :
    eval f.cls (single bs) = .ok (!bs.isEmpty, samplesOf f.stat bs) := by
  unfold CFam.cls
  rw [eval_single (flagAcc α) f.flagged f.outS bs (flagged_of_valid f hv), accL_flag f bs hv]

theorem out_state (f : CFam B α O) (l : List α) : f.cls.out (true, l) = f.out l := rfl

/-! ### the class-level statements -/

/-- **C03**: the class fed any non-empty stream of valid batches computes what the functional
    computes on their concatenation. -/
def ClassEqFn (f : CFam B α O) (catB : List B → B) : Prop :=
  ∀ bs : List B, bs ≠ [] → Valid f.stat bs →
    ∃ s, eval f.cls (single bs) = .ok s ∧ f.cls.out s = f.fn (catB bs)

/-- **C12** (consecutive batching): feeding the batches one by one reaches the state of ONE update
    with their concatenation. -/
def BatchingSame (f : CFam B α O) (catB : List B → B) : Prop :=
  ∀ bs : List B, bs ≠ [] → Valid f.stat bs →
    ∃ s, eval f.cls (single [catB bs]) = .ok s ∧ eval f.cls (single bs) = .ok s

/-- `compute` depends only on the multiset of the samples (for samples satisfying `P`). -/
def OutPerm (out : List α → Except Err O) (P : List α → Prop) : Prop :=
  ∀ l l' : List α, l.Perm l' → P l → out l = out l'

/-- **C12** (any order): two streams whose samples are permutations of each other — any batching,
    any order of the batches, any order of the samples inside them — give the same `compute()`. -/
def AnyOrder (f : CFam B α O) (P : List α → Prop) : Prop :=
  ∀ bs bs' : List B, bs ≠ [] → bs' ≠ [] → Valid f.stat bs → Valid f.stat bs' →
    (samplesOf f.stat bs).Perm (samplesOf f.stat bs') → P (samplesOf f.stat bs) →
    ∃ s s', eval f.cls (single bs) = .ok s ∧ eval f.cls (single bs') = .ok s' ∧
      f.cls.out s = f.cls.out s'

/-- **C01** (merge order): whatever tree of `update` / `merge_state` / `reset` calls produced a state,
    it holds the samples of the live batches in merge order, it is the state of ONE instance fed
    those batches, and its `compute()` is the functional on their concatenation. -/
def MergeTreeFn (f : CFam B α O) (catB : List B → B) : Prop :=
  ∀ (h : Hist B) (s : Bool × List α), eval f.cls h = .ok s →
    s = (!(flatten h).isEmpty, samplesOf f.stat (flatten h)) ∧
    eval f.cls (single (flatten h)) = .ok s ∧
    (flatten h ≠ [] → f.cls.out s = f.fn (catB (flatten h)))

/-- **C01** (any order): `compute()` of any history tree = the functional on ANY stream `bs` whose
    samples are a permutation of the live samples = `compute()` of one instance fed `bs`. -/
def MergeTreeAnyOrder (f : CFam B α O) (P : List α → Prop) (catB : List B → B) : Prop :=
  ∀ (h : Hist B) (s : Bool × List α), eval f.cls h = .ok s →
    ∀ bs : List B, bs ≠ [] → flatten h ≠ [] → Valid f.stat bs →
      (samplesOf f.stat bs).Perm (samplesOf f.stat (flatten h)) → P (samplesOf f.stat (flatten h)) →
      f.cls.out s = f.fn (catB bs) ∧
      ∃ s', eval f.cls (single bs) = .ok s' ∧ f.cls.out s' = f.cls.out s

theorem classEqFn_of_statCat (f : CFam B α O) {catB : List B → B}
    (hc : StatCat (listAcc α) f.stat catB) : ClassEqFn f catB := by
  intro bs hne hv
  refine ⟨_, eval_single_cls f bs hv, ?_⟩
  have : bs.isEmpty = false := by cases bs <;> simp_all
  rw [fn_cat f hc bs hne hv, this]
  rfl

theorem batchingSame_of_statCat (f : CFam B α O) {catB : List B → B}
    (hc : StatCat (listAcc α) f.stat catB) : BatchingSame f catB := by
  intro bs hne hv
  have h := batching_ordered_of_statCat (flagAcc α) (flagAcc_laws α) (statCat_flag f hc) f.outS bs hne
    (flagged_of_valid f hv)
  exact h

theorem anyOrder_of_outPerm (f : CFam B α O) {P : List α → Prop} (hp : OutPerm f.out P) :
    AnyOrder f P := by
  intro bs bs' hne hne' hv hv' hperm hP
  refine ⟨_, _, eval_single_cls f bs hv, eval_single_cls f bs' hv', ?_⟩
  have e : bs.isEmpty = false := by cases bs <;> simp_all
  have e' : bs'.isEmpty = false := by cases bs' <;> simp_all
  rw [e, e']
  exact hp _ _ hperm hP

theorem valid_of_eval (f : CFam B α O) (h : Hist B) (s : Bool × List α) (he : eval f.cls h = .ok s) :
    Valid f.stat (flatten h) :=
  valid_of_flagged f (eval_valid (flagAcc α) f.flagged f.outS h s he)

theorem state_of_eval (f : CFam B α O) (h : Hist B) (s : Bool × List α) (he : eval f.cls h = .ok s) :
    s = (!(flatten h).isEmpty, samplesOf f.stat (flatten h)) := by
  have hs := (refines (additive_sim (flagAcc α) f.flagged f.outS) (flagAcc_laws α) h s he).2
  simp only [id] at hs
  rw [hs, accL_flag f _ (valid_of_eval f h s he)]

theorem mergeTreeFn_of_statCat (f : CFam B α O) {catB : List B → B}
    (hc : StatCat (listAcc α) f.stat catB) : MergeTreeFn f catB := by
  intro h s he
  have hv := valid_of_eval f h s he
  have hs := state_of_eval f h s he
  refine ⟨hs, by rw [eval_single_cls f _ hv, hs], ?_⟩
  intro hne
  have e : (flatten h).isEmpty = false := by cases hf : flatten h <;> simp_all
  rw [fn_cat f hc _ hne hv, hs, e]
  rfl

theorem mergeTreeAnyOrder (f : CFam B α O) {P : List α → Prop} {catB : List B → B}
    (hc : StatCat (listAcc α) f.stat catB) (hp : OutPerm f.out P) : MergeTreeAnyOrder f P catB := by
  intro h s he bs hne hne' hv hperm hP
  have hs := state_of_eval f h s he
  have e : (flatten h).isEmpty = false := by cases hf : flatten h <;> simp_all
  have e' : bs.isEmpty = false := by cases bs <;> simp_all
  have key : f.out (samplesOf f.stat (flatten h)) = f.out (samplesOf f.stat bs) := hp _ _ hperm.symm hP
  refine ⟨?_, _, eval_single_cls f bs hv, ?_⟩
  · rw [fn_cat f hc bs hne hv, hs, e, ← key]; rfl
  · rw [hs, e, e']
    exact key.symm

/-! ### `LFam` (no flag): the order-insensitive statements

  The consecutive-batching / merge-order statements for `LFam.cls = additive (listAcc α) stat outA`
  are the `outA`-generic `FamStat.BatchingIrrelevantOrdered`, `ClassEqFunctional`,
  `MergeTreeEqFunctionalOrdered`. -/

theorem eval_single_lcls (f : LFam B α O) (bs : List B) (hv : Valid f.stat bs) :
    eval f.cls (single bs) = .ok (samplesOf f.stat bs) := by
  unfold LFam.cls
  rw [eval_single (listAcc α) f.stat f.outA bs hv, samplesOf_eq_accL]

/-- **C12** (any order) for a flag-free cache class. -/
def LAnyOrder (f : LFam B α O) (P : List α → Prop) : Prop :=
  ∀ bs bs' : List B, Valid f.stat bs → Valid f.stat bs' →
    (samplesOf f.stat bs).Perm (samplesOf f.stat bs') → P (samplesOf f.stat bs) →
    ∃ s s', eval f.cls (single bs) = .ok s ∧ eval f.cls (single bs') = .ok s' ∧
      f.cls.out s = f.cls.out s'

/-- **C01** (any order) for a flag-free cache class. -/
def LMergeTreeAnyOrder (f : LFam B α O) (P : List α → Prop) (catB : List B → B) : Prop :=
  ∀ (h : Hist B) (s : List α), eval f.cls h = .ok s →
    s = samplesOf f.stat (flatten h) ∧
    ∀ bs : List B, bs ≠ [] → Valid f.stat bs →
      (samplesOf f.stat bs).Perm (samplesOf f.stat (flatten h)) → P (samplesOf f.stat (flatten h)) →
      f.cls.out s = f.fn (catB bs) ∧
      ∃ s', eval f.cls (single bs) = .ok s' ∧ f.cls.out s' = f.cls.out s

theorem lAnyOrder_of_outPerm (f : LFam B α O) {P : List α → Prop} (hp : OutPerm f.outA P) :
    LAnyOrder f P := by
  intro bs bs' hv hv' hperm hP
  exact ⟨_, _, eval_single_lcls f bs hv, eval_single_lcls f bs' hv', hp _ _ hperm hP⟩

theorem lMergeTreeAnyOrder (f : LFam B α O) {P : List α → Prop} {catB : List B → B}
    (hc : StatCat (listAcc α) f.stat catB) (hp : OutPerm f.outA P) : LMergeTreeAnyOrder f P catB := by
  intro h s he
  have hs : s = samplesOf f.stat (flatten h) := by
    have := (refines (additive_sim (listAcc α) f.stat f.outA) (listAcc_laws α) h s he).2
    simp only [id] at this
    rw [this, samplesOf_eq_accL]
  refine ⟨hs, ?_⟩
  intro bs hne hv hperm hP
  have key : f.outA (samplesOf f.stat (flatten h)) = f.outA (samplesOf f.stat bs) := hp _ _ hperm.symm hP
  refine ⟨?_, _, eval_single_lcls f bs hv, ?_⟩
  · unfold LFam.fn
    rw [hc bs hne hv, ← samplesOf_eq_accL, hs]
    exact key
  · rw [hs]; exact key.symm

/-! ### samples of the batch shapes -/

/-- batches that are already sample lists (`catSamples`). -/
theorem samplesOf_catSamples (bs : List (List α)) : samplesOf (catSamples (α := α)) bs = bs.flatten := by
  unfold samplesOf
  congr 1
  have : ∀ b : List α, statT (listAcc α) (catSamples (α := α)) b = b := by
    intro b; simp [statT, catSamples, cacheStat, Except.map]
  rw [show statT (listAcc α) (catSamples (α := α)) = id from funext this, List.map_id]

theorem valid_catSamples (bs : List (List α)) : Valid (catSamples (α := α)) bs := by
  intro b _; exact ⟨b, rfl⟩

/-- `(input, target)` batches with one entry per sample. -/
theorem pairSamples_ok (b : List α × List β) (h : b.1.length = b.2.length) :
    pairSamples b = .ok (b.1.zip b.2) := by
  simp [pairSamples, cacheStat, lenCheck, h, Except.map]

theorem pairSamples_ok_iff (b : List α × List β) :
    (∃ l, pairSamples b = .ok l) ↔ b.1.length = b.2.length := by
  constructor
  · intro ⟨l, hl⟩
    by_cases h : b.1.length = b.2.length
    · exact h
    · simp [pairSamples, cacheStat, lenCheck, h, Except.map] at hl
  · intro h; exact ⟨_, pairSamples_ok b h⟩

theorem samplesOf_pairSamples (bs : List (List α × List β)) (hv : Valid (pairSamples (α := α) (β := β)) bs) :
    samplesOf pairSamples bs = (bs.map fun b => b.1.zip b.2).flatten := by
  unfold samplesOf
  congr 1
  apply List.map_congr_left
  intro b hb
  have := (pairSamples_ok_iff b).mp (hv b hb)
  simp [statT, pairSamples_ok b this]

/-- decidable form of `Valid` (for concrete examples). -/
theorem valid_of_all' (stat : B → Except Err (List α)) (bs : List B)
    (h : bs.all (fun b => (stat b).toOption.isSome) = true) : Valid stat bs :=
  valid_of_all stat bs h

/-- `Except Err _` has no decidable equality: decide the `toOption` form instead. -/
theorem eq_ok_of_toOption {x : Except Err α} {a : α} (h : x.toOption = some a) : x = .ok a := by
  cases x with
  | ok b => simp [Except.toOption] at h; rw [h]
  | error e => simp [Except.toOption] at h

end TE.FamCache
