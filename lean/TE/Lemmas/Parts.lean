/-
  TE.Lemmas.Parts — (Parts, ppadd, []) and (List α, ++, []) satisfy the monoid
  laws the generic refinement needs.
-/
import TE.Model.Parts
import TE.Lemmas.ClassSM
namespace TE

theorem padd_nil_right (a : List Q) : padd a [] = a := by cases a <;> rfl
theorem padd_nil_left (a : List Q) : padd [] a = a := by cases a <;> rfl

theorem padd_comm : ∀ a b : List Q, padd a b = padd b a
  | [], b => by rw [padd_nil_left, padd_nil_right]
  | a, [] => by rw [padd_nil_left, padd_nil_right]
  | x :: a, y :: b => by simp only [padd]; rw [padd_comm a b, Rat.add_comm]

theorem padd_assoc : ∀ a b c : List Q, padd (padd a b) c = padd a (padd b c)
  | [], b, c => by simp [padd_nil_left]
  | a, [], c => by simp [padd_nil_left, padd_nil_right]
  | a, b, [] => by simp [padd_nil_right]
  | x :: a, y :: b, z :: c => by simp only [padd]; rw [padd_assoc a b c, Rat.add_assoc]

theorem ppadd_nil_right (a : Parts) : ppadd a [] = a := by cases a <;> rfl
theorem ppadd_nil_left (a : Parts) : ppadd [] a = a := by cases a <;> rfl

theorem ppadd_comm : ∀ a b : Parts, ppadd a b = ppadd b a
  | [], b => by rw [ppadd_nil_left, ppadd_nil_right]
  | a, [] => by rw [ppadd_nil_left, ppadd_nil_right]
  | x :: a, y :: b => by simp only [ppadd]; rw [ppadd_comm a b, padd_comm]

theorem ppadd_assoc : ∀ a b c : Parts, ppadd (ppadd a b) c = ppadd a (ppadd b c)
  | [], b, c => by simp [ppadd_nil_left]
  | a, [], c => by simp [ppadd_nil_left, ppadd_nil_right]
  | a, b, [] => by simp [ppadd_nil_right]
  | x :: a, y :: b, z :: c => by simp only [ppadd]; rw [ppadd_assoc a b c, padd_assoc]

theorem partsAcc_laws : CommLaws partsAcc where
  assoc := ppadd_assoc
  add_zero := ppadd_nil_right
  zero_add := ppadd_nil_left
  comm := ppadd_comm

theorem listAcc_laws (α : Type) : Laws (listAcc α) where
  assoc := by intro a b c; simp [listAcc]
  add_zero := by intro a; simp [listAcc]
  zero_add := by intro a; simp [listAcc]

/-- accumulated list = concatenation of the per-batch lists. -/
theorem accL_listAcc {B α : Type} (stat : B → List α) (bs : List B) :
    accL (listAcc α) stat bs = (bs.map stat).flatten := by
  induction bs with
  | nil => rfl
  | cons b bs ih =>
    have : b :: bs = [b] ++ bs := rfl
    rw [this, accL_append _ (listAcc_laws α), ih, accL_singleton _ (listAcc_laws α)]
    simp [listAcc]

end TE
