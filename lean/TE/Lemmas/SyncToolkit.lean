/-
  TE.Lemmas.SyncToolkit — `get_synced_metric` / `get_synced_metric_collection` on a whole group.
-/
import TE.Lemmas.SyncStates
namespace TE.Sync
open TE.Spec.Sync

variable {S : Type}

/-! ### worlds that only return or raise -/

theorem dones_map_liftE_ok {R : Type} (xs : List Nat) (X : Nat → Except Err R) (Y : Nat → R)
    (h : ∀ i ∈ xs, X i = .ok (Y i)) : xs.map (fun i => liftE (X i)) = xs.map fun i => Prog.done (Y i) :=
  List.map_congr_left fun i hi => by rw [h i hi]; rfl

theorem yields_liftE_ok {R : Type} (g : List Nat) (xs : List Nat) (X : Nat → Except Err R) (Y : Nat → R)
    (h : ∀ i ∈ xs, X i = .ok (Y i)) : Yields g (xs.map fun i => liftE (X i)) (xs.map Y) := by
  rw [dones_map_liftE_ok xs X Y h]; exact yields_done g xs Y

theorem firstFail_isSome_of_mem {R : Type} (ps : List (Prog R)) (e : Err) (h : Prog.fail e ∈ ps) :
    ∃ e', firstFail ps = some e' := by
  induction ps with
  | nil => simp at h
  | cons p ps ih =>
    cases p with
    | fail e0 => exact ⟨e0, rfl⟩
    | done r =>
      rcases List.mem_cons.mp h with h | h
      · cases h
      · exact ih h
    | coll q k =>
      rcases List.mem_cons.mp h with h | h
      · cases h
      · exact ih h

theorem dones_none_of_mem_fail {R : Type} (ps : List (Prog R)) (e : Err) (h : Prog.fail e ∈ ps) :
    dones ps = none := by
  induction ps with
  | nil => simp at h
  | cons p ps ih =>
    cases p with
    | fail e0 => rfl
    | coll q k => rfl
    | done r =>
      rcases List.mem_cons.mp h with h | h
      · cases h
      · simp [dones, ih h]

/-- a world whose members only return or raise, one of them raising, ends crashed (a Python
    exception on that member — never a collective mismatch). -/
theorem crashed_liftE {R : Type} (g : List Nat) (xs : List Nat) (X : Nat → Except Err R)
    (i : Nat) (e : Err) (hi : i ∈ xs) (he : X i = .error e) :
    ∃ e', (runWorldL g (xs.map fun i => liftE (X i))).out = .error (.crashed e') := by
  have hmem : Prog.fail e ∈ xs.map fun i => liftE (X i) :=
    List.mem_map.mpr ⟨i, hi, by rw [he]; rfl⟩
  cases xs with
  | nil => simp at hi
  | cons x xs =>
    simp only [List.map_cons] at hmem ⊢
    simp only [runWorldL]
    cases hx : X x with
    | error e0 => exact ⟨e0, by simp [liftE, runWorld]⟩
    | ok r =>
      have hmem' : Prog.fail e ∈ xs.map fun i => liftE (X i) := by
        rcases List.mem_cons.mp hmem with h | h
        · rw [hx] at h; cases h
        · exact h
      obtain ⟨e', he'⟩ := firstFail_isSome_of_mem _ e hmem'
      refine ⟨e', ?_⟩
      rw [show liftE (Except.ok r : Except Err R) = Prog.done r from rfl]
      simp only [runWorld, dones_none_of_mem_fail _ e hmem', stuck, he']

/-! ### what the pseudo-metric holds -/

theorem traversal_tmp (sd : List (String × TState)) :
    traversal [(tmpName, sd)] =
      (sortKeys (sd.map (·.1))).filterMap fun s => (lookupKey s sd).map fun v => ((tmpName, s), v) := by
  simp [traversal, sortKeys, insertKey, lookupKey]

theorem statesOf_filterMap (m : String) (f : String → Option TState) (l : List String) :
    statesOf m ((l.filterMap fun s => (f s).map fun v => ((m, s), v)).map canonEntry)
      = l.filterMap fun s => (f s).map fun v => (s, canon v) := by
  induction l with
  | nil => rfl
  | cons a l ih =>
    simp only [statesOf] at ih ⊢
    cases hf : f a with
    | none => simp only [List.filterMap_cons, hf, Option.map_none]; exact ih
    | some v =>
      simp only [List.filterMap_cons, hf, Option.map_some, List.map_cons, canonEntry, beq_self_eq_true, if_true]
      rw [ih]

/-- the pseudo-metric built from the gathered row of a single metric is `recon` of its state dict. -/
theorem statesOf_tmp (sd : List (String × TState)) :
    statesOf tmpName ((traversal [(tmpName, sd)]).map canonEntry) = recon sd := by
  rw [traversal_tmp, statesOf_filterMap]; rfl

/-- `recon sd` is the same map as `sd` (dict states in canonical listing). -/
theorem recon_lookup (sd : List (String × TState)) (q : String) :
    lookupKey q (recon sd) = (lookupKey q sd).map canon := by
  have key : ∀ ks : List String, lookupKey q (ks.filterMap fun s => (lookupKey s sd).map fun v => (s, canon v))
      = if q ∈ ks then (lookupKey q sd).map canon else none := by
    intro ks
    induction ks with
    | nil => simp [lookupKey]
    | cons a ks ih =>
      by_cases h : a = q
      · subst h
        cases hl : lookupKey a sd with
        | none => simp only [List.filterMap_cons, hl, Option.map_none, ih]; simp
        | some v => simp [hl, lookupKey]
      · have hb : (a == q) = false := by simpa using h
        have hq : q ≠ a := fun e => h e.symm
        cases hl : lookupKey a sd with
        | none => simp only [List.filterMap_cons, hl, Option.map_none, ih, List.mem_cons, hq, false_or]
        | some v => simp only [List.filterMap_cons, hl, Option.map_some, lookupKey, hb, Bool.false_eq_true,
            if_false, ih, List.mem_cons, hq, false_or]
  simp only [recon, key]
  split
  · rfl
  · next h =>
    have : lookupKey q sd = none := (lookupKey_eq_none q sd).mpr fun h' => h ((mem_sortKeys q _).mpr h')
    simp [this]

theorem pick_others {α : Type} (n : Nat) (F : Nat → α) (r : Nat) :
    pick ((List.range n).map F) (othersIdx n r) = (others n r).map F := by
  have key : ∀ l : List Nat, (∀ j ∈ l, j < n) →
      l.filterMap (fun j => ((List.range n).map F)[j]?) = l.map F := by
    intro l
    induction l with
    | nil => intro _; rfl
    | cons a l ih =>
      intro h
      have ha : a < n := h a (List.mem_cons_self ..)
      have hget : ((List.range n).map F)[a]? = some (F a) := by
        simp [List.getElem?_map, List.getElem?_range ha]
      rw [List.filterMap_cons, hget, ih (fun j hj => h j (List.mem_cons_of_mem _ hj)), List.map_cons]
  simp only [pick, othersIdx, others]
  exact key _ fun j hj => List.mem_range.mp (List.mem_filter.mp hj).1

/-! ### `get_synced_metric` -/

/-- what member `r` computes locally once every member's state dict has arrived. -/
def mergeOf (M : MetricI S) (n : Nat) (s : Nat → S) (r : Nat) : Except Err S :=
  M.mrg (M.prep (s r)) ((others n r).map fun j => recon (M.sd (M.prep (s j))))

theorem out_getSyncedMetric (M : MetricI S) (g : List Nat) (n : Nat) (hg : IsGroup g n) (hn : 2 ≤ n)
    (dst : Option Nat) (junk : Nat → Q) (s : Nat → S)
    (hE : Syncable n fun i => traversal [(tmpName, M.sd (M.prep (s i)))]) :
    (runWorldL g ((List.range n).map fun i => getSyncedMetric M true (envOf g n dst junk i) (s i))).out
      = (runWorldL g ((List.range n).map fun i => liftE (mergeOf M n s i))).out := by
  have h1 : (n == 1) = false := by rw [beq_eq_false_iff_ne]; omega
  have h2 : ¬ n < 1 := by omega
  have hY := yields_syncFlat g n none junk hg trivial _ hE
  have := out_bind_map g (List.range n)
    (fun i => syncStates (envOf g n none junk i) [(tmpName, M.sd (M.prep (s i)))])
    (fun i r => match r with
      | none => Prog.fail .assertion
      | some rows =>
        liftE (M.mrg (M.prep (s i)) (pick (rows.map (statesOf tmpName)) (othersIdx n i))))
    _ hY
  have hL : ((List.range n).map fun i => getSyncedMetric M true (envOf g n dst junk i) (s i)) =
      (List.range n).map fun i => (syncStates (envOf g n none junk i) [(tmpName, M.sd (M.prep (s i)))]).bind
        (fun r => match r with
          | none => Prog.fail .assertion
          | some rows =>
            liftE (M.mrg (M.prep (s i)) (pick (rows.map (statesOf tmpName)) (othersIdx n i)))) := by
    apply List.map_congr_left
    intro i _
    simp only [getSyncedMetric, envOf, if_true, h1, h2, Bool.false_eq_true, if_false]
    rfl
  rw [hL, this]
  congr 2
  apply List.map_congr_left
  intro i hi
  simp only [gathered, receives, if_true, allOf, List.map_map, mergeOf]
  have : ((List.range n).map (statesOf tmpName ∘ fun j => (traversal [(tmpName, M.sd (M.prep (s j)))]).map canonEntry))
      = (List.range n).map fun j => recon (M.sd (M.prep (s j))) :=
    List.map_congr_left fun j _ => statesOf_tmp _
  rw [this, pick_others]

/-! ### `get_synced_metric_collection` -/

/-- what member `j` sent, in traversal order (dict states in canonical listing). -/
def sentRow (c : List (String × List (String × TState))) : List (Key × TState) :=
  (traversal c).map canonEntry

/-- `_prepare_for_merge_state` on every metric of a collection. -/
def prepAll (M : MetricI S) (ms : List (String × S)) : List (String × S) := ms.map fun (k, s) => (k, M.prep s)

/-- the state dicts of a (prepared) collection. -/
def collOf (M : MetricI S) (ms : List (String × S)) : List (String × List (String × TState)) :=
  (prepAll M ms).map fun (k, s) => (k, M.sd s)

/-- what member `r` computes locally once every member's collection has arrived: every own metric
    merged with the other members' pseudo-metrics of the same name, in rank order. -/
def mergeCollOf (M : MetricI S) (n : Nat) (ms : Nat → List (String × S)) (r : Nat) : Except Err (List (String × S)) :=
  (prepAll M (ms r)).mapM fun (k, s) =>
    (M.mrg s ((others n r).map fun j => statesOf k (sentRow (collOf M (ms j))))).map fun s' => (k, s')

theorem out_getSyncedCollection (M : MetricI S) (g : List Nat) (n : Nat) (hg : IsGroup g n) (hn : 2 ≤ n)
    (dst : Option Nat) (junk : Nat → Q) (ms : Nat → List (String × S))
    (hE : Syncable n fun i => traversal (collOf M (ms i))) :
    (runWorldL g ((List.range n).map fun i => getSyncedCollection M true (envOf g n dst junk i) (ms i))).out
      = (runWorldL g ((List.range n).map fun i => liftE (mergeCollOf M n ms i))).out := by
  have h1 : (n == 1) = false := by rw [beq_eq_false_iff_ne]; omega
  have h2 : ¬ n < 1 := by omega
  have hY := yields_syncFlat g n none junk hg trivial _ hE
  let K : Nat → Option (List (List (Key × TState))) → Prog (List (String × S)) := fun i r =>
    match r with
    | none => Prog.fail .assertion
    | some rows =>
      liftE ((prepAll M (ms i)).mapM fun (k, s) =>
        (M.mrg s (pick (rows.map (statesOf k)) (othersIdx n i))).map fun s' => (k, s'))
  have := out_bind_map g (List.range n)
    (fun i => syncStates (envOf g n none junk i) (collOf M (ms i))) K _ hY
  have hL : ((List.range n).map fun i => getSyncedCollection M true (envOf g n dst junk i) (ms i)) =
      (List.range n).map fun i => (syncStates (envOf g n none junk i) (collOf M (ms i))).bind (K i) := by
    apply List.map_congr_left
    intro i _
    simp only [getSyncedCollection, envOf, if_true, h1, h2, Bool.false_eq_true, if_false]
    rfl
  rw [hL, this]
  congr 2
  apply List.map_congr_left
  intro i hi
  have hp : ∀ k : String,
      pick (((List.range n).map fun j => (traversal (collOf M (ms j))).map canonEntry).map (statesOf k)) (othersIdx n i)
        = (others n i).map fun j => statesOf k (sentRow (collOf M (ms j))) := by
    intro k; rw [List.map_map]; exact pick_others n _ i
  simp only [K, gathered, receives, if_true, allOf, mergeCollOf, hp]

/-! ### the pseudo-metric of one metric of a collection -/

theorem insertKey_perm (k : String) (l : List String) : (insertKey k l).Perm (k :: l) := by
  induction l with
  | nil => exact List.Perm.refl _
  | cons a l ih =>
    simp only [insertKey]
    split
    · exact List.Perm.refl _
    · exact ((List.Perm.cons a ih).trans (List.Perm.swap k a l))

theorem sortKeys_perm (l : List String) : (sortKeys l).Perm l := by
  induction l with
  | nil => exact List.Perm.refl _
  | cons a l ih => exact (insertKey_perm a (sortKeys l)).trans (List.Perm.cons a ih)

/-- the block of metric `m` in the traversal. -/
def blockOf (c : List (String × List (String × TState))) (m : String) : List (Key × TState) :=
  match lookupKey m c with
  | none => []
  | some inner => (sortKeys (inner.map (·.1))).filterMap fun s => (lookupKey s inner).map fun v => ((m, s), v)

theorem statesOf_block_other (c : List (String × List (String × TState))) (m k : String) (h : m ≠ k) :
    statesOf k ((blockOf c m).map canonEntry) = [] := by
  simp only [blockOf]
  cases lookupKey m c with
  | none => rfl
  | some inner =>
    simp only [statesOf]
    rw [List.filterMap_eq_nil_iff]
    intro kv hkv
    obtain ⟨kv0, hkv0, rfl⟩ := List.mem_map.mp hkv
    obtain ⟨s, _, hs⟩ := List.mem_filterMap.mp hkv0
    cases hl : lookupKey s inner with
    | none => simp [hl] at hs
    | some v =>
      simp only [hl, Option.map_some, Option.some.injEq] at hs
      subst hs
      have : (m == k) = false := by simpa using h
      simp [canonEntry, this]

theorem flatMap_single {β : Type} (f : String → List β) (k : String) (X : List β) (hk : f k = X)
    (ho : ∀ m, m ≠ k → f m = []) : ∀ L : List String, L.Nodup → k ∈ L → L.flatMap f = X := by
  intro L
  induction L with
  | nil => intro _ h; simp at h
  | cons a L ih =>
    intro hnd hmem
    rw [List.flatMap_cons]
    have hnd' := List.nodup_cons.mp hnd
    by_cases hak : a = k
    · subst hak
      have : L.flatMap f = [] := by
        rw [List.flatMap_eq_nil_iff]
        intro m hm
        exact ho m (fun e => hnd'.1 (e ▸ hm))
      rw [this, hk, List.append_nil]
    · rw [ho a hak, List.nil_append]
      apply ih hnd'.2
      rcases List.mem_cons.mp hmem with h | h
      · exact absurd h.symm hak
      · exact h

/-- in a collection whose metric names are distinct (a Python dict), the pseudo-metric a receiving
    member builds for metric `k` of member `j` is `recon` of that metric's state dict. -/
theorem statesOf_sentRow (c : List (String × List (String × TState))) (hnd : (c.map (·.1)).Nodup)
    (k : String) (sd : List (String × TState)) (hk : lookupKey k c = some sd) :
    statesOf k (sentRow c) = recon sd := by
  have htr : traversal c = (sortKeys (c.map (·.1))).flatMap (blockOf c) := rfl
  simp only [sentRow, htr, List.map_flatMap, statesOf, List.filterMap_flatMap]
  apply flatMap_single (fun m => ((blockOf c m).map canonEntry).filterMap _) k
  · have : blockOf c k = (sortKeys (sd.map (·.1))).filterMap fun s => (lookupKey s sd).map fun v => ((k, s), v) := by
      simp only [blockOf, hk]
    rw [this]
    exact statesOf_filterMap k (fun s => lookupKey s sd) _
  · intro m hm
    exact statesOf_block_other c m k hm
  · exact (sortKeys_perm _).nodup_iff.mpr hnd
  · rw [mem_sortKeys]
    apply Classical.byContradiction
    intro hmem
    rw [(lookupKey_eq_none k c).mpr hmem] at hk
    cases hk

end TE.Sync
