/-
  TE.Lemmas.SyncSched — the arrival-order semantics of TE.Spec.Sync (`Step`): whatever the order
  in which members arrive at each rendezvous, a run ends, and it ends in the outcome of the
  lock-step execution `runWorld`.
-/
import TE.Lemmas.SyncRun
import TE.Spec.Sync
namespace TE.Sync

variable {R : Type}

theorem reqsOf_cons_some {p : Prog R} {ps : List (Prog R)} {qs : List Req} (h : reqsOf (p :: ps) = some qs) :
    ∃ q k qs', p = .coll q k ∧ qs = q :: qs' ∧ reqsOf ps = some qs' := by
  cases p with
  | done r => simp [reqsOf] at h
  | fail e => simp [reqsOf] at h
  | coll q k =>
    simp only [reqsOf, Option.map_eq_some_iff] at h
    obtain ⟨qs', h', rfl⟩ := h
    exact ⟨q, k, qs', rfl, rfl, h'⟩

/-- completing a rendezvous is one round of the lock-step execution. -/
theorem out_stepAll (g : List Nat) (ps : List (Prog R)) (qs : List Req) (r : Resp) (rs : List Resp)
    (hq : reqsOf ps = some qs) (hx : exchange g qs = .ok (r :: rs)) :
    (runWorldL g (stepAll ps (r :: rs))).out = (runWorldL g ps).out := by
  cases ps with
  | nil =>
    simp only [reqsOf, Option.some.injEq] at hq
    subst hq
    simp [exchange] at hx
  | cons p ps =>
    obtain ⟨q, k, qs', rfl, rfl, hq'⟩ := reqsOf_cons_some hq
    simp only [stepAll, step, runWorldL]
    exact (runWorld_coll_out g q k ps qs' r rs hq' hx).symm

theorem step_out (g : List Nat) {c c' : Config R} (h : Step g c c') :
    (runWorldL g c'.progs).out = (runWorldL g c.progs).out := by
  cases h with
  | arrive => rfl
  | complete qs r rs _ hq hx => exact out_stepAll g c.progs qs r rs hq hx

theorem steps_out (g : List Nat) {c c' : Config R} (h : Steps g c c') :
    (runWorldL g c'.progs).out = (runWorldL g c.progs).out := by
  induction h with
  | refl => rfl
  | tail _ hs ih => rw [step_out g hs, ih]

theorem firstFail_none_of_reqsOf {ps : List (Prog R)} {qs : List Req} (h : reqsOf ps = some qs) :
    firstFail ps = none := by
  induction ps generalizing qs with
  | nil => rfl
  | cons p ps ih =>
    obtain ⟨q, k, qs', rfl, rfl, hq'⟩ := reqsOf_cons_some h
    simp [firstFail, ih hq']

theorem dones_none_of_coll (q : Req) (k : Resp → Prog R) (ps : List (Prog R)) :
    dones (Prog.coll q k :: ps) = none := rfl

theorem getElem?_coll_of_reqsOf {ps : List (Prog R)} {qs : List Req} (h : reqsOf ps = some qs) (i : Nat)
    (hi : i < ps.length) : ∃ q k, ps[i]? = some (Prog.coll q k) := by
  induction ps generalizing qs i with
  | nil => simp at hi
  | cons p ps ih =>
    obtain ⟨q, k, qs', rfl, rfl, hq'⟩ := reqsOf_cons_some h
    cases i with
    | zero => exact ⟨q, k, rfl⟩
    | succ i => simpa using ih hq' i (by simpa using hi)

/-- a configuration in which nothing can move: its `result` is what lock-step execution reports. -/
theorem final_result (g : List Nat) (c : Config R) (hf : Final g c) :
    c.result g = (runWorldL g c.progs).out := by
  obtain ⟨progs, arrived⟩ := c
  cases progs with
  | nil => rfl
  | cons p ps =>
    cases p with
    | done r =>
      simp only [Config.result, runWorldL, runWorld, dones]
      cases hd : dones ps with
      | some rs => rfl
      | none => simp only [Option.map_none, firstFail, reqsOf, stuck]; cases firstFail ps <;> rfl
    | fail e => rfl
    | coll q k =>
      simp only [Config.result, runWorldL, runWorld, dones_none_of_coll, firstFail, reqsOf]
      cases hq : reqsOf ps with
      | none => simp only [Option.map_none, stuck]; cases firstFail ps <;> rfl
      | some qs =>
        simp only [Option.map_some, firstFail_none_of_reqsOf hq]
        cases hx : exchange g (q :: qs) with
        | error e => rfl
        | ok resps =>
          cases resps with
          | nil => rfl
          | cons r rs =>
            exfalso
            have hq' : reqsOf (Prog.coll q k :: ps) = some (q :: qs) := by simp [reqsOf, hq]
            by_cases hall : ∀ i, i < (Prog.coll q k :: ps).length → i ∈ arrived
            · exact hf _ (Step.complete ⟨_, arrived⟩ (q :: qs) r rs hall hq' hx)
            · have : ∃ i, i < (Prog.coll q k :: ps).length ∧ i ∉ arrived := by
                apply Classical.byContradiction
                intro hne
                apply hall
                intro i hi
                apply Classical.byContradiction
                intro hni
                exact hne ⟨i, hi, hni⟩
              obtain ⟨i, hi, hni⟩ := this
              obtain ⟨q', k', hget⟩ := getElem?_coll_of_reqsOf hq' i hi
              exact hf _ (Step.arrive ⟨_, arrived⟩ i q' k' hget hni)

/-- **confluence**: every maximal run — the members arriving at each rendezvous in any order —
    ends in the outcome of the lock-step execution. -/
theorem maximal_run_result (g : List Nat) (ps : List (Prog R)) (c : Config R)
    (hrun : Steps g (Config.init ps) c) (hf : Final g c) :
    c.result g = (runWorldL g ps).out := by
  rw [final_result g c hf, steps_out g hrun]; rfl

/-! ### every run ends -/

theorem filter_length_le (p q : Nat → Bool) (h : ∀ x, p x = true → q x = true) (l : List Nat) :
    (l.filter p).length ≤ (l.filter q).length := by
  induction l with
  | nil => simp
  | cons a l ih =>
    simp only [List.filter_cons]
    cases hpa : p a with
    | false =>
      cases hqa : q a with
      | false => simpa using ih
      | true => simp only [Bool.false_eq_true, if_false, if_true, List.length_cons]; omega
    | true =>
      rw [h a hpa]
      simp only [if_true, List.length_cons]; omega

theorem filter_length_lt (p q : Nat → Bool) (h : ∀ x, p x = true → q x = true) (l : List Nat) (i : Nat)
    (hi : i ∈ l) (hq : q i = true) (hp : p i = false) :
    (l.filter p).length < (l.filter q).length := by
  induction l with
  | nil => simp at hi
  | cons a l ih =>
    simp only [List.filter_cons]
    by_cases hai : a = i
    · subst hai
      have := filter_length_le p q h l
      simp only [hp, hq, Bool.false_eq_true, if_false, if_true, List.length_cons]; omega
    · have hil : i ∈ l := by
        rcases List.mem_cons.mp hi with h' | h'
        · exact absurd h'.symm hai
        · exact h'
      have := ih hil
      cases hpa : p a with
      | false =>
        cases hqa : q a with
        | false => simpa using this
        | true => simp only [Bool.false_eq_true, if_false, if_true, List.length_cons]; omega
      | true =>
        rw [h a hpa]
        simp only [if_true, List.length_cons]; omega

/-- members that have not arrived yet. -/
def pendingCount (len : Nat) (arrived : List Nat) : Nat :=
  ((List.range len).filter fun j => !arrived.contains j).length

theorem pendingCount_arrive (len : Nat) (arrived : List Nat) (i : Nat) (hi : i < len) (hn : i ∉ arrived) :
    pendingCount len (i :: arrived) < pendingCount len arrived := by
  apply filter_length_lt _ _ _ _ i (List.mem_range.mpr hi)
  · simpa using hn
  · simp
  · intro x hx
    simp only [List.contains_cons, Bool.not_or, Bool.and_eq_true] at hx
    exact hx.2

theorem getElem?_lt {α : Type} {l : List α} {i : Nat} {a : α} (h : l[i]? = some a) : i < l.length := by
  cases Nat.lt_or_ge i l.length with
  | inl h' => exact h'
  | inr h' => rw [List.getElem?_eq_none h'] at h; cases h

/-- no infinite runs: every configuration is accessible for the converse step relation. -/
theorem acc_config (g : List Nat) :
    ∀ (p : Prog R) (ps : List (Prog R)) (arrived : List Nat),
      Acc (fun c' c => Step g c c') (⟨p :: ps, arrived⟩ : Config R) := by
  intro p
  induction p with
  | done r =>
    intro ps arrived
    generalize hm : pendingCount (ps.length + 1) arrived = m
    induction m using Nat.strongRecOn generalizing arrived with
    | _ m ihm =>
      constructor
      intro c' hs
      cases hs with
      | arrive i q k hi hn =>
        exact ihm _ (by rw [← hm]; exact pendingCount_arrive _ _ i (by simpa using getElem?_lt hi) hn) _ rfl
      | complete qs r' rs _ hq _ => simp [reqsOf] at hq
  | fail e =>
    intro ps arrived
    generalize hm : pendingCount (ps.length + 1) arrived = m
    induction m using Nat.strongRecOn generalizing arrived with
    | _ m ihm =>
      constructor
      intro c' hs
      cases hs with
      | arrive i q k hi hn =>
        exact ihm _ (by rw [← hm]; exact pendingCount_arrive _ _ i (by simpa using getElem?_lt hi) hn) _ rfl
      | complete qs r' rs _ hq _ => simp [reqsOf] at hq
  | coll q k ih =>
    intro ps arrived
    generalize hm : pendingCount (ps.length + 1) arrived = m
    induction m using Nat.strongRecOn generalizing arrived with
    | _ m ihm =>
      constructor
      intro c' hs
      cases hs with
      | arrive i q' k' hi hn =>
        exact ihm _ (by rw [← hm]; exact pendingCount_arrive _ _ i (by simpa using getElem?_lt hi) hn) _ rfl
      | complete qs r' rs _ hq _ =>
        simp only [stepAll, step]
        exact ih r' _ _

theorem acc_init (g : List Nat) (ps : List (Prog R)) : Acc (fun c' c => Step g c c') (Config.init ps) := by
  cases ps with
  | nil =>
    constructor
    intro c' hs
    cases hs with
    | arrive i q k hi _ => simp [Config.init] at hi
    | complete qs r rs _ hq hx =>
      simp only [Config.init, reqsOf, Option.some.injEq] at hq
      subst hq
      simp [exchange] at hx
  | cons p ps => exact acc_config g p ps []

end TE.Sync
