/-
  TE.Lemmas.Window — the ring-buffer invariant behind C13 (update-granular classes).

  The invariant is stated once, uniformly for partially filled and wrapped buffers:
  reading the buffer from the cursor on (`rot buf next`) gives the last `N`
  entries of the history *padded in front with N zero slots*.
-/
import TE.Model.Window
import TE.Spec.Window
import TE.Lemmas.Parts
namespace TE.WindowL
open TE TE.Window TE.Spec.Window

variable {α : Type}

/-! ### `lastN` -/

theorem lastN_length (n : Nat) (l : List α) (h : n ≤ l.length) : (lastN n l).length = n := by
  simp only [lastN, List.length_drop]; omega

theorem lastN_of_length_le (n : Nat) (l : List α) (h : l.length ≤ n) : lastN n l = l := by
  unfold lastN
  have : l.length - n = 0 := by omega
  rw [this]; rfl

theorem lastN_append_right (n : Nat) (a b : List α) (h : n ≤ b.length) :
    lastN n (a ++ b) = lastN n b := by
  unfold lastN
  rw [List.length_append]
  have : a.length + b.length - n = a.length + (b.length - n) := by omega
  rw [this, ← List.drop_drop, List.drop_left]

theorem lastN_snoc (n : Nat) (l : List α) (x : α) (hn : 1 ≤ n) (h : n ≤ l.length) :
    lastN n (l ++ [x]) = (lastN n l).drop 1 ++ [x] := by
  unfold lastN
  rw [List.length_append, List.drop_drop, List.length_singleton]
  have e : l.length + 1 - n = l.length - n + 1 := by omega
  rw [e, List.drop_append_of_le_length (by omega)]

/-- only the last `n` entries of the past matter for the next window. -/
theorem lastN_append_lastN (n : Nat) (l b : List α) (h : n ≤ l.length) :
    lastN n (l ++ b) = lastN n (lastN n l ++ b) := by
  have hl := lastN_length n l h
  have e : l ++ b = l.take (l.length - n) ++ (lastN n l ++ b) := by
    rw [← List.append_assoc]; unfold lastN; rw [List.take_append_drop]
  conv => lhs; rw [e]
  rw [lastN_append_right _ _ _ (by rw [List.length_append, hl]; omega)]

theorem lastN_pad_short (n : Nat) (z : α) (us : List α) (h : us.length < n) :
    lastN n (List.replicate n z ++ us) = List.replicate (n - us.length) z ++ us := by
  unfold lastN
  rw [List.length_append, List.length_replicate]
  have : n + us.length - n = us.length := by omega
  rw [this, List.drop_append_of_le_length (by simp; omega), List.drop_replicate]

theorem lastN_pad_long (n : Nat) (z : α) (us : List α) (h : n ≤ us.length) :
    lastN n (List.replicate n z ++ us) = lastN n us :=
  lastN_append_right n _ us h

/-! ### rotation -/

/-- the buffer read from the cursor on, wrapping around. -/
def rot (l : List α) (c : Nat) : List α := l.drop c ++ l.take c

theorem rot_length (l : List α) (c : Nat) : (rot l c).length = l.length := by
  simp only [rot, List.length_append, List.length_drop, List.length_take]; omega

theorem rot_zero (l : List α) : rot l 0 = l := by simp [rot]

theorem rot_perm (l : List α) (c : Nat) : (rot l c).Perm l := by
  have h : (l.drop c ++ l.take c).Perm (l.take c ++ l.drop c) := List.perm_append_comm
  rw [List.take_append_drop] at h
  exact h

theorem rot_getElem? (l : List α) (c k : Nat) (hc : c < l.length) (hk : k < l.length) :
    (rot l c)[k]? = l[(c + k) % l.length]? := by
  unfold rot
  by_cases h : c + k < l.length
  · rw [Nat.mod_eq_of_lt h, List.getElem?_append_left (by simp; omega), List.getElem?_drop]
  · have e : (c + k) % l.length = c + k - l.length := by
      rw [Nat.mod_eq_sub_mod (by omega), Nat.mod_eq_of_lt (by omega)]
    rw [e, List.getElem?_append_right (by simp; omega), List.getElem?_take]
    simp only [List.length_drop]
    have : k - (l.length - c) < c := by omega
    rw [if_pos this]
    congr 1; omega

theorem split_ex (l : List α) (c : Nat) (hc : c < l.length) :
    ∃ P y S, l = P ++ y :: S ∧ P.length = c := by
  refine ⟨l.take c, l[c], l.drop (c + 1), ?_, by simp; omega⟩
  rw [← List.drop_eq_getElem_cons hc, List.take_append_drop]

theorem rot_at (P S : List α) (y : α) : rot (P ++ y :: S) P.length = y :: (S ++ P) := by
  simp [rot]

/-- overwriting the slot under the cursor and advancing the cursor drops the oldest
    entry of the rotated view and appends the new one. -/
theorem rot_push (P S : List α) (y x : α) :
    rot ((P ++ y :: S).set P.length x) ((P.length + 1) % (P ++ y :: S).length) = S ++ P ++ [x] := by
  have hset : (P ++ y :: S).set P.length x = P ++ x :: S := by
    rw [List.set_append]; simp
  rw [hset]
  cases S with
  | nil => simp [rot]
  | cons s S' =>
    have hlt : P.length + 1 < (P ++ y :: s :: S').length := by simp
    rw [Nat.mod_eq_of_lt hlt]
    unfold rot
    have e : P ++ x :: s :: S' = (P ++ [x]) ++ (s :: S') := by simp
    rw [e, List.drop_left' (by simp), List.take_left' (by simp)]
    simp

/-! ### sums -/

theorem sumA_eq_accL (M : Acc α) (l : List α) : sumA M l = accL M id l := rfl

theorem sumA_perm (M : Acc α) (L : CommLaws M) {l₁ l₂ : List α} (h : l₁.Perm l₂) :
    sumA M l₁ = sumA M l₂ := accL_perm M L id h

theorem sumA_append (M : Acc α) (L : Laws M) (l₁ l₂ : List α) :
    sumA M (l₁ ++ l₂) = M.add (sumA M l₁) (sumA M l₂) := accL_append M L id l₁ l₂

theorem sumA_zeros (M : Acc α) (L : Laws M) (n : Nat) : sumA M (List.replicate n M.zero) = M.zero := by
  induction n with
  | zero => rfl
  | succ n ih =>
    have : List.replicate (n + 1) M.zero = [M.zero] ++ List.replicate n M.zero := rfl
    rw [this, sumA_append M L, ih, L.add_zero]
    simp [sumA, L.add_zero]

theorem sumA_pad (M : Acc α) (L : Laws M) (l : List α) (n : Nat) :
    sumA M (l ++ List.replicate n M.zero) = sumA M l := by
  rw [sumA_append M L, sumA_zeros M L, L.add_zero]

/-! ### the invariant -/

structure RInv (M : Acc α) (N : Nat) (r : Ring α) (us : List α) : Prop where
  cap   : r.cap = N
  len   : r.buf.length = N
  next  : r.next = us.length % N
  total : r.total = us.length
  rot   : rot r.buf r.next = lastN N (List.replicate N M.zero ++ us)
  life  : r.life = us.foldl M.add M.zero

theorem rinv_init (M : Acc α) (N : Nat) : RInv M N (Ring.init M N) [] where
  cap := rfl
  len := by simp [Ring.init]
  next := by simp [Ring.init]
  total := rfl
  rot := by
    simp only [Ring.init, rot_zero, List.append_nil]
    rw [lastN_of_length_le]; simp
  life := rfl

theorem rinv_push (M : Acc α) (N : Nat) (hN : 1 ≤ N) (r : Ring α) (us : List α) (x : α)
    (h : RInv M N r us) : RInv M N (r.push M x) (us ++ [x]) := by
  have hc : r.next < r.buf.length := by rw [h.len, h.next]; exact Nat.mod_lt _ (by omega)
  obtain ⟨P, y, S, hb, hP⟩ := split_ex r.buf r.next hc
  refine ⟨h.cap, by simp [Ring.push, h.len], ?_, by simp [Ring.push, h.total], ?_, ?_⟩
  · simp only [Ring.push, h.cap, h.next, List.length_append, List.length_singleton]
    exact Nat.mod_add_mod _ _ _
  · have hold := h.rot
    rw [hb, ← hP, rot_at] at hold
    have hnew := rot_push P S y x
    rw [← hb, h.len] at hnew
    simp only [Ring.push, h.cap]
    rw [hb, ← hP] at *
    rw [hnew, ← List.append_assoc, lastN_snoc N _ x hN (by simp), ← hold]
    simp
  · simp [Ring.push, h.life, List.foldl_append]

theorem rinv_foldl (M : Acc α) (N : Nat) (hN : 1 ≤ N) (us : List α) :
    ∀ (r : Ring α) (us₀ : List α), RInv M N r us₀ →
      RInv M N (us.foldl (Ring.push M) r) (us₀ ++ us) := by
  induction us with
  | nil => intro r us₀ h; simpa using h
  | cons x us ih =>
    intro r us₀ h
    have := ih (r.push M x) (us₀ ++ [x]) (rinv_push M N hN r us₀ x h)
    simpa using this

/-- **the ring invariant** of a single instance fed `us`. -/
theorem rinv_run (M : Acc α) (N : Nat) (hN : 1 ≤ N) (us : List α) :
    RInv M N (Ring.run M N us) us := by
  have := rinv_foldl M N hN us (Ring.init M N) [] (rinv_init M N)
  simpa [Ring.run] using this

/-! ### consequences -/

/-- partially filled: the buffer is the history followed by zero slots. -/
theorem rinv_short (M : Acc α) (N : Nat) (r : Ring α) (us : List α) (h : RInv M N r us)
    (hlt : us.length < N) :
    r.next = us.length ∧ r.buf = us ++ List.replicate (N - us.length) M.zero := by
  have hn : r.next = us.length := by rw [h.next, Nat.mod_eq_of_lt hlt]
  have hr := h.rot
  rw [lastN_pad_short N _ us hlt, hn] at hr
  unfold rot at hr
  have hlen : (List.drop us.length r.buf).length = (List.replicate (N - us.length) M.zero).length := by
    simp [h.len]
  obtain ⟨h1, h2⟩ := List.append_inj hr hlen
  refine ⟨hn, ?_⟩
  rw [← List.take_append_drop us.length r.buf, h1, h2]

/-- wrapped: reading from the cursor on gives exactly the last `N` updates, oldest first. -/
theorem rinv_long (M : Acc α) (N : Nat) (r : Ring α) (us : List α) (h : RInv M N r us)
    (hge : N ≤ us.length) : rot r.buf r.next = lastN N us := by
  rw [h.rot, lastN_pad_long N _ us hge]

theorem windowed_eq (M : Acc α) (L : CommLaws M) (N : Nat) (whole : Bool) (r : Ring α)
    (us : List α) (h : RInv M N r us) : r.windowed M whole = windowedSpec M N us := by
  unfold Ring.windowed windowedSpec
  by_cases hlt : us.length < N
  · obtain ⟨hn, hb⟩ := rinv_short M N r us h hlt
    rw [lastN_of_length_le N us (by omega)]
    have hdec : decide (r.cap ≤ r.total) = false := by
      rw [h.cap, h.total]; simp; omega
    rw [hdec]
    cases whole with
    | true =>
      simp only [Bool.true_or, if_true]
      rw [hb]; exact sumA_pad M L.toLaws us _
    | false =>
      simp only [Bool.false_or, Bool.false_eq_true, if_false]
      rw [hn, hb, List.take_left]
      rfl
  · have hge : N ≤ us.length := by omega
    have hdec : decide (r.cap ≤ r.total) = true := by
      rw [h.cap, h.total]; simpa using hge
    rw [hdec, Bool.or_true, if_pos rfl, ← rinv_long M N r us h hge]
    exact (sumA_perm M L (rot_perm r.buf r.next)).symm

/-- index form of the wrapped invariant. -/
theorem rinv_long_index (M : Acc α) (N : Nat) (r : Ring α) (us : List α) (h : RInv M N r us)
    (hge : N ≤ us.length) (k : Nat) (hk : k < N) :
    r.buf[(r.next + k) % N]? = (lastN N us)[k]? := by
  have hN : 0 < N := by omega
  have hc : r.next < r.buf.length := by rw [h.len, h.next]; exact Nat.mod_lt _ hN
  have := rot_getElem? r.buf r.next k hc (by rw [h.len]; exact hk)
  rw [h.len, rinv_long M N r us h hge] at this
  exact this.symm

/-! ### the class: a single instance fed accepted batches is `Ring.run` on their statistics -/

variable {B O : Type}

theorem eval_single_ring (M : Acc α) (N : Nat) (whole : Bool) (stat : B → Except Err α)
    (render : α → α → Except Err O) (empty : O) (bs : List B)
    (hb : ∀ b ∈ bs, ∃ a, stat b = .ok a) :
    eval (ringImpl M N whole stat render empty) (single bs)
      = .ok (Ring.run M N (bs.map (statT M stat))) := by
  unfold single Ring.run
  suffices ∀ (h : Hist B) (r : Ring α), eval (ringImpl M N whole stat render empty) h = .ok r →
      eval (ringImpl M N whole stat render empty) (bs.foldl Hist.update h)
        = .ok ((bs.map (statT M stat)).foldl (Ring.push M) r) from
    this Hist.fresh (Ring.init M N) rfl
  induction bs with
  | nil => intro h r hr; simpa using hr
  | cons b bs ih =>
    intro h r hr
    simp only [List.foldl_cons, List.map_cons]
    apply ih (fun b' hb' => hb b' (List.mem_cons_of_mem _ hb'))
    obtain ⟨a, ha⟩ := hb b (List.mem_cons_self ..)
    have e : eval (ringImpl M N whole stat render empty) (Hist.update h b) =
        (eval (ringImpl M N whole stat render empty) h >>= fun s =>
          (ringImpl M N whole stat render empty).upd s b) := by
      simp [eval]
    rw [e, hr]
    simp [ringImpl, ha, statT, bind, Except.bind]

theorem out_run_eq_spec (M : Acc α) (L : CommLaws M) (N : Nat) (hN : 1 ≤ N) (whole : Bool)
    (stat : B → Except Err α) (render : α → α → Except Err O) (empty : O) (us : List α) :
    (ringImpl M N whole stat render empty).out (Ring.run M N us)
      = computeSpec M N render empty us := by
  have h := rinv_run M N hN us
  simp only [ringImpl, computeSpec]
  rw [h.total, windowed_eq M L N whole _ us h, h.life]
  cases us with
  | nil => simp
  | cons u us => simp [lifetimeSpec, nonWindowed]

end TE.WindowL
