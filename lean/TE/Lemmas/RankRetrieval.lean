/-
  TE.Lemmas.RankRetrieval — (C) the functional retrieval metrics (sort, take k,
  gather, sum) equal the counting definition for tie-free scores;
  (D) the per-query state of the RetrievalPrecision / RetrievalRecall classes:
  every reachable retained list has the same top-k as all data seen.
-/
import TE.Lemmas.RankSort
namespace TE.RankL
open TE TE.Rank

/-! ### sums -/

theorem qsum_eq_sum (l : List Q) : qsum l = l.sum := by
  unfold qsum
  suffices ∀ x : Q, l.foldl (· + ·) x = x + l.sum by simpa [Rat.zero_add] using this 0
  induction l with
  | nil => intro x; simp [Rat.add_zero]
  | cons a l ih => intro x; simp only [List.foldl_cons, ih, List.sum_cons, Rat.add_assoc]

theorem sum_perm {l₁ l₂ : List Q} (h : l₁.Perm l₂) : l₁.sum = l₂.sum := by
  induction h with
  | nil => rfl
  | cons x _ ih => simp [ih]
  | swap x y l => simp only [List.sum_cons]; grind
  | trans _ _ ih₁ ih₂ => exact ih₁.trans ih₂

/-! ### (C) top-k of a strictly descending list = the items with fewer than k above -/

theorem filter_above_sdesc (s : List Pair) (hs : SDescP s) (c k : Nat) :
    s.filter (fun p => decide (c + s.countP (fun q => decide (p.1 < q.1)) < k)) = s.take (k - c) := by
  induction s generalizing c with
  | nil => simp
  | cons x t ih =>
    have hx : ∀ b ∈ t, b.1 < x.1 := (List.pairwise_cons.mp hs).1
    have ht : SDescP t := (List.pairwise_cons.mp hs).2
    have h0 : t.countP (fun q => decide (x.1 < q.1)) = 0 := by
      rw [List.countP_eq_zero]
      intro b hb
      have := hx b hb
      simp only [decide_eq_true_eq]
      grind
    have hrest : t.filter (fun p => decide (c + (x :: t).countP (fun q => decide (p.1 < q.1)) < k))
        = t.filter (fun p => decide ((c + 1) + t.countP (fun q => decide (p.1 < q.1)) < k)) := by
      apply List.filter_congr
      intro p hp
      have := hx p hp
      simp only [List.countP_cons, this, decide_true, if_true]
      rw [show c + (t.countP (fun q => decide (p.1 < q.1)) + 1)
            = c + 1 + t.countP (fun q => decide (p.1 < q.1)) from by omega]
    have hxc : (x :: t).countP (fun q => decide (x.1 < q.1)) = 0 := by
      simp [List.countP_cons, h0, Rat.lt_irrefl]
    rw [List.filter_cons, hxc, hrest, ih ht (c + 1)]
    by_cases hck : c < k
    · have : k - c = (k - (c + 1)) + 1 := by omega
      simp [hck, this]
    · have h1 : k - c = 0 := by omega
      have h2 : k - (c + 1) = 0 := by omega
      simp [hck, h1, h2]

theorem countP_above_map (l : List Pair) (s : Q) :
    Spec.Rank.above (l.map (·.1)) s = l.countP (fun q => decide (s < q.1)) := by
  unfold Spec.Rank.above
  rw [List.countP_map]
  rfl

/-- the labels gathered by the top-k are, up to order, those of the items with
    fewer than `k` items above them. -/
theorem topk_perm_retrieved (k : Option Nat) (l : List Pair) (hn : (l.map (·.1)).Nodup) :
    (topk k l).Perm (l.filter fun p => Spec.Rank.retrieved k (l.map (·.1)) p.1) := by
  cases k with
  | none =>
    have : (l.filter fun p => Spec.Rank.retrieved none (l.map (·.1)) p.1) = l := by
      simp [Spec.Rank.retrieved]
    rw [this]
    exact sortDesc_perm l
  | some k =>
    simp only [topk, Spec.Rank.retrieved]
    have hs := sdescP_sortDesc l hn
    have h1 := filter_above_sdesc (sortDesc l) hs 0 k
    simp only [Nat.zero_add, Nat.sub_zero] at h1
    rw [← h1]
    have hp := sortDesc_perm l
    have hc : ∀ p : Pair, (sortDesc l).countP (fun q => decide (p.1 < q.1))
        = Spec.Rank.above (l.map (·.1)) p.1 := by
      intro p
      rw [countP_above_map]
      exact hp.countP_eq _
    simp only [hc]
    exact hp.filter _

theorem nbRelevant_eq (k : Option Nat) (l : List Pair) (hn : (l.map (·.1)).Nodup) :
    nbRelevant k l = Spec.Rank.relevantRetrieved k l := by
  unfold nbRelevant Spec.Rank.relevantRetrieved
  rw [qsum_eq_sum]
  exact sum_perm ((topk_perm_retrieved k l hn).map (·.2))

/-! ### (D) reachable per-query states of the retrieval classes -/

/-- `Reach k s d`: `s` is a possible content of `self.topk[i]/self.target[i]` of an
    instance (configured with `k`) whose query `i` has seen the data `d` so far —
    through any sequence of `update`s, `merge_state`s (binary steps; the n-ary
    `cat([self] + others)` is their left-nested composition) and `reset`s. -/
inductive Reach (k : Option Nat) : List Pair → List Pair → Prop where
  | init : Reach k [] []
  | upd {s d : List Pair} (b : List Pair) : Reach k s d → Reach k (updateSingle k s b) (d ++ b)
  | mrg {s d t e : List Pair} : Reach k s d → Reach k t e → Reach k (s ++ t) (d ++ e)

theorem topk_length (k : Option Nat) (l : List Pair) :
    (topk k l).length = match k with | none => l.length | some k => min k l.length := by
  cases k with
  | none => simpa [topk] using (sortDesc_perm l).length_eq
  | some k => simp [topk, List.length_take, (sortDesc_perm l).length_eq]

def sameSize (k : Option Nat) (s d : List Pair) : Prop :=
  match k with
  | none => s.length = d.length
  | some k => min k s.length = min k d.length

/-- the representation invariant: same top-k, same (capped) size, and the
    retained pairs are a sub-multiset of the data. -/
theorem reach_inv (k : Option Nat) {s d : List Pair} (h : Reach k s d) (hn : (d.map (·.1)).Nodup) :
    topk k s = topk k d ∧ sameSize k s d ∧ ∃ r, (s ++ r).Perm d := by
  induction h with
  | init => exact ⟨rfl, by cases k <;> simp [sameSize], [], List.Perm.refl _⟩
  | @upd s d b _ ih =>
    have hnd : (d.map (·.1)).Nodup := by
      rw [List.map_append] at hn; exact (List.nodup_append.mp hn).1
    obtain ⟨i1, i2, r, hr⟩ := ih hnd
    refine ⟨?_, ?_, ?_⟩
    · unfold updateSingle
      rw [topk_idem, ← topk_retention_left k s b, i1, topk_retention_left]
    · unfold updateSingle
      cases k with
      | none =>
        simp only [sameSize] at i2 ⊢
        have := topk_length none (s ++ b)
        simp only at this
        rw [this]; simp [i2]
      | some k =>
        simp only [sameSize] at i2 ⊢
        have := topk_length (some k) (s ++ b)
        simp only at this
        rw [this]; simp only [List.length_append]; omega
    · obtain ⟨r', hr'⟩ := topk_sublist_perm k (s ++ b)
      refine ⟨r' ++ r, ?_⟩
      unfold updateSingle
      have h1 : (topk k (s ++ b) ++ (r' ++ r)).Perm ((s ++ b) ++ r) := by
        rw [← List.append_assoc]; exact hr'.append_right r
      refine h1.trans ?_
      have h2 : ((s ++ b) ++ r).Perm ((s ++ r) ++ b) := by
        rw [List.append_assoc, List.append_assoc]
        exact List.Perm.append_left s List.perm_append_comm
      exact h2.trans (hr.append_right b)
  | @mrg s d t e _ _ ih₁ ih₂ =>
    have hnd : (d.map (·.1)).Nodup := by
      rw [List.map_append] at hn; exact (List.nodup_append.mp hn).1
    have hne : (e.map (·.1)).Nodup := by
      rw [List.map_append] at hn; exact (List.nodup_append.mp hn).2.1
    obtain ⟨i1, i2, r, hr⟩ := ih₁ hnd
    obtain ⟨j1, j2, r', hr'⟩ := ih₂ hne
    have hdt : ((d ++ t).map (·.1)).Nodup := by
      have hp : ((d ++ t) ++ r').Perm (d ++ e) := by
        rw [List.append_assoc]; exact List.Perm.append_left d hr'
      have : (((d ++ t) ++ r').map (·.1)).Nodup := (hp.map (·.1)).nodup_iff.mpr hn
      rw [List.map_append] at this
      exact (List.nodup_append.mp this).1
    refine ⟨?_, ?_, ?_⟩
    · rw [← topk_retention_left k s t, i1, topk_retention_left,
        ← topk_retention_right k d t hdt, j1, topk_retention_right k d e hn]
    · cases k with
      | none => simp only [sameSize] at i2 j2 ⊢; simp [i2, j2]
      | some k => simp only [sameSize] at i2 j2 ⊢; simp only [List.length_append]; omega
    · refine ⟨r ++ r', ?_⟩
      have h1 : ((s ++ t) ++ (r ++ r')).Perm ((s ++ r) ++ (t ++ r')) := by
        simp only [List.append_assoc]
        refine List.Perm.append_left s ?_
        rw [← List.append_assoc, ← List.append_assoc]
        exact List.perm_append_comm.append_right r'
      exact h1.trans (hr.append hr')

end TE.RankL
