/-
  TE.Lemmas.WindowAuroc — the sample-granular buffer of WindowedBinaryAUROC:
  the three update branches keep "buffer read from the cursor on = last N samples
  of the zero-padded history"; the pair-counting AUROC does not depend on where
  the cursor stands.
-/
import TE.Lemmas.Window
namespace TE.WindowL
open TE TE.Window TE.Spec.Window

variable {α : Type}

/-- lets `decide` compare model outcomes (used by the witness theorems). -/
instance : DecidableEq (Except Err AOut) := fun a b =>
  match a, b with
  | .ok x, .ok y => if h : x = y then isTrue (by rw [h]) else isFalse (by intro e; cases e; exact h rfl)
  | .error x, .error y => if h : x = y then isTrue (by rw [h]) else isFalse (by intro e; cases e; exact h rfl)
  | .ok _, .error _ => isFalse (by intro e; cases e)
  | .error _, .ok _ => isFalse (by intro e; cases e)

/-! ### the three branches on plain lists -/

theorem place_mid (P Mid S b : List α) (h : Mid.length = b.length) :
    place (P ++ Mid ++ S) P.length b = P ++ b ++ S := by
  unfold place
  have e1 : List.take P.length (P ++ Mid ++ S) = P := by rw [List.append_assoc, List.take_left]
  have e2 : List.drop (P.length + b.length) (P ++ Mid ++ S) = S := List.drop_left' (by simp [h])
  rw [e1, e2]

/-- branch "fits behind the cursor". -/
theorem rot_fits (P Mid S b : List α) (h : Mid.length = b.length) :
    rot (place (P ++ Mid ++ S) P.length b) ((P.length + b.length) % (P ++ Mid ++ S).length)
      = lastN (P ++ Mid ++ S).length (rot (P ++ Mid ++ S) P.length ++ b) := by
  rw [place_mid P Mid S b h]
  have hr : rot (P ++ Mid ++ S) P.length = Mid ++ S ++ P := by
    unfold rot; rw [List.append_assoc, List.drop_left, List.take_left]
  have hl : lastN (P ++ Mid ++ S).length (Mid ++ S ++ P ++ b) = S ++ P ++ b := by
    unfold lastN
    have e : (Mid ++ S ++ P ++ b).length - (P ++ Mid ++ S).length = Mid.length := by
      simp only [List.length_append]; omega
    rw [e]
    simp only [List.append_assoc, List.drop_left]
  rw [hr, hl]
  cases S with
  | nil =>
    have : (P.length + b.length) % (P ++ Mid ++ []).length = 0 := by
      simp only [List.append_nil, List.length_append, h, Nat.mod_self]
    rw [this, rot_zero]; simp
  | cons s S' =>
    have hlt : P.length + b.length < (P ++ Mid ++ s :: S').length := by
      simp only [List.length_append, List.length_cons]; omega
    rw [Nat.mod_eq_of_lt hlt]
    unfold rot
    rw [List.drop_left' (by simp), List.take_left' (by simp)]
    simp

/-- branch "wraps around". -/
theorem rot_wraps (P S b1 b2 : List α) (h1 : b1.length = S.length) (h2 : b2.length ≤ P.length) :
    rot (place (place (P ++ S) P.length b1) 0 b2) b2.length
      = lastN (P ++ S).length (rot (P ++ S) P.length ++ (b1 ++ b2)) := by
  have hp1 : place (P ++ S) P.length b1 = P ++ b1 := by
    unfold place
    rw [List.take_left, List.drop_of_length_le (by simp [h1])]; simp
  have hp2 : place (P ++ b1) 0 b2 = b2 ++ (P.drop b2.length ++ b1) := by
    unfold place
    simp only [List.take_zero, List.nil_append, Nat.zero_add]
    rw [List.drop_append_of_le_length h2]
  rw [hp1, hp2]
  have hr : rot (P ++ S) P.length = S ++ P := by
    unfold rot; rw [List.drop_left, List.take_left]
  rw [hr]
  unfold rot
  rw [List.drop_left, List.take_left]
  unfold lastN
  have e : (S ++ P ++ (b1 ++ b2)).length - (P ++ S).length = S.length + b2.length := by
    simp only [List.length_append]; omega
  rw [e, ← List.drop_drop]
  simp only [List.append_assoc, List.drop_left]
  rw [List.drop_append_of_le_length h2]

/-- branch "batch at least as large as the window". -/
theorem rot_big (W b : List α) (N : Nat) (h : N ≤ b.length) :
    rot (b.drop (b.length - N)) 0 = lastN N (W ++ b) := by
  rw [rot_zero, lastN_append_right N W b h]; rfl

/-! ### invariant of the sample buffer -/

structure SInv (T N : Nat) (s : SBuf) (flat : List Col) : Prop where
  cap   : s.cap = N
  tasks : s.tasks = T
  len   : s.buf.length = N
  next  : s.next < N
  total : s.total = flat.length
  short : flat.length < N → s.next = flat.length
  rot   : rot s.buf s.next = lastN N (List.replicate N (zeroCol T) ++ flat)

theorem sinv_init (T N : Nat) (hN : 1 ≤ N) : SInv T N (SBuf.init T N) [] where
  cap := rfl
  tasks := rfl
  len := by simp [SBuf.init]
  next := by simp [SBuf.init]; omega
  total := rfl
  short := by intro _; rfl
  rot := by
    simp only [SBuf.init, rot_zero, List.append_nil]
    rw [lastN_of_length_le]; simp

theorem split3 (l : List α) (c n : Nat) (h : c + n ≤ l.length) :
    ∃ P Mid S, l = P ++ Mid ++ S ∧ P.length = c ∧ Mid.length = n := by
  refine ⟨l.take c, (l.drop c).take n, (l.drop c).drop n, ?_, by simp; omega, by simp; omega⟩
  rw [List.append_assoc, List.take_append_drop, List.take_append_drop]

theorem split2 (l : List α) (c : Nat) (h : c ≤ l.length) :
    ∃ P S, l = P ++ S ∧ P.length = c := by
  refine ⟨l.take c, l.drop c, (List.take_append_drop c l).symm, by simp; omega⟩

theorem sinv_update (T N : Nat) (hN : 1 ≤ N) (s : SBuf) (flat : List Col) (b : List Col)
    (h : SInv T N s flat) : SInv T N (s.update b) (flat ++ b) := by
  have hpadlen : N ≤ (List.replicate N (zeroCol T) ++ flat).length := by simp
  -- the rotated view after the update is the window of (old window ++ batch)
  have key : (s.update b).cap = N ∧ (s.update b).tasks = T ∧ (s.update b).next < N ∧
      (s.update b).total = (flat ++ b).length ∧
      ((flat ++ b).length < N → (s.update b).next = (flat ++ b).length) ∧
      rot (s.update b).buf (s.update b).next = lastN N (rot s.buf s.next ++ b) := by
    unfold SBuf.update
    simp only [h.cap]
    by_cases h1 : N ≤ b.length
    · rw [if_pos h1]
      refine ⟨rfl, h.tasks, by simp; omega, by simp [h.total], ?_, ?_⟩
      · intro hlt; simp only [List.length_append] at hlt; omega
      · exact rot_big _ b N h1
    · rw [if_neg h1]
      by_cases h2 : b.length ≤ N - s.next
      · rw [if_pos h2]
        refine ⟨rfl, h.tasks, Nat.mod_lt _ (by omega), by simp [h.total], ?_, ?_⟩
        · intro hlt
          simp only [List.length_append] at hlt
          have := h.short (by omega)
          simp only
          rw [this, Nat.mod_eq_of_lt (by omega)]; simp
        · obtain ⟨P, Mid, S, hb, hP, hM⟩ := split3 s.buf s.next b.length (by rw [h.len]; have := h.next; omega)
          have := rot_fits P Mid S b hM
          rw [← hb, hP, h.len] at this
          exact this
      · rw [if_neg h2]
        have hn := h.next
        refine ⟨rfl, h.tasks, Nat.mod_lt _ (by omega), by simp [h.total], ?_, ?_⟩
        · intro hlt
          simp only [List.length_append] at hlt
          have := h.short (by omega)
          omega
        · obtain ⟨P, S, hb, hP⟩ := split2 s.buf s.next (by rw [h.len]; omega)
          obtain ⟨b1, b2, hbb, hb1⟩ := split2 b (N - s.next) (by omega)
          have hS : S.length = N - s.next := by
            have := h.len; rw [hb, List.length_append, hP] at this; omega
          have hb2 : b2.length = b.length - (N - s.next) := by
            rw [hbb, List.length_append, hb1]; omega
          have := rot_wraps P S b1 b2 (by rw [hb1, hS]) (by rw [hP]; omega)
          rw [← hb, hP, h.len, ← hbb] at this
          simp only
          rw [Nat.mod_eq_of_lt (by omega), ← hb2]
          have e1 : List.take (N - s.next) b = b1 := by rw [hbb, List.take_left' hb1]
          have e2 : List.drop (N - s.next) b = b2 := by rw [hbb, List.drop_left' hb1]
          rw [e1, e2]
          exact this
  obtain ⟨k1, k2, k3, k4, k5, k6⟩ := key
  have hrot : rot (s.update b).buf (s.update b).next
      = lastN N (List.replicate N (zeroCol T) ++ (flat ++ b)) := by
    rw [k6, h.rot, ← List.append_assoc, ← lastN_append_lastN N _ b hpadlen]
  refine ⟨k1, k2, ?_, k3, k4, k5, hrot⟩
  have := congrArg List.length hrot
  rw [rot_length, lastN_length N _ (by simp)] at this
  exact this

theorem sinv_foldl (T N : Nat) (hN : 1 ≤ N) (bs : List (List Col)) :
    ∀ (s : SBuf) (flat : List Col), SInv T N s flat →
      SInv T N (bs.foldl SBuf.update s) (flat ++ bs.flatten) := by
  induction bs with
  | nil => intro s flat h; simpa using h
  | cons b bs ih =>
    intro s flat h
    have := ih (s.update b) (flat ++ b) (sinv_update T N hN s flat b h)
    simpa using this

theorem sinv_run (T N : Nat) (hN : 1 ≤ N) (bs : List (List Col)) :
    SInv T N (SBuf.run T N bs) bs.flatten := by
  have := sinv_foldl T N hN bs (SBuf.init T N) [] (sinv_init T N hN)
  simpa [SBuf.run] using this

/-! ### pair-counting AUROC is independent of the order of the samples (rotation) -/

def crossSum (f : Cell → Cell → Q) (a b : List Cell) : Q := (a.map fun x => (b.map (f x)).sum).sum

theorem crossSum_append_left (f : Cell → Cell → Q) (a b c : List Cell) :
    crossSum f (a ++ b) c = crossSum f a c + crossSum f b c := by
  simp [crossSum, List.sum_append]

theorem crossSum_append_right (f : Cell → Cell → Q) (a b c : List Cell) :
    crossSum f a (b ++ c) = crossSum f a b + crossSum f a c := by
  induction a with
  | nil => simp [crossSum]; grind
  | cons x a ih =>
    simp only [crossSum, List.map_cons, List.sum_cons, List.map_append, List.sum_append] at ih ⊢
    rw [ih]; grind

theorem pairNum_comm (a b : List Cell) : pairNum (a ++ b) = pairNum (b ++ a) := by
  have e : ∀ l, pairNum l = crossSum pairTerm l l := fun _ => rfl
  rw [e, e, crossSum_append_left, crossSum_append_left, crossSum_append_right, crossSum_append_right,
    crossSum_append_right, crossSum_append_right]
  grind

theorem posW_comm (a b : List Cell) : posW (a ++ b) = posW (b ++ a) := by
  simp only [posW, List.map_append, List.sum_append]; grind

theorem negW_comm (a b : List Cell) : negW (a ++ b) = negW (b ++ a) := by
  simp only [negW, List.map_append, List.sum_append]; grind

theorem pairAuroc_comm (a b : List Cell) : pairAuroc (a ++ b) = pairAuroc (b ++ a) := by
  unfold pairAuroc
  rw [pairNum_comm a b, posW_comm a b, negW_comm a b]

theorem pairAuroc_rot (l : List Cell) (c : Nat) : pairAuroc (rot l c) = pairAuroc l := by
  unfold rot
  rw [pairAuroc_comm, List.take_append_drop]

theorem row_rot (cols : List Col) (c t : Nat) : row (rot cols c) t = rot (row cols t) c := by
  simp [row, rot, List.map_drop, List.map_take]

/-- the per-task values do not depend on the cursor. -/
theorem binaryAuroc_rot (T : Nat) (cols : List Col) (c : Nat) :
    perTask T (rot cols c) = perTask T cols := by
  unfold perTask
  simp only [row_rot, pairAuroc_rot]

theorem colZero_zeroCol (T : Nat) : colZero (zeroCol T) = true := by
  simp [colZero, zeroCol, List.all_replicate]

/-- with at least two columns `squeeze()` is harmless. -/
theorem aurocSqueezed_two (T : Nat) (cols : List Col) (h : 2 ≤ cols.length) :
    aurocSqueezed T cols = .ok (perTask T cols) := by
  match cols, h with
  | a :: b :: rest, _ => rfl

/-- **windowed AUROC = `binary_auroc` on the last N samples**, under the stated hypotheses. -/
theorem auroc_compute_eq (T N : Nat) (hN : 1 ≤ N) (bs : List (List Col))
    (hS : 2 ≤ min bs.flatten.length N)
    (hZ : N ≤ bs.flatten.length → (SBuf.run T N bs).zeroBeyond = false) :
    (SBuf.run T N bs).compute = binaryAuroc T (sampleWindow N bs) := by
  have h := sinv_run T N hN bs
  have hne : (sampleWindow N bs).isEmpty = false := by
    have : 2 ≤ (sampleWindow N bs).length := by
      simp only [sampleWindow, lastN, List.length_drop]; omega
    cases hw : sampleWindow N bs with
    | nil => rw [hw] at this; simp at this
    | cons _ _ => rfl
  unfold binaryAuroc
  rw [hne]
  simp only [Bool.false_eq_true, if_false]
  unfold SBuf.compute
  by_cases hlt : bs.flatten.length < N
  · have hn := h.short hlt
    have hr := h.rot
    rw [lastN_pad_short N _ _ hlt, hn] at hr
    unfold rot at hr
    have hlen : (List.drop bs.flatten.length (SBuf.run T N bs).buf).length
        = (List.replicate (N - bs.flatten.length) (zeroCol T)).length := by simp [h.len]
    obtain ⟨h1, h2⟩ := List.append_inj hr hlen
    have hz : (SBuf.run T N bs).zeroBeyond = true := by
      unfold SBuf.zeroBeyond
      rw [hn, h1, List.all_replicate, colZero_zeroCol]; simp
    rw [hz, if_pos rfl, h.tasks, hn, h2, aurocSqueezed_two T _ (by omega)]
    simp only [sampleWindow]; rw [lastN_of_length_le N _ (by omega)]
  · have hge : N ≤ bs.flatten.length := by omega
    rw [hZ hge]
    simp only [Bool.false_eq_true, if_false]
    rw [h.tasks, aurocSqueezed_two T _ (by rw [h.len]; omega),
      ← binaryAuroc_rot T _ (SBuf.run T N bs).next, h.rot, lastN_pad_long N _ _ hge]
    rfl

/-- a sufficient condition on the history alone for hypothesis (Z): no live sample has
    score 0 in every task. -/
theorem zeroBeyond_false_of_nonzero (T N : Nat) (hN : 1 ≤ N) (bs : List (List Col))
    (hge : N ≤ bs.flatten.length)
    (hNZ : ∀ c ∈ sampleWindow N bs, colZero c = false) :
    (SBuf.run T N bs).zeroBeyond = false := by
  have h := sinv_run T N hN bs
  have hr := h.rot
  rw [lastN_pad_long N _ _ hge] at hr
  unfold SBuf.zeroBeyond
  have hlen : 0 < (List.drop (SBuf.run T N bs).next (SBuf.run T N bs).buf).length := by
    rw [List.length_drop, h.len]; have := h.next; omega
  cases hd : List.drop (SBuf.run T N bs).next (SBuf.run T N bs).buf with
  | nil => rw [hd] at hlen; simp at hlen
  | cons x xs =>
    have hx : x ∈ sampleWindow N bs := by
      unfold sampleWindow
      rw [← hr]; unfold rot; rw [hd]; simp
    simp [List.all_cons, hNZ x hx]

end TE.WindowL
