/-
  TE.Lemmas.Count — helper lemmas for TE/Props/C04.lean (scatter = counting,
  count identities, ratio conversions).  Core Lean only.
-/
import TE.Model.Count
import TE.Spec.Count
namespace TE.CountL
open TE TE.Count TE.Spec.Count

/-! ### sums -/

theorem foldl_add_eq (l : List Q) (x : Q) : l.foldl (· + ·) x = x + l.sum := by
  induction l generalizing x with
  | nil => simp [Rat.add_zero]
  | cons a l ih => simp only [List.foldl_cons, List.sum_cons, ih]; grind

theorem qsum_eq_sum (l : List Q) : qsum l = l.sum := by
  unfold qsum; rw [foldl_add_eq]; grind

/-- sum of the values whose index equals `c`. -/
def sumAt (ps : List (Nat × Q)) (c : Nat) : Q := ((ps.filter fun p => p.1 == c).map (·.2)).sum

theorem sumAt_nil (c : Nat) : sumAt [] c = 0 := rfl

theorem sumAt_cons (p : Nat × Q) (ps : List (Nat × Q)) (c : Nat) :
    sumAt (p :: ps) c = (if p.1 = c then p.2 else 0) + sumAt ps c := by
  unfold sumAt
  by_cases h : p.1 = c <;> simp [h, Rat.zero_add]

theorem bump_length (acc : List Q) (i : Nat) (v : Q) : (bump acc i v).length = acc.length := by
  simp [bump]

theorem bump_getD (acc : List Q) (i : Nat) (v : Q) (c : Nat) (hc : c < acc.length) :
    (bump acc i v).getD c 0 = acc.getD c 0 + (if i = c then v else 0) := by
  unfold bump
  simp only [List.getD_eq_getElem?_getD, List.getElem?_modify]
  by_cases h : i = c <;> simp [h, List.getElem?_eq_getElem hc, Rat.add_zero]

theorem foldl_bump_length (ps : List (Nat × Q)) (acc : List Q) :
    (ps.foldl (fun a p => bump a p.1 p.2) acc).length = acc.length := by
  induction ps generalizing acc with
  | nil => rfl
  | cons p ps ih => simp [List.foldl_cons, ih, bump_length]

theorem foldl_bump_getD (ps : List (Nat × Q)) (acc : List Q) (c : Nat) (hc : c < acc.length) :
    (ps.foldl (fun a p => bump a p.1 p.2) acc).getD c 0 = acc.getD c 0 + sumAt ps c := by
  induction ps generalizing acc with
  | nil => simp [sumAt_nil]; grind
  | cons p ps ih =>
    simp only [List.foldl_cons]
    rw [ih _ (by simpa [bump_length] using hc), bump_getD _ _ _ _ hc, sumAt_cons]
    grind

theorem eq_map_range_getD (l : List Q) (n : Nat) (h : l.length = n) :
    l = (List.range n).map fun c => l.getD c 0 := by
  apply List.ext_getElem
  · simp [h]
  · intro i h1 h2
    simp [List.getD_eq_getElem?_getD, List.getElem?_eq_getElem h1]

theorem vzero_getD (n c : Nat) : (vzero n).getD c 0 = 0 := by
  simp [vzero, List.getD_eq_getElem?_getD, List.getElem?_replicate]
  split <;> rfl

theorem scatterAdd_ok (n : Nat) (idx : List Nat) (vals : List Q) (h : idx.all (· < n) = true) :
    scatterAdd n idx vals = .ok ((List.range n).map fun c => sumAt (idx.zip vals) c) := by
  unfold scatterAdd
  rw [if_pos h]
  congr 1
  have hl := foldl_bump_length (idx.zip vals) (vzero n)
  rw [eq_map_range_getD ((idx.zip vals).foldl (fun a p => bump a p.1 p.2) (vzero n)) n (by simpa [vzero] using hl)]
  apply List.map_congr_left
  intro c hc
  rw [foldl_bump_getD _ _ _ (by simpa [vzero] using hc), vzero_getD]
  grind

theorem scatterAdd_error (n : Nat) (idx : List Nat) (vals : List Q) (h : ¬ idx.all (· < n) = true) :
    scatterAdd n idx vals = .error .runtime := by
  unfold scatterAdd; rw [if_neg h]

theorem sumAt_ones (idx : List Nat) (c : Nat) :
    sumAt (idx.zip (idx.map fun _ => (1 : Q))) c = (idx.count c : Q) := by
  induction idx with
  | nil => rfl
  | cons i idx ih =>
    simp only [List.map_cons, List.zip_cons_cons, sumAt_cons, ih, List.count_cons]
    by_cases h : i = c <;> simp [h, Rat.natCast_add] <;> grind


theorem scatterOnes_ok (n : Nat) (idx : List Nat) (h : idx.all (· < n) = true) :
    scatterOnes n idx = .ok ((List.range n).map fun c => (idx.count c : Q)) := by
  unfold scatterOnes
  rw [scatterAdd_ok n idx _ h]
  simp only [sumAt_ones]

/-! ### count identities -/

theorem count_eq_countP' (l : List Nat) (c : Nat) : l.count c = l.countP (· == c) :=
  List.count_eq_countP

theorem count_map_snd_filter {α : Type} (ps : List (α × Nat)) (f : α × Nat → Bool) (c : Nat) :
    ((ps.filter f).map (·.2)).count c = ps.countP fun p => p.2 == c && f p := by
  rw [List.count_eq_countP, List.countP_map, List.countP_filter]; rfl

theorem count_map_fst_filter {β : Type} (ps : List (Nat × β)) (f : Nat × β → Bool) (c : Nat) :
    ((ps.filter f).map (·.1)).count c = ps.countP fun p => p.1 == c && f p := by
  rw [List.count_eq_countP, List.countP_map, List.countP_filter]; rfl

theorem all_snd_filter_zip {α : Type} (xs : List α) (labs : List Nat) (f : α × Nat → Bool) (C : Nat)
    (h : labs.all (· < C) = true) : (((xs.zip labs).filter f).map (·.2)).all (· < C) = true := by
  rw [List.all_eq_true] at h ⊢
  intro x hx
  simp only [List.mem_map, List.mem_filter] at hx
  obtain ⟨⟨a, b⟩, ⟨hm, _⟩, rfl⟩ := hx
  exact h _ (List.of_mem_zip hm).2

theorem all_fst_filter_zip {β : Type} (preds : List Nat) (ys : List β) (f : Nat × β → Bool) (C : Nat)
    (h : preds.all (· < C) = true) : (((preds.zip ys).filter f).map (·.1)).all (· < C) = true := by
  rw [List.all_eq_true] at h ⊢
  intro x hx
  simp only [List.mem_map, List.mem_filter] at hx
  obtain ⟨⟨a, b⟩, ⟨hm, _⟩, rfl⟩ := hx
  exact h _ (List.of_mem_zip hm).1

theorem tp_eq_count (ps : Pairs) (c : Nat) :
    tp ps c = ((ps.filter fun p => p.1 == p.2).map (·.2)).count c := by
  rw [count_map_snd_filter]; unfold tp
  apply List.countP_congr; intro p _; simp; omega

theorem fp_eq_count (ps : Pairs) (c : Nat) :
    fp ps c = ((ps.filter fun p => p.1 != p.2).map (·.1)).count c := by
  rw [count_map_fst_filter]; unfold fp
  apply List.countP_congr; intro p _; simp; intro h; subst h; exact ⟨fun h e => h e.symm, fun h e => h e.symm⟩

theorem support_zip (preds labs : List Nat) (h : preds.length = labs.length) (c : Nat) :
    support (preds.zip labs) c = labs.count c := by
  unfold support
  rw [List.count_eq_countP]
  conv => rhs; rw [← List.map_snd_zip (l₁ := preds) (l₂ := labs) (by omega)]
  rw [List.countP_map]; rfl

theorem predicted_zip (preds labs : List Nat) (h : preds.length = labs.length) (c : Nat) :
    predicted (preds.zip labs) c = preds.count c := by
  unfold predicted
  rw [List.count_eq_countP]
  conv => rhs; rw [← List.map_fst_zip (l₁ := preds) (l₂ := labs) (by omega)]
  rw [List.countP_map]; rfl

theorem countP_split {α : Type} (p q : α → Bool) (l : List α) :
    l.countP p = l.countP (fun a => p a && q a) + l.countP (fun a => p a && !q a) := by
  induction l with
  | nil => rfl
  | cons a l ih =>
    simp only [List.countP_cons, ih]
    cases p a <;> cases q a <;> simp <;> omega

theorem predicted_eq (ps : Pairs) (c : Nat) : predicted ps c = tp ps c + fp ps c := by
  unfold predicted tp fp
  exact countP_split (fun p => p.1 == c) (fun p => p.2 == c) ps

theorem support_eq (ps : Pairs) (c : Nat) : support ps c = tp ps c + fn ps c := by
  unfold support tp fn
  rw [countP_split (fun p : Nat × Nat => p.2 == c) (fun p => p.1 == c) ps]
  congr 1 <;> apply List.countP_congr <;> intro p _ <;> simp [and_comm]

theorem correct_add_wrong (ps : Pairs) :
    correct ps + ps.countP (fun p => p.1 != p.2) = ps.length := by
  unfold correct
  induction ps with
  | nil => rfl
  | cons a l ih =>
    simp only [List.countP_cons, List.length_cons]
    by_cases h : a.1 = a.2 <;> simp [h] <;> omega

/-! ### ratios -/

theorem natCast_bne_zero (n : Nat) : ((n : Q) != 0) = (n != 0) := by
  by_cases h : n = 0
  · subst h; rfl
  · have : (n : Q) ≠ 0 := fun e => h (Rat.natCast_eq_zero_iff.mp e)
    rw [bne_iff_ne.mpr this, bne_iff_ne.mpr h]

theorem divNan0_natCast (a b : Nat) : divNan0 (a : Q) (b : Q) = ratio0 a b := by
  unfold divNan0 ratio0
  by_cases h : b = 0
  · subst h; simp
  · have : (b : Q) ≠ 0 := fun e => h (Rat.natCast_eq_zero_iff.mp e)
    simp [h, this]

theorem precision_eq (ps : Pairs) (c : Nat) :
    divNan0 (tp ps c : Q) ((tp ps c : Q) + (fp ps c : Q)) = precision ps c := by
  rw [← Rat.natCast_add, divNan0_natCast]; rfl

theorem recall_eq (ps : Pairs) (c : Nat) :
    divNan0 (tp ps c : Q) (support ps c : Q) = recall ps c := divNan0_natCast _ _

/-! ### sums of counts -/

theorem sum_map_natCast {α : Type} (l : List α) (g : α → Nat) :
    (l.map fun c => (g c : Q)).sum = ((l.map g).sum : Nat) := by
  induction l with
  | nil => rfl
  | cons a l ih => simp only [List.map_cons, List.sum_cons, ih, Rat.natCast_add]

theorem countP_lt_succ {α : Type} (ps : List α) (f : α → Nat) (C : Nat) :
    (ps.countP fun p => f p < C) + (ps.countP fun p => f p == C) = ps.countP fun p => f p < C + 1 := by
  induction ps with
  | nil => rfl
  | cons a l ih =>
    simp only [List.countP_cons, beq_iff_eq, decide_eq_true_eq]
    rw [← ih]
    repeat' split
    all_goals omega

theorem sum_range_countP {α : Type} (ps : List α) (f : α → Nat) (C : Nat) :
    ((List.range C).map fun c => ps.countP fun p => f p == c).sum = ps.countP fun p => f p < C := by
  induction C with
  | zero => simp
  | succ C ih =>
    rw [List.range_succ, List.map_append, List.sum_append, ih]
    simp only [List.map_cons, List.map_nil, List.sum_cons, List.sum_nil, Nat.add_zero]
    exact countP_lt_succ ps f C

theorem sum_support_range (ps : Pairs) (C : Nat) (h : ∀ p ∈ ps, p.2 < C) :
    ((List.range C).map fun c => (support ps c : Q)).sum = (ps.length : Q) := by
  rw [sum_map_natCast]
  unfold support
  rw [sum_range_countP ps (·.2) C, List.countP_eq_length.mpr]
  intro p hp; simpa using h p hp

theorem sum_filter_of_zero {α : Type} (l : List α) (P : α → Bool) (g : α → Q)
    (h : ∀ c ∈ l, P c = false → g c = 0) : ((l.filter P).map g).sum = (l.map g).sum := by
  induction l with
  | nil => rfl
  | cons a l ih =>
    have ih' := ih (fun c hc => h c (List.mem_cons_of_mem _ hc))
    by_cases hp : P a = true
    · simp [hp, ih']
    · have hp' : P a = false := by simpa using hp
      have := h a (List.mem_cons_self) hp'
      simp [hp', ih', this, Rat.zero_add]

/-! ### the PRF state as a list of rows -/

theorem prf_rows (C : Nat) (t a b : Nat → Q) (P : Q × Q × Q → Bool) :
    ((((List.range C).map t).zip (((List.range C).map a).zip ((List.range C).map b))).filter P)
      = ((List.range C).filter fun c => P (t c, a c, b c)).map fun c => (t c, a c, b c) := by
  rw [List.zip_map', List.zip_map', List.filter_map]; rfl

theorem present_eq_filter (ps : Pairs) (C : Nat) :
    ((List.range C).filter fun c => ((support ps c : Q) != 0 || (predicted ps c : Q) != 0))
      = present ps C := by
  unfold present
  apply List.filter_congr; intro c _
  rw [natCast_bne_zero, natCast_bne_zero]

theorem present_eq_filter_prec (ps : Pairs) (C : Nat) :
    ((List.range C).filter fun c =>
        ((support ps c : Q) != 0 || (tp ps c : Q) + (fp ps c : Q) != 0))
      = present ps C := by
  rw [← present_eq_filter]
  apply List.filter_congr; intro c _
  rw [← Rat.natCast_add, ← predicted_eq]

theorem support_zero_of_not_present (ps : Pairs) (c : Nat)
    (h : (support ps c != 0 || predicted ps c != 0) = false) : support ps c = 0 := by
  simp at h; exact h.1

theorem sum_support_present (ps : Pairs) (C : Nat) (h : ∀ p ∈ ps, p.2 < C) :
    ((present ps C).map fun c => (support ps c : Q)).sum = (ps.length : Q) := by
  unfold present
  rw [sum_filter_of_zero, sum_support_range ps C h]
  intro c _ hc
  rw [support_zero_of_not_present ps c hc]; rfl

theorem natCast_length_eq_zero {α : Type} (l : List α) : ((l.length : Q) = 0) ↔ l = [] := by
  rw [Rat.natCast_eq_zero_iff, List.length_eq_zero_iff]

theorem present_nil (C : Nat) : present [] C = [] := by
  unfold present support predicted
  simp

/-! ### F1 -/

theorem f1_pos (t P L : Q) (ht : 0 < t) (hP : 0 < P) (hL : 0 < L) : t / P + t / L ≠ 0 := by
  have h1 : 0 < t * P := Rat.mul_pos ht hP
  have h2 : 0 < t * L := Rat.mul_pos ht hL
  intro h
  have e : t * P + t * L = 0 := by grind
  grind

theorem f1_field (t P L : Q) (ht : 0 < t) (hP : 0 < P) (hL : 0 < L) :
    2 * (t / P) * (t / L) / (t / P + t / L) = 2 * t / (L + P) := by
  have h1 : P ≠ 0 := by grind
  have h2 : L ≠ 0 := by grind
  have h3 : t ≠ 0 := by grind
  have h4 : L + P ≠ 0 := by grind
  grind

theorem f1One_eq_aux (t fp fn : Nat) :
    f1One (t : Q) ((t + fn : Nat) : Q) ((t + fp : Nat) : Q) = ratio0 (2 * t) (2 * t + fp + fn) := by
  have hfp : (0 : Q) ≤ (fp : Q) := Rat.natCast_nonneg
  have hfn : (0 : Q) ≤ (fn : Q) := Rat.natCast_nonneg
  by_cases h0 : t = 0
  · subst h0
    unfold f1One ratio0
    have z : ∀ x : Q, (0 : Q) / x = 0 := by intro x; grind
    simp [z, Rat.add_zero]
  · have ht : (0 : Q) < (t : Q) := Rat.natCast_pos.mpr (by omega)
    have hP : (0 : Q) < ((t + fp : Nat) : Q) := Rat.natCast_pos.mpr (by omega)
    have hL : (0 : Q) < ((t + fn : Nat) : Q) := Rat.natCast_pos.mpr (by omega)
    have hP0 : ((t + fp : Nat) : Q) ≠ 0 := by grind
    have hL0 : ((t + fn : Nat) : Q) ≠ 0 := by grind
    have hn : ¬ (2 * t + fp + fn = 0) := by omega
    unfold f1One ratio0
    simp only [hP0, hL0, or_self, if_false, f1_pos _ _ _ ht hP hL, hn, f1_field _ _ _ ht hP hL]
    simp only [Rat.natCast_add, Rat.natCast_mul]
    congr 1
    grind

theorem f1One_natCast (t l p : Nat) (hl : t ≤ l) (hp : t ≤ p) :
    f1One (t : Q) (l : Q) (p : Q) = ratio0 (2 * t) (l + p) := by
  have := f1One_eq_aux t (p - t) (l - t)
  rw [show t + (l - t) = l by omega, show t + (p - t) = p by omega,
    show 2 * t + (p - t) + (l - t) = l + p by omega] at this
  exact this

theorem f1_eq (ps : Pairs) (c : Nat) :
    f1One (tp ps c : Q) (support ps c : Q) (predicted ps c : Q) = f1 ps c := by
  rw [support_eq, predicted_eq, f1One_eq_aux]; rfl

/-! ### confusion matrix -/

theorem vzero_length (n : Nat) : (vzero n).length = n := by simp [vzero]

/-- one confusion-matrix accumulation step -/
def cmStep (m : Mat) (p : Nat × Nat) : Mat := m.modify p.1 (fun row => bump row p.2 1)

theorem cmStep_length (m : Mat) (p : Nat × Nat) : (cmStep m p).length = m.length := by
  simp [cmStep]

theorem cmStep_getD (m : Mat) (p : Nat × Nat) (t : Nat) :
    (cmStep m p).getD t [] = if p.1 = t then bump (m.getD t []) p.2 1 else m.getD t [] := by
  unfold cmStep
  simp only [List.getD_eq_getElem?_getD, List.getElem?_modify]
  by_cases h : p.1 = t
  · subst h
    cases hm : m[p.1]? with
    | none => simp [bump]
    | some r => simp
  · simp [h]

theorem foldl_cmStep_length (ps : List (Nat × Nat)) (m : Mat) :
    (ps.foldl cmStep m).length = m.length := by
  induction ps generalizing m with
  | nil => rfl
  | cons p ps ih => simp [List.foldl_cons, ih, cmStep_length]

theorem foldl_cmStep_row_length (ps : List (Nat × Nat)) (m : Mat) (t : Nat) :
    ((ps.foldl cmStep m).getD t []).length = (m.getD t []).length := by
  induction ps generalizing m with
  | nil => rfl
  | cons p ps ih =>
    simp only [List.foldl_cons, ih, cmStep_getD]
    split <;> simp [bump_length]

theorem foldl_cmStep_entry (ps : List (Nat × Nat)) (m : Mat) (t p : Nat)
    (hp : p < (m.getD t []).length) :
    ((ps.foldl cmStep m).getD t []).getD p 0
      = (m.getD t []).getD p 0 + (ps.countP fun q => q.1 == t && q.2 == p : Nat) := by
  induction ps generalizing m with
  | nil => simp [Rat.add_zero]
  | cons q ps ih =>
    simp only [List.foldl_cons]
    rw [ih]
    · rw [cmStep_getD, List.countP_cons, Rat.natCast_add]
      by_cases h1 : q.1 = t
      · rw [if_pos h1, bump_getD _ _ _ _ hp]
        by_cases h2 : q.2 = p <;> simp [h1, h2] <;> grind
      · simp [h1]; grind
    · rw [cmStep_getD]; split
      · simpa [bump_length] using hp
      · exact hp

theorem mzero_getD (C t : Nat) (ht : t < C) : (mzero C C).getD t [] = vzero C := by
  simp [mzero, List.getD_eq_getElem?_getD, ht]

theorem confusion_zip (preds labs : List Nat) (t p : Nat) :
    confusion (preds.zip labs) t p = (labs.zip preds).countP fun q => q.1 == t && q.2 == p := by
  unfold confusion
  induction preds generalizing labs with
  | nil => simp
  | cons a preds ih =>
    cases labs with
    | nil => simp
    | cons b labs => simp [List.countP_cons, ih]


theorem eq_map_range_getD' {α : Type} (l : List α) (d : α) (n : Nat) (h : l.length = n) :
    l = (List.range n).map fun c => l.getD c d := by
  apply List.ext_getElem
  · simp [h]
  · intro i h1 h2
    simp [List.getD_eq_getElem?_getD, List.getElem?_eq_getElem h1]

theorem confusionUpdate_ok (preds labs : List Nat) (C : Nat)
    (hp : preds.all (· < C) = true) (hl : labs.all (· < C) = true) :
    confusionUpdate preds labs C = .ok ((List.range C).map fun t => (List.range C).map fun p =>
      (confusion (preds.zip labs) t p : Q)) := by
  unfold confusionUpdate
  rw [hp, hl, Bool.and_self, if_pos rfl]
  congr 1
  show (labs.zip preds).foldl cmStep (mzero C C) = _
  have hlen : ((labs.zip preds).foldl cmStep (mzero C C)).length = C := by
    rw [foldl_cmStep_length]; simp [mzero]
  rw [eq_map_range_getD' _ [] C hlen]
  apply List.map_congr_left; intro t ht
  have ht : t < C := by simpa using ht
  have hrow : (((labs.zip preds).foldl cmStep (mzero C C)).getD t []).length = C := by
    rw [foldl_cmStep_row_length, mzero_getD C t ht, vzero_length]
  rw [eq_map_range_getD' _ (0 : Q) C hrow]
  apply List.map_congr_left; intro p hp'
  have hp' : p < C := by simpa using hp'
  rw [foldl_cmStep_entry _ _ _ _ (by rw [mzero_getD C t ht, vzero_length]; exact hp'),
    mzero_getD C t ht, vzero_getD, confusion_zip, Rat.zero_add]

theorem confusionUpdate_err (preds labs : List Nat) (C : Nat)
    (h : ¬ (preds.all (· < C) = true ∧ labs.all (· < C) = true)) :
    confusionUpdate preds labs C = .error .runtime := by
  unfold confusionUpdate
  rw [if_neg]; simpa using h

/-! ### accuracy -/

theorem thresh_eq_binPred' (thr x : Q) : thresh thr x = binPred thr x := by
  unfold thresh binPred
  by_cases h : x < thr
  · have : ¬ thr ≤ x := Rat.not_le.mpr h
    simp [h, this]
  · have : thr ≤ x := Rat.not_lt.mp h
    simp [h, this]

theorem qsum_b2q {α : Type} (l : List α) (f : α → Bool) :
    qsum (l.map fun a => b2q (f a)) = (l.countP f : Nat) := by
  rw [qsum_eq_sum]
  induction l with
  | nil => rfl
  | cons a l ih =>
    simp only [List.map_cons, List.sum_cons, ih, List.countP_cons, Rat.natCast_add]
    cases f a <;> simp [b2q] <;> grind

theorem binaryAccuracy_fst (thr : Q) (xs : List Q) (ys : List Nat) :
    (binaryAccuracyUpdate thr xs (ys.map fun (y : Nat) => (y : Q))).1
      = (correct ((xs.map (binPred thr)).zip ys) : Q) := by
  unfold binaryAccuracyUpdate qcount correct
  simp only
  congr 1
  rw [show xs.zip (ys.map fun (y : Nat) => (y : Q)) = (xs.zip ys).map (Prod.map id fun (y : Nat) => (y : Q)) by
        rw [← List.zip_map]; simp,
      show (xs.map (binPred thr)).zip ys = (xs.zip ys).map (Prod.map (binPred thr) id) by
        rw [← List.zip_map]; simp,
      List.countP_map, List.countP_map]
  apply List.countP_congr; intro p _
  simp [thresh_eq_binPred', Rat.natCast_inj]

theorem sumAt_mask {α : Type} (xs : List α) (labs : List Nat) (f : α × Nat → Bool) (c : Nat) :
    sumAt (labs.zip ((xs.zip labs).map fun p => b2q (f p))) c
      = ((xs.zip labs).countP fun p => p.2 == c && f p : Nat) := by
  induction xs generalizing labs with
  | nil => simp [sumAt_nil]
  | cons x xs ih =>
    cases labs with
    | nil => simp [sumAt_nil]
    | cons l labs =>
      simp only [List.zip_cons_cons, List.map_cons, sumAt_cons, ih, List.countP_cons, Rat.natCast_add]
      by_cases h : l = c <;> cases hf : f (x, l) <;> simp [h, b2q] <;> grind

theorem scatterAdd_mask {α : Type} (xs : List α) (labs : List Nat) (f : α × Nat → Bool) (C : Nat)
    (hl : labs.all (· < C) = true) :
    scatterAdd C labs ((xs.zip labs).map fun p => b2q (f p))
      = .ok ((List.range C).map fun c => ((xs.zip labs).countP fun p => p.2 == c && f p : Nat)) := by
  rw [scatterAdd_ok _ _ _ hl]
  simp only [sumAt_mask]

theorem mcAccFromMask_mask {α : Type} (xs : List α) (labs : List Nat) (f : α × Nat → Bool)
    (avg : Avg) (C : Nat) (hl : labs.all (· < C) = true) (havg : avg ≠ .micro) :
    mcAccFromMask ((xs.zip labs).map fun p => b2q (f p)) labs avg C
      = .ok ((List.range C).map fun c => ((xs.zip labs).countP fun p => p.2 == c && f p : Nat),
             (List.range C).map fun c => (labs.count c : Q)) := by
  have h1 := scatterAdd_mask xs labs f C hl
  have h2 := scatterOnes_ok C labs hl
  cases avg <;> first | exact absurd rfl havg | skip
  all_goals simp only [mcAccFromMask, h1, h2, bind, Except.bind]

theorem tp_eq_mask_count (ps : Pairs) (c : Nat) :
    (ps.countP fun p => p.2 == c && p.1 == p.2) = tp ps c := by
  unfold tp
  apply List.countP_congr; intro p _; simp; omega

/-! ### argmax -/

theorem argmax_go_spec (row : List Q) (l : List Q) (i best : Nat) (bv : Q)
    (hl : row.drop i = l) (hi : i ≤ row.length) (hb : best < i) (hbv : row.getD best 0 = bv)
    (hmax : ∀ j, j < i → row.getD j 0 ≤ bv) (hfirst : ∀ j, j < best → row.getD j 0 < bv) :
    argmaxFirst.go l i best bv < row.length ∧
    (∀ j, j < row.length → row.getD j 0 ≤ row.getD (argmaxFirst.go l i best bv) 0) ∧
    (∀ j, j < argmaxFirst.go l i best bv → row.getD j 0 < row.getD (argmaxFirst.go l i best bv) 0) := by
  induction l generalizing i best bv with
  | nil =>
    have : i = row.length := by
      have := congrArg List.length hl
      simp at this; omega
    subst this
    simp only [argmaxFirst.go]
    refine ⟨hb, ?_, ?_⟩
    · intro j hj; rw [hbv]; exact hmax j hj
    · intro j hj; rw [hbv]; exact hfirst j hj
  | cons x xs ih =>
    have hi' : i < row.length := by
      have := congrArg List.length hl
      simp at this; omega
    rw [List.drop_eq_getElem_cons hi'] at hl
    have hx : row.getD i 0 = x := by
      simp [List.getD_eq_getElem?_getD, List.getElem?_eq_getElem hi']
      exact (List.cons.inj hl).1
    have hxs : row.drop (i + 1) = xs := (List.cons.inj hl).2
    simp only [argmaxFirst.go]
    by_cases hlt : bv < x
    · rw [if_pos hlt]
      apply ih (i + 1) i x hxs (by omega) (by omega) hx
      · intro j hj
        by_cases hji : j = i
        · subst hji; rw [hx]; exact Rat.le_refl
        · have := hmax j (by omega); grind
      · intro j hj
        have := hmax j hj; grind
    · rw [if_neg hlt]
      apply ih (i + 1) best bv hxs (by omega) (by omega) hbv
      · intro j hj
        by_cases hji : j = i
        · subst hji; rw [hx]; grind
        · exact hmax j (by omega)
      · exact hfirst

theorem argmaxFirst_ok (row : List Q) (h : row ≠ []) :
    argmaxFirst row < row.length ∧
    (∀ j, j < row.length → row.getD j 0 ≤ row.getD (argmaxFirst row) 0) ∧
    (∀ j, j < argmaxFirst row → row.getD j 0 < row.getD (argmaxFirst row) 0) := by
  cases row with
  | nil => exact absurd rfl h
  | cons x xs =>
    simp only [argmaxFirst]
    apply argmax_go_spec (x :: xs) xs 1 0 x rfl (by simp) (by omega) rfl
    · intro j hj
      have : j = 0 := by omega
      subst this; simp
    · intro j hj; omega

/-! ### multilabel criteria -/

theorem b2q_all_eq {α : Type} (l : List α) (f : α → Bool) (P : α → Prop)
    [Decidable (∀ p ∈ l, P p)] (h : ∀ p ∈ l, (f p = true ↔ P p)) :
    b2q (l.all f) = if ∀ p ∈ l, P p then 1 else 0 := by
  by_cases hP : ∀ p ∈ l, P p
  · rw [if_pos hP]
    have : l.all f = true := List.all_eq_true.mpr fun p hp => (h p hp).mpr (hP p hp)
    simp [b2q, this]
  · rw [if_neg hP]
    have : ¬ l.all f = true := fun e => hP fun p hp => (h p hp).mp (List.all_eq_true.mp e p hp)
    simp [b2q, this]

theorem b2q_any_eq {α : Type} (l : List α) (f : α → Bool) (P : α → Prop)
    [Decidable (∃ p ∈ l, P p)] (h : ∀ p ∈ l, (f p = true ↔ P p)) :
    b2q (l.any f) = if ∃ p ∈ l, P p then 1 else 0 := by
  by_cases hP : ∃ p ∈ l, P p
  · rw [if_pos hP]
    obtain ⟨p, hp, hpp⟩ := hP
    have : l.any f = true := List.any_eq_true.mpr ⟨p, hp, (h p hp).mpr hpp⟩
    simp [b2q, this]
  · rw [if_neg hP]
    have : ¬ l.any f = true := fun e => by
      obtain ⟨p, hp, hf⟩ := List.any_eq_true.mp e
      exact hP ⟨p, hp, (h p hp).mp hf⟩
    simp [b2q, this]

theorem zip_all_eq_iff (a b : List Q) (h : a.length = b.length) :
    (∀ p ∈ a.zip b, p.1 = p.2) ↔ a = b := by
  induction a generalizing b with
  | nil => cases b with
    | nil => simp
    | cons y b => simp at h
  | cons x a ih =>
    cases b with
    | nil => simp at h
    | cons y b =>
      have h' : a.length = b.length := by simpa using h
      simp only [List.zip_cons_cons, List.mem_cons, forall_eq_or_imp, ih b h', List.cons.injEq]

theorem ml_exact (inp tgt : List Q) (h : inp.length = tgt.length) :
    mlRowCorrect .exact inp tgt = if inp = tgt then 1 else 0 := by
  simp only [mlRowCorrect]
  rw [b2q_all_eq _ _ (fun p => p.1 = p.2) (by intro p _; simp)]
  simp only [zip_all_eq_iff inp tgt h]

theorem ml_contain (inp tgt : List Q)
    (h01 : ∀ p ∈ inp.zip tgt, (p.1 = 0 ∨ p.1 = 1) ∧ (p.2 = 0 ∨ p.2 = 1)) :
    mlRowCorrect .contain inp tgt = if ∀ p ∈ inp.zip tgt, p.2 = 1 → p.1 = 1 then 1 else 0 := by
  simp only [mlRowCorrect]
  apply b2q_all_eq
  intro p hp
  obtain ⟨h1, h2⟩ := h01 p hp
  simp only [decide_eq_true_eq]
  rcases h1 with h1 | h1 <;> rcases h2 with h2 | h2 <;> rw [h1, h2] <;> grind

theorem ml_belong (inp tgt : List Q)
    (h01 : ∀ p ∈ inp.zip tgt, (p.1 = 0 ∨ p.1 = 1) ∧ (p.2 = 0 ∨ p.2 = 1)) :
    mlRowCorrect .belong inp tgt = if ∀ p ∈ inp.zip tgt, p.1 = 1 → p.2 = 1 then 1 else 0 := by
  simp only [mlRowCorrect]
  apply b2q_all_eq
  intro p hp
  obtain ⟨h1, h2⟩ := h01 p hp
  simp only [decide_eq_true_eq]
  rcases h1 with h1 | h1 <;> rcases h2 with h2 | h2 <;> rw [h1, h2] <;> grind

theorem ml_overlap (inp tgt : List Q) :
    mlRowCorrect .overlap inp tgt
      = if (∃ p ∈ inp.zip tgt, p.1 = 1 ∧ p.2 = 1) ∨ (∀ p ∈ inp.zip tgt, p.1 = 0 ∧ p.2 = 0)
        then 1 else 0 := by
  simp only [mlRowCorrect]
  rw [b2q_any_eq _ _ (fun p => p.1 = 1 ∧ p.2 = 1) (by intro p _; simp; grind),
      b2q_all_eq _ _ (fun p => p.1 = 0 ∧ p.2 = 0) (by intro p _; simp)]
  by_cases hA : ∃ p ∈ inp.zip tgt, p.1 = 1 ∧ p.2 = 1
  · have hB : ¬ ∀ p ∈ inp.zip tgt, p.1 = 0 ∧ p.2 = 0 := by
      obtain ⟨p, hp, h1, _⟩ := hA
      intro hB
      have := (hB p hp).1
      rw [h1] at this; grind
    rw [if_pos hA, if_neg hB, if_pos (Or.inl hA), Rat.add_zero]
  · by_cases hB : ∀ p ∈ inp.zip tgt, p.1 = 0 ∧ p.2 = 0
    · rw [if_neg hA, if_pos hB, if_pos (Or.inr hB), Rat.zero_add]
    · rw [if_neg hA, if_neg hB, if_neg (by intro h; cases h <;> contradiction), Rat.add_zero]

theorem ml_hamming (inp tgt : List Q) :
    mlRowCorrect .hamming inp tgt = ((inp.zip tgt).countP fun p => p.1 == p.2 : Nat) := rfl

theorem ml_zero_one (crit : Crit) (inp tgt : List Q) (h : crit ≠ .hamming) :
    mlRowCorrect crit inp tgt = 0 ∨ mlRowCorrect crit inp tgt = 1 := by
  cases crit
  · simp only [mlRowCorrect, b2q]; split <;> simp
  · exact absurd rfl h
  · rw [ml_overlap]; split <;> simp
  · simp only [mlRowCorrect, b2q]; split <;> simp
  · simp only [mlRowCorrect, b2q]; split <;> simp

theorem sum_zero_one {α : Type} (l : List α) (g : α → Q) (h : ∀ a ∈ l, g a = 0 ∨ g a = 1) :
    (l.map g).sum = (l.countP fun a => g a == 1 : Nat) := by
  induction l with
  | nil => rfl
  | cons a l ih =>
    have ih' := ih fun b hb => h b (List.mem_cons_of_mem _ hb)
    simp only [List.map_cons, List.sum_cons, ih', List.countP_cons, Rat.natCast_add]
    rcases h a List.mem_cons_self with h0 | h1
    · rw [h0]; simp; grind
    · rw [h1]; simp; grind

/-! ### binary precision / recall / F1 -/

theorem binPred_cases (thr x : Q) : binPred thr x = 0 ∨ binPred thr x = 1 := by
  unfold binPred; split <;> simp

theorem mul_b2q (b y : Nat) (hb : b = 0 ∨ b = 1) (hy : y ≤ 1) :
    ((b : Nat) : Q) * ((y : Nat) : Q) = b2q (b == 1 && y == 1) := by
  obtain rfl | rfl : y = 0 ∨ y = 1 := by omega
  all_goals rcases hb with rfl | rfl <;> simp [b2q] <;> grind

theorem land_b2q (b y : Nat) (hb : b = 0 ∨ b = 1) (hy : y ≤ 1) :
    ((Nat.land b y : Nat) : Q) = b2q (b == 1 && y == 1) := by
  obtain rfl | rfl : y = 0 ∨ y = 1 := by omega
  all_goals rcases hb with rfl | rfl
  · rw [show Nat.land 0 0 = 0 by decide]; simp [b2q]
  · rw [show Nat.land 1 0 = 0 by decide]; simp [b2q]
  · rw [show Nat.land 0 1 = 0 by decide]; simp [b2q]
  · rw [show Nat.land 1 1 = 1 by decide]; simp [b2q]

theorem cast_b2q (y : Nat) (hy : y ≤ 1) : ((y : Nat) : Q) = b2q (y == 1) := by
  obtain rfl | rfl : y = 0 ∨ y = 1 := by omega
  all_goals simp [b2q] <;> rfl

theorem tp_binary (thr : Q) (xs : List Q) (ys : List Nat) :
    tp ((xs.map (binPred thr)).zip ys) 1
      = (xs.zip ys).countP fun p => binPred thr p.1 == 1 && p.2 == 1 := by
  unfold tp
  rw [List.zip_map_left, List.countP_map]; rfl

theorem binary_tp_mul (thr : Q) (xs : List Q) (ys : List Nat) (h01 : ∀ y ∈ ys, y ≤ 1) :
    qsum ((xs.zip (ys.map fun (y : Nat) => (y : Q))).map fun p => ((thresh thr p.1 : Nat) : Q) * p.2)
      = (tp ((xs.map (binPred thr)).zip ys) 1 : Q) := by
  rw [tp_binary, ← qsum_b2q, List.zip_map_right, List.map_map]
  congr 1
  apply List.map_congr_left; intro p hp
  simp only [Function.comp, Prod.map, id, thresh_eq_binPred']
  exact mul_b2q _ _ (binPred_cases thr p.1) (h01 _ (List.of_mem_zip hp).2)

theorem binary_tp_land (thr : Q) (xs : List Q) (ys : List Nat) (h01 : ∀ y ∈ ys, y ≤ 1) :
    qsum ((xs.zip ys).map fun p => ((Nat.land (thresh thr p.1) p.2 : Nat) : Q))
      = (tp ((xs.map (binPred thr)).zip ys) 1 : Q) := by
  rw [tp_binary, ← qsum_b2q]
  congr 1
  apply List.map_congr_left; intro p hp
  simp only [thresh_eq_binPred']
  exact land_b2q _ _ (binPred_cases thr p.1) (h01 _ (List.of_mem_zip hp).2)

theorem binary_predicted (thr : Q) (xs : List Q) (ys : List Nat) (hlen : xs.length ≤ ys.length) :
    qsum (xs.map fun x => ((thresh thr x : Nat) : Q))
      = (predicted ((xs.map (binPred thr)).zip ys) 1 : Q) := by
  have e : predicted ((xs.map (binPred thr)).zip ys) 1 = xs.countP fun x => binPred thr x == 1 := by
    unfold predicted
    have := List.countP_map (p := fun c : Nat => c == 1) (f := Prod.fst)
      (l := (xs.map (binPred thr)).zip ys)
    rw [List.map_fst_zip (by simpa using hlen), List.countP_map] at this
    exact this.symm
  rw [e, ← qsum_b2q]
  congr 1
  apply List.map_congr_left; intro x _
  simp only [thresh_eq_binPred']
  rcases binPred_cases thr x with h | h <;> rw [h] <;> simp [b2q] <;> rfl

theorem binary_support (thr : Q) (xs : List Q) (ys : List Nat) (hlen : ys.length ≤ xs.length)
    (h01 : ∀ y ∈ ys, y ≤ 1) :
    qsum (ys.map fun (y : Nat) => (y : Q)) = (support ((xs.map (binPred thr)).zip ys) 1 : Q) := by
  have e : support ((xs.map (binPred thr)).zip ys) 1 = ys.countP fun y => y == 1 := by
    unfold support
    have := List.countP_map (p := fun c : Nat => c == 1) (f := Prod.snd)
      (l := (xs.map (binPred thr)).zip ys)
    rw [List.map_snd_zip (by simpa using hlen)] at this
    exact this.symm
  rw [e, ← qsum_b2q]
  congr 1
  apply List.map_congr_left; intro y hy
  exact cast_b2q y (h01 y hy)

end TE.CountL
