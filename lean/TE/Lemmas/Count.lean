/-
  TE.Lemmas.Count — helper lemmas for TE/Props/C04.lean (scatter = counting,
  count identities, ratio conversions).  Core Lean only.
-/
import TE.Model.Count
import TE.Spec.Count
namespace TE.CountL
open TE TE.Count TE.Spec.Count

/-! ### sums -/

theorem foldl_add_eq (l : List Q) (x : Q) : l.foldl (· + ·) x = x + l.sum := by
  induction l generalizing x with
  | nil => simp [Rat.add_zero]
  | cons a l ih => simp only [List.foldl_cons, List.sum_cons, ih]; grind

theorem qsum_eq_sum (l : List Q) : qsum l = l.sum := by
  unfold qsum; rw [foldl_add_eq]; grind

/-- sum of the values whose index equals `c`. -/
def sumAt (ps : List (Nat × Q)) (c : Nat) : Q := ((ps.filter fun p => p.1 == c).map (·.2)).sum

theorem sumAt_nil (c : Nat) : sumAt [] c = 0 := rfl

theorem sumAt_cons (p : Nat × Q) (ps : List (Nat × Q)) (c : Nat) :
    sumAt (p :: ps) c = (if p.1 = c then p.2 else 0) + sumAt ps c := by
  unfold sumAt
  by_cases h : p.1 = c <;> simp [h, Rat.zero_add]

theorem bump_length (acc : List Q) (i : Nat) (v : Q) : (bump acc i v).length = acc.length := by
  simp [bump]

theorem bump_getD (acc : List Q) (i : Nat) (v : Q) (c : Nat) (hc : c < acc.length) :
    (bump acc i v).getD c 0 = acc.getD c 0 + (if i = c then v else 0) := by
  unfold bump
  simp only [List.getD_eq_getElem?_getD, List.getElem?_modify]
  by_cases h : i = c <;> simp [h, List.getElem?_eq_getElem hc, Rat.add_zero]

theorem foldl_bump_length (ps : List (Nat × Q)) (acc : List Q) :
    (ps.foldl (fun a p => bump a p.1 p.2) acc).length = acc.length := by
  induction ps generalizing acc with
  | nil => rfl
  | cons p ps ih => simp [List.foldl_cons, ih, bump_length]

theorem foldl_bump_getD (ps : List (Nat × Q)) (acc : List Q) (c : Nat) (hc : c < acc.length) :
    (ps.foldl (fun a p => bump a p.1 p.2) acc).getD c 0 = acc.getD c 0 + sumAt ps c := by
  induction ps generalizing acc with
  | nil => simp [sumAt_nil]; grind
  | cons p ps ih =>
    simp only [List.foldl_cons]
    rw [ih _ (by simpa [bump_length] using hc), bump_getD _ _ _ _ hc, sumAt_cons]
    grind

theorem eq_map_range_getD (l : List Q) (n : Nat) (h : l.length = n) :
    l = (List.range n).map fun c => l.getD c 0 := by
  apply List.ext_getElem
  · simp [h]
  · intro i h1 h2
    simp [List.getD_eq_getElem?_getD, List.getElem?_eq_getElem h1]

theorem vzero_getD (n c : Nat) : (vzero n).getD c 0 = 0 := by
  simp [vzero, List.getD_eq_getElem?_getD, List.getElem?_replicate]
  split <;> rfl

theorem scatterAdd_ok (n : Nat) (idx : List Nat) (vals : List Q) (h : idx.all (· < n) = true) :
    scatterAdd n idx vals = .ok ((List.range n).map fun c => sumAt (idx.zip vals) c) := by
  unfold scatterAdd
  rw [if_pos h]
  congr 1
  have hl := foldl_bump_length (idx.zip vals) (vzero n)
  rw [eq_map_range_getD ((idx.zip vals).foldl (fun a p => bump a p.1 p.2) (vzero n)) n (by simpa [vzero] using hl)]
  apply List.map_congr_left
  intro c hc
  rw [foldl_bump_getD _ _ _ (by simpa [vzero] using hc), vzero_getD]
  grind

theorem scatterAdd_error (n : Nat) (idx : List Nat) (vals : List Q) (h : ¬ idx.all (· < n) = true) :
    scatterAdd n idx vals = .error .runtime := by
  unfold scatterAdd; rw [if_neg h]

theorem sumAt_ones (idx : List Nat) (c : Nat) :
    sumAt (idx.zip (idx.map fun _ => (1 : Q))) c = (idx.count c : Q) := by
  induction idx with
  | nil => rfl
  | cons i idx ih =>
    simp only [List.map_cons, List.zip_cons_cons, sumAt_cons, ih, List.count_cons]
    by_cases h : i = c <;> simp [h, Rat.natCast_add] <;> grind


theorem scatterOnes_ok (n : Nat) (idx : List Nat) (h : idx.all (· < n) = true) :
    scatterOnes n idx = .ok ((List.range n).map fun c => (idx.count c : Q)) := by
  unfold scatterOnes
  rw [scatterAdd_ok n idx _ h]
  simp only [sumAt_ones]

/-! ### count identities -/

theorem count_eq_countP' (l : List Nat) (c : Nat) : l.count c = l.countP (· == c) :=
  List.count_eq_countP

theorem count_map_snd_filter {α : Type} (ps : List (α × Nat)) (f : α × Nat → Bool) (c : Nat) :
    ((ps.filter f).map (·.2)).count c = ps.countP fun p => p.2 == c && f p := by
  rw [List.count_eq_countP, List.countP_map, List.countP_filter]; rfl

theorem count_map_fst_filter {β : Type} (ps : List (Nat × β)) (f : Nat × β → Bool) (c : Nat) :
    ((ps.filter f).map (·.1)).count c = ps.countP fun p => p.1 == c && f p := by
  rw [List.count_eq_countP, List.countP_map, List.countP_filter]; rfl

theorem all_snd_filter_zip {α : Type} (xs : List α) (labs : List Nat) (f : α × Nat → Bool) (C : Nat)
    (h : labs.all (· < C) = true) : (((xs.zip labs).filter f).map (·.2)).all (· < C) = true := by
  rw [List.all_eq_true] at h ⊢
  intro x hx
  simp only [List.mem_map, List.mem_filter] at hx
  obtain ⟨⟨a, b⟩, ⟨hm, _⟩, rfl⟩ := hx
  exact h _ (List.of_mem_zip hm).2

theorem all_fst_filter_zip {β : Type} (preds : List Nat) (ys : List β) (f : Nat × β → Bool) (C : Nat)
    (h : preds.all (· < C) = true) : (((preds.zip ys).filter f).map (·.1)).all (· < C) = true := by
  rw [List.all_eq_true] at h ⊢
  intro x hx
  simp only [List.mem_map, List.mem_filter] at hx
  obtain ⟨⟨a, b⟩, ⟨hm, _⟩, rfl⟩ := hx
  exact h _ (List.of_mem_zip hm).1

theorem tp_eq_count (ps : Pairs) (c : Nat) :
    tp ps c = ((ps.filter fun p => p.1 == p.2).map (·.2)).count c := by
  rw [count_map_snd_filter]; unfold tp
  apply List.countP_congr; intro p _; simp; omega

theorem fp_eq_count (ps : Pairs) (c : Nat) :
    fp ps c = ((ps.filter fun p => p.1 != p.2).map (·.1)).count c := by
  rw [count_map_fst_filter]; unfold fp
  apply List.countP_congr; intro p _; simp; intro h; subst h; exact ⟨fun h e => h e.symm, fun h e => h e.symm⟩

theorem support_zip (preds labs : List Nat) (h : preds.length = labs.length) (c : Nat) :
    support (preds.zip labs) c = labs.count c := by
  unfold support
  rw [List.count_eq_countP]
  conv => rhs; rw [← List.map_snd_zip (l₁ := preds) (l₂ := labs) (by omega)]
  rw [List.countP_map]; rfl

theorem predicted_zip (preds labs : List Nat) (h : preds.length = labs.length) (c : Nat) :
    predicted (preds.zip labs) c = preds.count c := by
  unfold predicted
  rw [List.count_eq_countP]
  conv => rhs; rw [← List.map_fst_zip (l₁ := preds) (l₂ := labs) (by omega)]
  rw [List.countP_map]; rfl

theorem countP_split {α : Type} (p q : α → Bool) (l : List α) :
    l.countP p = l.countP (fun a => p a && q a) + l.countP (fun a => p a && !q a) := by
  induction l with
  | nil => rfl
  | cons a l ih =>
    simp only [List.countP_cons, ih]
    cases p a <;> cases q a <;> simp <;> omega

theorem predicted_eq (ps : Pairs) (c : Nat) : predicted ps c = tp ps c + fp ps c := by
  unfold predicted tp fp
  exact countP_split (fun p => p.1 == c) (fun p => p.2 == c) ps

theorem support_eq (ps : Pairs) (c : Nat) : support ps c = tp ps c + fn ps c := by
  unfold support tp fn
  rw [countP_split (fun p : Nat × Nat => p.2 == c) (fun p => p.1 == c) ps]
  congr 1 <;> apply List.countP_congr <;> intro p _ <;> simp [and_comm]

theorem correct_add_wrong (ps : Pairs) :
    correct ps + ps.countP (fun p => p.1 != p.2) = ps.length := by
  unfold correct
  induction ps with
  | nil => rfl
  | cons a l ih =>
    simp only [List.countP_cons, List.length_cons]
    by_cases h : a.1 = a.2 <;> simp [h] <;> omega

end TE.CountL
