/-
  TE.Lemmas.ClassSM — the generic refinement: every reachable state of a class
  that simulates an accumulator `A` abstracts to the accumulated statistics of
  the batches alive in its history (any merge tree, any number of shards, empty
  shards, fresh targets, resets).
-/
import TE.Model.ClassSM
namespace TE

variable {B S O A : Type}

structure Laws (M : Acc A) : Prop where
  assoc    : ∀ a b c, M.add (M.add a b) c = M.add a (M.add b c)
  add_zero : ∀ a, M.add a M.zero = a
  zero_add : ∀ a, M.add M.zero a = a

structure CommLaws (M : Acc A) : Prop extends Laws M where
  comm : ∀ a b, M.add a b = M.add b a

/-- accumulated statistic of a list of batches. -/
def accL (M : Acc A) (stat : B → A) (bs : List B) : A :=
  bs.foldl (fun a b => M.add a (stat b)) M.zero

theorem foldl_stat_eq (M : Acc A) (L : Laws M) (stat : B → A) (x : A) (bs : List B) :
    bs.foldl (fun a b => M.add a (stat b)) x = M.add x (accL M stat bs) := by
  unfold accL
  induction bs generalizing x with
  | nil => simp [L.add_zero]
  | cons b bs ih =>
    simp only [List.foldl_cons]
    rw [ih (M.add x (stat b)), ih (M.add M.zero (stat b)), L.zero_add, L.assoc]

theorem accL_nil (M : Acc A) (stat : B → A) : accL M stat [] = M.zero := rfl

theorem accL_append (M : Acc A) (L : Laws M) (stat : B → A) (l₁ l₂ : List B) :
    accL M stat (l₁ ++ l₂) = M.add (accL M stat l₁) (accL M stat l₂) := by
  unfold accL
  rw [List.foldl_append, foldl_stat_eq M L]
  rfl

theorem accL_singleton (M : Acc A) (L : Laws M) (stat : B → A) (b : B) :
    accL M stat [b] = stat b := by
  simp [accL, L.zero_add]

theorem accL_perm (M : Acc A) (L : CommLaws M) (stat : B → A) {l₁ l₂ : List B}
    (h : l₁.Perm l₂) : accL M stat l₁ = accL M stat l₂ := by
  induction h with
  | nil => rfl
  | cons x _ ih =>
    rw [← List.singleton_append, accL_append M L.toLaws, ih, ← accL_append M L.toLaws]
    rfl
  | swap x y l =>
    have e1 : y :: x :: l = [y] ++ ([x] ++ l) := rfl
    have e2 : x :: y :: l = [x] ++ ([y] ++ l) := rfl
    rw [e1, e2]
    simp only [accL_append M L.toLaws]
    rw [← L.assoc, ← L.assoc, L.comm (accL M stat [y])]
  | trans _ _ ih₁ ih₂ => exact ih₁.trans ih₂

/-- the simulation record of DESIGN §3.  `Inv` is the representation invariant
    of concrete states (e.g. "per-class vectors have length `C`"). -/
structure Sim (m : Impl B S O) (M : Acc A) (stat : B → A) (abs : S → A)
    (outA : A → Except Err O) (Inv : S → Prop) : Prop where
  init : Inv m.init ∧ abs m.init = M.zero
  upd  : ∀ s b s', Inv s → m.upd s b = .ok s' → Inv s' ∧ abs s' = M.add (abs s) (stat b)
  mrg  : ∀ s ss s', Inv s → (∀ t ∈ ss, Inv t) → m.mrg s ss = .ok s' →
           Inv s' ∧ abs s' = (ss.map abs).foldl M.add (abs s)
  out  : ∀ s, Inv s → m.out s = outA (abs s)

section refine
variable {m : Impl B S O} {M : Acc A} {stat : B → A} {abs : S → A}
  {outA : A → Except Err O} {Inv : S → Prop}

private theorem bind_ok {α β : Type} {x : Except Err α} {f : α → Except Err β} {b : β}
    (h : (x >>= f) = .ok b) : ∃ a, x = .ok a ∧ f a = .ok b := by
  cases x with
  | error e => simp [bind, Except.bind] at h
  | ok a => exact ⟨a, rfl, by simpa [bind, Except.bind] using h⟩

mutual
/-- **every reachable state** abstracts to the accumulated statistics of the
    batches alive in its history. -/
theorem refines (sim : Sim m M stat abs outA Inv) (L : Laws M) :
    ∀ (h : Hist B) (s : S), eval m h = .ok s → Inv s ∧ abs s = accL M stat (flatten h)
  | .fresh, s, he => by
    simp only [eval, Except.ok.injEq] at he
    subst he
    exact ⟨sim.init.1, by simpa [flatten, accL_nil] using sim.init.2⟩
  | .update h b, s, he => by
    simp only [eval] at he
    obtain ⟨s₀, h₀, h₁⟩ := bind_ok he
    obtain ⟨i₀, a₀⟩ := refines sim L h s₀ h₀
    obtain ⟨i₁, a₁⟩ := sim.upd s₀ b s i₀ h₁
    refine ⟨i₁, ?_⟩
    rw [a₁, a₀, flatten, accL_append M L, accL_singleton M L]
  | .merge h hs, s, he => by
    simp only [eval] at he
    obtain ⟨s₀, h₀, h₁⟩ := bind_ok he
    obtain ⟨ss, h₂, h₃⟩ := bind_ok h₁
    obtain ⟨i₀, a₀⟩ := refines sim L h s₀ h₀
    obtain ⟨iss, ass⟩ := refinesList sim L hs ss h₂ (abs s₀)
    obtain ⟨i₁, a₁⟩ := sim.mrg s₀ ss s i₀ iss h₃
    refine ⟨i₁, ?_⟩
    rw [a₁, ass, a₀, flatten, accL_append M L]
  | .reset h, s, he => by
    simp only [eval] at he
    obtain ⟨s₀, _, h₁⟩ := bind_ok he
    simp only [Except.ok.injEq] at h₁
    subst h₁
    exact ⟨sim.init.1, by simpa [flatten, accL_nil] using sim.init.2⟩
theorem refinesList (sim : Sim m M stat abs outA Inv) (L : Laws M) :
    ∀ (hs : List (Hist B)) (ss : List S), evalList m hs = .ok ss → ∀ x : A,
      (∀ t ∈ ss, Inv t) ∧ (ss.map abs).foldl M.add x = M.add x (accL M stat (flattenList hs))
  | [], ss, he, x => by
    simp only [evalList, Except.ok.injEq] at he
    subst he
    simp [flattenList, accL_nil, L.add_zero]
  | h :: hs, ss, he, x => by
    simp only [evalList] at he
    obtain ⟨s₀, h₀, h₁⟩ := bind_ok he
    obtain ⟨ss', h₂, h₃⟩ := bind_ok h₁
    simp only [Except.ok.injEq] at h₃
    subst h₃
    obtain ⟨i₀, a₀⟩ := refines sim L h s₀ h₀
    obtain ⟨iss, ass⟩ := refinesList sim L hs ss' h₂ (M.add x (abs s₀))
    refine ⟨?_, ?_⟩
    · intro t ht
      rcases List.mem_cons.mp ht with rfl | ht
      · exact i₀
      · exact iss t ht
    · simp only [List.map_cons, List.foldl_cons]
      rw [ass, a₀, flattenList, accL_append M L, L.assoc]
end

theorem flatten_single (bs : List B) : flatten (single bs) = bs := by
  unfold single
  suffices ∀ (h : Hist B), flatten (bs.foldl Hist.update h) = flatten h ++ bs by
    simpa [flatten] using this Hist.fresh
  induction bs with
  | nil => intro h; simp
  | cons b bs ih => intro h; simp [ih, flatten]

/-- C01 (commutative accumulators): any merge tree over any partition of a
    stream, in any order, computes what a single instance fed the whole stream
    (in any order) computes. -/
theorem merge_tree_eq_single (sim : Sim m M stat abs outA Inv) (L : CommLaws M)
    (h : Hist B) (bs : List B) (s s' : S)
    (he : eval m h = .ok s) (hs : eval m (single bs) = .ok s')
    (hp : bs.Perm (flatten h)) : m.out s = m.out s' := by
  obtain ⟨i, a⟩ := refines sim L.toLaws h s he
  obtain ⟨i', a'⟩ := refines sim L.toLaws (single bs) s' hs
  rw [sim.out s i, sim.out s' i', a, a', flatten_single, accL_perm M L stat hp]

/-- C01 (order-carrying accumulators, no commutativity): the merge tree equals
    a single instance fed the batches *in merge order*. -/
theorem merge_tree_eq_single_ordered (sim : Sim m M stat abs outA Inv) (L : Laws M)
    (h : Hist B) (s s' : S)
    (he : eval m h = .ok s) (hs : eval m (single (flatten h)) = .ok s') :
    m.out s = m.out s' := by
  obtain ⟨i, a⟩ := refines sim L h s he
  obtain ⟨i', a'⟩ := refines sim L (single (flatten h)) s' hs
  rw [sim.out s i, sim.out s' i', a, a', flatten_single]

/-- C10 (registered part): whatever happened before a `reset`, every
    continuation behaves as from a fresh instance. -/
theorem reset_forgets (h : Hist B) (s : S) (he : eval m (.reset h) = .ok s) : s = m.init := by
  simp only [eval] at he
  obtain ⟨_, _, h₁⟩ := bind_ok he
  simpa using h₁.symm

end refine

/-! ### the `additive` combinator satisfies `Sim` once and for all -/

theorem additive_sim (M : Acc A) (stat : B → Except Err A) (outA : A → Except Err O) :
    Sim (additive M stat outA) M (statT M stat) id outA (fun _ => True) where
  init := ⟨trivial, rfl⟩
  upd := by
    intro s b s' _ h
    simp only [additive] at h
    cases hc : stat b with
    | error e => simp [hc, bind, Except.bind] at h
    | ok a =>
      simp only [hc, bind, Except.bind, Except.ok.injEq] at h
      exact ⟨trivial, by simp [statT, hc, h.symm]⟩
  mrg := by
    intro s ss s' _ _ h
    simp only [additive, Except.ok.injEq] at h
    exact ⟨trivial, by simpa using h.symm⟩
  out := by intro s _; rfl

/-- for an additive class a single instance fed the live batches of any
    history that ran without error also runs without error. -/
theorem additive_upd_ok_iff (M : Acc A) (stat : B → Except Err A) (outA : A → Except Err O)
    (s : A) (b : B) : (∃ s', (additive M stat outA).upd s b = .ok s') ↔ ∃ a, stat b = .ok a := by
  simp only [additive]
  cases stat b with
  | error e => simp [bind, Except.bind]
  | ok a => simp [bind, Except.bind]

end TE
