/-
  TE.Lemmas.RankHit — batch-level plumbing of hit rate / reciprocal rank:
  the model's `mapM` over gathers against the specification's optional ranks.
-/
import TE.Lemmas.RankSort
namespace TE.RankL
open TE TE.Rank

theorem mapM_toOption {α β : Type} (f : α → Except Err β) (l : List α) :
    (l.mapM f).toOption = l.mapM (fun x => (f x).toOption) := by
  induction l with
  | nil => rfl
  | cons a l ih =>
    simp only [List.mapM_cons]
    rw [← ih]
    cases f a with
    | error e => rfl
    | ok b =>
      cases l.mapM f with
      | error e => rfl
      | ok bs => rfl

theorem option_mapM_map {α β γ : Type} (f : α → Option β) (g : β → γ) (l : List α) :
    l.mapM (fun x => (f x).map g) = (l.mapM f).map (List.map g) := by
  induction l with
  | nil => rfl
  | cons a l ih =>
    simp only [List.mapM_cons, ih]
    cases f a with
    | none => rfl
    | some b =>
      cases l.mapM f with
      | none => rfl
      | some bs => rfl

/-- one sample: gather + count = the specification's rank (or both undefined). -/
theorem rank_sample (row : List Q) (t : Int) :
    (do let y ← gather1 row t; pure (rankRow row y) : Except Err Nat).toOption
      = Spec.Rank.rankOfI row t := by
  unfold gather1 Spec.Rank.rankOfI Spec.Rank.rankOf
  by_cases ht : t < 0
  · simp [ht, Except.toOption, bind, Except.bind]
  · simp only [ht, if_false]
    cases h : row[t.toNat]? with
    | none => simp [Except.toOption, bind, Except.bind]
    | some y =>
      have hy : y ∈ row := List.mem_of_getElem? h
      simp [Except.toOption, bind, Except.bind, pure, Except.pure, rankRow_eq_position row y hy]

theorem ranks_toOption (rows : List (List Q)) (target : List Int) :
    (ranks rows target).toOption = (rows.zip target).mapM fun p => Spec.Rank.rankOfI p.1 p.2 := by
  unfold ranks
  rw [mapM_toOption]
  congr 1
  funext p
  exact rank_sample p.1 p.2

theorem toOption_bind_pure {α β : Type} (x : Except Err α) (g : α → β) :
    (do let a ← x; pure (g a) : Except Err β).toOption = x.toOption.map g := by
  cases x <;> rfl

/-- a valid target has a rank, and it is smaller than the number of candidates. -/
theorem rankOfI_lt (row : List Q) (t : Int) (h0 : 0 ≤ t) (hC : t.toNat < row.length) :
    ∃ r, Spec.Rank.rankOfI row t = some r ∧ r < row.length := by
  unfold Spec.Rank.rankOfI Spec.Rank.rankOf
  have ht : ¬ t < 0 := by omega
  have hy : row[t.toNat]? = some row[t.toNat] := List.getElem?_eq_getElem hC
  refine ⟨Spec.Rank.position row[t.toNat] (Spec.Rank.sortedDesc row),
    by simp only [ht, if_false, hy, Option.map_some], ?_⟩
  have hm : row[t.toNat] ∈ row := List.getElem_mem hC
  rw [← rankRow_eq_position row _ hm]
  unfold rankRow
  have h1 := List.length_eq_countP_add_countP (fun x => decide (row[t.toNat] < x)) (l := row)
  have h2 : 0 < row.countP (fun a => decide ¬(decide (row[t.toNat] < a) = true)) := by
    rw [List.countP_pos_iff]
    exact ⟨_, hm, by simp [Rat.lt_irrefl]⟩
  omega

end TE.RankL
