/-
  TE.Lemmas.FamCacheCurve — per-class facts for the typed cache-all classes of the curve
  metrics (TE/Model/FamsCache.lean):

    * `outPerm_*`   `compute()` of the cached samples is invariant under permutations of the
                    samples — by composing with the C05 theorems (`aurocCore_eq` / `ptNum_perm`,
                    `prCurveSorted_eq` / `C05.prCurveSpec_perm`): the sort inside the functional
                    makes the arrival order irrelevant, ties included;
    * `*_fn_eq`     the typed functional `stat >=> out` on a batch is the model functional of
                    TE/Model/Curve.lean on the batch's tensors (what the `fn` adapters call).
-/
import TE.Lemmas.FamCache
import TE.Props.C05
namespace TE.FamCache
open TE TE.Fams TE.FamStat TE.Curve TE.CurveL TE.Spec.Curve

/-! ### list plumbing -/

theorem zip_map_map {α β γ : Type} (l : List α) (f : α → β) (g : α → γ) :
    (l.map f).zip (l.map g) = l.map fun a => (f a, g a) := by
  induction l with
  | nil => rfl
  | cons a l ih => simp [ih]

theorem perm_nil_iff {α : Type} {l l' : List α} (h : l.Perm l') : l = [] ↔ l' = [] :=
  ⟨fun e => by subst e; exact h.symm.eq_nil, fun e => by subst e; exact h.eq_nil⟩

/-- `mapM` over the index-paired columns of `colsOf`. -/
theorem mapM_zipIdx_colsOf {β : Type} (rows : Mat) (c : Nat) (g : List Q × Nat → Except Err β) :
    (colsOf rows c).zipIdx.mapM g
      = (List.range c).zipIdx.mapM fun p => g (rows.map (·.getD p.1 0), p.2) := by
  unfold colsOf
  rw [List.zipIdx_map, List.mapM_map]
  rfl

/-! ### AUROC -/

/-- the trapezoid-over-sorted-samples pipeline does not depend on the arrival order (samples whose
    positive and negative mass are not both non-zero: 0/1 labels). -/
theorem aurocCore_perm {l l' : List Pt} (h : l.Perm l') (hab : ∀ x ∈ l, x.a * x.b = 0) :
    aurocCore l = aurocCore l' := by
  by_cases hne : l = []
  · have := (perm_nil_iff h).mp hne
    rw [hne, this]
  · have hne' : l' ≠ [] := fun e => hne ((perm_nil_iff h).mpr e)
    rw [aurocCore_eq l hne hab, aurocCore_eq l' hne' (fun x hx => hab x (h.mem_iff.mpr hx)),
      sum_map_perm h, sum_map_perm h, ptNum_perm h]

def aurocPt (k : Nat) (r : TaskSample) : Pt :=
  ⟨r.1.getD k 0, r.2.2.getD k 0 * r.2.1.getD k 0, r.2.2.getD k 0 * (1 - r.2.1.getD k 0)⟩

theorem binPts_taskRow (k : Nat) (l : List TaskSample) :
    binPts (taskRow k l).1 (taskRow k l).2.1 (taskRow k l).2.2 = l.map (aurocPt k) := by
  simp only [binPts, taskRow, zip_map_map, List.map_map]
  rfl

/-- every cached target of the first `nt` tasks is a 0/1 label. -/
def BinaryLabels (nt : Nat) (l : List TaskSample) : Prop :=
  ∀ r ∈ l, ∀ k, k < nt → r.2.1.getD k 0 = 0 ∨ r.2.1.getD k 0 = 1

theorem outPerm_binaryAuroc (nt : Nat) : OutPerm (binaryAurocC nt).out (BinaryLabels nt) := by
  intro l l' hp hP
  show binaryAurocTasks (taskRows nt l) = binaryAurocTasks (taskRows nt l')
  unfold binaryAurocTasks taskRows
  rw [List.mapM_map, List.mapM_map]
  apply mapM_congr
  intro k hk
  have hk' : k < nt := List.mem_range.mp hk
  show binaryAuroc _ _ _ = binaryAuroc _ _ _
  unfold binaryAuroc
  rw [binPts_taskRow, binPts_taskRow]
  apply aurocCore_perm (hp.map _)
  intro x hx
  obtain ⟨r, hr, rfl⟩ := List.mem_map.mp hx
  rcases hP r hr k hk' with e | e <;> simp [aurocPt] <;> grind

def ovrPt (c j : Nat) (r : List Q × Q) : Pt :=
  ⟨r.1.getD j 0, b2q (r.2 == (c : Q)), b2q (!(r.2 == (c : Q)))⟩

theorem ovrPts_samples (c j : Nat) (l : List (List Q × Q)) :
    ovrPts c ((l.map (·.1)).map (·.getD j 0)) (l.map (·.2)) = l.map (ovrPt c j) := by
  simp only [ovrPts, List.map_map, zip_map_map]
  rfl

theorem outPerm_multiclassAuroc (nc : Nat) (avg : Avg) :
    OutPerm (multiclassAurocC nc avg).out (fun _ => True) := by
  intro l l' hp _
  show multiclassAuroc _ _ avg = multiclassAuroc _ _ avg
  unfold multiclassAuroc
  rw [mapM_zipIdx_colsOf, mapM_zipIdx_colsOf]
  congr 1
  apply mapM_congr
  intro p _
  simp only [ovrPts_samples]
  apply aurocCore_perm (hp.map _)
  intro x hx
  obtain ⟨r, _, rfl⟩ := List.mem_map.mp hx
  by_cases h : (r.2 == (p.2 : Q)) = true <;> simp [ovrPt, b2q, h] <;> grind

/-! ### precision-recall curves -/

/-- `_compute_for_each_class` after the sort does not depend on the arrival order. -/
theorem prCurveSorted_perm {ls ls' : List LS} (h : ls.Perm ls') :
    prCurveSorted (sortDesc (ls.map lsPt)) = prCurveSorted (sortDesc (ls'.map lsPt)) := by
  by_cases hne : ls = []
  · have := (perm_nil_iff h).mp hne
    rw [hne, this]
  · have hne' : ls' ≠ [] := fun e => hne ((perm_nil_iff h).mpr e)
    rw [prCurveSorted_eq ls _ (sortDesc_perm _) (sortDesc_desc _) hne,
      prCurveSorted_eq ls' _ (sortDesc_perm _) (sortDesc_desc _) hne', C05.prCurveSpec_perm h]

/-- the `(score, target)` pairs of task / label column `j`. -/
def pairsAt (j : Nat) (l : List (List Q × List Q)) : List (Q × Q) :=
  l.map fun r => (r.1.getD j 0, r.2.getD j 0)

theorem taskPairRow_eq (j : Nat) (l : List TaskPair) :
    taskPairRow j l = ((pairsAt j l).map (·.1), (pairsAt j l).map (·.2)) := by
  simp [taskPairRow, pairsAt, List.map_map, Function.comp_def]

/-- the label columns of cached `(score row, target row)` samples are the task rows of the same
    samples read as `(num_labels, n)` tensors. -/
theorem labelCols_eq (nl : Nat) (l : List (List Q × List Q)) : labelCols nl l = taskPairRows nl l := by
  simp only [labelCols, colsOf, taskPairRows, taskPairRow, zip_map_map, List.map_map]
  rfl

theorem posLS_pairs (l : List (Q × Q)) :
    posLS (l.map (·.1)) (l.map (·.2)) = l.map fun p => (p.1, p.2 == 1) := by
  simp only [posLS, zip_map_map, List.map_map]
  rfl

theorem binaryPrCurve_perm {l l' : List (Q × Q)} (h : l.Perm l') :
    binaryPrCurve (l.map (·.1)) (l.map (·.2)) = binaryPrCurve (l'.map (·.1)) (l'.map (·.2)) := by
  unfold binaryPrCurve
  rw [posPts_eq, posPts_eq, posLS_pairs, posLS_pairs]
  exact prCurveSorted_perm (h.map _)

theorem outPerm_binaryPrCurve : OutPerm binaryPrCurveC.out (fun _ => True) :=
  fun _ _ hp _ => binaryPrCurve_perm hp

theorem outPerm_binaryRecallAtPrecision (p : Q) :
    OutPerm (binaryRecallAtPrecisionC p).out (fun _ => True) := by
  intro l l' hp _
  show binaryRecallAtPrecision _ _ p = binaryRecallAtPrecision _ _ p
  unfold binaryRecallAtPrecision
  rw [binaryPrCurve_perm hp]

theorem binaryAuprc_perm {l l' : List (Q × Q)} (h : l.Perm l') :
    binaryAuprc (l.map (·.1)) (l.map (·.2)) = binaryAuprc (l'.map (·.1)) (l'.map (·.2)) := by
  unfold binaryAuprc
  rw [binaryPrCurve_perm h]

/-- the per-column curves of `taskPairRows` (multi-task binary and multilabel forms). -/
theorem taskPairRows_mapM_perm {β : Type} (n : Nat) {l l' : List (List Q × List Q)} (h : l.Perm l')
    (g : List Q → List Q → Except Err β)
    (hg : ∀ m m' : List (Q × Q), m.Perm m' → g (m.map (·.1)) (m.map (·.2)) = g (m'.map (·.1)) (m'.map (·.2))) :
    (taskPairRows n l).mapM (fun c => g c.1 c.2) = (taskPairRows n l').mapM (fun c => g c.1 c.2) := by
  unfold taskPairRows
  rw [List.mapM_map, List.mapM_map]
  apply mapM_congr
  intro j _
  simp only [taskPairRow_eq]
  exact hg _ _ (h.map _)

theorem outPerm_binaryAuprc (nt : Nat) : OutPerm (binaryAuprcC nt).out (fun _ => True) := by
  intro l l' hp _
  exact taskPairRows_mapM_perm nt hp binaryAuprc (fun _ _ h => binaryAuprc_perm h)

theorem multilabelPrCurve_perm (nl : Nat) {l l' : List (List Q × List Q)} (h : l.Perm l') :
    multilabelPrCurve (labelCols nl l) = multilabelPrCurve (labelCols nl l') := by
  rw [labelCols_eq, labelCols_eq]
  exact taskPairRows_mapM_perm nl h binaryPrCurve (fun _ _ h => binaryPrCurve_perm h)

theorem outPerm_multilabelPrCurve (nl : Nat) : OutPerm (multilabelPrCurveC nl).out (fun _ => True) :=
  fun _ _ hp _ => multilabelPrCurve_perm nl hp

theorem outPerm_multilabelAuprc (nl : Nat) (avg : Avg) :
    OutPerm (multilabelAuprcC nl avg).out (fun _ => True) := by
  intro l l' hp _
  show multilabelAuprc _ avg = multilabelAuprc _ avg
  unfold multilabelAuprc
  rw [multilabelPrCurve_perm nl hp]

theorem outPerm_multilabelRecallAtPrecision (p : Q) (nl : Nat) :
    OutPerm (multilabelRecallAtPrecisionC p nl).out (fun _ => True) := by
  intro l l' hp _
  show multilabelRecallAtPrecision _ p = multilabelRecallAtPrecision _ p
  unfold multilabelRecallAtPrecision
  rw [multilabelPrCurve_perm nl hp]

def ovrL (c j : Nat) (r : List Q × Q) : LS := (r.1.getD j 0, r.2 == (c : Q))

theorem ovrLS_samples (c j : Nat) (l : List (List Q × Q)) :
    ovrLS c ((l.map (·.1)).map (·.getD j 0)) (l.map (·.2)) = l.map (ovrL c j) := by
  simp only [ovrLS, List.map_map, zip_map_map]
  rfl

theorem multiclassPrCurve_perm (nc : Nat) {l l' : List (List Q × Q)} (h : l.Perm l') :
    multiclassPrCurve (colsOf (l.map (·.1)) nc) (l.map (·.2))
      = multiclassPrCurve (colsOf (l'.map (·.1)) nc) (l'.map (·.2)) := by
  unfold multiclassPrCurve
  rw [mapM_zipIdx_colsOf, mapM_zipIdx_colsOf]
  apply mapM_congr
  intro p _
  simp only [mcPrCurveSorted_eq, ovrPts_eq_lsPt, ovrLS_samples]
  exact prCurveSorted_perm (h.map _)

theorem outPerm_multiclassAuprc (nc : Nat) (avg : Avg) :
    OutPerm (multiclassAuprcC nc avg).out (fun _ => True) := by
  intro l l' hp _
  show multiclassAuprc _ _ avg = multiclassAuprc _ _ avg
  unfold multiclassAuprc
  rw [multiclassPrCurve_perm nc hp]

/-- all cached logit rows have the same width (needed only for `num_classes=None`, where the class
    count is read off the first cached row). -/
def UniformWidth (l : List (List Q × Q)) : Prop := ∀ r ∈ l, ∀ r' ∈ l, r.1.length = r'.1.length

theorem widthOr_perm (nc0 : Option Nat) {l l' : List (List Q × Q)} (h : l.Perm l') (hu : UniformWidth l) :
    widthOr nc0 l = widthOr nc0 l' := by
  unfold widthOr
  cases l with
  | nil => rw [h.symm.eq_nil]
  | cons r l =>
    cases l' with
    | nil => exact absurd h.eq_nil (by simp)
    | cons r' l' =>
      have : r'.1.length = r.1.length :=
        hu r' (h.mem_iff.mpr (List.mem_cons_self ..)) r (List.mem_cons_self ..)
      simp [this]

theorem uniformB_iff (l : List (List Q × Q)) : uniformB l = true ↔ UniformWidth l := by
  unfold UniformWidth
  cases l with
  | nil => simp [uniformB]
  | cons r t =>
    simp only [uniformB, List.all_eq_true, beq_iff_eq]
    constructor
    · intro h a ha b hb
      have ea : a.1.length = r.1.length := by
        rcases List.mem_cons.mp ha with rfl | ha
        · rfl
        · exact h a ha
      have eb : b.1.length = r.1.length := by
        rcases List.mem_cons.mp hb with rfl | hb
        · rfl
        · exact h b hb
      rw [ea, eb]
    · intro h a ha
      exact h a (List.mem_cons_of_mem _ ha) r (List.mem_cons_self ..)

theorem uniformB_perm {l l' : List (List Q × Q)} (h : l.Perm l') : uniformB l = uniformB l' := by
  have key : ∀ {m m' : List (List Q × Q)}, m.Perm m' → uniformB m = true → uniformB m' = true := by
    intro m m' hp hu
    rw [uniformB_iff] at hu ⊢
    intro a ha b hb
    exact hu a (hp.mem_iff.mpr ha) b (hp.mem_iff.mpr hb)
  cases hu : uniformB l with
  | true => exact (key h hu).symm
  | false =>
    cases hu' : uniformB l' with
    | false => rfl
    | true => rw [key h.symm hu'] at hu; cases hu

/-- MulticlassPrecisionRecallCurve: with `num_classes=None` and cached rows of different widths both sides
    raise; otherwise the curves do not depend on the order. -/
theorem outPerm_multiclassPrCurve (nc0 : Option Nat) :
    OutPerm (multiclassPrCurveC nc0).out (fun _ => True) := by
  intro l l' hp _
  show (if nc0.isNone && !uniformB l then _ else multiclassPrCurve _ _)
    = (if nc0.isNone && !uniformB l' then _ else multiclassPrCurve _ _)
  rw [← uniformB_perm hp]
  cases nc0 with
  | some nc => simpa [widthOr] using multiclassPrCurve_perm nc hp
  | none =>
    cases hu : uniformB l with
    | false => simp
    | true =>
      simp only [Option.isNone_none, Bool.not_true, Bool.and_false, Bool.false_eq_true, if_false]
      rw [widthOr_perm none hp ((uniformB_iff l).mp hu)]
      exact multiclassPrCurve_perm _ hp

/-! ### the typed functional on a batch = the model functional on the batch's tensors -/

theorem map_fst_zip' {α β : Type} (a : List α) (b : List β) (h : a.length = b.length) :
    (a.zip b).map (·.1) = a := List.map_fst_zip (by omega)

theorem map_snd_zip' {α β : Type} (a : List α) (b : List β) (h : a.length = b.length) :
    (a.zip b).map (·.2) = b := List.map_snd_zip (by omega)

theorem binaryPrCurveC_fn_eq (b : List Q × List Q) (h : b.1.length = b.2.length) :
    binaryPrCurveC.fn b = binaryPrCurve b.1 b.2 := by
  simp [CFam.fn, binaryPrCurveC, pairSamples_ok b h, bind, Except.bind, map_fst_zip' _ _ h, map_snd_zip' _ _ h]

theorem binaryRecallAtPrecisionC_fn_eq (p : Q) (b : List Q × List Q) (h : b.1.length = b.2.length) :
    (binaryRecallAtPrecisionC p).fn b = binaryRecallAtPrecision b.1 b.2 p := by
  simp [CFam.fn, binaryRecallAtPrecisionC, pairSamples_ok b h, bind, Except.bind, map_fst_zip' _ _ h,
    map_snd_zip' _ _ h]

theorem rowSamples_ok {β : Type} (b : Mat × List β) (h : b.1.length = b.2.length) :
    rowSamples b = .ok (b.1.zip b.2) := pairSamples_ok b h

theorem multiclassAurocC_fn_eq (nc : Nat) (avg : Avg) (b : Mat × List Q) (h : b.1.length = b.2.length) :
    (multiclassAurocC nc avg).fn b = multiclassAuroc (colsOf b.1 nc) b.2 avg := by
  simp [CFam.fn, multiclassAurocC, rowSamples_ok b h, bind, Except.bind, map_fst_zip' _ _ h, map_snd_zip' _ _ h]

theorem multiclassAuprcC_fn_eq (nc : Nat) (avg : Avg) (b : Mat × List Q) (h : b.1.length = b.2.length) :
    (multiclassAuprcC nc avg).fn b = multiclassAuprc (colsOf b.1 nc) b.2 avg := by
  simp [CFam.fn, multiclassAuprcC, rowSamples_ok b h, bind, Except.bind, map_fst_zip' _ _ h, map_snd_zip' _ _ h]

theorem multilabelAuprcC_fn_eq (nl : Nat) (avg : Avg) (b : Mat × Mat) (h : b.1.length = b.2.length) :
    (multilabelAuprcC nl avg).fn b = multilabelAuprc ((colsOf b.1 nl).zip (colsOf b.2 nl)) avg := by
  simp [CFam.fn, multilabelAuprcC, labelCols, rowSamples_ok b h, bind, Except.bind, map_fst_zip' _ _ h,
    map_snd_zip' _ _ h]

theorem multilabelPrCurveC_fn_eq (nl : Nat) (b : Mat × Mat) (h : b.1.length = b.2.length) :
    (multilabelPrCurveC nl).fn b = multilabelPrCurve ((colsOf b.1 nl).zip (colsOf b.2 nl)) := by
  simp [CFam.fn, multilabelPrCurveC, labelCols, rowSamples_ok b h, bind, Except.bind, map_fst_zip' _ _ h,
    map_snd_zip' _ _ h]

theorem multilabelRecallAtPrecisionC_fn_eq (p : Q) (nl : Nat) (b : Mat × Mat) (h : b.1.length = b.2.length) :
    (multilabelRecallAtPrecisionC p nl).fn b
      = multilabelRecallAtPrecision ((colsOf b.1 nl).zip (colsOf b.2 nl)) p := by
  simp [CFam.fn, multilabelRecallAtPrecisionC, labelCols, rowSamples_ok b h, bind, Except.bind,
    map_fst_zip' _ _ h, map_snd_zip' _ _ h]

theorem multiclassPrCurveC_fn_eq (nc : Nat) (b : Mat × List Q) (h : b.1.length = b.2.length) :
    (multiclassPrCurveC (some nc)).fn b = multiclassPrCurve (colsOf b.1 nc) b.2 := by
  simp [CFam.fn, multiclassPrCurveC, widthOr, rowSamples_ok b h, bind, Except.bind, map_fst_zip' _ _ h,
    map_snd_zip' _ _ h]

/-! ### `(num_tasks, n)` tensors: columns in, rows out -/

theorem getD_map_range {β : Type} (f : Nat → β) (n k : Nat) (d : β) (h : k < n) :
    ((List.range n).map f).getD k d = f k := by
  simp [List.getD, h]

/-- reading the columns of well-formed `(nt, n)` rows and transposing back gives the rows. -/
theorem taskRows_taskSamplesOf (nt n : Nat) (x t w : Mat)
    (hx : x.length = nt) (ht : t.length = nt) (hw : w.length = nt)
    (hxn : ∀ r ∈ x, r.length = n) (htn : ∀ r ∈ t, r.length = n) (hwn : ∀ r ∈ w, r.length = n) :
    taskRows nt (taskSamplesOf n x t w) = x.zip (t.zip w) := by
  have row : ∀ (m : Mat) (k : Nat) (hk : k < m.length), (∀ r ∈ m, r.length = n) →
      (List.range n).map (fun j => (m.map (·.getD j 0)).getD k 0) = m[k] := by
    intro m k hk hm
    have hlen : (m[k]).length = n := hm _ (List.getElem_mem hk)
    apply List.ext_getElem
    · simp [hlen]
    · intro j h1 h2
      simp only [List.getElem_map, List.getElem_range]
      rw [List.getD_eq_getElem?_getD, List.getElem?_map, List.getElem?_eq_getElem hk]
      simp only [Option.map_some, Option.getD_some]
      rw [List.getD_eq_getElem?_getD, List.getElem?_eq_getElem h2]
      rfl
  apply List.ext_getElem
  · simp [taskRows, hx, ht, hw]
  · intro k h1 h2
    have hk : k < nt := by simpa [taskRows] using h1
    simp only [taskRows, taskRow, taskSamplesOf, List.getElem_map, List.getElem_range, List.map_map,
      Function.comp_def, List.getElem_zip]
    rw [row x k (by omega) hxn, row t k (by omega) htn, row w k (by omega) hwn]

/-- **BinaryAUROC**: the typed functional on the columns of well-formed `(nt, n)` tensors is
    `binary_auroc` (`binaryAurocTasks`) on their rows. -/
theorem binaryAurocC_fn_eq (nt n : Nat) (x t w : Mat)
    (hx : x.length = nt) (ht : t.length = nt) (hw : w.length = nt)
    (hxn : ∀ r ∈ x, r.length = n) (htn : ∀ r ∈ t, r.length = n) (hwn : ∀ r ∈ w, r.length = n) :
    (binaryAurocC nt).fn (taskSamplesOf n x t w) = binaryAurocTasks (x.zip (t.zip w)) := by
  simp only [CFam.fn, binaryAurocC, catSamples, cacheStat, Except.map, bind, Except.bind, id]
  rw [taskRows_taskSamplesOf nt n x t w hx ht hw hxn htn hwn]

end TE.FamCache
