/-
  TE.Lemmas.Curve — helper lemmas for C05, part 1: sums, permutation invariance,
  tie-group collapsing (`collapse`) and its relation to the mask / cumsum /
  boolean-select pipeline of the models.
-/
import TE.Model.Curve
import TE.Spec.Curve
namespace TE.CurveL
open TE TE.Curve

/-! ### sums over lists of rationals -/

theorem sum_append (l₁ l₂ : List Q) : (l₁ ++ l₂).sum = l₁.sum + l₂.sum := List.sum_append

theorem sum_map_add {α : Type} (l : List α) (f g : α → Q) :
    (l.map fun x => f x + g x).sum = (l.map f).sum + (l.map g).sum := by
  induction l with
  | nil => simp only [List.map_nil, List.sum_nil]; grind
  | cons x l ih => simp only [List.map_cons, List.sum_cons, ih]; grind

theorem sum_map_mul_left {α : Type} (l : List α) (c : Q) (f : α → Q) :
    (l.map fun x => c * f x).sum = c * (l.map f).sum := by
  induction l with
  | nil => simp only [List.map_nil, List.sum_nil]; grind
  | cons x l ih => simp only [List.map_cons, List.sum_cons, ih]; grind

theorem sum_map_mul_right {α : Type} (l : List α) (c : Q) (f : α → Q) :
    (l.map fun x => f x * c).sum = (l.map f).sum * c := by
  induction l with
  | nil => simp only [List.map_nil, List.sum_nil]; grind
  | cons x l ih => simp only [List.map_cons, List.sum_cons, ih]; grind

theorem sum_map_zero {α : Type} (l : List α) : (l.map fun _ => (0 : Q)).sum = 0 := by
  induction l with
  | nil => simp
  | cons x l ih => simp only [List.map_cons, List.sum_cons, ih]; grind

theorem sum_perm {l₁ l₂ : List Q} (h : l₁.Perm l₂) : l₁.sum = l₂.sum := by
  induction h with
  | nil => rfl
  | cons x _ ih => simp only [List.sum_cons, ih]
  | swap x y l => simp only [List.sum_cons]; grind
  | trans _ _ ih₁ ih₂ => exact ih₁.trans ih₂

theorem sum_map_perm {α : Type} {l₁ l₂ : List α} (h : l₁.Perm l₂) (f : α → Q) :
    (l₁.map f).sum = (l₂.map f).sum := sum_perm (h.map f)

theorem sum_map_congr {α : Type} {l : List α} {f g : α → Q} (h : ∀ x ∈ l, f x = g x) :
    (l.map f).sum = (l.map g).sum := by rw [List.map_congr_left h]

/-- a filtered sum as a sum of guarded terms. -/
theorem sum_filter_map {α : Type} (l : List α) (p : α → Bool) (f : α → Q) :
    ((l.filter p).map f).sum = (l.map fun x => if p x then f x else 0).sum := by
  induction l with
  | nil => simp
  | cons x l ih =>
    cases hp : p x with
    | true => simp only [List.filter_cons, hp, if_true, List.map_cons, List.sum_cons, ih]
    | false =>
      simp only [List.filter_cons, hp, List.map_cons, List.sum_cons, Bool.false_eq_true, if_false]
      rw [ih]; grind

/-- number of elements satisfying `p`, as a sum of indicators. -/
theorem sum_b2q_eq_countP {α : Type} (l : List α) (p : α → Bool) :
    (l.map fun x => b2q (p x)).sum = (l.countP p : Q) := by
  induction l with
  | nil => simp
  | cons x l ih =>
    simp only [List.map_cons, List.sum_cons, ih, List.countP_cons, Rat.natCast_add]
    by_cases hp : p x = true <;> simp [hp, b2q] <;> grind

/-! ### weighted sums over samples -/

/-- `Σ_{x ∈ l} w(x)·φ(score x)` -/
def wsum (w : Pt → Q) (φ : Q → Q) (l : List Pt) : Q := (l.map fun x => w x * φ x.s).sum

theorem wsum_nil (w : Pt → Q) (φ : Q → Q) : wsum w φ [] = 0 := rfl

theorem wsum_cons (w : Pt → Q) (φ : Q → Q) (x : Pt) (l : List Pt) :
    wsum w φ (x :: l) = w x * φ x.s + wsum w φ l := by simp [wsum]

theorem wsum_congr {w : Pt → Q} {φ ψ : Q → Q} {l : List Pt} (h : ∀ x ∈ l, φ x.s = ψ x.s) :
    wsum w φ l = wsum w ψ l := by
  unfold wsum
  apply sum_map_congr
  intro x hx; rw [h x hx]

theorem wsum_perm {l₁ l₂ : List Pt} (h : l₁.Perm l₂) (w : Pt → Q) (φ : Q → Q) :
    wsum w φ l₁ = wsum w φ l₂ := sum_map_perm h _

theorem wsum_one (w : Pt → Q) (l : List Pt) : wsum w (fun _ => 1) l = (l.map w).sum := by
  unfold wsum
  apply sum_map_congr
  intro x _; grind

/-- the AUROC kernel on `Pt` samples: `Σᵢ aᵢ · Σⱼ bⱼ · ([sᵢ > sⱼ] + ½[sᵢ = sⱼ])`. -/
def ptNum (l : List Pt) : Q :=
  wsum Pt.a (fun s => wsum Pt.b (fun s' => TE.Spec.Curve.kernel s s') l) l

theorem ptNum_perm {l₁ l₂ : List Pt} (h : l₁.Perm l₂) : ptNum l₁ = ptNum l₂ := by
  unfold ptNum
  rw [wsum_perm h]
  apply wsum_congr
  intro x _
  exact wsum_perm h _ _

/-! ### collapsing tie groups -/

/-- put a sample in front of a list of groups: merged into the first group when
    the scores agree. -/
def glue (x : Pt) : List Pt → List Pt
  | [] => [x]
  | g :: gs => if x.s = g.s then ⟨x.s, x.a + g.a, x.b + g.b⟩ :: gs else x :: g :: gs

/-- adjacent samples of equal score merged into one (masses added). -/
def collapse : List Pt → List Pt
  | [] => []
  | x :: l => glue x (collapse l)

theorem collapse_cons (x : Pt) (l : List Pt) : collapse (x :: l) = glue x (collapse l) := rfl

/-- the first group carries the score of the new sample. -/
theorem glue_head (x : Pt) (gs : List Pt) : ∃ g' gs', glue x gs = g' :: gs' ∧ g'.s = x.s := by
  cases gs with
  | nil => exact ⟨x, [], rfl, rfl⟩
  | cons g gs =>
    by_cases h : x.s = g.s
    · exact ⟨⟨x.s, x.a + g.a, x.b + g.b⟩, gs, by simp only [glue]; rw [if_pos h], rfl⟩
    · exact ⟨x, g :: gs, by simp only [glue]; rw [if_neg h], rfl⟩

theorem collapse_head_s (x : Pt) (l : List Pt) :
    ∃ g gs, collapse (x :: l) = g :: gs ∧ g.s = x.s := glue_head x _

theorem glue_wsum_a (φ : Q → Q) (x : Pt) (gs : List Pt) :
    wsum Pt.a φ (glue x gs) = x.a * φ x.s + wsum Pt.a φ gs := by
  cases gs with
  | nil => simp [glue, wsum_cons]
  | cons g gs =>
    by_cases h : x.s = g.s
    · simp only [glue]; rw [if_pos h]; simp only [wsum_cons]; grind
    · simp only [glue]; rw [if_neg h]; simp only [wsum_cons]

theorem glue_wsum_b (φ : Q → Q) (x : Pt) (gs : List Pt) :
    wsum Pt.b φ (glue x gs) = x.b * φ x.s + wsum Pt.b φ gs := by
  cases gs with
  | nil => simp [glue, wsum_cons]
  | cons g gs =>
    by_cases h : x.s = g.s
    · simp only [glue]; rw [if_pos h]; simp only [wsum_cons]; grind
    · simp only [glue]; rw [if_neg h]; simp only [wsum_cons]

/-- collapsing preserves every weighted sum. -/
theorem collapse_wsum_a (φ : Q → Q) (l : List Pt) : wsum Pt.a φ (collapse l) = wsum Pt.a φ l := by
  induction l with
  | nil => rfl
  | cons x l ih => rw [collapse_cons, glue_wsum_a, ih, wsum_cons]

theorem collapse_wsum_b (φ : Q → Q) (l : List Pt) : wsum Pt.b φ (collapse l) = wsum Pt.b φ l := by
  induction l with
  | nil => rfl
  | cons x l ih => rw [collapse_cons, glue_wsum_b, ih, wsum_cons]

theorem collapse_ptNum (l : List Pt) : ptNum (collapse l) = ptNum l := by
  unfold ptNum
  rw [collapse_wsum_a]
  apply wsum_congr
  intro x _
  exact collapse_wsum_b _ l

theorem collapse_sum_a (l : List Pt) : ((collapse l).map Pt.a).sum = (l.map Pt.a).sum := by
  rw [← wsum_one, ← wsum_one, collapse_wsum_a]

theorem collapse_sum_b (l : List Pt) : ((collapse l).map Pt.b).sum = (l.map Pt.b).sum := by
  rw [← wsum_one, ← wsum_one, collapse_wsum_b]

theorem mem_glue_s (x : Pt) (gs : List Pt) (t : Q) :
    (∃ g ∈ glue x gs, g.s = t) ↔ (x.s = t ∨ ∃ g ∈ gs, g.s = t) := by
  cases gs with
  | nil => simp [glue]
  | cons g gs =>
    by_cases h : x.s = g.s
    · simp only [glue]; rw [if_pos h]; simp only [List.mem_cons, exists_eq_or_imp]; grind
    · simp only [glue]; rw [if_neg h]; simp only [List.mem_cons, exists_eq_or_imp]

/-- the scores of the groups are exactly the scores of the samples. -/
theorem mem_collapse_s (l : List Pt) (t : Q) :
    (∃ g ∈ collapse l, g.s = t) ↔ ∃ x ∈ l, x.s = t := by
  induction l with
  | nil => simp [collapse]
  | cons x l ih =>
    rw [collapse_cons, mem_glue_s, ih]
    simp only [List.mem_cons, exists_eq_or_imp]

/-- descending by score (ties allowed) -/
def Desc (l : List Pt) : Prop := l.Pairwise fun x y => y.s ≤ x.s
/-- strictly descending by score -/
def SDesc (l : List Pt) : Prop := l.Pairwise fun x y => y.s < x.s

theorem glue_sdesc (x : Pt) (gs : List Pt) (h : SDesc gs) (hx : ∀ g ∈ gs, g.s ≤ x.s) :
    SDesc (glue x gs) := by
  cases gs with
  | nil => exact List.pairwise_singleton _ _
  | cons g gs =>
    have hg : ∀ y ∈ gs, y.s < g.s := (List.pairwise_cons.mp h).1
    by_cases hs : x.s = g.s
    · simp only [glue]; rw [if_pos hs]
      refine List.pairwise_cons.mpr ⟨?_, (List.pairwise_cons.mp h).2⟩
      intro y hy
      show y.s < x.s
      rw [hs]; exact hg y hy
    · simp only [glue]; rw [if_neg hs]
      refine List.pairwise_cons.mpr ⟨?_, h⟩
      intro g' hg'
      have h3 := hx g (List.mem_cons_self ..)
      rcases List.mem_cons.mp hg' with rfl | hg''
      · grind
      · have h2 := hg g' hg''
        grind

/-- the groups of a descending list are strictly descending. -/
theorem collapse_sdesc (l : List Pt) (h : Desc l) : SDesc (collapse l) := by
  induction l with
  | nil => exact List.Pairwise.nil
  | cons x l ih =>
    have hx : ∀ y ∈ l, y.s ≤ x.s := (List.pairwise_cons.mp h).1
    rw [collapse_cons]
    apply glue_sdesc x _ (ih (List.pairwise_cons.mp h).2)
    intro g hg
    obtain ⟨y, hy, e⟩ := (mem_collapse_s l g.s).mp ⟨g, hg, rfl⟩
    rw [← e]; exact hx y hy

theorem glue_length_le (x : Pt) (gs : List Pt) : (glue x gs).length ≤ gs.length + 1 := by
  cases gs with
  | nil => simp [glue]
  | cons g gs => by_cases h : x.s = g.s <;> simp [glue, h]

theorem collapse_length_le (l : List Pt) : (collapse l).length ≤ l.length := by
  induction l with
  | nil => simp [collapse]
  | cons x l ih =>
    have := glue_length_le x (collapse l)
    rw [collapse_cons, List.length_cons]; omega

theorem glue_eq_cons_of_length (x : Pt) (gs : List Pt) (h : (glue x gs).length = gs.length + 1) :
    glue x gs = x :: gs := by
  cases gs with
  | nil => rfl
  | cons g gs =>
    by_cases hs : x.s = g.s
    · simp [glue, hs] at h
    · simp [glue, hs]

/-- no two samples were merged ⇒ nothing changed. -/
theorem collapse_eq_self_of_length (l : List Pt) (h : (collapse l).length = l.length) :
    collapse l = l := by
  induction l with
  | nil => rfl
  | cons x l ih =>
    have hle := collapse_length_le l
    have hg := glue_length_le x (collapse l)
    rw [collapse_cons, List.length_cons] at h
    have hl : (collapse l).length = l.length := by omega
    rw [collapse_cons, glue_eq_cons_of_length x _ (by omega), ih hl]

/-! ### the mask / cumsum / select pipeline computes the cumulative sums of the groups -/

theorem ne_mask (x y : Q) : (y - x != 0) = !(x == y) := by grind

theorem diffMask_length (l : List Q) : (diffMask l).length = l.length := by
  induction l with
  | nil => rfl
  | cons x l ih =>
    cases l with
    | nil => rfl
    | cons y r => simp only [diffMask, List.length_cons] at ih ⊢; omega

theorem cumsumFrom_length (acc : Q) (l : List Q) : (cumsumFrom acc l).length = l.length := by
  induction l generalizing acc with
  | nil => rfl
  | cons x l ih => simp [cumsumFrom, ih]

/-- generic form: for any additive "mass" `w` that `glue` adds up. -/
theorem select_cumsum (w : Pt → Q)
    (hw : ∀ x g : Pt, w ⟨x.s, x.a + g.a, x.b + g.b⟩ = w x + w g)
    (l : List Pt) (acc : Q) :
    select (diffMask (l.map (·.s))) (cumsumFrom acc (l.map w))
      = cumsumFrom acc ((collapse l).map w) := by
  induction l generalizing acc with
  | nil => rfl
  | cons x l ih =>
    cases l with
    | nil => simp [diffMask, cumsumFrom, select, collapse, glue]
    | cons y r =>
      obtain ⟨g, gs, hc, hgs⟩ := collapse_head_s y r
      have ih := ih (acc + w x)
      rw [collapse_cons x, hc]
      rw [hc] at ih
      simp only [List.map_cons, diffMask, cumsumFrom, select, ne_mask] at ih ⊢
      by_cases hs : x.s = y.s
      · have hxg : x.s = g.s := by rw [hs, hgs]
        simp only [hs, beq_self_eq_true, Bool.not_true, Bool.false_eq_true, if_false]
        rw [ih]
        simp only [glue]; rw [if_pos hxg]
        simp only [List.map_cons, cumsumFrom, hw]
        have : acc + w x + w g = acc + (w x + w g) := by grind
        rw [this]
      · have hxg : ¬ x.s = g.s := by rw [hgs]; exact hs
        have hb : (x.s == y.s) = false := by simp [hs]
        simp only [hb, Bool.not_false, if_true]
        rw [ih]
        simp only [glue]; rw [if_neg hxg]
        simp only [List.map_cons, cumsumFrom]

theorem select_cumsum_a (l : List Pt) (acc : Q) :
    select (diffMask (l.map (·.s))) (cumsumFrom acc (l.map (·.a)))
      = cumsumFrom acc ((collapse l).map (·.a)) :=
  select_cumsum (·.a) (fun _ _ => rfl) l acc

theorem select_cumsum_b (l : List Pt) (acc : Q) :
    select (diffMask (l.map (·.s))) (cumsumFrom acc (l.map (·.b)))
      = cumsumFrom acc ((collapse l).map (·.b)) :=
  select_cumsum (·.b) (fun _ _ => rfl) l acc

/-- `threshold[mask]` = the scores of the groups. -/
theorem select_scores (l : List Pt) :
    select (diffMask (l.map (·.s))) (l.map (·.s)) = (collapse l).map (·.s) := by
  induction l with
  | nil => rfl
  | cons x l ih =>
    cases l with
    | nil => simp [diffMask, select, collapse, glue]
    | cons y r =>
      obtain ⟨g, gs, hc, hgs⟩ := collapse_head_s y r
      rw [collapse_cons x, hc]
      rw [hc] at ih
      simp only [List.map_cons, diffMask, select, ne_mask] at ih ⊢
      by_cases hs : x.s = y.s
      · have hxg : x.s = g.s := by rw [hs, hgs]
        simp only [hs, beq_self_eq_true, Bool.not_true, Bool.false_eq_true, if_false]
        rw [ih]
        simp only [glue]; rw [if_pos hxg]
        simp only [List.map_cons, hxg]
      · have hxg : ¬ x.s = g.s := by rw [hgs]; exact hs
        have hb : (x.s == y.s) = false := by simp [hs]
        simp only [hb, Bool.not_false, if_true]
        rw [ih]
        simp only [glue]; rw [if_neg hxg]
        simp only [List.map_cons]

end TE.CurveL
