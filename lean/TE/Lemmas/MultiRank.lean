/-
  TE.Lemmas.MultiRank — RetrievalPrecision / RetrievalRecall with `num_queries > 1`:
  the `indexes == i` filter splits a mixed batch into per-query streams, and `compute`
  is the per-query computation, query by query.
-/
import TE.Model.Multi
import TE.Lemmas.CurveAuroc
namespace TE.MultiL
open TE TE.Rank TE.Multi

/-- the configuration of the single-query metric for one of the queries. -/
def singleQuery (c : RCfg) : RCfg := { c with numQueries := 1 }

theorem rUpdate_multi (c : RCfg) (hq : c.numQueries ≠ 1) (st : RState) (batch : List Pair) (ix : List Int) :
    rUpdate c st batch (some ix)
      = .ok (st.zipIdx.map fun si =>
          if ix.any (· == (si.2 : Int)) then updateSingle c.k si.1 (queryRows batch ix si.2) else si.1) := by
  simp only [rUpdate, hq, if_false]
  rfl

theorem rUpdate_single (c : RCfg) (s : List Pair) (batch : List Pair) :
    rUpdate (singleQuery c) [s] batch none = .ok [updateSingle c.k s batch] := by
  simp [rUpdate, singleQuery]

theorem rUpdate_multi_get (c : RCfg) (hq : c.numQueries ≠ 1) (st : RState) (batch : List Pair) (ix : List Int)
    (i : Nat) (s : List Pair) (hs : st[i]? = some s) :
    ∃ st', rUpdate c st batch (some ix) = .ok st' ∧
      st'[i]? = some (if ix.any (· == (i : Int)) then updateSingle c.k s (queryRows batch ix i) else s) := by
  refine ⟨_, rUpdate_multi c hq st batch ix, ?_⟩
  simp [List.getElem?_map, List.getElem?_zipIdx, hs]

/-- **the `indexes == i` partition**: after any stream of `update(input, target, indexes)`
    calls, the state of query `i` is the state of a single-query metric that was fed the
    rows of query `i`, call by call (only the calls whose `indexes` mention `i`). -/
theorem rRun_query (c : RCfg) (hq : c.numQueries ≠ 1) (i : Nat) :
    ∀ (bs : List (List Pair × List Int)) (st : RState) (s : List Pair), st[i]? = some s →
      ∃ st' s', rRun c st bs = .ok st' ∧ st'[i]? = some s'
        ∧ rRunSingle (singleQuery c) [s] (queryStream bs i) = .ok [s']
  | [], st, s, hs => ⟨st, s, rfl, hs, rfl⟩
  | b :: bs, st, s, hs => by
    obtain ⟨st1, h1, h1i⟩ := rUpdate_multi_get c hq st b.1 b.2 i s hs
    by_cases hany : b.2.any (· == (i : Int)) = true
    · rw [if_pos hany] at h1i
      obtain ⟨st', s', h2, h2i, h2s⟩ := rRun_query c hq i bs st1 _ h1i
      refine ⟨st', s', ?_, h2i, ?_⟩
      · simp only [rRun, h1]; exact h2
      · simp only [queryStream, List.filterMap_cons, hany, if_true] at h2s ⊢
        simp only [rRunSingle, rUpdate_single]
        exact h2s
    · rw [if_neg hany] at h1i
      obtain ⟨st', s', h2, h2i, h2s⟩ := rRun_query c hq i bs st1 _ h1i
      refine ⟨st', s', ?_, h2i, ?_⟩
      · simp only [rRun, h1]; exact h2
      · simp only [queryStream, List.filterMap_cons, hany] at h2s ⊢
        exact h2s

/-- queries other than `i` never influence query `i`: two streams that agree on the rows of
    query `i` (call by call) leave query `i` in the same state. -/
theorem rRun_query_indep (c : RCfg) (hq : c.numQueries ≠ 1) (i : Nat)
    (bs₁ bs₂ : List (List Pair × List Int)) (st₁ st₂ : RState) (s : List Pair)
    (h₁ : st₁[i]? = some s) (h₂ : st₂[i]? = some s) (hsame : queryStream bs₁ i = queryStream bs₂ i) :
    ∃ st₁' st₂' s', rRun c st₁ bs₁ = .ok st₁' ∧ rRun c st₂ bs₂ = .ok st₂' ∧ st₁'[i]? = some s' ∧ st₂'[i]? = some s' := by
  obtain ⟨a, sa, ha, hai, has⟩ := rRun_query c hq i bs₁ st₁ s h₁
  obtain ⟨b, sb, hb, hbi, hbs⟩ := rRun_query c hq i bs₂ st₂ s h₂
  rw [hsame, hbs] at has
  have : sb = sa := by simpa using has
  subst this
  exact ⟨a, b, sb, ha, hb, hai, hbi⟩

/-! ### compute -/

theorem queryValue_single (c : RCfg) (m : Bool) (s : List Pair) :
    queryValue { c with numQueries := 1, isMacro := m } s = queryValue c s := by
  unfold queryValue functionalOn
  rfl

theorem rCompute_single_value (c : RCfg) (s : List Pair) (v : XQ)
    (h : rCompute { c with numQueries := 1, isMacro := false } [s] = .ok (.inl [v])) :
    queryValue c s = .ok (some v) := by
  unfold rCompute at h
  rw [List.mapM_cons, List.mapM_nil, queryValue_single] at h
  cases hq : queryValue c s with
  | error e => rw [hq] at h; simp [bind, Except.bind] at h
  | ok o =>
    rw [hq] at h
    cases o with
    | none => simp [bind, Except.bind, pure, Except.pure, throw, throwThe, MonadExceptOf.throw] at h
    | some w =>
      simp [bind, Except.bind, pure, Except.pure] at h
      rw [h]

/-- `compute()` of the multi-query metric is, query by query, `compute()` of the single-query
    metric on that query's retained pairs; `avg="macro"` is their `nanmean`. -/
theorem rCompute_per_query (c : RCfg) (st : RState) (g : List Pair → XQ) (hne : st ≠ [])
    (h : ∀ s ∈ st, rCompute { c with numQueries := 1, isMacro := false } [s] = .ok (.inl [g s])) :
    rCompute { c with isMacro := false } st = .ok (.inl (st.map g))
      ∧ rCompute { c with isMacro := true } st = .ok (.inr (nanmean (st.map g))) := by
  have hv : ∀ s ∈ st, queryValue c s = .ok ((some ∘ g) s) := fun s hs => rCompute_single_value c s (g s) (h s hs)
  have e1 : ∀ m, st.mapM (queryValue { c with isMacro := m }) = .ok (st.map (some ∘ g)) := by
    intro m
    apply CurveL.mapM_ok
    intro s hs
    rw [← hv s hs]
    unfold queryValue functionalOn
    rfl
  have e2 : (st.map (some ∘ g)).filterMap id = st.map g := by
    rw [List.filterMap_map]
    simp
  have e3 : (st.map g).isEmpty = false := by
    cases st with
    | nil => exact absurd rfl hne
    | cons _ _ => rfl
  constructor
  · unfold rCompute
    rw [e1]
    simp [bind, Except.bind, e2, e3, pure, Except.pure]
  · unfold rCompute
    rw [e1]
    simp [bind, Except.bind, e2, e3, pure, Except.pure]

end TE.MultiL
