/-
  TE.Lemmas.RoundIEEE — a realistic inhabitant of the standard model: ROUND TO NEAREST with a p-bit
  significand and unbounded exponent range (IEEE binary32 is p = 24, binary64 is p = 53, away from
  overflow / underflow) is a rounding operator with unit roundoff `u = 2⁻ᵖ`.
-/
import TE.Lemmas.Round
import Mathlib.Data.Int.Log
import Mathlib.Algebra.Order.Round
import Mathlib.Data.Rat.Floor
namespace TE.RoundL
open TE.Round

theorem qabs_eq_abs (x : Q) : qabs x = |x| := by
  unfold qabs
  split
  · next h => rw [abs_of_neg h]
  · next h => rw [abs_of_nonneg (not_lt.mp h)]

/-- round to nearest, `p` significant bits: with `2ᵉ ≤ |x| < 2ᵉ⁺¹` the spacing of the representable numbers around
    `x` is `q = 2^(e−p+1)`; the result is the nearest multiple of `q` (ties away from zero upward, `round`). -/
def rndP (p : Nat) (x : Q) : Q :=
  if x = 0 then 0 else (round (x / (2 : Q) ^ (Int.log 2 |x| - (p : Int) + 1)) : Q) * (2 : Q) ^ (Int.log 2 |x| - (p : Int) + 1)

theorem rndP_err (p : Nat) (x : Q) : qabs (rndP p x - x) ≤ 1 / 2 ^ p * qabs x := by
  rw [qabs_eq_abs, qabs_eq_abs]
  unfold rndP
  by_cases hx : x = 0
  · simp [hx]
  · rw [if_neg hx]
    have hax : 0 < |x| := abs_pos.mpr hx
    generalize he : Int.log 2 |x| = e
    have hle : (2 : Q) ^ e ≤ |x| := by
      have := Int.zpow_log_le_self (b := 2) (r := |x|) (by norm_num) hax
      rw [he] at this
      simpa using this
    have hq : 0 < (2 : Q) ^ (e - (p : Int) + 1) := zpow_pos (by norm_num) _
    set q : Q := (2 : Q) ^ (e - (p : Int) + 1) with hqd
    have e1 : (round (x / q) : Q) * q - x = ((round (x / q) : Q) - x / q) * q := by
      field_simp
    rw [e1, abs_mul, abs_of_pos hq]
    have hr : |(round (x / q) : Q) - x / q| ≤ 1 / 2 := by
      rw [abs_sub_comm]; exact abs_sub_round (x / q)
    have hq2 : q = 2 ^ e / 2 ^ p * 2 := by
      rw [hqd, zpow_add₀ (by norm_num : (2 : Q) ≠ 0), zpow_sub₀ (by norm_num : (2 : Q) ≠ 0), zpow_natCast, zpow_one]
    have h2p : (0 : Q) < 2 ^ p := by positivity
    calc |(round (x / q) : Q) - x / q| * q ≤ 1 / 2 * q := mul_le_mul_of_nonneg_right hr hq.le
      _ = 1 / 2 ^ p * 2 ^ e := by rw [hq2]; field_simp
      _ ≤ 1 / 2 ^ p * |x| := mul_le_mul_of_nonneg_left hle (by positivity)

/-- **IEEE-style round-to-nearest (p-bit significand, unbounded exponent) satisfies the standard model with u = 2⁻ᵖ.** -/
def Fl.ieee (p : Nat) : Fl (1 / 2 ^ p) := ⟨rndP p, rndP_err p⟩

end TE.RoundL
