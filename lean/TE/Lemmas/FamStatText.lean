/-
  TE.Lemmas.FamStatText — `StatCat` for the text families of TE/Model/Fams.lean
  (WordErrorRate, WordInformationPreserved, WordInformationLost, BLEUScore): the statistic
  of a concatenation of valid batches is the sum of the batches' statistics.

    * WER / WIP / WIL: the accumulation loops are sums over `zip(input, target)`
      (TE/Lemmas/TextWer.lean), and sums split over `++`;
    * BLEU: the loop is a `foldlM` of `bleuStep` in `Except Err`; a step from an accumulator
      is the step from zero, added to the accumulator (`bleuStep_acc`), hence so is the fold
      (`bleuFold_acc`); the two final checks (`N = 0`, some order without a possible match)
      pass for the sum when they pass for both summands.
-/
import TE.Lemmas.FamStat
import TE.Lemmas.TextWer
namespace TE.FamStat
open TE TE.Fams TE.Text

variable {α : Type} [DecidableEq α]

/-! ### toolkit -/

private theorem bind_ok {σ τ : Type} {x : Except Err σ} {f : σ → Except Err τ} {b : τ}
    (h : (x >>= f) = .ok b) : ∃ a, x = .ok a ∧ f a = .ok b := by
  cases x with
  | error e => simp [bind, Except.bind] at h
  | ok a => exact ⟨a, rfl, by simpa [bind, Except.bind] using h⟩

private theorem map_ok {σ τ : Type} {x : Except Err σ} {f : σ → τ} {b : τ}
    (h : Except.map f x = .ok b) : ∃ a, x = .ok a ∧ b = f a := by
  cases x with
  | error e => simp [Except.map] at h
  | ok a => exact ⟨a, rfl, by simpa [Except.map, eq_comm] using h⟩

/-- the common shape of the `(input, target)` families: sample-count check (raising `err`),
    then `F`. -/
theorem statCat_lenCheckErr {σ τ : Type} (err : Err) (F : List σ → List τ → Except Err Parts)
    (h : ∀ x₁ y₁ x₂ y₂ a₁ a₂, x₁.length = y₁.length → x₂.length = y₂.length →
      F x₁ y₁ = .ok a₁ → F x₂ y₂ = .ok a₂ → F (x₁ ++ x₂) (y₁ ++ y₂) = .ok (ppadd a₁ a₂)) :
    StatCat partsAcc
      (fun b : List σ × List τ => if b.1.length = b.2.length then F b.1 b.2 else .error err)
      catPair := by
  apply statCat_pair partsAcc partsAcc_laws.toLaws
  intro x₁ y₁ x₂ y₂ a₁ a₂ h₁ h₂
  simp only at h₁ h₂ ⊢
  split at h₁
  · split at h₂
    · rename_i e₁ e₂
      have e : (x₁ ++ x₂).length = (y₁ ++ y₂).length := by simp [e₁, e₂]
      rw [if_pos e]
      exact h x₁ y₁ x₂ y₂ a₁ a₂ e₁ e₂ h₁ h₂
    · cases h₂
  · cases h₁

/-! ### WER / WIP / WIL -/

/-- `WordErrorRate` : `(errors, total)` add. -/
theorem statCat_wer : StatCat partsAcc (werStat (α := α)) catPair := by
  apply statCat_lenCheckErr .value (fun x y => .ok [[(werUpdate x y).1], [(werUpdate x y).2]])
  intro x₁ y₁ x₂ y₂ a₁ a₂ e₁ e₂ h₁ h₂
  cases h₁; cases h₂
  simp only [TextL.werUpdate_eq, zip_append' _ _ _ _ e₁, List.map_append, List.sum_append,
    ppadd_cons, padd_single, ppadd_nil_nil]

/-- `WordInformationPreserved` : `(max_total − errors, target_total, input_total)` add. -/
theorem statCat_wip : StatCat partsAcc (wipStat (α := α)) catPair := by
  apply statCat_lenCheckErr .value (fun x y =>
    .ok [[(wipUpdate x y).1], [(wipUpdate x y).2.1], [(wipUpdate x y).2.2]])
  intro x₁ y₁ x₂ y₂ a₁ a₂ e₁ e₂ h₁ h₂
  cases h₁; cases h₂
  simp only [wipUpdate, TextL.errorsAndTotals_eq, zip_append' _ _ _ _ e₁, List.map_append,
    List.sum_append, ppadd_cons, padd_single, ppadd_nil_nil]
  congr 3
  grind

/-- `WordInformationLost` : `(errors − max_total, target_total, input_total)` add. -/
theorem statCat_wil : StatCat partsAcc (wilStat (α := α)) catPair := by
  apply statCat_lenCheckErr .assertion (fun x y =>
    .ok [[(wilUpdate x y).1], [(wilUpdate x y).2.1], [(wilUpdate x y).2.2]])
  intro x₁ y₁ x₂ y₂ a₁ a₂ e₁ e₂ h₁ h₂
  cases h₁; cases h₂
  simp only [wilUpdate, TextL.errorsAndTotals_eq, zip_append' _ _ _ _ e₁, List.map_append,
    List.sum_append, ppadd_cons, padd_single, ppadd_nil_nil]
  congr 3
  grind

/-! ### BLEU -/

/-- the initial statistics of `_bleu_score_update`. -/
def bleuZero (N : Nat) : BleuStats := ⟨0, 0, List.replicate N 0, List.replicate N 0⟩

/-- componentwise sum of BLEU statistics. -/
def bleuAdd (a b : BleuStats) : BleuStats :=
  ⟨a.inputLen + b.inputLen, a.targetLen + b.targetLen,
   addVec a.matchesBy b.matchesBy, addVec a.possibleBy b.possibleBy⟩

theorem addVec_assoc : ∀ a b c : List Nat, addVec (addVec a b) c = addVec a (addVec b c)
  | [], _, _ => by simp [addVec]
  | _ :: _, [], _ => by simp [addVec]
  | _ :: _, _ :: _, [] => by simp [addVec]
  | x :: a, y :: b, z :: c => by
    have := addVec_assoc a b c
    simp only [addVec, List.zipWith_cons_cons, Nat.add_assoc] at this ⊢
    rw [this]

theorem addVec_zero_left : ∀ (n : Nat) (b : List Nat), b.length = n → addVec (List.replicate n 0) b = b
  | 0, [], _ => rfl
  | 0, _ :: _, h => by simp at h
  | _ + 1, [], h => by simp at h
  | n + 1, y :: b, h => by
    have := addVec_zero_left n b (by simpa using h)
    simp only [addVec, List.replicate_succ, List.zipWith_cons_cons, Nat.zero_add] at this ⊢
    rw [this]

theorem addVec_length (a b : List Nat) (n : Nat) (ha : a.length = n) (hb : b.length = n) :
    (addVec a b).length = n := by
  simp [addVec, ha, hb]

theorem matchesOf_length {κ : Type} (ov : Ctr (List κ)) (N : Nat) : (matchesOf ov N).length = N := by
  simp [matchesOf]

theorem possibleOf_length (len N : Nat) : (possibleOf len N).length = N := by
  simp [possibleOf]

theorem bleuAdd_assoc (a b c : BleuStats) : bleuAdd (bleuAdd a b) c = bleuAdd a (bleuAdd b c) := by
  simp only [bleuAdd, addVec_assoc, Nat.add_assoc]

/-- the vectors of `s` have one entry per n-gram order. -/
def BleuLen (N : Nat) (s : BleuStats) : Prop := s.matchesBy.length = N ∧ s.possibleBy.length = N

theorem bleuLen_zero (N : Nat) : BleuLen N (bleuZero N) := by simp [BleuLen, bleuZero]

theorem bleuLen_add {N : Nat} {a b : BleuStats} (ha : BleuLen N a) (hb : BleuLen N b) :
    BleuLen N (bleuAdd a b) :=
  ⟨addVec_length _ _ N ha.1 hb.1, addVec_length _ _ N ha.2 hb.2⟩

/-- `bleuStep` in closed form. -/
theorem bleuStep_eq (N : Nat) (acc : BleuStats) (c : List α) (r : List (List α)) :
    bleuStep N acc c r =
      match closestRefLen c.length (r.map (·.length)) with
      | .error e => .error e
      | .ok lr =>
        if N = 1 ∨ N = 2 ∨ N = 3 ∨ N = 4 then
          .ok ⟨acc.inputLen + c.length, acc.targetLen + lr,
               addVec acc.matchesBy (matchesOf (cinter (getNgrams c N) (refCounter r N)) N),
               addVec acc.possibleBy (possibleOf c.length N)⟩
        else .error .value := by
  unfold bleuStep
  cases closestRefLen c.length (r.map (·.length)) with
  | error e => rfl
  | ok lr =>
    by_cases h : N = 1 ∨ N = 2 ∨ N = 3 ∨ N = 4
    · simp [h, bind, Except.bind, pure, Except.pure]
    · simp [h, bind, Except.bind, throw, throwThe, MonadExceptOf.throw]

/-- a step from an accumulator = the step from zero, added to the accumulator. -/
theorem bleuStep_acc (N : Nat) (acc : BleuStats) (c : List α) (r : List (List α)) :
    bleuStep N acc c r = (bleuStep N (bleuZero N) c r).map (bleuAdd acc) := by
  rw [bleuStep_eq, bleuStep_eq]
  cases closestRefLen c.length (r.map (·.length)) with
  | error e => rfl
  | ok lr =>
    by_cases h : N = 1 ∨ N = 2 ∨ N = 3 ∨ N = 4
    · simp only [if_pos h, Except.map, bleuAdd, bleuZero, Nat.zero_add,
        addVec_zero_left N _ (matchesOf_length _ N), addVec_zero_left N _ (possibleOf_length _ N)]
    · simp only [if_neg h, Except.map]

theorem bleuStep_len (N : Nat) (c : List α) (r : List (List α)) (d : BleuStats)
    (h : bleuStep N (bleuZero N) c r = .ok d) : BleuLen N d := by
  rw [bleuStep_eq] at h
  cases hc : closestRefLen c.length (r.map (·.length)) with
  | error e => rw [hc] at h; cases h
  | ok lr =>
    rw [hc] at h
    simp only at h
    split at h
    · cases h
      exact ⟨addVec_length _ _ N (by simp [bleuZero]) (matchesOf_length _ N),
        addVec_length _ _ N (by simp [bleuZero]) (possibleOf_length _ N)⟩
    · cases h

/-- the loop of `_bleu_score_update` from an accumulator. -/
def bleuFold (N : Nat) (l : List (List α × List (List α))) (acc : BleuStats) : Except Err BleuStats :=
  l.foldlM (fun acc p => bleuStep N acc p.1 p.2) acc

theorem bleuFold_cons (N : Nat) (p : List α × List (List α)) (l : List (List α × List (List α)))
    (acc : BleuStats) :
    bleuFold N (p :: l) acc = (bleuStep N acc p.1 p.2 >>= fun a => bleuFold N l a) := by
  simp [bleuFold, List.foldlM_cons]

private theorem map_map' {σ τ υ : Type} (f : σ → τ) (g : τ → υ) (x : Except Err σ) :
    (x.map f).map g = x.map (g ∘ f) := by
  cases x <;> rfl

theorem addVec_zero_right : ∀ (n : Nat) (b : List Nat), b.length = n → addVec b (List.replicate n 0) = b
  | 0, [], _ => rfl
  | 0, _ :: _, h => by simp at h
  | _ + 1, [], h => by simp at h
  | n + 1, y :: b, h => by
    have := addVec_zero_right n b (by simpa using h)
    simp only [addVec, List.replicate_succ, List.zipWith_cons_cons, Nat.add_zero] at this ⊢
    rw [this]

theorem bleuAdd_zero {N : Nat} {a : BleuStats} (h : BleuLen N a) : bleuAdd a (bleuZero N) = a := by
  cases a
  simp only [BleuLen] at h
  simp only [bleuAdd, bleuZero, Nat.add_zero, addVec_zero_right N _ h.1, addVec_zero_right N _ h.2]

theorem bleuStep_len' (N : Nat) (acc : BleuStats) (hacc : BleuLen N acc) (c : List α) (r : List (List α))
    (s : BleuStats) (h : bleuStep N acc c r = .ok s) : BleuLen N s := by
  rw [bleuStep_acc] at h
  obtain ⟨d, hd, rfl⟩ := map_ok h
  exact bleuLen_add hacc (bleuStep_len N c r d hd)

theorem bleuFold_len (N : Nat) (l : List (List α × List (List α))) (acc : BleuStats)
    (hacc : BleuLen N acc) (s : BleuStats) (h : bleuFold N l acc = .ok s) : BleuLen N s := by
  induction l generalizing acc with
  | nil =>
    simp only [bleuFold, List.foldlM_nil, pure, Except.pure] at h
    cases h
    exact hacc
  | cons p l ih =>
    rw [bleuFold_cons] at h
    obtain ⟨a, ha, h⟩ := bind_ok h
    exact ih a (bleuStep_len' N acc hacc _ _ a ha) h

/-- the fold from an accumulator = the fold from zero, added to the accumulator. -/
theorem bleuFold_acc (N : Nat) (l : List (List α × List (List α))) (acc : BleuStats)
    (hacc : BleuLen N acc) :
    bleuFold N l acc = (bleuFold N l (bleuZero N)).map (bleuAdd acc) := by
  induction l generalizing acc with
  | nil =>
    simp only [bleuFold, List.foldlM_nil, pure, Except.pure, Except.map, bleuAdd_zero hacc]
  | cons p l ih =>
    rw [bleuFold_cons, bleuFold_cons, bleuStep_acc]
    cases hd : bleuStep N (bleuZero N) p.1 p.2 with
    | error e => rfl
    | ok d =>
      have hdl := bleuStep_len N _ _ d hd
      show bleuFold N l (bleuAdd acc d) = Except.map (bleuAdd acc) (bleuFold N l d)
      rw [ih _ (bleuLen_add hacc hdl), ih d hdl, map_map']
      congr 1
      funext s
      exact bleuAdd_assoc acc d s

/-- the loop over a concatenation. -/
theorem bleuFold_append (N : Nat) (l₁ l₂ : List (List α × List (List α))) (s₁ s₂ : BleuStats)
    (h₁ : bleuFold N l₁ (bleuZero N) = .ok s₁) (h₂ : bleuFold N l₂ (bleuZero N) = .ok s₂) :
    bleuFold N (l₁ ++ l₂) (bleuZero N) = .ok (bleuAdd s₁ s₂) := by
  have e : bleuFold N (l₁ ++ l₂) (bleuZero N)
      = (bleuFold N l₁ (bleuZero N) >>= fun s => bleuFold N l₂ s) := by
    simp [bleuFold, List.foldlM_append]
  rw [e, h₁]
  simp only [bind, Except.bind]
  rw [bleuFold_acc N l₂ s₁ (bleuFold_len N l₁ _ (bleuLen_zero N) s₁ h₁), h₂]
  rfl

/-- `bleuUpdate` in closed form: the loop, then the two checks. -/
theorem bleuUpdate_eq (N : Nat) (x : List (List α)) (y : List (List (List α))) :
    bleuUpdate N x y =
      match bleuFold N (x.zip y) (bleuZero N) with
      | .error e => .error e
      | .ok s =>
        if N = 0 then .error .runtime
        else if s.possibleBy.any (· == 0) then .error .value else .ok s := by
  unfold bleuUpdate
  show (bleuFold N (x.zip y) (bleuZero N) >>= _) = _
  cases bleuFold N (x.zip y) (bleuZero N) with
  | error e => rfl
  | ok s =>
    by_cases hN : N = 0
    · simp [hN, bind, Except.bind, throw, throwThe, MonadExceptOf.throw]
    · by_cases hp : s.possibleBy.any (· == 0) = true
      · simp only [hN, hp, if_true, if_false, bind, Except.bind, throw, throwThe,
          MonadExceptOf.throw, pure, Except.pure]
      · simp only [hN, hp, if_false, bind, Except.bind, pure, Except.pure]
        rfl

theorem bleuUpdate_ok_iff (N : Nat) (x : List (List α)) (y : List (List (List α))) (s : BleuStats) :
    bleuUpdate N x y = .ok s ↔
      bleuFold N (x.zip y) (bleuZero N) = .ok s ∧ N ≠ 0 ∧ s.possibleBy.any (· == 0) = false := by
  rw [bleuUpdate_eq]
  cases bleuFold N (x.zip y) (bleuZero N) with
  | error e => simp
  | ok t =>
    by_cases hN : N = 0
    · simp [hN]
    · by_cases hp : t.possibleBy.any (· == 0) = true
      · simp only [hN, hp, if_true, if_false]
        constructor
        · intro h; cases h
        · rintro ⟨h, _, h'⟩
          cases h
          rw [hp] at h'
          cases h'
      · simp only [hN, hp, if_false]
        constructor
        · intro h
          cases h
          exact ⟨rfl, hN, (Bool.not_eq_true _).mp hp⟩
        · rintro ⟨h, _, _⟩
          cases h
          rfl

/-- sums of positive naturals are positive. -/
theorem addVec_any_zero : ∀ a b : List Nat, a.any (· == 0) = false → (addVec a b).any (· == 0) = false
  | [], _, _ => by simp [addVec]
  | _ :: _, [], _ => by simp [addVec]
  | x :: a, y :: b, h => by
    simp only [List.any_cons, Bool.or_eq_false_iff] at h
    have := addVec_any_zero a b h.2
    simp only [addVec, List.zipWith_cons_cons, List.any_cons, Bool.or_eq_false_iff] at this ⊢
    refine ⟨?_, this⟩
    have hx : x ≠ 0 := by simpa using h.1
    simp
    omega

theorem natQ_addVec : ∀ a b : List Nat, a.length = b.length → natQ (addVec a b) = padd (natQ a) (natQ b)
  | [], [], _ => rfl
  | [], _ :: _, h => by simp at h
  | _ :: _, [], h => by simp at h
  | x :: a, y :: b, h => by
    have := natQ_addVec a b (by simpa using h)
    simp only [natQ, addVec, List.zipWith_cons_cons, List.map_cons, padd, Rat.natCast_add] at this ⊢
    rw [this]

/-- `BLEUScore` : candidate length, closest-reference length, matches and possible matches
    per n-gram order add. -/
theorem statCat_bleu (N : Nat) : StatCat partsAcc (bleuStat (α := α) N) catPair := by
  apply statCat_lenCheckErr .value (fun x y => (bleuUpdate N x y).map fun s =>
    [[(s.inputLen : Nat)], [(s.targetLen : Nat)], natQ s.matchesBy, natQ s.possibleBy])
  intro x₁ y₁ x₂ y₂ a₁ a₂ e₁ e₂ h₁ h₂
  obtain ⟨s₁, u₁, rfl⟩ := map_ok h₁
  obtain ⟨s₂, u₂, rfl⟩ := map_ok h₂
  obtain ⟨f₁, hN, p₁⟩ := (bleuUpdate_ok_iff N _ _ _).mp u₁
  obtain ⟨f₂, _, p₂⟩ := (bleuUpdate_ok_iff N _ _ _).mp u₂
  have l₁ := bleuFold_len N _ _ (bleuLen_zero N) s₁ f₁
  have l₂ := bleuFold_len N _ _ (bleuLen_zero N) s₂ f₂
  have h : bleuUpdate N (x₁ ++ x₂) (y₁ ++ y₂) = .ok (bleuAdd s₁ s₂) := by
    rw [bleuUpdate_ok_iff, zip_append' _ _ _ _ e₁]
    exact ⟨bleuFold_append N _ _ s₁ s₂ f₁ f₂, hN, addVec_any_zero _ _ p₁⟩
  rw [h]
  simp only [Except.map, bleuAdd, ppadd_cons, padd_single, ppadd_nil_nil, Rat.natCast_add,
    natQ_addVec _ _ (l₁.1.trans l₂.1.symm), natQ_addVec _ _ (l₁.2.trans l₂.2.symm)]


end TE.FamStat
