/-
  TE.Lemmas.TextBleu — the `Counter` algebra of `_bleu_score_update`:
  `cofList` = occurrence counts in first-occurrence order, `|=` = max,
  `&` = min, routing by n-gram length = per-order clipped counts.
-/
import TE.Model.Text
import TE.Spec.Text
namespace TE.TextL
open TE TE.Text TE.Spec.Text

section ctr
variable {κ : Type} [DecidableEq κ]

def keys (c : Ctr κ) : List κ := c.map (·.1)

/-- dictionary invariant: keys are unique. -/
def WF (c : Ctr κ) : Prop := (keys c).Nodup

theorem cget_cset (c : Ctr κ) (g h : κ) (v : Nat) :
    cget (cset c g v) h = if h = g then v else cget c h := by
  induction c with
  | nil =>
    simp only [cset, cget]
    by_cases e : g = h
    · simp [e]
    · have : ¬ h = g := fun e' => e e'.symm
      simp [e, this]
  | cons p c ih =>
    simp only [cset]
    by_cases e : p.1 = g
    · simp only [e, if_true, cget]
      by_cases e2 : g = h
      · simp [e2]
      · have : ¬ h = g := fun e' => e2 e'.symm
        simp [e2, this]
    · simp only [e, if_false, cget, ih]
      by_cases e2 : p.1 = h
      · have : ¬ h = g := fun e' => e (e2.trans e')
        simp [e2, this]
      · simp [e2]

theorem cget_of_not_mem (c : Ctr κ) (g : κ) (h : g ∉ keys c) : cget c g = 0 := by
  induction c with
  | nil => rfl
  | cons p c ih =>
    simp only [keys, List.map_cons, List.mem_cons, not_or] at h
    have : ¬ p.1 = g := fun e => h.1 e.symm
    simp only [cget, this, if_false]
    exact ih h.2

theorem keys_cset (c : Ctr κ) (g : κ) (v : Nat) :
    keys (cset c g v) = if g ∈ keys c then keys c else keys c ++ [g] := by
  induction c with
  | nil => simp [cset, keys]
  | cons p c ih =>
    simp only [cset]
    by_cases e : p.1 = g
    · simp [e, keys]
    · have e' : ¬ g = p.1 := fun h => e h.symm
      simp only [e, if_false]
      simp only [keys, List.map_cons, List.mem_cons, e', false_or] at ih ⊢
      rw [ih]
      split <;> rename_i hg <;> simp [hg]

theorem wf_cset (c : Ctr κ) (g : κ) (v : Nat) (h : WF c) : WF (cset c g v) := by
  unfold WF at h ⊢
  rw [keys_cset]
  split
  · exact h
  · rename_i hg
    rw [List.nodup_append]
    refine ⟨h, by simp, ?_⟩
    intro a ha b hb
    simp only [List.mem_singleton] at hb
    subst hb
    exact fun e => hg (e ▸ ha)

/-- a well-formed counter is determined by its keys and its lookups. -/
theorem canonical (c : Ctr κ) (h : WF c) : c = (keys c).map fun g => (g, cget c g) := by
  induction c with
  | nil => rfl
  | cons p c ih =>
    unfold WF keys at h
    simp only [List.map_cons, List.nodup_cons] at h
    simp only [keys, List.map_cons, cget, if_true]
    congr 1
    have := ih h.2
    conv => lhs; rw [this]
    simp only [keys]
    apply List.map_congr_left
    intro g hg
    have : ¬ p.1 = g := fun e => h.1 (e ▸ hg)
    simp [this]

/-- first occurrences, with an explicit accumulator. -/
def distinctAux (acc l : List κ) : List κ := l.foldl (fun acc g => if g ∈ acc then acc else acc ++ [g]) acc

theorem distinct_eq_aux (l : List κ) : distinct l = distinctAux [] l := rfl

theorem cofList_aux (l : List κ) (c : Ctr κ) (hc : WF c) :
    let r := l.foldl (fun c g => cset c g (cget c g + 1)) c
    WF r ∧ keys r = distinctAux (keys c) l ∧ ∀ g, cget r g = cget c g + l.count g := by
  induction l generalizing c with
  | nil => simp [distinctAux, hc]
  | cons x l ih =>
    simp only [List.foldl_cons]
    obtain ⟨i1, i2, i3⟩ := ih (cset c x (cget c x + 1)) (wf_cset _ _ _ hc)
    refine ⟨i1, ?_, ?_⟩
    · rw [i2, keys_cset]; rfl
    · intro g
      rw [i3 g, cget_cset, List.count_cons]
      by_cases e : g = x
      · subst e; simp; omega
      · have : ¬ (x == g) = true := by simp; exact fun h => e h.symm
        simp [e, this]

theorem wf_cofList (l : List κ) : WF (cofList l) := (cofList_aux l [] List.nodup_nil).1
theorem keys_cofList (l : List κ) : keys (cofList l) = distinct l := (cofList_aux l [] List.nodup_nil).2.1
theorem cget_cofList (l : List κ) (g : κ) : cget (cofList l) g = l.count g := by
  have := (cofList_aux l [] List.nodup_nil).2.2 g
  simpa [cget, cofList] using this

/-- `Counter(l)`: every distinct element with its number of occurrences, in order of first occurrence. -/
theorem cofList_eq (l : List κ) : cofList l = (distinct l).map fun g => (g, l.count g) := by
  have h := canonical (cofList l) (wf_cofList l)
  rw [keys_cofList] at h
  rw [h]
  apply List.map_congr_left
  intro g _
  rw [cget_cofList]

/-! #### `|=` -/

/-- largest count stored under key `g`. -/
def cmax (b : Ctr κ) (g : κ) : Nat :=
  match b with
  | [] => 0
  | p :: b => max (if p.1 = g then p.2 else 0) (cmax b g)

theorem cmax_of_not_mem (b : Ctr κ) (g : κ) (h : g ∉ keys b) : cmax b g = 0 := by
  induction b with
  | nil => rfl
  | cons p b ih =>
    simp only [keys, List.map_cons, List.mem_cons, not_or] at h
    have : ¬ p.1 = g := fun e => h.1 e.symm
    simp only [cmax, this, if_false]
    rw [ih h.2]; rfl

theorem cmax_eq_cget (b : Ctr κ) (g : κ) (h : WF b) : cmax b g = cget b g := by
  induction b with
  | nil => rfl
  | cons p b ih =>
    unfold WF keys at h
    simp only [List.map_cons, List.nodup_cons] at h
    simp only [cmax, cget]
    by_cases e : p.1 = g
    · simp only [e, if_true]
      rw [cmax_of_not_mem b g (e ▸ h.1)]
      omega
    · simp only [e, if_false]
      rw [ih h.2]; omega

theorem ior_fold (b a : Ctr κ) (ha : WF a) (g : κ) :
    let r := b.foldl (fun acc p => if cget acc p.1 < p.2 then cset acc p.1 p.2 else acc) a
    WF r ∧ cget r g = max (cget a g) (cmax b g) := by
  induction b generalizing a with
  | nil => simp [cmax, ha]
  | cons p b ih =>
    simp only [List.foldl_cons]
    by_cases hlt : cget a p.1 < p.2
    · simp only [hlt, if_true]
      obtain ⟨i1, i2⟩ := ih (cset a p.1 p.2) (wf_cset _ _ _ ha)
      refine ⟨i1, ?_⟩
      rw [i2, cget_cset, cmax]
      by_cases e : g = p.1
      · subst e; simp; omega
      · have : ¬ p.1 = g := fun h => e h.symm
        simp [e, this]
    · simp only [hlt, if_false]
      obtain ⟨i1, i2⟩ := ih a ha
      refine ⟨i1, ?_⟩
      rw [i2, cmax]
      by_cases e : p.1 = g
      · subst e; simp; omega
      · simp [e]

omit [DecidableEq κ] in
theorem wf_filter (c : Ctr κ) (p : κ × Nat → Bool) (h : WF c) : WF (c.filter p) := by
  unfold WF keys at h ⊢
  exact List.Nodup.sublist (List.Sublist.map _ List.filter_sublist) h

theorem cget_keepPositive (c : Ctr κ) (g : κ) (h : WF c) : cget (keepPositive c) g = cget c g := by
  induction c with
  | nil => rfl
  | cons p c ih =>
    have h' := h
    unfold WF keys at h'
    simp only [List.map_cons, List.nodup_cons] at h'
    simp only [keepPositive, List.filter_cons]
    by_cases e : p.1 = g
    · by_cases hp : 0 < p.2
      · simp [hp, cget, e]
      · have hz : p.2 = 0 := by omega
        have hg : g ∉ keys (c.filter fun p => decide (0 < p.2)) := by
          intro hm
          have : g ∈ keys c := by
            unfold keys at hm ⊢
            exact (List.Sublist.map _ List.filter_sublist).subset hm
          exact h'.1 (e ▸ this)
        simp only [cget, e, if_true, hz]
        exact cget_of_not_mem _ g hg
    · have := ih h'.2
      simp only [keepPositive] at this
      by_cases hp : 0 < p.2
      · simp [hp, cget, e, this]
      · simp [hp, cget, e, this]

/-- `a |= b` is the pointwise maximum. -/
theorem cget_cior (a b : Ctr κ) (ha : WF a) (hb : WF b) (g : κ) :
    WF (cior a b) ∧ cget (cior a b) g = max (cget a g) (cget b g) := by
  obtain ⟨i1, i2⟩ := ior_fold b a ha g
  unfold cior
  refine ⟨wf_filter _ _ i1, ?_⟩
  rw [cget_keepPositive _ g i1, i2, cmax_eq_cget b g hb]

/-! #### `&` and the routing by key class -/

/-- sum over the entries of `a & b` selected by a predicate on the key = sum
    of the clipped counts over the selected keys of `a`. -/
theorem sum_cinter (ks : List κ) (f : κ → Nat) (b : Ctr κ) (P : κ → Bool) :
    (((cinter (ks.map fun g => (g, f g)) b).filter fun p => P p.1).map (·.2)).sum
      = ((ks.filter P).map fun g => min (f g) (cget b g)).sum := by
  induction ks with
  | nil => rfl
  | cons g ks ih =>
    simp only [cinter, List.map_cons, List.filterMap_cons] at ih ⊢
    by_cases hm : 0 < min (f g) (cget b g)
    · simp only [hm, if_true, List.filter_cons]
      by_cases hp : P g = true
      · simp only [hp, if_true, List.map_cons, List.sum_cons, ih]
      · simp only [hp, Bool.false_eq_true, if_false, ih]
    · simp only [hm, if_false, List.filter_cons, ih]
      by_cases hp : P g = true
      · simp only [hp, if_true, List.map_cons, List.sum_cons]
        omega
      · simp only [hp, Bool.false_eq_true, if_false]

theorem filter_distinctAux (P : κ → Bool) (l acc : List κ) :
    (distinctAux acc l).filter P = distinctAux (acc.filter P) (l.filter P) := by
  induction l generalizing acc with
  | nil => rfl
  | cons g l ih =>
    simp only [distinctAux, List.foldl_cons] at ih ⊢
    rw [ih]
    by_cases hp : P g = true
    · simp only [List.filter_cons, hp, if_true, List.foldl_cons]
      congr 1
      by_cases hg : g ∈ acc
      · have : g ∈ acc.filter P := List.mem_filter.mpr ⟨hg, hp⟩
        simp [hg, this]
      · have : g ∉ acc.filter P := fun h => hg (List.mem_filter.mp h).1
        simp [hg, this, List.filter_append, hp]
    · simp only [List.filter_cons, hp, Bool.false_eq_true, if_false]
      congr 1
      by_cases hg : g ∈ acc
      · simp [hg]
      · simp [hg, List.filter_append, hp]

theorem filter_distinct (P : κ → Bool) (l : List κ) : (distinct l).filter P = distinct (l.filter P) := by
  simpa [distinct_eq_aux] using filter_distinctAux P l []

theorem occ_filter (P : κ → Bool) (g : κ) (l : List κ) (h : P g = true) : occ g (l.filter P) = occ g l := by
  unfold occ
  exact List.count_filter h

end ctr

section ngram
variable {α : Type} [DecidableEq α]

omit [DecidableEq α] in
theorem ngramsOf_eq (s : List α) (n : Nat) : ngramsOf s n = ngrams n s := rfl

omit [DecidableEq α] in
theorem length_of_mem_ngrams (s : List α) (n : Nat) (g : List α) (h : g ∈ ngrams n s) : g.length = n := by
  unfold ngrams at h
  obtain ⟨i, hi, rfl⟩ := List.mem_map.mp h
  have := List.mem_range.mp hi
  simp only [List.length_take, List.length_drop]
  omega

/-- selecting the n-grams of one order out of `_get_ngrams`' enumeration. -/
theorem filter_allNgrams (s : List α) (N n : Nat) (h1 : 1 ≤ n) (hN : n ≤ N) :
    (allNgrams s N).filter (fun g => decide (g.length = n)) = ngrams n s := by
  unfold allNgrams
  induction N with
  | zero => omega
  | succ N ih =>
    rw [List.range_succ, List.map_append, List.flatten_append, List.filter_append]
    simp only [List.map_cons, List.map_nil, List.flatten_cons, List.flatten_nil, List.append_nil]
    by_cases hn : n = N + 1
    · subst hn
      have hfirst : (((List.range N).map fun m => ngramsOf s (m + 1)).flatten).filter
          (fun g => decide (g.length = N + 1)) = [] := by
        rw [List.filter_eq_nil_iff]
        intro g hg
        obtain ⟨blk, hblk, hgb⟩ := List.mem_flatten.mp hg
        obtain ⟨m, hm, rfl⟩ := List.mem_map.mp hblk
        have := length_of_mem_ngrams s (m + 1) g hgb
        have := List.mem_range.mp hm
        simp; omega
      have hlast : (ngramsOf s (N + 1)).filter (fun g => decide (g.length = N + 1)) = ngramsOf s (N + 1) := by
        rw [List.filter_eq_self]
        intro g hg
        simp [length_of_mem_ngrams s (N + 1) g hg]
      rw [hfirst, hlast]; rfl
    · have hlast : (ngramsOf s (N + 1)).filter (fun g => decide (g.length = n)) = [] := by
        rw [List.filter_eq_nil_iff]
        intro g hg
        have := length_of_mem_ngrams s (N + 1) g hg
        simp; omega
      rw [hlast, List.append_nil]
      exact ih (by omega)

theorem count_allNgrams (s : List α) (N n : Nat) (h1 : 1 ≤ n) (hN : n ≤ N) (g : List α) (hg : g.length = n) :
    occ g (allNgrams s N) = occ g (ngrams n s) := by
  rw [← filter_allNgrams s N n h1 hN, occ_filter]
  simp [hg]

theorem cget_getNgrams (s : List α) (N n : Nat) (h1 : 1 ≤ n) (hN : n ≤ N) (g : List α) (hg : g.length = n) :
    cget (getNgrams s N) g = occ g (ngrams n s) := by
  unfold getNgrams
  rw [cget_cofList, ← count_allNgrams s N n h1 hN g hg]
  rfl

/-- `reference_ngram_counter[g]` = the largest count of `g` in any reference. -/
theorem cget_refCounter (refs : List (List α)) (N n : Nat) (h1 : 1 ≤ n) (hN : n ≤ N) (g : List α)
    (hg : g.length = n) : cget (refCounter refs N) g = maxCount g (refs.map (ngrams n)) := by
  unfold refCounter maxCount
  suffices ∀ acc : Ctr (List α), WF acc →
      cget (refs.foldl (fun acc r => cior acc (getNgrams r N)) acc) g
        = ((refs.map (ngrams n)).map (occ g)).foldl max (cget acc g) by
    simpa [cget] using this [] List.nodup_nil
  induction refs with
  | nil => intro acc _; rfl
  | cons r refs ih =>
    intro acc hacc
    obtain ⟨w, e⟩ := cget_cior acc (getNgrams r N) hacc (wf_cofList _) g
    simp only [List.foldl_cons, List.map_cons]
    rw [ih _ w, e, cget_getNgrams r N n h1 hN g hg]

/-- **clipped counts**: the matches of order `n` routed out of
    `candidate_counter & reference_counter` are Σ over the distinct candidate
    n-grams of min(count in candidate, max over references of count in reference). -/
theorem matches_order (cand : List α) (refs : List (List α)) (N n : Nat) (h1 : 1 ≤ n) (hN : n ≤ N) :
    (((cinter (getNgrams cand N) (refCounter refs N)).filter fun p => decide (p.1.length = n)).map (·.2)).sum
      = clippedMatches n cand refs := by
  unfold getNgrams
  rw [cofList_eq]
  have hs := sum_cinter (distinct (allNgrams cand N)) (fun g => occ g (allNgrams cand N))
    (refCounter refs N) (fun g => decide (g.length = n))
  unfold occ at hs
  rw [hs, filter_distinct, filter_allNgrams cand N n h1 hN]
  unfold clippedMatches
  congr 1
  apply List.map_congr_left
  intro g hg
  have hmem : g ∈ ngrams n cand := by
    have : ∀ (l acc : List (List α)) (x : List α), x ∈ distinctAux acc l → x ∈ acc ∨ x ∈ l := by
      intro l
      induction l with
      | nil => intro acc x hx; exact Or.inl hx
      | cons y l ih =>
        intro acc x hx
        simp only [distinctAux, List.foldl_cons] at hx
        rcases ih _ x hx with h | h
        · by_cases hy : y ∈ acc
          · simp only [hy, if_true] at h; exact Or.inl h
          · simp only [hy, if_false, List.mem_append, List.mem_singleton] at h
            rcases h with h | h
            · exact Or.inl h
            · exact Or.inr (h ▸ List.mem_cons_self ..)
        · exact Or.inr (List.mem_cons_of_mem _ h)
    rcases this _ [] g hg with h | h
    · cases h
    · exact h
  have hlen := length_of_mem_ngrams cand n g hmem
  have hc := count_allNgrams cand N n h1 hN g hlen
  unfold occ at hc
  rw [hc, cget_refCounter refs N n h1 hN g hlen]
  rfl

theorem matchesOf_eq (cand : List α) (refs : List (List α)) (N : Nat) :
    matchesOf (cinter (getNgrams cand N) (refCounter refs N)) N
      = (List.range N).map fun i => clippedMatches (i + 1) cand refs := by
  unfold matchesOf
  apply List.map_congr_left
  intro i hi
  have := List.mem_range.mp hi
  exact matches_order cand refs N (i + 1) (by omega) (by omega)

/-! #### closest reference length -/

/-- `r` is at least as good a reference length as `x` for a candidate of length `c`. -/
def RefLe (c r x : Nat) : Prop :=
  absDiff r c < absDiff x c ∨ (absDiff r c = absDiff x c ∧ r ≤ x)

theorem refLe_trans_step (c best y x : Nat)
    (hc : absDiff y c < absDiff best c ∨ (absDiff y c = absDiff best c ∧ y < best))
    (h : RefLe c best x) : RefLe c y x := by
  unfold RefLe at *
  generalize absDiff y c = ky at *
  generalize absDiff best c = kb at *
  generalize absDiff x c = kx at *
  omega

theorem refLe_of_not (c best y : Nat)
    (hc : ¬ (absDiff y c < absDiff best c ∨ (absDiff y c = absDiff best c ∧ y < best))) :
    RefLe c best y := by
  unfold RefLe
  generalize absDiff y c = ky at *
  generalize absDiff best c = kb at *
  omega

theorem closest_fold (c : Nat) (ls seen : List Nat) (best : Nat)
    (hb : best ∈ seen) (hle : ∀ x ∈ seen, RefLe c best x) :
    (ls.foldl (fun best x =>
      if absDiff x c < absDiff best c ∨ (absDiff x c = absDiff best c ∧ x < best) then x else best) best)
      ∈ seen ++ ls ∧ ∀ x ∈ seen ++ ls, RefLe c (ls.foldl (fun best x =>
      if absDiff x c < absDiff best c ∨ (absDiff x c = absDiff best c ∧ x < best) then x else best) best) x := by
  induction ls generalizing seen best with
  | nil => simpa using ⟨hb, hle⟩
  | cons y ls ih =>
    simp only [List.foldl_cons]
    by_cases hc : absDiff y c < absDiff best c ∨ (absDiff y c = absDiff best c ∧ y < best)
    · simp only [hc, if_true]
      have := ih (seen ++ [y]) y (by simp) (by
        intro x hx
        rcases List.mem_append.mp hx with hx | hx
        · exact refLe_trans_step c best y x hc (hle x hx)
        · simp only [List.mem_singleton] at hx
          subst hx
          right; exact ⟨rfl, Nat.le_refl _⟩)
      simpa [List.append_assoc] using this
    · simp only [hc, if_false]
      have := ih (seen ++ [y]) best (List.mem_append_left _ hb) (by
        intro x hx
        rcases List.mem_append.mp hx with hx | hx
        · exact hle x hx
        · simp only [List.mem_singleton] at hx
          subst hx
          exact refLe_of_not c best x hc)
      simpa [List.append_assoc] using this

theorem closestRefLen_spec (c : Nat) (lens : List Nat) (h : lens ≠ []) :
    ∃ r, closestRefLen c lens = .ok r ∧ IsClosestRefLen c lens r := by
  cases lens with
  | nil => exact absurd rfl h
  | cons l ls =>
    refine ⟨_, rfl, ?_⟩
    have := closest_fold c ls [l] l (by simp) (by
      intro x hx
      simp only [List.mem_singleton] at hx
      subst hx
      right; exact ⟨rfl, Nat.le_refl _⟩)
    simpa [IsClosestRefLen, RefLe, absDiff] using this

theorem possibleOf_eq (len N : Nat) :
    possibleOf len N = (List.range N).map fun i => possibleMatches (i + 1) len := by
  unfold possibleOf possibleMatches
  apply List.map_congr_left
  intro i _
  omega

end ngram

end TE.TextL
