/-
  TE.Lemmas.TextLev — the dynamic programme of `_edit_distance` computes the
  textbook Levenshtein recurrence (TE.Spec.Text.levP).
-/
import TE.Model.Text
import TE.Spec.Text
namespace TE.TextL
open TE TE.Text TE.Spec.Text

variable {α : Type} [DecidableEq α]

theorem levP_zero_left (a b : List α) (j : Nat) : levP a b 0 j = j := by
  simp [levP]

theorem levP_zero_right (a b : List α) (i : Nat) : levP a b i 0 = i := by
  cases i <;> simp [levP]

theorem levP_succ (a b : List α) (i j : Nat) :
    levP a b (i + 1) (j + 1) =
      min (levP a b i (j + 1) + 1)
        (min (levP a b (i + 1) j + 1) (levP a b i j + if a[i]? = b[j]? then 0 else 1)) := by
  simp [levP]

/-- deleting the last token of the first prefix costs at most one. -/
theorem levP_succ_left_le (a b : List α) (i j : Nat) : levP a b (i + 1) j ≤ levP a b i j + 1 := by
  cases j with
  | zero => simp [levP_zero_right]
  | succ j => rw [levP_succ]; omega

theorem levP_succ_right_le (a b : List α) (i j : Nat) : levP a b i (j + 1) ≤ levP a b i j + 1 := by
  cases i with
  | zero => simp [levP_zero_left]
  | succ i => rw [levP_succ]; omega

/-- … and a longer second prefix cannot be more than one cheaper. -/
theorem levP_le_succ_right (a b : List α) (i j : Nat) : levP a b i j ≤ levP a b i (j + 1) + 1 := by
  induction i generalizing j with
  | zero => simp [levP_zero_left]; omega
  | succ i ih =>
    rw [levP_succ]
    have h1 := levP_succ_left_le a b i j
    have h2 := ih j
    split <;> omega

theorem levP_le_succ_left (a b : List α) (i j : Nat) : levP a b i j ≤ levP a b (i + 1) j + 1 := by
  induction j generalizing i with
  | zero => simp [levP_zero_right]; omega
  | succ j ih =>
    rw [levP_succ]
    have h1 := levP_succ_right_le a b i j
    have h2 := ih i
    split <;> omega

/-- the recurrence in the form the code uses: a match copies the diagonal. -/
theorem levP_step (a b : List α) (i j : Nat) :
    levP a b (i + 1) (j + 1) =
      if a[i]? = b[j]? then levP a b i j
      else min (min (levP a b i (j + 1)) (levP a b (i + 1) j)) (levP a b i j) + 1 := by
  rw [levP_succ]
  have h1 := levP_le_succ_right a b i j
  have h2 := levP_le_succ_left a b i j
  split <;> omega

/-- the inner loop fills row `i+1` from row `i`. -/
theorem rowGo_eq (a b : List α) (i : Nat) (p : α) (hp : a[i]? = some p) :
    ∀ (rs : List α) (j : Nat), b.drop j = rs →
      rowGo p rs ((List.range' j (rs.length + 1)).map (levP a b i)) (levP a b (i + 1) j)
        = (List.range' (j + 1) rs.length).map (levP a b (i + 1)) := by
  intro rs
  induction rs with
  | nil => intro j _; simp [rowGo]
  | cons r rs ih =>
    intro j hj
    have hr : b[j]? = some r := by
      have := congrArg List.head? hj
      simpa [List.head?_drop] using this
    have hrest : b.drop (j + 1) = rs := by
      have := congrArg List.tail hj
      simpa [List.tail_drop] using this
    have e1 : List.range' j ((r :: rs).length + 1) = j :: (j + 1) :: List.range' (j + 2) rs.length := by
      simp [List.length_cons, List.range'_succ]
    rw [e1]
    simp only [List.map_cons, rowGo, List.length_cons, List.range'_succ]
    have hstep := levP_step a b i j
    rw [hp, hr] at hstep
    have hv : (if p = r then levP a b i j
        else min (min (levP a b i (j + 1)) (levP a b (i + 1) j)) (levP a b i j) + 1)
        = levP a b (i + 1) (j + 1) := by
      rw [hstep]; simp
    rw [hv]
    have := ih (j + 1) hrest
    simp only [List.range'_succ, List.map_cons] at this
    rw [this]

/-- one pass of the outer loop: row `i` ↦ row `i+1`. -/
theorem nextRow_eq (a b : List α) (i : Nat) (p : α) (hp : a[i]? = some p) :
    nextRow p b ((List.range (b.length + 1)).map (levP a b i)) (i + 1)
      = (List.range (b.length + 1)).map (levP a b (i + 1)) := by
  unfold nextRow
  have h := rowGo_eq a b i p hp b 0 (by simp)
  rw [List.range_eq_range']
  rw [levP_zero_right] at h
  rw [h]
  simp [List.range'_succ, levP_zero_right]

theorem dpRows_eq (a b : List α) :
    ∀ (ps : List α) (i : Nat), a.drop i = ps → i ≤ a.length →
      dpRows b ps ((List.range (b.length + 1)).map (levP a b i)) i
        = (List.range (b.length + 1)).map (levP a b a.length) := by
  intro ps
  induction ps with
  | nil =>
    intro i hi hle
    have : a.length ≤ i := by simpa using hi
    have : i = a.length := by omega
    subst this
    rfl
  | cons p ps ih =>
    intro i hi hle
    have hp : a[i]? = some p := by
      have := congrArg List.head? hi
      simpa [List.head?_drop] using this
    have hrest : a.drop (i + 1) = ps := by
      have := congrArg List.tail hi
      simpa [List.tail_drop] using this
    have hlt : i < a.length := by
      apply Decidable.byContradiction
      intro h
      have : a.drop i = [] := by simp; omega
      rw [this] at hi; cases hi
    simp only [dpRows]
    rw [nextRow_eq a b i p hp]
    exact ih (i + 1) hrest hlt

/-- the last entry of the last row is the distance of the full sequences. -/
theorem dp_last (a b : List α) :
    (dpRows b a (List.range (b.length + 1)) 0).getLastD 0 = lev a b := by
  have h0 : List.range (b.length + 1) = (List.range (b.length + 1)).map (levP a b 0) := by
    apply List.ext_getElem <;> simp [levP_zero_left]
  rw [h0, dpRows_eq a b a 0 (by simp) (by omega)]
  simp [List.range_succ, lev]

/-- the prefix recurrence satisfies the first-token recurrence. -/
theorem levP_cons (x y : α) (a b : List α) : ∀ i j : Nat,
    levP (x :: a) (y :: b) (i + 1) (j + 1) =
      min (levP a (y :: b) i (j + 1) + 1)
        (min (levP (x :: a) b (i + 1) j + 1) (levP a b i j + if x = y then 0 else 1)) := by
  intro i
  induction i with
  | zero =>
    intro j
    induction j with
    | zero =>
      simp only [levP_succ, levP_zero_left, levP_zero_right, List.getElem?_cons_zero, Option.some.injEq]
    | succ j ih =>
      rw [levP_succ, ih, levP_succ (x :: a) b 0 j]
      simp only [levP_zero_left, List.getElem?_cons_zero, List.getElem?_cons_succ]
      split <;> split <;> omega
  | succ i ihi =>
    intro j
    induction j with
    | zero =>
      rw [levP_succ, ihi 0, levP_succ a (y :: b) i 0]
      simp only [levP_zero_right, List.getElem?_cons_zero, List.getElem?_cons_succ]
      split <;> split <;> omega
    | succ j ihj =>
      rw [levP_succ, ihi (j + 1), ihj, ihi j, levP_succ a (y :: b) i (j + 1),
        levP_succ (x :: a) b (i + 1) j, levP_succ a b i j]
      simp only [List.getElem?_cons_succ]
      generalize levP a (y :: b) i (j + 2) = A1
      generalize levP (x :: a) b (i + 1) (j + 1) = A2
      generalize levP a b i (j + 1) = A3
      generalize levP a (y :: b) (i + 1) (j + 1) = B1
      generalize levP (x :: a) b (i + 2) j = B2
      generalize levP a b (i + 1) j = B3
      generalize levP a (y :: b) i (j + 1) = C1
      generalize levP (x :: a) b (i + 1) j = C2
      generalize levP a b i j = C3
      split <;> split <;>
        simp only [Nat.add_zero, ← Nat.add_min_add_right, Nat.min_comm, Nat.min_left_comm]

theorem lev_eq_levL (a b : List α) : lev a b = levL a b := by
  fun_induction levL a b with
  | case1 b => simp [lev, levP_zero_left]
  | case2 a h => simp [lev, levP_zero_right]
  | case3 x a y b ih1 ih2 ih3 =>
    unfold lev at *
    simp only [List.length_cons] at *
    rw [levP_cons, ih1, ih2, ih3]

end TE.TextL
