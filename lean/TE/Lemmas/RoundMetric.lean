/-
  TE.Lemmas.RoundMetric — the rounding-model lemmas specialised to the sums and ratios of the metrics
  (weighted sum, squared error, streams of rounded terms, ratio of two sums), concrete rounding
  operators, and the raw-moments witness.
-/
import TE.Lemmas.RoundQuot
namespace TE.RoundL
open TE.Round TE.Round.SumTree

/-! ### the rounded terms -/

/-- `fl(w·x)` carries one rounding. -/
theorem relErr_wterm {u : Q} (hu : 0 ≤ u) (F : Fl u) (p : Q × Q) : RelErr u 1 (F.fmul p.1 p.2) (p.1 * p.2) := by
  have h := relErr_fmul hu F (relErr_refl hu 0 p.1) (relErr_refl hu 0 p.2)
  exact h

/-- `fl(fl(y−x)²)` carries three roundings (the rounded difference enters the product twice). -/
theorem relErr_sq {u : Q} (hu : 0 ≤ u) (F : Fl u) (p : Q × Q) : RelErr u 3 (fsq F p) (sq p) := by
  have h := relErr_fmul hu F (relErr_fsub hu F p.2 p.1) (relErr_fsub hu F p.2 p.1)
  exact h

/-- `fl(fl(fl(y−x)²)·w)` carries four roundings. -/
theorem relErr_sqTerm {u : Q} (hu : 0 ≤ u) (F : Fl u) (p : Q × Q × Q) : RelErr u 4 (fsqTerm F p) (sqTerm p) := by
  have h := relErr_fmul hu F (relErr_fmul hu F (relErr_fsub hu F p.2.2 p.2.1) (relErr_fsub hu F p.2.2 p.2.1))
    (relErr_refl hu 0 p.1)
  have e : sqTerm p = (p.2.2 - p.2.1) * (p.2.2 - p.2.1) * p.1 := by unfold sqTerm; ring
  rw [e]; exact h

/-- squared-error terms with non-negative weights are non-negative. -/
theorem sqTerm_nonneg (p : Q × Q × Q) (h : 0 ≤ p.1) : 0 ≤ sqTerm p :=
  mul_nonneg h (mul_self_nonneg _)

/-! ### every per-node rounding: weakening the unit roundoff, streams as relational sums -/

/-- a node computed with a smaller unit roundoff (float64 accumulation of float32 batch sums) is admissible
    for the larger one. -/
theorem RSum_mono {u u' : Q} (h : u ≤ u') {t : SumTree Q} {v : Q} (r : RSum u t v) : RSum u' t v := by
  induction r with
  | leaf x => exact RSum.leaf x
  | node _ _ hv ihl ihr =>
    exact RSum.node ihl ihr (le_trans hv (mul_le_mul_of_nonneg_right h (qabs_nonneg _)))

theorem map_comb {α β : Type} (g : α → β) (s : SumTree α) (bs : List (SumTree α)) :
    (comb s bs).map g = comb (s.map g) (bs.map (SumTree.map g)) := by
  induction bs generalizing s with
  | nil => rfl
  | cons b bs ih =>
    have := ih (node s b)
    simpa [comb, SumTree.map] using this

theorem map_map {α β γ : Type} (g : β → γ) (f : α → β) (t : SumTree α) : (t.map f).map g = t.map (g ∘ f) := by
  induction t with
  | leaf a => rfl
  | node l r ihl ihr => simp [SumTree.map, ihl, ihr]

/-- **Left comb of batches of rounded terms, every per-node rounding** (initial state 0, batch depths ≤ d, each term
    ≤ k roundings): `|v − Σ_b Σ f| ≤ ((1+u)^(d + #batches + k) − 1)·Σ_b Σ|f|`. -/
theorem comb_terms_error_any {α : Type} {u : Q} (hu : 0 ≤ u) {k : Nat} (fh f : α → Q)
    (hf : ∀ a, RelErr u k (fh a) (f a)) (bs : List (SumTree α)) (d : Nat) (hb : ∀ b ∈ bs, b.depth ≤ d)
    {v : Q} (hR : RSum u (comb (leaf 0) (bs.map fun t => t.map fh)) v) :
    qabs (v - (bs.map fun t => (t.map f).sum).sum)
      ≤ ((1 + u) ^ (d + bs.length + k) - 1) * (bs.map fun t => (t.map f).asum).sum := by
  -- one tree over `Option α`: the initial state is the leaf `none ↦ 0`
  let fh' : Option α → Q := fun o => o.elim 0 fh
  let f' : Option α → Q := fun o => o.elim 0 f
  have hf' : ∀ o, RelErr u k (fh' o) (f' o) := by
    intro o; cases o with
    | none => exact relErr_refl hu k 0
    | some a => exact hf a
  let T : SumTree (Option α) := comb (leaf none) (bs.map (SumTree.map some))
  have hTh : T.map fh' = comb (leaf 0) (bs.map fun t => t.map fh) := by
    simp only [T, map_comb, SumTree.map, List.map_map]
    congr 1
    apply List.map_congr_left
    intro t _
    simp only [Function.comp, map_map]
    rfl
  have hT : T.map f' = comb (leaf 0) (bs.map fun t => t.map f) := by
    simp only [T, map_comb, SumTree.map, List.map_map]
    congr 1
    apply List.map_congr_left
    intro t _
    simp only [Function.comp, map_map]
    rfl
  have hdepth : T.depth ≤ d + bs.length := by
    have := comb_depth (leaf (none : Option α)) (bs.map (SumTree.map some)) d (Nat.zero_le _)
      (by intro b hb'; obtain ⟨t, ht, rfl⟩ := List.mem_map.mp hb'; rw [depth_map]; exact hb t ht)
    simpa using this
  rw [← hTh] at hR
  have h := map_rsum_error hu fh' f' hf' T hR
  rw [hT, comb_sum, comb_asum] at h
  simp only [SumTree.sum, asum, qabs_zero, zero_add, List.map_map, Function.comp_def] at h
  have hA : 0 ≤ (bs.map fun t => (t.map f).asum).sum := by
    have := asum_nonneg (comb (leaf 0) (bs.map fun t => t.map f))
    rw [comb_asum] at this
    simpa [asum, qabs_zero, List.map_map, Function.comp_def] using this
  have hk : T.depth + k ≤ d + bs.length + k := by omega
  exact le_trans h (mul_le_mul_of_nonneg_right (ek_mono hu hk) hA)

/-- **Stream of batches of rounded terms** (class accumulators fed `Σ_batch f̂`), one rounding operator. -/
theorem stream_terms_error {α : Type} {u : Q} (hu : 0 ≤ u) (F : Fl u) {k : Nat} (fh f : α → Q)
    (hf : ∀ a, RelErr u k (fh a) (f a)) (bs : List (SumTree α)) (d : Nat) (hb : ∀ b ∈ bs, b.depth ≤ d) :
    qabs (stream F 0 (bs.map fun t => t.map fh) - (bs.map fun t => (t.map f).sum).sum)
      ≤ ((1 + u) ^ (d + bs.length + k) - 1) * (bs.map fun t => (t.map f).asum).sum := by
  have e := stream_eq_fsum_comb F (leaf 0) (bs.map fun t => t.map fh)
  simp only [fsum] at e
  exact comb_terms_error_any hu fh f hf bs d hb (by rw [e]; exact fsum_RSum F _)

/-- **mixed precision**: batch sums computed with `F₁ : Fl u₁` (float32 tensors), accumulated with `F₂ : Fl u₂`
    (float64 states): the accumulator value is an admissible per-node rounding of the left comb for any `u ≥ u₁, u₂`. -/
theorem mixed_stream_RSum {u1 u2 u : Q} (h1 : u1 ≤ u) (h2 : u2 ≤ u) (F1 : Fl u1) (F2 : Fl u2)
    (s : SumTree Q) (sv : Q) (hs : RSum u s sv) (bs : List (SumTree Q)) :
    RSum u (comb s bs) (lfold F2 sv (bs.map (fsum F1))) := by
  induction bs generalizing s sv with
  | nil => simpa [comb, lfold] using hs
  | cons b bs ih =>
    have hn : RSum u (node s b) (F2.fadd sv (b.fsum F1)) :=
      RSum.node hs (RSum_mono h1 (fsum_RSum F1 b))
        (le_trans (F2.err _) (mul_le_mul_of_nonneg_right h2 (qabs_nonneg _)))
    have := ih (node s b) _ hn
    simpa [comb, lfold] using this

/-! ### ratio of two sums of rounded terms -/

/-- **Ratio of two sums**, relational form (any trees, any per-node rounding, any rounded division):
    numerator terms carry ≤ ka roundings, denominator terms ≤ kb and are non-negative with positive total;
    `m` bounds `depth + k` on both sides and `4·m·u ≤ 1`:
    `|q̂ − Σf/Σg| ≤ (5m+1)·u·Σ|f|/Σg`. -/
theorem ratio_rsum_error {α β : Type} {u : Q} (hu : 0 ≤ u) {ka kb m : Nat}
    (fh f : α → Q) (hf : ∀ a, RelErr u ka (fh a) (f a)) (gh g : β → Q) (hg : ∀ b, RelErr u kb (gh b) (g b))
    (tn : SumTree α) (td : SumTree β) (hnn : (td.map g).NonNeg) (hpos : 0 < (td.map g).sum)
    (hmn : tn.depth + ka ≤ m) (hmd : td.depth + kb ≤ m) (hm : 1 ≤ m) (h4 : 4 * (m : Q) * u ≤ 1)
    {vN vD qh : Q} (rN : RSum u (tn.map fh) vN) (rD : RSum u (td.map gh) vD)
    (hq : qabs (qh - vN / vD) ≤ u * qabs (vN / vD)) :
    qabs (qh - (tn.map f).sum / (td.map g).sum) ≤ (5 * m + 1) * u * ((tn.map f).asum / (td.map g).sum) := by
  have eN := map_rsum_error hu fh f hf tn rN
  have eD := map_rsum_error hu gh g hg td rD
  rw [(asum_eq_sum_of_nonneg hnn).1] at eD
  exact quot_error_poly hu hmn hmd hm h4 hpos (qabs_sum_le_asum _) eN eD hq

/-- the same with the exact constant of `quot_error` (no linearisation): with
    `eN = (1+u)^(depth tn + ka) − 1`, `eD = (1+u)^(depth td + kb) − 1 < 1`. -/
theorem ratio_rsum_error_exact {α β : Type} {u : Q} (hu : 0 ≤ u) {ka kb : Nat}
    (fh f : α → Q) (hf : ∀ a, RelErr u ka (fh a) (f a)) (gh g : β → Q) (hg : ∀ b, RelErr u kb (gh b) (g b))
    (tn : SumTree α) (td : SumTree β) (hnn : (td.map g).NonNeg) (hpos : 0 < (td.map g).sum)
    (h1 : (1 + u) ^ (td.depth + kb) - 1 < 1)
    {vN vD qh : Q} (rN : RSum u (tn.map fh) vN) (rD : RSum u (td.map gh) vD)
    (hq : qabs (qh - vN / vD) ≤ u * qabs (vN / vD)) :
    qabs (qh - (tn.map f).sum / (td.map g).sum)
      ≤ (u + (1 + u) * (((1 + u) ^ (tn.depth + ka) - 1) + ((1 + u) ^ (td.depth + kb) - 1)) / (1 - ((1 + u) ^ (td.depth + kb) - 1)))
        * ((tn.map f).asum / (td.map g).sum) := by
  have eN := map_rsum_error hu fh f hf tn rN
  have eD := map_rsum_error hu gh g hg td rD
  rw [(asum_eq_sum_of_nonneg hnn).1] at eD
  exact quot_error hu hpos (qabs_sum_le_asum _) eN eD (ek_nonneg hu _) (ek_nonneg hu _) h1 hq

/-- `γ_d = d·u/(1 − d·u)` is non-negative and bounds `(1+u)^k − 1` for every `k ≤ d`. -/
theorem gamma_bound {u : Q} (hu : 0 ≤ u) {k d : Nat} (hk : k ≤ d) (hd : (d : Q) * u < 1) :
    0 ≤ (d : Q) * u / (1 - d * u) ∧ (1 + u) ^ k - 1 ≤ (d : Q) * u / (1 - d * u) :=
  ⟨div_nonneg (mul_nonneg (Nat.cast_nonneg d) hu) (by linarith), le_trans (ek_mono hu hk) (pow_bound_gamma hu d hd)⟩

/-- sum of rounded terms with the `γ` constant: for any `d ≥ depth + k` with `d·u < 1`. -/
theorem map_rsum_error_gamma {α : Type} {u : Q} (hu : 0 ≤ u) {k : Nat} (fh f : α → Q)
    (hf : ∀ a, RelErr u k (fh a) (f a)) (t : SumTree α) {v : Q} (h : RSum u (t.map fh) v)
    (d : Nat) (hd : t.depth + k ≤ d) (hdu : (d : Q) * u < 1) :
    qabs (v - (t.map f).sum) ≤ (d : Q) * u / (1 - d * u) * (t.map f).asum :=
  le_trans (map_rsum_error hu fh f hf t h)
    (mul_le_mul_of_nonneg_right (gamma_bound hu hd hdu).2 (asum_nonneg _))

/-- ratio of two sums of rounded terms with the `γ` constants (the expression the harness evaluates). -/
theorem ratio_rsum_error_gamma {α β : Type} {u : Q} (hu : 0 ≤ u) {ka kb : Nat}
    (fh f : α → Q) (hf : ∀ a, RelErr u ka (fh a) (f a)) (gh g : β → Q) (hg : ∀ b, RelErr u kb (gh b) (g b))
    (tn : SumTree α) (td : SumTree β) (hnn : (td.map g).NonNeg) (hpos : 0 < (td.map g).sum)
    (a b : Nat) (ha : tn.depth + ka ≤ a) (hb : td.depth + kb ≤ b) (hau : (a : Q) * u < 1) (hbu : (b : Q) * u < 1)
    (hb1 : (b : Q) * u / (1 - b * u) < 1)
    {vN vD qh : Q} (rN : RSum u (tn.map fh) vN) (rD : RSum u (td.map gh) vD)
    (hq : qabs (qh - vN / vD) ≤ u * qabs (vN / vD)) :
    qabs (qh - (tn.map f).sum / (td.map g).sum)
      ≤ (u + (1 + u) * ((a : Q) * u / (1 - a * u) + (b : Q) * u / (1 - b * u)) / (1 - (b : Q) * u / (1 - b * u)))
        * ((tn.map f).asum / (td.map g).sum) := by
  have eN := map_rsum_error_gamma hu fh f hf tn rN a ha hau
  have eD := map_rsum_error_gamma hu gh g hg td rD b hb hbu
  rw [(asum_eq_sum_of_nonneg hnn).1] at eD
  exact quot_error hu hpos (qabs_sum_le_asum _) eN eD (gamma_bound hu (Nat.le_refl a) hau).1
    (gamma_bound hu (Nat.le_refl b) hbu).1 hb1 hq

theorem map_id' (t : SumTree Q) : t.map (fun x => x) = t := by
  induction t with
  | leaf a => rfl
  | node l r ihl ihr => simp [SumTree.map, ihl, ihr]

/-! ### concrete rounding operators (non-vacuity) -/

/-- exact arithmetic is the rounding operator with `u = 0`. -/
def Fl.exact : Fl 0 := ⟨fun x => x, fun x => by
  have e : x - x = 0 := by ring
  rw [e, qabs_zero]; simp⟩

/-- `rnd x = x·(1+u)`: every operation errs by the full relative `u`, always upward in magnitude. -/
def Fl.scale (u : Q) (hu : 0 ≤ u) : Fl u := ⟨fun x => x * (1 + u), fun x => by
  have e : x * (1 + u) - x = u * x := by ring
  rw [e, qabs_mul, qabs_of_nonneg hu]⟩

/-- identity except at one point `c`, which is moved by one unit — admissible when `1 ≤ u·|c|`. -/
def Fl.bump (u c : Q) (h : 1 ≤ u * qabs c) : Fl u := ⟨fun x => if x = c then c - 1 else x, fun x => by
  have hu : 0 ≤ u := by
    by_contra hn
    have : u * qabs c ≤ 0 := mul_nonpos_of_nonpos_of_nonneg (le_of_lt (not_le.mp hn)) (qabs_nonneg c)
    linarith
  by_cases hx : x = c
  · subst hx
    have e : x - 1 - x = -1 := by ring
    rw [if_pos rfl, e, qabs_neg, qabs_of_nonneg (by norm_num : (0 : Q) ≤ 1)]; exact h
  · have e : x - x = 0 := by ring
    rw [if_neg hx, e, qabs_zero]; exact mul_nonneg hu (qabs_nonneg x)⟩

/-! ### the raw-moments total sum of squares has no such bound -/

/-- for `y = (N, N+1)`, `N > 0`, and the rounding operator that moves only `Σy² = 2N²+2N+1` down by one unit,
    the raw-moments form returns `−1/2`; the definition gives `+1/2`. -/
theorem tss_raw_bump {u N : Q} (hN : 0 < N) (h : 1 ≤ u * qabs (N * N + (N + 1) * (N + 1))) :
    ftssRaw2 (Fl.bump u (N * N + (N + 1) * (N + 1)) h) N (N + 1) = -(1 / 2) ∧ tssDef2 N (N + 1) = 1 / 2 := by
  constructor
  · have n1 : N * N ≠ N * N + (N + 1) * (N + 1) := by
      intro e; nlinarith [mul_self_nonneg (N + 1)]
    have n2 : (N + 1) * (N + 1) ≠ N * N + (N + 1) * (N + 1) := by
      intro e; nlinarith
    have n3 : N + (N + 1) ≠ N * N + (N + 1) * (N + 1) := by
      intro e; nlinarith
    have n4 : (N + (N + 1)) * (N + (N + 1)) ≠ N * N + (N + 1) * (N + 1) := by
      intro e; nlinarith
    have n5 : (N + (N + 1)) * (N + (N + 1)) / 2 ≠ N * N + (N + 1) * (N + 1) := by
      intro e
      have : (N + (N + 1)) * (N + (N + 1)) = 2 * (N * N + (N + 1) * (N + 1)) := by
        rw [← e]; ring
      nlinarith
    have e6 : N * N + (N + 1) * (N + 1) - 1 - (N + (N + 1)) * (N + (N + 1)) / 2 = -(1 / 2) := by ring
    have n6 : (-(1 / 2) : Q) ≠ N * N + (N + 1) * (N + 1) := by
      intro e; nlinarith
    simp only [ftssRaw2, Fl.fsub, Fl.fadd, Fl.fmul, Fl.fdiv, Fl.bump, if_neg n1, if_neg n2, if_neg n3, if_neg n4,
      if_neg n5, reduceIte]
    rw [e6, if_neg n6]
  · unfold tssDef2; ring

end TE.RoundL
